import Mathlib.Analysis.Real.Sqrt
import Mathlib.LinearAlgebra.Matrix.Notation
import Mathlib.Tactic.FieldSimp
import Mathlib.Tactic.Ring
import Mathlib.Tactic.LinearCombination
import Mathlib.Tactic.FinCases

/-!
One step of the Givens sweep inside `pyphysim.util.misc.gmd` (the geometric mean
decomposition): the two rotations `G1`, `G2` the code builds from
`δ1 = d[k]`, `δ2 = d[k+1]` and the geometric mean `σ̄` are orthogonal and turn
`diag(δ1, δ2)` into `[[σ̄, x], [0, y]]` with exactly the `x`, `y` the code stores.
(This file is the 2×2 algebra only.  The whole sweep — permutations, the bookkeeping of
`perm / invperm / z`, the argument that a straddling pair always exists, array bounds —
is proved for the executable model `PyPhysim.LinAlg.gmd` in `Proofs/C20GmdInv*.lean`;
`Proofs/C04GmdFromSvd.lean` carries that result into the C04 vocabulary, so that the
`…_from_svd` theorems of `Properties/C04.lean` need no hypothesis about `gmd`.  The
contract-conditional theorems `gmd_roundtrip` / `encode_energy_gmd` still take the result
of `gmd` as a contract parameter.)
-/
namespace PyPhysim.C04.Pf
open Matrix

/-- the rotation parameters the code computes: `c = sqrt((σ̄² − δ2²)/(δ1² − δ2²))`,
    `s = sqrt(1 − c²)` are a cosine / sine pair when `σ̄` lies between `δ2` and `δ1` -/
theorem gmd_cs (d1 d2 sb : ℝ) (h2 : 0 ≤ d2) (h12 : d2 < d1) (hlo : d2 ≤ sb) (hhi : sb ≤ d1) :
    let c := Real.sqrt ((sb ^ 2 - d2 ^ 2) / (d1 ^ 2 - d2 ^ 2))
    let s := Real.sqrt (1 - c ^ 2)
    c ^ 2 * (d1 ^ 2 - d2 ^ 2) = sb ^ 2 - d2 ^ 2 ∧ s ^ 2 = 1 - c ^ 2 := by
  intro c s
  have hden : 0 < d1 ^ 2 - d2 ^ 2 := by nlinarith
  have hnum : 0 ≤ sb ^ 2 - d2 ^ 2 := by nlinarith
  have hsb1 : 0 ≤ sb := le_trans h2 hlo
  have hfrac : 0 ≤ (sb ^ 2 - d2 ^ 2) / (d1 ^ 2 - d2 ^ 2) := div_nonneg hnum hden.le
  have hc2 : c ^ 2 = (sb ^ 2 - d2 ^ 2) / (d1 ^ 2 - d2 ^ 2) := Real.sq_sqrt hfrac
  have hle : (sb ^ 2 - d2 ^ 2) / (d1 ^ 2 - d2 ^ 2) ≤ 1 := by
    rw [div_le_one hden]
    nlinarith
  refine ⟨?_, ?_⟩
  · rw [hc2]
    field_simp
  · exact Real.sq_sqrt (by rw [hc2]; linarith)

/-- the step on the 2×2 block, for any cosine / sine pair satisfying the two identities
    of `gmd_cs` (so it also covers the mirrored case `δ1 < σ̄ < δ2`) -/
theorem gmd_step (d1 d2 sb c s : ℝ) (hsb : sb ≠ 0)
    (hc : c ^ 2 * (d1 ^ 2 - d2 ^ 2) = sb ^ 2 - d2 ^ 2) (hs : s ^ 2 = 1 - c ^ 2) :
    let G1 : Matrix (Fin 2) (Fin 2) ℝ := !![c, -s; s, c]
    let G2 : Matrix (Fin 2) (Fin 2) ℝ := (1 / sb) • !![c * d1, -s * d2; s * d2, c * d1]
    G2ᵀ * !![d1, 0; 0, d2] * G1 = !![sb, s * c * (d2 ^ 2 - d1 ^ 2) / sb; 0, d1 * d2 / sb] ∧
    G1ᵀ * G1 = 1 ∧ G2ᵀ * G2 = 1 := by
  intro G1 G2
  have hk : c ^ 2 * d1 ^ 2 + s ^ 2 * d2 ^ 2 = sb ^ 2 := by
    linear_combination hc + d2 ^ 2 * hs
  refine ⟨?_, ?_, ?_⟩
  · ext i j
    fin_cases i <;> fin_cases j <;>
      simp [G1, G2, Matrix.mul_apply, Fin.sum_univ_two, Matrix.transpose_apply] <;>
      field_simp
    · linear_combination hk
    · ring
    · ring
    · linear_combination (d1 * d2) * hs
  · ext i j
    fin_cases i <;> fin_cases j <;>
      simp [G1, Matrix.mul_apply, Fin.sum_univ_two, Matrix.transpose_apply]
    · linear_combination hs
    · ring
    · ring
    · linear_combination hs
  · ext i j
    fin_cases i <;> fin_cases j <;>
      simp [G2, Matrix.mul_apply, Fin.sum_univ_two, Matrix.transpose_apply] <;>
      field_simp
    · linear_combination hk
    · ring
    · ring
    · linear_combination hk

/-- the degenerate branch `flag = 1` of the code (`c = 1, s = 0`): it is exact precisely
    when `δ1` already equals the geometric mean -/
theorem gmd_step_flag (d2 sb : ℝ) (hsb : sb ≠ 0) :
    let G1 : Matrix (Fin 2) (Fin 2) ℝ := !![1, -0; 0, 1]
    let G2 : Matrix (Fin 2) (Fin 2) ℝ := (1 / sb) • !![1 * sb, -0 * d2; 0 * d2, 1 * sb]
    G2ᵀ * !![sb, 0; 0, d2] * G1 = !![sb, 0 * 1 * (d2 ^ 2 - sb ^ 2) / sb; 0, sb * d2 / sb] := by
  intro G1 G2
  ext i j
  fin_cases i <;> fin_cases j <;>
    (simp [G1, G2, Matrix.mul_apply, Fin.sum_univ_two, Matrix.transpose_apply]; try field_simp)

end PyPhysim.C04.Pf
