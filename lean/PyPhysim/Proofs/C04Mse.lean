import Mathlib.LinearAlgebra.Matrix.Trace
import Mathlib.Tactic.Linarith
import PyPhysim.Proofs.C04Filters

/-!
The MMSE receive filter minimises the mean square error
`E‖W(Hx+n) − x‖² = ‖WH − 1‖_F² + σ²‖W‖_F²` (unit-power uncorrelated data, white noise).
-/
set_option linter.unusedSectionVars false
namespace PyPhysim.C04
open Matrix
open scoped ComplexOrder
namespace Pf
variable {m n : Nat}

/-- mean square error of a linear receiver `W` for unit-power data and noise variance `s` -/
noncomputable def mseM (A : Matrix (Fin m) (Fin n) ℂ) (s : ℂ) (W : Matrix (Fin n) (Fin m) ℂ) : ℂ :=
  trace ((W * A - 1) * (W * A - 1)ᴴ) + s * trace (W * Wᴴ)

/-- push-through: `(Aᴴ A + s) W = Aᴴ` gives `W (A Aᴴ + s) = Aᴴ` -/
theorem push_through (A : Matrix (Fin m) (Fin n) ℂ) (W : Matrix (Fin n) (Fin m) ℂ) (s : ℂ)
    (hu : IsUnit (Aᴴ * A + s • (1 : Matrix (Fin n) (Fin n) ℂ)))
    (hW : (Aᴴ * A + s • (1 : Matrix (Fin n) (Fin n) ℂ)) * W = Aᴴ) :
    W * (A * Aᴴ + s • (1 : Matrix (Fin m) (Fin m) ℂ)) = Aᴴ := by
  apply unit_cancel hu
  rw [← Matrix.mul_assoc, hW]
  simp only [Matrix.mul_add, Matrix.add_mul, Matrix.mul_smul, Matrix.smul_mul, Matrix.mul_one, Matrix.one_mul,
    Matrix.mul_assoc]

theorem mse_expand (A : Matrix (Fin m) (Fin n) ℂ) (s : ℂ) (W : Matrix (Fin n) (Fin m) ℂ) :
    mseM A s W = trace (W * (A * Aᴴ + s • (1 : Matrix (Fin m) (Fin m) ℂ)) * Wᴴ) - trace (W * A)
      - trace (Aᴴ * Wᴴ) + trace (1 : Matrix (Fin n) (Fin n) ℂ) := by
  unfold mseM
  have e1 : (W * A - 1) * (W * A - 1)ᴴ = W * (A * Aᴴ) * Wᴴ - W * A - Aᴴ * Wᴴ + 1 := by
    simp only [conjTranspose_sub, conjTranspose_mul, conjTranspose_one, Matrix.sub_mul, Matrix.mul_sub,
      Matrix.mul_one, Matrix.one_mul, Matrix.mul_assoc]
    abel
  have e2 : W * (A * Aᴴ + s • (1 : Matrix (Fin m) (Fin m) ℂ)) * Wᴴ = W * (A * Aᴴ) * Wᴴ + s • (W * Wᴴ) := by
    simp only [Matrix.mul_add, Matrix.add_mul, Matrix.mul_smul, Matrix.smul_mul, Matrix.mul_one]
  rw [e1, e2]
  simp only [trace_add, trace_sub, trace_smul, smul_eq_mul]
  ring

theorem re_fro_nonneg {a b : Nat} (D : Matrix (Fin a) (Fin b) ℂ) : 0 ≤ (trace (D * Dᴴ)).re := by
  simp only [trace, diag_apply, mul_apply, conjTranspose_apply, Complex.re_sum]
  refine Finset.sum_nonneg (fun i _ => Finset.sum_nonneg (fun j _ => ?_))
  rw [Complex.star_def, Complex.mul_conj]
  simp [Complex.normSq_nonneg]

theorem fro_im {a b : Nat} (D : Matrix (Fin a) (Fin b) ℂ) : (trace (D * Dᴴ)).im = 0 := by
  simp only [trace, diag_apply, mul_apply, conjTranspose_apply, Complex.im_sum]
  refine Finset.sum_eq_zero (fun i _ => Finset.sum_eq_zero (fun j _ => ?_))
  rw [Complex.star_def, Complex.mul_conj]
  simp

/-- the error of any receiver exceeds the error of the MMSE receiver by a non-negative
    quadratic form in the difference -/
theorem mse_decomp (A : Matrix (Fin m) (Fin n) ℂ) (s : ℝ)
    (Ws W : Matrix (Fin n) (Fin m) ℂ)
    (hu : IsUnit (Aᴴ * A + (s : ℂ) • (1 : Matrix (Fin n) (Fin n) ℂ)))
    (hW : (Aᴴ * A + (s : ℂ) • (1 : Matrix (Fin n) (Fin n) ℂ)) * Ws = Aᴴ) :
    mseM A s W = mseM A s Ws + (trace (((W - Ws) * A) * ((W - Ws) * A)ᴴ)
      + (s : ℂ) * trace ((W - Ws) * (W - Ws)ᴴ)) := by
  have hp := push_through A Ws (s : ℂ) hu hW
  set N := A * Aᴴ + (s : ℂ) • (1 : Matrix (Fin m) (Fin m) ℂ) with hN
  have hNh : Nᴴ = N := by
    rw [hN]
    simp [conjTranspose_add, conjTranspose_mul, conjTranspose_smul]
  have hp2 : N * Wsᴴ = A := by
    have := congrArg conjTranspose hp
    rw [conjTranspose_mul, hNh, conjTranspose_conjTranspose] at this
    exact this
  set D := W - Ws with hD
  have hWD : W = Ws + D := by rw [hD]; abel
  rw [mse_expand, mse_expand, ← hN]
  have e1 : W * N * Wᴴ = Ws * N * Wsᴴ + Aᴴ * Dᴴ + D * A + D * N * Dᴴ := by
    rw [hWD]
    simp only [conjTranspose_add, Matrix.add_mul, Matrix.mul_add]
    rw [hp, Matrix.mul_assoc D N Wsᴴ, hp2]
    abel
  have e2 : D * N * Dᴴ = (D * A) * (D * A)ᴴ + (s : ℂ) • (D * Dᴴ) := by
    rw [hN]
    simp only [conjTranspose_mul, Matrix.mul_add, Matrix.add_mul, Matrix.mul_smul, Matrix.smul_mul,
      Matrix.mul_one, Matrix.mul_assoc]
  rw [e1, e2]
  have e3 : W * A = Ws * A + D * A := by rw [hWD, Matrix.add_mul]
  have e4 : Aᴴ * Wᴴ = Aᴴ * Wsᴴ + Aᴴ * Dᴴ := by rw [hWD, conjTranspose_add, Matrix.mul_add]
  rw [e3, e4]
  simp only [trace_add, trace_smul, smul_eq_mul]
  ring

/-- … hence the MMSE receiver minimises the mean square error -/
theorem mse_min (A : Matrix (Fin m) (Fin n) ℂ) (s : ℝ) (hs : 0 < s)
    (Ws W : Matrix (Fin n) (Fin m) ℂ)
    (hW : (Aᴴ * A + (s : ℂ) • (1 : Matrix (Fin n) (Fin n) ℂ)) * Ws = Aᴴ) :
    (mseM A s Ws).re ≤ (mseM A s W).re := by
  rw [mse_decomp A s Ws W (mmse_lhs_isUnit A hs) hW]
  have h1 := re_fro_nonneg ((W - Ws) * A)
  have h2 := re_fro_nonneg (W - Ws)
  have h3 := fro_im (W - Ws)
  simp only [Complex.add_re, Complex.mul_re, Complex.ofReal_re, Complex.ofReal_im, zero_mul, sub_zero]
  nlinarith [mul_nonneg hs.le h2]

/-- the model's `totalEnergy` is the squared Frobenius norm `tr(E Eᴴ)` -/
theorem totalEnergy_eq_trace {a b : Nat} (E : Mat ℂ a b) : totalEnergy E = trace (toM E * (toM E)ᴴ) := by
  rw [trace_mul_comm]
  simp only [totalEnergy, colEnergy, sumFin_eq, conj_def, trace, diag_apply, Matrix.mul_apply,
    conjTranspose_apply, Matrix.of_apply]
  exact Finset.sum_congr rfl (fun j _ => Finset.sum_congr rfl (fun i _ => mul_comm _ _))

/-- the model-level mean square error is `mseM` -/
theorem mseOf_eq (H : Mat ℂ m n) (s : ℂ) (W : Mat ℂ n m) : mseOf H s W = mseM (toM H) s (toM W) := by
  unfold mseOf mseM
  rw [totalEnergy_eq_trace, totalEnergy_eq_trace, toM_msub, toM_matMul, toM_eye]

end Pf
end PyPhysim.C04
