import PyPhysim.Proofs.C17
import PyPhysim.Model.C17Classes
/-!
Helper lemmas for C17, class layer: dict forms of SimulationParameters /
Result / SimulationResults survive `dec ∘ enc`, the CHOICE update invariant,
the file store.
-/
namespace PyPhysim.C17
open PyPhysim.Proto

/-! ### small facts -/

theorem norm_strVals (xs : List String) : normList (strVals xs) = strVals xs := by
  induction xs with
  | nil => rfl
  | cons x xs ih => simp only [strVals, List.map, normList, norm] at *; rw [ih]

theorem wfList_strVals (xs : List String) : wfList (strVals xs) = true := by
  induction xs with
  | nil => rfl
  | cons x xs ih => simp only [strVals, List.map, wfList, wf, Bool.true_and] at *; exact ih

theorem all_hashable_strVals (xs : List String) : (strVals xs).all hashable = true := by
  induction xs with
  | nil => rfl
  | cons x xs ih => simp only [strVals, List.map, List.all_cons, hashable, Bool.true_and] at *; exact ih

theorem strList_strVals (xs : List String) : strList (strVals xs) = some xs := by
  induction xs with
  | nil => rfl
  | cons x xs ih => simp only [strVals, List.map, strList] at *; rw [ih]; rfl

/-! ### SimulationParameters -/

theorem wf_paramsToDict : ∀ c : Chain, wfChain c = true → wf (paramsToDict c) = true
  | [], _ => rfl
  | n :: rest, h => by
    simp only [wfChain, List.all_cons, Bool.and_eq_true, wfNode] at h
    have ih := wf_paramsToDict rest (by simpa [wfChain] using h.2)
    simp only [paramsToDict, wf, wfKVs, h.1.1, h.1.2, ih, all_hashable_strVals, wfList_strVals,
      Bool.and_true]
    decide

theorem norm_paramsToDict : ∀ c : Chain, norm (paramsToDict c) = paramsToDict (normChain c)
  | [] => rfl
  | n :: rest => by
    simp only [paramsToDict, norm, normKVs, norm_strVals, normChain, List.map, Node.norm]
    rw [norm_paramsToDict rest]; rfl

theorem paramsFromDict_step (fuel : Nat) (ps us idx orig : PyVal) :
    paramsFromDict (fuel + 1) (.dict [("parameters", ps), ("unpacked_parameters_set", us),
        ("unpack_index", idx), ("original_sim_params", orig)]) =
      ((match orig with
        | .none => (.ok [] : R Chain)
        | o => paramsFromDict fuel o).bind fun rest =>
        match ps, us, idx with
        | .dict p, .set u, .int i =>
          match strList u with
          | some names => .ok ({ parameters := p, unpacked := names, unpackIndex := i } :: rest)
          | .none => .error .unmodelled
        | _, _, _ => .error .unmodelled) := rfl

/-- `_from_dict ∘ _to_dict` is the identity on every chain, given fuel for its depth -/
theorem paramsFromDict_toDict : ∀ (c : Chain) (fuel : Nat), c ≠ [] → c.length ≤ fuel →
    paramsFromDict fuel (paramsToDict c) = .ok c
  | [], _, h, _ => absurd rfl h
  | n :: rest, 0, _, hf => by simp at hf
  | n :: rest, fuel + 1, _, hf => by
    simp only [paramsToDict]
    rw [paramsFromDict_step]
    cases rest with
    | nil => simp [paramsToDict, strList_strVals]
    | cons m rest' =>
      have ih := paramsFromDict_toDict (m :: rest') fuel (by simp) (by simpa using hf)
      simp only [paramsToDict] at ih ⊢
      rw [ih]
      simp [strList_strVals]

theorem normChain_length (c : Chain) : (normChain c).length = c.length := by simp [normChain]

theorem params_json_roundtrip (c : Chain) (fuel : Nat) (hne : c ≠ []) (hf : c.length ≤ fuel)
    (h : wfChain c = true) : paramsFromJson fuel (paramsToJson c) = .ok (normChain c) := by
  unfold paramsFromJson paramsToJson
  rw [dec_enc_aux _ (wf_paramsToDict c h), norm_paramsToDict]
  simp only [bind_ok]
  apply paramsFromDict_toDict
  · cases c with
    | nil => exact absurd rfl hne
    | cons n r => simp [normChain]
  · rw [normChain_length]; exact hf

theorem wfChain_norm (c : Chain) (h : wfChain c = true) : wfChain (normChain c) = true := by
  induction c with
  | nil => rfl
  | cons n r ih =>
    simp only [wfChain, List.all_cons, Bool.and_eq_true, wfNode] at h
    simp only [normChain, List.map, wfChain, List.all_cons, Bool.and_eq_true, wfNode, Node.norm]
    exact ⟨⟨wfKVs_norm _ h.1.1, h.1.2⟩, by simpa [wfChain, normChain] using ih (by simpa [wfChain] using h.2)⟩

theorem normChain_idem (c : Chain) : normChain (normChain c) = normChain c := by
  induction c with
  | nil => rfl
  | cons n r ih =>
    simp only [normChain, List.map, Node.norm, normKVs_normKVs] at *
    rw [ih]

/-! ### Result -/

theorem result_keys (r : Result) :
    resultFromDict (resultToDict r) =
      (if isIterable r.value && r.typeCode == 3 then
        match r.value with
        | .ndarray _ [n] (.list cs) =>
          match intList cs with
          | some counts =>
            if n = counts.length then .ok (choiceReplay r.name r.acc counts r.valueList) else .error .unmodelled
          | .none => .error .unmodelled
        | _ => .error .unmodelled
      else if r.typeCode == 3 then raise .RuntimeError
      else .ok r) := rfl

theorem wf_resultToDict (r : Result) (h : wfResult r = true) : wf (resultToDict r) = true := by
  simp only [wfResult, Bool.and_eq_true] at h
  obtain ⟨⟨⟨⟨⟨⟨h1, h2⟩, h3⟩, h4⟩, h5⟩, h6⟩, h7⟩ := h
  simp only [resultToDict, wf, wfKVs, h1, h2, h3, h4, h5, h6, h7, Bool.and_true]
  decide

theorem norm_resultToDict (r : Result) : norm (resultToDict r) = resultToDict r.norm := rfl

/-- dict/JSON round trip of any state of a result that is not of CHOICETYPE -/
theorem result_plain_roundtrip (r : Result) (ht : r.typeCode ≠ 3) (h : wfResult r = true) :
    resultFromJson (resultToJson r) = .ok r.norm := by
  unfold resultFromJson resultToJson
  rw [dec_enc_aux _ (wf_resultToDict r h), norm_resultToDict]
  simp only [bind_ok]
  rw [result_keys]
  have : (r.norm.typeCode == 3) = false := by
    simp only [Result.norm]; exact beq_false_of_ne ht
  simp [this]

/-! ### CHOICE -/

theorem natSum_bump : ∀ (cs : List Nat) (i : Nat), i < cs.length → natSum (bump cs i) = natSum cs + 1
  | [], _, h => by simp at h
  | c :: cs, 0, _ => by simp only [bump, natSum]; omega
  | c :: cs, i + 1, h => by
    simp only [bump, natSum]
    rw [natSum_bump cs i (by simpa using h)]; omega

theorem length_bump : ∀ (cs : List Nat) (i : Nat), (bump cs i).length = cs.length
  | [], _ => rfl
  | c :: cs, 0 => rfl
  | c :: cs, i + 1 => by simp only [bump, List.length_cons]; rw [length_bump cs i]

theorem natSum_replicate_zero (n : Nat) : natSum (List.replicate n 0) = 0 := by
  induction n with
  | zero => rfl
  | succ n ih => simp only [List.replicate, natSum, ih]

theorem wf_of_choiceIndex (p : PyVal) (i : Int) (h : choiceIndex p = some i) : wf p = true := by
  cases p <;> simp_all [choiceIndex, wf]

/-- what every state reached by CHOICE updates satisfies -/
def choiceInv (n : Nat) (c : Choice) : Prop :=
  c.counts.length = n ∧ c.total = natSum c.counts ∧ c.numUpdates = natSum c.counts ∧ wfList c.valueList = true

theorem wfList_append_one (xs : List PyVal) (x : PyVal) (h : wfList xs = true) (hx : wf x = true) :
    wfList (xs ++ [x]) = true := by
  induction xs with
  | nil => simp [wfList, hx]
  | cons y ys ih =>
    simp only [wfList, Bool.and_eq_true] at h
    simp only [List.cons_append, wfList, Bool.and_eq_true]
    exact ⟨h.1, ih h.2⟩

theorem choiceApply_inv (n : Nat) (c c' : Choice) (p : PyVal) (hinv : choiceInv n c)
    (h : choiceApply c p = .ok c') : choiceInv n c' ∧ c'.name = c.name ∧ c'.acc = c.acc := by
  unfold choiceApply at h
  cases hi : choiceIndex p with
  | none => rw [hi] at h; cases h
  | some i =>
    rw [hi] at h
    simp only at h
    split at h
    · rename_i hr
      injection h with h
      subst h
      obtain ⟨hl, ht, hn, hw⟩ := hinv
      have hidx : (if i < 0 then i + (c.counts.length : Int) else i).toNat < c.counts.length := by
        split <;> omega
      refine ⟨⟨?_, ?_, ?_, ?_⟩, rfl, rfl⟩
      · simp only [length_bump]; exact hl
      · simp only [natSum_bump _ _ hidx]; omega
      · simp only [natSum_bump _ _ hidx]; omega
      · show wfList (if c.acc = true then c.valueList ++ [p] else c.valueList) = true
        split
        · exact wfList_append_one _ _ hw (wf_of_choiceIndex p i hi)
        · exact hw
    · cases h

theorem choiceUpdate_inv (n : Nat) (c c' : Choice) (p : PyVal) (hinv : choiceInv n c)
    (h : choiceUpdate c p = .ok c') : choiceInv n c' ∧ c'.name = c.name ∧ c'.acc = c.acc :=
  choiceApply_inv n c c' (itemOf p) hinv h

theorem runChoice_inv (n : Nat) : ∀ (ops : List PyVal) (c c' : Choice), choiceInv n c →
    runChoice c ops = .ok c' → choiceInv n c' ∧ c'.name = c.name ∧ c'.acc = c.acc
  | [], c, c', hinv, h => by
    simp only [runChoice] at h; injection h with h; subst h; exact ⟨hinv, rfl, rfl⟩
  | p :: ps, c, c', hinv, h => by
    simp only [runChoice] at h
    cases hu : choiceUpdate c p with
    | error e => rw [hu] at h; cases h
    | ok c1 =>
      rw [hu] at h
      obtain ⟨h1, hn, ha⟩ := choiceUpdate_inv n c c1 p hinv hu
      obtain ⟨h2, hn2, ha2⟩ := runChoice_inv n ps c1 c' h1 h
      exact ⟨h2, hn2.trans hn, ha2.trans ha⟩

/-! the values a CHOICE result accumulates are Python scalars (`update` converts on entry) -/

theorem norm_itemOf_index (p : PyVal) (i : Int) (h : choiceIndex (itemOf p) = some i) :
    norm (itemOf p) = itemOf p := by
  cases p with
  | ndarray dt sh d =>
    cases sh with
    | nil => simp only [itemOf]; exact norm_norm d
    | cons a r => simp [itemOf, choiceIndex] at h
  | _ => first | rfl | (simp [itemOf, choiceIndex] at h)

theorem normList_append_one (xs : List PyVal) (x : PyVal) (h : normList xs = xs) (hx : norm x = x) :
    normList (xs ++ [x]) = xs ++ [x] := by
  induction xs with
  | nil => simp [normList, hx]
  | cons y ys ih =>
    simp only [normList, List.cons.injEq] at h
    simp only [List.cons_append, normList, h.1, ih h.2]

theorem choiceUpdate_plain (c c' : Choice) (p : PyVal) (hp : normList c.valueList = c.valueList)
    (h : choiceUpdate c p = .ok c') : normList c'.valueList = c'.valueList := by
  unfold choiceUpdate choiceApply at h
  cases hi : choiceIndex (itemOf p) with
  | none => rw [hi] at h; cases h
  | some i =>
    rw [hi] at h
    simp only at h
    split at h
    · injection h with h
      subst h
      show normList (if c.acc = true then c.valueList ++ [itemOf p] else c.valueList) = _
      split
      · exact normList_append_one _ _ hp (norm_itemOf_index p i hi)
      · exact hp
    · cases h

theorem runChoice_plain : ∀ (ops : List PyVal) (c c' : Choice), normList c.valueList = c.valueList →
    runChoice c ops = .ok c' → normList c'.valueList = c'.valueList
  | [], c, c', hp, h => by simp only [runChoice] at h; injection h with h; subst h; exact hp
  | p :: ps, c, c', hp, h => by
    simp only [runChoice] at h
    cases hu : choiceUpdate c p with
    | error e => rw [hu] at h; cases h
    | ok c1 => rw [hu] at h; exact runChoice_plain ps c1 c' (choiceUpdate_plain c c1 p hp hu) h

theorem choiceInit_inv (name : String) (acc : Bool) (n : Nat) : choiceInv n (choiceInit name acc n) := by
  refine ⟨by simp [choiceInit], ?_, ?_, rfl⟩ <;> simp [choiceInit, natSum_replicate_zero]

theorem leavesOk_countVals (cs : List Nat) : leavesOkList .int (countVals cs) = true := by
  induction cs with
  | nil => rfl
  | cons c cs ih => simp only [countVals, List.map, leavesOkList, leavesOk] at *; simpa using ih

theorem inferList_countVals : ∀ cs : List Nat, inferList (countVals cs) = some [cs.length]
  | [] => rfl
  | [c] => rfl
  | c :: d :: cs => by
    have ih := inferList_countVals (d :: cs)
    simp only [countVals, List.map] at ih ⊢
    simp only [inferList, inferShape] at ih ⊢
    rw [ih]
    simp

theorem collapse_single (n : Nat) : collapse [n] = [n] := by
  cases n <;> rfl

theorem intList_countVals (cs : List Nat) : intList (countVals cs) = some (cs.map (fun (c : Nat) => (c : Int))) := by
  induction cs with
  | nil => rfl
  | cons c cs ih => simp only [countVals, List.map, intList] at *; rw [ih]; rfl

theorem norm_countVals (cs : List Nat) : normList (countVals cs) = countVals cs := by
  induction cs with
  | nil => rfl
  | cons c cs ih => simp only [countVals, List.map, normList, norm] at *; rw [ih]

theorem map_toNat_cast (cs : List Nat) : (cs.map (fun (c : Nat) => (c : Int))).map Int.toNat = cs := by
  induction cs with
  | nil => rfl
  | cons c cs ih => simp [ih]

theorem wf_choice_toResult (c : Choice) (hw : wfList c.valueList = true) : wfResult c.toResult = true := by
  simp only [wfResult, Choice.toResult, wf, zeroF, hw, wfList, Bool.and_true]
  have : dtypeKind "int64" = some Leaf.int := by decide
  rw [this]
  simp only [leavesOk, leavesOk_countVals, inferShape, inferList_countVals, collapse_single, Bool.true_and]
  simp

/-- dict/JSON round trip of a CHOICE result in a state satisfying the update invariant -/
theorem result_choice_roundtrip (c : Choice) (ht : c.total = natSum c.counts)
    (hn : c.numUpdates = natSum c.counts) (hw : wfList c.valueList = true) :
    resultFromJson (resultToJson c.toResult) = .ok c.toResult.norm := by
  unfold resultFromJson resultToJson
  rw [dec_enc_aux _ (wf_resultToDict _ (wf_choice_toResult c hw)), norm_resultToDict]
  simp only [bind_ok]
  rw [result_keys]
  simp only [Result.norm, Choice.toResult, norm, isIterable, beq_self_eq_true, Bool.and_self, if_true,
    intList_countVals, List.length_map, choiceReplay, map_toNat_cast, ht, hn, normList, zeroF]

/-! ### SimulationResults -/

theorem result_good_roundtrip (r : Result) (h : goodResult r) :
    wf (resultToDict r) = true ∧ resultFromDict (norm (resultToDict r)) = .ok r.norm := by
  rcases h with ⟨ht, hw⟩ | ⟨c, rfl, ht, hn, hw⟩
  · refine ⟨wf_resultToDict r hw, ?_⟩
    have := result_plain_roundtrip r ht hw
    unfold resultFromJson resultToJson at this
    rwa [dec_enc_aux _ (wf_resultToDict r hw)] at this
  · have hwf := wf_resultToDict _ (wf_choice_toResult c hw)
    refine ⟨hwf, ?_⟩
    have := result_choice_roundtrip c ht hn hw
    unfold resultFromJson resultToJson at this
    rwa [dec_enc_aux _ hwf] at this

theorem results_vals_roundtrip : ∀ rs : List Result, (∀ r ∈ rs, goodResult r) →
    wfList (resultsToVals rs) = true ∧ resultsFromVals (normList (resultsToVals rs)) = .ok (normResults rs)
  | [], _ => ⟨rfl, rfl⟩
  | r :: rs, h => by
    obtain ⟨h1, h2⟩ := result_good_roundtrip r (h r (by simp))
    obtain ⟨i1, i2⟩ := results_vals_roundtrip rs (fun x hx => h x (by simp [hx]))
    refine ⟨by simp only [resultsToVals, wfList, h1, i1, Bool.and_self], ?_⟩
    simp only [resultsToVals, normList, resultsFromVals, h2, i2, bind_ok, normResults]

/-- result names are keys of a JSON object, so they too must avoid the reserved keys -/
def goodResults (kvs : List (String × List Result)) : Prop :=
  ∀ p ∈ kvs, reserved p.1 = false ∧ ∀ r ∈ p.2, goodResult r

theorem results_kvs_roundtrip : ∀ kvs : List (String × List Result), goodResults kvs →
    wfKVs (resultsToKVs kvs) = true ∧
      resultsFromKVs (normKVs (resultsToKVs kvs)) = .ok (normResultKVs kvs)
  | [], _ => ⟨rfl, rfl⟩
  | (n, rs) :: rest, h => by
    obtain ⟨hn, hr⟩ := h (n, rs) (by simp)
    obtain ⟨h1, h2⟩ := results_vals_roundtrip rs hr
    obtain ⟨i1, i2⟩ := results_kvs_roundtrip rest (fun p hp => h p (by simp [hp]))
    refine ⟨by simp only [resultsToKVs, wfKVs, wf, hn, h1, i1, Bool.not_false, Bool.and_self], ?_⟩
    simp only [resultsToKVs, normKVs, norm, resultsFromKVs, h2, i2, bind_ok, normResultKVs]

/-- everything `simToDict` needs of an object for the round trip -/
def goodSim (s : SimResults) : Prop :=
  goodResults s.results ∧ s.params ≠ [] ∧ wfChain s.params = true ∧ wf s.runnedReps = true
    ∧ wf s.originalFilename = true ∧ wf s.currentRep = true

theorem wf_simToDict (s : SimResults) (h : goodSim s) : wf (simToDict s) = true := by
  obtain ⟨hr, _, hp, h1, h2, h3⟩ := h
  simp only [simToDict, wf, wfKVs, wf_paramsToDict _ hp, h1, h2, h3, (results_kvs_roundtrip _ hr).1,
    Bool.and_true]
  decide

theorem simFromDict_step (fuel : Nat) (a b c d : PyVal) (rd : List (String × PyVal)) :
    simFromDict fuel (.dict [("params", a), ("runned_reps", b), ("original_filename", c),
        ("current_rep", d), ("results", .dict rd)]) =
      ((resultsFromKVs rd).bind fun results =>
        (paramsFromDict fuel a).bind fun params =>
          .ok { results := results, params := params, runnedReps := b, originalFilename := c,
                currentRep := d }) := rfl

theorem sim_dict_roundtrip (s : SimResults) (fuel : Nat) (h : goodSim s) (hf : s.params.length ≤ fuel) :
    simFromDict fuel (norm (simToDict s)) = .ok s.norm := by
  obtain ⟨hr, hne, hp, h1, h2, h3⟩ := h
  simp only [simToDict, norm, normKVs]
  rw [simFromDict_step, (results_kvs_roundtrip _ hr).2]
  simp only [bind_ok]
  rw [norm_paramsToDict, paramsFromDict_toDict]
  · rfl
  · cases hs : s.params with
    | nil => exact absurd hs hne
    | cons n r => simp [normChain]
  · rw [normChain_length]; exact hf

theorem sim_json_roundtrip (s : SimResults) (fuel : Nat) (h : goodSim s) (hf : s.params.length ≤ fuel) :
    simFromJson fuel (simToJson s) = .ok s.norm := by
  unfold simFromJson simToJson
  rw [dec_enc_aux _ (wf_simToDict s h)]
  exact sim_dict_roundtrip s fuel h hf

end PyPhysim.C17

namespace PyPhysim.C17

/-! ### the loaded object is again an object the round trip accepts, and a fixed point -/

theorem Result.norm_norm (r : Result) : r.norm.norm = r.norm := by
  simp only [Result.norm, PyPhysim.C17.norm_norm, normList_normList]

theorem wfResult_norm (r : Result) (h : wfResult r = true) : wfResult r.norm = true := by
  simp only [wfResult, Bool.and_eq_true] at h
  obtain ⟨⟨⟨⟨⟨⟨h1, h2⟩, h3⟩, h4⟩, h5⟩, h6⟩, h7⟩ := h
  simp only [wfResult, Result.norm, wf_norm_aux _ h1, wf_norm_aux _ h2, wf_norm_aux _ h3, wf_norm_aux _ h4,
    wf_norm_aux _ h5, wfList_norm _ h6, wfList_norm _ h7, Bool.and_self]

theorem choice_toResult_norm (c : Choice) :
    c.toResult.norm = ({ c with valueList := normList c.valueList } : Choice).toResult := rfl

theorem goodResult_norm (r : Result) (h : goodResult r) : goodResult r.norm := by
  rcases h with ⟨ht, hw⟩ | ⟨c, rfl, ht, hn, hw⟩
  · exact Or.inl ⟨ht, wfResult_norm r hw⟩
  · exact Or.inr ⟨{ c with valueList := normList c.valueList }, choice_toResult_norm c, ht, hn,
      wfList_norm _ hw⟩

theorem normResults_idem : ∀ rs : List Result, normResults (normResults rs) = normResults rs
  | [] => rfl
  | r :: rs => by simp only [normResults, Result.norm_norm, normResults_idem rs]

theorem normResultKVs_idem : ∀ kvs : List (String × List Result),
    normResultKVs (normResultKVs kvs) = normResultKVs kvs
  | [] => rfl
  | (n, rs) :: rest => by simp only [normResultKVs, normResults_idem, normResultKVs_idem rest]

theorem mem_normResults : ∀ (rs : List Result) (x : Result), x ∈ normResults rs → ∃ r ∈ rs, x = r.norm
  | [], x, h => by simp [normResults] at h
  | r :: rs, x, h => by
    simp only [normResults, List.mem_cons] at h
    rcases h with rfl | h
    · exact ⟨r, by simp, rfl⟩
    · obtain ⟨r', hr', rfl⟩ := mem_normResults rs x h
      exact ⟨r', by simp [hr'], rfl⟩

theorem goodResults_norm : ∀ kvs : List (String × List Result), goodResults kvs →
    goodResults (normResultKVs kvs)
  | [], _ => by intro p hp; simp [normResultKVs] at hp
  | (n, rs) :: rest, h => by
    intro p hp
    simp only [normResultKVs, List.mem_cons] at hp
    rcases hp with rfl | hp
    · obtain ⟨hn, hr⟩ := h (n, rs) (by simp)
      refine ⟨hn, ?_⟩
      intro x hx
      obtain ⟨r, hr', rfl⟩ := mem_normResults rs x hx
      exact goodResult_norm r (hr r hr')
    · exact goodResults_norm rest (fun q hq => h q (by simp [hq])) p hp

theorem SimResults.norm_norm (s : SimResults) : s.norm.norm = s.norm := by
  simp only [SimResults.norm, normResultKVs_idem, normChain_idem, PyPhysim.C17.norm_norm]

theorem goodSim_norm (s : SimResults) (h : goodSim s) : goodSim s.norm := by
  obtain ⟨h1, h2, h3, h4, h5, h6⟩ := h
  refine ⟨goodResults_norm _ h1, ?_, wfChain_norm _ h3, wf_norm_aux _ h4, wf_norm_aux _ h5, wf_norm_aux _ h6⟩
  simp only [SimResults.norm]
  cases hs : s.params with
  | nil => exact absurd hs h2
  | cons n r => simp [normChain]

theorem resultsToVals_norm : ∀ rs : List Result, resultsToVals (normResults rs) = normList (resultsToVals rs)
  | [] => rfl
  | r :: rs => by simp only [normResults, resultsToVals, normList, resultsToVals_norm rs, norm_resultToDict]

theorem resultsToKVs_norm : ∀ kvs : List (String × List Result),
    resultsToKVs (normResultKVs kvs) = normKVs (resultsToKVs kvs)
  | [] => rfl
  | (n, rs) :: rest => by
    simp only [normResultKVs, resultsToKVs, normKVs, norm, resultsToVals_norm rs, resultsToKVs_norm rest]

theorem simToDict_norm (s : SimResults) : simToDict s.norm = norm (simToDict s) := by
  simp only [simToDict, SimResults.norm, norm, normKVs, norm_paramsToDict, resultsToKVs_norm]

theorem simToJson_norm (s : SimResults) : simToJson s.norm = simToJson s := by
  unfold simToJson
  rw [simToDict_norm, enc_norm_aux]

end PyPhysim.C17
