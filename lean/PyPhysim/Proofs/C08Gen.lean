import PyPhysim.Proofs.C08
import PyPhysim.Generated.C08Effects
import PyPhysim.Proofs.CacheEffects
/-!
# C08 — the effect of the model's `step` on the state fields, as a finite table

`Generated/C08Effects.lean` (re-emitted from `multiuser.py` on every run) lists,
per class and per public entry point, which attributes are reset / assigned /
possibly written / possibly lazily filled.  This file provides the MODEL side of
the comparison:

* `Fld` names the fields of `State`; `effect isExt kind` is the effect table of
  the model operation `kind` on an object of the plain (`isExt = false`) or the
  external-interference class;
* `step_frame`, `step_fills`, `step_clears` prove that the table is what
  `step Cfg.fixed` does, for every state and every argument: a field outside the
  table is unchanged, a field listed under `fills` is unchanged or goes from
  `none` to a value, a field listed under `clears` is `none` after every
  accepted call;
* `specDeps` is the dependency table of the derived fields, read off the
  coherence invariant: `coherent_congr` proves that `Coherent` only looks at a
  derived field and at the fields `specDeps` lists for it;
* the translation between fields and Python attribute names, and the expected
  rows / attribute lists the bridge theorems of `Properties/C08.lean` compare the
  generated tables with.
-/
namespace PyPhysim.C08
open PyPhysim.Proto PyPhysim.CacheEffects

/-- the fields of `State` (the class flag `isExt` never changes) -/
inductive Fld where
  | raw | nr | nt | k | extK | pl | plBig | bigHc | hc | w | bigWc | noiseVar | lastNoise
  deriving DecidableEq, Repr

def Fld.all : List Fld :=
  [.raw, .nr, .nt, .k, .extK, .pl, .plBig, .bigHc, .hc, .w, .bigWc, .noiseVar, .lastNoise]

/-- the constructors of `Op`, without their arguments -/
inductive Kind where
  | init | randomize | setPL | setNoise | setW | readH | readBigH | readHkl | readHk | readBigHNoExt
  | readHkNoExt | readHNoExt | corrupt | readLayout | readPL | readBigWView | readNoiseVar
  | readLastNoise | corruptCat | stackData | query
  deriving DecidableEq, Repr

section
variable {α : Type}

def Op.kind : Op α → Kind
  | .init .. => .init | .randomize .. => .randomize | .setPL .. => .setPL | .setNoise .. => .setNoise
  | .setW .. => .setW | .readH => .readH | .readBigH => .readBigH | .readHkl .. => .readHkl
  | .readHk .. => .readHk | .readBigHNoExt => .readBigHNoExt | .readHkNoExt .. => .readHkNoExt
  | .readHNoExt => .readHNoExt | .corrupt .. => .corrupt | .readLayout => .readLayout | .readPL => .readPL
  | .readBigWView => .readBigWView | .readNoiseVar => .readNoiseVar | .readLastNoise => .readLastNoise
  | .corruptCat .. => .corruptCat | .stackData .. => .stackData | .query => .query

/-- the two states have the same value in field `f` -/
def Fld.agree (f : Fld) (a b : State α) : Prop :=
  match f with
  | .raw => a.raw = b.raw | .nr => a.nr = b.nr | .nt => a.nt = b.nt | .k => a.k = b.k
  | .extK => a.extK = b.extK | .pl => a.pl = b.pl | .plBig => a.plBig = b.plBig
  | .bigHc => a.bigHc = b.bigHc | .hc => a.hc = b.hc | .w => a.w = b.w | .bigWc => a.bigWc = b.bigWc
  | .noiseVar => a.noiseVar = b.noiseVar | .lastNoise => a.lastNoise = b.lastNoise

/-- field `f` holds `None` (never the case for the fields that are not optional) -/
def Fld.isNone (f : Fld) (a : State α) : Prop :=
  match f with
  | .pl => a.pl = none | .plBig => a.plBig = none | .bigHc => a.bigHc = none | .hc => a.hc = none
  | .w => a.w = none | .bigWc => a.bigWc = none | .noiseVar => a.noiseVar = none
  | .lastNoise => a.lastNoise = none
  | _ => False

end

/-- effect of one model operation on the fields -/
structure Eff where
  clears : List Fld := []
  assigns : List Fld := []
  mayWrite : List Fld := []
  fills : List Fld := []
  deriving DecidableEq, Repr

def Eff.touched (e : Eff) : List Fld := e.clears ++ e.assigns ++ e.mayWrite ++ e.fills

/-- what `step Cfg.fixed` does to the fields, per class and operation -/
def effect (isExt : Bool) : Kind → Eff
  | .init | .randomize =>
    { clears := [.bigHc, .hc], assigns := [.raw, .nr, .nt, .k, .extK, .plBig], mayWrite := [.pl] }
  | .setPL => { clears := [.bigHc, .hc], assigns := [.pl, .plBig] }
  | .setNoise => { assigns := [.noiseVar] }
  | .setW => { clears := [.bigWc], assigns := [.w] }
  | .readH | .readHkl => if isExt then {} else { fills := [.hc] }
  | .readBigH | .readHk => { fills := [.bigHc] }
  -- the three ExtInt-only views: `AttributeError` on the plain class; `H_no_ext_int` goes through the
  -- ExtInt `H` getter, which does not cache
  | .readBigHNoExt | .readHkNoExt => if isExt then { fills := [.bigHc] } else {}
  | .readHNoExt => {}
  | .corrupt | .corruptCat => { assigns := [.lastNoise], fills := [.bigHc, .bigWc] }
  | .readBigWView => { fills := [.bigWc] }
  | .readLayout | .readPL | .readNoiseVar | .readLastNoise | .stackData | .query => {}

/-! ## the table is what `step` does -/
set_option linter.unusedSectionVars false
set_option linter.unusedSimpArgs false
section Sound
variable {α : Type} [Add α] [Mul α] [Zero α]

/-- `b` is `a` except (possibly) in the fields `fs` -/
def SameOutside (fs : List Fld) (a b : State α) : Prop :=
  a.isExt = b.isExt ∧ ∀ f, f ∉ fs → f.agree a b

/-- field `f` is unchanged or went from `None` to a value -/
def FillOnly (f : Fld) (a b : State α) : Prop := f.agree a b ∨ (f.isNone a ∧ ¬ f.isNone b)

theorem SameOutside.refl (a : State α) : SameOutside [] a a :=
  ⟨rfl, fun f _ => by cases f <;> rfl⟩

theorem Fld.agree_trans {f : Fld} {a b c : State α} (h1 : f.agree a b) (h2 : f.agree b c) : f.agree a c := by
  cases f <;> exact Eq.trans h1 h2

theorem SameOutside.trans {fs gs : List Fld} {a b c : State α} (h1 : SameOutside fs a b)
    (h2 : SameOutside gs b c) : SameOutside (fs ++ gs) a c :=
  ⟨h1.1.trans h2.1, fun f hf => by
    simp only [List.mem_append, not_or] at hf
    exact Fld.agree_trans (h1.2 f hf.1) (h2.2 f hf.2)⟩

theorem SameOutside.mono {fs gs : List Fld} {a b : State α} (h : SameOutside fs a b)
    (hs : ∀ f ∈ fs, f ∈ gs) : SameOutside gs a b :=
  ⟨h.1, fun f hf => h.2 f fun hm => hf (hs f hm)⟩

theorem FillOnly.of_agree_left {f : Fld} {a b c : State α} (h1 : f.agree a b) (h2 : FillOnly f b c) :
    FillOnly f a c := by
  cases f <;> simp only [FillOnly, Fld.agree, Fld.isNone] at * <;> simp_all

theorem FillOnly.of_agree_right {f : Fld} {a b c : State α} (h1 : FillOnly f a b) (h2 : f.agree b c) :
    FillOnly f a c := by
  cases f <;> simp only [FillOnly, Fld.agree, Fld.isNone] at * <;> simp_all

theorem readBigH_same (F : Fns α) (st : State α) :
    SameOutside [.bigHc] st (readBigH F st).1 ∧ FillOnly .bigHc st (readBigH F st).1 := by
  unfold readBigH
  cases hp : st.pl with
  | none => exact ⟨⟨rfl, fun f _ => by cases f <;> simp_all [Fld.agree]⟩, .inl (by simp_all [Fld.agree])⟩
  | some p =>
    cases hb : st.bigHc with
    | some M => exact ⟨⟨rfl, fun f _ => by cases f <;> simp_all [Fld.agree]⟩, .inl (by simp_all [Fld.agree])⟩
    | none =>
      cases hq : st.plBig with
      | none => exact ⟨⟨rfl, fun f _ => by cases f <;> simp_all [Fld.agree]⟩, .inl (by simp_all [Fld.agree])⟩
      | some P =>
        refine ⟨⟨rfl, fun f hf => ?_⟩, .inr ⟨hb, by simp [Fld.isNone]⟩⟩
        cases f <;> simp_all [Fld.agree]

theorem readH_same (F : Fns α) (st : State α) :
    SameOutside (if st.isExt then [] else [.hc]) st (readH F st).1 ∧ FillOnly .hc st (readH F st).1 := by
  unfold readH
  cases he : st.isExt with
  | true => cases hp : st.pl <;> exact ⟨⟨rfl, fun f _ => by cases f <;> simp_all [Fld.agree]⟩, .inl (by simp_all [Fld.agree])⟩
  | false =>
    cases hp : st.pl with
    | none => exact ⟨⟨rfl, fun f _ => by cases f <;> simp_all [Fld.agree]⟩, .inl (by simp_all [Fld.agree])⟩
    | some p =>
      cases hh : st.hc with
      | some H => exact ⟨⟨rfl, fun f _ => by cases f <;> simp_all [Fld.agree]⟩, .inl (by simp_all [Fld.agree])⟩
      | none =>
        refine ⟨⟨by simp [he], fun f hf => ?_⟩, .inr ⟨hh, by simp [Fld.isNone]⟩⟩
        cases f <;> simp_all [Fld.agree]

theorem readBigW_same (st : State α) :
    SameOutside [.bigWc] st (readBigW st).1 ∧ FillOnly .bigWc st (readBigW st).1 := by
  unfold readBigW
  cases hb : st.bigWc with
  | some B => exact ⟨⟨rfl, fun f _ => by cases f <;> simp_all [Fld.agree]⟩, .inl (by simp_all [Fld.agree])⟩
  | none =>
    cases hw : st.w with
    | none => exact ⟨⟨rfl, fun f _ => by cases f <;> simp_all [Fld.agree]⟩, .inl (by simp_all [Fld.agree])⟩
    | some ws =>
      refine ⟨⟨rfl, fun f hf => ?_⟩, .inr ⟨hb, by simp [Fld.isNone]⟩⟩
      cases f <;> simp_all [Fld.agree]

theorem SameOutside.update_lastNoise (st : State α) (x : Option (Mat α)) :
    SameOutside [.lastNoise] st { st with lastNoise := x } :=
  ⟨rfl, fun f hf => by cases f <;> simp_all [Fld.agree]⟩

theorem finishCorrupt_fst (F : Fns α) (st2 : State α) (y : Mat α) (ln : Option (Mat α)) :
    (finishCorrupt F st2 y ln).1 = (readBigW st2).1 := by
  unfold finishCorrupt; rfl

theorem finishCat_fst (F : Fns α) (st2 : State α) (y : Mat α) (ln : Option (Mat α)) :
    (finishCat F st2 y ln).1 = (readBigW st2).1 := by
  unfold finishCat; rfl

/-- what a transmission does to the fields: fill `bigHc`, store the noise, fill `bigWc` -/
theorem transmit_same (F : Fns α) (st : State α) (x : Option (Mat α)) :
    let s := (readBigW { (readBigH F st).1 with lastNoise := x }).1
    SameOutside [.bigHc, .lastNoise, .bigWc] st s ∧ FillOnly .bigHc st s ∧ FillOnly .bigWc st s := by
  intro s
  have hB := readBigH_same F st
  have hL := SameOutside.update_lastNoise (readBigH F st).1 x
  have hW := readBigW_same { (readBigH F st).1 with lastNoise := x }
  refine ⟨(hB.1.trans (hL.trans hW.1)), ?_, ?_⟩
  · exact FillOnly.of_agree_right (FillOnly.of_agree_right hB.2 (hL.2 _ (by simp))) (hW.1.2 _ (by simp))
  · exact FillOnly.of_agree_left (Fld.agree_trans (hB.1.2 _ (by simp)) (hL.2 _ (by simp))) hW.2

theorem doCorrupt_same (F : Fns α) (st : State α) (x xe : List (Mat α)) (noise : Option (Mat α)) :
    let s := (doCorrupt F st x xe noise).1
    SameOutside [.bigHc, .lastNoise, .bigWc] st s ∧ FillOnly .bigHc st s ∧ FillOnly .bigWc st s := by
  intro s
  have hB := readBigH_same F st
  have hT := transmit_same F st
  show SameOutside _ st (doCorrupt F st x xe noise).1 ∧ FillOnly _ st (doCorrupt F st x xe noise).1
    ∧ FillOnly _ st (doCorrupt F st x xe noise).1
  unfold doCorrupt
  rcases h : readBigH F st with ⟨st1, r⟩
  rw [h] at hB hT
  have hStay : SameOutside [.bigHc, .lastNoise, .bigWc] st st1 ∧ FillOnly .bigHc st st1 ∧ FillOnly .bigWc st st1 :=
    ⟨hB.1.mono (by simp), hB.2, .inl (hB.1.2 _ (by simp))⟩
  cases r with
  | error e => exact hStay
  | ok bigH =>
    simp only
    split
    · simp only [finishCorrupt_fst]; exact hT none
    · simp only [finishCorrupt_fst]; exact hT (some _)
    · exact hStay

theorem doCorruptCat_same (F : Fns α) (st : State α) (X : Mat α) (noise : Option (Mat α)) :
    let s := (doCorruptCat F st X noise).1
    SameOutside [.bigHc, .lastNoise, .bigWc] st s ∧ FillOnly .bigHc st s ∧ FillOnly .bigWc st s := by
  intro s
  have hB := readBigH_same F st
  have hT := transmit_same F st
  show SameOutside _ st (doCorruptCat F st X noise).1 ∧ FillOnly _ st (doCorruptCat F st X noise).1
    ∧ FillOnly _ st (doCorruptCat F st X noise).1
  unfold doCorruptCat
  rcases h : readBigH F st with ⟨st1, r⟩
  rw [h] at hB hT
  have hStay : SameOutside [.bigHc, .lastNoise, .bigWc] st st1 ∧ FillOnly .bigHc st st1 ∧ FillOnly .bigWc st st1 :=
    ⟨hB.1.mono (by simp), hB.2, .inl (hB.1.2 _ (by simp))⟩
  cases r with
  | error e => exact hStay
  | ok bigH =>
    simp only
    split
    · simp only [finishCat_fst]; exact hT none
    · simp only [finishCat_fst]; exact hT (some _)
    · exact hStay

theorem install_same (st : State α) (M : Mat α) (nr nt : List Nat) (K : Nat) :
    SameOutside [.bigHc, .hc, .raw, .nr, .nt, .k, .plBig, .pl] st (install Cfg.fixed st M nr nt K)
    ∧ (install Cfg.fixed st M nr nt K).bigHc = none ∧ (install Cfg.fixed st M nr nt K).hc = none := by
  unfold install
  simp only [Cfg.fixed, if_true]
  cases hp : st.pl with
  | none => exact ⟨⟨rfl, fun f hf => by cases f <;> simp_all [Fld.agree]⟩, rfl, rfl⟩
  | some p =>
    simp only
    split
    · exact ⟨⟨rfl, fun f hf => by cases f <;> simp_all [Fld.agree]⟩, rfl, rfl⟩
    · exact ⟨⟨rfl, fun f hf => by cases f <;> simp_all [Fld.agree]⟩, rfl, rfl⟩

theorem SameOutside.update_extK (st : State α) (x : Nat) : SameOutside [.extK] st { st with extK := x } :=
  ⟨rfl, fun f hf => by cases f <;> simp_all [Fld.agree]⟩

/-- an accepted or rejected `init_from_channel_matrix` / `randomize` / `set_pathloss` -/
theorem doInit_same (st : State α) (M : Mat α) (nr nt : List Nat) (K : Nat) (ntE : List Nat) :
    let r := doInit Cfg.fixed st M nr nt K ntE
    SameOutside [.extK, .bigHc, .hc, .raw, .nr, .nt, .k, .plBig, .pl] st r.1
    ∧ ((∀ e, r.2 ≠ .err e) → r.1.bigHc = none ∧ r.1.hc = none) := by
  intro r
  show SameOutside _ st (doInit Cfg.fixed st M nr nt K ntE).1
    ∧ ((∀ e, (doInit Cfg.fixed st M nr nt K ntE).2 ≠ .err e) → (doInit Cfg.fixed st M nr nt K ntE).1.bigHc = none
      ∧ (doInit Cfg.fixed st M nr nt K ntE).1.hc = none)
  unfold doInit
  simp only
  split
  · have h := install_same { st with extK := (fullLayout st.isExt nr nt K ntE).2.2.2 } M
      (fullLayout st.isExt nr nt K ntE).1 (fullLayout st.isExt nr nt K ntE).2.1 (fullLayout st.isExt nr nt K ntE).2.2.1
    exact ⟨(SameOutside.update_extK st _).trans h.1, fun _ => h.2⟩
  · simp only [Cfg.fixed, if_true]
    exact ⟨(SameOutside.refl st).mono (by simp), fun h => absurd rfl (h _)⟩

theorem doRandomize_same (st : State α) (M : Mat α) (nr nt : List Nat) (K : Nat) (ntE : List Nat) :
    let r := doRandomize Cfg.fixed st M nr nt K ntE
    SameOutside [.extK, .bigHc, .hc, .raw, .nr, .nt, .k, .plBig, .pl] st r.1
    ∧ r.1.bigHc = none ∧ r.1.hc = none := by
  intro r
  show SameOutside _ st (doRandomize Cfg.fixed st M nr nt K ntE).1
    ∧ (doRandomize Cfg.fixed st M nr nt K ntE).1.bigHc = none ∧ (doRandomize Cfg.fixed st M nr nt K ntE).1.hc = none
  unfold doRandomize
  have h := install_same { st with extK := (fullLayout st.isExt nr nt K ntE).2.2.2 } M
    (fullLayout st.isExt nr nt K ntE).1 (fullLayout st.isExt nr nt K ntE).2.1 (fullLayout st.isExt nr nt K ntE).2.2.1
  exact ⟨(SameOutside.update_extK st _).trans h.1, h.2⟩

theorem doSetPL_same (st : State α) (p : Option (Mat α)) (pe : Mat α) :
    SameOutside [.bigHc, .hc, .pl, .plBig] st (doSetPL Cfg.fixed st p pe)
    ∧ (doSetPL Cfg.fixed st p pe).bigHc = none ∧ (doSetPL Cfg.fixed st p pe).hc = none := by
  unfold doSetPL
  simp only [Cfg.fixed, if_true]
  split <;> cases p <;> exact ⟨⟨rfl, fun f hf => by cases f <;> simp_all [Fld.agree]⟩, rfl, rfl⟩

theorem doSetNoise_same (F : Fns α) (st : State α) (v : Option α) :
    SameOutside [.noiseVar] st (doSetNoise F st v).1 := by
  unfold doSetNoise
  cases v with
  | none => exact ⟨rfl, fun f hf => by cases f <;> simp_all [Fld.agree]⟩
  | some x =>
    simp only
    split
    · exact ⟨rfl, fun f hf => by cases f <;> simp_all [Fld.agree]⟩
    · exact (SameOutside.refl st).mono (by simp)

/-- **Frame.**  Whatever the arguments, an operation changes no field outside its effect table
    (and never the class flag). -/
theorem step_sameOutside (F : Fns α) (st : State α) (op : Op α) :
    SameOutside (effect st.isExt op.kind).touched st (step Cfg.fixed F st op).1 := by
  cases op with
  | init M nr nt K ntE => exact (doInit_same st M nr nt K ntE).1.mono (by simp [Op.kind, effect, Eff.touched])
  | randomize M nr nt K ntE =>
    simp only [step]
    split
    · exact (SameOutside.refl st).mono (by simp [Op.kind, effect, Eff.touched])
    · exact (doRandomize_same st M nr nt K ntE).1.mono (by simp [Op.kind, effect, Eff.touched])
  | setPL p pe =>
    simp only [step]
    split
    · exact (SameOutside.refl st).mono (by simp [Op.kind, effect, Eff.touched])
    · exact (doSetPL_same st p pe).1.mono (by simp [Op.kind, effect, Eff.touched])
  | setNoise v => exact (doSetNoise_same F st v).mono (by simp [Op.kind, effect, Eff.touched])
  | setW w => exact ⟨rfl, fun f hf => by cases f <;> simp_all [Fld.agree, Op.kind, effect, Eff.touched, step]⟩
  | readH =>
    have h := (readH_same F st).1
    simp only [step, Op.kind, effect]
    cases he : st.isExt <;> simp only [he] at h <;> exact h.mono (by simp [Op.kind, effect, Eff.touched])
  | readHkl k l =>
    have h := (readH_same F st).1
    simp only [step, Op.kind, effect]
    cases he : st.isExt <;> simp only [he] at h <;> exact h.mono (by simp [Op.kind, effect, Eff.touched])
  | readBigH =>
    have h := (readBigH_same F st).1
    simp only [step]
    split <;> rename_i heq <;> rw [heq] at h <;> exact h.mono (by simp [Op.kind, effect, Eff.touched])
  | readHk k =>
    have h := (readBigH_same F st).1
    simp only [step]
    split <;> rename_i heq <;> rw [heq] at h <;> exact h.mono (by simp [Op.kind, effect, Eff.touched])
  | readBigHNoExt =>
    have h := (readBigH_same F st).1
    simp only [step]
    split
    · rename_i hE
      split <;> rename_i heq <;> rw [heq] at h <;> exact h.mono (by simp [Op.kind, effect, Eff.touched, hE])
    · exact (SameOutside.refl st).mono (by simp [Op.kind, effect, Eff.touched])
  | readHkNoExt k =>
    have h := (readBigH_same F st).1
    simp only [step]
    split
    · rename_i hE
      split <;> rename_i heq <;> rw [heq] at h <;> exact h.mono (by simp [Op.kind, effect, Eff.touched, hE])
    · exact (SameOutside.refl st).mono (by simp [Op.kind, effect, Eff.touched])
  | readHNoExt =>
    have h := (readH_same F st).1
    simp only [step, Cfg.fixed, if_true, Op.kind, effect]
    cases he : st.isExt
    · exact (SameOutside.refl st).mono (by simp [Op.kind, effect, Eff.touched])
    · simp only [he, if_true] at h ⊢
      exact h.mono (by simp [Op.kind, effect, Eff.touched])
  | corrupt x xe noise => exact (doCorrupt_same F st x xe noise).1.mono (by simp [Op.kind, effect, Eff.touched])
  | corruptCat X noise => exact (doCorruptCat_same F st X noise).1.mono (by simp [Op.kind, effect, Eff.touched])
  | readBigWView => exact (readBigW_same st).1.mono (by simp [Op.kind, effect, Eff.touched])
  | readLayout => exact (SameOutside.refl st).mono (by simp [Op.kind, effect, Eff.touched])
  | readPL => exact (SameOutside.refl st).mono (by simp [Op.kind, effect, Eff.touched])
  | readNoiseVar => exact (SameOutside.refl st).mono (by simp [Op.kind, effect, Eff.touched])
  | readLastNoise => exact (SameOutside.refl st).mono (by simp [Op.kind, effect, Eff.touched])
  | stackData x xe => exact (SameOutside.refl st).mono (by simp [Op.kind, effect, Eff.touched])
  | query => exact (SameOutside.refl st).mono (by simp [Op.kind, effect, Eff.touched])

/-- **Lazy fills.**  A field listed under `fills` is left as it was or goes from `None` to a
    value; it is never overwritten and never reset by that operation. -/
theorem step_fillOnly (F : Fns α) (st : State α) (op : Op α) (f : Fld)
    (hf : f ∈ (effect st.isExt op.kind).fills) : FillOnly f st (step Cfg.fixed F st op).1 := by
  cases op with
  | init M nr nt K ntE => simp [Op.kind, effect] at hf
  | randomize M nr nt K ntE => simp [Op.kind, effect] at hf
  | setPL p pe => simp [Op.kind, effect] at hf
  | setNoise v => simp [Op.kind, effect] at hf
  | setW w => simp [Op.kind, effect] at hf
  | readH =>
    have h := (readH_same F st).2
    cases he : st.isExt <;> simp [Op.kind, effect, he] at hf
    subst hf; simpa only [step] using h
  | readHkl k l =>
    have h := (readH_same F st).2
    cases he : st.isExt <;> simp [Op.kind, effect, he] at hf
    subst hf; simpa only [step] using h
  | readHNoExt => simp [Op.kind, effect] at hf
  | readBigH =>
    have h := (readBigH_same F st).2
    simp [Op.kind, effect] at hf; subst hf
    simp only [step]
    split <;> rename_i heq <;> rw [heq] at h <;> exact h
  | readHk k =>
    have h := (readBigH_same F st).2
    simp [Op.kind, effect] at hf; subst hf
    simp only [step]
    split <;> rename_i heq <;> rw [heq] at h <;> exact h
  | readBigHNoExt =>
    have h := (readBigH_same F st).2
    cases he : st.isExt <;> simp [Op.kind, effect, he] at hf
    subst hf
    simp only [step, he, if_true]
    split <;> rename_i heq <;> rw [heq] at h <;> exact h
  | readHkNoExt k =>
    have h := (readBigH_same F st).2
    cases he : st.isExt <;> simp [Op.kind, effect, he] at hf
    subst hf
    simp only [step, he, if_true]
    split <;> rename_i heq <;> rw [heq] at h <;> exact h
  | corrupt x xe noise =>
    have h := doCorrupt_same F st x xe noise
    simp [Op.kind, effect] at hf
    rcases hf with rfl | rfl
    · exact h.2.1
    · exact h.2.2
  | corruptCat X noise =>
    have h := doCorruptCat_same F st X noise
    simp [Op.kind, effect] at hf
    rcases hf with rfl | rfl
    · exact h.2.1
    · exact h.2.2
  | readBigWView =>
    simp [Op.kind, effect] at hf; subst hf
    exact (readBigW_same st).2
  | readLayout => simp [Op.kind, effect] at hf
  | readPL => simp [Op.kind, effect] at hf
  | readNoiseVar => simp [Op.kind, effect] at hf
  | readLastNoise => simp [Op.kind, effect] at hf
  | stackData x xe => simp [Op.kind, effect] at hf
  | query => simp [Op.kind, effect] at hf

/-- **Resets.**  After every accepted call (one that does not raise) each field listed under
    `clears` holds `None`, whatever it held before and whatever the arguments were. -/
theorem step_clears (F : Fns α) (st : State α) (op : Op α) (f : Fld)
    (hf : f ∈ (effect st.isExt op.kind).clears)
    (hok : ∀ e, (step Cfg.fixed F st op).2 ≠ .err e) : f.isNone (step Cfg.fixed F st op).1 := by
  cases op with
  | init M nr nt K ntE =>
    have h := (doInit_same st M nr nt K ntE).2 hok
    simp [Op.kind, effect] at hf
    rcases hf with rfl | rfl
    · exact h.1
    · exact h.2
  | randomize M nr nt K ntE =>
    have h := (doRandomize_same st M nr nt K ntE).2
    simp only [step] at hok ⊢
    split at hok
    · exact absurd rfl (hok _)
    · simp [Op.kind, effect] at hf
      rcases hf with rfl | rfl
      · exact h.1
      · exact h.2
  | setPL p pe =>
    have h := (doSetPL_same st p pe).2
    simp only [step] at hok ⊢
    split at hok
    · exact absurd rfl (hok _)
    · simp [Op.kind, effect] at hf
      rcases hf with rfl | rfl
      · exact h.1
      · exact h.2
  | setW w => simp [Op.kind, effect] at hf; subst hf; simp [step, Fld.isNone]
  | setNoise v => simp [Op.kind, effect] at hf
  | readH => cases he : st.isExt <;> simp [Op.kind, effect, he] at hf
  | readHkl k l => cases he : st.isExt <;> simp [Op.kind, effect, he] at hf
  | readHNoExt => simp [Op.kind, effect] at hf
  | readBigH => simp [Op.kind, effect] at hf
  | readHk k => simp [Op.kind, effect] at hf
  | readBigHNoExt => cases he : st.isExt <;> simp [Op.kind, effect, he] at hf
  | readHkNoExt k => cases he : st.isExt <;> simp [Op.kind, effect, he] at hf
  | corrupt x xe noise => simp [Op.kind, effect] at hf
  | corruptCat X noise => simp [Op.kind, effect] at hf
  | readBigWView => simp [Op.kind, effect] at hf
  | readLayout => simp [Op.kind, effect] at hf
  | readPL => simp [Op.kind, effect] at hf
  | readNoiseVar => simp [Op.kind, effect] at hf
  | readLastNoise => simp [Op.kind, effect] at hf
  | stackData x xe => simp [Op.kind, effect] at hf
  | query => simp [Op.kind, effect] at hf

end Sound

/-! ## the table is tight: every listed write happens on some concrete state -/
section Tight

/-- integers with `sqrt := id`, `conj := id` -/
def fProbe : Fns Int := ⟨id, id, fun x => decide (0 ≤ x)⟩

def Fld.same (f : Fld) (a b : State Int) : Bool :=
  match f with
  | .raw => a.raw == b.raw | .nr => a.nr == b.nr | .nt => a.nt == b.nt | .k => a.k == b.k
  | .extK => a.extK == b.extK | .pl => a.pl == b.pl | .plBig => a.plBig == b.plBig
  | .bigHc => a.bigHc == b.bigHc | .hc => a.hc == b.hc | .w => a.w == b.w | .bigWc => a.bigWc == b.bigWc
  | .noiseVar => a.noiseVar == b.noiseVar | .lastNoise => a.lastNoise == b.lastNoise

/-- the fields in which two states differ -/
def changed (a b : State Int) : List Fld := Fld.all.filter fun f => !f.same a b

def onesMat (r c : Nat) : Mat Int := List.replicate r (List.replicate c 1)

/-- a configured two-user object (one interference source on the ExtInt class) on which nothing
    has been read yet -/
def probeFresh (isExt : Bool) : State Int :=
  (run Cfg.fixed fProbe (State.init Int isExt)
    [.init (onesMat 2 (if isExt then 3 else 2)) [1, 1] [1, 1] 2 (if isExt then [1] else []),
     .setPL (some [[1, 4], [9, 1]]) [[4], [9]], .setW (some [[[2]], [[3]]]), .setNoise (some 1)]).1

/-- the same object after every view has been read and a transmission made (on the ExtInt class
    `_H_with_pathloss` is never filled by a getter; the probe puts a value there by hand) -/
def probeFull (isExt : Bool) : State Int :=
  let s := (run Cfg.fixed fProbe (probeFresh isExt)
    [.readH, .readBigH, .readBigWView, .corrupt [[[1]], [[1]]] [[[1]]] (some [[5], [6]])]).1
  if isExt then { s with hc := some [] } else s

/-- one concrete (state, operation) per operation kind -/
def probes (isExt : Bool) : List (State Int × Op Int) :=
  let fresh := probeFresh isExt
  let full := probeFull isExt
  [(full, .init (onesMat 3 (if isExt then 5 else 3)) [1, 1, 1] [1, 1, 1] 3 (if isExt then [1, 1] else [])),
   (full, .randomize (onesMat 3 (if isExt then 5 else 3)) [1, 1, 1] [1, 1, 1] 3 (if isExt then [1, 1] else [])),
   (full, .setPL (some [[4, 1], [1, 4]]) [[1], [1]]),
   (full, .setNoise (some 7)), (full, .setW (some [[[5]], [[7]]])),
   (fresh, .readH), (fresh, .readBigH), (fresh, .readHkl 0 1), (fresh, .readHk 0), (fresh, .readBigHNoExt),
   (fresh, .readHkNoExt 0), (fresh, .readHNoExt), (fresh, .readBigWView),
   (fresh, .corrupt [[[1]], [[1]]] [[[1]]] (some [[5], [6]])),
   (fresh, .corruptCat (onesMat (if isExt then 3 else 2) 1) (some [[5], [6]]))]

end Tight

/-! ## the dependency table of the derived fields, read off the coherence invariant -/
section Deps
variable {α : Type} [Add α] [Mul α] [Zero α]

/-- the fields the value of a derived field is computed from (`Coherent`, `specBigH`, `specHFull`) -/
def specDeps : Fld → List Fld
  | .plBig => [.pl, .nr, .nt]
  | .bigHc => [.raw, .pl, .nr, .nt]
  | .hc => [.raw, .pl, .nr, .nt]
  | .bigWc => [.w]
  | _ => []

/-- the derived fields -/
def derivedFlds : List Fld := [.plBig, .bigHc, .hc, .bigWc]

/-- the clause of `Coherent` about one derived field -/
def clause (F : Fns α) (f : Fld) (st : State α) : Prop :=
  match f with
  | .plBig => st.plBig = st.pl.map fun p => expand p st.nr st.nt
  | .bigHc => ∀ M, st.bigHc = some M → M = specBigH F st
  | .hc => ∀ H, st.hc = some H → H = specHFull F st
  | .bigWc => ∀ B, st.bigWc = some B → ∃ ws, st.w = some ws ∧ blockDiag ws = B
  | _ => True

theorem coherent_iff_clauses (F : Fns α) (st : State α) : Coherent F st ↔ ∀ f ∈ derivedFlds, clause F f st := by
  constructor
  · intro h f hf
    simp only [derivedFlds, List.mem_cons, List.not_mem_nil, or_false] at hf
    rcases hf with rfl | rfl | rfl | rfl
    · exact h.plBig
    · exact h.bigH
    · exact h.h
    · exact h.bigW
  · intro h
    exact ⟨h .plBig (by simp [derivedFlds]), h .bigHc (by simp [derivedFlds]), h .hc (by simp [derivedFlds]),
      h .bigWc (by simp [derivedFlds])⟩

/-- **Dependencies.**  The coherence clause of a derived field looks at that field and at the
    fields `specDeps` lists for it, and at nothing else: two states that agree there satisfy it
    together.  (So a derived field can only go stale through a write to one of those.) -/
theorem clause_congr (F : Fns α) (f : Fld) (a b : State α) (hf : f.agree a b)
    (hd : ∀ g ∈ specDeps f, g.agree a b) : clause F f a ↔ clause F f b := by
  cases f <;> simp only [clause, specDeps, Fld.agree, List.mem_cons, List.not_mem_nil, or_false,
    forall_eq_or_imp, forall_eq, specBigH, specHFull, State.hNoPL] at * <;> simp_all

end Deps

/-! ## translation between fields and Python attributes; the expected tables -/

def plainCls : String := "MultiUserChannelMatrix"
def extCls : String := "MultiUserChannelMatrixExtInt"

/-- the Python attributes stored in a field (the plain class has no interference bookkeeping;
    `_H_no_pathloss` is the block view `State.hNoPL` of `_big_H_no_pathloss`) -/
def Fld.attrs (isExt : Bool) : Fld → List String
  | .raw => ["_big_H_no_pathloss", "_H_no_pathloss"]
  | .nr => ["_Nr"] | .nt => ["_Nt"] | .k => ["_K"]
  | .extK => if isExt then ["_extIntK", "_extIntNt"] else []
  | .pl => ["_pathloss_matrix"] | .plBig => ["_pathloss_big_matrix"]
  | .bigHc => ["_big_H_with_pathloss"] | .hc => ["_H_with_pathloss"]
  | .w => ["_W"] | .bigWc => ["_big_W"] | .noiseVar => ["_noise_var"] | .lastNoise => ["_last_noise"]

/-- attributes outside the model: the two random generators (only their methods are called) -/
def untracked : List String := ["_RS_channel", "_RS_noise"]

def attrsOf (isExt : Bool) (fs : List Fld) : List String := norm (fs.flatMap (Fld.attrs isExt))

/-- the field an attribute belongs to -/
def attrFld (a : String) : Option Fld := Fld.all.find? fun f => (Fld.attrs true f).contains a

/-- the model operation behind a public entry point (`p.setter` = the setter of property `p`);
    entry points that are not listed (`calc_Q`, `calc_SINR`, the seeding methods, …) are `Op.query` -/
def kindOf : String → Option Kind
  | "init_from_channel_matrix" => some .init
  | "randomize" => some .randomize
  | "set_pathloss" => some .setPL
  | "noise_var.setter" => some .setNoise
  | "set_post_filter" => some .setW
  | "H" => some .readH
  | "big_H" => some .readBigH
  | "get_Hkl" => some .readHkl
  | "get_Hk" => some .readHk
  | "get_Hk_with_ext_int" => some .readHk
  | "big_H_no_ext_int" => some .readBigHNoExt
  | "get_Hk_without_ext_int" => some .readHkNoExt
  | "H_no_ext_int" => some .readHNoExt
  | "corrupt_data" => some .corrupt
  | "corrupt_concatenated_data" => some .corruptCat
  | "K" | "Nr" | "Nt" | "extIntK" | "extIntNt" => some .readLayout
  | "pathloss" => some .readPL
  | "big_W" => some .readBigWView
  | "noise_var" => some .readNoiseVar
  | "last_noise" => some .readLastNoise
  | _ => none

def Kind.all : List Kind :=
  [.init, .randomize, .setPL, .setNoise, .setW, .readH, .readBigH, .readHkl, .readHk, .readBigHNoExt,
   .readHkNoExt, .readHNoExt, .corrupt, .readLayout, .readPL, .readBigWView, .readNoiseVar, .readLastNoise,
   .corruptCat, .stackData, .query]

/-- every field the table lists for an operation (and that exists as an attribute of the class) is
    really changed by that operation on one of the probes: the table is not an over-approximation -/
def tight (isExt : Bool) : Bool :=
  Kind.all.all fun k =>
    ((effect isExt k).touched.filter fun f => !(Fld.attrs isExt f).isEmpty).all fun f =>
      (probes isExt).any fun p =>
        p.1.isExt == isExt && p.2.kind == k && (changed p.1 (step Cfg.fixed fProbe p.1 p.2).1).contains f

/-- the attributes some operation of the class may fill lazily, according to the model -/
def lazyAttrs (isExt : Bool) : List String := attrsOf isExt (Kind.all.flatMap fun k => (effect isExt k).fills)

/-- the entry points every class must have (those of the base class), and the ExtInt-only ones -/
def baseEntryPoints : List String :=
  ["init_from_channel_matrix", "randomize", "set_pathloss", "noise_var.setter", "set_post_filter", "H", "big_H",
   "get_Hkl", "get_Hk", "corrupt_data", "corrupt_concatenated_data", "K", "Nr", "Nt", "pathloss", "big_W",
   "noise_var", "last_noise"]
def extEntryPoints : List String :=
  ["get_Hk_with_ext_int", "big_H_no_ext_int", "get_Hk_without_ext_int", "H_no_ext_int", "extIntK", "extIntNt"]

/-- a generated row says what the model operation behind it does (as sets of attributes); an
    entry point without a model operation writes nothing and fills at most the known caches -/
def rowMatches (r : Row) : Bool :=
  (r.cls == plainCls || r.cls == extCls) &&
  let isExt := r.cls == extCls
  match kindOf r.name with
  | some k =>
    let e := effect isExt k
    norm r.clears == attrsOf isExt e.clears && norm r.assigns == attrsOf isExt e.assigns
      && norm r.mayWrite == attrsOf isExt e.mayWrite && norm r.fills == attrsOf isExt e.fills
  | none => r.written.isEmpty && r.fills.all (lazyAttrs isExt).contains

/-- every modelled entry point of the class has a row -/
def entryPointsPresent (rows : List Row) : Bool :=
  baseEntryPoints.all (fun n => rows.any fun r => r.cls == plainCls && r.name == n)
  && (baseEntryPoints ++ extEntryPoints).all (fun n => rows.any fun r => r.cls == extCls && r.name == n)

/-- the fields that are `None` on a fresh object -/
def initNone : List Fld := [.pl, .plBig, .bigHc, .hc, .w, .bigWc, .noiseVar, .lastNoise]

theorem init_isNone_iff {α : Type} (e : Bool) (f : Fld) : f.isNone (State.init α e) ↔ f ∈ initNone := by
  cases f <;> simp [Fld.isNone, State.init, initNone]

/-- the attributes a fresh object of the class must have, with the `None` flag (sorted by name) -/
def expectedInit (isExt : Bool) : List (String × Bool) :=
  (norm (Fld.all.flatMap (Fld.attrs isExt) ++ untracked)).map fun a =>
    (a, match attrFld a with | some f => initNone.contains f | none => false)

def initMatches (tbl : List (String × List (String × Bool))) : Bool :=
  tbl.map (fun e => e.1) == [plainCls, extCls]
  && tbl.all fun e =>
    let exp := expectedInit (e.1 == extCls)
    (norm (e.2.map fun x => x.1)) == exp.map (fun x => x.1)
      && exp.all fun x => e.2.contains x

/-- every attribute a row mentions exists on a fresh object of its class -/
def mentionsOnlyInit (tbl : List (String × List (String × Bool))) (rows : List Row) : Bool :=
  rows.all fun r =>
    let known := (tbl.filter fun e => e.1 == r.cls).flatMap fun e => e.2.map fun x => x.1
    (r.written ++ r.fills ++ r.reads).all known.contains

/-- derived attributes that are recomputed eagerly rather than lazily: `_pathloss_big_matrix`
    (`Coherent.plBig` / `specDeps .plBig`) and the block view `_H_no_pathloss` (`State.hNoPL`) -/
def eagerDeps : Deps :=
  [("_pathloss_big_matrix", (specDeps .plBig).flatMap (Fld.attrs true)),
   ("_H_no_pathloss", ["_big_H_no_pathloss", "_Nr", "_Nt"])]

/-- dependency table of a class: the generated fill read-sets of its lazy caches + `eagerDeps` -/
def depsOf (fills : List (String × String × List String)) (cls : String) : Deps :=
  ((fills.filter fun e => e.1 == cls).map fun e => e.2) ++ eagerDeps

def sameSet (a b : List Fld) : Bool := a.all b.contains && b.all a.contains

/-- the lazily filled attributes of each class are the model's caches, and what each fill
    (transitively) reads are exactly the fields the coherence invariant computes it from -/
def fillsMatch (fills : List (String × String × List String)) : Bool :=
  [(plainCls, false), (extCls, true)].all fun ce =>
    norm ((fills.filter fun e => e.1 == ce.1).map fun e => e.2.1) == lazyAttrs ce.2
    && (fills.filter fun e => e.1 == ce.1).all fun e =>
      match attrFld e.2.1 with
      | none => false
      | some c =>
        sameSet (((depsOf fills ce.1).closure e.2.1).filterMap attrFld |>.filter fun f => !derivedFlds.contains f)
          (specDeps c)

end PyPhysim.C08
