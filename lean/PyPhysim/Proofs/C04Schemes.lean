import PyPhysim.Proofs.C04Filters

/-!
Round trips of the linear schemes (Blast / MRC, SVD, GMD): reshape index
lemmas and the matrix algebra behind `decode (H · encode x) = x`.
-/
set_option linter.unusedSectionVars false
namespace PyPhysim.C04
open Matrix

namespace Pf
variable {m n k l : Nat}

/-! ### reshape / flatten index lemmas -/

/-- Fortran-order flatten undoes Fortran-order reshape -/
theorem flattenF_reshapeF {α : Type} {n : Nat} (Nt : Nat) (x : Vec α n) (h : n % Nt = 0)
    (j : Nat) (hj : j < n) (hj' : j < Nt * (n / Nt)) :
    flattenF (reshapeF Nt x h) ⟨j, hj'⟩ = x ⟨j, hj⟩ := by
  simp only [flattenF, reshapeF]
  congr 1
  apply Fin.ext
  simp only
  rw [Nat.mul_comm]
  exact Nat.div_add_mod j Nt

/-- C-order flatten undoes C-order reshape -/
theorem flattenC_reshapeC {α : Type} {n : Nat} (Nt : Nat) (x : Vec α n) (h : n % Nt = 0)
    (j : Nat) (hj : j < n) (hj' : j < Nt * (n / Nt)) :
    flattenC (reshapeC Nt x h) ⟨j, hj'⟩ = x ⟨j, hj⟩ := by
  simp only [flattenC, reshapeC]
  congr 1
  apply Fin.ext
  simp only
  rw [Nat.mul_comm]
  exact Nat.div_add_mod j (n / Nt)

/-! ### matrix algebra -/

/-- filter `c · G`, transmitted block `X / c`: the scalings cancel and `G A = 1` does the rest -/
theorem scaled_roundtrip (A : Matrix (Fin m) (Fin n) ℂ) (G : Matrix (Fin n) (Fin m) ℂ)
    (X : Matrix (Fin n) (Fin l) ℂ) (c : ℂ) (hc : c ≠ 0) (hGA : G * A = 1) :
    (c • G) * (A * (c⁻¹ • X)) = X := by
  rw [Matrix.mul_smul, Matrix.smul_mul, Matrix.mul_smul, smul_smul, ← Matrix.mul_assoc, hGA,
    Matrix.one_mul, mul_inv_cancel₀ hc, one_smul]

/-- the same with a precoder `W / c` in front of the data and `G A W = 1` -/
theorem precoded_roundtrip (A : Matrix (Fin m) (Fin n) ℂ) (G : Matrix (Fin k) (Fin m) ℂ)
    (W : Matrix (Fin n) (Fin k) ℂ) (X : Matrix (Fin k) (Fin l) ℂ) (c : ℂ) (hc : c ≠ 0)
    (hGAW : G * A * W = 1) :
    (c • G) * (A * ((c⁻¹ • W) * X)) = X := by
  rw [Matrix.smul_mul, Matrix.smul_mul, Matrix.mul_smul, Matrix.mul_smul, smul_smul,
    mul_inv_cancel₀ hc, one_smul]
  rw [← Matrix.mul_assoc, ← Matrix.mul_assoc, hGAW, Matrix.one_mul]

/-- a square matrix with orthonormal columns is invertible -/
theorem isUnit_of_unitary (P : Matrix (Fin n) (Fin n) ℂ) (hP : Pᴴ * P = 1) : IsUnit P :=
  ⟨⟨P, Pᴴ, mul_eq_one_comm.mp hP, hP⟩, rfl⟩

/-- right multiplication by a unitary keeps the column rank full -/
theorem fullColRank_mul_unitary (A : Matrix (Fin m) (Fin n) ℂ) (P : Matrix (Fin n) (Fin n) ℂ)
    (hu : IsUnit (Aᴴ * A)) (hP : Pᴴ * P = 1) : IsUnit ((A * P)ᴴ * (A * P)) := by
  have hPu : IsUnit P := isUnit_of_unitary P hP
  have hPHu : IsUnit Pᴴ := by
    refine ⟨⟨Pᴴ, P, hP, mul_eq_one_comm.mp hP⟩, rfl⟩
  have e : (A * P)ᴴ * (A * P) = Pᴴ * (Aᴴ * A) * P := by
    simp only [conjTranspose_mul, Matrix.mul_assoc]
  rw [e]
  exact (hPHu.mul hu).mul hPu

/-- GMD: `Q R Pᴴ = H` and `Pᴴ P = 1` give `Q R = H P` -/
theorem gmd_channel_eq (A : Matrix (Fin m) (Fin n) ℂ) (Q : Matrix (Fin m) (Fin m) ℂ)
    (R : Matrix (Fin m) (Fin n) ℂ) (P : Matrix (Fin n) (Fin n) ℂ)
    (hf : Q * R * Pᴴ = A) (hP : Pᴴ * P = 1) : Q * R = A * P := by
  rw [← hf, Matrix.mul_assoc (Q * R), hP, Matrix.mul_one]

/-- singular values of a full-column-rank matrix are non-zero -/
theorem sing_ne_zero (A : Matrix (Fin m) (Fin n) ℂ) (U : Matrix (Fin m) (Fin n) ℂ) (S : Fin n → ℂ)
    (VH : Matrix (Fin n) (Fin n) ℂ) (hf : U * diagonal S * VH = A) (hu : IsUnit (Aᴴ * A)) :
    ∀ i, S i ≠ 0 := by
  intro i hi
  -- A has a zero direction: A * VHᴴ... simpler: det (Aᴴ A) = det(VHᴴ) det(diag(S)ᴴ Uᴴ U diag S) det VH
  have e : Aᴴ * A = VHᴴ * ((diagonal S)ᴴ * (Uᴴ * U) * diagonal S) * VH := by
    rw [← hf]
    simp only [conjTranspose_mul, Matrix.mul_assoc]
  have hdet : (Aᴴ * A).det ≠ 0 := by
    have := (Matrix.isUnit_iff_isUnit_det _).mp hu
    exact this.ne_zero
  apply hdet
  rw [e, det_mul, det_mul, det_mul, det_mul, det_diagonal]
  have : ∏ j, S j = 0 := Finset.prod_eq_zero (Finset.mem_univ i) hi
  rw [this]
  simp

/-- SVD MIMO: `diag(1/S) Uᴴ · H · VHᴴ = 1` -/
theorem svd_chain (A : Matrix (Fin m) (Fin n) ℂ) (U : Matrix (Fin m) (Fin n) ℂ) (S : Fin n → ℂ)
    (VH : Matrix (Fin n) (Fin n) ℂ) (hf : U * diagonal S * VH = A) (hU : Uᴴ * U = 1)
    (hV : VH * VHᴴ = 1) (hS : ∀ i, S i ≠ 0) :
    (diagonal (fun a => 1 / S a) * Uᴴ) * A * VHᴴ = 1 := by
  rw [← hf]
  have e : diagonal (fun a => 1 / S a) * Uᴴ * (U * diagonal S * VH) * VHᴴ
      = diagonal (fun a => 1 / S a) * (Uᴴ * U) * diagonal S * (VH * VHᴴ) := by
    simp only [Matrix.mul_assoc]
  rw [e, hU, hV, Matrix.mul_one, Matrix.mul_one, diagonal_mul_diagonal, ← diagonal_one]
  congr 1
  funext a
  field_simp [hS a]

end Pf
end PyPhysim.C04
