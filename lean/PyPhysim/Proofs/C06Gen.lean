import Mathlib.Tactic.Ring
import PyPhysim.Proofs.C06
import PyPhysim.Generated.C06Result

/-! Bridge lemmas for C06: the definitions re-emitted from the current source of
`results.py` (`PyPhysim.Generated.C06`, normal form "which attribute ends up with
which value / which exception is raised in which state") compute the same function
as the hand model `PyPhysim.C06M`.

The proofs do not depend on the order in which the translator lists tests, nor on
the spelling of the arithmetic: every atom a test can mention (type, accumulate
flags, `total` given / zero, integer-ness, index in range, equal names, equal
lengths, no update yet) is split first, then both sides are reduced and the
remaining record fields are compared up to ring identities. -/
set_option linter.unusedSimpArgs false
set_option linter.unusedTactic false
set_option linter.unreachableTactic false
set_option linter.unnecessarySeqFocus false

namespace PyPhysim.C06M
open PyPhysim.Proto

/-- The record represents a Python `Result` object: the attribute `_value` is *either* a number
    (`value`; the array component stays `[]`) *or*, for a CHOICE result, an integer array (`counts`;
    the number component stays `0`).  The constructor establishes it, `update` and `merge` keep it. -/
def OneValue (r : Res) : Prop := (r.ty ≠ .choice → r.counts = []) ∧ (r.ty = .choice → r.value = 0)

instance (r : Res) : Decidable (OneValue r) := by unfold OneValue; exact inferInstance

theorem oneValue_fresh (nm : String) (ty : Ty) (acc : Bool) (k : Nat) : OneValue (fresh nm ty acc k) := by
  cases ty <;> simp [OneValue, fresh]

theorem oneValue_mkRes {nm : String} {ty : Ty} {acc : Bool} {cn : Option Nat} {r : Res}
    (h : mkRes nm ty acc cn = .ok r) : OneValue r := by
  cases ty <;> cases cn <;> simp [mkRes] at h <;> subst h <;> simp [OneValue]

theorem oneValue_update {r : Res} (o : Obs) (h : OneValue r) : OneValue (update r o).1 := by
  obtain ⟨h1, h2⟩ := h
  unfold update
  cases hty : r.ty <;> simp only [hty] at h1 h2 ⊢
  · exact ⟨fun _ => h1 (by simp), by simp⟩
  · cases o.t with
    | none => exact ⟨fun _ => h1 (by simp), by simp [hty]⟩
    | some t =>
      by_cases h0 : t = 0
      · simp only [h0, if_true]; exact ⟨fun _ => h1 (by simp), by simp [hty]⟩
      · simp only [h0, if_false]; exact ⟨fun _ => h1 (by simp), by simp⟩
  · exact ⟨fun _ => h1 (by simp), by simp⟩
  · by_cases hd : o.v.den = 1
    · simp only [hd, ne_eq, not_true_eq_false, if_false]
      cases pyIndex r.counts.length o.v.num with
      | none => exact ⟨by simp [hty], fun _ => h2 trivial⟩
      | some i => exact ⟨by simp [hty], fun _ => h2 trivial⟩
    · simp only [hd, ne_eq, not_false_eq_true, if_true]
      exact ⟨by simp [hty], fun _ => h2 trivial⟩

theorem addCounts_eq {a b : List Nat} (h : a.length = b.length) :
    addCounts a b = some (List.zipWith (· + ·) a b) := by
  simp [addCounts, h]

theorem oneValue_merge {a b : Res} (ha : OneValue a) (hb : OneValue b) : OneValue (merge a b).1 := by
  obtain ⟨a1, a2⟩ := ha
  obtain ⟨b1, b2⟩ := hb
  unfold merge
  cases hg : mergeGuard a b with
  | some e => exact ⟨a1, a2⟩
  | none =>
    have hty : a.ty = b.ty := by
      unfold mergeGuard at hg
      by_cases h : a.ty = b.ty
      · exact h
      · simp [h] at hg
    have hE : (extendLists a b).ty = a.ty ∧ (extendLists a b).counts = a.counts
        ∧ (extendLists a b).value = a.value := by
      unfold extendLists; cases a.acc <;> simp
    cases hta : a.ty
    · have hc : a.counts = [] := a1 (by simp [hta])
      have hc' : b.counts = [] := b1 (by simp [← hty, hta])
      simp [hc, hc', addCounts, OneValue, hE.1, hta]
    · have hc : a.counts = [] := a1 (by simp [hta])
      have hc' : b.counts = [] := b1 (by simp [← hty, hta])
      simp [hc, hc', addCounts, OneValue, hE.1, hta]
    · have hc' : b.counts = [] := b1 (by simp [← hty, hta])
      simp [hc', OneValue, hE.1, hta]
    · have hv : a.value = 0 := a2 hta
      have hv' : b.value = 0 := b2 (by rw [← hty, hta])
      simp only []
      cases addCounts a.counts b.counts with
      | none => simp [OneValue, hE.1, hE.2.2, hta, hv]
      | some c => simp [OneValue, hE.1, hta, hv, hv']

namespace Gen

/-- two records with the same fields are the same record -/
theorem res_ext {a b : Res} (h1 : a.name = b.name) (h2 : a.ty = b.ty) (h3 : a.value = b.value)
    (h4 : a.counts = b.counts) (h5 : a.total = b.total) (h6 : a.rsum = b.rsum) (h7 : a.rsq = b.rsq)
    (h8 : a.n = b.n) (h9 : a.acc = b.acc) (h10 : a.vlist = b.vlist) (h11 : a.tlist = b.tlist) : a = b := by
  cases a; cases b; simp_all

/-- closes an equation between numbers / lists / records / pairs whose parts agree up to ring
    identities and the hypotheses in the context -/
macro "fields" : tactic =>
  `(tactic| first
    | rfl
    | (refine Prod.ext ?_ ?_ <;> first
        | rfl
        | (apply res_ext <;> first | rfl | (simp; done) | (simp; ring1) | ring1 | (simp_all; done)))
    | ring1
    | (simp_all; done))

/-- closes what `simp` left of such an equation (a conjunction of field equations) -/
macro "leftover" : tactic =>
  `(tactic| (repeat' constructor) <;> first | rfl | assumption | ring1 | (simp_all; done) | (simp_all; ring1))

theorem update_eq (r : Res) (o : Obs) : Generated.C06.update r o = C06M.update r o := by
  obtain ⟨v, t⟩ := o
  unfold Generated.C06.update C06M.update
  cases hty : r.ty
  · -- SUM: nothing to split but the accumulate flag
    (simp only []) <;> cases hacc : r.acc <;> first | fields | (simp [*]; leftover)
  · -- RATIO: `total` given? zero?
    (simp only []) <;> rcases t with _ | t <;> (try by_cases h0 : t = 0) <;> cases hacc : r.acc <;>
      first | fields | (simp [*]; leftover)
  · -- MISC
    (simp only []) <;> cases hacc : r.acc <;> first | fields | (simp [*]; leftover)
  · -- CHOICE: an integer? in range?
    (simp only []) <;> by_cases hd : v.den = 1 <;> cases hi : pyIndex r.counts.length v.num <;>
      cases hacc : r.acc <;> first | fields | (simp [*]; leftover)

theorem merge_eq (a b : Res) (ha : OneValue a) (hb : OneValue b) :
    Generated.C06.merge a b = C06M.merge a b := by
  obtain ⟨a1, a2⟩ := ha
  obtain ⟨b1, b2⟩ := hb
  unfold Generated.C06.merge C06M.merge mergeGuard extendLists
  by_cases hty : b.ty = a.ty
  · by_cases hn : a.name = b.name
    · by_cases hl : a.counts.length = b.counts.length
      · cases hta : a.ty <;> cases haa : a.acc <;> cases hba : b.acc <;>
          simp only [hta] at hty a1 a2 <;> simp only [hty] at b1 b2 <;>
          simp [hta, haa, hba, hn, hl, hty, addCounts_eq hl] <;>
          first | done | (simp_all; done) | leftover
      · cases hta : a.ty <;> cases haa : a.acc <;> cases hba : b.acc <;>
          simp only [hta] at hty a1 a2 <;> simp only [hty] at b1 b2 <;>
          simp [hta, haa, hba, hn, hl, hty] <;>
          first | done | (simp_all; done) | leftover
    · cases hta : a.ty <;> cases haa : a.acc <;> cases hba : b.acc <;>
        simp only [hta] at hty <;> simp [hta, haa, hba, hn, hty]
  · have hty' : ¬ a.ty = b.ty := fun h => hty h.symm
    cases hta : a.ty <;> simp only [hta] at hty hty' <;> simp [hta, hty, hty']

theorem getResult_eq (r : Res) : Generated.C06.getResult r = C06M.getResult r := by
  unfold Generated.C06.getResult C06M.getResult
  cases hty : r.ty <;> by_cases hn : r.n = 0 <;> by_cases ht : r.total = 0 <;>
    simp [hn, ht] <;> first | done | leftover

theorem getMean_eq (r : Res) : Generated.C06.getMean r = C06M.getMean r := by
  unfold Generated.C06.getMean C06M.getMean
  cases hty : r.ty <;> by_cases hn : r.n = 0 <;> simp [hn] <;> first | done | leftover

theorem getVar_eq (r : Res) : Generated.C06.getVar r = C06M.getVar r := by
  unfold Generated.C06.getVar C06M.getVar
  cases hty : r.ty <;> by_cases hn : r.n = 0 <;> simp [hn] <;> first | done | leftover

end Gen
end PyPhysim.C06M
