import PyPhysim.Proofs.C19Geom
import PyPhysim.Model.C19Spec
import Mathlib.Tactic.Positivity
import Mathlib.Tactic.LinearCombination
import Mathlib.Algebra.Order.Field.Basic

set_option linter.unusedSectionVars false

/-! C19 — cluster layout, the part that holds for every list of raw positions: the centroid is the
cluster position, pairwise distances are those of the raw positions. -/
namespace PyPhysim.C19

section field
variable {α : Type} [Field α] [LinearOrder α] [IsStrictOrderedRing α]

theorem sumPts_map_shift (l : List (Pt α)) (c q : Pt α) :
    sumPts (l.map (fun p => padd (psub p c) q)) =
      padd (psub (sumPts l) (smul (l.length : α) c)) (smul (l.length : α) q) := by
  induction l with
  | nil => simp [sumPts, padd, psub, smul]
  | cons x xs ih =>
    simp only [List.map_cons, sumPts, ih, List.length_cons]
    simp only [padd, psub, smul]
    push_cast
    ext <;> simp <;> ring

/-- **centred around the cluster position**: for every non-empty list of raw positions, any rotation
    vector and any cluster position, the mean of the cell centres is the cluster position -/
theorem cluster_centroid' (raw : List (Pt α)) (hne : raw ≠ []) (u pos : Pt α) :
    meanPt (clusterCentres raw u pos) = pos := by
  have hn : ((raw.length : ℕ) : α) ≠ 0 := by
    have : raw.length ≠ 0 := by simpa [List.length_eq_zero_iff] using hne
    exact_mod_cast this
  simp only [clusterCentres, meanPt, List.length_map]
  rw [sumPts_map_shift]
  simp only [List.length_map, padd, psub, smul]
  ext
  · simp only; field_simp; ring
  · simp only; field_simp; ring

theorem clusterCentres_getElem (raw : List (Pt α)) (u pos : Pt α) (i : ℕ) :
    (clusterCentres raw u pos)[i]? =
      raw[i]?.map (fun p => padd (psub (rot u p) (meanPt (raw.map (rot u)))) pos) := by
  simp only [clusterCentres, List.getElem?_map, Option.map_map]
  rfl

theorem clusterCentres_length (raw : List (Pt α)) (u pos : Pt α) :
    (clusterCentres raw u pos).length = raw.length := by
  simp [clusterCentres]

/-- pairwise distances between cell centres do not depend on rotation, centring and position -/
theorem cluster_dist_invariant' (raw : List (Pt α)) (u pos : Pt α) (i j : ℕ) (ci cj : Pt α)
    (hi : (clusterCentres raw u pos)[i]? = some ci) (hj : (clusterCentres raw u pos)[j]? = some cj) :
    ∃ pi pj, raw[i]? = some pi ∧ raw[j]? = some pj ∧ dist2 ci cj = norm2 u * dist2 pi pj ∧
      psub cj ci = rot u (psub pj pi) := by
  rw [clusterCentres_getElem] at hi hj
  cases hpi : raw[i]? with
  | none => rw [hpi] at hi; simp at hi
  | some pi =>
    cases hpj : raw[j]? with
    | none => rw [hpj] at hj; simp at hj
    | some pj =>
      rw [hpi] at hi; rw [hpj] at hj
      simp only [Option.map_some, Option.some.injEq] at hi hj
      refine ⟨pi, pj, rfl, rfl, ?_, ?_⟩
      · rw [← hi, ← hj, dist2_padd_right, dist2_psub_right, dist2_rot]
      · rw [← hi, ← hj]
        simp only [psub, padd, rot, cmul]
        ext <;> simp <;> ring

/-- every cell of a cluster is the same polygon, translated: vertex `k` of cell `i` minus its centre
    is vertex `k` of cell `j` minus its centre -/
theorem cells_congruent' (base : List (Pt α)) (u ci cj : Pt α) :
    (cellVerts base u ci).map (fun v => psub v ci) = (cellVerts base u cj).map (fun v => psub v cj) := by
  simp only [cellVerts, place, List.map_map]
  apply List.map_congr_left
  intro v _
  simp only [Function.comp, psub, padd]
  ext <;> simp
end field

end PyPhysim.C19
