import Mathlib.Tactic.Ring
import PyPhysim.Proofs.C09Bridge

/-!
Null-space algebra of block diagonalisation: the rows of the other users are
all present in the tilde channel, a precoder built inside the null space
(`M_k = V0_k · X_k`, any `X_k`) is invisible to every other user, stacking and
per-column scaling keep the product block diagonal.
-/
set_option linter.unusedSectionVars false
namespace PyPhysim.BD
open Matrix

/-- `A` has no entry outside its diagonal user blocks -/
def IsBlockDiagonal {R : Type} [Zero R] {K N : Nat} (A : Mat R (K * N) (K * N)) : Prop :=
  ∀ x y, userOf x ≠ userOf y → A x y = 0

namespace Pf

section ring
variable {R : Type} [CommRing R] {K N T n : Nat}

/-- every row of every other user is one of the rows of the tilde channel -/
theorem join_mem_tildeIdx (k j : Fin K) (hjk : j ≠ k) (i : Fin N) : join j i ∈ tildeIdx (N := N) k := by
  unfold tildeIdx
  rw [List.mem_flatMap]
  refine ⟨j, ?_, ?_⟩
  · rw [List.mem_filter]
    exact ⟨List.mem_finRange j, by simpa using hjk⟩
  · rw [List.mem_map]
    exact ⟨i, List.mem_finRange i, rfl⟩

/-- … and the tilde channel has no row of user `k` itself -/
theorem tildeIdx_other (k : Fin K) (x : Fin (K * N)) (hx : x ∈ tildeIdx (N := N) k) : userOf x ≠ k := by
  unfold tildeIdx at hx
  rw [List.mem_flatMap] at hx
  obtain ⟨u, hu, hxu⟩ := hx
  rw [List.mem_filter] at hu
  rw [List.mem_map] at hxu
  obtain ⟨i, _, rfl⟩ := hxu
  simpa using hu.2

/-- the null-space contract stated on the stacked tilde channel gives it for the
    channel of every single other user -/
theorem rowBlock_null_of_tilde (H : Mat R (K * N) T) (k : Fin K) (V : Mat R T n)
    (h : matMul (tildeChannel H k) V = fun _ _ => 0) (j : Fin K) (hjk : j ≠ k) :
    matMul (rowBlock H j) V = fun _ _ => 0 := by
  funext r c
  obtain ⟨pos, hpos⟩ := List.mem_iff_get.mp (join_mem_tildeIdx k j hjk r)
  have := congrFun (congrFun h pos) c
  simp only [matMul, tildeChannel, rowsOf, hpos] at this
  simpa [matMul, rowBlock] using this

/-- conversely: if every other user's channel annihilates `V`, so does the tilde channel -/
theorem tilde_null_of_rowBlocks (H : Mat R (K * N) T) (k : Fin K) (V : Mat R T n)
    (h : ∀ j, j ≠ k → matMul (rowBlock H j) V = fun _ _ => 0) :
    matMul (tildeChannel H k) V = fun _ _ => 0 := by
  funext r c
  have hx := tildeIdx_other k _ (List.get_mem (tildeIdx (N := N) k) r)
  have := congrFun (congrFun (h _ hx) (within ((tildeIdx (N := N) k).get r))) c
  simpa [matMul, rowBlock, tildeChannel, rowsOf] using this

/-- a precoder inside the null space is invisible: `H_j (V0 X) = 0` for ANY `X` -/
theorem null_mul {m s : Nat} (Hj : Mat R m T) (V0 : Mat R T n) (X : Mat R n s)
    (h : matMul Hj V0 = fun _ _ => 0) : matMul Hj (matMul V0 X) = fun _ _ => 0 := by
  rw [← matMul_assoc, h]
  funext r c
  simp [matMul_apply]

/-- entry of `H · hstack(M)` = entry of (user's channel) · (user's precoder) -/
theorem matMul_stackCols (H : Mat R (K * N) T) (M : Fin K → Mat R T N) (x y : Fin (K * N)) :
    matMul H (stackCols M) x y = matMul (rowBlock H (userOf x)) (M (userOf y)) (within x) (within y) := by
  simp [matMul_apply, stackCols, rowBlock]

theorem colBlock_stackCols (M : Fin K → Mat R T N) (k : Fin K) : colBlock (stackCols M) k = M k := by
  funext i c
  simp [colBlock, stackCols]

/-- `H · hstack(M)` is block diagonal when every `M_k` is invisible to the other users -/
theorem blockDiagonal_stack (H : Mat R (K * N) T) (M : Fin K → Mat R T N)
    (h : ∀ j k, j ≠ k → matMul (rowBlock H j) (M k) = fun _ _ => 0) :
    IsBlockDiagonal (matMul H (stackCols M)) := by
  intro x y hxy
  rw [matMul_stackCols, h _ _ hxy]

/-- scaling every column by its own scalar keeps the product block diagonal
    (water-filling, normalisation, per-transmitter normalisation) -/
theorem matMul_colScaled (H : Mat R (K * N) T) (A B : Mat R T (K * N)) (t : Fin (K * N) → R)
    (hB : ∀ i y, B i y = A i y * t y) (x y : Fin (K * N)) :
    matMul H B x y = matMul H A x y * t y := by
  simp only [matMul_apply, hB, Finset.sum_mul]
  exact Finset.sum_congr rfl (fun l _ => by ring)

theorem blockDiagonal_colScaled (H : Mat R (K * N) T) (A B : Mat R T (K * N)) (t : Fin (K * N) → R)
    (hB : ∀ i y, B i y = A i y * t y) (hA : IsBlockDiagonal (matMul H A)) :
    IsBlockDiagonal (matMul H B) := by
  intro x y hxy
  rw [matMul_colScaled H A B t hB, hA x y hxy, zero_mul]

/-- left multiplication by a block-diagonal matrix acts user by user -/
theorem rowBlock_blockDiag_mul (F : Fin K → Mat R N N) (H : Mat R (K * N) T) (j : Fin K) :
    rowBlock (matMul (blockDiag F) H) j = matMul (F j) (rowBlock H j) := by
  funext r c
  simp only [rowBlock, matMul_apply, blockDiag]
  rw [sum_blocks]
  simp only [userOf_join, within_join]
  rw [Finset.sum_eq_single j]
  · simp
  · intro b _ hb
    simp [Ne.symm hb]
  · intro h; exact absurd (Finset.mem_univ j) h

/-- right multiplication: only the diagonal block of a block-diagonal right factor counts -/
theorem diagBlock_mul_of_blockDiagonal (A B : Mat R (K * N) (K * N)) (hB : IsBlockDiagonal B) (k : Fin K) :
    diagBlock (matMul A B) k = matMul (diagBlock A k) (diagBlock B k) := by
  funext r c
  simp only [diagBlock, matMul_apply]
  rw [sum_blocks, Finset.sum_eq_single k]
  · intro b _ hb
    refine Finset.sum_eq_zero (fun i _ => ?_)
    rw [hB (join b i) (join k c) (by simpa using hb), mul_zero]
  · intro h; exact absurd (Finset.mem_univ k) h

theorem diagBlock_eye (k : Fin K) : diagBlock (eye : Mat R (K * N) (K * N)) k = eye := by
  funext r c
  simp only [diagBlock, eye]
  by_cases h : r = c
  · simp [h]
  · have : join k r ≠ join k c := fun e => h (join_injective e).2
    simp [h, this]

end ring
end Pf
end PyPhysim.BD
