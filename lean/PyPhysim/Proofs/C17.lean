import PyPhysim.Model.C17
/-!
Helper lemmas for C17, value layer: `dec (enc v) = ok (norm v)` by mutual
structural recursion, idempotence of `norm`, `enc ∘ norm = enc`.
-/
namespace PyPhysim.C17
open PyPhysim.Proto

@[simp] theorem bind_ok {α β : Type} (a : α) (f : α → R β) : (Except.ok a : R α).bind f = f a := rfl

/-! ### arrays -/

mutual
  theorem norm_leaves (k : Leaf) : ∀ v : PyVal, leavesOk k v = true → norm v = v
    | .int _, _ => rfl
    | .float _, _ => rfl
    | .bool _, _ => rfl
    | .list xs, h => by
      simp only [leavesOk] at h
      simp only [norm]; rw [normList_leaves k xs h]
    | .none, h => by simp [leavesOk] at h
    | .str _, h => by simp [leavesOk] at h
    | .npint _ _ _, h => by simp [leavesOk] at h
    | .npfloat _ _, h => by simp [leavesOk] at h
    | .npbool _, h => by simp [leavesOk] at h
    | .set _, h => by simp [leavesOk] at h
    | .ndarray _ _ _, h => by simp [leavesOk] at h
    | .dict _, h => by simp [leavesOk] at h
  theorem normList_leaves (k : Leaf) : ∀ xs : List PyVal, leavesOkList k xs = true → normList xs = xs
    | [], _ => rfl
    | x :: xs, h => by
      simp only [leavesOkList, Bool.and_eq_true] at h
      simp only [normList]; rw [norm_leaves k x h.1, normList_leaves k xs h.2]
end

mutual
  /-- array data survives the JSON layer unchanged -/
  theorem dec_enc_leaves (k : Leaf) : ∀ v : PyVal, leavesOk k v = true → dec (enc v) = .ok v
    | .int _, _ => rfl
    | .float _, _ => rfl
    | .bool _, _ => rfl
    | .list xs, h => by
      simp only [leavesOk] at h
      simp only [enc, dec]; rw [decList_encList_leaves k xs h]; rfl
    | .none, h => by simp [leavesOk] at h
    | .str _, h => by simp [leavesOk] at h
    | .npint _ _ _, h => by simp [leavesOk] at h
    | .npfloat _ _, h => by simp [leavesOk] at h
    | .npbool _, h => by simp [leavesOk] at h
    | .set _, h => by simp [leavesOk] at h
    | .ndarray _ _ _, h => by simp [leavesOk] at h
    | .dict _, h => by simp [leavesOk] at h
  theorem decList_encList_leaves (k : Leaf) :
      ∀ xs : List PyVal, leavesOkList k xs = true → decList (encList xs) = .ok xs
    | [], _ => rfl
    | x :: xs, h => by
      simp only [leavesOkList, Bool.and_eq_true] at h
      simp only [encList, decList]
      rw [dec_enc_leaves k x h.1, decList_encList_leaves k xs h.2]; rfl
end

theorem decList_shape (sh : List Nat) :
    decList (sh.map (fun (n : Nat) => Json.int (n : Int))) = .ok (sh.map (fun (n : Nat) => PyVal.int (n : Int))) := by
  induction sh with
  | nil => rfl
  | cons n sh ih => simp only [List.map, decList, dec, ih]; rfl

theorem natList_shape (sh : List Nat) :
    natList (sh.map (fun (n : Nat) => PyVal.int (n : Int))) = some sh := by
  induction sh with
  | nil => rfl
  | cons n sh ih =>
    simp only [List.map, natList, ih]
    have : ¬ ((n : Int) < 0) := by omega
    simp [this]

theorem objHook_array (data dt sh : PyVal) :
    objHook [("data", data), ("dtype", dt), ("_is_numpy_array", .bool true), ("shape", sh)] = mkArray data dt sh := rfl

theorem objHook_set (data : PyVal) : objHook [("data", data), ("_is_set", .bool true)] = mkSet data := rfl

/-- the array clause of the round trip -/
theorem dec_enc_ndarray (dt : String) (sh : List Nat) (data : PyVal)
    (h : wf (.ndarray dt sh data) = true) :
    dec (enc (.ndarray dt sh data)) = .ok (.ndarray dt sh data) := by
  simp only [wf] at h
  cases hk : dtypeKind dt with
  | none => rw [hk] at h; simp at h
  | some k =>
    rw [hk] at h
    simp only [Bool.and_eq_true, beq_iff_eq] at h
    obtain ⟨hl, hs⟩ := h
    simp only [enc, dec, decKVs, dec_enc_leaves k data hl, decList_shape, Except.bind]
    rw [objHook_array]
    simp [mkArray, hk, natList_shape, hl, hs]

/-! ### sets -/

theorem foldl_setAdd_distinct :
    ∀ (xs acc : List PyVal), pairwiseDistinct xs = true →
      (∀ x ∈ xs, acc.any (fun y => pyEq y x) = false) →
      xs.foldl setAdd acc = acc ++ xs
  | [], acc, _, _ => by simp
  | x :: xs, acc, hd, hacc => by
    simp only [pairwiseDistinct, Bool.and_eq_true, Bool.not_eq_eq_eq_not, Bool.not_true] at hd
    have hx : acc.any (fun y => pyEq y x) = false := hacc x (by simp)
    simp only [List.foldl, setAdd, hx, Bool.false_eq_true, if_false]
    rw [foldl_setAdd_distinct xs (acc ++ [x]) hd.2]
    · simp
    · intro z hz
      have h1 := hacc z (by simp [hz])
      have h2 : pyEq x z = false := by
        have := hd.1
        rw [List.any_eq_false] at this
        simpa using this z hz
      simp [List.any_append, h1, h2]

/-- `pyEq` only looks at the value, not at the numpy type -/
theorem numOf_norm (v : PyVal) (h : hashable v = true) : numOf (norm v) = numOf v := by
  cases v <;> simp_all [hashable, norm, numOf]

theorem pyEq_norm (a b : PyVal) (ha : hashable a = true) (hb : hashable b = true) :
    pyEq (norm a) (norm b) = pyEq a b := by
  unfold pyEq
  rw [numOf_norm a ha, numOf_norm b hb]
  cases a <;> cases b <;> simp_all [hashable, norm, numOf]

theorem hashable_norm (v : PyVal) (h : hashable v = true) : hashable (norm v) = true := by
  cases v <;> simp_all [hashable, norm]

theorem normList_eq_map (xs : List PyVal) : normList xs = xs.map norm := by
  induction xs with
  | nil => rfl
  | cons x xs ih => simp [normList, ih]

theorem all_hashable_norm (xs : List PyVal) (h : xs.all hashable = true) :
    (normList xs).all hashable = true := by
  rw [normList_eq_map]
  simp only [List.all_eq_true, List.mem_map] at *
  rintro _ ⟨x, hx, rfl⟩
  exact hashable_norm x (h x hx)

theorem pairwiseDistinct_norm : ∀ (xs : List PyVal), xs.all hashable = true →
    pairwiseDistinct xs = true → pairwiseDistinct (normList xs) = true
  | [], _, _ => rfl
  | x :: xs, hh, hd => by
    simp only [List.all_cons, Bool.and_eq_true] at hh
    simp only [pairwiseDistinct, Bool.and_eq_true, Bool.not_eq_eq_eq_not, Bool.not_true] at hd
    simp only [normList, pairwiseDistinct, Bool.and_eq_true, Bool.not_eq_eq_eq_not, Bool.not_true]
    refine ⟨?_, pairwiseDistinct_norm xs hh.2 hd.2⟩
    rw [normList_eq_map, List.any_eq_false]
    intro z hz
    obtain ⟨y, hy, rfl⟩ := List.mem_map.1 hz
    have hyh : hashable y = true := (List.all_eq_true.1 hh.2) y hy
    rw [pyEq_norm x y hh.1 hyh]
    have := hd.1
    rw [List.any_eq_false] at this
    simpa using this y hy

/-! ### the reserved keys -/

theorem reserved_ne (k k' : String) (hk : reserved k = true) (hk' : reserved k' = false) :
    (k' == k) = false := by
  cases h : (k' == k)
  · rfl
  · have : k' = k := by simpa using h
    subst this; rw [hk] at hk'; cases hk'

theorem lookup_reserved_none (k : String) (hk : reserved k = true) :
    ∀ kvs : List (String × PyVal), wfKVs kvs = true → lookup k (normKVs kvs) = .none
  | [], _ => rfl
  | (k', v) :: kvs, h => by
    simp only [wfKVs, Bool.and_eq_true, Bool.not_eq_eq_eq_not, Bool.not_true] at h
    simp only [normKVs, lookup, reserved_ne k k' hk h.1.1]
    exact lookup_reserved_none k hk kvs h.2

/-! ### the round trip -/

mutual
  theorem dec_enc_aux : ∀ v : PyVal, wf v = true → dec (enc v) = .ok (norm v)
    | .none, _ => rfl
    | .bool _, _ => rfl
    | .int _, _ => rfl
    | .float _, _ => rfl
    | .str _, _ => rfl
    | .npint _ _ _, _ => rfl
    | .npfloat _ _, _ => rfl
    | .npbool _, _ => rfl
    | .list xs, h => by
      simp only [wf] at h
      simp only [enc, dec, norm]; rw [dec_enc_list xs h]; rfl
    | .set xs, h => by
      simp only [wf, Bool.and_eq_true] at h
      obtain ⟨⟨hh, hd⟩, hw⟩ := h
      simp only [enc, dec, decKVs, norm]
      rw [dec_enc_list xs hw]
      simp only [Except.bind]
      rw [objHook_set]
      simp only [mkSet, all_hashable_norm xs hh, if_true]
      rw [foldl_setAdd_distinct (normList xs) [] (pairwiseDistinct_norm xs hh hd) (by simp)]
      simp
    | .ndarray dt sh data, h => by
      rw [dec_enc_ndarray dt sh data h]; rfl
    | .dict kvs, h => by
      simp only [wf] at h
      simp only [enc, dec, norm]
      rw [dec_enc_kvs kvs h]
      simp only [bind_ok, objHook]
      rw [lookup_reserved_none "_is_numpy_array" (by decide) kvs h,
          lookup_reserved_none "_is_set" (by decide) kvs h]
  theorem dec_enc_list : ∀ xs : List PyVal, wfList xs = true → decList (encList xs) = .ok (normList xs)
    | [], _ => rfl
    | x :: xs, h => by
      simp only [wfList, Bool.and_eq_true] at h
      simp only [encList, decList, normList]; rw [dec_enc_aux x h.1, dec_enc_list xs h.2]; rfl
  theorem dec_enc_kvs : ∀ kvs : List (String × PyVal), wfKVs kvs = true →
      decKVs (encKVs kvs) = .ok (normKVs kvs)
    | [], _ => rfl
    | (k, v) :: kvs, h => by
      simp only [wfKVs, Bool.and_eq_true] at h
      simp only [encKVs, decKVs, normKVs]; rw [dec_enc_aux v h.1.2, dec_enc_kvs kvs h.2]; rfl
end

/-! ### `norm` is a projection that keeps values and JSON text -/

mutual
  theorem norm_norm : ∀ v : PyVal, norm (norm v) = norm v
    | .none => rfl | .bool _ => rfl | .int _ => rfl | .float _ => rfl | .str _ => rfl
    | .npint _ _ _ => rfl | .npfloat _ _ => rfl | .npbool _ => rfl
    | .list xs => by simp only [norm]; rw [normList_normList xs]
    | .set xs => by simp only [norm]; rw [normList_normList xs]
    | .ndarray _ _ _ => rfl
    | .dict kvs => by simp only [norm]; rw [normKVs_normKVs kvs]
  theorem normList_normList : ∀ xs : List PyVal, normList (normList xs) = normList xs
    | [] => rfl
    | x :: xs => by simp only [normList]; rw [norm_norm x, normList_normList xs]
  theorem normKVs_normKVs : ∀ kvs : List (String × PyVal), normKVs (normKVs kvs) = normKVs kvs
    | [] => rfl
    | (k, v) :: kvs => by simp only [normKVs]; rw [norm_norm v, normKVs_normKVs kvs]
end

mutual
  theorem enc_norm_aux : ∀ v : PyVal, enc (norm v) = enc v
    | .none => rfl | .bool _ => rfl | .int _ => rfl | .float _ => rfl | .str _ => rfl
    | .npint _ _ _ => rfl | .npfloat _ _ => rfl | .npbool _ => rfl
    | .list xs => by simp only [norm, enc]; rw [encList_norm xs]
    | .set xs => by simp only [norm, enc]; rw [encList_norm xs]
    | .ndarray _ _ _ => rfl
    | .dict kvs => by simp only [norm, enc]; rw [encKVs_norm kvs]
  theorem encList_norm : ∀ xs : List PyVal, encList (normList xs) = encList xs
    | [] => rfl
    | x :: xs => by simp only [normList, encList]; rw [enc_norm_aux x, encList_norm xs]
  theorem encKVs_norm : ∀ kvs : List (String × PyVal), encKVs (normKVs kvs) = encKVs kvs
    | [] => rfl
    | (k, v) :: kvs => by simp only [normKVs, encKVs]; rw [enc_norm_aux v, encKVs_norm kvs]
end

mutual
  theorem wf_norm_aux : ∀ v : PyVal, wf v = true → wf (norm v) = true
    | .none, _ => rfl | .bool _, _ => rfl | .int _, _ => rfl | .float _, _ => rfl | .str _, _ => rfl
    | .npint _ _ _, _ => rfl | .npfloat _ _, _ => rfl | .npbool _, _ => rfl
    | .list xs, h => by simp only [wf] at h; simp only [norm, wf]; exact wfList_norm xs h
    | .set xs, h => by
      simp only [wf, Bool.and_eq_true] at h
      simp only [norm, wf, Bool.and_eq_true]
      exact ⟨⟨all_hashable_norm xs h.1.1, pairwiseDistinct_norm xs h.1.1 h.1.2⟩, wfList_norm xs h.2⟩
    | .ndarray _ _ _, h => h
    | .dict kvs, h => by simp only [wf] at h; simp only [norm, wf]; exact wfKVs_norm kvs h
  theorem wfList_norm : ∀ xs : List PyVal, wfList xs = true → wfList (normList xs) = true
    | [], _ => rfl
    | x :: xs, h => by
      simp only [wfList, Bool.and_eq_true] at h
      simp only [normList, wfList, Bool.and_eq_true]; exact ⟨wf_norm_aux x h.1, wfList_norm xs h.2⟩
  theorem wfKVs_norm : ∀ kvs : List (String × PyVal), wfKVs kvs = true → wfKVs (normKVs kvs) = true
    | [], _ => rfl
    | (k, v) :: kvs, h => by
      simp only [wfKVs, Bool.and_eq_true] at h
      simp only [normKVs, wfKVs, Bool.and_eq_true]
      exact ⟨⟨h.1.1, wf_norm_aux v h.1.2⟩, wfKVs_norm kvs h.2⟩
end

end PyPhysim.C17

namespace PyPhysim.C17

/-! ### `norm` keeps every value -/

theorem sameValue_scalar_norm (v : PyVal) (h : hashable v = true) : sameValue v (norm v) = true := by
  cases v with
  | none => rfl
  | bool b => simp [norm, sameValue, numOf, isNegZero]
  | int i => simp [norm, sameValue, numOf, isNegZero]
  | float f => cases f <;> simp [norm, sameValue, numOf, isNegZero]
  | str s => simp [norm, sameValue]
  | npint s w i => simp [norm, sameValue, numOf, isNegZero]
  | npfloat w f => cases f <;> simp [norm, sameValue, numOf, isNegZero]
  | npbool b => simp [norm, sameValue, numOf, isNegZero]
  | list xs => simp [hashable] at h
  | set xs => simp [hashable] at h
  | ndarray dt sh d => simp [hashable] at h
  | dict kvs => simp [hashable] at h

mutual
  theorem sameValue_refl : ∀ v : PyVal, sameValue v v = true
    | .none => rfl
    | .bool b => by simp [sameValue, numOf]
    | .int i => by simp [sameValue, numOf]
    | .float f => by cases f <;> simp [sameValue, numOf]
    | .str s => by simp [sameValue]
    | .npint s w i => by simp [sameValue, numOf]
    | .npfloat w f => by cases f <;> simp [sameValue, numOf]
    | .npbool b => by simp [sameValue, numOf]
    | .list xs => by simp only [sameValue]; exact sameValueList_refl xs
    | .set xs => by simp only [sameValue]; exact sameValueList_refl xs
    | .ndarray dt sh d => by simp only [sameValue, beq_self_eq_true, Bool.true_and]; exact sameValue_refl d
    | .dict kvs => by simp only [sameValue]; exact sameValueKVs_refl kvs
  theorem sameValueList_refl : ∀ xs : List PyVal, sameValueList xs xs = true
    | [] => rfl
    | x :: xs => by simp only [sameValueList, sameValue_refl x, sameValueList_refl xs, Bool.and_self]
  theorem sameValueKVs_refl : ∀ kvs : List (String × PyVal), sameValueKVs kvs kvs = true
    | [] => rfl
    | (k, v) :: kvs => by
      simp only [sameValueKVs, beq_self_eq_true, sameValue_refl v, sameValueKVs_refl kvs, Bool.and_self]
end

mutual
  theorem sameValue_norm_aux : ∀ v : PyVal, sameValue v (norm v) = true
    | .none => rfl
    | .bool b => sameValue_scalar_norm _ rfl
    | .int i => sameValue_scalar_norm _ rfl
    | .float f => sameValue_scalar_norm _ rfl
    | .str s => sameValue_scalar_norm _ rfl
    | .npint s w i => sameValue_scalar_norm _ rfl
    | .npfloat w f => sameValue_scalar_norm _ rfl
    | .npbool b => sameValue_scalar_norm _ rfl
    | .list xs => by simp only [norm, sameValue]; exact sameValueList_norm xs
    | .set xs => by simp only [norm, sameValue]; exact sameValueList_norm xs
    | .ndarray dt sh d => by simp only [norm]; exact sameValue_refl _
    | .dict kvs => by simp only [norm, sameValue]; exact sameValueKVs_norm kvs
  theorem sameValueList_norm : ∀ xs : List PyVal, sameValueList xs (normList xs) = true
    | [] => rfl
    | x :: xs => by
      simp only [normList, sameValueList, sameValue_norm_aux x, sameValueList_norm xs, Bool.and_self]
  theorem sameValueKVs_norm : ∀ kvs : List (String × PyVal), sameValueKVs kvs (normKVs kvs) = true
    | [] => rfl
    | (k, v) :: kvs => by
      simp only [normKVs, sameValueKVs, beq_self_eq_true, sameValue_norm_aux v, sameValueKVs_norm kvs,
        Bool.and_self]
end

end PyPhysim.C17
