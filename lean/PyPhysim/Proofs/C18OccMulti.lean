import PyPhysim.Proofs.C18Multi

/-!
C18 — cover-code estimator with several users: additivity of the cover-code
average, rejection of a user by its cyclic shift or by an orthogonal cover code.
-/
set_option linter.unusedSectionVars false
namespace PyPhysim.C18P
open PyPhysim.Cazac PyPhysim.Proto Finset

variable {F : Type} [Field F] [CisOps F]

local notation "cis" => (CisOps.cis : ℚ → F)
local notation "conj" => (CisOps.conj : F → F)

/-- row-wise superposition of two `Nc × Ne` observations -/
def addRows (Y0 Y1 : List (List F)) : List (List F) := List.zipWith addL Y0 Y1

theorem map_mul_getD (x : List F) (g : F) (i : ℕ) (hi : i < x.length) :
    (x.map (fun v => v * g)).getD i 0 = x.getD i 0 * g := by
  simp [List.getD_eq_getElem?_getD, List.getElem?_map, List.getElem?_eq_getElem hi]

/-- zero observation ⇒ zero estimate -/
theorem estimate1_zero (r : List F) (nrm : Bool) (m K : ℕ) (hm : 0 < m) (hN : 0 < r.length) :
    estimate1 r nrm m (zerosL r.length) K = .ok (zerosL (m * r.length)) := by
  rw [estimate1_closed r _ nrm m K (by simp [zerosL]) hm hN]
  congr 1
  unfold zerosL
  apply map_range_congr
  intro f _
  have hfe : freqEst r ((List.range r.length).map (fun _ => (0 : F))) m K f = 0 := by
    unfold freqEst
    apply Finset.sum_eq_zero
    intro k _
    unfold tapEst
    have : ∑ n ∈ range r.length, CisOps.conj (r.getD n 0)
        * ((List.range r.length).map (fun _ => (0 : F))).getD n 0
        * CisOps.cis (((n * k : ℕ) : ℚ) / ((r.length : ℕ) : ℚ)) = 0 := by
      apply Finset.sum_eq_zero
      intro n hn
      rw [map_range_getD _ _ _ (Finset.mem_range.mp hn), mul_zero, zero_mul]
    rw [this, zero_div, zero_mul]
  rw [hfe]
  cases nrm <;> simp

/-- cover-code average of another user's observation: its sequence scaled by
    the normalised inner product `γ` of the two cover codes -/
theorem occMean_other (cc ccu H xr : List F) (hcc : cc ≠ []) (hlen : ccu.length = cc.length)
    [CharZero F] :
    occMean cc ((ccu.map (fun c => xr.map (fun v => v * c))).map (fun row => observe H 1 row))
      = .ok (observe H 1 (xr.map (fun v => v *
          ((∑ c ∈ range cc.length, ccu.getD c 0 * cc.getD c 0) / ((cc.length : ℕ) : F))))) := by
  rw [occMean_closed cc _ xr.length hcc (by simp [hlen])
    (by
      intro row hrow
      simp only [List.map_map, List.mem_map, Function.comp_def] at hrow
      obtain ⟨c, _, rfl⟩ := hrow
      rw [observe_length, List.length_map])]
  congr 1
  rw [show observe H 1 (xr.map (fun v => v *
          ((∑ c ∈ range cc.length, ccu.getD c 0 * cc.getD c 0) / ((cc.length : ℕ) : F))))
      = (List.range xr.length).map (fun n => H.getD (1 * n) 0 * (xr.map (fun v => v *
          ((∑ c ∈ range cc.length, ccu.getD c 0 * cc.getD c 0) / ((cc.length : ℕ) : F)))).getD n 0) from by
    unfold observe; rw [List.length_map]]
  apply map_range_congr
  intro i hi
  have hterm : ∀ c ∈ range cc.length,
      (((ccu.map (fun c => xr.map (fun v => v * c))).map (fun row => observe H 1 row)).getD c []).getD i 0
          * cc.getD c 0
        = H.getD (1 * i) 0 * xr.getD i 0 * (ccu.getD c 0 * cc.getD c 0) := by
    intro c hc
    have hc' : c < ccu.length := by rw [hlen]; exact Finset.mem_range.mp hc
    rw [rows_obs_getD H xr ccu c hc', observe_getD _ _ _ _ (by rw [List.length_map]; exact hi),
      map_mul_getD xr _ i hi]
    have : ccu.getD c 0 = ccu[c] := by
      simp [List.getD_eq_getElem?_getD, List.getElem?_eq_getElem hc']
    rw [this]
    ring
  rw [Finset.sum_congr rfl hterm, ← Finset.mul_sum, map_mul_getD xr _ i hi]
  ring

theorem addRows_getD (Y0 Y1 : List (List F)) (c : ℕ) (h0 : c < Y0.length) (h1 : c < Y1.length) :
    (addRows Y0 Y1).getD c [] = addL (Y0.getD c []) (Y1.getD c []) := by
  unfold addRows
  simp [List.getD_eq_getElem?_getD, List.getElem?_zipWith, List.getElem?_eq_getElem h0,
    List.getElem?_eq_getElem h1]

/-- the cover-code average is additive -/
theorem occMean_add (cc : List F) (Y0 Y1 : List (List F)) (M0 M1 : List F) (n : ℕ) (hcc : cc ≠ [])
    (hY0 : Y0.length = cc.length) (hY1 : Y1.length = cc.length)
    (hr0 : ∀ row ∈ Y0, row.length = n) (hr1 : ∀ row ∈ Y1, row.length = n)
    (h0 : occMean cc Y0 = .ok M0) (h1 : occMean cc Y1 = .ok M1) :
    occMean cc (addRows Y0 Y1) = .ok (addL M0 M1) := by
  rw [occMean_closed cc Y0 n hcc hY0 hr0] at h0
  rw [occMean_closed cc Y1 n hcc hY1 hr1] at h1
  injection h0 with h0
  injection h1 with h1
  have hlen : (addRows Y0 Y1).length = cc.length := by
    unfold addRows; simp [hY0, hY1]
  have hrows : ∀ row ∈ addRows Y0 Y1, row.length = n := by
    intro row hrow
    unfold addRows at hrow
    rw [List.mem_iff_getElem] at hrow
    obtain ⟨c, hc, rfl⟩ := hrow
    simp only [List.length_zipWith] at hc
    rw [List.getElem_zipWith, addL_length, hr0 _ (List.getElem_mem _), hr1 _ (List.getElem_mem _),
      Nat.min_self]
  rw [occMean_closed cc _ n hcc hlen hrows, ← h0, ← h1, addL_map_range]
  congr 1
  apply map_range_congr
  intro i hi
  rw [← add_div, ← Finset.sum_add_distrib]
  congr 1
  apply Finset.sum_congr rfl
  intro c hc
  have hc' := Finset.mem_range.mp hc
  have hc0 : c < Y0.length := by rw [hY0]; exact hc'
  have hc1 : c < Y1.length := by rw [hY1]; exact hc'
  have hl0 : (Y0.getD c []).length = n := by
    rw [List.getD_eq_getElem?_getD, List.getElem?_eq_getElem hc0]; exact hr0 _ (List.getElem_mem _)
  have hl1 : (Y1.getD c []).length = n := by
    rw [List.getD_eq_getElem?_getD, List.getElem?_eq_getElem hc1]; exact hr1 _ (List.getElem_mem _)
  rw [addRows_getD Y0 Y1 c hc0 hc1, addL_getD _ _ i (by rw [hl0]; exact hi) (by rw [hl1]; exact hi)]
  ring

/-- shape of an `Nc × Ne` observation block -/
def IsBlock (Y : List (List F)) (nc n : ℕ) : Prop := Y.length = nc ∧ ∀ row ∈ Y, row.length = n

theorem addRows_isBlock (Y0 Y1 : List (List F)) (nc n : ℕ) (h0 : IsBlock Y0 nc n) (h1 : IsBlock Y1 nc n) :
    IsBlock (addRows Y0 Y1) nc n := by
  refine ⟨by unfold addRows; simp [h0.1, h1.1], ?_⟩
  intro row hrow
  unfold addRows at hrow
  rw [List.mem_iff_getElem] at hrow
  obtain ⟨c, hc, rfl⟩ := hrow
  rw [List.getElem_zipWith, addL_length, h0.2 _ (List.getElem_mem _), h1.2 _ (List.getElem_mem _),
    Nat.min_self]

/-- the cover-code estimator is additive in the observation -/
theorem estimateOcc1_add (ue : UeSeq F) (ref cc : List F) (Y0 Y1 : List (List F)) (E0 E1 : List F) (K : ℕ)
    (href : occReference ue = .ok (ref, cc)) (hcc : cc ≠ []) (hN : 0 < ref.length)
    (hb0 : IsBlock Y0 cc.length ref.length) (hb1 : IsBlock Y1 cc.length ref.length)
    (h0 : estimateOcc1 ue Y0 K = .ok E0) (h1 : estimateOcc1 ue Y1 K = .ok E1) :
    estimateOcc1 ue (addRows Y0 Y1) K = .ok (addL E0 E1) := by
  unfold estimateOcc1 at h0 h1 ⊢
  rw [href] at h0 h1 ⊢
  simp only at h0 h1 ⊢
  rw [occMean_closed cc Y0 ref.length hcc hb0.1 hb0.2] at h0
  rw [occMean_closed cc Y1 ref.length hcc hb1.1 hb1.2] at h1
  simp only at h0 h1
  rw [occMean_add cc Y0 Y1 _ _ ref.length hcc hb0.1 hb1.1 hb0.2 hb1.2
    (occMean_closed cc Y0 ref.length hcc hb0.1 hb0.2) (occMean_closed cc Y1 ref.length hcc hb1.1 hb1.2)]
  simp only
  exact estimate1_add ref _ _ E0 E1 ue.normalized 1 K (by omega) hN (by simp) (by simp) h0 h1

/-- **several users, cover-code estimator** -/
theorem estimateOcc1_superposition (ue : UeSeq F) (ref cc : List F) (Y0 : List (List F)) (E0 : List F)
    (K : ℕ) (Ys : List (List (List F)))
    (href : occReference ue = .ok (ref, cc)) (hcc : cc ≠ []) (hN : 0 < ref.length)
    (hb0 : IsBlock Y0 cc.length ref.length) (hE0 : E0.length = ref.length)
    (h0 : estimateOcc1 ue Y0 K = .ok E0)
    (hYs : ∀ Y ∈ Ys, IsBlock Y cc.length ref.length ∧ estimateOcc1 ue Y K = .ok (zerosL ref.length)) :
    estimateOcc1 ue (Ys.foldl addRows Y0) K = .ok E0 := by
  induction Ys generalizing Y0 with
  | nil => exact h0
  | cons Y rest ih =>
    rw [List.foldl_cons]
    obtain ⟨hYb, hYe⟩ := hYs Y (by simp)
    apply ih
    · exact addRows_isBlock Y0 Y _ _ hb0 hYb
    · have := estimateOcc1_add ue ref cc Y0 Y E0 (zerosL ref.length) K href hcc hN hb0 hYb h0 hYe
      rw [addL_zeros E0 _ hE0] at this
      exact this
    · intro Y' hY'
      exact hYs Y' (by simp [hY'])

theorem occReference_rowsOf (x : List F) (c0 : F) (cs : List F) (nrm : Bool) (nu : F) (hc0 : c0 * c0 = 1) :
    occReference (⟨nrm, rowsOf x (c0 :: cs) nrm nu, some (c0 :: cs)⟩ : UeSeq F)
      = .ok (rowOf x nrm nu, c0 :: cs) := by
  simp only [occReference, rowsOf, List.map_cons]
  congr 2
  rw [List.map_map]
  conv_rhs => rw [← List.map_id (rowOf x nrm nu)]
  apply List.map_congr_left
  intro v _
  simp only [Function.comp_def, id]
  rw [mul_assoc, hc0, mul_one]

theorem rowsOf_obs_isBlock (x cc H : List F) (nrm : Bool) (nu : F) :
    IsBlock ((rowsOf x cc nrm nu).map (fun row => observe H 1 row)) cc.length x.length := by
  refine ⟨by simp [rowsOf], ?_⟩
  intro row hrow
  simp only [rowsOf, List.map_map, List.mem_map, Function.comp_def] at hrow
  obtain ⟨c, _, rfl⟩ := hrow
  rw [observe_length, List.length_map, rowOf_length]

section
variable (L : CisLaws F) [CharZero F]
include L

/-- **Rejection, cover-code estimator**: another user is suppressed either by
    its cyclic shift (taps within one shift window) or by a cover code
    orthogonal to the reference user's. -/
theorem occ_estimate_reject (ph p0 pu : List ℚ) (c0 cu D t : ℕ) (k0 : F) (ks ccu : List F)
    (nrm : Bool) (nu : F) (h : List F) (K : ℕ) (hD : 0 < D) (ht : 0 < t) (hN : ph.length = D * t)
    (h0 : shiftedPhases ph c0 D = .ok p0) (hu : shiftedPhases ph cu D = .ok pu)
    (hk0 : k0 * k0 = 1) (hlen : ccu.length = (k0 :: ks).length)
    (hnu : nrm = true → conj nu = nu ∧ nu * nu = (ph.length : F))
    (hK : K + 1 ≤ t)
    (hrej : (c0 ≠ cu ∧ h.length ≤ t) ∨
      (∑ c ∈ range (k0 :: ks).length, ccu.getD c 0 * (k0 :: ks).getD c 0 = 0 ∧ h.length ≤ ph.length)) :
    estimateOcc1 ⟨nrm, rowsOf (seqValues p0 : List F) (k0 :: ks) nrm nu, some (k0 :: ks)⟩
        ((rowsOf (seqValues pu : List F) ccu nrm nu).map (fun row => observe (fftPad h ph.length) 1 row)) K
      = .ok (zerosL ph.length) := by
  have hc0 : c0 < D := by
    unfold shiftedPhases at h0
    by_contra hc; rw [if_neg hc] at h0; cases h0
  have hcu : cu < D := by
    unfold shiftedPhases at hu
    by_contra hc; rw [if_neg hc] at hu; cases hu
  have h0' := h0
  have hu' := hu
  rw [shiftedPhases_ok ph c0 D hc0] at h0
  rw [shiftedPhases_ok ph cu D hcu] at hu
  injection h0 with h0
  injection hu with hu
  have hNpos : 0 < ph.length := by rw [hN]; exact Nat.mul_pos hD ht
  have hp0 : p0.length = ph.length := by rw [← h0]; simp
  have hpu : pu.length = ph.length := by rw [← hu]; simp
  set xr0 := rowOf (seqValues p0 : List F) nrm nu with hxr0
  set xru := rowOf (seqValues pu : List F) nrm nu with hxru
  have hl0 : xr0.length = ph.length := by rw [hxr0, rowOf_length, seqValues_length, hp0]
  have hlu : xru.length = ph.length := by rw [hxru, rowOf_length, seqValues_length, hpu]
  unfold estimateOcc1
  rw [occReference_rowsOf _ k0 ks nrm nu hk0]
  simp only
  have hmean := occMean_other (k0 :: ks) ccu (fftPad h ph.length) xru (by simp) hlen
  rw [show (rowsOf (seqValues pu : List F) ccu nrm nu) = ccu.map (fun c => xru.map (fun v => v * c)) from rfl,
    hmean]
  simp only
  set γ : F := (∑ c ∈ range (k0 :: ks).length, ccu.getD c 0 * (k0 :: ks).getD c 0)
      / (((k0 :: ks).length : ℕ) : F) with hγ
  rcases hrej with ⟨hne, hL⟩ | ⟨horth, hL⟩
  · -- rejected by the cyclic shift
    have key := estimate_reject_core L xr0 (xru.map (fun v => v * γ)) h
      (rowScale ph.length nrm * γ) nrm 1 K ((((cu : ℤ) - c0) * t : ℤ)) (by omega)
      (by rw [hl0]; exact hNpos) (by rw [List.length_map, hl0, hlu])
      (by
        rw [hl0, Nat.one_mul]
        calc h.length ≤ t := hL
          _ ≤ D * t := Nat.le_mul_of_pos_left _ hD
          _ = ph.length := hN.symm)
      (by
        intro n hn
        rw [hl0] at hn ⊢
        have hn0 : n < p0.length := by rw [hp0]; exact hn
        rw [map_mul_getD xru γ n (by rw [hlu]; exact hn), ← mul_assoc,
          row_prod L p0 pu nrm nu (by rw [hp0, hpu]) (by rw [hp0]; exact hNpos)
            (by rw [hp0]; exact hnu) n hn0, hp0]
        have hph : pu.getD n 0 - p0.getD n 0
            = (n : ℚ) * (((((cu : ℤ) - c0) * t : ℤ) : ℚ) / (ph.length : ℚ)) := by
          rw [← h0, ← hu]
          exact shift_phase L ph c0 cu D t n hD ht hN hn
        rw [hph]
        ring)
      (by
        intro k l hk _ hl hd
        exfalso
        rw [hl0, hN] at hd
        exact window_lte L D t k l ((cu : ℤ) - c0) (by omega) (by omega) (by omega) (by omega)
          (by omega) hd)
    rw [hl0, Nat.one_mul] at key
    exact key
  · -- rejected by the orthogonal cover code: the averaged observation vanishes
    have hγ0 : γ = 0 := by rw [hγ, horth, zero_div]
    have hobs : observe (fftPad h ph.length) 1 (xru.map (fun v => v * γ)) = zerosL xr0.length := by
      unfold observe zerosL
      rw [List.length_map, hlu, hl0]
      apply map_range_congr
      intro i hi
      rw [map_mul_getD xru γ i (by rw [hlu]; exact hi), hγ0, mul_zero, mul_zero]
    rw [hobs]
    have := estimate1_zero xr0 nrm 1 K (by omega) (by rw [hl0]; exact hNpos)
    rw [hl0, Nat.one_mul] at this
    rw [hl0]
    exact this

end

section
variable (L : CisLaws F) [CharZero F]
include L

/-- **Multi-user exactness of the cover-code estimator**, generic scalar field. -/
theorem occ_estimate_exact_multiuser_core (ph p0 : List ℚ) (c0 D t : ℕ) (k0 : F) (ks : List F) (nrm : Bool)
    (nu : F) (h0 : List F) (K : ℕ) (others : List (ℕ × List ℚ × List F × List F))
    (hD : 0 < D) (ht : 0 < t) (hN : ph.length = D * t) (hs0 : shiftedPhases ph c0 D = .ok p0)
    (hcov : ∀ c ∈ k0 :: ks, c * c = 1)
    (hnu : nrm = true → conj nu = nu ∧ nu * nu = (ph.length : F))
    (hfit : h0.length ≤ K + 1) (hK : K + 1 ≤ t)
    (hothers : ∀ o ∈ others, shiftedPhases ph o.1 D = .ok o.2.1 ∧ o.2.2.1.length = (k0 :: ks).length ∧
      ((c0 ≠ o.1 ∧ o.2.2.2.length ≤ t) ∨
        (∑ c ∈ range (k0 :: ks).length, o.2.2.1.getD c 0 * (k0 :: ks).getD c 0 = 0
          ∧ o.2.2.2.length ≤ ph.length))) :
    estimateOcc1 ⟨nrm, rowsOf (seqValues p0 : List F) (k0 :: ks) nrm nu, some (k0 :: ks)⟩
        ((others.map (fun o => (rowsOf (seqValues o.2.1 : List F) o.2.2.1 nrm nu).map
            (fun row => observe (fftPad o.2.2.2 ph.length) 1 row))).foldl addRows
          ((rowsOf (seqValues p0 : List F) (k0 :: ks) nrm nu).map
            (fun row => observe (fftPad h0 ph.length) 1 row))) K
      = .ok (fftPad h0 ph.length) := by
  have hNpos : 0 < ph.length := by rw [hN]; exact Nat.mul_pos hD ht
  have hc0 : c0 < D := by
    unfold shiftedPhases at hs0
    by_contra hc; rw [if_neg hc] at hs0; cases hs0
  have hp0 : p0.length = ph.length := by
    rw [shiftedPhases_ok ph c0 D hc0] at hs0
    injection hs0 with hs0
    rw [← hs0]; simp
  have hk0 : k0 * k0 = 1 := hcov k0 (by simp)
  have hr : (rowOf (seqValues p0 : List F) nrm nu).length = ph.length := by
    rw [rowOf_length, seqValues_length, hp0]
  have hh0 : h0.length ≤ p0.length := by
    rw [hp0, hN]
    exact Nat.le_trans (Nat.le_trans hfit hK) (Nat.le_mul_of_pos_left _ hD)
  have hown := occ_estimate_exact L p0 k0 ks nrm nu h0 K (by rw [hp0]; exact hNpos) hcov
    (by rw [hp0]; exact hnu) hfit hh0
  rw [hp0] at hown
  have hb0 : IsBlock ((rowsOf (seqValues p0 : List F) (k0 :: ks) nrm nu).map
      (fun row => observe (fftPad h0 ph.length) 1 row)) (k0 :: ks).length
      (rowOf (seqValues p0 : List F) nrm nu).length := by
    rw [hr]
    have := rowsOf_obs_isBlock (seqValues p0 : List F) (k0 :: ks) (fftPad h0 ph.length) nrm nu
    rw [seqValues_length, hp0] at this
    exact this
  have key := estimateOcc1_superposition
    (⟨nrm, rowsOf (seqValues p0 : List F) (k0 :: ks) nrm nu, some (k0 :: ks)⟩ : UeSeq F)
    (rowOf (seqValues p0 : List F) nrm nu) (k0 :: ks) _ (fftPad h0 ph.length) K
    (others.map (fun o => (rowsOf (seqValues o.2.1 : List F) o.2.2.1 nrm nu).map
            (fun row => observe (fftPad o.2.2.2 ph.length) 1 row)))
    (occReference_rowsOf _ k0 ks nrm nu hk0) (by simp) (by rw [hr]; exact hNpos) hb0
    (by rw [fftPad_length, hr]) hown
    (by
      intro Y hY
      obtain ⟨o, ho, rfl⟩ := List.mem_map.mp hY
      obtain ⟨hso, hlo, hrej⟩ := hothers o ho
      have hco : o.1 < D := by
        unfold shiftedPhases at hso
        by_contra hc; rw [if_neg hc] at hso; cases hso
      have hpo : o.2.1.length = ph.length := by
        rw [shiftedPhases_ok ph o.1 D hco] at hso
        injection hso with hso
        rw [← hso]; simp
      have hb : IsBlock ((rowsOf (seqValues o.2.1 : List F) o.2.2.1 nrm nu).map
          (fun row => observe (fftPad o.2.2.2 ph.length) 1 row)) (k0 :: ks).length
          (rowOf (seqValues p0 : List F) nrm nu).length := by
        rw [hr]
        have := rowsOf_obs_isBlock (seqValues o.2.1 : List F) o.2.2.1 (fftPad o.2.2.2 ph.length) nrm nu
        rw [seqValues_length, hpo, hlo] at this
        exact this
      refine ⟨hb, ?_⟩
      rw [hr]
      exact occ_estimate_reject L ph p0 o.2.1 c0 o.1 D t k0 ks o.2.2.1 nrm nu o.2.2.2 K
        hD ht hN hs0 hso hk0 hlo hnu hK hrej)
  exact key

end

end PyPhysim.C18P
