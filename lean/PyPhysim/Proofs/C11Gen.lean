import PyPhysim.Generated.C11Formulas
/-!
# C11 — the regenerated formula trees equal the hand model (core Lean, any scalar types)

`Generated/C11Formulas.lean` holds the expression trees of the covariance / SINR methods as the CURRENT source
states them (re-emitted on every check run by `harness/gen/c11.py`), over the primitive matrix operations only.
Every lemma here is `rfl`: the tree and the model definition are the same term after unfolding the model's
composite definitions — for ALL arguments, all sizes, and every pair of scalar types (in particular at
`ℂ`/`ℝ`, where the property theorems live, and at binary64, where the driver runs).  No algebraic law is
used, so a source that states a different tree (`first - 2*second`, `F`·`P` for `full_F`, a dropped `σ² I`,
a lone transpose, `U` for `Uᴴ`, another association of the products, another order of the summands) makes the
corresponding lemma fail to typecheck.
-/
set_option linter.unusedSectionVars false
namespace PyPhysim.Sinr.GenPf
open PyPhysim.Proto PyPhysim.Sinr
namespace Gen
export PyPhysim.Generated.C11 (chFirstNone chFirstScalar chFirstMat chSecond chBklScalar chBklMat chSinrDen chSinrVal
  jpFirst jpSecond jpSinrDen jpSinrVal solFirst solSecond solBklPlain solBklExt solSinrDen solSinrVal)
end Gen

variable {α ρ : Type} [Zero α] [One α] [Add α] [Sub α] [Mul α] [Div α] [Conj α] [BEq α] [RC ρ α] [Zero ρ] [One ρ]
variable {K n : Nat} {T S : Fin K → Nat}

/-! ### channel object, interference channel (`get_Hkl(k, j)`) -/

theorem chFirst_mat (G : (j : Fin K) → Mat α n (T j)) (V : (j : Fin K) → Mat α (T j) (S j)) (k : Fin K)
    (Rek : Mat α n n) : Gen.chFirstMat G V k Rek = chFirst G V Rek := rfl

theorem chFirst_scalar (G : (j : Fin K) → Mat α n (T j)) (V : (j : Fin K) → Mat α (T j) (S j)) (k : Fin K)
    (c : ρ) : Gen.chFirstScalar G V k c = chFirst G V (baseRek n (some c)) := rfl

theorem chFirst_none (G : (j : Fin K) → Mat α n (T j)) (V : (j : Fin K) → Mat α (T j) (S j)) (k : Fin K) :
    Gen.chFirstNone (ρ := ρ) G V k = chFirst G V (baseRek n (none : Option ρ)) := rfl

theorem chSecond_eq (G : (j : Fin K) → Mat α n (T j)) (k : Fin K) {s : Nat} (Fk : Mat α (T k) s) (l : Fin s) :
    Gen.chSecond G k Fk l = chSecond (G k) Fk l := rfl

theorem chBkl_mat (G : (j : Fin K) → Mat α n (T j)) (V : (j : Fin K) → Mat α (T j) (S j)) (k : Fin K)
    (Rek : Mat α n n) (l : Fin (S k)) : Gen.chBklMat G V k Rek l = chBkl G V Rek k l := rfl

theorem chBkl_scalar (G : (j : Fin K) → Mat α n (T j)) (V : (j : Fin K) → Mat α (T j) (S j)) (k : Fin K)
    (c : ρ) (l : Fin (S k)) : Gen.chBklScalar G V k c l = chBkl G V (baseRek n (some c)) k l := rfl

/-- `_calc_SINR_k` of the channel object: the model's entry is "no value when the regenerated denominator is
    exactly zero, else the regenerated quotient under `np.abs`" -/
theorem chSinr_eq (G : (j : Fin K) → Mat α n (T j)) (V : (j : Fin K) → Mat α (T j) (S j)) (k : Fin K)
    (Uk : Mat α n (S k)) (Rek : Mat α n n) (l : Fin (S k)) :
    chSinr (ρ := ρ) G V k Uk Rek l =
      if Gen.chSinrDen G k (V k) Uk (chBkl G V Rek k l) l == 0 then .error .ZeroDivisionError
      else .ok (Gen.chSinrVal G k (V k) Uk (chBkl G V Rek k l) l) := rfl

/-! ### channel object, joint processing (`get_Hk(k)` for every user) -/

theorem jpFirst_eq {t : Nat} (Hk : Mat α n t) {s : Fin K → Nat} (V : (j : Fin K) → Mat α t (s j))
    (Rek : Mat α n n) : Gen.jpFirst Hk V Rek = chFirst (T := fun _ => t) (fun _ => Hk) V Rek := rfl

theorem jpSecond_eq {t s : Nat} (Hk : Mat α n t) (Fk : Mat α t s) (l : Fin s) :
    Gen.jpSecond Hk Fk l = chSecond Hk Fk l := rfl

theorem jpSinr_eq {t : Nat} (Hk : Mat α n t) {s : Fin K → Nat} (V : (j : Fin K) → Mat α t (s j)) (k : Fin K)
    (Uk : Mat α n (s k)) (Rek : Mat α n n) (l : Fin (s k)) :
    chSinr (ρ := ρ) (T := fun _ => t) (fun _ => Hk) V k Uk Rek l =
      if Gen.jpSinrDen Hk (V k) Uk (chBkl (T := fun _ => t) (fun _ => Hk) V Rek k l) l == 0
      then .error .ZeroDivisionError
      else .ok (Gen.jpSinrVal Hk (V k) Uk (chBkl (T := fun _ => t) (fun _ => Hk) V Rek k l) l) := rfl

/-! ### IA solver: `V` is `full_F` (what the solver reports), `F`/`P` the unit-norm precoders and the powers.
The model's solver-side definitions read `V` only; so do the regenerated trees, or these fail. -/

theorem solFirst_eq (G : (j : Fin K) → Mat α n (T j)) (V F : (j : Fin K) → Mat α (T j) (S j)) (P : Fin K → ρ)
    (k : Fin K) : Gen.solFirst G V F P k = solFirst G V := rfl

theorem solSecond_eq (G : (j : Fin K) → Mat α n (T j)) (V F : (j : Fin K) → Mat α (T j) (S j)) (P : Fin K → ρ)
    (k : Fin K) (l : Fin (S k)) : Gen.solSecond G V F P k l = solSecond (G k) (V k) l := rfl

theorem solBkl_plain (G : (j : Fin K) → Mat α n (T j)) (V F : (j : Fin K) → Mat α (T j) (S j)) (P : Fin K → ρ)
    (k : Fin K) (noise : ρ) (l : Fin (S k)) :
    Gen.solBklPlain G V F P k noise l = solBkl G V (solRek (e := 0) n noise none) k l := rfl

theorem solBkl_ext {e : Nat} (G : (j : Fin K) → Mat α n (T j)) (V F : (j : Fin K) → Mat α (T j) (S j))
    (P : Fin K → ρ) (k : Fin K) (noise : ρ) (He : Mat α n e) (l : Fin (S k)) :
    Gen.solBklExt G V F P k noise (extCov He (1 : ρ)) l = solBkl G V (solRek n noise (some He)) k l := rfl

theorem solSinr_eq (G : (j : Fin K) → Mat α n (T j)) (V F : (j : Fin K) → Mat α (T j) (S j)) (P : Fin K → ρ)
    (k : Fin K) (WHk : Mat α (S k) n) (Rn : Mat α n n) (l : Fin (S k)) :
    solSinr (ρ := ρ) G V k WHk Rn l =
      if Gen.solSinrDen G V F P k WHk (solBkl G V Rn k l) l == 0 then .error .ZeroDivisionError
      else .ok (Gen.solSinrVal G V F P k WHk (solBkl G V Rn k l) l) := rfl

end PyPhysim.Sinr.GenPf
