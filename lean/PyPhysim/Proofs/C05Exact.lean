import PyPhysim.Proofs.C05Grid
import PyPhysim.Proofs.C05Params

/-!
C05 — R15 / R16 lemmas.

* **Exact look-ups (R15).**  The model compares parameter values with `==` only: it
  sees the *equality pattern* of the values, never a distance.  Formally every look-up
  commutes with any INJECTIVE relabelling `f` of the values (`relabel f`): however close
  the images of two distinct values are, they stay distinct and each one is looked up
  exactly.  Instantiated in the harness with `f` = base integer ↦ member of a cluster of
  close floats (`close_value`).
* **Refills (R16).**  In the model a parameters object holds contents, not containers:
  refilling in place the container bound to two parameters is the replacement of both
  value lists, in either order.
-/
namespace PyPhysim.C05

/-- the same grid with every value `v` renamed `f v` -/
def relabel {V W : Type} (f : V → W) (ps : List (Param V)) : List (Param W) :=
  ps.map (fun p => (p.1, p.2.map f))

/-- the same dictionary of fixed values, renamed -/
def relabelFixed {V W : Type} (f : V → W) (fixed : List (String × V)) : List (String × W) :=
  fixed.map (fun q => (q.1, f q.2))

section exact
variable {V W : Type} [BEq V] [LawfulBEq V] [BEq W] [LawfulBEq W]

theorem beq_map_injective (f : V → W) (hf : ∀ a b, f a = f b → a = b) (x v : V) :
    (f x == f v) = (x == v) := by
  by_cases h : x = v
  · subst h; simp
  · have h' : f x ≠ f v := fun e => h (hf _ _ e)
    have h1 : (x == v) = false := by simpa using h
    have h2 : (f x == f v) = false := by simpa using h'
    rw [h1, h2]

theorem indexOf_relabel (f : V → W) (hf : ∀ a b, f a = f b → a = b) (v : V) :
    ∀ l : List V, indexOf (f v) (l.map f) = indexOf v l
  | [] => rfl
  | x :: xs => by
    simp only [List.map_cons, indexOf, beq_map_injective f hf, indexOf_relabel f hf v xs]

omit [BEq V] [LawfulBEq V] [BEq W] [LawfulBEq W] in
theorem lookup_relabelFixed (f : V → W) (name : String) :
    ∀ fixed : List (String × V), (relabelFixed f fixed).lookup name = (fixed.lookup name).map f
  | [] => rfl
  | (k, v) :: rest => by
    simp only [relabelFixed, List.map_cons, List.lookup]
    cases name == k with
    | true => rfl
    | false => exact lookup_relabelFixed f name rest

theorem selectors_relabel (f : V → W) (hf : ∀ a b, f a = f b → a = b) (fixed : List (String × V)) :
    ∀ sp : List (Param V), selectors (relabelFixed f fixed) (relabel f sp) = selectors fixed sp
  | [] => rfl
  | (name, vals) :: rest => by
    have ih := selectors_relabel f hf fixed rest
    simp only [relabel, List.map_cons] at ih ⊢
    simp only [selectors, lookup_relabelFixed]
    cases fixed.lookup name with
    | none => simp only [Option.map_none, ih]
    | some v => simp only [Option.map_some, indexOf_relabel f hf, ih]

omit [BEq V] [LawfulBEq V] [BEq W] [LawfulBEq W] in
theorem sortParams_relabel (f : V → W) (ps : List (Param V)) :
    sortParams (relabel f ps) = relabel f (sortParams ps) := by
  unfold sortParams relabel
  exact (List.map_mergeSort (r := fun a b => decide (a.1 ≤ b.1)) (s := fun a b => decide (a.1 ≤ b.1))
    (f := fun p : Param V => (p.1, p.2.map f)) (fun _ _ _ _ => rfl)).symm

omit [BEq V] [LawfulBEq V] [BEq W] [LawfulBEq W] in
theorem dims_relabel (f : V → W) (sp : List (Param V)) :
    (relabel f sp).map (·.2.length) = sp.map (·.2.length) := by
  simp [relabel, Function.comp_def]

omit [BEq V] [LawfulBEq V] [BEq W] [LawfulBEq W] in
theorem product_map (f : V → W) : ∀ vals : List (List V),
    product (vals.map (List.map f)) = (product vals).map (List.map f)
  | [] => rfl
  | vs :: rest => by
    simp only [List.map_cons, product, product_map f rest, List.flatMap_map, List.map_flatMap,
      List.map_map]
    rfl

/-- `get_pack_indexes` commutes with an injective relabelling of the values -/
theorem packIndexes_relabel (f : V → W) (hf : ∀ a b, f a = f b → a = b) (ps : List (Param V))
    (fixed : List (String × V)) :
    packIndexes (relabel f ps) (relabelFixed f fixed) = packIndexes ps fixed := by
  unfold packIndexes
  simp only [sortParams_relabel, selectors_relabel f hf, dims_relabel]
  simp [relabel]

/-- `get_result_values_list` commutes with an injective relabelling of the values -/
theorem resultValues_relabel {X : Type} (f : V → W) (hf : ∀ a b, f a = f b → a = b)
    (ps : List (Param V)) (results : List X) (fixed : List (String × V)) :
    resultValues (relabel f ps) results (relabelFixed f fixed) = resultValues ps results fixed := by
  unfold resultValues
  simp only [packIndexes_relabel f hf]
  simp [relabelFixed]

omit [BEq V] [LawfulBEq V] [BEq W] [LawfulBEq W] in
/-- the variations carry the renamed values, in the same order -/
theorem combos_relabel (f : V → W) (ps : List (Param V)) :
    combos (relabel f ps) = (combos ps).map (List.map f) := by
  unfold combos
  rw [sortParams_relabel, ← product_map]
  simp [relabel, Function.comp_def]

/-- two values found at the same first position of a list are the same value -/
theorem indexOf_separates (v w : V) (l : List V) (k : Nat) (hv : indexOf v l = some k)
    (hw : indexOf w l = some k) : v = w := by
  have h1 := (indexOf_some v l k hv).1
  have h2 := (indexOf_some w l k hw).1
  rw [h1] at h2
  exact Option.some.inj h2

theorem indexOf_of_mem (v : V) (l : List V) (h : v ∈ l) : ∃ k, indexOf v l = some k := by
  cases hi : indexOf v l with
  | some k => exact ⟨k, rfl⟩
  | none => exact absurd h (indexOf_none v l hi)

omit [LawfulBEq V] in
/-- one unpacked parameter, one fixed value: the look-up is the first position of the value -/
theorem packIndexes_single (name : String) (vals : List V) (v : V) (k : Nat)
    (h : indexOf v vals = some k) : packIndexes [(name, vals)] [(name, v)] = .ok [k] := by
  have hs : sortParams [(name, vals)] = [(name, vals)] := by simp [sortParams]
  simp [packIndexes, hs, selectors, List.lookup, h, Except.map, slice, prod]

end exact

/-! ### refills -/

/-- replacing the value of two different parameters commutes (as contents) -/
theorem sameContent_add_comm (s : PState) (a b : String) (v w : PVal) (hab : a ≠ b) :
    SameContent (s.run [.add a v, .add b w]) (s.run [.add b w, .add a v]) := by
  refine ⟨fun n => ?_, fun n => Iff.rfl⟩
  simp only [PState.run, PState.step, lookup_dictSet]
  by_cases h1 : n = a <;> by_cases h2 : n = b <;> simp_all

theorem run_append (s : PState) : ∀ (l1 l2 : List POp), s.run (l1 ++ l2) = (s.run l1).run l2
  | [], _ => rfl
  | op :: l1, l2 => by simp only [List.cons_append, PState.run]; exact run_append _ l1 l2

end PyPhysim.C05
