import Mathlib.LinearAlgebra.Matrix.NonsingularInverse
import Mathlib.LinearAlgebra.Matrix.DotProduct
import PyPhysim.Proofs.C09Power

/-!
Receive filters: the Moore–Penrose filter against the power mask, full rank of
the effective channel, whitening filter, stream-reduction filter and removal of
the external interference.
-/
set_option linter.unusedSectionVars false
namespace PyPhysim.BD
namespace Pf
open Matrix

/-! ### Moore–Penrose inverse of `B · diag(d)` -/
section pinv
variable {m n : Type} [Fintype m] [Fintype n] [DecidableEq m] [DecidableEq n]

/-- If `A = B·diag(d)` with `B` of full column rank and `d` real, then every `W` that
    satisfies the two Penrose conditions `A W A = A`, `(W A)ᴴ = W A` gives
    `W A = diag(1 on the non-zero d, 0 elsewhere)`. -/
theorem pinv_mul_eq_mask (A B : Matrix m n ℂ) (W G : Matrix n m ℂ) (d : n → ℂ)
    (hA : A = B * diagonal d) (hd : ∀ j, star (d j) = d j) (hG : G * B = 1)
    (h1 : A * W * A = A) (h3 : (W * A)ᴴ = W * A) :
    W * A = diagonal (fun j => if d j = 0 then 0 else 1) := by
  set P := W * A with hP
  have hAP : A * P = A := by rw [hP, ← Matrix.mul_assoc]; exact h1
  have hDP : diagonal d * P = diagonal d := by
    have : G * (B * diagonal d * P) = G * (B * diagonal d) := by rw [← hA, hAP]
    simpa [← Matrix.mul_assoc, hG] using this
  have hDstar : (diagonal d)ᴴ = diagonal d := by
    rw [diagonal_conjTranspose]; congr 1; funext j; exact hd j
  have hPD : P = diagonal d * (W * B)ᴴ := by
    calc P = Pᴴ := h3.symm
      _ = (W * B * diagonal d)ᴴ := by rw [hP, hA, Matrix.mul_assoc]
      _ = diagonal d * (W * B)ᴴ := by rw [conjTranspose_mul, hDstar]
  ext i j
  have e1 : d i * P i j = if i = j then d i else 0 := by
    have := congrFun (congrFun hDP i) j
    rwa [diagonal_mul, diagonal_apply] at this
  have e2 : P i j = d i * (W * B)ᴴ i j := by
    have := congrFun (congrFun hPD i) j
    rwa [diagonal_mul] at this
  rw [diagonal_apply]
  by_cases hz : d i = 0
  · rw [e2, hz, zero_mul]; simp
  · have : P i j = (if i = j then d i else 0) / d i := by
      rw [← e1]; field_simp
    rw [this]
    by_cases hij : i = j
    · subst hij; simp [hz]
    · simp [hij]

end pinv

/-! ### the effective channel before power loading has full rank -/
section fullrank
variable {K N T : Nat}

/-- `H · hstack(M)` has a trivial kernel when `H` is injective, every `M_k` has orthonormal
    columns and is invisible to the other users -/
theorem effective_kernel (H : Mat ℂ (K * N) T) (Hinv : Mat ℂ T (K * N)) (M : Fin K → Mat ℂ T N)
    (hH : matMul Hinv H = eye) (hM : ∀ k, matMul (cT (M k)) (M k) = eye)
    (hnull : ∀ j k, j ≠ k → matMul (rowBlock H j) (M k) = fun _ _ => 0)
    (x : Fin (K * N) → ℂ) (hx : (toM (matMul H (stackCols M))) *ᵥ x = 0) : x = 0 := by
  -- per user: (H_u M_u) x_u = 0
  have hrow : ∀ (u : Fin K) (r : Fin N),
      ∑ c : Fin N, matMul (rowBlock H u) (M u) r c * x (join u c) = 0 := by
    intro u r
    have h := congrFun hx (join u r)
    simp only [mulVec, dotProduct, of_apply, Pi.zero_apply] at h
    rw [sum_blocks] at h
    simp only [matMul_stackCols, userOf_join, within_join] at h
    rw [Finset.sum_eq_single u] at h
    · exact h
    · intro b _ hb
      rw [hnull u b (Ne.symm hb)]
      simp
    · intro hu; exact absurd (Finset.mem_univ u) hu
  -- z_u = M_u x_u is annihilated by H, hence zero
  have hz : ∀ u : Fin K, (toM (M u)) *ᵥ (fun c => x (join u c)) = 0 := by
    intro u
    have hHz : (toM H) *ᵥ ((toM (M u)) *ᵥ (fun c => x (join u c))) = 0 := by
      funext r
      rw [mulVec_mulVec]
      have : (toM H * toM (M u)) r = fun c => matMul (rowBlock H (userOf r)) (M u) (within r) c := by
        funext c
        rw [← toM_matMul]
        simp [matMul_apply, rowBlock]
      simp only [mulVec, dotProduct, this, Pi.zero_apply]
      by_cases hu : userOf r = u
      · have := hrow u (within r)
        rw [hu]; exact this
      · rw [hnull _ _ hu]; simp
    have hinv : toM Hinv * toM H = 1 := by
      have := congrArg toM hH
      simpa only [toM_matMul, toM_eye] using this
    have := congrArg (fun v => (toM Hinv) *ᵥ v) hHz
    simp only [mulVec_mulVec, mulVec_zero] at this
    rwa [← Matrix.mul_assoc, hinv, Matrix.one_mul] at this
  -- x_u = M_uᴴ z_u = 0
  funext y
  have hMM : (toM (M (userOf y)))ᴴ * toM (M (userOf y)) = 1 := by
    have := congrArg toM (hM (userOf y))
    simpa only [toM_matMul, toM_cT, toM_eye] using this
  have := congrArg (fun v => ((toM (M (userOf y)))ᴴ) *ᵥ v) (hz (userOf y))
  simp only [mulVec_mulVec, hMM, one_mulVec, mulVec_zero] at this
  have := congrFun this (within y)
  simpa using this

theorem effective_injective (H : Mat ℂ (K * N) T) (Hinv : Mat ℂ T (K * N)) (M : Fin K → Mat ℂ T N)
    (hH : matMul Hinv H = eye) (hM : ∀ k, matMul (cT (M k)) (M k) = eye)
    (hnull : ∀ j k, j ≠ k → matMul (rowBlock H j) (M k) = fun _ _ => 0) :
    Function.Injective (toM (matMul H (stackCols M))).mulVec := by
  have hlin : Function.Injective (toM (matMul H (stackCols M))).mulVecLin :=
    (injective_iff_map_eq_zero _).mpr (fun x hx => effective_kernel H Hinv M hH hM hnull x hx)
  rwa [Matrix.coe_mulVecLin] at hlin

/-- … hence it has a left inverse -/
theorem effective_left_inverse (H : Mat ℂ (K * N) (K * N)) (Hinv : Mat ℂ (K * N) (K * N))
    (M : Fin K → Mat ℂ (K * N) N)
    (hH : matMul Hinv H = eye) (hM : ∀ k, matMul (cT (M k)) (M k) = eye)
    (hnull : ∀ j k, j ≠ k → matMul (rowBlock H j) (M k) = fun _ _ => 0) :
    ∃ G : Mat ℂ (K * N) (K * N), matMul G (matMul H (stackCols M)) = eye := by
  have hinj := effective_injective H Hinv M hH hM hnull
  have hu : IsUnit (toM (matMul H (stackCols M))) := mulVec_injective_iff_isUnit.mp hinj
  obtain ⟨u, hu⟩ := hu
  refine ⟨fun i j => (↑u⁻¹ : Matrix _ _ ℂ) i j, ?_⟩
  apply toM_inj
  rw [toM_matMul, toM_eye, ← hu]
  exact u.inv_mul

end fullrank

/-! ### `block_diagonalize`: the receive filter against the power mask -/
section mask
variable {K N T : Nat}

/-- the normalised water-filling precoder is `Ms_bad · diag(d)` with real `d` -/
theorem normalizedWF_eq_diag (iPu : ℝ) (MsBad : Mat ℂ T (K * N)) (p : Fin (K * N) → ℝ) :
    normalizedWF iPu MsBad p =
      matMul MsBad (diagM (fun j => (((Real.sqrt (p j) * Real.sqrt iPu /
        maxLoop (blockNorms (K := K) (N := N) (globalWF MsBad p)) : ℝ)) : ℂ))) := by
  funext i j
  rw [matMul_diagM]
  show globalWF MsBad p i j * ((Real.sqrt iPu : ℝ) : ℂ) / ((maxLoop _ : ℝ) : ℂ) = _
  rw [globalWF_apply]
  push_cast
  ring

end mask

/-! ### whitening -/
section whitening
variable {K N T n : Nat}

/-- a precoder in the null space of the *whitened* other users is in the null space of the
    actual channel of every other user (the whitening filters are invertible) -/
theorem null_of_whitened_null (F Fi : Fin K → Mat ℂ N N) (hF : ∀ k, matMul (Fi k) (F k) = eye)
    (H : Mat ℂ (K * N) T) (V : Mat ℂ T n) (j : Fin K)
    (h : matMul (rowBlock (whitenedChannel F H) j) V = fun _ _ => 0) :
    matMul (rowBlock H j) V = fun _ _ => 0 := by
  rw [whitenedChannel, rowBlock_blockDiag_mul] at h
  have h2 : matMul (Fi j) (matMul (matMul (F j) (rowBlock H j)) V) = fun _ _ => 0 := by
    rw [h]; funext r c; simp [matMul_apply]
  rwa [matMul_assoc, ← matMul_assoc, hF, eye_matMul] at h2

/-- diagonal block of a product with the stacked precoder -/
theorem diagBlock_newH (H : Mat ℂ (K * N) T) (Ms : Mat ℂ T (K * N)) (k : Fin K) :
    diagBlock (matMul H Ms) k = matMul (rowBlock H k) (colBlock Ms k) := by
  funext r c
  simp [diagBlock, matMul_apply, rowBlock, colBlock]

/-- the whitening receive filter of user `k` inverts that user's effective channel -/
theorem whiteningRx_inverts (F : Fin K → Mat ℂ N N) (H : Mat ℂ (K * N) T) (Ms : Mat ℂ T (K * N))
    (W : Mat ℂ (K * N) (K * N))
    (hW : matMul W (matMul (whitenedChannel F H) Ms) = eye)
    (hbd : IsBlockDiagonal (matMul H Ms)) (k : Fin K) :
    matMul (whiteningRxFilter W F k) (matMul (rowBlock H k) (colBlock Ms k)) = eye := by
  have h1 : matMul (matMul W (blockDiag F)) (matMul H Ms) = eye := by
    rw [← hW, whitenedChannel, matMul_assoc, matMul_assoc]
  have h2 : diagBlock (matMul (matMul W (blockDiag F)) (matMul H Ms)) k = diagBlock eye k := by rw [h1]
  rw [diagBlock_mul_of_blockDiagonal _ _ hbd, diagBlock_eye, diagBlock_newH] at h2
  exact h2

end whitening

/-! ### stream reduction (`EnhancedBD`) -/
section reduction
variable {T N n r : Nat}

theorem reduce_MsPk (iPu : ℝ) (Hk : Mat ℂ N T) (Msk : Mat ℂ T N) (Pk : Mat ℂ N n) (G : Mat ℂ n n) :
    (reduce iPu Hk Msk Pk G).MsPk =
      (fun i j => matMul Msk Pk i j / Cx.ofReal (frobNorm (matMul Msk Pk) / RFun.sqrt iPu) : Mat ℂ T n) := rfl

/-- every user gets exactly its power after a stream reduction -/
theorem reduce_power (iPu : ℝ) (hP : 0 < iPu) (Hk : Mat ℂ N T) (Msk : Mat ℂ T N) (Pk : Mat ℂ N n) (G : Mat ℂ n n)
    (hpos : 0 < frobSq (matMul Msk Pk)) : frobSq (reduce iPu Hk Msk Pk G).MsPk = iPu := by
  rw [reduce_MsPk, frobSq_div]
  show frobSq (matMul Msk Pk) / (frobNorm (matMul Msk Pk) / Real.sqrt iPu * (frobNorm (matMul Msk Pk) / Real.sqrt iPu)) = iPu
  have hs : Real.sqrt iPu * Real.sqrt iPu = iPu := Real.mul_self_sqrt hP.le
  have hs0 : Real.sqrt iPu ≠ 0 := (Real.sqrt_pos.mpr hP).ne'
  have hf := frobNorm_sq (matMul Msk Pk)
  have hf0 : frobNorm (matMul Msk Pk) ≠ 0 := ((frobNorm_pos_iff _).mpr hpos).ne'
  rw [div_mul_div_comm, hf, hs]
  field_simp

/-- the equivalent channel with stream reduction is the user's channel times the
    precoder that is returned -/
theorem reduce_heqRed (iPu : ℝ) (Hk : Mat ℂ N T) (Msk : Mat ℂ T N) (Pk : Mat ℂ N n) (G : Mat ℂ n n) :
    (reduce iPu Hk Msk Pk G).heqRed = matMul Hk (reduce iPu Hk Msk Pk G).MsPk := by
  show matMul (matMul Hk Msk) (fun i j => Pk i j / _) = matMul Hk (fun i j => matMul Msk Pk i j / _)
  rw [matMul_assoc]
  congr 1
  funext i j
  simp only [matMul_apply, Finset.sum_div, mul_div_assoc]

/-- the precoder with stream reduction is `Msk · X` -/
theorem reduce_MsPk_factor (iPu : ℝ) (Hk : Mat ℂ N T) (Msk : Mat ℂ T N) (Pk : Mat ℂ N n) (G : Mat ℂ n n) :
    (reduce iPu Hk Msk Pk G).MsPk =
      matMul Msk (fun i j => Pk i j / Cx.ofReal (frobNorm (matMul Msk Pk) / RFun.sqrt iPu) : Mat ℂ N n) := by
  rw [reduce_MsPk]
  funext i j
  simp only [matMul_apply, Finset.sum_div, mul_div_assoc]

/-- the stream-reduction receive filter inverts the reduced effective channel -/
theorem rxFilterRed_inverts (Wp : Mat ℂ n N) (pbar : Mat ℂ N N) (heqRed : Mat ℂ N n)
    (hW : matMul Wp (matMul pbar heqRed) = eye) : matMul (rxFilterRed Wp pbar) heqRed = eye := by
  rw [rxFilterRed, matMul_assoc, hW]

theorem toM_covExtInt (pe nv : ℝ) (E : Mat ℂ N r) :
    toM (covExtInt pe nv E) = (pe : ℂ) • (toM E * (toM E)ᴴ) + (nv : ℂ) • (1 : Matrix (Fin N) (Fin N) ℂ) := by
  ext i j
  have h := congrFun (congrFun (toM_matMul E (cT E)) i) j
  rw [toM_cT] at h
  simp only [of_apply] at h
  simp only [covExtInt, Cx.ofReal, of_apply, h, eye, Matrix.add_apply, Matrix.smul_apply, Matrix.one_apply,
    smul_eq_mul]
  split <;> simp [mul_comm]

/-- `Re P = σ² P` (the reduction matrix lies in the noise eigenspace) iff `Eᴴ P = 0`
    (it is orthogonal to the external interference) -/
theorem noise_eigenspace_iff (pe nv : ℝ) (hpe : pe ≠ 0) (E : Mat ℂ N r) (P : Mat ℂ N n) :
    matMul (covExtInt pe nv E) P = (fun i j => Cx.ofReal nv * P i j) ↔
      matMul (cT E) P = fun _ _ => 0 := by
  have key : toM (fun i j => Cx.ofReal nv * P i j : Mat ℂ N n) = (nv : ℂ) • toM P := by
    ext i j; simp [Cx.ofReal]
  constructor
  · intro h
    have h' := congrArg toM h
    rw [toM_matMul, toM_covExtInt, key, Matrix.add_mul, Matrix.smul_mul, Matrix.smul_mul, Matrix.one_mul] at h'
    have h0 : (pe : ℂ) • (toM E * (toM E)ᴴ * toM P) = 0 := by
      have := sub_eq_zero.mpr h'
      simpa using this
    have hpe' : (pe : ℂ) ≠ 0 := by exact_mod_cast hpe
    have h1 : toM E * (toM E)ᴴ * toM P = 0 := by
      rcases smul_eq_zero.mp h0 with h | h
      · exact absurd h hpe'
      · exact h
    have h2 : ((toM E)ᴴ * toM P)ᴴ * ((toM E)ᴴ * toM P) = 0 := by
      rw [conjTranspose_mul, conjTranspose_conjTranspose, Matrix.mul_assoc, ← Matrix.mul_assoc (toM E), h1,
        Matrix.mul_zero]
    have h3 : frobSq (matMul (cT E) P) = 0 := by
      rw [frobSq_eq_trace, toM_matMul, toM_cT, h2]; simp
    exact (frobSq_eq_zero_iff _).mp h3
  · intro h
    have h' := congrArg toM h
    rw [toM_matMul, toM_cT] at h'
    apply toM_inj
    rw [toM_matMul, toM_covExtInt, key, Matrix.add_mul, Matrix.smul_mul, Matrix.smul_mul, Matrix.one_mul,
      Matrix.mul_assoc, h']
    have : toM (fun (_ : Fin r) (_ : Fin n) => (0 : ℂ)) = 0 := rfl
    rw [this, Matrix.mul_zero, smul_zero, zero_add]

/-- external interference removed: a receive filter `Wp · P G Pᴴ` built on a reduction
    matrix orthogonal to the interference annihilates the interference channel -/
theorem rxFilterRed_kills_ext (Wp : Mat ℂ n N) (G : Mat ℂ n n) (P : Mat ℂ N n) (E : Mat ℂ N r)
    (h : matMul (cT E) P = fun _ _ => 0) :
    matMul (rxFilterRed Wp (projWith G P)) E = fun _ _ => 0 := by
  have h' := congrArg toM h
  rw [toM_matMul, toM_cT] at h'
  have hz : toM (fun (_ : Fin r) (_ : Fin n) => (0 : ℂ)) = 0 := rfl
  rw [hz] at h'
  have hPE : (toM P)ᴴ * toM E = 0 := by
    have := congrArg conjTranspose h'
    simpa [conjTranspose_mul] using this
  apply toM_inj
  rw [rxFilterRed, toM_matMul, toM_matMul, toM_projWith]
  have : toM (fun (_ : Fin n) (_ : Fin r) => (0 : ℂ)) = 0 := rfl
  rw [this, Matrix.mul_assoc, Matrix.mul_assoc, hPE, Matrix.mul_zero, Matrix.mul_zero]

end reduction

/-! ### `np.argmax` -/
section argmax

theorem argmax_fold_spec (xs : List ℝ) (b : Nat) (v : ℝ) (pos : Nat) (pre : List ℝ)
    (hpos : pre.length = pos) (hb : b < pos) (hv : pre[b]? = some v)
    (hmax : ∀ y ∈ pre, y ≤ v) (hfirst : ∀ i, i < b → ∀ y, pre[i]? = some y → y < v) :
    let res := xs.foldl (fun (acc : Nat × ℝ × Nat) c =>
      if acc.2.1 < c then (acc.2.2, c, acc.2.2 + 1) else (acc.1, acc.2.1, acc.2.2 + 1)) (b, v, pos)
    res.1 < (pre ++ xs).length ∧ (pre ++ xs)[res.1]? = some res.2.1 ∧
      (∀ y ∈ pre ++ xs, y ≤ res.2.1) ∧ ∀ i, i < res.1 → ∀ y, (pre ++ xs)[i]? = some y → y < res.2.1 := by
  induction xs generalizing b v pos pre with
  | nil =>
    simp only [List.foldl_nil, List.append_nil]
    exact ⟨by omega, hv, hmax, hfirst⟩
  | cons x xs ih =>
    simp only [List.foldl_cons]
    have happ : pre ++ x :: xs = (pre ++ [x]) ++ xs := by simp
    rw [happ]
    split
    · rename_i hlt
      apply ih pos x (pos + 1) (pre ++ [x])
      · simp [hpos]
      · omega
      · rw [← hpos]; simp
      · intro y hy
        rcases List.mem_append.mp hy with h | h
        · exact le_trans (hmax y h) (le_of_lt hlt)
        · simp at h; rw [h]
      · intro i hi y hy
        have hi' : i < pre.length := by omega
        rw [List.getElem?_append_left hi'] at hy
        exact lt_of_le_of_lt (hmax y (List.mem_of_getElem? hy)) hlt
    · rename_i hnlt
      apply ih b v (pos + 1) (pre ++ [x])
      · simp [hpos]
      · omega
      · rw [List.getElem?_append_left (by omega)]; exact hv
      · intro y hy
        rcases List.mem_append.mp hy with h | h
        · exact hmax y h
        · simp at h; rw [h]; exact not_lt.mp hnlt
      · intro i hi y hy
        have hi' : i < pre.length := by omega
        rw [List.getElem?_append_left hi'] at hy
        exact hfirst i hi y hy

/-- `np.argmax`: the index returned is valid, holds a maximum, and is the first such index -/
theorem argmaxFirst_spec (x : ℝ) (xs : List ℝ) :
    argmaxFirst (x :: xs) < (x :: xs).length ∧
      ∃ v, (x :: xs)[argmaxFirst (x :: xs)]? = some v ∧ (∀ y ∈ x :: xs, y ≤ v) ∧
        ∀ i, i < argmaxFirst (x :: xs) → ∀ y, (x :: xs)[i]? = some y → y < v := by
  have h := argmax_fold_spec xs 0 x 1 [x] rfl (by omega) rfl (by simp) (by intro i hi; omega)
  simp only [List.singleton_append] at h
  exact ⟨h.1, _, h.2.1, h.2.2.1, h.2.2.2⟩

end argmax

end Pf
end PyPhysim.BD
