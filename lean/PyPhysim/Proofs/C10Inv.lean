import PyPhysim.Proofs.C10Cache
/-!
Every operation of the repaired machine preserves coherence of the derived
attributes (`Coherent`), for every `Ops`, `K`, state and argument.
-/
set_option linter.unusedSimpArgs false
set_option linter.unusedVariables false
namespace PyPhysim.C10
open PyPhysim.Proto

variable {μ ρ : Type}

theorem init_coherent (O : Ops μ ρ) (K : Nat) : Coherent O K (State.init μ ρ) :=
  ⟨by simp [State.init], by simp [State.init], by simp [State.init]⟩

/-- a state whose two filter caches are empty is coherent as soon as `_W`/`_W_H` agree -/
theorem coherent_of_empty (O : Ops μ ρ) (K : Nat) (st : State μ ρ)
    (h1 : st.fullWH = none) (h2 : st.fullW = none)
    (hw : ∀ X Y, st.w = some X → st.wH = some Y → X = O.herm Y ∨ Y = O.herm X) : Coherent O K st :=
  ⟨hw, by simp [h1], by simp [h2]⟩

/-- coherence only looks at the seven attributes other than `_Ns` -/
theorem coherent_congr (O : Ops μ ρ) (K : Nat) (s t : State μ ρ) (h : Coherent O K s)
    (hp : t.p = s.p) (hf : t.f = s.f) (hff : t.fullF = s.fullF) (hw : t.w = s.w) (hwH : t.wH = s.wH)
    (hz : t.fullWH = s.fullWH) (hz' : t.fullW = s.fullW) : Coherent O K t := by
  have e : specFullWH O K t = specFullWH O K s :=
    specFullWH_congr O K t s (getWH_congr O t s hw hwH) (getFullF_congr O K t s hf hff hp)
  refine ⟨?_, ?_, ?_⟩
  · rw [hw, hwH]; exact h.wwH
  · rw [hz, e]; exact h.fullWH
  · rw [hz', hz]; exact h.fullW

theorem storeP_coherent (O : Ops μ ρ) (K : Nat) (st : State μ ρ) (p : Option (List ρ))
    (h : Coherent O K st) : Coherent O K (storeP Cfg.fixed st p) :=
  coherent_of_empty O K _ rfl rfl h.wwH

theorem setP_coherent (O : Ops μ ρ) (K : Nat) (st : State μ ρ) (v : PArg ρ) (h : Coherent O K st) :
    Coherent O K (setP Cfg.fixed O K st v).1 := by
  rcases setP_cases O K st v with ⟨p, e⟩ | e <;> rw [e]
  · exact storeP_coherent O K st p h
  · exact h

theorem setP_fields (O : Ops μ ρ) (K : Nat) (st : State μ ρ) (v : PArg ρ) :
    (setP Cfg.fixed O K st v).1.w = st.w ∧ (setP Cfg.fixed O K st v).1.wH = st.wH
    ∧ (setP Cfg.fixed O K st v).1.f = st.f ∧ (setP Cfg.fixed O K st v).1.ns = st.ns := by
  rcases setP_cases O K st v with ⟨p, e⟩ | e <;> rw [e] <;> simp [storeP, Cfg.fixed]

theorem clearTx_coherent (O : Ops μ ρ) (K : Nat) (st : State μ ρ) (h : Coherent O K st) :
    Coherent O K (clearTx Cfg.fixed st) :=
  coherent_of_empty O K _ rfl rfl h.wwH

/-- the two outcomes of `randomizeF` on the repaired code -/
theorem randomizeF_cases (O : Ops μ ρ) (K : Nat) (st : State μ ρ) (drawn : μ) (ns : NsArg) (p : PArg ρ) :
    (∃ q, doRandomizeF Cfg.fixed O K st drawn ns p
        = ({ clearTx Cfg.fixed (storeP Cfg.fixed st q) with
               f := some (O.normalize drawn), ns := some (ns.expand K) }, .unit))
    ∨ doRandomizeF Cfg.fixed O K st drawn ns p = (st, .err .ValueError) := by
  unfold doRandomizeF
  simp only [Cfg.fixed, if_true]
  rcases setP_cases O K st p with ⟨q, e⟩ | e
  · left; refine ⟨q, ?_⟩
    rw [show (⟨true, true, true, true⟩ : Cfg) = Cfg.fixed from rfl, e]
  · right
    rw [show (⟨true, true, true, true⟩ : Cfg) = Cfg.fixed from rfl, e]

/-- the outcomes of `solve` on the repaired code -/
theorem solve_cases (O : Ops μ ρ) (K : Nat) (st : State μ ρ) (cf : Bool) (ns : NsArg) (p : PArg ρ)
    (sol : Solution μ) :
    doSolve Cfg.fixed O K st cf ns p sol = (st, .err .AssertionError)
    ∨ doSolve Cfg.fixed O K st cf ns p sol = (st, .err .ValueError)
    ∨ ∃ q, doSolve Cfg.fixed O K st cf ns p sol
        = ({ clearRx (clearTx Cfg.fixed (storeP Cfg.fixed st q)) with
               f := some sol.f, fullF := sol.fullF,
               w := if sol.filtIsH then none else some sol.filt,
               wH := if sol.filtIsH then some sol.filt else none,
               ns := some sol.ns }, .unit) := by
  unfold doSolve
  split
  · left; rfl
  · right
    simp only [Cfg.fixed, if_true]
    rcases setP_cases O K st p with ⟨q, e⟩ | e
    · right; refine ⟨q, ?_⟩
      rw [show (⟨true, true, true, true⟩ : Cfg) = Cfg.fixed from rfl, e]
    · left
      rw [show (⟨true, true, true, true⟩ : Cfg) = Cfg.fixed from rfl, e]

/-- the outcomes of `set_receive_filters` on the repaired code -/
theorem setFilters_cases (st : State μ ρ) (wH w : Option μ) :
    doSetFilters Cfg.fixed st wH w = (st, .err .RuntimeError)
    ∨ doSetFilters Cfg.fixed st wH w = ({ clearRx st with w := w, wH := wH }, .unit) := by
  unfold doSetFilters
  cases wH <;> cases w <;> simp [Cfg.fixed]

theorem randomizeF_coherent (O : Ops μ ρ) (K : Nat) (st : State μ ρ) (drawn : μ) (ns : NsArg)
    (p : PArg ρ) (h : Coherent O K st) : Coherent O K (doRandomizeF Cfg.fixed O K st drawn ns p).1 := by
  unfold doRandomizeF
  simp only [Cfg.fixed, if_true]
  rcases setP_cases O K st p with ⟨q, e⟩ | e <;> rw [show (⟨true, true, true, true⟩ : Cfg) = Cfg.fixed from rfl, e]
  · exact coherent_of_empty O K _ rfl rfl h.wwH
  · exact h

theorem setPrecoders_coherent (O : Ops μ ρ) (K : Nat) (st : State μ ρ) (f fullF : Option μ)
    (p : Option (List ρ)) (h : Coherent O K st) :
    Coherent O K (doSetPrecoders Cfg.fixed O st f fullF p).1 := by
  unfold doSetPrecoders
  cases f <;> cases fullF <;> cases p <;>
    first | exact h | exact coherent_of_empty O K _ rfl rfl h.wwH

theorem setFilters_coherent (O : Ops μ ρ) (K : Nat) (st : State μ ρ) (wH w : Option μ)
    (h : Coherent O K st) : Coherent O K (doSetFilters Cfg.fixed st wH w).1 := by
  unfold doSetFilters
  cases wH <;> cases w <;>
    first | exact h | exact coherent_of_empty O K _ rfl rfl (by simp [clearRx])

theorem solve_coherent (O : Ops μ ρ) (K : Nat) (st : State μ ρ) (cf : Bool) (ns : NsArg)
    (p : PArg ρ) (sol : Solution μ) (h : Coherent O K st) :
    Coherent O K (doSolve Cfg.fixed O K st cf ns p sol).1 := by
  unfold doSolve
  split
  · exact h
  · simp only [Cfg.fixed, if_true]
    rcases setP_cases O K st p with ⟨q, e⟩ | e <;> rw [show (⟨true, true, true, true⟩ : Cfg) = Cfg.fixed from rfl, e]
    · refine coherent_of_empty O K _ rfl rfl ?_
      cases sol.filtIsH <;> simp
    · exact h

theorem clear_coherent (O : Ops μ ρ) (K : Nat) (st : State μ ρ) :
    Coherent O K { clearRx (clearTx Cfg.fixed st) with p := none, ns := none } :=
  coherent_of_empty O K _ rfl rfl (by simp [clearRx])

theorem readFullF_coherent (O : Ops μ ρ) (K : Nat) (st : State μ ρ) (h : Coherent O K st) :
    Coherent O K (readFullF O K st).1 := by
  have hf := readFullF_fields O K st
  have e : specFullWH O K (readFullF O K st).1 = specFullWH O K st :=
    specFullWH_congr O K _ _ (getWH_congr O _ _ hf.2.2.1 hf.2.2.2.1) (getFullF_readFullF O K st)
  refine ⟨?_, ?_, ?_⟩
  · rw [hf.2.2.1, hf.2.2.2.1]; exact h.wwH
  · rw [hf.2.2.2.2.1, e]; exact h.fullWH
  · rw [hf.2.2.2.2.2.1, hf.2.2.2.2.1]; exact h.fullW

theorem readWH_coherent (O : Ops μ ρ) (K : Nat) (st : State μ ρ) (h : Coherent O K st) :
    Coherent O K (readWH O st).1 := by
  have hf := readWH_fields O st
  have e : specFullWH O K (readWH O st).1 = specFullWH O K st :=
    specFullWH_congr O K _ _ (getWH_readWH O st) (getFullF_congr O K _ _ hf.1 hf.2.1 hf.2.2.1)
  refine ⟨?_, ?_, ?_⟩
  · have := h.wwH
    unfold readWH
    cases hw : st.w <;> cases hh : st.wH <;> simp_all
  · rw [hf.2.2.2.1, e]; exact h.fullWH
  · rw [hf.2.2.2.2.1, hf.2.2.2.1]; exact h.fullW

theorem readW_coherent (O : Ops μ ρ) (K : Nat) (st : State μ ρ) (h : Coherent O K st) :
    Coherent O K (readW O st).1 := by
  have hf := readW_fields O st
  have e : specFullWH O K (readW O st).1 = specFullWH O K st :=
    specFullWH_congr O K _ _ (getWH_readW O st) (getFullF_congr O K _ _ hf.1 hf.2.1 hf.2.2.1)
  refine ⟨?_, ?_, ?_⟩
  · have := h.wwH
    unfold readW
    cases hw : st.w <;> cases hh : st.wH <;> simp_all
  · rw [hf.2.2.2.1, e]; exact h.fullWH
  · rw [hf.2.2.2.2.1, hf.2.2.2.1]; exact h.fullW

end PyPhysim.C10
