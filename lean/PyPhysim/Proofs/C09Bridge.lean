import Mathlib.Data.Matrix.Mul
import Mathlib.Algebra.BigOperators.Fin
import Mathlib.LinearAlgebra.Matrix.ConjTranspose
import Mathlib.Algebra.Star.Basic
import Mathlib.LinearAlgebra.Matrix.Trace
import Mathlib.Data.Complex.Basic
import Mathlib.Analysis.Real.Sqrt
import Mathlib.Analysis.SpecialFunctions.Log.Base
import PyPhysim.Model.C09

/-!
Bridge between the core-only model `PyPhysim.BD` (`Fin`-indexed functions, own
`sumFin`, scalar classes `Cx` / `RFun`) and Mathlib: the scalar classes at
`ℝ` / `ℂ`, `Matrix.of` of every model operation is the Mathlib operation,
the user-block index maps form an equivalence `Fin K × Fin N ≃ Fin (K * N)`.
-/
set_option linter.unusedSectionVars false
namespace PyPhysim.BD
open Matrix

/-- the model's scalars in the proofs: `ρ = ℝ`, `α = ℂ` -/
noncomputable instance instCxRC : Cx ℝ ℂ := ⟨Complex.ofReal, Complex.normSq, Complex.re, star⟩
noncomputable instance instRFunR : RFun ℝ := ⟨Real.sqrt, Real.logb 2⟩

theorem sumFin_eq {β : Type} [AddCommMonoid β] : ∀ (n : Nat) (f : Fin n → β), sumFin n f = ∑ i, f i
  | 0, f => by simp [sumFin]
  | n+1, f => by rw [sumFin, sumFin_eq n, Fin.sum_univ_castSucc]

/-! ### user-block index maps -/
section index
variable {K N : Nat}

@[simp] theorem userOf_join (k : Fin K) (i : Fin N) : userOf (join k i) = k := by
  apply Fin.ext
  have hN : 0 < N := Nat.lt_of_le_of_lt (Nat.zero_le _) i.isLt
  show (k.val * N + i.val) / N = k.val
  rw [Nat.mul_comm, Nat.mul_add_div hN, Nat.div_eq_of_lt i.isLt, Nat.add_zero]

@[simp] theorem within_join (k : Fin K) (i : Fin N) : within (join k i) = i := by
  apply Fin.ext
  show (k.val * N + i.val) % N = i.val
  rw [Nat.mul_comm, Nat.mul_add_mod, Nat.mod_eq_of_lt i.isLt]

@[simp] theorem join_userOf_within (x : Fin (K * N)) : join (userOf x) (within x) = x := by
  apply Fin.ext
  show x.val / N * N + x.val % N = x.val
  exact Nat.div_add_mod' _ _

theorem join_injective {k k' : Fin K} {i i' : Fin N} (h : join k i = join k' i') : k = k' ∧ i = i' := by
  have h1 := congrArg userOf h
  have h2 := congrArg within h
  simp only [userOf_join, within_join] at h1 h2
  exact ⟨h1, h2⟩

/-- `(user, position) ↔ flat index` -/
def blockEquiv (K N : Nat) : Fin K × Fin N ≃ Fin (K * N) where
  toFun p := join p.1 p.2
  invFun x := (userOf x, within x)
  left_inv p := by simp
  right_inv x := by simp

theorem sum_blocks {β : Type} [AddCommMonoid β] (f : Fin (K * N) → β) :
    ∑ x, f x = ∑ k : Fin K, ∑ i : Fin N, f (join k i) := by
  rw [← Fintype.sum_prod_type']
  exact (Fintype.sum_equiv (blockEquiv K N) _ _ (fun p => rfl)).symm

end index

/-- a model matrix seen as a Mathlib matrix -/
abbrev toM {R : Type} {m n : Nat} (A : Mat R m n) : Matrix (Fin m) (Fin n) R := Matrix.of A

theorem toM_inj {R : Type} {m n : Nat} {A B : Mat R m n} (h : toM A = toM B) : A = B :=
  Matrix.of.injective h

section ring
variable {R : Type} [Ring R] {m k n : Nat}

theorem toM_matMul (A : Mat R m k) (B : Mat R k n) : toM (matMul A B) = toM A * toM B := by
  ext i j
  simp [matMul, sumFin_eq, Matrix.mul_apply]

theorem toM_eye : toM (eye : Mat R n n) = 1 := by
  ext i j
  simp [eye, Matrix.one_apply]

theorem toM_diagM (d : Fin n → R) : toM (diagM d) = Matrix.diagonal d := by
  ext i j; simp [diagM, Matrix.diagonal_apply]

theorem matMul_apply (A : Mat R m k) (B : Mat R k n) (i : Fin m) (j : Fin n) :
    matMul A B i j = ∑ l, A i l * B l j := by
  simp [matMul, sumFin_eq]

theorem matMul_assoc {p : Nat} (A : Mat R m k) (B : Mat R k n) (C : Mat R n p) :
    matMul (matMul A B) C = matMul A (matMul B C) := by
  apply toM_inj; simp only [toM_matMul, Matrix.mul_assoc]

theorem matMul_diagM (A : Mat R m n) (d : Fin n → R) (i : Fin m) (j : Fin n) :
    matMul A (diagM d) i j = A i j * d j := by
  have h := congrFun (congrFun (congrArg (fun M => (M : Matrix (Fin m) (Fin n) R)) (toM_matMul A (diagM d))) i) j
  simp only [toM_diagM, Matrix.mul_diagonal] at h
  exact h

theorem matMul_eye (A : Mat R m n) : matMul A eye = A := by
  apply toM_inj; simp only [toM_matMul, toM_eye, Matrix.mul_one]

theorem eye_matMul (A : Mat R m n) : matMul eye A = A := by
  apply toM_inj; simp only [toM_matMul, toM_eye, Matrix.one_mul]

end ring

section complex
variable {m k n : Nat}

theorem toM_cT (A : Mat ℂ m n) : toM (cT A) = (toM A)ᴴ := by
  ext i j
  simp [cT, Cx.conj, conjTranspose_apply]

theorem toM_gram (A : Mat ℂ m k) : toM (gram A) = (toM A)ᴴ * toM A := by
  simp only [gram, toM_matMul, toM_cT]

theorem toM_projWith (G : Mat ℂ k k) (A : Mat ℂ m k) :
    toM (projWith G A) = toM A * toM G * (toM A)ᴴ := by
  simp only [projWith, toM_matMul, toM_cT]

theorem frobSq_eq (A : Mat ℂ m n) : frobSq A = ∑ i, ∑ j, Complex.normSq (A i j) := by
  simp [frobSq, sumFin_eq, Cx.normSq]

theorem frobSq_nonneg (A : Mat ℂ m n) : 0 ≤ frobSq A := by
  rw [frobSq_eq]
  exact Finset.sum_nonneg (fun i _ => Finset.sum_nonneg (fun j _ => Complex.normSq_nonneg _))

/-- squared Frobenius norm as a sum of squared column norms -/
theorem frobSq_cols (A : Mat ℂ m n) : frobSq A = ∑ j, ∑ i, Complex.normSq (A i j) := by
  rw [frobSq_eq, Finset.sum_comm]

/-- `‖A‖²_F = re tr(Aᴴ A)` -/
theorem frobSq_eq_trace (A : Mat ℂ m n) : frobSq A = (Matrix.trace ((toM A)ᴴ * toM A)).re := by
  rw [frobSq_cols]
  simp only [trace, diag_apply, mul_apply, conjTranspose_apply, Complex.re_sum, of_apply]
  refine Finset.sum_congr rfl (fun j _ => Finset.sum_congr rfl (fun i _ => ?_))
  rw [Complex.star_def, mul_comm, Complex.mul_conj]
  simp

theorem frobSq_eq_zero_iff (A : Mat ℂ m n) : frobSq A = 0 ↔ A = fun _ _ => 0 := by
  rw [frobSq_eq]
  constructor
  · intro h
    funext i j
    have h1 := (Finset.sum_eq_zero_iff_of_nonneg
      (fun i _ => Finset.sum_nonneg (fun j _ => Complex.normSq_nonneg (A i j)))).mp h i (Finset.mem_univ i)
    have h2 := (Finset.sum_eq_zero_iff_of_nonneg
      (fun j _ => Complex.normSq_nonneg (A i j))).mp h1 j (Finset.mem_univ j)
    exact Complex.normSq_eq_zero.mp h2
  · intro h; subst h; simp

end complex

/-- rewrite a model-level hypothesis into Mathlib matrix vocabulary -/
macro "to_matrix" " at " h:ident : tactic =>
  `(tactic| (replace $h := congrArg toM $h
             simp only [toM_matMul, toM_gram, toM_eye, toM_cT, toM_projWith, toM_diagM] at $h:ident))
/-- rewrite a model-level matrix equation (the goal) into Mathlib matrix vocabulary -/
macro "to_matrix" : tactic =>
  `(tactic| (apply toM_inj
             simp only [toM_matMul, toM_gram, toM_eye, toM_cT, toM_projWith, toM_diagM]))

end PyPhysim.BD
