import Mathlib.Tactic.LinearCombination
import PyPhysim.Proofs.C18Cis

/-!
C18 — the CAZAC estimator: list ↔ finite-sum bridge and the closed form of
`estimate1`.
-/
set_option linter.unusedSectionVars false
namespace PyPhysim.C18P
open PyPhysim.Cazac PyPhysim.Proto Finset

variable {F : Type} [Field F] [CisOps F]

local notation "cis" => (CisOps.cis : ℚ → F)
local notation "conj" => (CisOps.conj : F → F)

/-! ### lists and sums -/

theorem getD_cons_succ (a : F) (t : List F) (i : ℕ) : (a :: t).getD (i + 1) 0 = t.getD i 0 := by
  simp [List.getD_eq_getElem?_getD]

theorem zipIdx_sum (x : List F) (w : ℕ → F) (k : ℕ) :
    ((x.zipIdx k).map (fun p => p.1 * w p.2)).sum = ∑ i ∈ range x.length, x.getD i 0 * w (k + i) := by
  induction x generalizing k with
  | nil => simp
  | cons a t ih =>
    rw [List.zipIdx_cons, List.map_cons, List.sum_cons, ih, List.length_cons, Finset.sum_range_succ']
    simp only [getD_cons_succ]
    have h0 : a * w k = a * w (k + 0) := by simp
    rw [add_comm, List.getD_cons_zero, ← h0]
    congr 1
    apply Finset.sum_congr rfl
    intro i _
    congr 2
    omega

theorem dot_eq_sum (x : List F) (w : ℕ → F) :
    dot x w = ∑ i ∈ range x.length, x.getD i 0 * w i := by
  unfold dot
  rw [zipIdx_sum]
  simp

theorem map_range_getD {β : Type} (f : ℕ → β) (N i : ℕ) (hi : i < N) (d : β) :
    ((List.range N).map f).getD i d = f i := by
  simp [List.getD_eq_getElem?_getD, List.getElem?_map, List.getElem?_range hi]

theorem dot_map_range (g : ℕ → F) (n : ℕ) (w : ℕ → F) :
    dot ((List.range n).map g) w = ∑ i ∈ range n, g i * w i := by
  rw [dot_eq_sum]
  simp only [List.length_map, List.length_range]
  apply Finset.sum_congr rfl
  intro i hi
  rw [map_range_getD g n i (Finset.mem_range.mp hi)]

theorem map_range_congr {β : Type} (f g : ℕ → β) (N : ℕ) (h : ∀ i, i < N → f i = g i) :
    (List.range N).map f = (List.range N).map g := by
  apply List.map_congr_left
  intro i hi
  exact h i (List.mem_range.mp hi)

theorem zipWith_getD (g : F → F → F) (a b : List F) (i : ℕ) (ha : i < a.length) (hb : i < b.length)
    : (List.zipWith g a b).getD i 0 = g (a.getD i 0) (b.getD i 0) := by
  simp [List.getD_eq_getElem?_getD, List.getElem?_zipWith, List.getElem?_eq_getElem ha,
    List.getElem?_eq_getElem hb]

/-! ### closed form of the estimator -/

/-- delay-domain estimate `y[k]` (inverse DFT of the de-rotated observation) -/
noncomputable def tapEst (r Y : List F) (k : ℕ) : F :=
  (∑ n ∈ range r.length, CisOps.conj (r.getD n 0) * Y.getD n 0
      * CisOps.cis (((n * k : ℕ) : ℚ) / ((r.length : ℕ) : ℚ))) / ((r.length : ℕ) : F)

/-- frequency-domain estimate before the optional scaling -/
noncomputable def freqEst (r Y : List F) (m K f : ℕ) : F :=
  ∑ k ∈ range (min (K + 1) r.length),
    tapEst r Y k * CisOps.cis (-(((f * k : ℕ) : ℚ) / ((m * r.length : ℕ) : ℚ)))

theorem estimate1_closed (r Y : List F) (nrm : Bool) (m K : ℕ)
    (hY : Y.length = r.length) (hm : 0 < m) (hN : 0 < r.length) :
    estimate1 r nrm m Y K = .ok ((List.range (m * r.length)).map (fun f =>
      if nrm then freqEst r Y m K f * ((r.length : ℕ) : F) else freqEst r Y m K f)) := by
  have hmN : m * r.length ≠ 0 := Nat.ne_of_gt (Nat.mul_pos hm hN)
  unfold estimate1
  simp only [hY, ne_eq, not_true_eq_false, if_false, hmN]
  congr 1
  -- the inverse DFT stage
  have hz : ifftN (List.zipWith (fun a b => CisOps.conj a * b) r Y) r.length
      = (List.range r.length).map (tapEst r Y) := by
    unfold ifftN
    apply map_range_congr
    intro k _
    unfold tapEst
    rw [dot_eq_sum]
    simp only [List.length_zipWith, hY, Nat.min_self]
    congr 1
    apply Finset.sum_congr rfl
    intro n hn
    have hn' := Finset.mem_range.mp hn
    rw [zipWith_getD _ r Y n hn' (by rw [hY]; exact hn')]
  rw [hz]
  have htake : ((List.range r.length).map (tapEst r Y)).take (K + 1)
      = (List.range (min (K + 1) r.length)).map (tapEst r Y) := by
    rw [← List.map_take, List.take_range]
  rw [htake]
  have hpad : fftPad ((List.range (min (K + 1) r.length)).map (tapEst r Y)) (m * r.length)
      = (List.range (m * r.length)).map (freqEst r Y m K) := by
    unfold fftPad
    apply map_range_congr
    intro f _
    have hle : min (K + 1) r.length ≤ m * r.length :=
      Nat.le_trans (Nat.min_le_right _ _) (Nat.le_mul_of_pos_left _ hm)
    rw [List.take_of_length_le (by simp; exact Or.inr (Nat.le_mul_of_pos_left _ hm)), dot_map_range]
    rfl
  rw [hpad]
  cases nrm <;> simp [List.map_map, Function.comp_def]

end PyPhysim.C18P
