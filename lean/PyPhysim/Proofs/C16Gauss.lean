import Mathlib.Probability.Distributions.Gaussian.Real
import PyPhysim.Proofs.C16
import PyPhysim.Proofs.C16Dmin

/-!
# C16 — the Gaussian tail function itself

`Proofs/C16.lean` treats `Q` abstractly (`IsQ`).  Here `Q` is the real thing:
`Qg x = P(N > x)` for a standard normal `N` (Mathlib's `gaussianReal 0 1`), and

* `isQ_gaussian : IsQ Qg` — the abstract hypotheses are satisfied by the actual
  Gaussian tail, so every `IsQ` theorem of `Properties/C16.lean` applies to it;
* `gauss_upper_tail`, `gauss_lower_tail`, `gauss_two_sided` — tail probabilities of
  a centred Gaussian noise of standard deviation `σ` in terms of `Qg`;
* they are the ingredients of the exactness theorems (`Proofs/C16Exact.lean`).
-/
namespace PyPhysim.C16
open MeasureTheory ProbabilityTheory Filter Topology Set
open scoped NNReal ENNReal

/-- the Gaussian tail function `Q(x) = P(N > x)`, `N ~ 𝒩(0,1)` -/
noncomputable def Qg (x : ℝ) : ℝ := (gaussianReal 0 1).real (Ioi x)

/-- variance `σ²` as an `NNReal` -/
noncomputable def var (σ : ℝ) : ℝ≥0 := ⟨σ ^ 2, sq_nonneg σ⟩

theorem var_ne_zero {σ : ℝ} (hσ : σ ≠ 0) : var σ ≠ 0 := by
  intro h
  have h2 : ((var σ : ℝ≥0) : ℝ) = 0 := by rw [h]; rfl
  have h3 : σ ^ 2 = 0 := h2
  exact hσ ((pow_eq_zero_iff (two_ne_zero)).mp h3)

/-- centred Gaussian noise of standard deviation `σ` -/
noncomputable def noise (σ : ℝ) : Measure ℝ := gaussianReal 0 (var σ)

instance (σ : ℝ) : IsProbabilityMeasure (noise σ) := by unfold noise; infer_instance

theorem noise_eq_map (σ : ℝ) : noise σ = (gaussianReal 0 1).map (σ * ·) := by
  rw [gaussianReal_map_const_mul]
  simp only [noise, var, mul_zero, mul_one]
  rfl

theorem noise_one : noise 1 = gaussianReal 0 1 := by
  have : var 1 = 1 := by apply NNReal.eq; show ((1:ℝ) ^ 2) = 1; norm_num
  simp [noise, this]

theorem noise_neg (σ : ℝ) : (noise σ).map (fun x => -x) = noise σ := by
  unfold noise; rw [gaussianReal_map_neg]; simp

/-- `P(σN > t) = Q(t/σ)` -/
theorem gauss_upper_tail {σ : ℝ} (hσ : 0 < σ) (t : ℝ) : (noise σ).real (Ioi t) = Qg (t / σ) := by
  rw [noise_eq_map, map_measureReal_apply (by fun_prop) measurableSet_Ioi]
  unfold Qg
  congr 1
  ext x
  simp only [mem_preimage, mem_Ioi]
  rw [div_lt_iff₀ hσ, mul_comm]

/-- `P(σN < -t) = Q(t/σ)` (symmetry) -/
theorem gauss_lower_tail {σ : ℝ} (hσ : 0 < σ) (t : ℝ) : (noise σ).real (Iio (-t)) = Qg (t / σ) := by
  rw [← gauss_upper_tail hσ t]
  conv_lhs => rw [← noise_neg σ]
  rw [map_measureReal_apply (by fun_prop) measurableSet_Iio]
  congr 1
  ext x
  simp only [mem_preimage, mem_Iio, mem_Ioi]
  constructor <;> intro h <;> linarith

theorem noise_singleton (σ : ℝ) (hσ : σ ≠ 0) (a : ℝ) : (noise σ) {a} = 0 := by
  have := gaussianReal_absolutelyContinuous 0 (var_ne_zero hσ)
  exact this (Real.volume_singleton)

theorem noise_real_singleton (σ : ℝ) (hσ : σ ≠ 0) (a : ℝ) : (noise σ).real {a} = 0 := by
  simp [Measure.real, noise_singleton σ hσ a]

/-- closed and open upper tails have the same probability (no atoms) -/
theorem gauss_upper_tail_closed {σ : ℝ} (hσ : 0 < σ) (t : ℝ) : (noise σ).real (Ici t) = Qg (t / σ) := by
  rw [← gauss_upper_tail hσ t]
  have : Ici t = {t} ∪ Ioi t := by
    ext x; simp [le_iff_eq_or_lt]
  rw [this, measureReal_union (by simp) measurableSet_Ioi, noise_real_singleton σ hσ.ne', zero_add]

theorem gauss_lower_tail_closed {σ : ℝ} (hσ : 0 < σ) (t : ℝ) : (noise σ).real (Iic (-t)) = Qg (t / σ) := by
  rw [← gauss_lower_tail hσ t]
  have : Iic (-t) = {-t} ∪ Iio (-t) := by
    ext x; simp [le_iff_eq_or_lt]
  rw [this, measureReal_union (by simp) measurableSet_Iio, noise_real_singleton σ hσ.ne', zero_add]

/-- `P(|σN| ≥ t) = 2 Q(t/σ)` for `t > 0` -/
theorem gauss_two_sided {σ : ℝ} (hσ : 0 < σ) {t : ℝ} (ht : 0 < t) :
    (noise σ).real (Iic (-t) ∪ Ici t) = 2 * Qg (t / σ) := by
  rw [measureReal_union _ measurableSet_Ici, gauss_lower_tail_closed hσ, gauss_upper_tail_closed hσ]
  · ring
  · rw [Set.disjoint_left]; intro x hx hx'
    simp only [mem_Iic, mem_Ici] at hx hx'; linarith

/-- `P(-t < σN < t) = 1 - 2 Q(t/σ)` -/
theorem gauss_inner {σ : ℝ} (hσ : 0 < σ) {t : ℝ} (ht : 0 < t) :
    (noise σ).real (Ioo (-t) t) = 1 - 2 * Qg (t / σ) := by
  have h : (Ioo (-t) t) = (Iic (-t) ∪ Ici t)ᶜ := by
    ext x; simp only [mem_Ioo, mem_compl_iff, mem_union, mem_Iic, mem_Ici, not_or, not_le]
  rw [h, measureReal_compl (measurableSet_Iic.union measurableSet_Ici), gauss_two_sided hσ ht]
  simp

/-! ### `IsQ Qg` -/

theorem Qg_antitone : Antitone Qg := by
  intro a b h
  exact measureReal_mono (Ioi_subset_Ioi h)

theorem Qg_nonneg (x : ℝ) : 0 ≤ Qg x := measureReal_nonneg

theorem Qg_le_one (x : ℝ) : Qg x ≤ 1 := measureReal_le_one

theorem Qg_zero : Qg 0 = 1 / 2 := by
  have hσ : (0:ℝ) < 1 := one_pos
  have h1 : (noise 1).real (Iio (-0)) = Qg (0 / 1) := gauss_lower_tail hσ 0
  have h2 : (noise 1).real (Ici 0) = Qg (0 / 1) := gauss_upper_tail_closed hσ 0
  simp only [neg_zero, zero_div] at h1 h2
  have h3 : (noise 1).real (Iio 0) + (noise 1).real (Ici 0) = 1 := by
    rw [← measureReal_union (by rw [Set.disjoint_left]; intro x hx hx'; simp at hx hx'; linarith)
      measurableSet_Ici]
    have : Iio (0:ℝ) ∪ Ici 0 = univ := by ext x; simp
    rw [this]; simp
  rw [h1, h2] at h3
  linarith

theorem Qg_tendsto : Tendsto Qg atTop (𝓝 0) := by
  have h : Tendsto (fun x : ℝ => (gaussianReal 0 1) (Ioi x)) atTop (𝓝 ((gaussianReal 0 1) (⋂ x : ℝ, Ioi x))) := by
    apply tendsto_measure_iInter_atTop (fun x => measurableSet_Ioi.nullMeasurableSet)
    · intro a b h; exact Ioi_subset_Ioi h
    · exact ⟨0, measure_ne_top _ _⟩
  have h0 : (⋂ x : ℝ, Ioi x) = ∅ := by
    ext y; simp only [mem_iInter, mem_Ioi, mem_empty_iff_false, iff_false, not_forall, not_lt]
    exact ⟨y, le_refl y⟩
  rw [h0, measure_empty] at h
  have := (ENNReal.tendsto_toReal (ENNReal.zero_ne_top)).comp h
  simp only [ENNReal.toReal_zero] at this
  exact this.congr (fun x => rfl)

/-- the actual Gaussian tail satisfies everything the abstract theorems assume -/
theorem isQ_gaussian : IsQ Qg := ⟨Qg_antitone, Qg_zero, Qg_nonneg, Qg_tendsto⟩

end PyPhysim.C16
