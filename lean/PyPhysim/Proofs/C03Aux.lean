import PyPhysim.Proofs.C03Hist

/-!
# C03 — auxiliary lemmas: last delay, dense taps, the response stored by a frequency-domain transmission
-/
namespace PyPhysim.C03
open PyPhysim.Proto

/-- in a strictly increasing list every element is ≤ the last one -/
theorem sorted_le_getLast? (l : List Nat) (h : l.Pairwise (· < ·)) (last : Nat) (hl : l.getLast? = some last) :
    ∀ d ∈ l, d ≤ last := by
  induction l with
  | nil => simp at hl
  | cons a l ih =>
    cases l with
    | nil =>
      simp only [List.getLast?_singleton, Option.some.injEq] at hl
      subst hl
      intro d hd
      simp only [List.mem_singleton] at hd
      omega
    | cons b l' =>
      rw [List.getLast?_cons_cons] at hl
      rw [List.pairwise_cons] at h
      have ih' := ih h.2 hl
      intro d hd
      rcases List.mem_cons.mp hd with rfl | hd
      · have := h.1 b (by simp)
        have := ih' b (by simp)
        omega
      · exact ih' d hd

variable {α : Type} [CommSemiring α]

theorem mem_last_delay (c : Tdl α) (mem : Nat) (hmem : c.mem = .ok mem)
    (hsorted : c.delays.Pairwise (· < ·)) : mem ∈ c.delays ∧ ∀ d ∈ c.delays, d ≤ mem := by
  unfold Tdl.mem at hmem
  cases hl : c.taps.getLast? with
  | none => simp [hl] at hmem
  | some da =>
    simp only [hl, Except.ok.injEq] at hmem
    subst hmem
    have hlast : c.delays.getLast? = some da.1 := by
      unfold Tdl.delays
      rw [List.getLast?_map, hl]
      rfl
    refine ⟨List.mem_of_getLast? hlast, sorted_le_getLast? _ hsorted _ hlast⟩

theorem dense_getElem? (delays : List Nat) (v : List α) (hlen : v.length = delays.length)
    (hsorted : delays.Pairwise (· < ·)) (l : Nat) :
    (dense delays v)[l]? =
      match delays.getLast? with
      | none => none
      | some last => if l ≤ last then
          some (match (delays.zip v).find? (fun dv => dv.1 == l) with | some dv => dv.2 | none => 0)
        else none := by
  unfold dense
  cases hl : delays.getLast? with
  | none => simp
  | some last =>
    simp only
    have key : ∀ (ts : List (Nat × α)) (acc : List α), (ts.map (·.1)).Pairwise (· < ·) →
        (ts.foldl (fun acc dv => acc.set dv.1 dv.2) acc)[l]?
          = if l < acc.length then
              some (match ts.find? (fun dv => dv.1 == l) with
                    | some dv => dv.2 | none => (acc[l]?).getD 0)
            else none := by
      intro ts
      induction ts with
      | nil =>
        intro acc _
        by_cases h : l < acc.length
        · simp [h, List.getElem?_eq_getElem h]
        · simp [h, List.getElem?_eq_none (Nat.le_of_not_lt h)]
      | cons t ts ih =>
        intro acc hs
        simp only [List.map_cons, List.pairwise_cons] at hs
        rw [List.foldl_cons, ih _ hs.2, List.length_set]
        by_cases h : l < acc.length
        · simp only [h, if_true, Option.some.injEq, List.find?_cons]
          by_cases ht : t.1 = l
          · have hnone : ts.find? (fun dv => dv.1 == l) = none := by
              rw [List.find?_eq_none]
              intro dv hdv
              have := hs.1 dv.1 (List.mem_map.mpr ⟨dv, hdv, rfl⟩)
              simp; omega
            simp [ht, hnone, List.getElem?_set, h]
          · have : (t.1 == l) = false := by simpa using ht
            simp only [this]
            cases ts.find? (fun dv => dv.1 == l) with
            | some dv => rfl
            | none => simp [List.getElem?_set, ht]
        · simp [h]
    have hz : (delays.zip v).map (·.1) = delays := by
      rw [List.map_fst_zip]; omega
    rw [key (delays.zip v) (zeros (last + 1)) (by rw [hz]; exact hsorted)]
    simp only [zeros, List.length_replicate]
    by_cases h : l ≤ last
    · have h' : l < last + 1 := by omega
      simp only [h, h', if_true, Option.some.injEq]
      cases (delays.zip v).find? (fun dv => dv.1 == l) with
      | some dv => rfl
      | none => simp [List.getElem?_replicate, h']
    · have h' : ¬ l < last + 1 := by omega
      simp [h, h']

/-- the response stored by a successful frequency-domain transmission is the concatenation of
    the responses generated for its blocks -/
theorem tdl_corruptFreq_last (proc : Proc α) (fftK : Fft α) (c c' : Tdl α) (x y : List (List α)) (fft : Nat)
    (sel : Sel) (ps : List Nat) (B nb : Nat) (h : c.corruptFreq proc fftK x fft sel = .ok (c', y))
    (hp : freqPlan sel fft (numSymbols x) = .ok (ps, B, nb)) :
    ∃ l, concatIR (blockIRs proc c fft nb c.pos) = .ok l ∧ c'.last = some l := by
  unfold Tdl.corruptFreq at h
  simp only [hp, bind, Except.bind, pure, Except.pure] at h
  cases hso : c.signalOk x with
  | false => simp [hso, throw, throwThe, MonadExceptOf.throw] at h
  | true =>
  simp only [hso, Bool.not_true, Bool.false_eq_true, if_false] at h
  cases hc : concatIR (blockIRs proc c fft nb c.pos) with
  | error e => simp [hc] at h
  | ok l =>
    refine ⟨l, rfl, ?_⟩
    simp only [hc] at h
    cases ha : c.ant with
    | none =>
      simp only [ha] at h
      cases x with
      | nil => simp [throw, throwThe, MonadExceptOf.throw] at h
      | cons v rest =>
        cases rest with
        | nil => simp only [Except.ok.injEq, Prod.mk.injEq] at h; rw [← h.1]
        | cons w rest => simp [throw, throwThe, MonadExceptOf.throw] at h
    | some d =>
      simp only [ha] at h
      by_cases hl : x.length = (c.dims d.1 d.2).2
      swap
      · simp [hl, throw, throwThe, MonadExceptOf.throw] at h
      · simp only [hl, ne_eq, not_true_eq_false, if_false, Except.ok.injEq, Prod.mk.injEq] at h; rw [← h.1]


theorem blockIRs_ignores_last (proc : Proc α) (c : Tdl α) (l : Option (IR α)) (fft nb pos : Nat) :
    blockIRs proc ({ c with last := l } : Tdl α) fft nb pos = blockIRs proc c fft nb pos := by
  induction nb generalizing pos with
  | zero => rfl
  | succ nb ih =>
    simp only [blockIRs]
    rw [ih]
    rfl

theorem corruptFreq_ignores_last (proc : Proc α) (fftK : Fft α) (c : Tdl α) (l : Option (IR α))
    (x : List (List α)) (fft : Nat) (sel : Sel) :
    ({ c with last := l } : Tdl α).corruptFreq proc fftK x fft sel = c.corruptFreq proc fftK x fft sel := by
  unfold Tdl.corruptFreq
  simp only [blockIRs_ignores_last]
  rfl

end PyPhysim.C03
