/-
C14 — helper lemmas for the robustness classes R15 (distinct values that are
merely close) and R16 (argument identity and buffer reuse).

R16: a caller program with in-place refilled argument buffers acts on the
generator exactly like the list of calls with the buffer contents at call time
(induction over the program).

R15: the Jakes sum of a single ray is `(cos θ, sin θ)` with
`θ = 2π·Fd·cos(phi)·t + psi`; two Doppler frequencies give the same value at
time `t` only if `(Fd - Fd')·cos(phi)·t` is an integer number of cycles.  So
there is no neighbourhood of a Doppler frequency (in particular of `Fd = 0`)
on which the process is the same: the model is a function of the exact value.
-/
import Mathlib.Analysis.SpecialFunctions.Trigonometric.Angle
import PyPhysim.Proofs.C14

namespace PyPhysim.C14
open PyPhysim.Proto

/-! ### R16: caller programs -/

theorem runC_cons (c : Caller) (s : State) (op : CallerOp) (ops : List CallerOp) :
    runC c s (op :: ops) = runC (stepC c s op).1 (stepC c s op).2 ops := rfl

theorem stepC_fst (c : Caller) (s : State) (op : CallerOp) : (stepC c s op).1 = op.refill c := by
  unfold stepC; cases op.issued c <;> rfl

theorem callsSeen_none (c : Caller) (op : CallerOp) (ops : List CallerOp)
    (h : op.issued c = Option.none) : callsSeen c (op :: ops) = callsSeen (op.refill c) ops := by
  simp only [callsSeen, h]

theorem callsSeen_some (c : Caller) (op : CallerOp) (ops : List CallerOp) (r : RawOp)
    (h : op.issued c = some r) : callsSeen c (op :: ops) = r :: callsSeen (op.refill c) ops := by
  simp only [callsSeen, h]

theorem stepC_none (c : Caller) (s : State) (op : CallerOp) (h : op.issued c = Option.none) :
    stepC c s op = (op.refill c, s) := by
  simp only [stepC, h]

theorem stepC_some (c : Caller) (s : State) (op : CallerOp) (r : RawOp) (h : op.issued c = some r) :
    stepC c s op = (op.refill c, (stepR s r).1) := by
  simp only [stepC, h]

/-- the object after a caller program is the object after the calls it saw -/
theorem runC_state (c : Caller) (s : State) (ops : List CallerOp) :
    (runC c s ops).2 = runR s (callsSeen c ops) := by
  induction ops generalizing c s with
  | nil => rfl
  | cons op ops ih =>
    rw [runC_cons, ih]
    cases h : op.issued c with
    | none => rw [stepC_none c s op h, callsSeen_none c op ops h]
    | some r => rw [stepC_some c s op r h, callsSeen_some c op ops r h]; rfl

/-- the buffers after a caller program do not depend on the object -/
theorem runC_caller (c : Caller) (s s' : State) (ops : List CallerOp) :
    (runC c s ops).1 = (runC c s' ops).1 := by
  induction ops generalizing c s s' with
  | nil => rfl
  | cons op ops ih =>
    rw [runC_cons, runC_cons, stepC_fst, stepC_fst]
    exact ih _ _ _

theorem callsSeen_append (c : Caller) (s : State) (a b : List CallerOp) :
    callsSeen c (a ++ b) = callsSeen c a ++ callsSeen (runC c s a).1 b := by
  induction a generalizing c s with
  | nil => rfl
  | cons op a ih =>
    simp only [List.cons_append, runC_cons, stepC_fst]
    cases h : op.issued c with
    | none => rw [callsSeen_none _ _ _ h, callsSeen_none _ _ _ h]; exact ih _ _
    | some r => rw [callsSeen_some _ _ _ _ h, callsSeen_some _ _ _ _ h, List.cons_append, ih]

theorem runR_append (s : State) (a b : List RawOp) : runR s (a ++ b) = runR (runR s a) b := by
  induction a generalizing s with
  | nil => rfl
  | cons r a ih => exact ih _

/-- refills alone are not calls -/
theorem callsSeen_fills (c : Caller) (fills : List CallerOp)
    (h : ∀ op ∈ fills, ∀ c', op.issued c' = Option.none) : callsSeen c fills = [] := by
  induction fills generalizing c with
  | nil => rfl
  | cons op fills ih =>
    rw [callsSeen_none _ _ _ (h op (List.mem_cons_self ..) c)]
    exact ih _ (fun op' hm => h op' (List.mem_cons_of_mem _ hm))

/-! ### R15: a single ray -/

theorem jakes_single (Fd t : ℝ) (r : ℝ × ℝ) :
    jakes Fd [r] t = .ok (Real.cos (rayPhase Fd t r), Real.sin (rayPhase Fd t r)) := by
  rw [jakes_ok Fd t _ (by simp)]
  simp

/-- equal single-ray samples ⇒ the two phases differ by a whole number of turns -/
theorem single_ray_eq_turns (Fd Fd' t t' : ℝ) (r r' : ℝ × ℝ)
    (h : jakes Fd [r] t = jakes Fd' [r'] t') :
    ∃ m : ℤ, rayPhase Fd t r - rayPhase Fd' t' r' = 2 * Real.pi * m := by
  rw [jakes_single, jakes_single] at h
  injection h with h
  injection h with hc hs
  exact Real.Angle.angle_eq_iff_two_pi_dvd_sub.mp (Real.Angle.cos_sin_inj hc hs)

/-- two single-ray samples whose phases differ by less than one turn (and do
    differ) are different -/
theorem single_ray_ne_of_phase (Fd Fd' t t' : ℝ) (r r' : ℝ × ℝ)
    (h0 : rayPhase Fd t r ≠ rayPhase Fd' t' r')
    (h1 : |rayPhase Fd t r - rayPhase Fd' t' r'| < 2 * Real.pi) :
    jakes Fd [r] t ≠ jakes Fd' [r'] t' := by
  intro h
  obtain ⟨m, hm⟩ := single_ray_eq_turns Fd Fd' t t' r r' h
  have hpi : (0 : ℝ) < 2 * Real.pi := by positivity
  rw [hm, abs_mul, abs_of_pos hpi] at h1
  have hm1 : |(m : ℝ)| < 1 := by
    by_contra hge
    rw [not_lt] at hge
    nlinarith
  have hm0 : m = 0 := Int.abs_lt_one_iff.mp (by exact_mod_cast hm1)
  subst hm0
  apply h0
  have : rayPhase Fd t r - rayPhase Fd' t' r' = 0 := by rw [hm]; simp
  linarith

theorem rayPhase_sub (Fd Fd' t t' phi psi : ℝ) :
    rayPhase Fd t (phi, psi) - rayPhase Fd' t' (phi, psi) =
      2 * Real.pi * ((Fd * t - Fd' * t') * Real.cos phi) := by
  simp only [rayPhase, transc_pi, transc_cos, Nat.cast_ofNat]
  ring

/-- same ray, two (Doppler, time) pairs: the samples differ as soon as the
    products `Fd·t` differ by less than one cycle of that ray -/
theorem single_ray_ne (Fd Fd' t t' phi psi : ℝ)
    (h0 : (Fd * t - Fd' * t') * Real.cos phi ≠ 0) (h1 : |(Fd * t - Fd' * t') * Real.cos phi| < 1) :
    jakes Fd [(phi, psi)] t ≠ jakes Fd' [(phi, psi)] t' := by
  have hpi : (0 : ℝ) < 2 * Real.pi := by positivity
  apply single_ray_ne_of_phase
  · intro h
    have : rayPhase Fd t (phi, psi) - rayPhase Fd' t' (phi, psi) = 0 := by linarith
    rw [rayPhase_sub] at this
    rcases mul_eq_zero.mp this with h2 | h2
    · exact absurd h2 (ne_of_gt hpi)
    · exact h0 h2
  · rw [rayPhase_sub, abs_mul, abs_of_pos hpi]
    nlinarith [abs_nonneg ((Fd * t - Fd' * t') * Real.cos phi)]

end PyPhysim.C14
