import PyPhysim.Proofs.C11Spec

/-!
Quadratic forms `uᴴ M u` of the covariance matrices the code builds, as sums of
squared moduli of scalar amplitudes (the Gram identity
`uᴴ (A Aᴴ) u = Σ_d |uᴴ a_d|²`).
-/
set_option linter.unusedSectionVars false
namespace PyPhysim.Sinr.Pf
open Matrix PyPhysim.Sinr PyPhysim.Sinr.Spec

variable {K n t s e : Nat} {T S : Fin K → Nat}

/-- the pair (`Ukl_H`, `Ukl`) the code multiplies with represents the filter `w` -/
structure IsFilt (uH : Mat ℂ 1 n) (u : Mat ℂ n 1) (w : Fin n → ℂ) : Prop where
  row : ∀ a, uH 0 a = star (w a)
  col : ∀ a, u a 0 = w a

theorem isFilt_channel (U : Mat ℂ n s) (l : Fin s) :
    IsFilt (cT (colOf U l)) (colOf U l) (filt U l) :=
  ⟨fun _ => rfl, fun _ => rfl⟩

theorem isFilt_solver (WH : Mat ℂ s n) (l : Fin s) :
    IsFilt (rowOf WH l) (cT (rowOf WH l)) (filtH WH l) :=
  ⟨fun a => by simp [rowOf, filtH], fun _ => rfl⟩

/-- `uᴴ M u` as the code evaluates it -/
noncomputable def qf (uH : Mat ℂ 1 n) (u : Mat ℂ n 1) (M : Matrix (Fin n) (Fin n) ℂ) : ℂ :=
  (toM uH * (M * toM u)) 0 0

theorem sinrDen_eq (uH : Mat ℂ 1 n) (u : Mat ℂ n 1) (B : Mat ℂ n n) :
    sinrDen uH u B = qf uH u (toM B) := by
  simp only [sinrDen, item_eq, toM_matMul, qf]

theorem qf_add (uH : Mat ℂ 1 n) (u : Mat ℂ n 1) (M N : Matrix (Fin n) (Fin n) ℂ) :
    qf uH u (M + N) = qf uH u M + qf uH u N := by
  simp only [qf, Matrix.add_mul, Matrix.mul_add, Matrix.add_apply]

theorem qf_sub (uH : Mat ℂ 1 n) (u : Mat ℂ n 1) (M N : Matrix (Fin n) (Fin n) ℂ) :
    qf uH u (M - N) = qf uH u M - qf uH u N := by
  simp only [qf, Matrix.sub_mul, Matrix.mul_sub, Matrix.sub_apply]

theorem qf_sum {ι : Type} (I : Finset ι) (uH : Mat ℂ 1 n) (u : Mat ℂ n 1)
    (M : ι → Matrix (Fin n) (Fin n) ℂ) :
    qf uH u (∑ j ∈ I, M j) = ∑ j ∈ I, qf uH u (M j) := by
  simp only [qf, Matrix.sum_mul, Matrix.mul_sum, Matrix.sum_apply]

theorem qf_smul (uH : Mat ℂ 1 n) (u : Mat ℂ n 1) (c : ℂ) (M : Matrix (Fin n) (Fin n) ℂ) :
    qf uH u (c • M) = c * qf uH u M := by
  simp only [qf, Matrix.smul_mul, Matrix.mul_smul, Matrix.smul_apply, smul_eq_mul]

theorem qf_zero (uH : Mat ℂ 1 n) (u : Mat ℂ n 1) : qf uH u 0 = 0 := by
  simp [qf]

theorem toM_col_eq {uH : Mat ℂ 1 n} {u : Mat ℂ n 1} {w : Fin n → ℂ} (hf : IsFilt uH u w) :
    toM u = (toM uH)ᴴ := by
  ext a b
  have hb : b = 0 := Subsingleton.elim _ _
  subst hb
  simp [conjTranspose_apply, hf.row, hf.col]

/-- Gram identity: `uᴴ (A Aᴴ) u = Σ_d |Σ_a conj(w a) A a d|²` -/
theorem qf_gram {uH : Mat ℂ 1 n} {u : Mat ℂ n 1} {w : Fin n → ℂ} (hf : IsFilt uH u w)
    (A : Matrix (Fin n) (Fin s) ℂ) :
    qf uH u (A * Aᴴ) = ((∑ d, Complex.normSq (∑ a, star (w a) * A a d) : ℝ) : ℂ) := by
  have h1 : toM uH * (A * Aᴴ * toM u) = (toM uH * A) * (toM uH * A)ᴴ := by
    rw [toM_col_eq hf, conjTranspose_mul]
    simp only [Matrix.mul_assoc]
  rw [qf, h1, row_mul_conjTranspose_self]
  congr 1
  refine Finset.sum_congr rfl (fun d _ => ?_)
  congr 1
  simp only [Matrix.mul_apply, Matrix.of_apply, hf.row]

/-- the amplitude of stream `d` inside the product the code forms -/
theorem amp_eq (w : Fin n → ℂ) (G : Mat ℂ n t) (V : Mat ℂ t s) (d : Fin s) :
    (∑ a, star (w a) * (toM G * toM V) a d) = amp w G (fun b => V b d) := by
  simp only [amp, Matrix.mul_apply, Matrix.of_apply]

theorem qf_link {uH : Mat ℂ 1 n} {u : Mat ℂ n 1} {w : Fin n → ℂ} (hf : IsFilt uH u w)
    (G : Mat ℂ n t) (V : Mat ℂ t s) :
    qf uH u ((toM G * toM V) * (toM G * toM V)ᴴ) =
      ((∑ d, Complex.normSq (amp w G (fun b => V b d)) : ℝ) : ℂ) := by
  rw [qf_gram hf]
  simp only [amp_eq]

theorem qf_one {uH : Mat ℂ 1 n} {u : Mat ℂ n 1} {w : Fin n → ℂ} (hf : IsFilt uH u w) :
    qf uH u 1 = ((∑ a, Complex.normSq (w a) : ℝ) : ℂ) := by
  simp only [qf, Matrix.one_mul, Matrix.mul_apply, Matrix.of_apply, hf.row, hf.col]
  push_cast
  refine Finset.sum_congr rfl (fun a _ => ?_)
  rw [Complex.star_def, mul_comm, Complex.mul_conj]

/-- the noise term: `uᴴ (σ² I) u = σ² ‖u‖²` -/
theorem qf_noiseCov {uH : Mat ℂ 1 n} {u : Mat ℂ n 1} {w : Fin n → ℂ} (hf : IsFilt uH u w) (c : ℝ) :
    qf uH u (toM (noiseCov n c)) = ((noisePow c w : ℝ) : ℂ) := by
  rw [toM_noiseCov, qf_smul, qf_one hf, noisePow]
  push_cast
  ring

/-- the external-interference term: `uᴴ (pe He Heᴴ) u = pe Σ_i |uᴴ h_i|²` -/
theorem qf_extCov {uH : Mat ℂ 1 n} {u : Mat ℂ n 1} {w : Fin n → ℂ} (hf : IsFilt uH u w)
    (He : Mat ℂ n e) (pe : ℝ) :
    qf uH u (toM (extCov He pe)) = ((extPow He pe w : ℝ) : ℂ) := by
  rw [toM_extCov, qf_smul, qf_gram hf, extPow]
  push_cast
  rfl

/-- numerator of the code's quotient: `|uᴴ H f|²` -/
theorem sinrNum_eq {uH : Mat ℂ 1 n} {u : Mat ℂ n 1} {w : Fin n → ℂ} (hf : IsFilt uH u w)
    (G : Mat ℂ n t) (v : Mat ℂ t 1) :
    sinrNum uH G v = ((Complex.normSq (amp w G (fun b => v b 0)) : ℝ) : ℂ) := by
  simp only [sinrNum, item_eq, toM_matMul, toM_cT]
  rw [row_mul_conjTranspose_self]
  congr 1
  rw [Fin.sum_univ_one]
  congr 1
  rw [← amp_eq]
  simp only [Matrix.mul_apply, Matrix.of_apply, hf.row]

/-- all streams of all users: `uᴴ (Σ_j (H_j V_j)(H_j V_j)ᴴ) u = Σ_j Σ_d |uᴴ H_j v_jd|²` -/
theorem qf_total {uH : Mat ℂ 1 n} {u : Mat ℂ n 1} {w : Fin n → ℂ} (hf : IsFilt uH u w)
    (G : (j : Fin K) → Mat ℂ n (T j)) (V : (j : Fin K) → Mat ℂ (T j) (S j)) :
    qf uH u (∑ j, (toM (G j) * toM (V j)) * (toM (G j) * toM (V j))ᴴ) =
      ((∑ x : (j : Fin K) × Fin (S j), streamPow G V w x.1 x.2 : ℝ) : ℂ) := by
  rw [qf_sum]
  simp only [qf_link hf]
  rw [Fintype.sum_sigma]
  push_cast
  rfl

/-- everything but the desired stream: total minus own stream -/
theorem total_sub_own (G : (j : Fin K) → Mat ℂ n (T j)) (V : (j : Fin K) → Mat ℂ (T j) (S j))
    (w : Fin n → ℂ) (k : Fin K) (l : Fin (S k)) :
    (∑ x : (j : Fin K) × Fin (S j), streamPow G V w x.1 x.2) - streamPow G V w k l = intfPow G V w k l := by
  rw [intfPow, Finset.sum_erase_eq_sub (Finset.mem_univ _)]

end PyPhysim.Sinr.Pf
