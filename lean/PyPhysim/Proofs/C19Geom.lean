import Mathlib.Tactic.Ring
import Mathlib.Tactic.Linarith
import Mathlib.Tactic.FieldSimp
import Mathlib.Algebra.Order.Field.Basic
import PyPhysim.Model.C19

/-! C19 — plane algebra: rotations and translations are isometries, cross/dot products are
rotation invariant, the three-vector identity behind the border-point existence proof. -/
namespace PyPhysim.C19

section ring
variable {α : Type} [CommRing α]

theorem dist2_rot (u p q : Pt α) : dist2 (rot u p) (rot u q) = norm2 u * dist2 p q := by
  simp only [dist2, norm2, psub, rot, cmul]; ring

theorem norm2_rot (u p : Pt α) : norm2 (rot u p) = norm2 u * norm2 p := by
  simp only [norm2, rot, cmul]; ring

theorem cross_rot (u p q : Pt α) : cross (rot u p) (rot u q) = norm2 u * cross p q := by
  simp only [cross, norm2, rot, cmul]; ring

theorem dot_rot (u p q : Pt α) : dot (rot u p) (rot u q) = norm2 u * dot p q := by
  simp only [dot, norm2, rot, cmul]; ring

theorem dist2_padd_left (c p q : Pt α) : dist2 (padd c p) (padd c q) = dist2 p q := by
  simp only [dist2, norm2, psub, padd]; ring

theorem dist2_padd_right (c p q : Pt α) : dist2 (padd p c) (padd q c) = dist2 p q := by
  simp only [dist2, norm2, psub, padd]; ring

theorem dist2_psub_right (c p q : Pt α) : dist2 (psub p c) (psub q c) = dist2 p q := by
  simp only [dist2, norm2, psub]; ring

theorem dist2_comm (p q : Pt α) : dist2 p q = dist2 q p := by
  simp only [dist2, norm2, psub]; ring

theorem dist2_smul (k : α) (p q : Pt α) : dist2 (smul k p) (smul k q) = k * k * dist2 p q := by
  simp only [dist2, norm2, psub, smul]; ring

/-- rotating back: `rot (conj u) (rot u p) = |u|²·p` -/
theorem rot_conj_rot (u p : Pt α) : rot (conj u) (rot u p) = smul (norm2 u) p := by
  simp only [rot, conj, cmul, smul, norm2]; ext <;> simp <;> ring

theorem rot_rot_conj (u p : Pt α) : rot u (rot (conj u) p) = smul (norm2 u) p := by
  simp only [rot, conj, cmul, smul, norm2]; ext <;> simp <;> ring

theorem norm2_conj (u : Pt α) : norm2 (conj u) = norm2 u := by
  simp only [norm2, conj]; ring

/-- for three plane vectors `cross u w · v = cross v w · u + cross u v · w`; crossed with `d` -/
theorem cross_three (u v w d : Pt α) :
    cross u w * cross v d = cross u v * cross w d + cross v w * cross u d := by
  simp only [cross]; ring

theorem cross_anti (p q : Pt α) : cross p q = -cross q p := by
  simp only [cross]; ring

theorem cross_self (p : Pt α) : cross p p = 0 := by
  simp only [cross]; ring
end ring

end PyPhysim.C19
