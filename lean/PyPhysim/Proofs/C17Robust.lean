import PyPhysim.Proofs.C17Files
import PyPhysim.Proofs.C17Ops
/-!
Helper lemmas for C17, robustness classes R15 (distinct values that are merely
close) and R16 (one argument buffer refilled in place, one object in two roles).

The model has no notion of closeness and no notion of identity: a parameter
value is looked up by its name and carried as the exact value (`PyFloat` is an
exact dyadic rational), a buffer that the caller refills in place between two
calls is — for everything the serialisation code can observe — the parameter
set to the new contents (`setKV`).
-/
namespace PyPhysim.C17
open PyPhysim.Proto

/-! ### overwriting a parameter -/

/-- a second assignment to the same name forgets the first one completely -/
theorem setKV_setKV (k : String) (v1 v2 : PyVal) :
    ∀ kvs, setKV k v2 (setKV k v1 kvs) = setKV k v2 kvs
  | [] => by simp [setKV]
  | (k', v') :: r => by
    cases h : (k' == k) with
    | true => simp [setKV, h]
    | false =>
      simp only [setKV, h, Bool.false_eq_true, if_false]
      rw [setKV_setKV k v1 v2 r]

/-- any number of refills followed by a last one = the last one alone -/
theorem foldl_setKV_last (k : String) (v : PyVal) :
    ∀ (vs : List PyVal) (kvs : List (String × PyVal)),
      (vs ++ [v]).foldl (fun acc x => setKV k x acc) kvs = setKV k v kvs
  | [], _ => rfl
  | v0 :: vs, kvs => by
    simp only [List.cons_append, List.foldl_cons]
    rw [foldl_setKV_last k v vs (setKV k v0 kvs), setKV_setKV]

theorem beq_false_symm (a b : String) (h : (a == b) = false) : (b == a) = false := by
  rw [beq_eq_false_iff_ne] at h ⊢
  exact fun e => h e.symm

/-- two environments that differ in the value assigned to `k` only render every
    other field alike -/
theorem agreeExcept_setKV (fr : Nat → PyFloat → String) (k : String) (v1 v2 : PyVal)
    (env : List (String × PyVal)) : agreeExcept fr k (setKV k v1 env) (setKV k v2 env) := by
  intro m hm
  have hkm := beq_false_symm m k hm
  rw [lookup_setKV_other k m v1 hkm env, lookup_setKV_other k m v2 hkm env]

/-! ### the file store -/

theorem storeRead_cons_ne (st : Store) (f g : FName) (c : Content) (h : f ≠ g) :
    storeRead ((f, c) :: st) g = storeRead st g := by
  simp [storeRead, h]

/-- a successful `save_to_file` adds exactly one file, under the returned name -/
theorem saveToFile_store (fr : Nat → PyFloat → String) (st st' : Store) (s s' : SimResults)
    (txt : String) (tpl : List Seg) (ext : String) (f : FName)
    (h : saveToFile fr st s txt tpl ext = .ok (st', s', f)) : ∃ c, st' = (f, c) :: st := by
  unfold saveToFile at h
  cases hp : s.params with
  | nil => simp only [hp] at h; cases h
  | cons n rest =>
    simp only [hp] at h
    cases hg : getFilename fr n.parameters txt tpl with
    | error e => rw [hg] at h; cases h
    | ok stem =>
      rw [hg] at h
      simp only [bind_ok] at h
      cases hf : fmtOf (normExt ext) with
      | none => rw [hf] at h; cases h
      | some fmt =>
        rw [hf] at h
        cases fmt <;>
          (injection h with h; injection h with h1 h; injection h with _ h2
           subst h2; exact ⟨_, h1.symm⟩)

end PyPhysim.C17
