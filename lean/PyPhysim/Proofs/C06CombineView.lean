import PyPhysim.Proofs.C06Combine

/-! C06: the object `combine_simulation_results` returns denotes the rows of new results. -/
namespace PyPhysim.C06M
open PyPhysim.Proto

theorem filterMap_getElem?_range {α} (l : List α) :
    (List.range l.length).filterMap (fun i => l[i]?) = l := by
  induction l with
  | nil => rfl
  | cons x xs ih =>
    rw [List.length_cons, List.range_succ_eq_map, List.filterMap_cons]
    simp only [List.getElem?_cons_zero, List.filterMap_map]
    congr 1

theorem filterMap_alloc {pre rs xs : List Res} :
    ((List.range rs.length).map (· + pre.length)).filterMap (fun a => (pre ++ rs ++ xs)[a]?) = rs := by
  rw [List.filterMap_map]
  conv_rhs => rw [← filterMap_getElem?_range rs]
  apply filterMap_congr'
  intro i hi
  have hi' : i < rs.length := List.mem_range.mp hi
  simp only [Function.comp]
  rw [List.append_assoc, List.getElem?_append_right (by omega)]
  simp [List.getElem?_append_left hi']

/-- the dictionary built by `allocRows` denotes exactly the rows -/
theorem allocRows_view (m : Mach) (rows : List (String × List Res)) :
    ((allocRows m rows).2.map (fun e => (e.1, viewList (allocRows m rows).1 e.2))) = rows := by
  induction rows generalizing m with
  | nil => simp [allocRows]
  | cons row rest ih =>
    obtain ⟨nm, rs⟩ := row
    obtain ⟨a1, a2, a3, a4⟩ := allocAll_spec m rs
    simp only [allocRows, List.map_cons]
    set m2 := (allocList (allocAll m rs).1 (allocAll m rs).2).1 with hm2
    obtain ⟨⟨xs, hx⟩, ⟨ys, hy⟩, _⟩ := allocRows_prefix m2 rest
    have hl : (allocList (allocAll m rs).1 (allocAll m rs).2).2 = m.lists.length := by
      simp [allocList, a2]
    congr 1
    · -- the head row
      congr 1
      have hres : (allocRows m2 rest).1.res = m.res ++ rs ++ xs := by
        rw [hx, hm2]; simp [allocList, a1]
      have hlists : (allocRows m2 rest).1.lists = m.lists ++ [(allocAll m rs).2] ++ ys := by
        rw [hy, hm2]; simp [allocList, a2]
      have hla : listAt (allocRows m2 rest).1 m.lists.length = (allocAll m rs).2 := by
        simp [listAt, hlists]
      rw [hl]
      simp only [viewList, hla, a4, hres]
      exact filterMap_alloc
    · exact ih m2

theorem combineRows_spec (m : Mach) (d1 d2 : Dict) (v1 v2 : List (List Rat)) (combos : List (List Rat))
    (names : List String) (rows : List (String × List Res))
    (h : combineRows m d1 d2 v1 v2 combos names = .ok rows) :
    rows.map (·.1) = names ∧
      ∀ row ∈ rows, ∃ l1 l2 a0 tl r0, dictGet? d1 row.1 = some l1 ∧ dictGet? d2 row.1 = some l2
        ∧ listAt m l1 = a0 :: tl ∧ m.res[a0]? = some r0
        ∧ combineName m (fresh row.1 r0.ty false r0.counts.length) (listAt m l1) (listAt m l2) v1 v2 combos
            = .ok row.2 := by
  induction names generalizing rows with
  | nil => simp [combineRows] at h; subst h; simp
  | cons nm rest ih =>
    simp only [combineRows] at h
    cases h1 : dictGet? d1 nm with
    | none => simp [h1] at h
    | some l1 =>
      cases h2 : dictGet? d2 nm with
      | none => simp [h1, h2] at h
      | some l2 =>
        simp only [h1, h2] at h
        cases h3 : listAt m l1 with
        | nil => simp [h3] at h
        | cons a0 tl =>
          simp only [h3] at h
          cases h4 : m.res[a0]? with
          | none => simp [h4] at h
          | some r0 =>
            simp only [h4] at h
            cases h5 : combineName m (fresh nm r0.ty false r0.counts.length) (a0 :: tl) (listAt m l2) v1 v2 combos with
            | error e => simp [h5] at h
            | ok rs =>
              simp only [h5] at h
              cases h6 : combineRows m d1 d2 v1 v2 combos rest with
              | error e => simp [h6] at h
              | ok rows' =>
                simp only [h6] at h
                cases h
                obtain ⟨i1, i2⟩ := ih rows' h6
                refine ⟨by simp [i1], ?_⟩
                intro row hrow
                rcases List.mem_cons.mp hrow with e | e
                · subst e
                  exact ⟨l1, l2, a0, tl, r0, h1, h2, h3, h4, by rw [h3]; exact h5⟩
                · exact i2 row e

/-- a successful `combine_simulation_results` returns a new object (the last one) whose
    parameters are the combined parameters and which denotes the rows of `combineRows` -/
theorem combine_view (m m' : Mach) (s1 s2 : Nat) (x1 x2 : Sim) (h1 : m.sims[s1]? = some x1)
    (h2 : m.sims[s2]? = some x2) (h : combine m s1 s2 = (m', none)) :
    ∃ p rows, combineParams x1.params x2.params = .ok p
      ∧ combineRows m x1.dict x2.dict (x1.params.norm.unp.map (·.2)) (x2.params.norm.unp.map (·.2))
          (product (p.unp.map (·.2))) (x1.dict.map (·.1)) = .ok rows
      ∧ m'.sims.length = m.sims.length + 1
      ∧ (m'.sims[m.sims.length]?).map (·.params) = some p
      ∧ view m' m.sims.length = rows := by
  unfold combine at h
  simp only [h1, h2] at h
  cases hp : combineParams x1.params x2.params with
  | error e => simp [hp] at h
  | ok p =>
    simp only [hp] at h
    split at h
    · simp at h
    · cases hr : combineRows m x1.dict x2.dict (x1.params.norm.unp.map (·.2)) (x2.params.norm.unp.map (·.2))
          (product (p.unp.map (·.2))) (x1.dict.map (·.1)) with
      | error e => simp [hr] at h
      | ok rows =>
        simp only [hr] at h
        obtain ⟨_, _, hz⟩ := allocRows_prefix m rows
        have hv := allocRows_view m rows
        generalize allocRows m rows = q at h hz hv
        obtain ⟨m1, d⟩ := q
        simp only [Prod.mk.injEq, and_true] at h hz hv
        subst h
        refine ⟨p, rows, rfl, hr, by simp [hz], by simp [hz], ?_⟩
        simp only [view, dictOf, hz, List.getElem?_append_right (Nat.le_refl _), Nat.sub_self,
          List.getElem?_cons_zero]
        exact hv

end PyPhysim.C06M
