import PyPhysim.Proofs.C07Slot
import PyPhysim.Proofs.C05Loop

/-! Helper lemmas for C07: one variation — the loop with its saves against the fold
specification of C05, and what every save of its trace contains. -/
namespace PyPhysim.C07

open PyPhysim.C05 (Outcome VarState Keep Stored Saved guard stepOk stepSkip after stateOf freshState
  shift IsVarRun oks skips)

variable {R T : Type}

theorem stepO_eq (merge : R → R → R) (s : VarState R) (o : Outcome R) :
    stepO merge s o = C05.stepOut merge s o := by
  cases o <;> rfl

theorem loopC_nil (cfg : Cfg R T) (i : Nat) (s : VarState R) (c : Clock) :
    loopC cfg i s c [] = ⟨s, [], c, guard cfg.repMax (cfg.keep i) s, []⟩ := rfl

theorem loopC_cons_false (cfg : Cfg R T) (i : Nat) (s : VarState R) (c : Clock) (o : Outcome R)
    (os : List (Outcome R)) (h : guard cfg.repMax (cfg.keep i) s = false) :
    loopC cfg i s c (o :: os) = ⟨s, o :: os, c, false, []⟩ := by
  rw [loopC]; simp [h]

/-- the clock handed to the rest of the loop after one iteration -/
def nextClock (cfg : Cfg R T) (c : Clock) (rep : Nat) : Clock :=
  if cfg.due c.tick rep then c.tick.reset else c.tick

/-- the save (if any) after one iteration that ended in state `s'` -/
def maybeSave (cfg : Cfg R T) (i : Nat) (c : Clock) (s' : VarState R) : List (Ev R T) :=
  if cfg.due c.tick s'.rep then saveEvs cfg i s' else []

theorem loopC_cons_true (cfg : Cfg R T) (i : Nat) (s : VarState R) (c : Clock) (o : Outcome R)
    (os : List (Outcome R)) (h : guard cfg.repMax (cfg.keep i) s = true) :
    loopC cfg i s c (o :: os) =
      ⟨(loopC cfg i (stepO cfg.merge s o) (nextClock cfg c (stepO cfg.merge s o).rep) os).st,
       (loopC cfg i (stepO cfg.merge s o) (nextClock cfg c (stepO cfg.merge s o).rep) os).rest,
       (loopC cfg i (stepO cfg.merge s o) (nextClock cfg c (stepO cfg.merge s o).rep) os).clock,
       (loopC cfg i (stepO cfg.merge s o) (nextClock cfg c (stepO cfg.merge s o).rep) os).exhausted,
       Ev.call i :: (maybeSave cfg i c (stepO cfg.merge s o) ++
         (loopC cfg i (stepO cfg.merge s o) (nextClock cfg c (stepO cfg.merge s o).rep) os).trace)⟩ := by
  rw [loopC]; simp [h, nextClock, maybeSave]

theorem partOps_saveEvs (cfg : Cfg R T) (i : Nat) (s : VarState R) :
    partOps i (saveEvs cfg i s) = saveOps cfg.mode (partOf cfg i s) := partOps_map_part i _

theorem onlyVar_saveEvs (cfg : Cfg R T) (i : Nat) (s : VarState R) : OnlyVar i (saveEvs cfg i s) :=
  onlyVar_map_part i _

theorem allAtomic_saveEvs (cfg : Cfg R T) (i : Nat) (s : VarState R) (h : cfg.mode = .atomic) :
    AllAtomic (saveEvs cfg i s) := by
  unfold saveEvs; rw [h]; exact allAtomic_map_part i _

theorem onlyVar_maybeSave (cfg : Cfg R T) (i : Nat) (c : Clock) (s : VarState R) :
    OnlyVar i (maybeSave cfg i c s) := by
  unfold maybeSave; split
  · exact onlyVar_saveEvs cfg i s
  · exact OnlyVar.nil i

theorem allAtomic_maybeSave (cfg : Cfg R T) (i : Nat) (c : Clock) (s : VarState R) (h : cfg.mode = .atomic) :
    AllAtomic (maybeSave cfg i c s) := by
  unfold maybeSave; split
  · exact allAtomic_saveEvs cfg i s h
  · exact AllAtomic.nil

theorem callLog_maybeSave (cfg : Cfg R T) (i : Nat) (c : Clock) (s : VarState R) :
    callLog (maybeSave cfg i c s) = [] := by
  unfold maybeSave; split
  · exact callLog_map_part i _
  · rfl

theorem contents_maybeSave (cfg : Cfg R T) (i : Nat) (c : Clock) (s : VarState R) :
    ∀ x ∈ contents (partOps i (maybeSave cfg i c s)), x = partOf cfg i s := by
  intro x hx
  unfold maybeSave at hx
  split at hx
  · rw [partOps_saveEvs, contents_saveOps] at hx; simpa using hx
  · simp [partOps, contents] at hx

/-- **The loop with its saves against the fold specification.**  The consumed
    outcomes `used`, the final state, the guard along the way (as C05 `loop_spec`);
    every content saved during the loop is the state after a non-empty prefix of
    `used`; the trace only concerns variation `i` and, in atomic mode, only
    contains atomic steps. -/
theorem loopC_spec (cfg : Cfg R T) (i : Nat) :
    ∀ (outs : List (Outcome R)) (s : VarState R) (c : Clock),
      ∃ used, outs = used ++ (loopC cfg i s c outs).rest ∧
        (loopC cfg i s c outs).st = after cfg.merge s used ∧
        (∀ p, p <+: used → p ≠ used → guard cfg.repMax (cfg.keep i) (after cfg.merge s p) = true) ∧
        ((loopC cfg i s c outs).exhausted = false →
            guard cfg.repMax (cfg.keep i) (loopC cfg i s c outs).st = false) ∧
        ((loopC cfg i s c outs).exhausted = true → (loopC cfg i s c outs).rest = [] ∧
            guard cfg.repMax (cfg.keep i) (loopC cfg i s c outs).st = true) ∧
        (∀ x ∈ contents (partOps i (loopC cfg i s c outs).trace),
            ∃ p, p <+: used ∧ p ≠ [] ∧ x = partOf cfg i (after cfg.merge s p)) ∧
        OnlyVar i (loopC cfg i s c outs).trace ∧
        (cfg.mode = .atomic → AllAtomic (loopC cfg i s c outs).trace) ∧
        callLog (loopC cfg i s c outs).trace = List.replicate used.length i
  | [], s, c => by
    refine ⟨[], by simp [loopC_nil], by simp [loopC_nil, C05.after_nil], ?_, by simp [loopC_nil],
      by simp [loopC_nil], ?_, by simp [loopC_nil, OnlyVar.nil], fun _ => by simp [loopC_nil, AllAtomic.nil],
      by simp [loopC_nil, callLog]⟩
    · intro p hp hne; exact absurd (List.prefix_nil.mp hp) hne
    · intro x hx; simp [loopC_nil, partOps, contents] at hx
  | o :: os, s, c => by
    by_cases hg : guard cfg.repMax (cfg.keep i) s = true
    · obtain ⟨used, h1, h2, h3, h4, h5, h6, h7, h8, h9⟩ :=
        loopC_spec cfg i os (stepO cfg.merge s o) (nextClock cfg c (stepO cfg.merge s o).rep)
      rw [loopC_cons_true cfg i s c o os hg]
      refine ⟨o :: used, by rw [List.cons_append, ← h1], ?_, ?_, h4, h5, ?_, ?_, ?_, ?_⟩
      · rw [h2, C05.after_cons, stepO_eq]
      · intro p hp hne
        cases p with
        | nil => rw [C05.after_nil]; exact hg
        | cons o' p' =>
          obtain ⟨rfl, hp'⟩ := List.cons_prefix_cons.mp hp
          rw [C05.after_cons, ← stepO_eq]
          exact h3 p' hp' (fun h => hne (by rw [h]))
      · intro x hx
        simp only [partOps, partOps_append, contents_append, List.mem_append] at hx
        rcases hx with hx | hx
        · refine ⟨[o], ?_, by simp, ?_⟩
          · exact List.cons_prefix_cons.mpr ⟨rfl, List.nil_prefix⟩
          · rw [contents_maybeSave cfg i c _ x hx, C05.after_cons, C05.after_nil, stepO_eq]
        · obtain ⟨p, hp, _, hx'⟩ := h6 x hx
          refine ⟨o :: p, List.cons_prefix_cons.mpr ⟨rfl, hp⟩, by simp, ?_⟩
          rw [hx', C05.after_cons, stepO_eq]
      · exact OnlyVar.cons_call ((onlyVar_maybeSave cfg i c _).append h7)
      · intro hm
        exact AllAtomic.cons_call ((allAtomic_maybeSave cfg i c _ hm).append (h8 hm))
      · simp only [callLog, callLog_append, callLog_maybeSave, List.nil_append, h9, List.length_cons,
          List.replicate_succ]
    · have hg' : guard cfg.repMax (cfg.keep i) s = false := by simpa using hg
      rw [loopC_cons_false cfg i s c o os hg']
      refine ⟨[], by simp, by simp [C05.after_nil], ?_, fun _ => hg', by simp, ?_, OnlyVar.nil i,
        fun _ => AllAtomic.nil, by simp [callLog]⟩
      · intro p hp hne; exact absurd (List.prefix_nil.mp hp) hne
      · intro x hx; simp [partOps, contents] at hx

/-- the loop part of the model is the C05 loop (saves and clock do not influence it) -/
theorem loopC_eq_loop (cfg : Cfg R T) (i : Nat) :
    ∀ (outs : List (Outcome R)) (s : VarState R) (c : Clock),
      (loopC cfg i s c outs).st = (C05.loop cfg.merge cfg.repMax (cfg.keep i) s outs).st ∧
      (loopC cfg i s c outs).rest = (C05.loop cfg.merge cfg.repMax (cfg.keep i) s outs).rest ∧
      (loopC cfg i s c outs).exhausted = (C05.loop cfg.merge cfg.repMax (cfg.keep i) s outs).exhausted
  | [], s, c => by simp [loopC_nil, C05.loop]
  | o :: os, s, c => by
    by_cases hg : guard cfg.repMax (cfg.keep i) s = true
    · rw [loopC_cons_true cfg i s c o os hg]
      have ih := loopC_eq_loop cfg i os (stepO cfg.merge s o) (nextClock cfg c (stepO cfg.merge s o).rep)
      have : C05.loop cfg.merge cfg.repMax (cfg.keep i) s (o :: os)
          = C05.loop cfg.merge cfg.repMax (cfg.keep i) (stepO cfg.merge s o) os := by
        cases o <;> simp [C05.loop, hg, stepO]
      rw [this]; exact ih
    · have hg' : guard cfg.repMax (cfg.keep i) s = false := by simpa using hg
      rw [loopC_cons_false cfg i s c o os hg']
      simp [C05.loop, hg']

/-- what is established about the run of one variation, relative to the function
    `stf` giving the state after a prefix of the consumed outcomes -/
structure VarSpec (cfg : Cfg R T) (i : Nat) (stf : List (Outcome R) → Option (VarState R))
    (outs : List (Outcome R)) (v : VarRun R T) (used : List (Outcome R)) : Prop where
  split : outs = used ++ v.rest
  /-- every saved content is the state after a prefix of the consumed outcomes -/
  saved : ∀ x ∈ contents (partOps i v.trace), ∃ p s, p <+: used ∧ stf p = some s ∧ x = partOf cfg i s
  only : OnlyVar i v.trace
  atomic : cfg.mode = .atomic → AllAtomic v.trace
  /-- after every proper prefix the run had to go on -/
  running : ∀ p, p <+: used → p ≠ used → ∀ s, stf p = some s → guard cfg.repMax (cfg.keep i) s = true
  /-- a completed variation: final state, guard false, and the trace ends with its save -/
  done : ∀ st, v.res = .ok st → stf used = some st ∧ guard cfg.repMax (cfg.keep i) st = false ∧
    ∃ pre, v.trace = pre ++ saveEvs cfg i st
  failed : ∀ e, v.res = .error e → e = .Exhausted ∧ v.rest = []
  /-- a variation that did not finish ran out of outcomes while it still had to go on -/
  stuck : ∀ e, v.res = .error e →
    stf used = none ∨ ∃ st, stf used = some st ∧ guard cfg.repMax (cfg.keep i) st = true

/-- `finishVar` after a loop started in `s0`, with only calls before it -/
theorem finishVar_spec (cfg : Cfg R T) (i : Nat) (pre : List (Ev R T)) (s0 : VarState R) (c : Clock)
    (os : List (Outcome R)) (hpre1 : OnlyVar i pre) (hpre2 : AllAtomic pre) (hpre3 : partOps i pre = [])
    (k : Nat) (hpre4 : callLog pre = List.replicate k i) :
    ∃ used, VarSpec cfg i (fun p => some (after cfg.merge s0 p)) os
        (finishVar cfg i pre (loopC cfg i s0 c os)) used ∧
      callLog (finishVar cfg i pre (loopC cfg i s0 c os)).trace = List.replicate (k + used.length) i := by
  obtain ⟨used, h1, h2, h3, h4, h5, h6, h7, h8, h9⟩ := loopC_spec cfg i os s0 c
  refine ⟨used, ?_⟩
  unfold finishVar
  by_cases hex : (loopC cfg i s0 c os).exhausted = true
  · simp only [hex, if_true]
    obtain ⟨hr, _⟩ := h5 hex
    refine ⟨⟨by simpa [hr] using h1, ?_, hpre1.append h7, fun hm => hpre2.append (h8 hm), ?_, ?_, ?_, ?_⟩, ?_⟩
    · intro x hx
      rw [partOps_append, hpre3, List.nil_append] at hx
      obtain ⟨p, hp, _, hx'⟩ := h6 x hx
      exact ⟨p, _, hp, rfl, hx'⟩
    · intro p hp hne s hs
      simp only [Option.some.injEq] at hs
      rw [← hs]; exact h3 p hp hne
    · intro st hst; simp at hst
    · intro e he
      simp only [Except.error.injEq] at he
      exact ⟨he.symm, rfl⟩
    · intro e _
      right; exact ⟨_, rfl, by rw [← h2]; exact (h5 hex).2⟩
    · rw [callLog_append, hpre4, h9, List.replicate_append_replicate]
  · have hex' : (loopC cfg i s0 c os).exhausted = false := by simpa using hex
    simp only [hex', Bool.false_eq_true, if_false]
    refine ⟨⟨h1, ?_, hpre1.append (h7.append (onlyVar_saveEvs cfg i _)),
      fun hm => hpre2.append ((h8 hm).append (allAtomic_saveEvs cfg i _ hm)), ?_, ?_, ?_,
      fun e he => by simp at he⟩, ?_⟩
    · intro x hx
      rw [partOps_append, hpre3, List.nil_append, partOps_append, contents_append, List.mem_append,
        partOps_saveEvs, contents_saveOps] at hx
      rcases hx with hx | hx
      · obtain ⟨p, hp, _, hx'⟩ := h6 x hx
        exact ⟨p, _, hp, rfl, hx'⟩
      · refine ⟨used, _, List.prefix_refl _, rfl, ?_⟩
        rw [← h2]; simpa using hx
    · intro p hp hne s hs
      simp only [Option.some.injEq] at hs
      rw [← hs]; exact h3 p hp hne
    · intro st hst
      simp only [Except.ok.injEq] at hst
      subst hst
      exact ⟨by rw [h2], h4 hex', pre ++ (loopC cfg i s0 c os).trace, by simp⟩
    · intro e he; simp at he
    · rw [callLog_append, callLog_append, hpre4, h9, saveEvs, callLog_map_part, List.append_nil,
        List.replicate_append_replicate]

/-- state of a fresh variation after `p`, when `k` skips (and calls) happened before -/
def stK (merge : R → R → R) (k : Nat) (p : List (Outcome R)) : Option (VarState R) :=
  (freshState merge p).map (shift k)

theorem stK_skip (merge : R → R → R) (k : Nat) (p : List (Outcome R)) :
    stK merge k (.skip :: p) = stK merge (k + 1) p := by
  unfold stK
  rw [C05.freshState_skip, Option.map_map]
  congr 1; funext s; simp [Function.comp, C05.shift_shift, Nat.add_comm]

theorem stK_ok (merge : R → R → R) (k : Nat) (r : R) (p : List (Outcome R)) :
    stK merge k (.ok r :: p) = some (after merge ⟨r, 1, k, k + 1⟩ p) := by
  unfold stK
  rw [C05.freshState_ok, Option.map_some, C05.shift_after]
  simp [shift, Nat.add_comm]

theorem stK_nil (merge : R → R → R) (k : Nat) : stK merge k ([] : List (Outcome R)) = none := rfl

theorem stK_zero (merge : R → R → R) (p : List (Outcome R)) : stK merge 0 p = freshState merge p := by
  unfold stK
  cases freshState merge p with
  | none => rfl
  | some s => simp [C05.shift_zero]

/-- the first repetition (retried while it skips) followed by the loop -/
theorem firstRunC_spec (cfg : Cfg R T) (i : Nat) :
    ∀ (outs : List (Outcome R)) (k : Nat) (c : Clock),
      ∃ used, VarSpec cfg i (stK cfg.merge k) outs (firstRunC cfg i k c outs) used ∧
        callLog (firstRunC cfg i k c outs).trace = List.replicate (k + used.length) i
  | [], k, c => by
    refine ⟨[], ⟨rfl, ?_, OnlyVar.replicate_call i k, fun _ => AllAtomic.replicate_call i k, ?_, ?_, ?_,
      fun _ _ => Or.inl (stK_nil _ _)⟩, ?_⟩
    · intro x hx; simp [firstRunC, partOps_replicate_call, contents] at hx
    · intro p hp hne; exact absurd (List.prefix_nil.mp hp) hne
    · intro st hst; simp [firstRunC] at hst
    · intro e he
      simp only [firstRunC, Except.error.injEq] at he
      exact ⟨he.symm, rfl⟩
    · simp [firstRunC, callLog_replicate_call]
  | .skip :: os, k, c => by
    obtain ⟨used, hs, hc⟩ := firstRunC_spec cfg i os (k + 1) c.tick
    refine ⟨.skip :: used, ?_, ?_⟩
    · rw [firstRunC]
      refine ⟨by rw [List.cons_append, ← hs.split], ?_, hs.only, hs.atomic, ?_, ?_, hs.failed,
        fun e he => by rw [stK_skip]; exact hs.stuck e he⟩
      · intro x hx
        obtain ⟨p, s, hp, hst, hx'⟩ := hs.saved x hx
        exact ⟨.skip :: p, s, List.cons_prefix_cons.mpr ⟨rfl, hp⟩, by rw [stK_skip]; exact hst, hx'⟩
      · intro p hp hne s hst
        cases p with
        | nil => simp [stK_nil] at hst
        | cons o' p' =>
          obtain ⟨rfl, hp'⟩ := List.cons_prefix_cons.mp hp
          rw [stK_skip] at hst
          exact hs.running p' hp' (fun h => hne (by rw [h])) s hst
      · intro st hst
        obtain ⟨h1, h2, h3⟩ := hs.done st hst
        exact ⟨by rw [stK_skip]; exact h1, h2, h3⟩
    · rw [firstRunC, hc]; congr 1; simp only [List.length_cons]; omega
  | .ok r :: os, k, c => by
    obtain ⟨used, hs, hc⟩ := finishVar_spec cfg i (List.replicate (k + 1) (.call i)) ⟨r, 1, k, k + 1⟩ c.tick os
      (OnlyVar.replicate_call i _) (AllAtomic.replicate_call i _) (partOps_replicate_call i i _)
      (k + 1) (callLog_replicate_call i _)
    refine ⟨.ok r :: used, ?_, ?_⟩
    · rw [firstRunC]
      refine ⟨by rw [List.cons_append, ← hs.split], ?_, hs.only, hs.atomic, ?_, ?_, hs.failed,
        fun e he => by rw [stK_ok]; exact hs.stuck e he⟩
      · intro x hx
        obtain ⟨p, s, hp, hst, hx'⟩ := hs.saved x hx
        exact ⟨.ok r :: p, s, List.cons_prefix_cons.mpr ⟨rfl, hp⟩, by rw [stK_ok]; exact hst, hx'⟩
      · intro p hp hne s hst
        cases p with
        | nil => simp [stK_nil] at hst
        | cons o' p' =>
          obtain ⟨rfl, hp'⟩ := List.cons_prefix_cons.mp hp
          rw [stK_ok] at hst
          exact hs.running p' hp' (fun h => hne (by rw [h])) s hst
      · intro st hst
        obtain ⟨h1, h2, h3⟩ := hs.done st hst
        exact ⟨by rw [stK_ok]; exact h1, h2, h3⟩
    · rw [firstRunC, hc]; congr 1; simp only [List.length_cons]; omega

/-- the load did not raise -/
def LoadsOk [DecidableEq T] (cfg : Cfg R T) (d : Disk R T) (i : Nat) : Prop :=
  ∀ e, loadPart cfg d i ≠ .error e

/-- **One variation of the model against the C05 specification**: when the load does
    not raise, the run is described by `VarSpec` relative to the C05 state function
    `stateOf merge (startOf …)`, and it made one call per consumed outcome. -/
theorem runVarC_spec [DecidableEq T] (cfg : Cfg R T) (i : Nat) (d : Disk R T) (c : Clock)
    (outs : List (Outcome R)) (hl : LoadsOk cfg d i) :
    ∃ used, VarSpec cfg i (stateOf cfg.merge (startOf cfg d i)) outs (runVarC cfg i d c outs) used ∧
      callLog (runVarC cfg i d c outs).trace = List.replicate used.length i := by
  unfold runVarC startOf
  cases hld : loadPart cfg d i with
  | error e => exact absurd hld (hl e)
  | fresh =>
    simp only
    obtain ⟨used, hs, hc⟩ := firstRunC_spec cfg i outs 0 c
    refine ⟨used, ?_, by simpa using hc⟩
    have : stateOf cfg.merge (none : Option (R × Nat)) = stK cfg.merge 0 := by
      funext p; simp [stateOf, stK_zero]
    rw [this]; exact hs
  | resume a n =>
    simp only
    obtain ⟨used, hs, hc⟩ :=
      finishVar_spec cfg i [] ⟨a, n, 0, 0⟩ c outs (OnlyVar.nil i) AllAtomic.nil rfl 0 rfl
    exact ⟨used, hs, by simpa using hc⟩

theorem runVarC_error [DecidableEq T] (cfg : Cfg R T) (i : Nat) (d : Disk R T) (c : Clock)
    (outs : List (Outcome R)) (e : Err) (h : loadPart cfg d i = .error e) :
    runVarC cfg i d c outs = ⟨[], outs, c, .error e⟩ := by
  unfold runVarC; rw [h]

/-- a completed variation is one complete C05 run of the consumed outcomes -/
theorem VarSpec.isVarRun {cfg : Cfg R T} {i : Nat} {start : Option (R × Nat)} {outs : List (Outcome R)}
    {v : VarRun R T} {used : List (Outcome R)}
    (hs : VarSpec cfg i (stateOf cfg.merge start) outs v used) (st : VarState R) (h : v.res = .ok st) :
    IsVarRun cfg.merge cfg.repMax (cfg.keep i) start used st :=
  ⟨(hs.done st h).1, (hs.done st h).2.1, hs.running⟩

/-- after a completed variation its file holds its final state (either discipline) -/
theorem VarSpec.final_main {cfg : Cfg R T} {i : Nat} {stf : List (Outcome R) → Option (VarState R)}
    {outs : List (Outcome R)} {v : VarRun R T} {used : List (Outcome R)}
    (hs : VarSpec cfg i stf outs v used) (st : VarState R) (h : v.res = .ok st) (d : Disk R T) :
    ((d.applyAll v.trace).part i).main = .valid (partOf cfg i st) := by
  obtain ⟨_, _, pre, hpre⟩ := hs.done st h
  rw [Disk.applyAll_part, hpre, partOps_append, partOps_saveEvs, Slot.applyAll_append,
    Slot.applyAll_saveOps_main]

end PyPhysim.C07
