import PyPhysim.Proofs.C10Bridge

/-!
Norms, power scaling and the direct-channel compensation over `ℂ`.
-/
set_option linter.unusedSectionVars false
set_option linter.unusedSimpArgs false
namespace PyPhysim.C10
open Matrix

variable {m k n : Nat}

theorem frobSq_mscale (A : Mat ℂ m n) (c : ℂ) : frobSq (mscale A c) = (c * star c) * frobSq A := by
  simp only [frobSq, sumFin_eq, mscale, Conj.conj, Finset.mul_sum, star_mul']
  refine Finset.sum_congr rfl (fun i _ => ?_)
  refine Finset.sum_congr rfl (fun j _ => ?_)
  ring

theorem frobSq_mdiv (A : Mat ℂ m n) (c : ℂ) : frobSq (mdiv A c) = frobSq A / (c * star c) := by
  simp only [frobSq, sumFin_eq, mdiv, Conj.conj, div_eq_mul_inv, Finset.sum_mul]
  refine Finset.sum_congr rfl (fun i _ => ?_)
  refine Finset.sum_congr rfl (fun j _ => ?_)
  rw [mul_inv, star_mul', star_inv₀]
  ring

/-- `np.sqrt(p)` of a non-negative real times its conjugate is `p` -/
theorem sqrt_mul_star (p : ℝ) (hp : 0 ≤ p) :
    (RSqrt.sqrt (p : ℂ) : ℂ) * star (RSqrt.sqrt (p : ℂ) : ℂ) = (p : ℂ) := by
  simp only [RSqrt.sqrt, Complex.ofReal_re]
  rw [Complex.star_def, Complex.conj_ofReal, ← Complex.ofReal_mul, Real.mul_self_sqrt hp]

/-- a matrix with squared Frobenius norm 1, scaled by `sqrt(P)`, has squared norm exactly `P` -/
theorem frobSq_scaled_unit (F : Mat ℂ m n) (P : ℝ) (hP : 0 ≤ P) (h : frobSq F = 1) :
    frobSq (mscale F (RSqrt.sqrt (P : ℂ))) = (P : ℂ) := by
  rw [frobSq_mscale, sqrt_mul_star P hP, h, mul_one]

/-- `A / ‖A‖_F` has Frobenius norm one (for `A ≠ 0`) -/
theorem frobSq_normalize (A : Mat ℂ m n) (h : frobSq A ≠ 0) : frobSq (normalize A) = 1 := by
  unfold normalize frobNorm
  rw [frobSq_mdiv]
  have hr := frobSq_real A
  set r : ℝ := ∑ i, ∑ j, Complex.normSq (A i j) with hrdef
  have hr0 : 0 ≤ r := Finset.sum_nonneg (fun i _ => Finset.sum_nonneg (fun j _ => Complex.normSq_nonneg _))
  rw [hr] at h ⊢
  rw [sqrt_mul_star r hr0]
  exact div_self h

/-- the Frobenius norm of `A / ‖A‖_F` as computed by the model is the real number one -/
theorem frobNorm_normalize (A : Mat ℂ m n) (h : frobSq A ≠ 0) : frobNorm (normalize A) = 1 := by
  unfold frobNorm
  rw [frobSq_normalize A h]
  simp [RSqrt.sqrt]

/-- `full_W_H[k] · H_kk · full_F[k] = I` : for EVERY value `X` the `solve` kernel may return
    for the system `Hieq · X = W_H[k]` with an invertible equivalent channel
    `Hieq = W_H[k] · H_kk · full_F[k]` -/
theorem filter_identity {s r t : Nat} (WH : Mat ℂ s r) (Hkk : Mat ℂ r t) (fF : Mat ℂ t s)
    (X : Mat ℂ s r) (hsolve : matMul (eqChan WH Hkk fF) X = WH)
    (hinv : IsUnit (toM (eqChan WH Hkk fF))) :
    matMul X (matMul Hkk fF) = eye := by
  apply toM_inj
  have h1 := congrArg toM hsolve
  simp only [toM_matMul, toM_eye] at h1 ⊢
  have hA : toM (eqChan WH Hkk fF) = toM WH * (toM Hkk * toM fF) := by
    simp only [eqChan, toM_matMul]
  have h2 : toM (eqChan WH Hkk fF) * (toM X * (toM Hkk * toM fF)) = toM (eqChan WH Hkk fF) * 1 := by
    rw [← Matrix.mul_assoc, h1, mul_one, hA]
  exact hinv.mul_left_cancel h2

/-- zero-forcing rows of the alternating-minimisation filter: if `G` is a left inverse of
    `[H_kk F_k | C_k]` (what `np.linalg.inv` returns), its first `Ns` rows map `H_kk F_k` to the
    identity and annihilate the interference basis `C_k` -/
theorem altMinWH_zero_forcing {nn a b : Nat} (G : Mat ℂ (a + b) nn) (HF : Mat ℂ nn a) (C : Mat ℂ nn b)
    (hinv : matMul G (hstack HF C) = eye) :
    matMul (altMinWH G) HF = eye ∧ matMul (altMinWH G) C = mzero := by
  constructor
  · funext i j
    have := congrFun (congrFun hinv (Fin.castAdd b i)) (Fin.castAdd b j)
    simp only [matMul, hstack, Fin.addCases_left, eye] at this
    simp only [matMul, altMinWH, eye]
    rw [this]
    simp [Fin.ext_iff]
  · funext i j
    have := congrFun (congrFun hinv (Fin.castAdd b i)) (Fin.natAdd a j)
    simp only [matMul, hstack, Fin.addCases_right, eye] at this
    simp only [matMul, altMinWH, mzero]
    rw [this]
    have : (Fin.castAdd b i) ≠ (Fin.natAdd a j) := by
      intro h
      have := congrArg Fin.val h
      simp at this
      omega
    simp [this]

end PyPhysim.C10
