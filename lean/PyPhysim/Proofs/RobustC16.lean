import PyPhysim.Proofs.C16Gauss
import PyPhysim.Model.CallsC16

/-!
# C16 — lemmas for the robustness classes R15 / R16

R15 (distinct values that are merely close): the error-rate curves of the model
are *strictly* decreasing in the SNR once `Q` is strictly decreasing on `[0, ∞)`
— which the Gaussian tail `Qg` is (`Qg_strictAnti`: the normal law gives positive
mass to every interval).  Hence no two SNR values, however close, share a value.

R16 (argument identity / buffer reuse): lemmas about the call machine of
`Model/CallsC16.lean`.
-/
namespace PyPhysim.C16
open MeasureTheory ProbabilityTheory Set

/-! ### strict monotonicity of the `Q` arguments -/

theorem db2lin_strictMono : StrictMono (db2lin (α := ℝ)) := by
  intro a b h
  simp only [db2lin, Fn.pow10]
  apply Real.rpow_lt_rpow_of_exponent_lt (by norm_num)
  have : ((10:Nat):ℝ) = 10 := by norm_num
  rw [this]; linarith

theorem argShape_strictMono (a b : ℝ) (ha : 0 < a) (hb : 0 < b) : StrictMono (argShape a b) := by
  intro s t h
  unfold argShape
  apply mul_lt_mul_of_pos_right _ hb
  apply Real.sqrt_lt_sqrt (mul_nonneg ha.le (db2lin_pos s).le)
  exact mul_lt_mul_of_pos_left (db2lin_strictMono h) ha

/-- `c·Q(argShape a b ·)` is strictly decreasing for `c, a, b > 0` and `Q` strictly decreasing on `[0,∞)` -/
theorem coef_Q_arg_strictAnti {Q : ℝ → ℝ} (hs : StrictAntiOn Q (Ici 0)) (c a b : ℝ) (hc : 0 < c) (ha : 0 < a)
    (hb : 0 < b) : StrictAnti (fun s => c * Q (argShape a b s)) := by
  intro s t h
  apply mul_lt_mul_of_pos_left _ hc
  exact hs (argShape_nonneg a b hb.le s) (argShape_nonneg a b hb.le t) (argShape_strictMono a b ha hb h)

theorem qamCoef_pos (M : Nat) (hM : 2 ≤ M) : 0 < qamCoef (α := ℝ) M := by
  rw [qamCoef_eq]
  have h1 : (1:ℝ) < Real.sqrt M := by
    rw [show (1:ℝ) = Real.sqrt 1 by simp]
    exact Real.sqrt_lt_sqrt (by norm_num) (by exact_mod_cast hM)
  have hpos : 0 < Real.sqrt (M:ℝ) := by linarith
  have h2 : 1 / Real.sqrt (M:ℝ) < 1 := by rw [div_lt_one hpos]; exact h1
  linarith

/-- per-carrier error rate of QAM lies in `[0,1)` (same statement as `qam_psc_bounds` of `Properties/C16.lean`,
    needed here without importing the property module) -/
theorem qam_psc_bounds_aux {Q : ℝ → ℝ} (hQ : IsQ Q) (M : Nat) (hM : 2 ≤ M) (s : ℝ) :
    0 ≤ qamPsc Q M s ∧ qamPsc Q M s < 1 := by
  have hb := Q_bounds hQ (qamArg M s) (by rw [qamArg_eq]; exact argShape_nonneg _ _ zero_le_one s)
  have hc := qamCoef_bounds M (by omega)
  simp only [qamPsc]
  constructor
  · exact mul_nonneg hc.1 hb.1
  · nlinarith [hc.1, hc.2, hb.1, hb.2]

/-! ### the Gaussian tail is strictly decreasing -/

theorem gaussian_Ioc_pos {x y : ℝ} (h : x < y) : 0 < (gaussianReal 0 1).real (Ioc x y) := by
  have hne : (gaussianReal 0 1) (Ioc x y) ≠ 0 := by
    intro h0
    have hv : (volume : Measure ℝ) (Ioc x y) = 0 :=
      gaussianReal_absolutelyContinuous' 0 (one_ne_zero) h0
    rw [Real.volume_Ioc] at hv
    have : y - x ≤ 0 := by simpa using ENNReal.ofReal_eq_zero.mp hv
    linarith
  exact ENNReal.toReal_pos hne (measure_ne_top _ _)

theorem Qg_strictAnti : StrictAnti Qg := by
  intro x y h
  have hsplit : Ioi x = Ioc x y ∪ Ioi y := (Ioc_union_Ioi_eq_Ioi h.le).symm
  have hd : Disjoint (Ioc x y) (Ioi y) := by
    rw [Set.disjoint_left]; intro z hz hz'; exact absurd hz.2 (not_le.mpr hz')
  unfold Qg
  rw [hsplit, measureReal_union hd measurableSet_Ioi]
  linarith [gaussian_Ioc_pos h]

/-! ### packet error rate: strict in the length and in the bit error rate -/

theorem per_strict_length (b : ℝ) (h0 : 0 < b) (h1 : b < 1) : StrictMono (fun L : Nat => per b L) := by
  intro L₁ L₂ h
  have e1 : ((1:Nat):ℝ) = 1 := by norm_num
  simp only [per, powNat_eq, e1]
  have : (1 - b) ^ L₂ < (1 - b) ^ L₁ := pow_lt_pow_right_of_lt_one₀ (by linarith [h1]) (by linarith [h0]) h
  linarith

theorem per_strict_ber (L : Nat) (hL : 1 ≤ L) (a b : ℝ) (hab : a < b) (h1 : b ≤ 1) :
    per a L < per b L := by
  have e1 : ((1:Nat):ℝ) = 1 := by norm_num
  simp only [per, powNat_eq, e1]
  have : (1 - b) ^ L < (1 - a) ^ L := pow_lt_pow_left₀ (by linarith) (by linarith) (by omega)
  linarith

/-! ### the call machine -/

section
variable {α : Type} [Sub α] [Mul α] [NatCast α]

theorem run_append (m : Curves α) (st : St α) (o₁ o₂ : List (Op α)) :
    run m st (o₁ ++ o₂) = run m (run m st o₁) o₂ := by
  simp [run, List.foldl_append]

theorem run_results_extend (m : Curves α) (ops : List (Op α)) :
    ∀ st : St α, ∃ more, (run m st ops).2 = st.2 ++ more := by
  induction ops with
  | nil => intro st; exact ⟨[], by simp [run]⟩
  | cons o os ih =>
    intro st
    obtain ⟨buf, outs⟩ := st
    cases o with
    | refill v =>
      obtain ⟨more, h⟩ := ih (v, outs)
      exact ⟨more, by simpa [run, step] using h⟩
    | call c =>
      obtain ⟨more, h⟩ := ih (buf, outs ++ [evalCall m c buf])
      refine ⟨evalCall m c buf :: more, ?_⟩
      have : run m (buf, outs) (Op.call c :: os) = run m (buf, outs ++ [evalCall m c buf]) os := by
        simp [run, step]
      rw [this, h]; simp
end

end PyPhysim.C16
