import Mathlib.Algebra.Field.Basic
import PyPhysim.Proofs.C02Index

/-!
C02 — structure of the emitted signal and the round trip, for any transform
kernels satisfying the stated contract.
-/
set_option linter.unusedSectionVars false
namespace PyPhysim.C02
open PyPhysim.Proto

/-- Contract of the two external kernels at transform size `N`:
    both return `N` values, `fft(ifft(v)) = v` on vectors of `N` values, and the
    forward transform is homogeneous. (`np.fft` is checked against it numerically;
    the textbook transforms are proved to satisfy it in `Proofs/C02Dft`.) -/
structure KernelPair {α : Type} [Mul α] (N : Nat) (F Finv : Nat → List α → List α) : Prop where
  len_inv : ∀ v, (Finv N v).length = N
  len_fwd : ∀ v, (F N v).length = N
  inv : ∀ v, v.length = N → F N (Finv N v) = v
  homog : ∀ (c : α) v, v.length = N → F N (v.map (fun a => c * a)) = (F N v).map (fun a => c * a)

theorem mapM_map_ok {β γ : Type} (f : γ → Except PyErr β) (g : β → γ) (l : List β)
    (h : ∀ a ∈ l, f (g a) = .ok a) : (l.map g).mapM f = .ok l := by
  induction l with
  | nil => rfl
  | cons a t ih =>
    rw [List.map_cons, List.mapM_cons, h a (by simp), ih (fun b hb => h b (by simp [hb]))]
    rfl

section
variable {α : Type} [Zero α]

theorem padded_length (p : Params) (hp : p.Valid) (x : List α) :
    (x ++ List.replicate (p.used * numSymbols p x.length - x.length) (0 : α)).length
      = numSymbols p x.length * p.used := by
  have h := (zeropad_spec p hp x.length).1
  unfold zeropad at h
  rw [List.length_append, List.length_replicate, h, Nat.mul_comm]

theorem prepare_length (p : Params) (x : List α) : (prepare p x).length = numSymbols p x.length := by
  simp [prepare, rows_length]

theorem prepare_row_length (p : Params) (x : List α) : ∀ X ∈ prepare p x, X.length = p.fft := by
  intro X hX
  simp only [prepare, List.mem_map] at hX
  obtain ⟨r, _, rfl⟩ := hX
  exact scatter_length _ _ _

/-- **guard carriers**: every position of an IFFT input row that is not a used index holds `0` -/
theorem prepare_zero_off_used (p : Params) (x : List α) (X : List α) (hX : X ∈ prepare p x)
    (j : Nat) (hj : j < p.fft) (hn : j ∉ usedIdx p.fft p.used) : X[j]? = some 0 := by
  simp only [prepare, List.mem_map] at hX
  obtain ⟨r, _, rfl⟩ := hX
  exact scatter_not_mem _ _ _ _ hj hn

/-- reading the used positions of the prepared rows back returns the zero-padded input -/
theorem unprepare_prepare (p : Params) (hp : p.Valid) (x : List α) :
    unprepare p (prepare p x)
      = .ok (x ++ List.replicate (zeropad p x.length) 0) := by
  unfold unprepare prepare
  have hlen := padded_length p hp x
  rw [mapM_map_ok]
  · simp only [Except.map]
    rw [flatten_rows _ _ _ hlen]
    rfl
  · intro r hr
    have hr' := rows_row_length p.used _ _ (Nat.le_of_eq hlen.symm) r hr
    apply gather_scatter _ _ _ (usedIdx_nodup p hp)
    · rw [usedIdx_length _ _ hp.2.2.1, hr']
    · exact usedIdx_lt p hp

end

section
variable {α : Type} [Zero α] [Add α] [Mul α] [Div α]

/-- the emitted signal as a list of blocks, one per OFDM symbol -/
def blocks (ifftK : Nat → List α → List α) (s : α) (p : Params) (x : List α) : List (List α) :=
  (prepare p x).map (fun X => addCP p.cp ((ifftK p.fft X).map (fun v => s * v)))

theorem modulate_eq_flatten (ifftK : Nat → List α → List α) (s : α) (p : Params) (x : List α) :
    modulate ifftK s p x = (blocks ifftK s p x).flatten := rfl

theorem blocks_length (ifftK : Nat → List α → List α) (s : α) (p : Params) (x : List α) :
    (blocks ifftK s p x).length = numSymbols p x.length := by
  simp [blocks, prepare_length]

theorem blocks_row_length (ifftK : Nat → List α → List α) (s : α) (p : Params) (hp : p.Valid)
    (hk : ∀ v, (ifftK p.fft v).length = p.fft) (x : List α) :
    ∀ b ∈ blocks ifftK s p x, b.length = p.fft + p.cp := by
  intro b hb
  simp only [blocks, List.mem_map] at hb
  obtain ⟨X, _, rfl⟩ := hb
  rw [addCP_length]
  · simp [hk]
  · simp [hk]; exact hp.1

/-- **length**: `(fft + cp)` samples per OFDM symbol, `⌈n / used⌉` symbols -/
theorem modulate_length' (ifftK : Nat → List α → List α) (s : α) (p : Params) (hp : p.Valid)
    (hk : ∀ v, (ifftK p.fft v).length = p.fft) (x : List α) :
    (modulate ifftK s p x).length = numSymbols p x.length * (p.fft + p.cp) := by
  rw [modulate_eq_flatten, length_flatten_uniform _ _ (blocks_row_length ifftK s p hp hk x), blocks_length]

/-- **cyclic prefix**: sample `i < cp` of every symbol equals sample `fft + i` of the same symbol -/
theorem cp_is_tail_copy' (ifftK : Nat → List α → List α) (s : α) (p : Params) (hp : p.Valid)
    (hk : ∀ v, (ifftK p.fft v).length = p.fft) (x : List α) (r i : Nat)
    (hr : r < numSymbols p x.length) (hi : i < p.cp) :
    (modulate ifftK s p x)[r * (p.fft + p.cp) + i]?
      = (modulate ifftK s p x)[r * (p.fft + p.cp) + (p.fft + i)]? ∧
    (modulate ifftK s p x)[r * (p.fft + p.cp) + i]? ≠ none := by
  have hrow := blocks_row_length ifftK s p hp hk x
  rw [modulate_eq_flatten, getElem?_flatten_uniform _ _ hrow r i (by omega),
    getElem?_flatten_uniform _ _ hrow r (p.fft + i) (by omega)]
  have hbl := blocks_length ifftK s p x
  obtain ⟨b, hb⟩ : ∃ b, (blocks ifftK s p x)[r]? = some b := by
    exact ⟨_, List.getElem?_eq_getElem (by omega)⟩
  rw [hb]
  simp only [Option.bind_some]
  have hbm : b ∈ blocks ifftK s p x := List.mem_of_getElem? hb
  have hblen := hrow b hbm
  simp only [blocks, List.mem_map] at hbm
  obtain ⟨X, _, rfl⟩ := hbm
  have ht : ((ifftK p.fft X).map (fun v => s * v)).length = p.fft := by simp [hk]
  generalize (ifftK p.fft X).map (fun v => s * v) = t at *
  have hcp : p.cp ≤ p.fft := hp.1
  constructor
  · unfold addCP
    rw [if_pos (by omega)]
    rw [List.getElem?_append, List.getElem?_append]
    simp only [List.length_drop, ht]
    rw [if_pos (by omega), if_neg (by omega), List.getElem?_drop]
    congr 1
    omega
  · intro hnone
    rw [List.getElem?_eq_none_iff] at hnone
    omega

end

section field
variable {K : Type} [Field K]

/-- what the receiver's FFT sees of each emitted symbol: `fft(body) = s · X` -/
theorem kernel_undo (N : Nat) (F Finv : Nat → List K → List K) (hK : KernelPair N F Finv)
    (s : K) (hs : s ≠ 0) (X : List K) (hX : X.length = N) :
    (F N ((Finv N X).map (fun v => s * v))).map (fun v => v / s) = X := by
  rw [hK.homog s _ (hK.len_inv X), hK.inv X hX, List.map_map]
  conv => rhs; rw [← List.map_id X]
  apply List.map_congr_left
  intro a _
  simp only [Function.comp, id]
  exact mul_div_cancel_left₀ a hs

/-- **round trip** for any kernel pair satisfying the contract and any non-zero scale -/
theorem ofdm_roundtrip' (p : Params) (hp : p.Valid) (F Finv : Nat → List K → List K)
    (hK : KernelPair p.fft F Finv) (s : K) (hs : s ≠ 0) (x : List K) :
    demodulate F s p (modulate Finv s p x) = .ok (x ++ List.replicate (zeropad p x.length) 0) := by
  have hrow := blocks_row_length Finv s p hp hK.len_inv x
  have hbl := blocks_length Finv s p x
  have hw : p.fft + p.cp ≠ 0 := by have := hp.2.2.2; have := hp.2.1; omega
  unfold demodulate removeCP
  simp only
  rw [if_neg hw, modulate_eq_flatten, length_flatten_uniform _ _ hrow, hbl,
    Nat.mul_div_cancel _ (Nat.pos_of_ne_zero hw)]
  rw [if_neg (by simp)]
  simp only
  have hrf := rows_flatten _ _ hrow
  rw [hbl] at hrf
  rw [hrf]
  have : ((blocks Finv s p x).map (fun r => r.drop p.cp)).map
        (fun r => (F p.fft r).map (fun v => v / s)) = prepare p x := by
    unfold blocks
    rw [List.map_map, List.map_map]
    conv => rhs; rw [← List.map_id (prepare p x)]
    apply List.map_congr_left
    intro X hX
    simp only [Function.comp, id]
    rw [drop_addCP _ _ (by simp [hK.len_inv]; exact hp.1)]
    exact kernel_undo _ F Finv hK s hs X (prepare_row_length p x X hX)
  rw [this]
  exact unprepare_prepare p hp x

end field
end PyPhysim.C02
