import PyPhysim.Proofs.C18Occ

/-!
C18 — superposition of several users and several receive antennas.
-/
set_option linter.unusedSectionVars false
namespace PyPhysim.C18P
open PyPhysim.Cazac PyPhysim.Proto Finset

variable {F : Type} [Field F] [CisOps F]

/-- the all-zero frequency response -/
def zerosL (M : ℕ) : List F := (List.range M).map (fun _ => (0 : F))

theorem addL_zeros (E : List F) (M : ℕ) (hE : E.length = M) : addL E (zerosL M) = E := by
  rw [list_eq_map_range E M hE]
  unfold zerosL
  rw [addL_map_range]
  apply map_range_congr
  intro i _
  rw [add_zero]

/-- **Several users**: if the estimator returns `E0` on the observation of the
    user of interest and the all-zero response on each of the other users'
    observations, it returns `E0` on their superposition. -/
theorem estimate1_superposition (r Y0 E0 : List F) (nrm : Bool) (m K : ℕ) (hm : 0 < m) (hN : 0 < r.length)
    (Ys : List (List F)) (hY0 : Y0.length = r.length) (hE0 : E0.length = m * r.length)
    (h0 : estimate1 r nrm m Y0 K = .ok E0)
    (hYs : ∀ Y ∈ Ys, Y.length = r.length ∧ estimate1 r nrm m Y K = .ok (zerosL (m * r.length))) :
    estimate1 r nrm m (Ys.foldl addL Y0) K = .ok E0 := by
  induction Ys generalizing Y0 with
  | nil => exact h0
  | cons Y rest ih =>
    rw [List.foldl_cons]
    obtain ⟨hYl, hYe⟩ := hYs Y (by simp)
    apply ih
    · rw [addL_length, hY0, hYl, Nat.min_self]
    · have := estimate1_add r Y0 Y E0 (zerosL (m * r.length)) nrm m K hm hN hY0 hYl h0 hYe
      rw [addL_zeros E0 _ hE0] at this
      exact this
    · intro Y' hY'
      exact hYs Y' (by simp [hY'])

/-- **Several antennas** (2-D observation): row-wise application. -/
theorem estimateRows_ok {α : Type} (r : List F) (nrm : Bool) (m K : ℕ) (as : List α)
    (obs : α → List F) (res : α → List F)
    (h : ∀ a ∈ as, estimate1 r nrm m (obs a) K = .ok (res a)) :
    estimateRows r nrm m (as.map obs) K = .ok (as.map res) := by
  unfold estimateRows
  exact mapM_map_ok _ obs res as h

/-- same for the cover-code estimator (3-D observation) -/
theorem estimateOccRows_ok {α : Type} (ue : UeSeq F) (K : ℕ) (as : List α)
    (obs : α → List (List F)) (res : α → List F)
    (h : ∀ a ∈ as, estimateOcc1 ue (obs a) K = .ok (res a)) :
    estimateOccRows ue (as.map obs) K = .ok (as.map res) := by
  unfold estimateOccRows
  exact mapM_map_ok _ obs res as h

end PyPhysim.C18P
