import PyPhysim.Proofs.C18Occ

/-!
C18 — superposition of several users and several receive antennas.
-/
set_option linter.unusedSectionVars false
namespace PyPhysim.C18P
open PyPhysim.Cazac PyPhysim.Proto Finset

variable {F : Type} [Field F] [CisOps F]

/-- the all-zero frequency response -/
def zerosL (M : ℕ) : List F := (List.range M).map (fun _ => (0 : F))

theorem addL_zeros (E : List F) (M : ℕ) (hE : E.length = M) : addL E (zerosL M) = E := by
  rw [list_eq_map_range E M hE]
  unfold zerosL
  rw [addL_map_range]
  apply map_range_congr
  intro i _
  rw [add_zero]

/-- **Several users**: if the estimator returns `E0` on the observation of the
    user of interest and the all-zero response on each of the other users'
    observations, it returns `E0` on their superposition. -/
theorem estimate1_superposition (r Y0 E0 : List F) (nrm : Bool) (m K : ℕ) (hm : 0 < m) (hN : 0 < r.length)
    (Ys : List (List F)) (hY0 : Y0.length = r.length) (hE0 : E0.length = m * r.length)
    (h0 : estimate1 r nrm m Y0 K = .ok E0)
    (hYs : ∀ Y ∈ Ys, Y.length = r.length ∧ estimate1 r nrm m Y K = .ok (zerosL (m * r.length))) :
    estimate1 r nrm m (Ys.foldl addL Y0) K = .ok E0 := by
  induction Ys generalizing Y0 with
  | nil => exact h0
  | cons Y rest ih =>
    rw [List.foldl_cons]
    obtain ⟨hYl, hYe⟩ := hYs Y (by simp)
    apply ih
    · rw [addL_length, hY0, hYl, Nat.min_self]
    · have := estimate1_add r Y0 Y E0 (zerosL (m * r.length)) nrm m K hm hN hY0 hYl h0 hYe
      rw [addL_zeros E0 _ hE0] at this
      exact this
    · intro Y' hY'
      exact hYs Y' (by simp [hY'])

/-- **Several antennas** (2-D observation): row-wise application. -/
theorem estimateRows_ok {α : Type} (r : List F) (nrm : Bool) (m K : ℕ) (as : List α)
    (obs : α → List F) (res : α → List F)
    (h : ∀ a ∈ as, estimate1 r nrm m (obs a) K = .ok (res a)) :
    estimateRows r nrm m (as.map obs) K = .ok (as.map res) := by
  unfold estimateRows
  exact mapM_map_ok _ obs res as h

/-- same for the cover-code estimator (3-D observation) -/
theorem estimateOccRows_ok {α : Type} (ue : UeSeq F) (K : ℕ) (as : List α)
    (obs : α → List (List F)) (res : α → List F)
    (h : ∀ a ∈ as, estimateOcc1 ue (obs a) K = .ok (res a)) :
    estimateOccRows ue (as.map obs) K = .ok (as.map res) := by
  unfold estimateOccRows
  exact mapM_map_ok _ obs res as h

section
variable (L : CisLaws F) [CharZero F]
include L
local notation "conj" => (CisOps.conj : F → F)

/-- **Multi-user exactness** (plain / comb estimator), generic scalar field. -/
theorem ue_estimate_exact_multiuser (ph p0 : List ℚ) (c0 D t : ℕ) (nrm : Bool) (nu : F)
    (h0 : List F) (m K : ℕ) (others : List (ℕ × List ℚ × List F))
    (hm : 0 < m) (hD : 0 < D) (ht : 0 < t) (hN : ph.length = D * t)
    (hs0 : shiftedPhases ph c0 D = .ok p0)
    (hnu : nrm = true → conj nu = nu ∧ nu * nu = (ph.length : F))
    (hfit : h0.length ≤ K + 1) (hK : K + 1 ≤ t)
    (hothers : ∀ o ∈ others, o.1 ≠ c0 ∧ shiftedPhases ph o.1 D = .ok o.2.1 ∧ o.2.2.length ≤ t) :
    estimate1 (rowOf (seqValues p0 : List F) nrm nu) nrm m
        ((others.map (fun o => observe (fftPad o.2.2 (m * ph.length)) m
            (rowOf (seqValues o.2.1 : List F) nrm nu))).foldl addL
          (observe (fftPad h0 (m * ph.length)) m (rowOf (seqValues p0 : List F) nrm nu))) K
      = .ok (fftPad h0 (m * ph.length)) := by
  have hNpos : 0 < ph.length := by rw [hN]; exact Nat.mul_pos hD ht
  have hc0 : c0 < D := by
    unfold shiftedPhases at hs0
    by_contra hc; rw [if_neg hc] at hs0; cases hs0
  have hp0 : p0.length = ph.length := by
    rw [shiftedPhases_ok ph c0 D hc0] at hs0
    injection hs0 with hs0
    rw [← hs0]; simp
  have hr : (rowOf (seqValues p0 : List F) nrm nu).length = ph.length := by
    rw [rowOf_length, seqValues_length, hp0]
  have hh0 : h0.length ≤ p0.length := by
    rw [hp0, hN]
    exact Nat.le_trans (Nat.le_trans hfit hK) (Nat.le_mul_of_pos_left _ hD)
  have hown := ue_estimate_exact L p0 nrm nu h0 m K hm (by rw [hp0]; exact hNpos)
    (by rw [hp0]; exact hnu) hfit hh0
  rw [hp0] at hown
  have key := estimate1_superposition (rowOf (seqValues p0 : List F) nrm nu)
    (observe (fftPad h0 (m * ph.length)) m (rowOf (seqValues p0 : List F) nrm nu))
    (fftPad h0 (m * ph.length)) nrm m K hm
    (by rw [hr]; exact hNpos)
    (others.map (fun o => observe (fftPad o.2.2 (m * ph.length)) m
            (rowOf (seqValues o.2.1 : List F) nrm nu)))
    (by rw [observe_length]) (by rw [fftPad_length, hr]) hown
    (by
      intro Y hY
      obtain ⟨o, ho, rfl⟩ := List.mem_map.mp hY
      obtain ⟨hne, hso, hlo⟩ := hothers o ho
      have hco : o.1 < D := by
        unfold shiftedPhases at hso
        by_contra hc; rw [if_neg hc] at hso; cases hso
      have hpo : o.2.1.length = ph.length := by
        rw [shiftedPhases_ok ph o.1 D hco] at hso
        injection hso with hso
        rw [← hso]; simp
      refine ⟨by rw [observe_length, rowOf_length, seqValues_length, hpo, hr], ?_⟩
      rw [hr]
      exact ue_estimate_reject L ph p0 o.2.1 c0 o.1 D t nrm nu o.2.2 m K hm hD ht hN hs0 hso
        (fun h => hne h.symm) hnu hK hlo)
  exact key

end

end PyPhysim.C18P
