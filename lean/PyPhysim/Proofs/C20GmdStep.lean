import Mathlib.Analysis.SpecialFunctions.Sqrt
import Mathlib.Tactic.FieldSimp
import Mathlib.Tactic.Linarith
import Mathlib.Tactic.Ring
import PyPhysim.Model.C20Gmd
import PyPhysim.Proofs.C20Real

/-!
The algebra of one Givens step of `gmd` over `ℝ`.
-/
set_option linter.unusedSectionVars false
namespace PyPhysim.LinAlg.Pf

/-- the two facts about the rotation parameters everything else follows from -/
theorem gmdCS_spec (sb d1 d2 : ℝ) (hsb : 0 < sb)
    (h : (0 ≤ d2 ∧ d2 < sb ∧ sb ≤ d1) ∨ (0 ≤ d1 ∧ d1 < sb ∧ sb ≤ d2)) :
    (gmdCS false sb d1 d2).1 ^ 2 + (gmdCS false sb d1 d2).2 ^ 2 = 1 ∧
    (gmdCS false sb d1 d2).1 ^ 2 * d1 ^ 2 + (gmdCS false sb d1 d2).2 ^ 2 * d2 ^ 2 = sb ^ 2 := by
  have hden : d1 * d1 - d2 * d2 ≠ 0 := by
    rcases h with ⟨h0, h1, h2⟩ | ⟨h0, h1, h2⟩
    · have : d2 * d2 < d1 * d1 := by nlinarith
      linarith
    · have : d1 * d1 < d2 * d2 := by nlinarith
      linarith
  set t : ℝ := (sb * sb - d2 * d2) / (d1 * d1 - d2 * d2) with ht
  have ht0 : 0 ≤ t := by
    rcases h with ⟨h0, h1, h2⟩ | ⟨h0, h1, h2⟩
    · apply div_nonneg <;> nlinarith
    · apply div_nonneg_of_nonpos <;> nlinarith
  have ht1 : t ≤ 1 := by
    rcases h with ⟨h0, h1, h2⟩ | ⟨h0, h1, h2⟩
    · rw [ht, div_le_one (by nlinarith)]; nlinarith
    · rw [ht, div_le_one_of_neg (by nlinarith)]; nlinarith
  have hc : (gmdCS false sb d1 d2).1 = Real.sqrt t := rfl
  have hs : (gmdCS false sb d1 d2).2 = Real.sqrt (1 - Real.sqrt t * Real.sqrt t) := rfl
  have hc2 : (gmdCS false sb d1 d2).1 ^ 2 = t := by rw [hc, Real.sq_sqrt ht0]
  have hs2 : (gmdCS false sb d1 d2).2 ^ 2 = 1 - t := by
    rw [hs, Real.mul_self_sqrt ht0, Real.sq_sqrt (by linarith)]
  refine ⟨by rw [hc2, hs2]; ring, ?_⟩
  rw [hc2, hs2]
  have : t * (d1 * d1 - d2 * d2) = sb * sb - d2 * d2 := by
    rw [ht]; exact div_mul_cancel₀ _ hden
  nlinarith

/-- all matrix identities of one step are polynomial consequences of
    `c² + s² = 1` and `c² δ1² + s² δ2² = σ̄²` -/
theorem gmd_step_identities (sb d1 d2 c s : ℝ) (hsb : sb ≠ 0) (h1 : c ^ 2 + s ^ 2 = 1)
    (h2 : c ^ 2 * d1 ^ 2 + s ^ 2 * d2 ^ 2 = sb ^ 2) :
    let g := gmdG1 c s
    let h := gmdG2 sb d1 d2 c s
    -- G1ᵀ G1 = 1
    (g.1 * g.1 + g.2.2.1 * g.2.2.1 = 1 ∧ g.2.1 * g.2.1 + g.2.2.2 * g.2.2.2 = 1 ∧
      g.1 * g.2.1 + g.2.2.1 * g.2.2.2 = 0) ∧
    -- G2ᵀ G2 = 1
    (h.1 * h.1 + h.2.2.1 * h.2.2.1 = 1 ∧ h.2.1 * h.2.1 + h.2.2.2 * h.2.2.2 = 1 ∧
      h.1 * h.2.1 + h.2.2.1 * h.2.2.2 = 0) ∧
    -- G2ᵀ diag(δ1, δ2) G1 = [[σ̄, x], [0, y]]
    (h.1 * d1 * g.1 + h.2.2.1 * d2 * g.2.2.1 = sb ∧
      h.1 * d1 * g.2.1 + h.2.2.1 * d2 * g.2.2.2 = gmdX sb d1 d2 c s ∧
      h.2.1 * d1 * g.1 + h.2.2.2 * d2 * g.2.2.1 = 0 ∧
      h.2.1 * d1 * g.2.1 + h.2.2.2 * d2 * g.2.2.2 = gmdY sb d1 d2) := by
  simp only [gmdG1, gmdG2, gmdX, gmdY]
  have e1 : c * c + s * s = 1 := by nlinarith
  have e2 : c * d1 * (c * d1) + s * d2 * (s * d2) = sb * sb := by nlinarith
  refine ⟨⟨e1, by nlinarith, by ring⟩, ⟨?_, ?_, ?_⟩, ⟨?_, ?_, ?_, ?_⟩⟩
  · field_simp; nlinarith
  · field_simp; nlinarith
  · field_simp; ring
  · field_simp; nlinarith
  · field_simp; ring
  · field_simp; ring
  · field_simp
    have : s * s * (d1 * d2) + c * c * (d1 * d2) = d1 * d2 := by
      calc s * s * (d1 * d2) + c * c * (d1 * d2) = (c * c + s * s) * (d1 * d2) := by ring
        _ = d1 * d2 := by rw [e1, one_mul]
    nlinarith

end PyPhysim.LinAlg.Pf

namespace PyPhysim.LinAlg
/-- columns of a model matrix, as the `gmd` model takes them -/
def colsOf {α : Type} {r c : Nat} (M : Mat α r c) : Array (Array α) :=
  Array.ofFn (fun j : Fin c => Array.ofFn (fun i : Fin r => M i j))
/-- entry `(i, j)` of a matrix stored by columns / by rows (zero outside) -/
def entryCols {α : Type} [Zero α] (M : Array (Array α)) (i j : Nat) : α := ((M[j]?).getD #[])[i]?.getD 0
def entryRows {α : Type} [Zero α] (M : Array (Array α)) (i j : Nat) : α := ((M[i]?).getD #[])[j]?.getD 0
end PyPhysim.LinAlg
