import Mathlib.Tactic.Ring
import Mathlib.Tactic.Linarith
import PyPhysim.Proofs.GrayGenerated

/-! What the QAM labelling would satisfy with the inverse map (`gray2binary`) in
`_calculateGrayMappingIndexQAM`: grid neighbours differ in one bit, for every `L = 2^k`. -/
namespace PyPhysim.Gray

theorem xor_same_high (k a x y : Nat) (hx : x < 2^k) (hy : y < 2^k) :
    (2^k * a + x) ^^^ (2^k * a + y) = x ^^^ y := by
  apply Nat.eq_of_testBit_eq
  intro j
  rw [Nat.testBit_xor, Nat.testBit_xor, Nat.testBit_two_pow_mul_add a hx, Nat.testBit_two_pow_mul_add a hy]
  by_cases hj : j < k
  · simp [hj]
  · simp only [hj, if_false, Bool.xor_self]
    have h1 : x.testBit j = false := testBit_high hx (by omega)
    have h2 : y.testBit j = false := testBit_high hy (by omega)
    simp [h1, h2]

theorem xor_same_low (k a b x : Nat) (hx : x < 2^k) :
    (2^k * a + x) ^^^ (2^k * b + x) = 2^k * (a ^^^ b) := by
  apply Nat.eq_of_testBit_eq
  intro j
  rw [Nat.testBit_xor, Nat.testBit_two_pow_mul_add a hx, Nat.testBit_two_pow_mul_add b hx]
  have : 2^k * (a ^^^ b) = 2^k * (a ^^^ b) + 0 := by omega
  rw [this, Nat.testBit_two_pow_mul_add (a ^^^ b) (Nat.two_pow_pos k)]
  by_cases hj : j < k
  · simp [hj]
  · simp [hj, Nat.testBit_xor]

theorem hamming_step (p : Nat) : hamming (b2g p) (b2g (p+1)) = 1 := by
  obtain ⟨j, hj⟩ := b2g_succ_one_bit p
  simp [hamming, hj, popcount_two_pow]

theorem hamming_comm (a b : Nat) : hamming a b = hamming b a := by simp [hamming, Nat.xor_comm]

/-- with `conv = gray2binary`, label `l` sits at grid cell `(g2b (l/L), g2b (l%L))`; two labels on
    Manhattan-adjacent cells differ in exactly one bit -/
theorem qam_gray_inverse_map (k : Nat) (hk : k ≤ 64) (l₁ l₂ : Nat)
    (h₁ : l₁ < 2^k * 2^k) (h₂ : l₂ < 2^k * 2^k)
    (hadj : gridAdjacent (2^k) (qamPos (g2bWith (descPows 6)) k (2^k) l₁)
      (qamPos (g2bWith (descPows 6)) k (2^k) l₂) = true) :
    hamming l₁ l₂ = 1 := by
  have hL : 0 < 2^k := Nat.two_pow_pos k
  have h64 : (2:Nat)^k ≤ 2^64 := Nat.pow_le_pow_right (by norm_num) hk
  set g := g2bWith (descPows 6) with hg
  have glt : ∀ x, x < 2^k → g x < 2^k := fun x hx => g2b_lt 6 x k hx
  have inv : ∀ x, x < 2^k → b2g (g x) = x := fun x hx => b2g_g2b 6 x (by simp; omega)
  have r₁ : l₁ / 2^k < 2^k := Nat.div_lt_of_lt_mul h₁
  have r₂ : l₂ / 2^k < 2^k := Nat.div_lt_of_lt_mul h₂
  have c₁ : l₁ % 2^k < 2^k := Nat.mod_lt _ hL
  have c₂ : l₂ % 2^k < 2^k := Nat.mod_lt _ hL
  have pos : ∀ l, l < 2^k * 2^k → l / 2^k < 2^k →
      qamPos g k (2^k) l / 2^k = g (l / 2^k) ∧ qamPos g k (2^k) l % 2^k = g (l % 2^k) := by
    intro l _ hr
    simp only [qamPos, Nat.shiftLeft_eq]
    have hc := glt (l % 2^k) (Nat.mod_lt _ hL)
    constructor
    · rw [Nat.mul_comm, Nat.mul_add_div hL, Nat.div_eq_of_lt hc, Nat.add_zero]
    · rw [Nat.mul_comm, Nat.mul_add_mod, Nat.mod_eq_of_lt hc]
  obtain ⟨pr₁, pc₁⟩ := pos l₁ h₁ r₁
  obtain ⟨pr₂, pc₂⟩ := pos l₂ h₂ r₂
  have e₁ : l₁ = 2^k * (l₁ / 2^k) + l₁ % 2^k := (Nat.div_add_mod l₁ (2^k)).symm
  have e₂ : l₂ = 2^k * (l₂ / 2^k) + l₂ % 2^k := (Nat.div_add_mod l₂ (2^k)).symm
  simp only [gridAdjacent, pr₁, pr₂, pc₁, pc₂, Bool.or_eq_true, Bool.and_eq_true, beq_iff_eq] at hadj
  -- labels in terms of the cells
  have lr₁ := inv _ r₁; have lr₂ := inv _ r₂; have lc₁ := inv _ c₁; have lc₂ := inv _ c₂
  rcases hadj with ⟨hrow, hcol⟩ | ⟨hcol, hrow⟩
  · -- same row, neighbouring columns
    have hr : l₁ / 2^k = l₂ / 2^k := by rw [← lr₁, ← lr₂, hrow]
    have hc1 : hamming (l₁ % 2^k) (l₂ % 2^k) = 1 := by
      rcases hcol with h | h
      · rw [← lc₁, ← lc₂, ← h]; exact hamming_step _
      · rw [← lc₁, ← lc₂, ← h, hamming_comm]; exact hamming_step _
    rw [e₁, e₂, hr]
    unfold hamming at *
    rw [xor_same_high k _ _ _ c₁ c₂]; exact hc1
  · -- same column, neighbouring rows
    have hc : l₁ % 2^k = l₂ % 2^k := by rw [← lc₁, ← lc₂, hcol]
    have hr1 : hamming (l₁ / 2^k) (l₂ / 2^k) = 1 := by
      rcases hrow with h | h
      · rw [← lr₁, ← lr₂, ← h]; exact hamming_step _
      · rw [← lr₁, ← lr₂, ← h, hamming_comm]; exact hamming_step _
    rw [e₁, e₂, hc]
    unfold hamming at *
    rw [xor_same_low k _ _ _ c₂]
    -- popcount (2^k * z) = popcount z when z is a power of two
    have : ∃ j, (l₁ / 2^k) ^^^ (l₂ / 2^k) = 2^j := by
      rcases hrow with h | h
      · obtain ⟨j, hj⟩ := b2g_succ_one_bit (g (l₁ / 2^k))
        exact ⟨j, by rw [← lr₁, ← lr₂, ← h]; exact hj⟩
      · obtain ⟨j, hj⟩ := b2g_succ_one_bit (g (l₂ / 2^k))
        exact ⟨j, by rw [← lr₁, ← lr₂, ← h, Nat.xor_comm]; exact hj⟩
    obtain ⟨j, hj⟩ := this
    rw [hj, ← pow_add, popcount_two_pow]

end PyPhysim.Gray
