import PyPhysim.Model.C18
namespace PyPhysim.C18P
open PyPhysim.Cazac PyPhysim.Proto

theorem flatten_replicate_length {β} (root : List β) (k : Nat) :
    ((List.replicate k root).flatten).length = k * root.length := by
  induction k with
  | zero => simp
  | succ k ih => rw [List.replicate_succ, List.flatten_cons, List.length_append, ih]; rw [Nat.succ_mul]; omega

theorem flatten_replicate_getElem? {β} (root : List β) (k i : Nat) (h : i < k * root.length) :
    ((List.replicate k root).flatten)[i]? = root[i % root.length]? := by
  induction k generalizing i with
  | zero => simp at h
  | succ k ih =>
    rw [List.replicate_succ, List.flatten_cons]
    by_cases hi : i < root.length
    · rw [List.getElem?_append_left hi, Nat.mod_eq_of_lt hi]
    · have hi' : root.length ≤ i := Nat.le_of_not_lt hi
      rw [List.getElem?_append_right hi', ih (i - root.length) (by rw [Nat.succ_mul] at h; omega)]
      rw [Nat.mod_eq_sub_mod hi']

theorem extendedZF_spec {β} (root : List β) (size : Nat) (hn : 0 < root.length)
    (hs : root.length ≤ size) :
    ∃ l, extendedZF root size = .ok l ∧ l.length = size ∧
      ∀ i, i < size → l[i]? = root[i % root.length]? := by
  unfold extendedZF
  by_cases hb : size > 2 * root.length
  · simp only [hb, if_true, Nat.ne_of_gt hn, if_false]
    have hdm := Nat.div_add_mod size root.length
    have hml := Nat.mod_lt size hn
    have hc : size / root.length * root.length = root.length * (size / root.length) := Nat.mul_comm _ _
    have hsub : size - root.length * (size / root.length) = size % root.length := by omega
    refine ⟨_, rfl, ?_, ?_⟩
    · rw [List.length_append, flatten_replicate_length, List.length_take, hsub]
      omega
    · intro i hi
      by_cases h1 : i < (size / root.length) * root.length
      · rw [List.getElem?_append_left (by rw [flatten_replicate_length]; exact h1)]
        exact flatten_replicate_getElem? root _ i h1
      · have h1' : (size / root.length) * root.length ≤ i := Nat.le_of_not_lt h1
        rw [List.getElem?_append_right (by rw [flatten_replicate_length]; exact h1'),
          flatten_replicate_length, hsub, List.getElem?_take]
        have hlt : i - size / root.length * root.length < size % root.length := by omega
        rw [if_pos hlt]
        congr 1
        have h3 : i = root.length * (size / root.length) + (i - size / root.length * root.length) := by
          omega
        have h4 : i % root.length = (i - size / root.length * root.length) % root.length := by
          rw [h3, Nat.mul_add_mod, ← h3]
        rw [h4, Nat.mod_eq_of_lt (by omega)]
  · simp only [hb, if_false, hs, if_true]
    refine ⟨_, rfl, ?_, ?_⟩
    · rw [List.length_append, List.length_take]; omega
    · intro i hi
      by_cases h1 : i < root.length
      · rw [List.getElem?_append_left h1, Nat.mod_eq_of_lt h1]
      · have h1' : root.length ≤ i := Nat.le_of_not_lt h1
        rw [List.getElem?_append_right h1', List.getElem?_take, if_pos (by omega)]
        rw [Nat.mod_eq_sub_mod h1', Nat.mod_eq_of_lt (by omega)]

end PyPhysim.C18P
