import PyPhysim.Proofs.C05Grid
import PyPhysim.Model.C05Params

/-! Helper lemmas for C05: the parameters object keeps no derived state. -/
namespace PyPhysim.C05

/-! ### the dictionary -/

theorem lookup_dictSet (name : String) (v : PVal) (m : String) :
    ∀ (d : List (String × PVal)),
      (dictSet name v d).lookup m = if m = name then some v else d.lookup m
  | [] => by
    by_cases h : m = name
    · simp [dictSet, h]
    · have : (m == name) = false := by simpa using h
      simp [dictSet, List.lookup, h, this]
  | (k, w) :: rest => by
    simp only [dictSet]
    by_cases hk : k = name
    · subst hk
      simp only [beq_self_eq_true, if_true, List.lookup]
      by_cases h : m = k
      · simp [h]
      · have : (m == k) = false := by simpa using h
        simp [h, this]
    · have hk' : (k == name) = false := by simpa using hk
      simp only [hk', Bool.false_eq_true, if_false, List.lookup]
      by_cases h : m = k
      · subst h
        have : ¬ m = name := hk
        simp [this]
      · have : (m == k) = false := by simpa using h
        simp only [this]
        exact lookup_dictSet name v m rest

theorem lookup_dictDel_ne (name m : String) (h : m ≠ name) :
    ∀ (d : List (String × PVal)), (dictDel name d).lookup m = d.lookup m
  | [] => rfl
  | (k, w) :: rest => by
    simp only [dictDel]
    by_cases hk : k = name
    · subst hk
      have : (m == k) = false := by simpa using h
      simp [List.lookup, this]
    · have hk' : (k == name) = false := by simpa using hk
      simp only [hk', Bool.false_eq_true, if_false, List.lookup]
      split
      · rfl
      · exact lookup_dictDel_ne name m h rest

/-! ### the unpacked set stays duplicate-free -/

theorem step_unpacked_nodup (s : PState) (op : POp) (h : s.unpacked.Nodup) :
    (s.step op).1.unpacked.Nodup := by
  cases op with
  | add name v => exact h
  | remove name =>
    simp only [PState.step]
    split
    · exact h
    · exact h.erase name
  | setUnpack name b =>
    simp only [PState.step]
    split
    · exact h
    · exact h
    · by_cases hb : b = true
      · simp only [hb, if_true]
        by_cases hm : name ∈ s.unpacked
        · simp [hm, h]
        · simp [hm, h]
      · have hb' : b = false := by simpa using hb
        simp only [hb', Bool.false_eq_true, if_false]
        by_cases hm : name ∈ s.unpacked
        · simp only [hm, if_true]; exact h.erase name
        · simp only [hm, if_false]; exact h

theorem run_unpacked_nodup : ∀ (ops : List POp) (s : PState), s.unpacked.Nodup →
    (s.run ops).unpacked.Nodup
  | [], s, h => h
  | op :: ops, s, h => run_unpacked_nodup ops _ (step_unpacked_nodup s op h)

/-! ### sorting forgets the order the parameters were listed in -/

theorem eq_of_fst_eq_of_nodup {V : Type} : ∀ (ps : List (Param V)) (a b : Param V),
    (ps.map (·.1)).Nodup → a ∈ ps → b ∈ ps → a.1 = b.1 → a = b
  | [], a, b, _, ha, _, _ => by simp at ha
  | p :: ps, a, b, hn, ha, hb, hab => by
    simp only [List.map_cons, List.nodup_cons, List.mem_map, not_exists, not_and] at hn
    rcases List.mem_cons.mp ha with rfl | ha'
    · rcases List.mem_cons.mp hb with rfl | hb'
      · rfl
      · exact absurd hab.symm (hn.1 b hb')
    · rcases List.mem_cons.mp hb with rfl | hb'
      · exact absurd hab (hn.1 a ha')
      · exact eq_of_fst_eq_of_nodup ps a b hn.2 ha' hb' hab

theorem sortParams_congr {V : Type} (ps ps' : List (Param V)) (hp : ps.Perm ps')
    (hn : (ps.map (·.1)).Nodup) : sortParams ps = sortParams ps' := by
  have h1 := sortParams_perm ps
  have h2 := sortParams_perm ps'
  refine List.Perm.eq_of_pairwise (le := fun a b => a.1 ≤ b.1) ?_ (sortParams_sorted ps)
    (sortParams_sorted ps') (h1.trans (hp.trans h2.symm))
  intro a b ha hb hab hba
  have ha' : a ∈ ps := h1.mem_iff.mp ha
  have hb' : b ∈ ps := hp.mem_iff.mpr (h2.mem_iff.mp hb)
  exact eq_of_fst_eq_of_nodup ps a b hn ha' hb' (le_antisymm hab hba)

/-- every look-up goes through `sortParams` -/
theorem queries_congr {X : Type} (ps ps' : List (Param Int)) (results : List X)
    (fixed : List (String × Int)) (h : sortParams ps = sortParams ps') :
    prod (dimsOf ps) = prod (dimsOf ps') ∧ combos ps = combos ps' ∧
    packIndexes ps fixed = packIndexes ps' fixed ∧
    resultValues ps results fixed = resultValues ps' results fixed := by
  have hp : packIndexes ps fixed = packIndexes ps' fixed := by simp only [packIndexes, h]
  refine ⟨by simp only [dimsOf, h], by simp only [combos, h], hp, ?_⟩
  simp only [resultValues, hp]

/-! ### same content ⇒ same view, up to the order of the set -/

theorem valsOf_sameContent (s s' : PState) (hc : SameContent s s') (n : String) :
    s.valsOf n = s'.valsOf n := by
  simp only [PState.valsOf, hc.1 n]

theorem nodup_filterMap_ite (p : String → Bool) : ∀ (l : List String), l.Nodup →
    (l.filterMap (fun n => if p n = true then some n else none)).Nodup
  | [], _ => by simp
  | a :: l, hn => by
    have hl := List.nodup_cons.mp hn
    simp only [List.filterMap_cons]
    by_cases ha : p a = true
    · simp only [ha, if_true]
      refine List.nodup_cons.mpr ⟨?_, nodup_filterMap_ite p l hl.2⟩
      intro hmem
      rw [List.mem_filterMap] at hmem
      obtain ⟨b, hb, hb'⟩ := hmem
      split at hb'
      · simp only [Option.some.injEq] at hb'; subst hb'; exact hl.1 hb
      · simp at hb'
    · simp only [ha, Bool.false_eq_true, if_false]
      exact nodup_filterMap_ite p l hl.2

theorem view_names_nodup (s : PState) (hn : s.unpacked.Nodup) :
    ((s.unpacked.filterMap (fun n => (s.valsOf n).map (fun vs => (n, vs)))).map (·.1)).Nodup := by
  rw [List.map_filterMap]
  have : (fun n => Option.map (fun (x : Param Int) => x.1) ((s.valsOf n).map (fun vs => (n, vs))))
      = (fun n => if (s.valsOf n).isSome = true then some n else none) := by
    funext n
    cases s.valsOf n <;> simp
  rw [this]
  exact nodup_filterMap_ite (fun n => (s.valsOf n).isSome) s.unpacked hn

theorem view_sameContent (s s' : PState) (hn : s.unpacked.Nodup) (hn' : s'.unpacked.Nodup)
    (hc : SameContent s s') :
    (s.view = .error .TypeError ∧ s'.view = .error .TypeError) ∨
    ∃ ps ps', s.view = .ok ps ∧ s'.view = .ok ps' ∧ sortParams ps = sortParams ps' := by
  have hperm : s.unpacked.Perm s'.unpacked := (List.perm_ext_iff_of_nodup hn hn').mpr hc.2
  have hf : (fun n => (s.valsOf n).map (fun vs => (n, vs)))
      = (fun n => (s'.valsOf n).map (fun vs => (n, vs))) := by
    funext n; rw [valsOf_sameContent s s' hc n]
  have hall : s.unpacked.all (fun n => (s.valsOf n).isSome)
      = s'.unpacked.all (fun n => (s'.valsOf n).isSome) := by
    rw [Bool.eq_iff_iff]
    simp only [List.all_eq_true]
    constructor
    · intro h n hn; rw [← valsOf_sameContent s s' hc n]; exact h n ((hc.2 n).mpr hn)
    · intro h n hn; rw [valsOf_sameContent s s' hc n]; exact h n ((hc.2 n).mp hn)
  unfold PState.view
  rw [← hall]
  by_cases ha : s.unpacked.all (fun n => (s.valsOf n).isSome) = true
  · right
    simp only [ha, if_true]
    refine ⟨_, _, rfl, rfl, ?_⟩
    apply sortParams_congr _ _ _ (view_names_nodup s hn)
    rw [← hf]
    exact hperm.filterMap _
  · left
    simp [ha]

theorem lookup_sameContent {X : Type} (s s' : PState) (hn : s.unpacked.Nodup)
    (hn' : s'.unpacked.Nodup) (hc : SameContent s s') (results : List X)
    (fixed : List (String × Int)) :
    s.lookup results fixed = s'.lookup results fixed := by
  unfold PState.lookup
  rcases view_sameContent s s' hn hn' hc with ⟨h1, h2⟩ | ⟨ps, ps', h1, h2, h3⟩
  · rw [h1, h2]
  · rw [h1, h2]
    obtain ⟨q1, q2, q3, q4⟩ := queries_congr ps ps' results fixed h3
    simp only [Except.map, q1, q2, q3, q4]

end PyPhysim.C05
