import Mathlib.Algebra.BigOperators.Group.List.Basic
import Mathlib.Algebra.Ring.Defs
import Mathlib.Tactic.Ring
import PyPhysim.Model.C03

/-!
# C03 — helper lemmas for the time-domain transmission (sparse tap accumulate-and-shift)
-/
namespace PyPhysim.C03
open PyPhysim.Proto

section Basic
variable {β : Type}

theorem tab_length (n : Nat) (f : Nat → β) : (tab n f).length = n := by simp [tab]

theorem getElem?_tab (n : Nat) (f : Nat → β) (i : Nat) :
    (tab n f)[i]? = if i < n then some (f i) else none := by
  unfold tab
  by_cases h : i < n
  · simp [h]
  · simp [h]

theorem tab_zipIdx (n : Nat) (f : Nat → β) : (tab n f).zipIdx = tab n (fun a => (f a, a)) := by
  apply List.ext_getElem?
  intro i
  rw [List.getElem?_zipIdx, getElem?_tab, getElem?_tab]
  by_cases h : i < n <;> simp [h]

theorem tab_take (n : Nat) (f : Nat → β) : (tab n f).take n = tab n f :=
  List.take_of_length_le (by simp [tab_length])

theorem tab_map {γ : Type} (n : Nat) (f : Nat → β) (g : β → γ) : (tab n f).map g = tab n (fun i => g (f i)) := by
  simp [tab]

theorem numSymbols_tab {α : Type} (nIn n : Nat) (xf : Nat → Nat → α) (h : 0 < nIn) :
    numSymbols (tab nIn (fun a => tab n (xf a))) = n := by
  obtain ⟨k, rfl⟩ : ∃ k, nIn = k + 1 := ⟨nIn - 1, by omega⟩
  simp [tab, numSymbols, List.range_succ_eq_map]

end Basic

variable {α : Type} [CommSemiring α]

theorem zeros_length (n : Nat) : (zeros n : List α).length = n := by simp [zeros]

theorem addAt_length (out : List α) (d : Nat) (v : List α) : (addAt out d v).length = out.length := by
  induction out generalizing d v with
  | nil => simp [addAt]
  | cons o os ih =>
    cases d with
    | zero => cases v with
      | nil => simp [addAt]
      | cons a vs => simp [addAt, ih]
    | succ d => simp [addAt, ih]

/-- what `out[d : d+|v|] += v` does at position `m` -/
def contrib (d : Nat) (v : List α) (m : Nat) : α :=
  if d ≤ m then (match v[m - d]? with | some a => a | none => 0) else 0

theorem getElem?_addAt (out : List α) (d : Nat) (v : List α) (m : Nat) :
    (addAt out d v)[m]? = out[m]?.map (· + contrib d v m) := by
  induction out generalizing d v m with
  | nil => simp [addAt]
  | cons o os ih =>
    cases d with
    | zero =>
      cases v with
      | nil => cases m <;> simp [addAt, contrib]
      | cons a vs =>
        cases m with
        | zero => simp [addAt, contrib]
        | succ m =>
          simp only [addAt, List.getElem?_cons_succ, ih]
          simp [contrib]
    | succ d =>
      cases m with
      | zero => simp [addAt, contrib]
      | succ m =>
        simp only [addAt, List.getElem?_cons_succ, ih]
        congr 1
        funext o
        simp only [contrib, Nat.add_le_add_iff_right, Nat.add_sub_add_right]

/-- a fold of slice-accumulations adds the sum of the contributions -/
theorem getElem?_foldl_addAt {ε : Type} (f : ε → Nat × List α) (ts : List ε) (out : List α) (m : Nat) :
    (ts.foldl (fun o e => addAt o (f e).1 (f e).2) out)[m]?
      = out[m]?.map (· + (ts.map (fun e => contrib (f e).1 (f e).2 m)).sum) := by
  induction ts generalizing out with
  | nil => simp
  | cons t ts ih =>
    simp only [List.foldl_cons, ih, getElem?_addAt, List.map_cons, List.sum_cons, Option.map_map]
    congr 1
    funext o
    simp [add_assoc]

theorem foldl_addAt_length {ε : Type} (f : ε → Nat × List α) (ts : List ε) (out : List α) :
    (ts.foldl (fun o e => addAt o (f e).1 (f e).2) out).length = out.length := by
  induction ts generalizing out with
  | nil => simp
  | cons t ts ih => simp [ih, addAt_length]

theorem getElem?_mulF (h : Nat → α) (x : List α) (k : Nat) : (mulF h x)[k]? = x[k]?.map (h k * ·) := by
  simp [mulF, List.getElem?_mapIdx]

/-- contribution of one tap `h` at delay `d` to output position `m`, input `tab n xf` -/
theorem contrib_mulF_tab (d : Nat) (h : Nat → α) (n : Nat) (xf : Nat → α) (m : Nat) :
    contrib d (mulF h (tab n xf)) m = if d ≤ m ∧ m - d < n then h (m - d) * xf (m - d) else 0 := by
  unfold contrib
  by_cases h1 : d ≤ m
  · by_cases h2 : m - d < n
    · simp [h1, h2, getElem?_mulF, getElem?_tab]
    · simp [h1, h2, getElem?_mulF, getElem?_tab]
  · simp [h1]

/-- `TdlChannel.corrupt_data`, SISO branch, in closed form -/
theorem corruptSiso_eq (delays : List Nat) (vals : List (Nat → Nat → Nat → α)) (mem n : Nat) (xf : Nat → α) :
    corruptSiso delays vals mem (tab n xf)
      = tab (n + mem) (fun m => ((delays.zip vals).map (fun dh =>
          if dh.1 ≤ m ∧ m - dh.1 < n then dh.2 0 0 (m - dh.1) * xf (m - dh.1) else 0)).sum) := by
  unfold corruptSiso
  apply List.ext_getElem?
  intro m
  refine (getElem?_foldl_addAt (fun dh : Nat × (Nat → Nat → Nat → α) => (dh.1, mulF (dh.2 0 0) (tab n xf)))
    (delays.zip vals) _ m).trans ?_
  rw [getElem?_tab, tab_length]
  by_cases hm : m < n + mem
  · simp only [hm, if_true, zeros, List.getElem?_replicate, Option.map_some]
    congr 1
    rw [zero_add]
    congr 1
    apply List.map_congr_left
    intro dh _
    exact contrib_mulF_tab dh.1 (dh.2 0 0) n xf m
  · simp [hm, zeros, List.getElem?_replicate]

/-! ## MIMO: all rows are updated in parallel -/

theorem getElem?_foldl_mapIdx {ε ρ : Type} (upd : ε → Nat → ρ → ρ) (es : List ε) (out : List ρ) (j : Nat) :
    (es.foldl (fun o e => o.mapIdx (fun j row => upd e j row)) out)[j]?
      = out[j]?.map (fun row => es.foldl (fun row e => upd e j row) row) := by
  induction es generalizing out with
  | nil => simp
  | cons e es ih =>
    simp only [List.foldl_cons, ih, List.getElem?_mapIdx, Option.map_map]
    rfl

theorem foldl_mapIdx_length {ε ρ : Type} (upd : ε → Nat → ρ → ρ) (es : List ε) (out : List ρ) :
    (es.foldl (fun o e => o.mapIdx (fun j row => upd e j row)) out).length = out.length := by
  induction es generalizing out with
  | nil => simp
  | cons e es ih => simp [ih]

theorem sum_map_flatMap {ε ι : Type} (l : List ε) (f : ε → List ι) (g : ι → α) :
    ((l.flatMap f).map g).sum = (l.map (fun e => ((f e).map g).sum)).sum := by
  induction l with
  | nil => simp
  | cons e l ih => simp [List.flatMap_cons, List.sum_append, ih]

/-- `corrupt_data`, MIMO branches (original and switched direction), in closed form -/
theorem corruptMimo_eq (sw : Bool) (delays : List Nat) (vals : List (Nat → Nat → Nat → α))
    (nOut nIn mem n : Nat) (xf : Nat → Nat → α) :
    corruptMimo sw delays vals nOut nIn mem n (tab nIn (fun a => tab n (xf a)))
      = tab nOut (fun j => tab (n + mem) (fun m => ((delays.zip vals).map (fun dh =>
          ((List.range nIn).map (fun a =>
            if dh.1 ≤ m ∧ m - dh.1 < n then orient sw dh.2 j a (m - dh.1) * xf a (m - dh.1) else 0)).sum)).sum)) := by
  unfold corruptMimo
  rw [tab_take, tab_zipIdx]
  -- flatten the two nested loops into one list of events
  have hflat : ∀ (out0 : List (List α)),
      (delays.zip vals).foldl (fun out dh =>
        (tab nIn (fun a => (tab n (xf a), a))).foldl
          (fun out xa => accRows out dh.1 (fun j k => orient sw dh.2 j xa.2 k) xa.1) out) out0
      = (((delays.zip vals).flatMap (fun dh => (tab nIn (fun a => (tab n (xf a), a))).map (fun xa => (dh, xa)))).foldl
          (fun out (e : (Nat × (Nat → Nat → Nat → α)) × (List α × Nat)) =>
            out.mapIdx (fun j row => addAt row e.1.1 (mulF (fun k => orient sw e.1.2 j e.2.2 k) e.2.1))) out0) := by
    intro out0
    rw [List.foldl_flatMap]
    congr 1
    funext out dh
    rw [List.foldl_map]
    rfl
  rw [hflat]
  apply List.ext_getElem?
  intro j
  rw [getElem?_foldl_mapIdx (fun (e : (Nat × (Nat → Nat → Nat → α)) × (List α × Nat)) j row =>
        addAt row e.1.1 (mulF (fun k => orient sw e.1.2 j e.2.2 k) e.2.1)), getElem?_tab, List.getElem?_replicate]
  by_cases hj : j < nOut
  · simp only [hj, if_true, Option.map_some]
    congr 1
    -- one row: the SISO fold lemma on the event list
    set es := (delays.zip vals).flatMap (fun dh => (tab nIn (fun a => (tab n (xf a), a))).map (fun xa => (dh, xa)))
    apply List.ext_getElem?
    intro m
    refine (getElem?_foldl_addAt (fun e : (Nat × (Nat → Nat → Nat → α)) × (List α × Nat) =>
              (e.1.1, mulF (fun k => orient sw e.1.2 j e.2.2 k) e.2.1)) es _ m).trans ?_
    rw [getElem?_tab]
    by_cases hm : m < n + mem
    · simp only [hm, if_true, zeros, List.getElem?_replicate, Option.map_some]
      congr 1
      rw [zero_add]
      show (es.map _).sum = _
      rw [sum_map_flatMap]
      congr 1
      apply List.map_congr_left
      intro dh _
      rw [List.map_map]
      unfold tab
      rw [List.map_map]
      congr 1
      apply List.map_congr_left
      intro a _
      simp only [Function.comp]
      exact contrib_mulF_tab dh.1 (fun k => orient sw dh.2 j a k) n (xf a) m
    · simp [hm, zeros, List.getElem?_replicate]
  · simp [hj]

end PyPhysim.C03
