import PyPhysim.Model.C07

/-! Helper lemmas for C07: slots, file-system steps, the disk as a fold of events. -/
namespace PyPhysim.C07

variable {R T C : Type}

/-- the steps of the `atomic` discipline: they never touch the file itself except by `rename` -/
def SlotOp.isAtomic : SlotOp C → Bool
  | .trunc | .write _ => false
  | _ => true

/-- the contents a list of steps installs, in order -/
def contents : List (SlotOp C) → List C
  | [] => []
  | .write c :: ops => c :: contents ops
  | .rename c :: ops => c :: contents ops
  | _ :: ops => contents ops

theorem contents_append (a b : List (SlotOp C)) : contents (a ++ b) = contents a ++ contents b := by
  induction a with
  | nil => rfl
  | cons op a ih => cases op <;> simp [contents, ih]

theorem contents_saveOps (m : Mode) (c : C) : contents (saveOps m c) = [c] := by
  cases m <;> rfl

theorem Slot.applyAll_nil (s : Slot C) : s.applyAll [] = s := rfl

theorem Slot.applyAll_cons (s : Slot C) (op : SlotOp C) (ops : List (SlotOp C)) :
    s.applyAll (op :: ops) = (s.apply op).applyAll ops := rfl

theorem Slot.applyAll_append (s : Slot C) (a b : List (SlotOp C)) :
    s.applyAll (a ++ b) = (s.applyAll a).applyAll b := by
  simp [Slot.applyAll, List.foldl_append]

/-- after a complete save the file holds the saved content, whatever was there before -/
theorem Slot.applyAll_saveOps_main (s : Slot C) (m : Mode) (c : C) :
    (s.applyAll (saveOps m c)).main = .valid c := by
  cases m <;> rfl

/-- a complete atomic save leaves no temp file -/
theorem Slot.applyAll_saveOps_atomic (s : Slot C) (c : C) :
    s.applyAll (saveOps .atomic c) = ⟨.valid c, false⟩ := rfl

theorem saveOps_atomic_isAtomic (c : C) : ∀ op ∈ saveOps .atomic c, op.isAtomic = true := by
  intro op h
  simp only [saveOps, List.mem_cons, List.not_mem_nil, or_false] at h
  rcases h with rfl | rfl | rfl | rfl | rfl | rfl <;> rfl

/-- **Atomic steps never damage the file**: after any list of atomic steps the file
    is what it was, or the content of one of the renames of the list. -/
theorem Slot.atomic_main (s : Slot C) (ops : List (SlotOp C)) (h : ∀ op ∈ ops, op.isAtomic = true) :
    (s.applyAll ops).main = s.main ∨ ∃ c, c ∈ contents ops ∧ (s.applyAll ops).main = .valid c := by
  induction ops generalizing s with
  | nil => left; rfl
  | cons op ops ih =>
    have hop := h op (by simp)
    have ih' := ih (s.apply op) (fun o ho => h o (by simp [ho]))
    rw [Slot.applyAll_cons]
    cases op with
    | trunc => simp [SlotOp.isAtomic] at hop
    | write c => simp [SlotOp.isAtomic] at hop
    | rename c0 =>
      rcases ih' with h1 | ⟨c, hc, h1⟩
      · right; exact ⟨c0, by simp [contents], by rw [h1]; rfl⟩
      · right; exact ⟨c, by simp [contents, hc], h1⟩
    | _ =>
      rcases ih' with h1 | ⟨c, hc, h1⟩
      · left; rw [h1]; rfl
      · right; exact ⟨c, by simpa [contents] using hc, h1⟩

/-- in any discipline: the file is what it was, torn, or one of the written contents -/
theorem Slot.any_main (s : Slot C) (ops : List (SlotOp C)) :
    (s.applyAll ops).main = s.main ∨ (s.applyAll ops).main = .torn ∨
      ∃ c, c ∈ contents ops ∧ (s.applyAll ops).main = .valid c := by
  induction ops generalizing s with
  | nil => left; rfl
  | cons op ops ih =>
    have ih' := ih (s.apply op)
    rw [Slot.applyAll_cons]
    cases op with
    | trunc =>
      rcases ih' with h1 | h1 | ⟨c, hc, h1⟩
      · right; left; rw [h1]; rfl
      · right; left; exact h1
      · right; right; exact ⟨c, by simpa [contents] using hc, h1⟩
    | write c0 =>
      rcases ih' with h1 | h1 | ⟨c, hc, h1⟩
      · right; right; exact ⟨c0, by simp [contents], by rw [h1]; rfl⟩
      · right; left; exact h1
      · right; right; exact ⟨c, by simp [contents, hc], h1⟩
    | rename c0 =>
      rcases ih' with h1 | h1 | ⟨c, hc, h1⟩
      · right; right; exact ⟨c0, by simp [contents], by rw [h1]; rfl⟩
      · right; left; exact h1
      · right; right; exact ⟨c, by simp [contents, hc], h1⟩
    | _ =>
      rcases ih' with h1 | h1 | ⟨c, hc, h1⟩
      · left; rw [h1]; rfl
      · right; left; exact h1
      · right; right; exact ⟨c, by simpa [contents] using hc, h1⟩

/-! ### events -/

/-- the steps of a trace that concern the partial-results file of variation `i` -/
def partOps (i : Nat) : List (Ev R T) → List (SlotOp (Part R T))
  | [] => []
  | .part j op :: t => if j = i then op :: partOps i t else partOps i t
  | _ :: t => partOps i t

/-- the steps of a trace that concern the final results file -/
def finOps : List (Ev R T) → List (SlotOp (Full R))
  | [] => []
  | .fin op :: t => op :: finOps t
  | _ :: t => finOps t

theorem partOps_append (i : Nat) (a b : List (Ev R T)) :
    partOps i (a ++ b) = partOps i a ++ partOps i b := by
  induction a with
  | nil => rfl
  | cons ev a ih =>
    cases ev with
    | call j => simpa [partOps] using ih
    | part j op => by_cases h : j = i <;> simp [partOps, h, ih]
    | fin op => simpa [partOps] using ih

theorem finOps_append (a b : List (Ev R T)) : finOps (a ++ b) = finOps a ++ finOps b := by
  induction a with
  | nil => rfl
  | cons ev a ih => cases ev <;> simp [finOps, ih]

theorem Disk.applyAll_nil (d : Disk R T) : d.applyAll [] = d := rfl

theorem Disk.applyAll_cons (d : Disk R T) (ev : Ev R T) (t : List (Ev R T)) :
    d.applyAll (ev :: t) = (d.apply ev).applyAll t := rfl

theorem Disk.applyAll_append (d : Disk R T) (a b : List (Ev R T)) :
    d.applyAll (a ++ b) = (d.applyAll a).applyAll b := by
  simp [Disk.applyAll, List.foldl_append]

/-- the slot of variation `i` after a trace = its own steps applied to it -/
theorem Disk.applyAll_part (d : Disk R T) (t : List (Ev R T)) (i : Nat) :
    (d.applyAll t).part i = (d.part i).applyAll (partOps i t) := by
  induction t generalizing d with
  | nil => rfl
  | cons ev t ih =>
    rw [Disk.applyAll_cons, ih]
    cases ev with
    | call j => rfl
    | part j op =>
      by_cases h : j = i
      · subst h; simp [partOps, Disk.apply, Slot.applyAll_cons]
      · have h' : ¬ i = j := fun e => h e.symm
        simp [partOps, h, Disk.apply, h']
    | fin op => rfl

theorem Disk.applyAll_fin (d : Disk R T) (t : List (Ev R T)) :
    (d.applyAll t).fin = d.fin.applyAll (finOps t) := by
  induction t generalizing d with
  | nil => rfl
  | cons ev t ih =>
    rw [Disk.applyAll_cons, ih]
    cases ev <;> simp [finOps, Disk.apply, Slot.applyAll_cons]

/-- a trace that only contains events of variation `i` -/
def OnlyVar (i : Nat) (t : List (Ev R T)) : Prop :=
  ∀ ev ∈ t, ev = .call i ∨ ∃ op, ev = .part i op

theorem OnlyVar.append {i : Nat} {a b : List (Ev R T)} (ha : OnlyVar i a) (hb : OnlyVar i b) :
    OnlyVar i (a ++ b) := by
  intro ev h
  rcases List.mem_append.mp h with h | h
  · exact ha ev h
  · exact hb ev h

theorem OnlyVar.nil (i : Nat) : OnlyVar i ([] : List (Ev R T)) := by intro ev h; simp at h

theorem OnlyVar.replicate_call (i k : Nat) : OnlyVar i (List.replicate k (.call i) : List (Ev R T)) := by
  intro ev h; left; exact (List.mem_replicate.mp h).2

theorem OnlyVar.cons_call {i : Nat} {t : List (Ev R T)} (h : OnlyVar i t) : OnlyVar i (.call i :: t) := by
  intro ev hev
  rcases List.mem_cons.mp hev with rfl | hev
  · left; rfl
  · exact h ev hev

theorem OnlyVar.prefix {i : Nat} {a b : List (Ev R T)} (h : OnlyVar i b) (hp : a <+: b) : OnlyVar i a :=
  fun ev hev => h ev (hp.subset hev)

theorem onlyVar_map_part (i : Nat) (ops : List (SlotOp (Part R T))) :
    OnlyVar i (ops.map (Ev.part i) : List (Ev R T)) := by
  intro ev h
  obtain ⟨op, _, rfl⟩ := List.mem_map.mp h
  right; exact ⟨op, rfl⟩

theorem partOps_map_part (i : Nat) (ops : List (SlotOp (Part R T))) :
    partOps i (ops.map (Ev.part i) : List (Ev R T)) = ops := by
  induction ops with
  | nil => rfl
  | cons op ops ih => simp [partOps, ih]

theorem partOps_replicate_call (i j k : Nat) :
    partOps i (List.replicate k (.call j) : List (Ev R T)) = [] := by
  induction k with
  | zero => rfl
  | succ k ih => simp [List.replicate_succ, partOps, ih]

/-- events of variation `i` do not concern the file of another variation -/
theorem OnlyVar.partOps_ne {i j : Nat} {t : List (Ev R T)} (h : OnlyVar i t) (hji : j ≠ i) :
    partOps j t = [] := by
  induction t with
  | nil => rfl
  | cons ev t ih =>
    have ht : OnlyVar i t := fun e he => h e (by simp [he])
    rcases h ev (by simp) with rfl | ⟨op, rfl⟩
    · simpa [partOps] using ih ht
    · have : ¬ i = j := fun e => hji e.symm
      simp [partOps, this, ih ht]

theorem OnlyVar.finOps {i : Nat} {t : List (Ev R T)} (h : OnlyVar i t) : finOps t = [] := by
  induction t with
  | nil => rfl
  | cons ev t ih =>
    have ht : OnlyVar i t := fun e he => h e (by simp [he])
    rcases h ev (by simp) with rfl | ⟨op, rfl⟩ <;> simpa [C07.finOps] using ih ht

theorem OnlyVar.part_ne {i j : Nat} {t : List (Ev R T)} (h : OnlyVar i t) (hji : j ≠ i) (d : Disk R T) :
    (d.applyAll t).part j = d.part j := by
  rw [Disk.applyAll_part, h.partOps_ne hji]; rfl

theorem OnlyVar.fin_eq {i : Nat} {t : List (Ev R T)} (h : OnlyVar i t) (d : Disk R T) :
    (d.applyAll t).fin = d.fin := by
  rw [Disk.applyAll_fin, h.finOps]; rfl

/-- every file-system step of the trace belongs to the atomic discipline -/
def AllAtomic (t : List (Ev R T)) : Prop :=
  ∀ ev ∈ t, match ev with
    | .call _ => True
    | .part _ op => op.isAtomic = true
    | .fin op => op.isAtomic = true

theorem AllAtomic.append {a b : List (Ev R T)} (ha : AllAtomic a) (hb : AllAtomic b) :
    AllAtomic (a ++ b) := by
  intro ev h
  rcases List.mem_append.mp h with h | h
  · exact ha ev h
  · exact hb ev h

theorem AllAtomic.nil : AllAtomic ([] : List (Ev R T)) := by intro ev h; simp at h

theorem AllAtomic.prefix {a b : List (Ev R T)} (h : AllAtomic b) (hp : a <+: b) : AllAtomic a :=
  fun ev hev => h ev (hp.subset hev)

theorem AllAtomic.replicate_call (i k : Nat) : AllAtomic (List.replicate k (.call i) : List (Ev R T)) := by
  intro ev h; rw [(List.mem_replicate.mp h).2]; trivial

theorem AllAtomic.cons_call {i : Nat} {t : List (Ev R T)} (h : AllAtomic t) : AllAtomic (.call i :: t) := by
  intro ev hev
  rcases List.mem_cons.mp hev with rfl | hev
  · trivial
  · exact h ev hev

theorem AllAtomic.partOps {t : List (Ev R T)} (h : AllAtomic t) (i : Nat) :
    ∀ op ∈ partOps i t, op.isAtomic = true := by
  induction t with
  | nil => intro op hop; simp [C07.partOps] at hop
  | cons ev t ih =>
    have ht : AllAtomic t := fun e he => h e (by simp [he])
    intro op hop
    cases ev with
    | call j => exact ih ht op (by simpa [C07.partOps] using hop)
    | part j o =>
      by_cases hj : j = i
      · simp only [C07.partOps, hj, if_true, List.mem_cons] at hop
        rcases hop with rfl | hop
        · exact h (.part j op) (by simp)
        · exact ih ht op hop
      · exact ih ht op (by simpa [C07.partOps, hj] using hop)
    | fin o => exact ih ht op (by simpa [C07.partOps] using hop)

theorem AllAtomic.finOps {t : List (Ev R T)} (h : AllAtomic t) :
    ∀ op ∈ finOps t, op.isAtomic = true := by
  induction t with
  | nil => intro op hop; simp [C07.finOps] at hop
  | cons ev t ih =>
    have ht : AllAtomic t := fun e he => h e (by simp [he])
    intro op hop
    cases ev with
    | call j => exact ih ht op (by simpa [C07.finOps] using hop)
    | part j o => exact ih ht op (by simpa [C07.finOps] using hop)
    | fin o =>
      simp only [C07.finOps, List.mem_cons] at hop
      rcases hop with rfl | hop
      · exact h (.fin op) (by simp)
      · exact ih ht op hop

theorem allAtomic_map_part (i : Nat) (c : Part R T) :
    AllAtomic ((saveOps .atomic c).map (Ev.part i) : List (Ev R T)) := by
  intro ev h
  obtain ⟨op, hop, rfl⟩ := List.mem_map.mp h
  exact saveOps_atomic_isAtomic c op hop

theorem allAtomic_map_fin (c : Full R) :
    AllAtomic ((saveOps .atomic c).map Ev.fin : List (Ev R T)) := by
  intro ev h
  obtain ⟨op, hop, rfl⟩ := List.mem_map.mp h
  exact saveOps_atomic_isAtomic c op hop

theorem callLog_append (a b : List (Ev R T)) : callLog (a ++ b) = callLog a ++ callLog b := by
  induction a with
  | nil => rfl
  | cons ev a ih => cases ev <;> simp [callLog, ih]

theorem callLog_map_part (i : Nat) (ops : List (SlotOp (Part R T))) :
    callLog (ops.map (Ev.part i) : List (Ev R T)) = [] := by
  induction ops with
  | nil => rfl
  | cons op ops ih => simp [callLog, ih]

theorem callLog_map_fin (ops : List (SlotOp (Full R))) :
    callLog (ops.map Ev.fin : List (Ev R T)) = [] := by
  induction ops with
  | nil => rfl
  | cons op ops ih => simp [callLog, ih]

theorem callLog_replicate_call (i k : Nat) :
    callLog (List.replicate k (.call i) : List (Ev R T)) = List.replicate k i := by
  induction k with
  | zero => rfl
  | succ k ih => simp [List.replicate_succ, callLog, ih]

/-- prefixes of a concatenation -/
theorem prefix_append_cases {α : Type} {p a b : List α} (h : p <+: a ++ b) :
    p <+: a ∨ ∃ q, p = a ++ q ∧ q <+: b := by
  obtain ⟨r, hr⟩ := h
  rcases List.append_eq_append_iff.mp hr with ⟨a', h1, h2⟩ | ⟨c', h1, h2⟩
  · left; exact ⟨a', h1.symm⟩
  · right; exact ⟨c', h1, ⟨r, h2.symm⟩⟩

theorem partOps_prefix (i : Nat) {a b : List (Ev R T)} (h : a <+: b) : partOps i a <+: partOps i b := by
  obtain ⟨r, rfl⟩ := h
  rw [partOps_append]; exact List.prefix_append _ _

/-- two disks that hold the same partial-results files (temp files and the final
    results file aside: no load ever reads those) -/
def MainEq (d d' : Disk R T) : Prop :=
  ∀ i, (d.part i).main = (d'.part i).main

theorem Slot.apply_main_congr (s s' : Slot C) (op : SlotOp C) (h : s.main = s'.main) :
    (s.apply op).main = (s'.apply op).main := by
  cases op <;> simp [Slot.apply, h]

theorem MainEq.apply {d d' : Disk R T} (h : MainEq d d') (ev : Ev R T) : MainEq (d.apply ev) (d'.apply ev) := by
  cases ev with
  | call i => exact h
  | part i op =>
    intro j
    by_cases hj : j = i
    · subst hj; simp [Disk.apply, Slot.apply_main_congr _ _ op (h j)]
    · simp [Disk.apply, hj, h j]
  | fin op => exact h

theorem MainEq.applyAll {d d' : Disk R T} (h : MainEq d d') (t : List (Ev R T)) :
    MainEq (d.applyAll t) (d'.applyAll t) := by
  induction t generalizing d d' with
  | nil => exact h
  | cons ev t ih => exact ih (h.apply ev)

theorem MainEq.refl (d : Disk R T) : MainEq d d := fun _ => rfl

theorem MainEq.sweep (d : Disk R T) : MainEq d.sweep d := fun _ => rfl

end PyPhysim.C07
