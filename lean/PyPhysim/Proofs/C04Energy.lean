import Mathlib.Algebra.BigOperators.Field
import Mathlib.Algebra.BigOperators.Intervals
import PyPhysim.Proofs.C04Round

/-!
Transmitted energy of the linear schemes: per channel use (column) and in
total, including the re-indexing between a symbol vector and its reshaped block.
-/
set_option linter.unusedSectionVars false
namespace PyPhysim.C04
open Matrix PyPhysim.Proto

namespace Pf
variable {Nr Nt n L : Nat}

theorem colEnergy_eq (E : Mat ℂ Nt L) (j : Fin L) : colEnergy E j = ((toM E)ᴴ * toM E) j j := by
  simp only [colEnergy, sumFin_eq, conj_def, Matrix.mul_apply, conjTranspose_apply, Matrix.of_apply]
  exact Finset.sum_congr rfl (fun i _ => mul_comm _ _)

/-- dividing every entry by `√Nt` divides the energy of every channel use by `Nt` -/
theorem scaled_colEnergy (X : Mat ℂ Nt L) (j : Fin L) :
    colEnergy (fun i j => X i j / sqrtNat Nt) j = colEnergy X j / (Nt : ℂ) := by
  simp only [colEnergy, sumFin_eq, conj_def, star_div₀, star_sqrtNat, div_mul_div_comm, sqrtNat_mul_self]
  rw [Finset.sum_div]

/-- a precoder with `Wᴴ W = (1/Nt)·1` divides the energy of every channel use by `Nt` -/
theorem precoded_colEnergy (W : Mat ℂ Nt Nt) (hW : (toM W)ᴴ * toM W = (1 / (Nt : ℂ)) • 1)
    (X : Mat ℂ Nt L) (j : Fin L) :
    colEnergy (matMul W X) j = colEnergy X j / (Nt : ℂ) := by
  rw [colEnergy_eq, colEnergy_eq, toM_matMul, conjTranspose_mul]
  have e : (toM X)ᴴ * (toM W)ᴴ * (toM W * toM X) = (1 / (Nt : ℂ)) • ((toM X)ᴴ * toM X) := by
    rw [Matrix.mul_assoc, ← Matrix.mul_assoc (toM W)ᴴ, hW, Matrix.smul_mul, Matrix.one_mul,
      Matrix.mul_smul]
  rw [e, Matrix.smul_apply, smul_eq_mul]
  ring

theorem svdPrecoder_gram (VH : Mat ℂ Nt Nt) (hV : toM VH * (toM VH)ᴴ = 1) :
    (toM (svdPrecoder VH))ᴴ * toM (svdPrecoder VH) = (1 / (Nt : ℂ)) • 1 := by
  rw [toM_svdPrecoder, conjTranspose_smul, conjTranspose_conjTranspose, Matrix.smul_mul, Matrix.mul_smul,
    smul_smul, hV, star_inv₀, star_sqrtNat, ← mul_inv, sqrtNat_mul_self, one_div]

theorem gmdPrecoder_gram (P : Mat ℂ Nt Nt) (hP : (toM P)ᴴ * toM P = 1) :
    (toM (gmdPrecoder P))ᴴ * toM (gmdPrecoder P) = (1 / (Nt : ℂ)) • 1 := by
  rw [toM_gmdPrecoder, conjTranspose_smul, Matrix.smul_mul, Matrix.mul_smul,
    smul_smul, hP, star_inv₀, star_sqrtNat, ← mul_inv, sqrtNat_mul_self, one_div]

/-! ### re-indexing -/

theorem sum_range_mul (g : ℕ → ℂ) (a : ℕ) : ∀ L : ℕ,
    ∑ k ∈ Finset.range (L * a), g k = ∑ j ∈ Finset.range L, ∑ i ∈ Finset.range a, g (j * a + i)
  | 0 => by simp
  | L + 1 => by
    rw [Nat.succ_mul, Finset.sum_range_add, sum_range_mul g a L, Finset.sum_range_succ]

/-- the energy density of a symbol vector, extended by zero -/
noncomputable def dens (x : Vec ℂ n) (k : ℕ) : ℂ := if h : k < n then x ⟨k, h⟩ * star (x ⟨k, h⟩) else 0

theorem vecEnergy_eq (x : Vec ℂ n) : vecEnergy x = ∑ k ∈ Finset.range n, dens x k := by
  rw [vecEnergy, sumFin_eq, ← Fin.sum_univ_eq_sum_range (fun k => dens x k) n]
  refine Finset.sum_congr rfl (fun k _ => ?_)
  simp [dens, conj_def]

/-- Fortran-order reshape keeps the total energy -/
theorem totalEnergy_reshapeF (x : Vec ℂ n) (h : n % Nt = 0) :
    totalEnergy (reshapeF Nt x h) = vecEnergy x := by
  have hn : n / Nt * Nt = n := Nat.div_mul_cancel (Nat.dvd_of_mod_eq_zero h)
  have e : ∑ k ∈ Finset.range n, dens x k = ∑ k ∈ Finset.range (n / Nt * Nt), dens x k := by rw [hn]
  rw [vecEnergy_eq, e]
  rw [sum_range_mul, totalEnergy, sumFin_eq, ← Fin.sum_univ_eq_sum_range
    (fun j => ∑ i ∈ Finset.range Nt, dens x (j * Nt + i)) (n / Nt)]
  refine Finset.sum_congr rfl (fun j _ => ?_)
  rw [colEnergy, sumFin_eq, ← Fin.sum_univ_eq_sum_range (fun i => dens x (j.val * Nt + i)) Nt]
  refine Finset.sum_congr rfl (fun i _ => ?_)
  simp [dens, reshapeF, conj_def, fIdx h i j]

/-- C-order reshape keeps the total energy -/
theorem totalEnergy_reshapeC (x : Vec ℂ n) (h : n % Nt = 0) :
    totalEnergy (reshapeC Nt x h) = vecEnergy x := by
  have hn : Nt * (n / Nt) = n := Nat.mul_div_cancel' (Nat.dvd_of_mod_eq_zero h)
  have e : ∑ k ∈ Finset.range n, dens x k = ∑ k ∈ Finset.range (Nt * (n / Nt)), dens x k := by rw [hn]
  rw [vecEnergy_eq, e]
  rw [sum_range_mul, totalEnergy, sumFin_eq]
  simp only [colEnergy, sumFin_eq]
  rw [Finset.sum_comm, ← Fin.sum_univ_eq_sum_range
    (fun i => ∑ j ∈ Finset.range (n / Nt), dens x (i * (n / Nt) + j)) Nt]
  refine Finset.sum_congr rfl (fun i _ => ?_)
  rw [← Fin.sum_univ_eq_sum_range (fun j => dens x (i.val * (n / Nt) + j)) (n / Nt)]
  refine Finset.sum_congr rfl (fun j _ => ?_)
  simp [dens, reshapeC, conj_def, cIdx h i j]

theorem totalEnergy_div (E X : Mat ℂ Nt L) (h : ∀ j, colEnergy E j = colEnergy X j / (Nt : ℂ)) :
    totalEnergy E = totalEnergy X / (Nt : ℂ) := by
  simp only [totalEnergy, sumFin_eq, h]
  rw [Finset.sum_div]

/-- from the total to the average per channel use -/
theorem avg_of_total (hNt : 0 < Nt) (h : n % Nt = 0) (hn : 0 < n) (T V : ℂ) (hT : T = V / (Nt : ℂ)) :
    T / ((n / Nt : ℕ) : ℂ) = V / (n : ℂ) := by
  have hd : Nt ∣ n := Nat.dvd_of_mod_eq_zero h
  have hNt0 : (Nt : ℂ) ≠ 0 := by exact_mod_cast hNt.ne'
  have hn0 : (n : ℂ) ≠ 0 := by exact_mod_cast hn.ne'
  rw [Nat.cast_div hd hNt0, hT]
  field_simp

end Pf
end PyPhysim.C04
