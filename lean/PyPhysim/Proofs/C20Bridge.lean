import Mathlib.Data.Matrix.Mul
import Mathlib.Algebra.BigOperators.Fin
import Mathlib.LinearAlgebra.Matrix.ConjTranspose
import Mathlib.Algebra.Star.Basic
import Mathlib.LinearAlgebra.Matrix.Trace
import PyPhysim.Model.C20

/-!
Bridge between the core-only matrix model (`PyPhysim.LinAlg`, `Fin`-indexed
functions with an own `sumFin`) and Mathlib's `Matrix`: `Matrix.of` of every
model operation is the corresponding Mathlib operation.
-/
set_option linter.unusedSectionVars false
namespace PyPhysim.LinAlg
open Matrix

/-- conjugation of the model scalars is Mathlib's `star` -/
instance instConjOfStar {K : Type} [Star K] : Conj K := ⟨star⟩

theorem sumFin_eq {β : Type} [AddCommMonoid β] : ∀ (n : Nat) (f : Fin n → β), sumFin n f = ∑ i, f i
  | 0, f => by simp [sumFin]
  | n+1, f => by rw [sumFin, sumFin_eq n, Fin.sum_univ_castSucc]

/-- a model matrix seen as a Mathlib matrix -/
abbrev toM {K : Type} {m n : Nat} (A : Mat K m n) : Matrix (Fin m) (Fin n) K := Matrix.of A

theorem toM_inj {K : Type} {m n : Nat} {A B : Mat K m n} (h : toM A = toM B) : A = B :=
  Matrix.of.injective h

section
variable {K : Type} [Ring K] {m k n : Nat}

theorem toM_matMul (A : Mat K m k) (B : Mat K k n) : toM (matMul A B) = toM A * toM B := by
  ext i j
  simp [matMul, sumFin_eq, Matrix.mul_apply]

theorem toM_eye : toM (eye : Mat K n n) = 1 := by
  ext i j
  simp [eye, Matrix.one_apply]

theorem toM_msub (A B : Mat K m n) : toM (msub A B) = toM A - toM B := by
  ext i j; simp [msub]

theorem toM_madd (A B : Mat K m n) : toM (madd A B) = toM A + toM B := by
  ext i j; simp [madd]

theorem toM_smul (c : K) (A : Mat K m n) : toM (smul c A) = c • toM A := by
  ext i j; simp [smul]

theorem toM_diagM (d : Fin n → K) : toM (diagM d) = Matrix.diagonal d := by
  ext i j; simp [diagM, Matrix.diagonal_apply]

end

section
variable {K : Type} [Ring K] [StarRing K] {m k n : Nat}

theorem toM_cT (A : Mat K m n) : toM (cT A) = (toM A)ᴴ := by
  ext i j
  simp [cT, Conj.conj, conjTranspose_apply]

theorem toM_gram (A : Mat K m k) : toM (gram A) = (toM A)ᴴ * toM A := by
  simp only [gram, toM_matMul, toM_cT]

theorem toM_projWith (G : Mat K k k) (A : Mat K m k) :
    toM (projWith G A) = toM A * toM G * (toM A)ᴴ := by
  simp only [projWith, toM_matMul, toM_cT]

theorem toM_oprojWith (G : Mat K k k) (A : Mat K m k) :
    toM (oprojWith G A) = 1 - toM A * toM G * (toM A)ᴴ := by
  simp only [oprojWith, toM_projWith, toM_eye, toM_msub]

theorem toM_project (Q : Mat K m m) (M : Mat K m n) : toM (project Q M) = toM Q * toM M :=
  toM_matMul Q M

theorem toM_reflect (Q : Mat K m m) (M : Mat K m n) :
    toM (reflect Q M) = (1 - (2 : K) • toM Q) * toM M := by
  simp only [reflect, toM_smul, toM_eye, toM_msub, toM_matMul, one_add_one_eq_two]

theorem toM_pangleArg (Q1 : Mat K m k) (Q2 : Mat K m n) :
    toM (pangleArg Q1 Q2) = (toM Q1)ᴴ * toM Q2 := by
  simp only [pangleArg, toM_matMul, toM_cT]

theorem frobSq_eq (D : Mat K m n) : frobSq D = Matrix.trace (toM D * (toM D)ᴴ) := by
  simp [frobSq, sumFin_eq, Matrix.trace, Matrix.mul_apply, conjTranspose_apply, Conj.conj]

end
/-- rewrite a model-level hypothesis into Mathlib matrix vocabulary -/
macro "to_matrix" " at " h:ident : tactic =>
  `(tactic| (replace $h := congrArg toM $h
             simp only [toM_matMul, toM_gram, toM_eye, toM_cT, toM_msub, toM_madd, toM_smul, toM_projWith,
               toM_oprojWith, toM_project, toM_reflect, toM_diagM, toM_pangleArg] at $h:ident))
/-- rewrite a model-level matrix equation (the goal) into Mathlib matrix vocabulary -/
macro "to_matrix" : tactic =>
  `(tactic| (apply toM_inj
             simp only [toM_matMul, toM_gram, toM_eye, toM_cT, toM_msub, toM_madd, toM_smul, toM_projWith,
               toM_oprojWith, toM_project, toM_reflect, toM_diagM, toM_pangleArg]))

end PyPhysim.LinAlg
