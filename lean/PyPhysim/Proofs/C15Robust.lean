import Mathlib.Tactic.Ring
import Mathlib.Tactic.Linarith
import Mathlib.Analysis.SpecialFunctions.Trigonometric.Basic
import PyPhysim.Model.C15Robust
import PyPhysim.Proofs.C16Dmin
import PyPhysim.Proofs.GrayGenerated

/-! Helper lemmas for the R15 / R16 statements of C15. -/
namespace PyPhysim.C15R
open PyPhysim.Proto PyPhysim.Gray PyPhysim.C01 PyPhysim.C16
open PyPhysim.Generated (binary2gray gray2binary count_bits)

/-! ### R15, integers: a Hamming distance of zero means *equal*, not *close* -/

theorem popcount_eq_zero_iff (n : Nat) : popcount n = 0 ↔ n = 0 := by
  induction n using Nat.strongRecOn with
  | _ n ih =>
    rw [popcount]
    by_cases h : n = 0
    · simp [h]
    · simp only [h, dite_false, iff_false]
      intro hs
      have h1 : n % 2 = 0 := by omega
      have h2 : popcount (n / 2) = 0 := by omega
      have := (ih (n / 2) (by omega)).mp h2
      omega

theorem hamming_eq_zero_iff (a b : Nat) : hamming a b = 0 ↔ a = b := by
  rw [hamming, popcount_eq_zero_iff]
  constructor
  · intro h
    apply Nat.eq_of_testBit_eq
    intro i
    have := congrArg (fun n => Nat.testBit n i) h
    simp only [Nat.testBit_xor, Nat.zero_testBit] at this
    cases ha : a.testBit i <;> cases hb : b.testBit i <;> simp_all
  · rintro rfl; exact Nat.xor_self a

/-- total bit errors of two equally long index lists vanish only if the lists are equal -/
theorem hamming_sum_eq_zero_iff (as bs : List Nat) (hl : as.length = bs.length) :
    (List.zipWith hamming as bs).sum = 0 ↔ as = bs := by
  induction as generalizing bs with
  | nil => cases bs <;> simp_all
  | cons a as ih =>
    cases bs with
    | nil => simp at hl
    | cons b bs =>
      simp only [List.length_cons, Nat.add_right_cancel_iff] at hl
      simp only [List.zipWith_cons_cons, List.sum_cons, Nat.add_eq_zero_iff, hamming_eq_zero_iff,
        ih bs hl, List.cons.injEq]

/-! ### R15, PSK: the table is an injective function of the offset (mod 2π) -/

/-- squared distance between the points one position takes under two offsets -/
theorem psk_offset_dist2 (M k : Nat) (φ₁ φ₂ : ℝ) :
    dist2 (pskNaturalPoint M k φ₁) (pskNaturalPoint (α := ℝ) M k φ₂)
      = (2 * Real.sin ((φ₁ - φ₂) / 2)) ^ 2 := by
  rw [← two_sub_two_cos]
  simp only [pskNaturalPoint, dist2, Trig.cos, Trig.sin, Trig.pi]
  set a := ((2:Nat):ℝ) * Real.pi / (M:ℝ) * (k:ℝ) + φ₁
  set b := ((2:Nat):ℝ) * Real.pi / (M:ℝ) * (k:ℝ) + φ₂
  have hab : 2 * ((φ₁ - φ₂) / 2) = a - b := by simp only [a, b]; ring
  rw [hab, Real.cos_sub]
  nlinarith [Real.cos_sq_add_sin_sq a, Real.cos_sq_add_sin_sq b]

theorem sin_half_ne_zero (δ : ℝ) (h0 : δ ≠ 0) (h : |δ| < 2 * Real.pi) : Real.sin (δ / 2) ≠ 0 := by
  rw [abs_lt] at h
  rcases lt_or_gt_of_ne h0 with hneg | hpos
  · exact (Real.sin_neg_of_neg_of_neg_pi_lt (by linarith) (by linarith)).ne
  · exact (Real.sin_pos_of_pos_of_lt_pi (by linarith) (by linarith)).ne'

theorem psk_offset_point_ne (M k : Nat) (φ₁ φ₂ : ℝ) (hne : φ₁ ≠ φ₂) (h : |φ₁ - φ₂| < 2 * Real.pi) :
    pskNaturalPoint M k φ₁ ≠ pskNaturalPoint (α := ℝ) M k φ₂ := by
  intro heq
  have hd := psk_offset_dist2 M k φ₁ φ₂
  rw [heq] at hd
  have h0 : dist2 (pskNaturalPoint (α := ℝ) M k φ₂) (pskNaturalPoint (α := ℝ) M k φ₂) = 0 := by
    simp [dist2]
  rw [h0] at hd
  have hs := sin_half_ne_zero (φ₁ - φ₂) (sub_ne_zero.mpr hne) h
  have : (2 * Real.sin ((φ₁ - φ₂) / 2)) ^ 2 ≠ 0 := pow_ne_zero 2 (mul_ne_zero two_ne_zero hs)
  exact this hd.symm

/-! ### the PSK object -/

theorem Psk.run_M {α : Type} (s : Psk α) (φs : List α) : (s.run φs).M = s.M := by
  induction φs generalizing s with
  | nil => rfl
  | cons φ φs ih => simp only [Psk.run, List.foldl_cons] at ih ⊢; rw [ih]; rfl

theorem Psk.run_snoc {α : Type} (s : Psk α) (φs : List α) (φ : α) :
    s.run (φs ++ [φ]) = ⟨s.M, φ, false⟩ := by
  simp only [Psk.run, List.foldl_append, List.foldl_cons, List.foldl_nil, Psk.setOffset]
  congr 1
  exact Psk.run_M s φs

/-! ### the buffer machine -/

theorem write_call (h : Heap) (op : Op) (hc : ∀ i xs, op ≠ .refill i xs) : write h op = h := by
  cases op <;> first | rfl | exact absurd rfl (hc _ _)

theorem run_append (h : Heap) (a b : List Op) :
    run h (a ++ b) = ((run (run h a).1 b).1, (run h a).2 ++ (run (run h a).1 b).2) := by
  induction a generalizing h with
  | nil => simp [run]
  | cons op a ih => simp only [List.cons_append, run, ih, List.cons_append]

theorem run_length (h : Heap) (ops : List Op) : (run h ops).2.length = ops.length := by
  induction ops generalizing h with
  | nil => rfl
  | cons op ops ih => simp [run, ih]

/-- the buffers after a history are what the caller's own refills made them -/
theorem run_heap_refills (h : Heap) (ops : List Op) : (run h ops).1 = (run h (refillsOnly ops)).1 := by
  induction ops generalizing h with
  | nil => rfl
  | cons op ops ih =>
    cases op with
    | refill i xs => simp only [refillsOnly, List.filter_cons, run] at ih ⊢; exact ih _
    | b2g i => simp only [refillsOnly, List.filter_cons, run, write] at ih ⊢; exact ih _
    | g2b i => simp only [refillsOnly, List.filter_cons, run, write] at ih ⊢; exact ih _
    | cbits i => simp only [refillsOnly, List.filter_cons, run, write] at ih ⊢; exact ih _
    | xor i j => simp only [refillsOnly, List.filter_cons, run, write] at ih ⊢; exact ih _
    | biterr i j => simp only [refillsOnly, List.filter_cons, run, write] at ih ⊢; exact ih _

theorem count_bits_zero : count_bits 0 = .ok 0 := by decide

theorem mapE_count_bits_self (xs : List Nat) :
    mapE count_bits (List.zipWith Generated.xor xs xs) = .ok (List.replicate xs.length 0) := by
  induction xs with
  | nil => rfl
  | cons x xs ih =>
    simp only [List.zipWith_cons_cons, mapE, ih, List.length_cons, List.replicate_succ]
    have : Generated.xor x x = 0 := Nat.xor_self x
    rw [this, count_bits_zero]

theorem sum_replicate_zero (n : Nat) : (List.replicate n 0).sum = 0 := by
  induction n with
  | zero => rfl
  | succ n ih => simp [List.replicate_succ, ih]

theorem zipWith_xor_self (xs : List Nat) :
    List.zipWith Generated.xor xs xs = List.replicate xs.length 0 := by
  induction xs with
  | nil => rfl
  | cons x xs ih =>
    simp only [List.zipWith_cons_cons, ih, List.length_cons, List.replicate_succ]
    congr 1
    exact Nat.xor_self x

theorem mapE_count_bits (xs : List Nat) : mapE count_bits xs = .ok (xs.map popcount) := by
  induction xs with
  | nil => rfl
  | cons x xs ih => simp only [mapE, gen_count_bits, ih, List.map_cons]

theorem zipWith_xor_popcount (as bs : List Nat) :
    (List.zipWith Generated.xor as bs).map popcount = List.zipWith hamming as bs := by
  induction as generalizing bs with
  | nil => simp
  | cons a as ih =>
    cases bs with
    | nil => simp
    | cons b bs => simp only [List.zipWith_cons_cons, List.map_cons, ih]; rfl

/-- `count_bit_errors(buf_i, buf_j)` is the sum of the element-wise Hamming distances -/
theorem result_biterr (h : Heap) (i j : Nat) :
    result h (.biterr i j) = .num (List.zipWith hamming (h i) (h j)).sum := by
  simp only [result, mapE_count_bits, zipWith_xor_popcount]

theorem gray2binary_zero : gray2binary 0 = 0 := by decide

end PyPhysim.C15R
