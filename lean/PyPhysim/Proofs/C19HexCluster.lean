import PyPhysim.Proofs.C19Hex
import PyPhysim.Proofs.C19Cluster

set_option linter.unusedSectionVars false
set_option linter.unusedTactic false
set_option linter.unreachableTactic false

/-! C19 — hexagon clusters: distances and separating lines from the lattice coordinates. -/
namespace PyPhysim.C19
open Real

/-! ### facts about the nineteen lattice points, decided by evaluation -/

theorem lat_min : ∀ i : Fin 19, ∀ j : Fin 19, i ≠ j → 12 ≤ latD (lat i) (lat j) := by decide

theorem lat_touch : ∀ i : Fin 19, 1 ≤ i.val → ∃ j : Fin 19, j.val < i.val ∧ latD (lat i) (lat j) = 12 := by decide

theorem lat_ring1 : ∀ i : Fin 19, 1 ≤ i.val → i.val ≤ 6 →
    latD (lat 0) (lat i) = 12 ∧ latD (lat i) (lat (i.val % 6 + 1)) = 12 := by decide

theorem lat_ring2 : ∀ i : Fin 19, 7 ≤ i.val →
    latD (lat 0) (lat i) = if (i.val - 7) % 2 = 0 then 36 else 48 := by decide

/-- `4/√3` times the component of a lattice vector along the edge normal `exp(j(30°+60°k))` -/
def latDot (k : ℕ) (p : ℤ × ℤ) : ℤ :=
  match k % 6 with
  | 0 => p.1 + p.2
  | 1 => 2 * p.2
  | 2 => p.2 - p.1
  | 3 => -(p.1 + p.2)
  | 4 => -(2 * p.2)
  | _ => p.1 - p.2

theorem lat_sep : ∀ i : Fin 19, ∀ j : Fin 19, i ≠ j →
    ∃ k : Fin 6, 4 ≤ latDot k ((lat j).1 - (lat i).1, (lat j).2 - (lat i).2) := by decide

theorem dot_E_lat (k : ℕ) (hk : k < 6) (p : ℤ × ℤ) :
    dot (E (2 * k + 1)) (latPt p) = Real.sqrt 3 / 4 * (latDot k p : ℝ) := by
  interval_cases k <;> norm_num [E_eq, e30, emb, dot, latPt, latDot] <;> ring_nf <;>
    (try rw [sq3]) <;> (try ring1)

/-! ### the raw layout -/

theorem hexRaw_getElem (R : ℝ) (n i : ℕ) (hi : i < n) :
    (hexRaw R n)[i]? = some (smul R (latPt (lat i))) := by
  simp [hexRaw, List.getElem?_map, List.getElem?_range hi, hexNorm_eq]

theorem hexRaw_getElem_some (R : ℝ) (n i : ℕ) (p : Pt ℝ) (h : (hexRaw R n)[i]? = some p) :
    i < n ∧ p = smul R (latPt (lat i)) := by
  have hlt : i < n := by
    by_contra hc
    have : (hexRaw R n)[i]? = none := by
      apply List.getElem?_eq_none
      simp [hexRaw]; omega
    rw [this] at h; cases h
  rw [hexRaw_getElem R n i hlt] at h
  exact ⟨hlt, (Option.some.inj h).symm⟩

/-- two apothems, squared -/
theorem two_apothem_sq (R : ℝ) : (2 * hexHeight R) * (2 * hexHeight R) = 3 * (R * R) := by
  simp only [hexHeight, Circ.sqrt]
  norm_num
  linear_combination (R * R) * s3

/-- centres of a hexagon cluster in lattice form -/
theorem hex_centres_dist (n : ℕ) (R : ℝ) (u pos : Pt ℝ) (hu : norm2 u = 1) (i j : ℕ) (ci cj : Pt ℝ)
    (hi : (clusterCentres (hexRaw R n) u pos)[i]? = some ci)
    (hj : (clusterCentres (hexRaw R n) u pos)[j]? = some cj) :
    i < n ∧ j < n ∧ dist2 ci cj = R * R / 4 * (latD (lat i) (lat j) : ℝ) ∧
      psub cj ci = rot u (psub (smul R (latPt (lat j))) (smul R (latPt (lat i)))) := by
  obtain ⟨pi, pj, hpi, hpj, hd, hsub⟩ := cluster_dist_invariant' _ u pos i j ci cj hi hj
  obtain ⟨hin, rfl⟩ := hexRaw_getElem_some R n i pi hpi
  obtain ⟨hjn, rfl⟩ := hexRaw_getElem_some R n j pj hpj
  refine ⟨hin, hjn, ?_, hsub⟩
  rw [hd, hu, one_mul, dist2_lat]

theorem hex_centres_exist (n : ℕ) (R : ℝ) (u pos : Pt ℝ) (i : ℕ) (hi : i < n) :
    ∃ ci, (clusterCentres (hexRaw R n) u pos)[i]? = some ci := by
  rw [clusterCentres_getElem, hexRaw_getElem R n i hi]
  exact ⟨_, rfl⟩

/-! ### separating lines -/

/-- two translates of the same rotated hexagon whose centres are at least two apothems apart along
    an edge normal are separated by a line -/
theorem hex_sep (R : ℝ) (hR : 0 ≤ R) (u : Pt ℝ) (hu : norm2 u = 1) (ci cj : Pt ℝ) (k : ℕ)
    (h : 2 * (R * Real.sqrt 3 / 2) ≤ dot (rot u (E (2 * k + 1))) (psub cj ci)) :
    Separated (cellVerts (hexVerts R) u ci) (cellVerts (hexVerts R) u cj) := by
  refine ⟨rot u (E (2 * k + 1)), dot (rot u (E (2 * k + 1))) ci + R * Real.sqrt 3 / 2, ?_, ?_, ?_⟩
  · rw [norm2_rot, hu, one_mul]
    simp only [E, norm2, Nat.cast_zero]
    have := Real.cos_sq_add_sin_sq (((2 * k + 1 : ℕ) : ℝ) * Real.pi / 6)
    nlinarith [this]
  · intro a ha
    simp only [cellVerts, place, List.mem_map] at ha
    obtain ⟨v, hv, rfl⟩ := ha
    rw [hexVerts_eq] at hv
    have hs := (hex_support R hR k v hv).1
    have : dot (rot u (E (2 * k + 1))) (padd ci (rot u v))
        = dot (rot u (E (2 * k + 1))) ci + dot (rot u (E (2 * k + 1))) (rot u v) := by
      simp only [dot, padd]; ring
    rw [this, dot_rot, hu, one_mul]
    linarith
  · intro b hb
    simp only [cellVerts, place, List.mem_map] at hb
    obtain ⟨w, hw, rfl⟩ := hb
    rw [hexVerts_eq] at hw
    have hs := (hex_support R hR k w hw).2
    have e1 : dot (rot u (E (2 * k + 1))) (padd cj (rot u w))
        = dot (rot u (E (2 * k + 1))) cj + dot (rot u (E (2 * k + 1))) (rot u w) := by
      simp only [dot, padd]; ring
    have e2 : dot (rot u (E (2 * k + 1))) (psub cj ci)
        = dot (rot u (E (2 * k + 1))) cj - dot (rot u (E (2 * k + 1))) ci := by
      simp only [dot, psub]; ring
    rw [e1, dot_rot, hu, one_mul]
    rw [e2] at h
    linarith

end PyPhysim.C19
