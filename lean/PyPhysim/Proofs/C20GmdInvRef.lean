import PyPhysim.Proofs.C20GmdInvArr

/-!
# `gmd` — refinement: one iteration of the array model is the functional step `stepA`

`gmdStep` (array state, `Except PyErr`) is cut into its four blocks (`pickM`, `swapM`, `innerM`,
`restM`; `gmdStep_eq` is `rfl`), each block is shown to return `.ok` inside the bounds with the
stated views, and the views of the resulting state are `stepA` of the views of the argument
(`gmdStep_refines`).  `GA` is the abstract state: total functions instead of arrays.
-/
set_option linter.unusedSectionVars false
set_option linter.unusedVariables false
namespace PyPhysim.LinAlg.GmdInv
open PyPhysim.Proto PyPhysim.LinAlg

variable {K : Type} [Field K] [RSqrt K] [LE K] [DecidableLE K]

def pickM (sb : K) (st : GmdState K) (dk : K) : Except PyErr (Nat × Nat × Nat × Bool) :=
    (if sb ≤ dk then do
        let i ← idx st.perm st.small
        let di ← idx st.d i
        pure (i, st.large, st.small - 1, decide (sb ≤ di))
      else do
        let i ← idx st.perm st.large
        let di ← idx st.d i
        pure (i, st.large + 1, st.small, decide (di ≤ sb)))

def swapM (st : GmdState K) (k1 i : Nat) :
    Except PyErr (Array K × Array Nat × Array Nat × Array (Array K) × Array (Array K)) :=
    (if i ≠ k1 then do
        let t ← idx st.d k1
        let di ← idx st.d i
        let d ← upd st.d k1 di
        let d ← upd d i t
        let j ← idx st.invperm k1
        let perm ← upd st.perm j i
        let invperm ← upd st.invperm i j
        let Q ← swapCols st.Q k1 i
        let P ← swapCols st.P k1 i
        pure (d, perm, invperm, Q, P)
      else pure (st.d, st.perm, st.invperm, st.Q, st.P))

def innerM (k : Nat) (c s : K) (R : Array (Array K)) (z : Array K) :
    Except PyErr (Array (Array K) × Array K) :=
  (List.range k).foldlM (fun (Rz : Array (Array K) × Array K) t => do
      let (R, z) := Rz
      let zt ← idx z t
      let row ← idx R t
      let row ← upd row k (zt * c)
      let R ← upd R t row
      let z ← upd z t (-zt * s)
      pure (R, z)) (R, z)

def restM (sb : K) (k : Nat) (st : GmdState K) (large small : Nat) (flag : Bool)
    (d : Array K) (perm invperm : Array Nat) (Q P : Array (Array K)) : Except PyErr (GmdState K) := do
  let k1 := k + 1
  let d1 ← idx d k
  let d2 ← idx d k1
  let (c, s) := gmdCS flag sb d1 d2
  let d ← upd d k1 (gmdY sb d1 d2)
  let z ← upd st.z k (gmdX sb d1 d2 c s)
  let rowk ← idx st.R k
  let rowk ← upd rowk k sb
  let R ← upd st.R k rowk
  let (R, z) ← innerM k c s R z
  let P ← rotCols P k k1 (gmdG1 c s)
  let Q ← rotCols Q k k1 (gmdG2 sb d1 d2 c s)
  let cc := c * c
  let mg := if flag then st.margin else
    (let a := if cc ≤ 1 - cc then cc else 1 - cc
     let df := d1 * d1 - d2 * d2
     let adf := if 0 ≤ df then df else -df
     let a := a * (adf / (sb * sb))
     if a ≤ st.margin then a else st.margin)
  pure { d := d, z := z, R := R, P := P, Q := Q, perm := perm, invperm := invperm,
         large := large, small := small, margin := mg }

theorem gmdStep_eq (sb : K) (k : Nat) (st : GmdState K) :
    gmdStep sb k st = (do
      let dk ← idx st.d k
      let (i, large, small, flag) ← pickM sb st dk
      let (d, perm, invperm, Q, P) ← swapM st (k + 1) i
      restM sb k st large small flag d perm invperm Q P) := rfl

theorem innerM_ok (m n k : Nat) (c s : K) (R : Array (Array K)) (z : Array K)
    (hR : R.size = m) (hrow : ∀ i, i < m → (cget R i).size = n) (hkz : k ≤ z.size) (hkm : k ≤ m)
    (hkn : k < n) :
    ∃ R' z', innerM k c s R z = .ok (R', z') ∧ R'.size = m ∧ (∀ i, i < m → (cget R' i).size = n) ∧
      z'.size = z.size ∧
      (∀ a b, entryRows R' a b = if b = k ∧ a < k then vget z a * c else entryRows R a b) ∧
      (∀ t, vget z' t = if t < k then -vget z t * s else vget z t) := by
  unfold innerM
  suffices h : ∀ t0, t0 ≤ k → ∃ R' z', (List.range t0).foldlM (fun (Rz : Array (Array K) × Array K) t => do
      let (R, z) := Rz
      let zt ← idx z t
      let row ← idx R t
      let row ← upd row k (zt * c)
      let R ← upd R t row
      let z ← upd z t (-zt * s)
      pure (R, z)) (R, z) = (.ok (R', z') : Except PyErr _) ∧ R'.size = m ∧ (∀ i, i < m → (cget R' i).size = n) ∧
      z'.size = z.size ∧
      (∀ a b, entryRows R' a b = if b = k ∧ a < t0 then vget z a * c else entryRows R a b) ∧
      (∀ t, vget z' t = if t < t0 then -vget z t * s else vget z t) from h k (le_refl k)
  intro t0
  induction t0 with
  | zero =>
    intro _
    exact ⟨R, z, by simp, hR, hrow, rfl, by simp, by simp⟩
  | succ t0 ih =>
    intro ht
    obtain ⟨R1, z1, h1, hR1, hrow1, hz1, hv1, hw1⟩ := ih (by omega)
    have e1 : idx z1 t0 = .ok (vget z t0) := by
      rw [idx_v _ _ (by omega), hw1]; simp
    have e2 : idx R1 t0 = .ok (cget R1 t0) := idx_c _ _ (by omega)
    have e3 : upd (cget R1 t0) k (vget z t0 * c) = .ok ((cget R1 t0).set! k (vget z t0 * c)) :=
      upd_ok _ _ _ (by rw [hrow1 t0 (by omega)]; exact hkn)
    refine ⟨R1.set! t0 ((cget R1 t0).set! k (vget z t0 * c)), z1.set! t0 (-vget z t0 * s), ?_, ?_, ?_, ?_, ?_, ?_⟩
    · rw [List.range_succ, List.foldlM_append, h1]
      simp only [ok_bind, List.foldlM_cons, List.foldlM_nil, e1, e2, e3]
      rw [upd_ok _ _ _ (by omega), ok_bind, upd_ok _ _ _ (by omega)]
      rfl
    · simpa using hR1
    · intro i hi
      rw [cget_set _ _ _ _ (by omega)]
      split
      · simp [hrow1 t0 (by omega)]
      · exact hrow1 i hi
    · simpa using hz1
    · intro a b
      rw [entryRows_eq, cget_set _ _ _ _ (by omega)]
      by_cases ha : a = t0
      · subst ha
        rw [if_pos rfl, vget_set _ _ _ _ (by rw [hrow1 a (by omega)]; exact hkn)]
        by_cases hb : b = k
        · simp [hb]
        · simp only [hb, false_and, if_false]
          rw [← entryRows_eq, hv1]; simp [hb]
      · rw [if_neg ha, ← entryRows_eq, hv1]
        by_cases hb : b = k
        · have : a < t0 + 1 ↔ a < t0 := by omega
          simp [hb, this]
        · simp [hb]
    · intro t
      rw [vget_set _ _ _ _ (by omega), hw1]
      by_cases h : t = t0
      · subst h; simp
      · have : t < t0 + 1 ↔ t < t0 := by omega
        simp [h, this]

/-! ## the abstract state and step -/

/-- abstract state of the sweep: the arrays as total functions -/
@[ext] structure GA (K : Type) where
  d : Nat → K
  z : Nat → K
  /-- `R row col` -/
  R : Nat → Nat → K
  /-- `P row col` -/
  P : Nat → Nat → K
  /-- `Q row col` -/
  Q : Nat → Nat → K
  perm : Nat → Nat
  invperm : Nat → Nat
  large : Nat
  small : Nat

/-- the views of an array state -/
def absSt (st : GmdState K) : GA K :=
  { d := vget st.d, z := vget st.z, R := entryRows st.R, P := entryCols st.P, Q := entryCols st.Q,
    perm := nget st.perm, invperm := nget st.invperm, large := st.large, small := st.small }

/-- columns `a`, `b` multiplied by the 2×2 matrix `g` from the right -/
def rotF (M : Nat → Nat → K) (a b : Nat) (g : K × K × K × K) : Nat → Nat → K :=
  fun i j => if j = a then M i a * g.1 + M i b * g.2.2.1
    else if j = b then M i a * g.2.1 + M i b * g.2.2.2 else M i j

/-- columns `a`, `b` interchanged -/
def swapF (M : Nat → Nat → K) (a b : Nat) : Nat → Nat → K :=
  fun i j => if j = b then M i a else if j = a then M i b else M i j

/-- partner index, new `large`, new `small`, `flag` -/
def pickA (sb : K) (k : Nat) (g : GA K) : Nat × Nat × Nat × Bool :=
  if sb ≤ g.d k then (g.perm g.small, g.large, g.small - 1, decide (sb ≤ g.d (g.perm g.small)))
  else (g.perm g.large, g.large + 1, g.small, decide (g.d (g.perm g.large) ≤ sb))

/-- `d` after the interchange -/
def dswA (g : GA K) (k1 i : Nat) : Nat → K :=
  fun q => if i ≠ k1 then (if q = i then g.d k1 else if q = k1 then g.d i else g.d q) else g.d q

/-- one iteration `k` of the sweep on the abstract state -/
def stepA (sb : K) (k : Nat) (g : GA K) : GA K :=
  let pk := pickA sb k g
  let i := pk.1
  let flag := pk.2.2.2
  let k1 := k + 1
  let j := g.invperm k1
  let dsw := dswA g k1 i
  let d1 := dsw k
  let d2 := dsw k1
  let cs := gmdCS flag sb d1 d2
  { d := fun q => if q = k1 then gmdY sb d1 d2 else dsw q
    z := fun t => if t < k then -g.z t * cs.2 else if t = k then gmdX sb d1 d2 cs.1 cs.2 else g.z t
    R := fun a b => if b = k ∧ a < k then g.z a * cs.1 else if a = k ∧ b = k then sb else g.R a b
    P := rotF (if i ≠ k1 then swapF g.P k1 i else g.P) k k1 (gmdG1 cs.1 cs.2)
    Q := rotF (if i ≠ k1 then swapF g.Q k1 i else g.Q) k k1 (gmdG2 sb d1 d2 cs.1 cs.2)
    perm := fun q => if i ≠ k1 ∧ q = j then i else g.perm q
    invperm := fun q => if i ≠ k1 ∧ q = i then j else g.invperm q
    large := pk.2.1
    small := pk.2.2.1 }

/-- sizes of the arrays of a state for an `m × n` problem with `p` singular values in use -/
structure Shape (m n p : Nat) (st : GmdState K) : Prop where
  d : p ≤ st.d.size
  z : st.z.size = p - 1
  R : st.R.size = m
  Rrow : ∀ i, i < m → (cget st.R i).size = n
  P : st.P.size = n
  Pcol : ∀ j, j < n → (cget st.P j).size = n
  Q : st.Q.size = m
  Qcol : ∀ j, j < m → (cget st.Q j).size = m
  perm : st.perm.size = p
  invperm : st.invperm.size = p

/-! ## the blocks -/

theorem pickM_ok (sb : K) (k p : Nat) (st : GmdState K) (hd : p ≤ st.d.size) (hp : st.perm.size = p)
    (hs : st.small < p) (hl : st.large < p) (his : nget st.perm st.small < p)
    (hil : nget st.perm st.large < p) :
    pickM sb st (vget st.d k) = .ok (pickA sb k (absSt st)) := by
  unfold pickM pickA absSt
  by_cases h : sb ≤ vget st.d k
  · simp only [h, if_true]
    rw [idx_n _ _ (by omega), ok_bind, idx_v _ _ (by omega)]
    rfl
  · simp only [h, if_false]
    rw [idx_n _ _ (by omega), ok_bind, idx_v _ _ (by omega)]
    rfl

theorem swapM_ok (m n p k1 i : Nat) (st : GmdState K) (sh : Shape m n p st) (hpm : p ≤ m) (hpn : p ≤ n)
    (hk1 : k1 < p) (hi : i < p) (hj : nget st.invperm k1 < p) :
    ∃ d perm invperm Q P, swapM st k1 i = .ok (d, perm, invperm, Q, P) ∧
      p ≤ d.size ∧ perm.size = p ∧ invperm.size = p ∧
      Q.size = m ∧ (∀ j, j < m → (cget Q j).size = m) ∧ P.size = n ∧ (∀ j, j < n → (cget P j).size = n) ∧
      vget d = dswA (absSt st) k1 i ∧
      nget perm = (fun q => if i ≠ k1 ∧ q = nget st.invperm k1 then i else nget st.perm q) ∧
      nget invperm = (fun q => if i ≠ k1 ∧ q = i then nget st.invperm k1 else nget st.invperm q) ∧
      entryCols Q = (if i ≠ k1 then swapF (entryCols st.Q) k1 i else entryCols st.Q) ∧
      entryCols P = (if i ≠ k1 then swapF (entryCols st.P) k1 i else entryCols st.P) := by
  by_cases h : i = k1
  · refine ⟨st.d, st.perm, st.invperm, st.Q, st.P, ?_, sh.d, sh.perm, sh.invperm, sh.Q, sh.Qcol, sh.P, sh.Pcol,
      ?_, ?_, ?_, ?_, ?_⟩
    · simp [swapM, h]
    · funext q; simp [dswA, h, absSt]
    · funext q; simp [h]
    · funext q; simp [h]
    · simp [h]
    · simp [h]
  · obtain ⟨Q', hQ', hQs, hQc⟩ := swapCols_ok st.Q k1 i (by rw [sh.Q]; omega) (by rw [sh.Q]; omega)
    obtain ⟨P', hP', hPs, hPc⟩ := swapCols_ok st.P k1 i (by rw [sh.P]; omega) (by rw [sh.P]; omega)
    refine ⟨(st.d.set! k1 (vget st.d i)).set! i (vget st.d k1), st.perm.set! (nget st.invperm k1) i,
      st.invperm.set! i (nget st.invperm k1), Q', P', ?_, ?_, ?_, ?_, ?_, ?_, ?_, ?_, ?_, ?_, ?_, ?_, ?_⟩
    · simp only [swapM, ne_eq, h, not_false_eq_true, if_true]
      rw [idx_v _ _ (by have := sh.d; omega), ok_bind, idx_v _ _ (by have := sh.d; omega), ok_bind,
        upd_ok _ _ _ (by have := sh.d; omega), ok_bind, upd_ok _ _ _ (by have := sh.d; simp; omega), ok_bind,
        idx_n _ _ (by rw [sh.invperm]; omega), ok_bind, upd_ok _ _ _ (by rw [sh.perm]; omega), ok_bind,
        upd_ok _ _ _ (by rw [sh.invperm]; omega), ok_bind, hQ', ok_bind, hP', ok_bind]
      rfl
    · have := sh.d; simpa using this
    · simp [sh.perm]
    · simp [sh.invperm]
    · rw [hQs, sh.Q]
    · intro j hj'
      rw [hQc]
      split
      · exact sh.Qcol _ (by omega)
      · split
        · exact sh.Qcol _ (by omega)
        · exact sh.Qcol _ hj'
    · rw [hPs, sh.P]
    · intro j hj'
      rw [hPc]
      split
      · exact sh.Pcol _ (by omega)
      · split
        · exact sh.Pcol _ (by omega)
        · exact sh.Pcol _ hj'
    · funext q
      rw [vget_set _ _ _ _ (by have := sh.d; simp; omega), vget_set _ _ _ _ (by have := sh.d; omega)]
      simp [dswA, h, absSt]
    · funext q
      rw [nget_set _ _ _ _ (by rw [sh.perm]; omega)]
      simp [h]
    · funext q
      rw [nget_set _ _ _ _ (by rw [sh.invperm]; omega)]
      simp [h]
    · funext a b
      simp only [ne_eq, h, not_false_eq_true, if_true, swapF, entryCols_eq, hQc]
      split
      · rfl
      · split <;> rfl
    · funext a b
      simp only [ne_eq, h, not_false_eq_true, if_true, swapF, entryCols_eq, hPc]
      split
      · rfl
      · split <;> rfl

theorem restM_ok (sb : K) (m n p k : Nat) (st : GmdState K) (large small : Nat) (flag : Bool)
    (d : Array K) (perm invperm : Array Nat) (Q P : Array (Array K))
    (sh : Shape m n p st) (hpm : p ≤ m) (hpn : p ≤ n) (hk : k + 1 < p)
    (hd : p ≤ d.size) (hperm : perm.size = p) (hinv : invperm.size = p)
    (hQ : Q.size = m) (hQc : ∀ j, j < m → (cget Q j).size = m)
    (hP : P.size = n) (hPc : ∀ j, j < n → (cget P j).size = n) :
    ∃ st', restM sb k st large small flag d perm invperm Q P = .ok st' ∧ Shape m n p st' ∧
      st'.perm = perm ∧ st'.invperm = invperm ∧ st'.large = large ∧ st'.small = small ∧
      (vget st'.d = fun q => if q = k + 1 then gmdY sb (vget d k) (vget d (k + 1)) else vget d q) ∧
      (vget st'.z = fun t => if t < k then -vget st.z t * (gmdCS flag sb (vget d k) (vget d (k + 1))).2
        else if t = k then gmdX sb (vget d k) (vget d (k + 1)) (gmdCS flag sb (vget d k) (vget d (k + 1))).1
          (gmdCS flag sb (vget d k) (vget d (k + 1))).2 else vget st.z t) ∧
      (entryRows st'.R = fun a b =>
        if b = k ∧ a < k then vget st.z a * (gmdCS flag sb (vget d k) (vget d (k + 1))).1
        else if a = k ∧ b = k then sb else entryRows st.R a b) ∧
      entryCols st'.P = rotF (entryCols P) k (k + 1)
        (gmdG1 (gmdCS flag sb (vget d k) (vget d (k + 1))).1 (gmdCS flag sb (vget d k) (vget d (k + 1))).2) ∧
      entryCols st'.Q = rotF (entryCols Q) k (k + 1)
        (gmdG2 sb (vget d k) (vget d (k + 1)) (gmdCS flag sb (vget d k) (vget d (k + 1))).1
          (gmdCS flag sb (vget d k) (vget d (k + 1))).2) := by
  rcases hcs : gmdCS flag sb (vget d k) (vget d (k + 1)) with ⟨c, s⟩
  -- the intermediate arrays
  have hz1 : (st.z.set! k (gmdX sb (vget d k) (vget d (k + 1)) c s)).size = p - 1 := by simp [sh.z]
  have hR1 : (st.R.set! k ((cget st.R k).set! k sb)).size = m := by simp [sh.R]
  have hR1row : ∀ i, i < m → (cget (st.R.set! k ((cget st.R k).set! k sb)) i).size = n := by
    intro i hi
    rw [cget_set _ _ _ _ (by rw [sh.R]; omega)]
    split
    · simp [sh.Rrow k (by omega)]
    · exact sh.Rrow i hi
  obtain ⟨R2, z2, hin, hR2, hR2row, hz2, hR2v, hz2v⟩ :=
    innerM_ok m n k c s _ _ hR1 hR1row (by rw [hz1]; omega) (by omega) (by omega)
  obtain ⟨P', hP', hPs, hPc', hPv⟩ := rotCols_ok P k (k + 1) n (gmdG1 c s) (by omega) (by omega) (by omega)
    (hPc k (by omega)) (hPc (k + 1) (by omega))
  obtain ⟨Q', hQ', hQs, hQc', hQv⟩ := rotCols_ok Q k (k + 1) m (gmdG2 sb (vget d k) (vget d (k + 1)) c s)
    (by omega) (by omega) (by omega) (hQc k (by omega)) (hQc (k + 1) (by omega))
  refine ⟨GmdState.mk (d.set! (k + 1) (gmdY sb (vget d k) (vget d (k + 1)))) z2 R2 P' Q'
    perm invperm large small ?mg, ?h1, ?h2⟩
  case h1 =>
    simp only [restM]
    rw [idx_v _ _ (by omega), ok_bind, idx_v _ _ (by omega), ok_bind]
    simp only [hcs]
    rw [upd_ok _ _ _ (by omega), ok_bind, upd_ok _ _ _ (by rw [sh.z]; omega), ok_bind,
      idx_c _ _ (by rw [sh.R]; omega), ok_bind, upd_ok _ _ _ (by rw [sh.Rrow k (by omega)]; omega), ok_bind,
      upd_ok _ _ _ (by rw [sh.R]; omega), ok_bind, hin, ok_bind]
    simp only [hP', hQ', ok_bind]
    rfl
  case h2 =>
    refine ⟨⟨?_, ?_, hR2, hR2row, ?_, ?_, ?_, ?_, hperm, hinv⟩, rfl, rfl, rfl, rfl, ?_, ?_, ?_, ?_, ?_⟩
    · simpa using hd
    · simp only []; rw [hz2, hz1]
    · simp only []; rw [hPs, hP]
    · intro j hj
      simp only []; rw [hPc']
      split
      · rfl
      · exact hPc j hj
    · simp only []; rw [hQs, hQ]
    · intro j hj
      simp only []; rw [hQc']
      split
      · rfl
      · exact hQc j hj
    · funext q
      simp only []
      rw [vget_set _ _ _ _ (by omega)]
    · funext t
      simp only []
      rw [hz2v, vget_set _ _ _ _ (by rw [sh.z]; omega)]
      by_cases h1 : t < k
      · have : t ≠ k := by omega
        simp [h1, this]
      · simp [h1]
    · funext a b
      simp only []
      rw [hR2v]
      by_cases h1 : b = k ∧ a < k
      · have : a ≠ k := by omega
        rw [if_pos h1, if_pos h1, vget_set _ _ _ _ (by rw [sh.z]; omega), if_neg this]
      · rw [if_neg h1, if_neg h1, entryRows_eq, cget_set _ _ _ _ (by rw [sh.R]; omega)]
        by_cases h2 : a = k
        · subst h2
          rw [if_pos rfl, vget_set _ _ _ _ (by rw [sh.Rrow a (by omega)]; omega)]
          by_cases h3 : b = a
          · simp [h3]
          · simp [h3, entryRows_eq]
        · simp [h2, entryRows_eq]
    · funext a b
      simp only []
      rw [hPv]; rfl
    · funext a b
      simp only []
      rw [hQv]; rfl

theorem pickA_lt (sb : K) (k p : Nat) (g : GA K) (his : g.perm g.small < p) (hil : g.perm g.large < p) :
    (pickA sb k g).1 < p := by
  unfold pickA
  split <;> assumption

/-- REFINEMENT of one iteration: inside the bounds the array step returns `.ok`, keeps the
    shape, and its views are the abstract step of the views -/
theorem gmdStep_refines (sb : K) (m n p k : Nat) (st : GmdState K) (sh : Shape m n p st)
    (hpm : p ≤ m) (hpn : p ≤ n) (hk : k + 1 < p) (hs : st.small < p) (hl : st.large < p)
    (his : nget st.perm st.small < p) (hil : nget st.perm st.large < p)
    (hj : nget st.invperm (k + 1) < p) :
    ∃ st', gmdStep sb k st = .ok st' ∧ Shape m n p st' ∧ absSt st' = stepA sb k (absSt st) := by
  have hpick := pickM_ok sb k p st sh.d sh.perm hs hl his hil
  have hi : (pickA sb k (absSt st)).1 < p := pickA_lt sb k p (absSt st) his hil
  rcases hpk : pickA sb k (absSt st) with ⟨i, large, small, flag⟩
  rw [hpk] at hpick hi
  obtain ⟨d, perm, invperm, Q, P, hsw, hd, hperm, hinv, hQ, hQc, hP, hPc, vd, vperm, vinv, vQ, vP⟩ :=
    swapM_ok m n p (k + 1) i st sh hpm hpn hk hi hj
  obtain ⟨st', hrest, sh', e1, e2, e3, e4, wd, wz, wR, wP, wQ⟩ :=
    restM_ok sb m n p k st large small flag d perm invperm Q P sh hpm hpn hk hd hperm hinv hQ hQc hP hPc
  refine ⟨st', ?_, sh', ?_⟩
  · rw [gmdStep_eq, idx_v _ _ (by have := sh.d; omega), ok_bind, hpick, ok_bind]
    simp only [hsw, ok_bind]
    exact hrest
  · apply GA.ext
    · show vget st'.d = (stepA sb k (absSt st)).d
      simp only [stepA, hpk]
      rw [wd, vd]
    · show vget st'.z = (stepA sb k (absSt st)).z
      simp only [stepA, hpk]
      rw [wz, vd]
      all_goals rfl
    · show entryRows st'.R = (stepA sb k (absSt st)).R
      simp only [stepA, hpk]
      rw [wR, vd]
      all_goals rfl
    · show entryCols st'.P = (stepA sb k (absSt st)).P
      simp only [stepA, hpk]
      rw [wP, vd, vP]
      all_goals rfl
    · show entryCols st'.Q = (stepA sb k (absSt st)).Q
      simp only [stepA, hpk]
      rw [wQ, vd, vQ]
      all_goals rfl
    · show nget st'.perm = (stepA sb k (absSt st)).perm
      simp only [stepA, hpk]
      rw [e1, vperm]
      all_goals rfl
    · show nget st'.invperm = (stepA sb k (absSt st)).invperm
      simp only [stepA, hpk]
      rw [e2, vinv]
      all_goals rfl
    · show st'.large = (stepA sb k (absSt st)).large
      simp only [stepA, hpk]
      rw [e3]
    · show st'.small = (stepA sb k (absSt st)).small
      simp only [stepA, hpk]
      rw [e4]

end PyPhysim.LinAlg.GmdInv
