import Mathlib.Topology.Instances.Matrix
import Mathlib.Analysis.Complex.Basic
import Mathlib.Topology.Algebra.GroupWithZero
import PyPhysim.Proofs.C04Filters

/-!
The MMSE filter tends to the zero-forcing filter as the noise variance tends to
zero from above.
-/
set_option linter.unusedSectionVars false
namespace PyPhysim.C04
open Matrix Filter Topology
open scoped ComplexOrder

namespace Pf
variable {m n : Nat}

/-- the regularised Gram matrix as a function of the noise variance -/
noncomputable def regGram (A : Matrix (Fin m) (Fin n) ℂ) (s : ℝ) : Matrix (Fin n) (Fin n) ℂ :=
  Aᴴ * A + (s : ℂ) • (1 : Matrix (Fin n) (Fin n) ℂ)

theorem regGram_continuous (A : Matrix (Fin m) (Fin n) ℂ) : Continuous (regGram A) := by
  unfold regGram
  exact continuous_const.add ((Complex.continuous_ofReal).smul continuous_const)

theorem regGram_zero (A : Matrix (Fin m) (Fin n) ℂ) : regGram A 0 = Aᴴ * A := by
  simp [regGram]

/-- `W(s) → W_zf` for any family of solutions of the MMSE systems -/
theorem mmse_tendsto (A : Matrix (Fin m) (Fin n) ℂ) (G : Matrix (Fin n) (Fin m) ℂ)
    (W : ℝ → Matrix (Fin n) (Fin m) ℂ) (hu : IsUnit (Aᴴ * A)) (hG : (Aᴴ * A) * G = Aᴴ)
    (hW : ∀ s : ℝ, 0 < s → regGram A s * W s = Aᴴ) :
    Tendsto W (𝓝[>] 0) (𝓝 G) := by
  -- closed form of any solution for s > 0
  have hform : ∀ s : ℝ, 0 < s → W s = G - (s : ℂ) • ((regGram A s)⁻¹ * G) := by
    intro s hs
    have hsub := mmse_sub A G (W s) (s : ℂ) hG (hW s hs)
    have hdet : IsUnit (regGram A s).det := (Matrix.isUnit_iff_isUnit_det _).mp (mmse_lhs_isUnit A hs)
    have h2 : (regGram A s)⁻¹ * (regGram A s * (G - W s)) = G - W s := by
      rw [← Matrix.mul_assoc, Matrix.nonsing_inv_mul _ hdet, Matrix.one_mul]
    have h3 : G - W s = (s : ℂ) • ((regGram A s)⁻¹ * G) := by
      rw [← h2]
      unfold regGram
      rw [hsub, Matrix.mul_smul]
    rw [← h3]
    abel
  -- continuity of the closed form at 0
  have hdet0 : (regGram A 0).det ≠ 0 := by
    rw [regGram_zero]
    exact ((Matrix.isUnit_iff_isUnit_det _).mp hu).ne_zero
  have hinvc : ContinuousAt (fun s : ℝ => (regGram A s)⁻¹) 0 := by
    have hri : ContinuousAt Ring.inverse (regGram A 0).det := by
      rw [Ring.inverse_eq_inv']
      exact continuousAt_inv₀ hdet0
    exact ContinuousAt.comp (g := fun M : Matrix (Fin n) (Fin n) ℂ => M⁻¹)
      (continuousAt_matrix_inv (regGram A 0) hri) (regGram_continuous A).continuousAt
  have hF : ContinuousAt (fun s : ℝ => G - (s : ℂ) • ((regGram A s)⁻¹ * G)) 0 := by
    refine continuousAt_const.sub (ContinuousAt.smul Complex.continuous_ofReal.continuousAt ?_)
    have : ContinuousAt (fun s : ℝ => (regGram A s)⁻¹ * G) 0 :=
      (continuous_id.matrix_mul (continuous_const (y := G))).continuousAt.comp hinvc
    exact this
  have hF0 : G - ((0 : ℝ) : ℂ) • ((regGram A 0)⁻¹ * G) = G := by
    simp
  have hT : Tendsto (fun s : ℝ => G - (s : ℂ) • ((regGram A s)⁻¹ * G)) (𝓝[>] 0) (𝓝 G) := by
    have := hF.tendsto
    rw [hF0] at this
    exact tendsto_nhdsWithin_of_tendsto_nhds this
  refine hT.congr' ?_
  refine eventually_nhdsWithin_of_forall (fun s hs => ?_)
  exact (hform s hs).symm

end Pf
end PyPhysim.C04
