import PyPhysim.Proofs.C20GmdKPerm

/-!
# `gmd` — the loop invariant on the abstract state and its preservation by `stepA`

`Inv … k g` = `MInv` (matrix part) ∧ `BInv` (bookkeeping part) of the abstract state `g`.
`Inv.step`: one iteration `stepA sb k` turns `Inv k` into `Inv (k + 1)`;
`Inv.bounds`: under `Inv k` every index the array model reads in iteration `k` is in range.
-/
set_option linter.unusedSectionVars false
set_option linter.unusedVariables false
set_option linter.unusedSimpArgs false
namespace PyPhysim.LinAlg.GmdK
open PyPhysim.Proto PyPhysim.LinAlg Matrix

/-- the loop invariant of the sweep after `k` iterations, on the abstract state -/
structure Inv (m n p : Nat) (A : Matrix (Fin m) (Fin n) ℝ) (S : Nat → ℝ) (sb : ℝ) (k : Nat) (g : GA) :
    Prop where
  mi : MInv m n p A sb k g.d g.z g.R (colv m g.Q) (colv n g.P)
  bi : BInv p S sb k g.d g.perm g.invperm g.large g.small

theorem pickA_1 (sb : ℝ) (k : Nat) (g : GA) :
    (pickA sb k g).1 = g.perm (pickRank sb (g.d k) g.large g.small) := by
  unfold pickA pickRank; split <;> rfl
theorem pickA_2 (sb : ℝ) (k : Nat) (g : GA) :
    (pickA sb k g).2.1 = if sb ≤ g.d k then g.large else g.large + 1 := by
  unfold pickA; split <;> rfl
theorem pickA_3 (sb : ℝ) (k : Nat) (g : GA) :
    (pickA sb k g).2.2.1 = if sb ≤ g.d k then g.small - 1 else g.small := by
  unfold pickA; split <;> rfl
theorem pickA_4 (sb : ℝ) (k : Nat) (g : GA) :
    (pickA sb k g).2.2.2 = if sb ≤ g.d k then decide (sb ≤ g.d (g.perm g.small))
      else decide (g.d (g.perm g.large) ≤ sb) := by
  unfold pickA; split <;> rfl

theorem dswA_eq (g : GA) (k1 i q : Nat) : dswA g k1 i q = g.d (sw k1 i q) := by
  unfold dswA sw
  by_cases h : i = k1
  · subst h
    simp only [ne_eq, not_true_eq_false, if_false]
    split_ifs with h1 <;> simp [h1]
  · simp only [ne_eq, h, not_false_eq_true, if_true]
    split_ifs <;> rfl

theorem colv_swap_if (r : Nat) (M : Nat → Nat → ℝ) (k1 i j : Nat) :
    colv r (if i ≠ k1 then swapF M k1 i else M) j = colv r M (sw k1 i j) := by
  by_cases h : i = k1
  · subst h
    have : sw i i j = j := by unfold sw; split_ifs <;> omega
    simp [this]
  · simp only [ne_eq, h, not_false_eq_true, if_true, colv_swapF]

theorem sw_left (a b : Nat) : sw a b a = b := by
  unfold sw; split_ifs <;> omega

/-- under the invariant every index read by iteration `k` of the array model is in range -/
theorem Inv.bounds {m n p : Nat} {A : Matrix (Fin m) (Fin n) ℝ} {S : Nat → ℝ} {sb : ℝ} {k : Nat} {g : GA}
    (h : Inv m n p A S sb k g) (hk : k + 1 < p) :
    g.small < p ∧ g.large < p ∧ g.perm g.small < p ∧ g.perm g.large < p ∧ g.invperm (k + 1) < p := by
  have hc := h.bi.cnt
  have hs := h.bi.sp
  have hls : g.large ≤ g.small := by omega
  refine ⟨hs, by omega, (h.bi.pm g.small hls (le_refl _)).2.1, (h.bi.pm g.large (le_refl _) hls).2.1, ?_⟩
  have := h.bi.ip (k + 1) (by omega) hk
  omega

/-- PRESERVATION: one iteration of the sweep turns the invariant for `k` into the invariant for
    `k + 1` (singular values positive and non-increasing, `σ̄ > 0`) -/
theorem Inv.step {m n p : Nat} {A : Matrix (Fin m) (Fin n) ℝ} {S : Nat → ℝ} {sb : ℝ} {k : Nat} {g : GA}
    (h : Inv m n p A S sb k g) (hpm : p ≤ m) (hpn : p ≤ n) (hk : k + 1 < p) (hsb : 0 < sb)
    (Spos : ∀ r, r < p → 0 < S r) (Smono : ∀ r r', r ≤ r' → r' < p → S r' ≤ S r) :
    Inv m n p A S sb (k + 1) (stepA sb k g) := by
  have hc := h.bi.cnt
  have hs := h.bi.sp
  have hl1 := h.bi.l1
  have hls : g.large ≤ g.small := by omega
  set r0 := pickRank sb (g.d k) g.large g.small with hr0
  set i := (pickA sb k g).1 with hi
  have hi' : i = g.perm r0 := pickA_1 sb k g
  have hr0l : g.large ≤ r0 := by rw [hr0, pickRank]; split <;> omega
  have hr0s : r0 ≤ g.small := by rw [hr0, pickRank]; split <;> omega
  obtain ⟨hik, hip, hdi, _⟩ := h.bi.pm r0 hr0l hr0s
  rw [← hi'] at hik hip hdi
  have e_dk : g.d (sw (k + 1) i k) = g.d k := by rw [sw_of_lt (k + 1) i k k (by omega) hik (le_refl k)]
  have e_dk1 : g.d (sw (k + 1) i (k + 1)) = g.d i := by rw [sw_left]
  -- the rotation parameters satisfy the two identities
  have hprod : g.d k * ∏ r ∈ Finset.Ico g.large (g.small + 1), S r = sb ^ (g.small + 1 - g.large + 1) := by
    rw [h.bi.prod]; congr 1; omega
  have SposI : ∀ r ∈ Finset.Ico g.large (g.small + 1), 0 < S r := by
    intro r hr; have := Finset.mem_Ico.mp hr; exact Spos r (by omega)
  have hcs : (gmdCS (pickA sb k g).2.2.2 sb (g.d k) (g.d i)).1 ^ 2 +
      (gmdCS (pickA sb k g).2.2.2 sb (g.d k) (g.d i)).2 ^ 2 = 1 ∧
      (gmdCS (pickA sb k g).2.2.2 sb (g.d k) (g.d i)).1 ^ 2 * g.d k ^ 2 +
      (gmdCS (pickA sb k g).2.2.2 sb (g.d k) (g.d i)).2 ^ 2 * g.d i ^ 2 = sb ^ 2 := by
    rw [pickA_4]
    by_cases hge : sb ≤ g.d k
    · have e0 : r0 = g.small := by rw [hr0, pickRank, if_pos hge]
      have e1 : i = g.perm g.small := by rw [hi', e0]
      rw [if_pos hge, ← e1, hdi, e0]
      exact pick_small_cs S sb (g.d k) g.large (g.small + 1) g.small hsb SposI
        (fun r hr => by have := Finset.mem_Ico.mp hr; exact Smono r g.small (by omega) hs)
        (Finset.mem_Ico.mpr ⟨hls, by omega⟩) hprod hge
    · have e0 : r0 = g.large := by rw [hr0, pickRank, if_neg hge]
      have e1 : i = g.perm g.large := by rw [hi', e0]
      rw [if_neg hge, ← e1, hdi, e0]
      exact pick_large_cs S sb (g.d k) g.large (g.small + 1) g.large hsb h.bi.dpos SposI
        (fun r hr => by have := Finset.mem_Ico.mp hr; exact Smono g.large r (by omega) (by omega))
        (Finset.mem_Ico.mpr ⟨le_refl _, by omega⟩) hprod (not_le.mp hge)
  constructor
  · -- matrix part: interchange, then rotation
    have hsw := h.mi.swap hpm hpn (k + 1) i (by omega) hk hik hip
    have h2' : (gmdCS (pickA sb k g).2.2.2 sb (g.d k) (g.d i)).1 ^ 2 * g.d (sw (k + 1) i k) ^ 2 +
        (gmdCS (pickA sb k g).2.2.2 sb (g.d k) (g.d i)).2 ^ 2 * g.d (sw (k + 1) i (k + 1)) ^ 2 = sb ^ 2 := by
      rw [e_dk, e_dk1]; exact hcs.2
    refine hsw.rot hpm hpn hk _ _ hsb.ne' hcs.1 h2' _ _ _ _ _ ?_ ?_ ?_ ?_ ?_
    · intro q
      show (stepA sb k g).d q = _
      simp only [stepA, dswA_eq, ← hi, e_dk, e_dk1]
    · intro t
      show (stepA sb k g).z t = _
      simp only [stepA, dswA_eq, ← hi, e_dk, e_dk1]
    · intro a b
      show (stepA sb k g).R a b = _
      simp only [stepA, dswA_eq, ← hi, e_dk, e_dk1]
    · intro j
      show colv m (stepA sb k g).Q j = _
      simp only [stepA, dswA_eq, colv_rotF, colv_swap_if, ← hi, e_dk, e_dk1]
    · intro j
      show colv n (stepA sb k g).P j = _
      simp only [stepA, dswA_eq, colv_rotF, colv_swap_if, ← hi, e_dk, e_dk1]
  · -- bookkeeping part
    refine h.bi.step hk hsb Spos r0 i _ _ hr0 hi' (pickA_2 sb k g) (pickA_3 sb k g) _ _ _ ?_ ?_ ?_
    · intro q
      show (stepA sb k g).d q = _
      simp only [stepA, dswA_eq, ← hi, e_dk, e_dk1]
    · intro q
      show (stepA sb k g).perm q = _
      simp only [stepA, ← hi]
    · intro q
      show (stepA sb k g).invperm q = _
      simp only [stepA, ← hi]

end PyPhysim.LinAlg.GmdK
