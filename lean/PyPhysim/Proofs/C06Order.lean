import PyPhysim.Proofs.C06Heap

/-! C06: the insertion order of the result names of an operand is not part of its value —
`merge_all_results` and `combine_simulation_results` find the operand's results by name. -/
namespace PyPhysim.C06M
open PyPhysim.Proto

theorem dictGet?_reorderDict (d : Dict) (names : List String) (nm : String) :
    dictGet? (reorderDict d names) nm = if nm ∈ names then dictGet? d nm else none := by
  induction names with
  | nil => simp [reorderDict, dictGet?]
  | cons n0 rest ih =>
    simp only [reorderDict]
    cases h0 : dictGet? d n0 with
    | none =>
      simp only [ih, List.mem_cons]
      by_cases e : nm = n0
      · subst e; simp [h0]
      · simp [e]
    | some l =>
      simp only [dictGet?, ih, List.mem_cons]
      by_cases e : n0 = nm
      · subst e; simp [h0]
      · have e' : ¬ nm = n0 := fun x => e x.symm
        simp [e, e']

theorem lastOf_congr_dict {m : Mach} {d d' : Dict} (h : ∀ k, dictGet? d' k = dictGet? d k) (nm : String) :
    lastOf m d' nm = lastOf m d nm := by
  simp [lastOf, h]

theorem checkNames_congr {ds od od' : Dict} (h : ∀ k, dictGet? od' k = dictGet? od k) (m : Mach)
    (names : List String) : checkNames ds od' m names = checkNames ds od m names := by
  induction names with
  | nil => rfl
  | cons nm rest ih =>
    unfold checkNames
    rw [lastOf_congr_dict h nm, ih]

theorem mergeNames_congr {ds od od' : Dict} (h : ∀ k, dictGet? od' k = dictGet? od k) (m : Mach)
    (names : List String) : mergeNames ds od' m names = mergeNames ds od m names := by
  induction names generalizing m with
  | nil => rfl
  | cons nm rest ih =>
    unfold mergeNames
    rw [lastOf_congr_dict h nm]
    split
    · exact ih m
    · split
      · rfl
      · split
        · rfl
        · split
          · rename_i m' _; exact ih m'
          · rfl

theorem combineRows_congr {d1 d1' d2 d2' : Dict} (h1 : ∀ k, dictGet? d1' k = dictGet? d1 k)
    (h2 : ∀ k, dictGet? d2' k = dictGet? d2 k) (m : Mach) (v1 v2 : List (List Rat))
    (combos : List (List Rat)) (names : List String) :
    combineRows m d1' d2' v1 v2 combos names = combineRows m d1 d2 v1 v2 combos names := by
  induction names with
  | nil => rfl
  | cons nm rest ih =>
    unfold combineRows
    rw [h1 nm, h2 nm, ih]

end PyPhysim.C06M
