import Mathlib.Algebra.Order.Field.Basic
import Mathlib.Tactic.Ring
import Mathlib.Tactic.Linarith
import Mathlib.Tactic.Positivity
import PyPhysim.Proofs.C01Argmin

/-! Nearest-symbol detection over any linear ordered field. -/
namespace PyPhysim.C01
variable {α : Type} [Field α] [LinearOrder α] [IsStrictOrderedRing α]

theorem dist2_self (p : α × α) : dist2 p p = 0 := by simp [dist2]

theorem dist2_nonneg (p q : α × α) : 0 ≤ dist2 p q := by
  unfold dist2; nlinarith [mul_self_nonneg (p.1 - q.1), mul_self_nonneg (p.2 - q.2)]

theorem dist2_pos_of_ne (p q : α × α) (h : p ≠ q) : 0 < dist2 p q := by
  unfold dist2
  have h1 := mul_self_nonneg (p.1 - q.1)
  have h2 := mul_self_nonneg (p.2 - q.2)
  rcases lt_or_eq_of_le (add_nonneg h1 h2) with hlt | heq
  · exact hlt
  · exfalso
    have e1 : (p.1 - q.1) * (p.1 - q.1) = 0 := by linarith
    have e2 : (p.2 - q.2) * (p.2 - q.2) = 0 := by linarith
    have a1 : p.1 - q.1 = 0 := mul_self_eq_zero.mp e1
    have a2 : p.2 - q.2 = 0 := mul_self_eq_zero.mp e2
    apply h
    ext
    · exact sub_eq_zero.mp a1
    · exact sub_eq_zero.mp a2

theorem demod_nearest' (c : List (α × α)) (hc : c ≠ []) (r : α × α) :
    ∃ p, c[demod c r]? = some p ∧
      ∀ j q, c[j]? = some q → dist2 r p ≤ dist2 r q ∧ (j < demod c r → dist2 r p < dist2 r q) := by
  have hne : c.map (dist2 r) ≠ [] := by simpa using hc
  obtain ⟨v, hv, hall⟩ := argminIdx_spec (c.map (dist2 r)) hne
  rw [List.getElem?_map] at hv
  unfold demod
  cases hp : c[argminIdx (c.map (dist2 r))]? with
  | none => rw [hp] at hv; cases hv
  | some p =>
    rw [hp] at hv
    simp at hv
    refine ⟨p, rfl, ?_⟩
    intro j q hq
    have := hall j (dist2 r q) (by rw [List.getElem?_map, hq]; rfl)
    rw [← hv] at this
    exact this

theorem demod_modulate' (c : List (α × α)) (hnd : c.Nodup) (i : Nat) (p : α × α)
    (hi : c[i]? = some p) : demod c p = i := by
  unfold demod
  apply argminIdx_unique (c.map (dist2 p)) i (dist2 p p)
  · rw [List.getElem?_map, hi]; rfl
  · intro j y hj hne
    rw [List.getElem?_map] at hj
    cases hq : c[j]? with
    | none => rw [hq] at hj; cases hj
    | some q =>
      rw [hq] at hj; simp at hj; subst hj
      rw [dist2_self]
      apply dist2_pos_of_ne
      intro hpq
      subst hpq
      have hi' : i < c.length := by
        by_contra hc'; rw [List.getElem?_eq_none (Nat.le_of_not_lt hc')] at hi; cases hi
      have hj' : j < c.length := by
        by_contra hc'; rw [List.getElem?_eq_none (Nat.le_of_not_lt hc')] at hq; cases hq
      have e1 : c[i] = p := by
        have := List.getElem?_eq_getElem hi'; rw [this] at hi; exact Option.some.inj hi
      have e2 : c[j] = p := by
        have := List.getElem?_eq_getElem hj'; rw [this] at hq; exact Option.some.inj hq
      exact hne ((List.Nodup.getElem_inj_iff hnd).mp (e2.trans e1.symm))

end PyPhysim.C01
