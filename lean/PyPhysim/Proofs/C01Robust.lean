import PyPhysim.Proofs.C01Detect
import PyPhysim.Proofs.C01Psk
import PyPhysim.Model.C01Alias

/-!
Lemmas for the robustness classes R15 (distinct values that are merely close) and R16
(argument identity / buffer reuse) of C01.
-/
namespace PyPhysim.C01
open PyPhysim.Proto

/-! ### R15 -/
section
variable {α : Type} [Field α] [LinearOrder α]

/-- the decision is a function of the exact sample: whenever ONE point is strictly nearest — by
    however little — its index is returned -/
theorem demod_of_strict_nearest' (c : List (α × α)) (r : α × α) (i : Nat) (p : α × α)
    (hi : c[i]? = some p)
    (hmin : ∀ j q, c[j]? = some q → j ≠ i → dist2 r p < dist2 r q) : demod c r = i := by
  unfold demod
  apply argminIdx_unique (c.map (dist2 r)) i (dist2 r p)
  · rw [List.getElem?_map, hi]; rfl
  · intro j y hj hne
    rw [List.getElem?_map] at hj
    cases hq : c[j]? with
    | none => rw [hq] at hj; cases hj
    | some q =>
      rw [hq] at hj; simp at hj; subst hj
      exact hmin j q hq hne
end

section
variable {α : Type}

theorem currentTable_append (t₀ : List (α × α)) (h h' : List (ModOp α)) :
    currentTable t₀ (h ++ h') = currentTable (currentTable t₀ h) h' := by
  induction h generalizing t₀ with
  | nil => rfl
  | cons op ops ih => cases op <;> simp [currentTable, ih]

theorem currentTable_append_setTable (t₀ t : List (α × α)) (h : List (ModOp α)) :
    currentTable t₀ (h ++ [ModOp.setTable t]) = t := by
  rw [currentTable_append]; rfl
end

/-- two offsets put point `k` of an `M`-PSK circle at the same place exactly when they differ by
    a whole number of turns -/
theorem psk_point_offset_iff (M k : Nat) (φ φ' : ℝ) :
    pskNaturalPoint M k φ = pskNaturalPoint (α := ℝ) M k φ' ↔ ∃ n : ℤ, φ - φ' = 2 * Real.pi * n := by
  simp only [pskNaturalPoint, Prod.mk.injEq]
  constructor
  · rintro ⟨hc, hs⟩
    have hang := Real.Angle.cos_sin_inj hc hs
    rw [Real.Angle.angle_eq_iff_two_pi_dvd_sub] at hang
    obtain ⟨n, hn⟩ := hang
    exact ⟨n, by linarith⟩
  · rintro ⟨n, hn⟩
    have e : ∀ x : ℝ, x + φ = x + φ' + (n : ℝ) * (2 * Real.pi) := fun x => by linarith
    rw [e]
    exact ⟨Real.cos_add_int_mul_two_pi _ n, Real.sin_add_int_mul_two_pi _ n⟩

/-! ### R16 -/
section
variable {α : Type} [Add α] [Sub α] [Mul α] [LT α] [DecidableLT α]

theorem aState_append (s : AState α) (h h' : List (AOp α)) :
    aState s (h ++ h') = aState (aState s h) h' := by
  induction h generalizing s with
  | nil => rfl
  | cons op ops ih => simp [aState, ih]

theorem aOutputs_append (s : AState α) (h h' : List (AOp α)) :
    aOutputs s (h ++ h') = aOutputs s h ++ aOutputs (aState s h) h' := by
  induction h generalizing s with
  | nil => rfl
  | cons op ops ih => simp [aOutputs, aState, ih]

theorem aOutputs_length (s : AState α) (h : List (AOp α)) : (aOutputs s h).length = h.length := by
  induction h generalizing s with
  | nil => rfl
  | cons op ops ih => simp [aOutputs, ih]

/-- the output of the operation that follows the history `h₁` is one step from the state then -/
theorem aOutputs_at (s : AState α) (h₁ h₂ : List (AOp α)) (op : AOp α) :
    (aOutputs s (h₁ ++ op :: h₂))[h₁.length]? = some (aStep (aState s h₁) op).2 := by
  rw [aOutputs_append, List.getElem?_append_right (by simp [aOutputs_length])]
  simp [aOutputs_length, aOutputs]

/-- as long as neither a constructor / `setPhaseOffset` nor `setConstellation` runs, a table made
    by the object stays in force, whatever the caller does to its arrays -/
theorem own_table_kept (s : AState α) (t : List (α × α)) (h : List (AOp α))
    (hs : s.table = .own t) (hk : ∀ op ∈ h, op.keepsTable = true) :
    (aState s h).table = .own t := by
  induction h generalizing s with
  | nil => exact hs
  | cons op ops ih =>
    have h1 := hk op (List.mem_cons_self ..)
    have h2 : ∀ o ∈ ops, o.keepsTable = true := fun o ho => hk o (List.mem_cons_of_mem _ ho)
    cases op with
    | install t' => simp [AOp.keepsTable] at h1
    | setConstellation b => simp [AOp.keepsTable] at h1
    | setConstellationCopy b => simp [AOp.keepsTable] at h1
    | fillC b v => exact ih _ (by simpa [aStep] using hs) h2
    | fillI b v => exact ih _ (by simpa [aStep] using hs) h2
    | demodulate b => exact ih _ (by simpa [aStep] using hs) h2
    | modulate b => exact ih _ (by simpa [aStep] using hs) h2

end

theorem resolve_own {α : Type} (s : AState α) (t : List (α × α)) (hs : s.table = .own t) :
    s.resolve = t := by
  simp [AState.resolve, hs]

end PyPhysim.C01
