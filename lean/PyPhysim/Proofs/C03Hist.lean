import PyPhysim.Proofs.C03Su

/-!
# C03 — operation histories: a run is a chain of steps; the fading position counter
-/
namespace PyPhysim.C03
open PyPhysim.Proto

variable {α : Type} [CommSemiring α]

/-- a successful run decomposes into successful steps, each starting in the state the
    prefix of the history leads to -/
theorem su_run_steps (proc : Proc α) (fftK : Fft α) (ops : List (SuOp α)) (c0 cf : Su α) (outs : List (SuOut α))
    (h : Su.run proc fftK c0 ops = .ok (cf, outs)) :
    outs.length = ops.length ∧
    ∀ k op, ops[k]? = some op → ∃ ck ck' o,
      Su.run proc fftK c0 (ops.take k) = .ok (ck, outs.take k) ∧
      ck.step proc fftK op = .ok (ck', o) ∧ outs[k]? = some o := by
  induction ops generalizing c0 outs with
  | nil =>
    simp only [Su.run, pure, Except.pure, Except.ok.injEq, Prod.mk.injEq] at h
    obtain ⟨rfl, rfl⟩ := h
    exact ⟨rfl, by intro k op hk; simp at hk⟩
  | cons op ops ih =>
    simp only [Su.run, bind, Except.bind, pure, Except.pure] at h
    cases hs : c0.step proc fftK op with
    | error e => simp [hs] at h
    | ok r =>
      obtain ⟨c1, o1⟩ := r
      simp only [hs] at h
      cases hr : Su.run proc fftK c1 ops with
      | error e => simp [hr] at h
      | ok r2 =>
        obtain ⟨cf', os⟩ := r2
        simp only [hr, Except.ok.injEq, Prod.mk.injEq] at h
        obtain ⟨rfl, rfl⟩ := h
        obtain ⟨hlen, hsteps⟩ := ih c1 os hr
        refine ⟨by simp [hlen], ?_⟩
        intro k op' hk
        cases k with
        | zero =>
          simp only [List.getElem?_cons_zero, Option.some.injEq] at hk
          subst hk
          exact ⟨c0, c1, o1, by simp [Su.run, pure, Except.pure], hs, by simp⟩
        | succ k =>
          simp only [List.getElem?_cons_succ] at hk
          obtain ⟨ck, ck', o, h1, h2, h3⟩ := hsteps k op' hk
          refine ⟨ck, ck', o, ?_, h2, by simpa using h3⟩
          simp only [List.take_succ_cons, Su.run, bind, Except.bind, hs, h1, pure, Except.pure]

theorem tdl_corrupt_state (proc : Proc α) (c c' : Tdl α) (x y : List (List α))
    (h : c.corrupt proc x = .ok (c', y)) : c' = c.afterTx proc (numSymbols x) := by
  unfold Tdl.corrupt at h
  simp only [bind, Except.bind, pure, Except.pure] at h
  cases hso : c.signalOk x with
  | false => simp [hso, throw, throwThe, MonadExceptOf.throw] at h
  | true =>
  simp only [hso, Bool.not_true, Bool.false_eq_true, if_false] at h
  cases hm : c.mem with
  | error e => simp [hm] at h
  | ok mem =>
    simp only [hm] at h
    cases ha : c.ant with
    | none =>
      simp only [ha] at h
      cases x with
      | nil => simp [throw, throwThe, MonadExceptOf.throw] at h
      | cons v rest =>
        cases rest with
        | nil =>
          simp only [Except.ok.injEq, Prod.mk.injEq] at h
          rw [← h.1]
          simp [Tdl.afterTx, ha]
        | cons w rest => simp [throw, throwThe, MonadExceptOf.throw] at h
    | some d =>
      simp only [ha] at h
      by_cases hl : x.length = (c.dims d.1 d.2).2
      swap
      · simp [hl, throw, throwThe, MonadExceptOf.throw] at h
      · simp only [hl, ne_eq, not_true_eq_false, if_false, Except.ok.injEq, Prod.mk.injEq] at h
        rw [← h.1]
        simp [Tdl.afterTx, ha]

theorem tdl_corruptFreq_state (proc : Proc α) (fftK : Fft α) (c c' : Tdl α) (x y : List (List α)) (fft : Nat)
    (sel : Sel) (h : c.corruptFreq proc fftK x fft sel = .ok (c', y)) :
    ∃ ps B nb last, freqPlan sel fft (numSymbols x) = .ok (ps, B, nb) ∧ c' = c.afterFx fft nb last := by
  unfold Tdl.corruptFreq at h
  simp only [bind, Except.bind, pure, Except.pure] at h
  cases hso : c.signalOk x with
  | false => simp [hso, throw, throwThe, MonadExceptOf.throw] at h
  | true =>
  simp only [hso, Bool.not_true, Bool.false_eq_true, if_false] at h
  cases hp : freqPlan sel fft (numSymbols x) with
  | error e => simp [hp] at h
  | ok r =>
    obtain ⟨ps, B, nb⟩ := r
    simp only [hp] at h
    obtain ⟨hfft, -, -, -, -, -, -⟩ := freqPlan_ok hp
    cases hc : concatIR (blockIRs proc c fft nb c.pos) with
    | error e => simp [hc] at h
    | ok last =>
      simp only [hc] at h
      refine ⟨ps, B, nb, last, rfl, ?_⟩
      cases ha : c.ant with
      | none =>
        simp only [ha] at h
        cases x with
        | nil => simp [throw, throwThe, MonadExceptOf.throw] at h
        | cons v rest =>
          cases rest with
          | nil =>
            simp only [Except.ok.injEq, Prod.mk.injEq] at h
            rw [← h.1]
            simp [Tdl.afterFx, ha, blockEndPos_eq _ _ hfft]
          | cons w rest => simp [throw, throwThe, MonadExceptOf.throw] at h
      | some d =>
        simp only [ha] at h
        by_cases hl : x.length = (c.dims d.1 d.2).2
        swap
        · simp [hl, throw, throwThe, MonadExceptOf.throw] at h
        · simp only [hl, ne_eq, not_true_eq_false, if_false, Except.ok.injEq, Prod.mk.injEq] at h
          rw [← h.1]
          simp [Tdl.afterFx, ha, blockEndPos_eq _ _ hfft]

/-- what one successful step does to the configuration and to the position counter -/
theorem su_step_state (proc : Proc α) (fftK : Fft α) (c c' : Su α) (op : SuOp α) (o : SuOut α)
    (h : c.step proc fftK op = .ok (c', o)) :
    c'.tdl.taps = c.tdl.taps ∧ c'.tdl.jakes = c.tdl.jakes ∧ c'.tdl.link = c.tdl.link ∧
    c'.tdl.pos = c.tdl.pos + op.advance c.tdl.jakes := by
  cases op with
  | tx x =>
    simp only [Su.step, Su.corrupt, bind, Except.bind, pure, Except.pure] at h
    cases ht : c.tdl.corrupt proc x with
    | error e => simp [ht] at h
    | ok r =>
      obtain ⟨t', y⟩ := r
      simp only [ht, Except.ok.injEq, Prod.mk.injEq] at h
      rw [← h.1, tdl_corrupt_state proc c.tdl t' x y ht]
      simp [Tdl.afterTx, SuOp.advance]
  | fx x fft sel =>
    simp only [Su.step, Su.corruptFreq, bind, Except.bind, pure, Except.pure] at h
    cases ht : c.tdl.corruptFreq proc fftK x fft sel with
    | error e => simp [ht] at h
    | ok r =>
      obtain ⟨t', y⟩ := r
      simp only [ht, Except.ok.injEq, Prod.mk.injEq] at h
      obtain ⟨ps, B, nb, last, hp, hst⟩ := tdl_corruptFreq_state proc fftK c.tdl t' x y fft sel ht
      obtain ⟨hfft, -, -, -, -, -, -⟩ := freqPlan_ok hp
      rw [← h.1, hst]
      simp [Tdl.afterFx, SuOp.advance, hp, blockEndPos_eq _ _ hfft]
  | setSwitched b =>
    simp only [Su.step, pure, Except.pure, Except.ok.injEq, Prod.mk.injEq] at h
    rw [← h.1]
    simp [SuOp.advance]
  | setPathloss s =>
    simp only [Su.step, pure, Except.pure, Except.ok.injEq, Prod.mk.injEq] at h
    rw [← h.1]
    simp [SuOp.advance]
  | getIR =>
    simp only [Su.step, bind, Except.bind, pure, Except.pure] at h
    cases hl : c.lastIR with
    | error e => simp [hl] at h
    | ok r =>
      simp only [hl, Except.ok.injEq, Prod.mk.injEq] at h
      rw [← h.1]
      simp [SuOp.advance]
  | setAnt a =>
    simp only [Su.step, pure, Except.pure, Except.ok.injEq, Prod.mk.injEq] at h
    rw [← h.1]
    simp [SuOp.advance]
  | gen n =>
    simp only [Su.step, pure, Except.pure, Except.ok.injEq, Prod.mk.injEq] at h
    rw [← h.1]
    simp [SuOp.advance]
  | rejected e => simp [Su.step, throw, throwThe, MonadExceptOf.throw] at h
  | query =>
    simp only [Su.step, pure, Except.pure, Except.ok.injEq, Prod.mk.injEq] at h
    rw [← h.1]
    simp [SuOp.advance]

/-- a rejected call changes nothing: the state after `stepR` is the state before -/
theorem su_stepR_rejected (proc : Proc α) (fftK : Fft α) (c : Su α) (op : SuOp α) (e : PyErr)
    (h : c.step proc fftK op = .error e) : c.stepR proc fftK op = (c, .error e) := by
  simp [Su.stepR, h]

theorem su_stepR_accepted (proc : Proc α) (fftK : Fft α) (c c' : Su α) (op : SuOp α) (o : SuOut α)
    (h : c.step proc fftK op = .ok (c', o)) : c.stepR proc fftK op = (c', .ok o) := by
  simp [Su.stepR, h]

/-- a history with rejected calls ends in the same state, and gives the same outputs for the
    accepted calls, as the history with the rejected calls removed -/
theorem su_runR_filter (proc : Proc α) (fftK : Fft α) (ops : List (SuOp α)) (c : Su α) :
    (Su.runR proc fftK c ops).1
      = (Su.runR proc fftK c (ops.zip (Su.runR proc fftK c ops).2 |>.filterMap
          (fun p => match p.2 with | .ok _ => some p.1 | .error _ => none))).1 := by
  induction ops generalizing c with
  | nil => rfl
  | cons op ops ih =>
    simp only [Su.runR, List.zip_cons_cons, List.filterMap_cons]
    cases hs : c.step proc fftK op with
    | error e =>
      simp only [Su.stepR, hs]
      exact ih c
    | ok r =>
      obtain ⟨c', o⟩ := r
      simp only [Su.stepR, hs, Su.runR]
      exact ih c'

/-- over a whole history: the profile, antenna set-up and generator never change, and the
    position counter is the start position plus everything the transmissions consumed -/
theorem su_run_state (proc : Proc α) (fftK : Fft α) (ops : List (SuOp α)) (c0 cf : Su α) (outs : List (SuOut α))
    (h : Su.run proc fftK c0 ops = .ok (cf, outs)) :
    cf.tdl.taps = c0.tdl.taps ∧ cf.tdl.jakes = c0.tdl.jakes ∧ cf.tdl.link = c0.tdl.link ∧
    cf.tdl.pos = c0.tdl.pos + (ops.map (SuOp.advance c0.tdl.jakes)).sum := by
  induction ops generalizing c0 outs with
  | nil =>
    simp only [Su.run, pure, Except.pure, Except.ok.injEq, Prod.mk.injEq] at h
    obtain ⟨rfl, -⟩ := h
    simp
  | cons op ops ih =>
    simp only [Su.run, bind, Except.bind, pure, Except.pure] at h
    cases hs : c0.step proc fftK op with
    | error e => simp [hs] at h
    | ok r =>
      obtain ⟨c1, o1⟩ := r
      simp only [hs] at h
      cases hr : Su.run proc fftK c1 ops with
      | error e => simp [hr] at h
      | ok r2 =>
        obtain ⟨cf', os⟩ := r2
        simp only [hr, Except.ok.injEq, Prod.mk.injEq] at h
        obtain ⟨rfl, -⟩ := h
        obtain ⟨h1, h3, h4, h5⟩ := su_step_state proc fftK c0 c1 op o1 hs
        obtain ⟨g1, g3, g4, g5⟩ := ih c1 os hr
        refine ⟨g1.trans h1, g3.trans h3, g4.trans h4, ?_⟩
        rw [g5, h5, h3, List.map_cons, List.sum_cons]
        ring

end PyPhysim.C03
