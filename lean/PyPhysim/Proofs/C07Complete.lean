import PyPhysim.Proofs.C07Sim

/-! Helper lemmas for C07: a run that is given enough successful outcomes returns normally. -/
namespace PyPhysim.C07

open PyPhysim.C05 (Outcome VarState Keep Stored Saved guard after stateOf freshState IsVarRun oks skips)

variable {R T : Type}

/-- `current_rep` of what was loaded -/
def startRep : Option (R × Nat) → Nat
  | some (_, n) => n
  | none => 0

/-- repetition count of a state = what was loaded + the successful outcomes since -/
theorem stateOf_rep (merge : R → R → R) (start : Option (R × Nat)) (p : List (Outcome R)) (s : VarState R)
    (h : stateOf merge start p = some s) : s.rep = startRep start + (oks p).length := by
  cases start with
  | some ar =>
    obtain ⟨a, n⟩ := ar
    simp only [stateOf, Option.some.injEq] at h
    rw [← h]; rfl
  | none =>
    simp only [stateOf, freshState] at h
    split at h
    · simp at h
    · simp only [Option.some.injEq] at h
      rw [← h]; simp [startRep]

theorem stateOf_none (merge : R → R → R) (start : Option (R × Nat)) (p : List (Outcome R))
    (h : stateOf merge start p = none) : oks p = [] := by
  cases start with
  | some ar => obtain ⟨a, n⟩ := ar; simp [stateOf] at h
  | none =>
    simp only [stateOf, freshState] at h
    split at h
    · assumption
    · simp at h

theorem oks_snoc_length (q : List (Outcome R)) (o : Outcome R) :
    (oks (q ++ [o])).length ≤ (oks q).length + 1 := by
  rw [C05.oks_append]
  cases o <;> simp [oks]

/-- a run that had to go on after every proper prefix counted at most `max 1 repMax`
    successful outcomes -/
theorem oks_used_le (merge : R → R → R) (repMax : Nat) (keep : Keep R) (start : Option (R × Nat))
    (used : List (Outcome R)) (hrun : Running merge repMax keep start used) :
    (oks used).length ≤ max 1 repMax := by
  rcases List.eq_nil_or_concat used with rfl | ⟨q, o, rfl⟩
  · simp [oks]
  · rw [List.concat_eq_append] at hrun ⊢
    have h1 := oks_snoc_length q o
    cases hq : stateOf merge start q with
    | some s' =>
      have hg := hrun q (List.prefix_append _ _) (by simp) s' hq
      simp only [C05.guard, Bool.and_eq_true, decide_eq_true_eq] at hg
      have := stateOf_rep merge start q s' hq
      omega
    | none =>
      have := stateOf_none merge start q hq
      rw [this] at h1
      simp at h1
      omega

section
variable [DecidableEq T]

/-- **Enough successful outcomes ⇒ the run returns normally.** -/
theorem simVarsC_completes (cfg : Cfg R T) :
    ∀ (is : List Nat) (d : Disk R T) (c : Clock) (outs : List (Outcome R)), is.Nodup →
      (∀ i ∈ is, LoadsOk cfg d i) → is.length * max 1 cfg.repMax ≤ (oks outs).length →
      (simVarsC cfg is d c outs).status = none
  | [], d, c, outs, _, _, _ => rfl
  | i :: is, d, c, outs, hnd, hall, hlen => by
    have hnd' : is.Nodup := (List.nodup_cons.mp hnd).2
    have hi : i ∉ is := (List.nodup_cons.mp hnd).1
    have hmul : (i :: is).length * max 1 cfg.repMax = is.length * max 1 cfg.repMax + max 1 cfg.repMax := by
      rw [List.length_cons, Nat.succ_mul]
    rw [hmul] at hlen
    clear hmul
    have hM : cfg.repMax ≤ max 1 cfg.repMax := Nat.le_max_right _ _
    have hM1 : 1 ≤ max 1 cfg.repMax := Nat.le_max_left _ _
    rcases runVarC_cases cfg i d c outs with ⟨e, hld, _⟩ | ⟨_, used, hs, _⟩
    · exact absurd hld (hall i (by simp) e)
    · have hsplit := hs.split
      have hoks : (oks outs).length = (oks used).length + (oks (runVarC cfg i d c outs).rest).length := by
        have := congrArg (fun l => (oks l).length) hsplit
        simpa [C05.oks_append] using this
      cases hres : (runVarC cfg i d c outs).res with
      | error e =>
        exfalso
        obtain ⟨_, hrest⟩ := hs.failed e hres
        rw [hrest] at hoks
        simp only [oks, List.length_nil, Nat.add_zero] at hoks
        rcases hs.stuck e hres with hnone | ⟨st, hst, hg⟩
        · have := stateOf_none cfg.merge _ used hnone
          have h0 : (oks outs).length = 0 := by rw [hoks, this]; rfl
          generalize max 1 cfg.repMax = M at *
          generalize is.length * M = K at *
          omega
        · simp only [C05.guard, Bool.and_eq_true, decide_eq_true_eq] at hg
          have hlt : st.rep < cfg.repMax := hg.2
          have hrep : st.rep = startRep (startOf cfg d i) + (oks used).length :=
            stateOf_rep cfg.merge _ used st hst
          generalize max 1 cfg.repMax = M at *
          generalize is.length * M = K at *
          omega
      | ok st =>
        rw [simVarsC_cons_ok cfg i is d c outs st hres]
        have hle := oks_used_le cfg.merge cfg.repMax (cfg.keep i) _ used hs.running
        refine simVarsC_completes cfg is _ _ _ hnd' ?_ ?_
        · intro j hj
          have hji : j ≠ i := fun h => hi (h ▸ hj)
          exact (hall j (by simp [hj])).congr (by rw [hs.only.part_ne hji])
        · generalize max 1 cfg.repMax = M at *
          generalize is.length * M = K at *
          omega

/-- in the situation of `simC_resume`: enough successful outcomes ⇒ the restart returns normally -/
theorem simC_resume_completes (cfg cfg2 : Cfg R T) (hmode : cfg.mode = .atomic)
    (htag : ∀ i, cfg2.tag i = cfg.tag i) (hn : cfg2.nvar = cfg.nvar)
    (d0 : Disk R T) (hclean : ∀ i, i < cfg.nvar → LoadsOk cfg d0 i)
    (c1 : Clock) (outs1 : List (Outcome R)) (pre : List (Ev R T))
    (hp : pre <+: (simC cfg d0 c1 outs1).trace) (c2 : Clock) (outs2 : List (Outcome R))
    (hlen : cfg.nvar * max 1 cfg2.repMax ≤ (oks outs2).length) :
    (simC cfg2 (d0.applyAll pre) c2 outs2).status = none := by
  obtain ⟨⟨segs1, _, g2⟩, _⟩ := simC_crash cfg d0 c1 outs1 pre hp
  obtain ⟨_, r2⟩ := CrashSpec.resumed cfg cfg2 hmode htag d0 (d0.applyAll pre) (List.range cfg.nvar) segs1
    (fun i hi => hclean i (List.mem_range.mp hi)) g2
  rw [(simC_fields cfg2 _ c2 outs2).2.2.2.1, hn]
  exact simVarsC_completes cfg2 _ _ c2 outs2 List.nodup_range r2 (by simpa using hlen)

end

end PyPhysim.C07
