import PyPhysim.Proofs.C06Grid
import PyPhysim.Proofs.C06Stats
import PyPhysim.Proofs.C06Heap

/-! C06: `combine_simulation_results` — per combination law and frame. -/
namespace PyPhysim.C06M
open PyPhysim.Proto

/-- a result as `combine_simulation_results` re-creates it: no accumulated value lists -/
def strip (r : Res) : Res := { r with acc := false, vlist := [], tlist := [] }

theorem zipWith_zeros_add (l : List Nat) :
    List.zipWith (· + ·) (List.replicate l.length 0) l = l := by
  induction l with
  | nil => rfl
  | cons x xs ih => simp [List.replicate_succ, ih]

/-- merging a result into the empty object created by `combine` copies its statistics -/
theorem mergeCore_fresh_left (r : Res) (hs : Shaped r) :
    mergeCore (fresh r.name r.ty false r.counts.length) r = strip r := by
  obtain ⟨name, ty, value, counts, total, rsum, rsq, n, acc, vlist, tlist⟩ := r
  simp only [Shaped] at hs
  cases ty
  · have := hs (by decide); subst this; simp [mergeCore, extendLists, fresh, strip]
  · have := hs (by decide); subst this; simp [mergeCore, extendLists, fresh, strip]
  · have := hs (by decide); subst this; simp [mergeCore, extendLists, fresh, strip]
  · simp [mergeCore, extendLists, fresh, strip, zipWith_zeros_add]

theorem mergeCore_strip_left (a b : Res) : mergeCore (strip a) b = strip (mergeCore a b) := by
  cases hty : a.ty <;> cases hacc : a.acc <;> simp [mergeCore, extendLists, strip, hty, hacc]

theorem strip_update (r : Res) (o : Obs) : strip (update r o).1 = (update (strip r) o).1 := by
  cases hty : r.ty
  · simp [update, strip, hty]
  · cases hot : o.t with
    | none => simp [update, strip, hty, hot]
    | some t => by_cases h0 : t = 0 <;> simp [update, strip, hty, hot, h0]
  · simp [update, strip, hty]
  · by_cases hd : o.v.den = 1
    · cases hi : pyIndex r.counts.length o.v.num <;> simp [update, strip, hty, hd, hi]
    · simp [update, strip, hty, hd]

theorem strip_foldUpd (r : Res) (xs : List Obs) : strip (foldUpd r xs) = foldUpd (strip r) xs := by
  induction xs generalizing r with
  | nil => rfl
  | cons o xs ih => rw [foldUpd_cons, foldUpd_cons, ih, strip_update]

theorem strip_fresh (nm : String) (ty : Ty) (acc : Bool) (k : Nat) :
    strip (fresh nm ty acc k) = fresh nm ty false k := by
  simp [strip, fresh]

/-! ### one operand -/

theorem mergeIfPresent_absent (m : Mach) (f : Res) (l : List Nat) (vals : List (List Rat))
    (combo : List Rat) (h : packIndex vals combo = .error .ValueError) :
    mergeIfPresent m f l vals combo = .ok f := by
  simp [mergeIfPresent, h]

theorem mergeIfPresent_present (m : Mach) (f r : Res) (l : List Nat) (vals : List (List Rat))
    (combo : List Rat) (i a : Nat) (h : packIndex vals combo = .ok i) (hl : l[i]? = some a)
    (hr : m.res[a]? = some r) (hc : CompatL f r) :
    mergeIfPresent m f l vals combo = .ok (mergeCore f r) := by
  simp [mergeIfPresent, h, hl, hr, merge_okL hc]

/-! ### the cell of one parameter combination -/

theorem mergeCore_counts_length {a b : Res} (h : a.counts.length = b.counts.length) :
    (mergeCore a b).counts.length = a.counts.length := by
  unfold mergeCore extendLists
  cases a.ty <;> simp [h]

theorem compatL_mergeCore_left {f r1 r2 : Res} (hf : f.acc = false) (h1 : CompatL f r1)
    (h2 : CompatL f r2) : CompatL (mergeCore f r1) r2 :=
  ⟨(by rw [mergeCore_name]; exact h2.name), (by rw [mergeCore_ty]; exact h2.ty),
   (fun h => by rw [mergeCore_acc, hf] at h; cases h),
   (by rw [mergeCore_counts_length h1.len]; exact h2.len)⟩

/-- combination present in both operands -/
theorem cell_both (m : Mach) (f r1 r2 : Res) (l1 l2 : List Nat) (v1 v2 : List (List Rat)) (c : List Rat)
    (i1 a1 i2 a2 : Nat) (hf : f.acc = false)
    (h1 : packIndex v1 c = .ok i1) (hl1 : l1[i1]? = some a1) (hr1 : m.res[a1]? = some r1)
    (h2 : packIndex v2 c = .ok i2) (hl2 : l2[i2]? = some a2) (hr2 : m.res[a2]? = some r2)
    (hc1 : CompatL f r1) (hc2 : CompatL f r2) :
    cellOf m f l1 l2 v1 v2 c = .ok (mergeCore (mergeCore f r1) r2) := by
  simp only [cellOf, mergeIfPresent_present m f r1 l1 v1 c i1 a1 h1 hl1 hr1 hc1]
  exact mergeIfPresent_present m _ r2 l2 v2 c i2 a2 h2 hl2 hr2 (compatL_mergeCore_left hf hc1 hc2)

/-- combination present in the first operand only -/
theorem cell_left (m : Mach) (f r1 : Res) (l1 l2 : List Nat) (v1 v2 : List (List Rat)) (c : List Rat)
    (i1 a1 : Nat)
    (h1 : packIndex v1 c = .ok i1) (hl1 : l1[i1]? = some a1) (hr1 : m.res[a1]? = some r1)
    (h2 : packIndex v2 c = .error .ValueError) (hc1 : CompatL f r1) :
    cellOf m f l1 l2 v1 v2 c = .ok (mergeCore f r1) := by
  simp only [cellOf, mergeIfPresent_present m f r1 l1 v1 c i1 a1 h1 hl1 hr1 hc1]
  exact mergeIfPresent_absent m _ l2 v2 c h2

/-- combination present in the second operand only -/
theorem cell_right (m : Mach) (f r2 : Res) (l1 l2 : List Nat) (v1 v2 : List (List Rat)) (c : List Rat)
    (i2 a2 : Nat)
    (h1 : packIndex v1 c = .error .ValueError)
    (h2 : packIndex v2 c = .ok i2) (hl2 : l2[i2]? = some a2) (hr2 : m.res[a2]? = some r2)
    (hc2 : CompatL f r2) :
    cellOf m f l1 l2 v1 v2 c = .ok (mergeCore f r2) := by
  simp only [cellOf, mergeIfPresent_absent m f l1 v1 c h1]
  exact mergeIfPresent_present m f r2 l2 v2 c i2 a2 h2 hl2 hr2 hc2

/-- combination present in neither operand: the empty object -/
theorem cell_none (m : Mach) (f : Res) (l1 l2 : List Nat) (v1 v2 : List (List Rat)) (c : List Rat)
    (h1 : packIndex v1 c = .error .ValueError) (h2 : packIndex v2 c = .error .ValueError) :
    cellOf m f l1 l2 v1 v2 c = .ok f := by
  simp only [cellOf, mergeIfPresent_absent m f l1 v1 c h1]
  exact mergeIfPresent_absent m f l2 v2 c h2

/-! ### what the merged cell is, when the operands' results come from observation sequences -/

theorem mergeCore_fresh_any {a : Res} (acc' : Bool) (hm : a.ty ≠ .misc) (hs : Shaped a) :
    mergeCore a (fresh a.name a.ty acc' a.counts.length) = a := by
  obtain ⟨name, ty, value, counts, total, rsum, rsq, n, acc, vlist, tlist⟩ := a
  simp only [Shaped] at hs
  simp only [] at hm
  cases ty
  · have := hs (by decide); subst this
    cases acc <;> simp [mergeCore, extendLists, fresh]
  · have := hs (by decide); subst this
    cases acc <;> simp [mergeCore, extendLists, fresh]
  · exact absurd rfl hm
  · cases acc <;> simp [mergeCore, extendLists, fresh, zipWith_add_zeros]

theorem compatL_fresh_foldUpd (nm : String) (ty : Ty) (acc : Bool) (k : Nat) (xs : List Obs) :
    CompatL (fresh nm ty false k) (foldUpd (fresh nm ty acc k) xs) := by
  have h := compat_foldUpd xs (Compat.refl (fresh nm ty acc k))
  exact ⟨(by rw [← h.name]; rfl), (by rw [← h.ty]; rfl), (fun e => by simp [fresh] at e),
    (by rw [← h.len]; rfl)⟩

/-- merging (into an object without accumulation) a result that accumulated `xs` = accumulating `xs` -/
theorem mergeCore_into_plain (nm : String) (ty : Ty) (acc : Bool) (k : Nat) (hm : ty ≠ .misc)
    (a : Res) (ha : Compat (fresh nm ty false k) a) (hs : Shaped a) (xs : List Obs) :
    mergeCore a (foldUpd (fresh nm ty acc k) xs) = foldUpd a xs := by
  have hty : a.ty ≠ .misc := by rw [← ha.ty]; simpa [fresh] using hm
  have hacc : a.acc = false := by rw [← ha.acc]; rfl
  have hc : CompatL a (fresh nm ty acc k) :=
    ⟨(by rw [← ha.name]; rfl), (by rw [← ha.ty]; rfl), (fun e => by rw [hacc] at e; cases e),
     (by rw [← ha.len]; rfl)⟩
  rw [mergeCore_foldUpd xs hty hc]
  congr 1
  have hfr : fresh nm ty acc k = fresh a.name a.ty acc a.counts.length := by
    have h1 : a.name = nm := by rw [← ha.name]; rfl
    have h2 : a.ty = ty := by rw [← ha.ty]; rfl
    have h3 := ha.len
    simp only [fresh] at h3
    by_cases hch : ty = .choice
    · subst hch; simp only [if_true, List.length_replicate] at h3
      simp [fresh, h1, h2, h3]
    · simp [fresh, h1, h2, hch]
  rw [hfr]
  exact mergeCore_fresh_any acc hty hs

/-- **per-combination law**: the new object of a combination present in both operands equals
    the object that accumulates the observations of both (SUM, RATIO, CHOICE) -/
theorem cell_fold_both (nm : String) (ty : Ty) (acc1 acc2 : Bool) (k : Nat) (hm : ty ≠ .misc)
    (xs1 xs2 : List Obs) :
    mergeCore (mergeCore (fresh nm ty false k) (foldUpd (fresh nm ty acc1 k) xs1))
        (foldUpd (fresh nm ty acc2 k) xs2)
      = foldUpd (fresh nm ty false k) (xs1 ++ xs2) := by
  rw [mergeCore_into_plain nm ty acc1 k hm _ (Compat.refl _) (shaped_fresh _ _ _ _),
    mergeCore_into_plain nm ty acc2 k hm _ (compat_foldUpd _ (Compat.refl _))
      (shaped_foldUpd _ (shaped_fresh _ _ _ _)), foldUpd_append]

theorem cell_fold_one (nm : String) (ty : Ty) (acc1 : Bool) (k : Nat) (hm : ty ≠ .misc)
    (xs1 : List Obs) :
    mergeCore (fresh nm ty false k) (foldUpd (fresh nm ty acc1 k) xs1)
      = foldUpd (fresh nm ty false k) xs1 :=
  mergeCore_into_plain nm ty acc1 k hm _ (Compat.refl _) (shaped_fresh _ _ _ _) xs1

/-! ### all combinations of one result name -/

theorem combineName_spec (m : Mach) (f : Res) (l1 l2 : List Nat) (v1 v2 : List (List Rat))
    (combos : List (List Rat)) (rs : List Res) (h : combineName m f l1 l2 v1 v2 combos = .ok rs) :
    rs.length = combos.length ∧
      ∀ (k : Nat) (c : List Rat), combos[k]? = some c →
        ∃ r : Res, rs[k]? = some r ∧ cellOf m f l1 l2 v1 v2 c = .ok r := by
  induction combos generalizing rs with
  | nil => simp [combineName] at h; subst h; simp
  | cons c0 rest ih =>
    simp only [combineName] at h
    cases h1 : mergeIfPresent m f l1 v1 c0 with
    | error e => simp [h1] at h
    | ok r1 =>
      simp only [h1] at h
      cases h2 : mergeIfPresent m r1 l2 v2 c0 with
      | error e => simp [h2] at h
      | ok r2 =>
        simp only [h2] at h
        cases h3 : combineName m f l1 l2 v1 v2 rest with
        | error e => simp [h3] at h
        | ok rs' =>
          simp only [h3] at h
          cases h
          obtain ⟨hlen, hk⟩ := ih rs' h3
          refine ⟨by simp [hlen], ?_⟩
          intro k c hc
          cases k with
          | zero =>
            simp at hc; subst hc
            exact ⟨r2, by simp, by simp [cellOf, h1, h2]⟩
          | succ k => simpa using hk k c (by simpa using hc)

/-! ### `combine` only allocates -/

theorem allocAll_spec (m : Mach) (rs : List Res) :
    (allocAll m rs).1.res = m.res ++ rs ∧ (allocAll m rs).1.lists = m.lists
      ∧ (allocAll m rs).1.sims = m.sims
      ∧ (allocAll m rs).2 = (List.range rs.length).map (· + m.res.length) := by
  induction rs generalizing m with
  | nil => simp [allocAll]
  | cons r rest ih =>
    obtain ⟨h1, h2, h3, h4⟩ := ih (allocRes m r).1
    simp only [allocAll]
    refine ⟨by rw [h1]; simp [allocRes], by rw [h2]; rfl, by rw [h3]; rfl, ?_⟩
    rw [h4]
    simp [allocRes, List.range_succ_eq_map, Nat.add_comm, Nat.add_left_comm]

theorem allocRows_prefix (m : Mach) (rows : List (String × List Res)) :
    (∃ xs, (allocRows m rows).1.res = m.res ++ xs) ∧ (∃ ys, (allocRows m rows).1.lists = m.lists ++ ys)
      ∧ (allocRows m rows).1.sims = m.sims := by
  induction rows generalizing m with
  | nil => exact ⟨⟨[], by simp [allocRows]⟩, ⟨[], by simp [allocRows]⟩, rfl⟩
  | cons row rest ih =>
    obtain ⟨nm, rs⟩ := row
    obtain ⟨a1, a2, a3, _⟩ := allocAll_spec m rs
    simp only [allocRows]
    obtain ⟨⟨xs, hx⟩, ⟨ys, hy⟩, hz⟩ := ih (allocList (allocAll m rs).1 (allocAll m rs).2).1
    refine ⟨⟨rs ++ xs, ?_⟩, ⟨[(allocAll m rs).2] ++ ys, ?_⟩, ?_⟩
    · rw [hx]; simp [allocList, a1]
    · rw [hy]; simp [allocList, a2]
    · rw [hz]; simp [allocList, a3]

/-- **frame of `combine_simulation_results`**: every object that existed before is unchanged
    (Result objects, list objects, SimulationResults objects) -/
theorem combine_frame (m : Mach) (s1 s2 : Nat) :
    (∀ a, a < m.res.length → (combine m s1 s2).1.res[a]? = m.res[a]?)
      ∧ (∀ l, l < m.lists.length → (combine m s1 s2).1.lists[l]? = m.lists[l]?)
      ∧ (∀ j, j < m.sims.length → (combine m s1 s2).1.sims[j]? = m.sims[j]?) := by
  unfold combine
  split
  · split
    · exact ⟨fun _ _ => rfl, fun _ _ => rfl, fun _ _ => rfl⟩
    · dsimp only
      split
      · exact ⟨fun _ _ => rfl, fun _ _ => rfl, fun _ _ => rfl⟩
      · split
        · exact ⟨fun _ _ => rfl, fun _ _ => rfl, fun _ _ => rfl⟩
        · rename_i rows _
          obtain ⟨⟨xs, hx⟩, ⟨ys, hy⟩, hz⟩ := allocRows_prefix m rows
          generalize allocRows m rows = q at hx hy hz
          obtain ⟨m1, d⟩ := q
          simp only at hx hy hz ⊢
          refine ⟨fun a ha => ?_, fun l hl => ?_, fun j hj => ?_⟩
          · rw [hx]; exact List.getElem?_append_left ha
          · rw [hy]; exact List.getElem?_append_left hl
          · rw [hz]; exact List.getElem?_append_left hj
  · exact ⟨fun _ _ => rfl, fun _ _ => rfl, fun _ _ => rfl⟩

end PyPhysim.C06M
