import PyPhysim.Proofs.C13Models

/-! # C13 — `which_distance(_dB)` against `calc_path_loss(_dB)` on the object level (α = ℝ) -/
set_option linter.unnecessarySeqFocus false
set_option linter.unusedTactic false
set_option linter.unreachableTactic false
namespace PyPhysim.C13
open PyPhysim.Proto

theorem isZero_real (x : ℝ) : isZero x = true ↔ x = 0 := by
  simp only [isZero, zero_real, Bool.and_eq_true, Bool.not_eq_true', decide_eq_false_iff_not, not_lt]
  constructor
  · rintro ⟨a, b⟩; linarith
  · rintro rfl; simp

theorem whichDbScalar_real (s : GenState ℝ) (p : ℝ) :
    s.whichDbScalar p = if s.n = 0 then .error .ZeroDivisionError
      else .ok (Gen.generalWhichDb s.n s.C p) := by
  unfold GenState.whichDbScalar
  by_cases h : s.n = 0
  · rw [if_pos h, if_pos]; rw [isZero_real]; rw [h]; norm_num
  · rw [if_neg h, if_neg]; rw [isZero_real]; norm_num; exact h

/-- loss → distance → loss -/
theorem gen_which_then_db {s : GenState ℝ} (hn : s.n ≠ 0) (p : ℝ) :
    ∃ d, s.whichDbScalar p = .ok d ∧ 0 < d ∧ s.detDb d = p := by
  refine ⟨Gen.generalWhichDb s.n s.C p, ?_, generalWhich_pos _ _ _, generalDb_generalWhich hn⟩
  rw [whichDbScalar_real, if_neg hn]

/-- distance → loss → distance (dB) -/
theorem gen_db_then_which {s : GenState ℝ} (hn : s.n ≠ 0) {d x : ℝ}
    (h : s.dbScalar d = .ok x) (hx : 0 ≤ s.detDb d) : s.whichDbScalar x = .ok d := by
  obtain ⟨hd, e, _⟩ := scalarDb_ok h
  rw [e, clamp_of_nonneg hx, whichDbScalar_real, if_neg hn]
  exact congrArg _ (generalWhich_generalDb hn hd)

/-- distance → linear loss → distance -/
theorem gen_lin_then_which {s : GenState ℝ} (hn : s.n ≠ 0) {d y : ℝ}
    (h : s.linScalar d = .ok y) (hx : 0 ≤ s.detDb d) : s.whichLin y = d := by
  obtain ⟨x, hx', rfl⟩ := toLin_ok h
  obtain ⟨hd, e, _⟩ := scalarDb_ok hx'
  unfold GenState.whichLin
  rw [← dB2Linear_real, linear2dB_dB2Linear, neg_neg, e, clamp_of_nonneg hx]
  exact generalWhich_generalDb hn hd

/-- arrays: entry-wise -/
theorem gen_dba_then_which {s : GenState ℝ} (hn : s.n ≠ 0) {ds xs : List ℝ}
    (hpos : ∀ d ∈ ds, 0 < d) (hnn : ∀ d ∈ ds, 0 ≤ s.detDb d)
    (h : s.dbArray ds = .ok xs) : s.whichDbArray xs = ds := by
  obtain ⟨e, _⟩ := arrayDb_eq_scalar hpos h
  rw [e]
  unfold GenState.whichDbArray
  rw [List.map_map]
  conv_rhs => rw [← List.map_id ds]
  apply List.map_congr_left
  intro d hd
  simp only [Function.comp, id]
  rw [clamp_of_nonneg (hnn d hd)]
  exact generalWhich_generalDb hn (hpos d hd)

/-- linear value of a reported loss lies in (0, 1] -/
theorem lin_range {small : Bool} {f : ℝ → ℝ} {d y : ℝ} (h : toLin (scalarDb small f d) = .ok y) :
    ∃ x, scalarDb small f d = .ok x ∧ 0 ≤ x ∧ y = (10 : ℝ) ^ (-x / 10) ∧ 0 < y ∧ y ≤ 1 := by
  obtain ⟨x, hx, rfl⟩ := toLin_ok h
  obtain ⟨_, e, _⟩ := scalarDb_ok hx
  have hx0 : 0 ≤ x := e ▸ clamp_nonneg _
  refine ⟨x, hx, hx0, rfl, pow10_pos _, ?_⟩
  apply Real.rpow_le_one_of_one_le_of_nonpos (by norm_num)
  linarith

theorem toLinArray_ok {r : Except PyErr (List ℝ)} {ys : List ℝ} (h : toLinArray r = .ok ys) :
    ∃ xs, r = .ok xs ∧ ys = xs.map (fun x => (10 : ℝ) ^ (-x / 10)) := by
  cases r with
  | error e => cases h
  | ok xs =>
    refine ⟨xs, rfl, ?_⟩
    simp only [toLinArray, Except.map] at h
    cases h
    apply List.map_congr_left
    intro x _
    rw [dB2Linear_real]


/-- array version: every linear value of a reported array lies in (0, 1] -/
theorem lin_range_array {small : Bool} {f : ℝ → ℝ} {ds ys : List ℝ}
    (h : toLinArray (arrayDb small f ds) = .ok ys) :
    ∃ xs, arrayDb small f ds = .ok xs ∧ (∀ x ∈ xs, 0 ≤ x) ∧
      ys = xs.map (fun x => (10 : ℝ) ^ (-x / 10)) ∧ ∀ y ∈ ys, 0 < y ∧ y ≤ 1 := by
  obtain ⟨xs, hxs, rfl⟩ := toLinArray_ok h
  obtain ⟨e, _⟩ := policyArray_ok (show policyArray small (ds.map f) = .ok xs from hxs)
  have hnn : ∀ x ∈ xs, 0 ≤ x := by
    intro x hx; rw [e] at hx
    obtain ⟨z, _, rfl⟩ := List.mem_map.1 hx
    exact clamp_nonneg z
  refine ⟨xs, hxs, hnn, rfl, fun y hy => ?_⟩
  obtain ⟨x, hx, rfl⟩ := List.mem_map.1 hy
  refine ⟨pow10_pos _, Real.rpow_le_one_of_one_le_of_nonpos (by norm_num) ?_⟩
  have := hnn x hx
  linarith

/-- with a negative exponent the loss DEcreases with distance -/
theorem generalDb_anti {n C d₁ d₂ : ℝ} (hn : n < 0) (h₁ : 0 < d₁) (h : d₁ < d₂) :
    Gen.generalDb n C d₂ < Gen.generalDb n C d₁ := by
  rw [generalDb_real, generalDb_real]
  have := Real.logb_lt_logb (b := 10) (by norm_num) h₁ h
  nlinarith

/-! ## PathLossMetisPS7 -/

theorem ps7LosWhichDb_real (fc p : ℝ) :
    Gen.ps7LosWhichDb fc p = (10 : ℝ) ^ ((p - 46.8 - 20 * Real.logb 10 (fc / 1000 / 5)) / 18.7) := by
  simp only [Gen.ps7LosWhichDb, log10_real, pow10_real] <;> gen_nf

theorem ps7NlosWhichDb_real (fc p w : ℝ) :
    Gen.ps7NlosWhichDb fc p w
      = (10 : ℝ) ^ ((p - 43.8 - 20 * Real.logb 10 (fc / 1000 / 5) - 5 * (w - 1)) / 36.8) := by
  simp only [Gen.ps7NlosWhichDb, log10_real, pow10_real] <;> gen_nf

theorem ps7_detWhich_pos (s : Ps7State ℝ) (nw : Nat) (p : ℝ) : 0 < s.detWhich nw p := by
  unfold Ps7State.detWhich
  split_ifs
  · rw [ps7LosWhichDb_real]; exact pow10_pos _
  · rw [ps7NlosWhichDb_real]; exact pow10_pos _

/-- loss → distance → loss -/
theorem ps7_db_of_which (s : Ps7State ℝ) (nw : Nat) (p : ℝ) : s.detDb nw (s.detWhich nw p) = p := by
  unfold Ps7State.detDb Ps7State.detWhich
  split_ifs
  · rw [ps7LosWhichDb_real, ps7LosDb_real, log10_pow10]; ring
  · rw [ps7NlosWhichDb_real, ps7NlosDb_real, log10_pow10]; ring

/-- distance → loss → distance -/
theorem ps7_which_of_db (s : Ps7State ℝ) (nw : Nat) {d : ℝ} (hd : 0 < d) :
    s.detWhich nw (s.detDb nw d) = d := by
  unfold Ps7State.detDb Ps7State.detWhich
  split_ifs
  · rw [ps7LosDb_real, ps7LosWhichDb_real]
    have : (18.7 * Real.logb 10 d + 46.8 + 20 * Real.logb 10 (s.fc / 1000 / 5) - 46.8
        - 20 * Real.logb 10 (s.fc / 1000 / 5)) / 18.7 = Real.logb 10 d := by ring
    rw [this, pow10_log10 hd]
  · rw [ps7NlosDb_real, ps7NlosWhichDb_real]
    have : (36.8 * Real.logb 10 d + 43.8 + 20 * Real.logb 10 (s.fc / 1000 / 5) + 5 * ((nw : ℝ) - 1) - 43.8
        - 20 * Real.logb 10 (s.fc / 1000 / 5) - 5 * ((nw : ℝ) - 1)) / 36.8 = Real.logb 10 d := by ring
    rw [this, pow10_log10 hd]

end PyPhysim.C13
