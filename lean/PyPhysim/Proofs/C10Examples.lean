import PyPhysim.Proofs.C10Closed
import PyPhysim.Proofs.C10Combined
import Mathlib.Tactic.FinCases
import Mathlib.Tactic.NormNum

/-!
Concrete instances showing that the hypotheses of the C10 theorems are satisfiable.
-/
set_option linter.unusedSectionVars false
set_option linter.unusedVariables false
set_option linter.unusedSimpArgs false
namespace PyPhysim.C10
open Matrix
open scoped ComplexOrder

theorem ex_filter_identity : ∃ (WH Hkk fF X : Mat ℂ 1 1),
    matMul (eqChan WH Hkk fF) X = WH ∧ IsUnit (toM (eqChan WH Hkk fF)) := by
  refine ⟨fun _ _ => 1, fun _ _ => 2, fun _ _ => 1, fun _ _ => 1 / 2, ?_, ?_⟩
  · funext i j
    simp [matMul, eqChan, sumFin]
  · rw [Matrix.isUnit_iff_isUnit_det, Matrix.det_fin_one]
    simp [eqChan, matMul, sumFin]

theorem ex_closed_form : ∃ (Hm A F0' W' : Mat ℂ 2 2) (F0 : Mat ℂ 2 1) (L : Mat ℂ 1 1) (W : Mat ℂ 2 1),
    ClosedKernels Hm Hm Hm Hm Hm Hm A A A A A ∧ matMul (cfE A A A) F0 = matMul F0 L
    ∧ matMul (cfWMat Hm (mdiv (cfChain A Hm F0) 1)) W = mzero
    ∧ matMul (cfWMat Hm (mdiv F0 1)) W = mzero := by
  refine ⟨eye, eye, eye, eye, fun i _ => if i = 0 then 1 else 0, eye, fun i _ => if i = 1 then 1 else 0, ?_, ?_, ?_, ?_⟩
  · refine ⟨?_, ?_, ?_, ?_, ?_⟩ <;>
    · funext i j
      fin_cases i <;> fin_cases j <;> simp [matMul, sumFin, eye]
  · funext i j
    fin_cases i <;> fin_cases j <;> simp [matMul, sumFin, eye, cfE]
  · funext i j
    fin_cases i <;> fin_cases j <;>
      simp [matMul, sumFin, eye, cfWMat, outerG, cT, mdiv, cfChain, mzero, Conj.conj]
  · funext i j
    fin_cases i <;> fin_cases j <;>
      simp [matMul, sumFin, eye, cfWMat, outerG, cT, mdiv, mzero, Conj.conj]

/-- `diag(1, 2)` -/
def exQ : Matrix (Fin 2) (Fin 2) ℂ := Matrix.of (fun i j => if i = j then (if i = 0 then 1 else 2) else 0)
/-- `e₁` -/
def exV : Matrix (Fin 2) (Fin 1) ℂ := Matrix.of (fun i _ => if i = 0 then 1 else 0)

theorem ex_isLeast : ∃ (Q : Matrix (Fin 2) (Fin 2) ℂ) (V : Matrix (Fin 2) (Fin 1) ℂ), IsLeast Q V ∧ Q ≠ 0 := by
  refine ⟨exQ, exV, ⟨?_, fun _ => 1, 2, ?_, ?_, ?_⟩, ?_⟩
  · ext i j
    fin_cases i; fin_cases j
    simp [exV, Matrix.mul_apply, Fin.sum_univ_two]
  · ext i j
    fin_cases i <;> fin_cases j <;> simp [exQ, exV, Matrix.mul_apply, Fin.sum_univ_two, diagonal]
  · intro i; norm_num
  · have : (exQ - exV * diagonal (fun _ : Fin 1 => ((1 : ℝ) : ℂ)) * exVᴴ
          - ((2 : ℝ) : ℂ) • (1 - exV * exVᴴ)) = 0 := by
      ext i j
      fin_cases i <;> fin_cases j <;>
        simp [exQ, exV, Matrix.mul_apply, Fin.sum_univ_two, diagonal, Matrix.one_apply]
    rw [this]
    exact PosSemidef.zero
  · intro h
    have := congrFun (congrFun h 0) 0
    simp [exQ] at this

end PyPhysim.C10
