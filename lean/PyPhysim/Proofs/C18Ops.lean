import Mathlib.Data.List.Perm.Basic
import PyPhysim.Proofs.C18Cell

/-!
C18 — histories with read-only calls and copies (R11, R13), order of the
constructions (R12), equivalent argument forms (R8).
-/
set_option linter.unusedSectionVars false
namespace PyPhysim.C18P
open PyPhysim.Cazac PyPhysim.Proto

variable {F : Type} [Field F] [CisOps F]

def _root_.PyPhysim.Cazac.CellOp.isQuery : CellOp F → Bool
  | .query => true
  | _ => false

/-- constructions and copies (everything that is not a read-only call) -/
def notQuery (op : CellOp F) : Bool := !op.isQuery

theorem step_root (norm : List F → F) (c : Cell F) (op : CellOp F) :
    (c.step norm op).1.root = c.root := by
  cases op with
  | build sp => exact addUser_root norm c sp
  | query => rfl
  | copy j =>
    show (match c.users[j]? with
      | some ue => ((⟨c.root, c.users ++ [ue]⟩ : Cell F), (none : Option PyErr))
      | none => (c, some .IndexError)).1.root = c.root
    split <;> rfl

theorem step_query (norm : List F → F) (c : Cell F) : c.step norm .query = (c, none) := rfl

theorem step_users_prefix (norm : List F → F) (c : Cell F) (op : CellOp F) :
    ∃ l, (c.step norm op).1.users = c.users ++ l := by
  cases op with
  | build sp => exact ⟨_, addUser_users norm c sp⟩
  | query => exact ⟨[], by simp [Cell.step]⟩
  | copy j =>
    show ∃ l, (match c.users[j]? with
      | some ue => ((⟨c.root, c.users ++ [ue]⟩ : Cell F), (none : Option PyErr))
      | none => (c, some .IndexError)).1.users = c.users ++ l
    split
    · exact ⟨[_], rfl⟩
    · exact ⟨[], by simp⟩

theorem runOps_root (norm : List F → F) (c : Cell F) (ops : List (CellOp F)) :
    (Cell.runOps norm c ops).1.root = c.root := by
  induction ops generalizing c with
  | nil => rfl
  | cons op rest ih =>
    show (Cell.runOps norm (c.step norm op).1 rest).1.root = c.root
    rw [ih, step_root]

theorem runOps_users_prefix (norm : List F → F) (c : Cell F) (ops : List (CellOp F)) :
    ∃ l, (Cell.runOps norm c ops).1.users = c.users ++ l := by
  induction ops generalizing c with
  | nil => exact ⟨[], by simp [Cell.runOps]⟩
  | cons op rest ih =>
    obtain ⟨l1, h1⟩ := step_users_prefix norm c op
    obtain ⟨l2, h2⟩ := ih (c.step norm op).1
    refine ⟨l1 ++ l2, ?_⟩
    show (Cell.runOps norm (c.step norm op).1 rest).1.users = _
    rw [h2, h1, List.append_assoc]

/-- read-only calls are transparent: erasing them from a history gives the same cell -/
theorem runOps_queries_transparent (norm : List F → F) (c : Cell F) (ops : List (CellOp F)) :
    (Cell.runOps norm c ops).1 = (Cell.runOps norm c (ops.filter notQuery)).1 := by
  induction ops generalizing c with
  | nil => rfl
  | cons op rest ih =>
    cases op with
    | query =>
      have hq : ¬ (notQuery (CellOp.query : CellOp F) = true) := by simp [notQuery, CellOp.isQuery]
      rw [List.filter_cons_of_neg hq]
      show (Cell.runOps norm c rest).1 = _
      rw [ih]
    | build sp =>
      have hq : notQuery (CellOp.build sp : CellOp F) = true := rfl
      rw [List.filter_cons_of_pos hq]
      show (Cell.runOps norm (c.step norm (.build sp)).1 rest).1
        = (Cell.runOps norm (c.step norm (.build sp)).1 _).1
      rw [ih]
    | copy j =>
      have hq : notQuery (CellOp.copy j : CellOp F) = true := rfl
      rw [List.filter_cons_of_pos hq]
      show (Cell.runOps norm (c.step norm (.copy j)).1 rest).1
        = (Cell.runOps norm (c.step norm (.copy j)).1 _).1
      rw [ih]

/-- a copy of a user is that user (R13); an index that does not exist changes nothing -/
theorem step_copy (norm : List F → F) (c : Cell F) (j : ℕ) :
    (c.step norm (.copy j)).1.users = c.users ++ (c.users[j]?).toList := by
  show (match c.users[j]? with
      | some ue => ((⟨c.root, c.users ++ [ue]⟩ : Cell F), (none : Option PyErr))
      | none => (c, some .IndexError)).1.users = _
  split <;> simp_all

/-- R12: the users of a cell do not depend on the order of the constructions (up to that order) -/
theorem run_users_perm (norm : List F → F) (c : Cell F) (sps sps' : List (UeSpec F)) (h : sps.Perm sps') :
    (Cell.run norm c sps).1.users.Perm (Cell.run norm c sps').1.users := by
  rw [run_users, run_users]
  exact List.Perm.append_left _ (h.filterMap _)

/-! ### equivalent argument forms (R8) -/

/-- `RootSequence(u, Nzc=z)` ≡ `RootSequence(u, size=z, Nzc=z)` -/
theorem rootSequence_nzc_only (table : List ℕ) (t1 t2 : List (List ℤ)) (u z : ℕ) :
    rootSequence table t1 t2 u none (some z) = rootSequence table t1 t2 u (some z) (some z) := rfl

/-- `RootSequence(u, size=s)` ≡ `RootSequence(u, size=s, Nzc=p)` for the prime `p` the table selects -/
theorem rootSequence_default_nzc (table : List ℕ) (t1 t2 : List (List ℤ)) (u s p : ℕ)
    (hp : primeLookup table s = .ok p) :
    rootSequence table t1 t2 u (some s) none = rootSequence table t1 t2 u (some s) (some p) := by
  unfold rootSequence
  simp only [hp]

/-- estimator built from a `UeSequence` flagged normalised ≡ `N ·` the estimator built from the raw array -/
theorem estimate1_flag (r Y : List F) (m K : ℕ) :
    estimate1 r true m Y K
      = (estimate1 r false m Y K).map (fun H => H.map (fun v => v * ((r.length : ℕ) : F))) := by
  unfold estimate1
  by_cases h1 : Y.length ≠ r.length
  · simp [h1, Except.map]
  · by_cases h2 : m * r.length = 0
    · simp [h1, h2, Except.map]
    · simp [h1, h2, Except.map]

end PyPhysim.C18P
