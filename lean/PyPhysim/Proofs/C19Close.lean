import PyPhysim.Proofs.C19State
import PyPhysim.Proofs.C19Robust
import PyPhysim.Model.C19Cluster

set_option linter.unusedSectionVars false
set_option linter.unusedTactic false
set_option linter.unreachableTactic false

/-! C19 — robustness classes R15 (values that are merely close are still different values) and R16
(results depend on the contents of the arguments at call time, not on which object carried them)
as facts about the model.

* the setters store the exact value: after any history a setter called with ANY new value leaves the
  freshly constructed cell of that value, and different values leave different cells (and different
  hexagons);
* `_validate_ratio` compares with `1.0`, `0` and `1` exactly;
* the class-level cache of `Cluster` is keyed by the exact cell count and holds nothing that depends
  on radius, rotation or position: a cluster built after any others is the one computed from scratch;
* a history of user-placement calls on one cell is the concatenation of what each call contributes
  to a user-less cell of the same geometry. -/
namespace PyPhysim.C19
open PyPhysim.Proto

section field
variable {α : Type} [Field α] [LinearOrder α] [IsStrictOrderedRing α] [Circ α]

/-! ### R15 — setters -/

theorem fresh_radius (k : CellKind) (p : Pt α) (R θ : α) : (fresh k p R θ).radius = R := by cases k <;> rfl
theorem fresh_rot (k : CellKind) (p : Pt α) (R θ : α) : (fresh k p R θ).rot = θ := by cases k <;> rfl

/-- a freshly constructed cell determines its three attributes -/
theorem fresh_injective (k : CellKind) (p p' : Pt α) (R R' θ θ' : α) (h : fresh k p R θ = fresh k p' R' θ') :
    p = p' ∧ R = R' ∧ θ = θ' := by
  have h1 := congrArg CellState.pos h
  have h2 := congrArg CellState.radius h
  have h3 := congrArg CellState.rot h
  rw [fresh_pos, fresh_pos] at h1
  rw [fresh_radius, fresh_radius] at h2
  rw [fresh_rot, fresh_rot] at h3
  exact ⟨h1, h2, h3⟩

/-- the value a setter was called with is the value read back, for every state and every value -/
theorem step_stores_value (st : CellState α) (q : Pt α) (r t : α) :
    (step st (.setPos q)).pos = q ∧ (step st (.setRadius r)).radius = r ∧ (step st (.setRot t)).rot = t := by
  refine ⟨?_, ?_, ?_⟩
  · show (stepPos st q).pos = q
    unfold stepPos; cases st.kind <;> rfl
  · simp only [step]; cases st.kind <;> rfl
  · simp only [step]; cases st.kind <;> rfl

/-- after any history, a setter called with any value (no matter how close to the current one)
    leaves the freshly constructed cell with that value -/
theorem setter_on_history (k : CellKind) (hs : 0 < Circ.sqrt ((2 : ℕ) : α)) (ops : List (CellOp α)) (p : Pt α)
    (R θ : α) (hR : 0 < R) (hok : OpsOk ops) :
    (∀ r, 0 ≤ r → step (run (fresh k p R θ) ops) (.setRadius r)
        = fresh k (run (fresh k p R θ) ops).pos r (run (fresh k p R θ) ops).rot) ∧
    (∀ q, step (run (fresh k p R θ) ops) (.setPos q)
        = fresh k q (run (fresh k p R θ) ops).radius (run (fresh k p R θ) ops).rot) ∧
    (∀ t, step (run (fresh k p R θ) ops) (.setRot t)
        = fresh k (run (fresh k p R θ) ops).pos (run (fresh k p R θ) ops).radius t) := by
  obtain ⟨h1, h2⟩ := run_fresh k hs ops p R θ hR hok
  rw [h1]
  simp only [fresh_pos, fresh_radius, fresh_rot]
  exact ⟨fun r hr => step_fresh_radius k _ _ r _ hs h2 hr, fun q => step_fresh_pos k _ q _ _ hs h2.le,
    fun t => step_fresh_rot k _ _ _ t⟩

/-- placing by a unit vector and a translation is injective -/
theorem place_injective (pos u : Pt α) (hu : norm2 u = 1) (a b : List (Pt α)) (h : place pos u a = place pos u b) :
    a = b := by
  have hinj : Function.Injective (fun v : Pt α => padd pos (rot u v)) := by
    intro v w hvw
    simp only [padd, rot, cmul, Prod.mk.injEq] at hvw
    obtain ⟨e1, e2⟩ := hvw
    simp only [norm2] at hu
    have a1 : v.1 - w.1 = 0 := by
      have : v.1 - w.1 = (v.1 - w.1) * (u.1 * u.1 + u.2 * u.2) := by rw [hu, mul_one]
      rw [this]; linear_combination u.1 * e1 + u.2 * e2
    have a2 : v.2 - w.2 = 0 := by
      have : v.2 - w.2 = (v.2 - w.2) * (u.1 * u.1 + u.2 * u.2) := by rw [hu, mul_one]
      rw [this]; linear_combination u.1 * e2 - u.2 * e1
    exact Prod.ext (sub_eq_zero.mp a1) (sub_eq_zero.mp a2)
  exact List.map_injective_iff.mpr hinj h

/-- hexagons of different radii are different polygons, in every position and rotation -/
theorem hex_verts_radius (pos u : Pt α) (hu : norm2 u = 1) (R R' : α)
    (h : place pos u (hexVerts R) = place pos u (hexVerts R')) : R = R' := by
  have h' := place_injective pos u hu _ _ h
  simp only [hexVerts, List.cons.injEq, Prod.mk.injEq] at h'
  have e := h'.1.1
  have two : ((2 : ℕ) : α) ≠ 0 := by norm_num
  have e' : R / ((2 : ℕ) : α) = R' / ((2 : ℕ) : α) := neg_injective e
  field_simp at e'
  exact e'

/-! ### R15 — the ratio of `add_border_user` -/

/-- `_validate_ratio` compares exactly: every ratio in `[0, 1)` is passed on unchanged, only `1` itself is
    nudged, everything below `0` or above `1` is rejected -/
theorem validateRatio_exact (ratio eps : α) :
    (0 ≤ ratio → ratio < 1 → validateRatio ratio eps = .ok ratio) ∧
    (ratio = 1 → validateRatio ratio eps = .ok (1 - eps)) ∧
    (ratio < 0 ∨ 1 < ratio → validateRatio ratio eps = .error .ValueError) := by
  unfold validateRatio
  simp only [Nat.cast_one, Nat.cast_zero]
  refine ⟨?_, ?_, ?_⟩
  · intro h0 h1
    rw [if_neg (by intro hc; linarith [hc.2]), if_neg (by push Not; exact ⟨h0, h1.le⟩)]
  · intro h; subst h
    rw [if_pos ⟨le_refl _, le_refl _⟩]
  · intro h
    rw [if_neg (by intro hc; rcases h with h | h <;> linarith [hc.1, hc.2]), if_pos h]

/-! ### R15 — the class-level cache of `Cluster` -/

/-- every entry of the cache is the unit-radius layout of its key -/
def CacheOk (c : NormCache α) : Prop := ∀ n l, c.lookup n = some l → l = normPositions n

theorem hexRaw_eq_norm (R : α) (n : ℕ) : hexRaw R n = (normPositions n).map (smul R) := by
  simp only [hexRaw, normPositions, List.map_map]; rfl

theorem cacheOk_nil : CacheOk ([] : NormCache α) := by
  intro n l h; simp [List.lookup] at h

theorem hexRawCached_spec (c : NormCache α) (hc : CacheOk c) (R : α) (n : ℕ) :
    CacheOk (hexRawCached c R n).1 ∧ (hexRawCached c R n).2 = hexRaw R n := by
  unfold hexRawCached
  cases hl : c.lookup n with
  | some l =>
    simp only
    refine ⟨hc, ?_⟩
    rw [hc n l hl, hexRaw_eq_norm]
  | none =>
    simp only
    refine ⟨?_, (hexRaw_eq_norm R n).symm⟩
    intro m l hm
    rw [List.lookup_cons] at hm
    by_cases hmn : (m == n) = true
    · rw [hmn] at hm
      simp only [Option.some.injEq] at hm
      rw [← hm, beq_iff_eq.mp hmn]
    · simp only [Bool.not_eq_true] at hmn
      rw [hmn] at hm
      exact hc m l hm

theorem clusterSeq_spec : ∀ (reqs : List (ℕ × α × Pt α × Pt α)) (c : NormCache α), CacheOk c →
    clusterSeq c reqs = reqs.map (fun r => clusterCentres (hexRaw r.2.1 r.1) r.2.2.1 r.2.2.2)
  | [], _, _ => rfl
  | (n, R, u, pos) :: rest, c, hc => by
    obtain ⟨h1, h2⟩ := hexRawCached_spec c hc R n
    simp only [clusterSeq, List.map_cons, h2, clusterSeq_spec rest _ h1]

/-! ### R16 — placement calls on a long-lived cell -/

/-- the calls that add users and leave the geometry alone -/
def Call.isPlacement : Call α → Bool
  | .addUser _ | .borderUser _ _ => true
  | _ => false

theorem callRun_append (inside : List (Pt α) → Pt α → Bool) (eps : α) :
    ∀ (a b : List (Call α)) (o : CellObj α), callRun inside eps o (a ++ b) = callRun inside eps (callRun inside eps o a) b
  | [], _, _ => rfl
  | c :: a, b, o => by
    simp only [List.cons_append, callRun]
    cases callStep inside eps o c with
    | ok o' => exact callRun_append inside eps a b o'
    | error _ => exact callRun_append inside eps a b o

/-- one placement call: the geometry is untouched, the users grow at the end by exactly what the
    same call adds to a user-less cell of the same geometry; a rejection does not depend on the users -/
theorem callStep_placement (inside : List (Pt α) → Pt α → Bool) (eps : α) (o : CellObj α) (c : Call α)
    (hc : c.isPlacement = true) :
    (∀ o', callStep inside eps o c = .ok o' → o'.st = o.st ∧ ∃ new, o'.users = o.users ++ new ∧
        callStep inside eps { st := o.st, users := [] } c = .ok { st := o.st, users := new }) ∧
    (∀ e, callStep inside eps o c = .error e → callStep inside eps { st := o.st, users := [] } c = .error e) := by
  cases c with
  | set op => simp [Call.isPlacement] at hc
  | deleteUsers => simp [Call.isPlacement] at hc
  | addUser p =>
    simp only [callStep]
    by_cases h : stInside inside o.st p = true
    · simp only [h, if_true, Except.ok.injEq, List.nil_append]
      refine ⟨?_, fun e he => by cases he⟩
      intro o' ho; subst ho
      exact ⟨rfl, [p], rfl, rfl⟩
    · simp only [h]
      exact ⟨fun o' ho => by simp at ho, fun e he => by simpa using he⟩
  | borderUser ang ratio =>
    simp only [callStep]
    cases borderUser o.st.pos (stVerts o.st) (Circ.cisDeg ang) ratio eps with
    | ok p =>
      simp only [Except.ok.injEq, List.nil_append]
      refine ⟨?_, fun e he => by cases he⟩
      intro o' ho; subst ho
      exact ⟨rfl, [p], rfl, rfl⟩
    | error e0 =>
      exact ⟨fun o' ho => by simp at ho, fun e he => by simpa using he⟩

/-- **a history of placement calls is the concatenation of the single calls on a user-less cell** -/
theorem callRun_placements (inside : List (Pt α) → Pt α → Bool) (eps : α) :
    ∀ (cs : List (Call α)) (o : CellObj α), (∀ c ∈ cs, c.isPlacement = true) →
      (callRun inside eps o cs).st = o.st ∧
      (callRun inside eps o cs).users = o.users ++ (callRun inside eps { st := o.st, users := [] } cs).users
  | [], o, _ => ⟨rfl, by simp [callRun]⟩
  | c :: cs, o, h => by
    have hc := h c (List.mem_cons_self ..)
    have hcs : ∀ x ∈ cs, x.isPlacement = true := fun x hx => h x (List.mem_cons_of_mem _ hx)
    obtain ⟨hok, herr⟩ := callStep_placement inside eps o c hc
    simp only [callRun]
    cases hstep : callStep inside eps o c with
    | ok o' =>
      obtain ⟨hst, new, hu, hfresh⟩ := hok o' hstep
      simp only [hfresh]
      obtain ⟨i1, i2⟩ := callRun_placements inside eps cs o' hcs
      obtain ⟨_, j2⟩ := callRun_placements inside eps cs { st := o.st, users := new } hcs
      refine ⟨i1.trans hst, ?_⟩
      rw [i2, j2, hu, hst, List.append_assoc]
    | error e =>
      simp only [herr e hstep]
      exact callRun_placements inside eps cs o hcs
end field

end PyPhysim.C19
