import PyPhysim.Proofs.C10Bridge
import Mathlib.Analysis.Complex.Basic

/-!
Ky Fan's minimum principle from a numerically checkable certificate.

`leig(Q, s)` returns `s` eigenpairs `(V, d)` of the Hermitian matrix `Q`.  If the
columns of `V` are orthonormal, `Q V = V diag(d)` and the rest of the spectrum
lies above `μ ≥ max d` — expressed without any eigen-decomposition as
"`Q − V diag(d) Vᴴ − μ (1 − V Vᴴ)` is positive semidefinite" — then `V` minimises
`tr(Uᴴ Q U)` over all `U` with orthonormal columns.  (`peig` = the same for `−Q`.)
-/
set_option linter.unusedSectionVars false
set_option linter.unusedVariables false
set_option linter.unusedSimpArgs false
namespace PyPhysim.C10
open Matrix
open scoped ComplexOrder

variable {n s : Nat}

/-- the orthogonal projector onto the complement of an orthonormal family is PSD -/
theorem one_sub_proj_posSemidef (U : Matrix (Fin n) (Fin s) ℂ) (hU : Uᴴ * U = 1) :
    (1 - U * Uᴴ).PosSemidef := by
  have hH : (1 - U * Uᴴ)ᴴ = 1 - U * Uᴴ := by
    simp [conjTranspose_sub, conjTranspose_mul]
  have hI : (1 - U * Uᴴ) * (1 - U * Uᴴ) = 1 - U * Uᴴ := by
    have : U * Uᴴ * (U * Uᴴ) = U * Uᴴ := by
      rw [Matrix.mul_assoc, ← Matrix.mul_assoc Uᴴ, hU, Matrix.one_mul]
    simp only [Matrix.sub_mul, Matrix.mul_sub, Matrix.one_mul, Matrix.mul_one, this]
    abel
  have := posSemidef_conjTranspose_mul_self (1 - U * Uᴴ)
  rwa [hH, hI] at this

/-- certificate form of Ky Fan's principle (see the module doc) -/
theorem kyfan_min (Q : Matrix (Fin n) (Fin n) ℂ) (V : Matrix (Fin n) (Fin s) ℂ) (dd : Fin s → ℝ)
    (μ : ℝ) (hV : Vᴴ * V = 1) (hμ : ∀ i, dd i ≤ μ)
    (hR : (Q - V * diagonal (fun i => (dd i : ℂ)) * Vᴴ - (μ : ℂ) • (1 - V * Vᴴ)).PosSemidef)
    (U : Matrix (Fin n) (Fin s) ℂ) (hU : Uᴴ * U = 1) :
    ∑ i, dd i ≤ (Matrix.trace (Uᴴ * Q * U)).re := by
  set D : Matrix (Fin s) (Fin s) ℂ := diagonal (fun i => (dd i : ℂ)) with hD
  set R : Matrix (Fin n) (Fin n) ℂ := Q - V * D * Vᴴ - (μ : ℂ) • (1 - V * Vᴴ) with hRdef
  have hQ : Q = V * D * Vᴴ + (μ : ℂ) • (1 - V * Vᴴ) + R := by
    rw [hRdef]; abel
  set Wm : Matrix (Fin s) (Fin s) ℂ := Vᴴ * U with hW
  set G : Matrix (Fin s) (Fin s) ℂ := Wm * Wmᴴ with hG
  have hWH : Wmᴴ = Uᴴ * V := by rw [hW, conjTranspose_mul, conjTranspose_conjTranspose]
  -- the three pieces of the Matrix.trace
  have t1 : Matrix.trace (Uᴴ * (V * D * Vᴴ) * U) = ∑ i, (dd i : ℂ) * G i i := by
    have : Uᴴ * (V * D * Vᴴ) * U = (Uᴴ * V) * (D * (Vᴴ * U)) := by simp only [Matrix.mul_assoc]
    rw [this, trace_mul_comm, Matrix.mul_assoc, ← hWH, ← hW, ← hG]
    simp only [Matrix.trace, diag_apply, hD, diagonal_mul]
  have t2 : Matrix.trace (Uᴴ * ((μ : ℂ) • (1 - V * Vᴴ)) * U) = (μ : ℂ) * ((s : ℂ) - Matrix.trace G) := by
    have : Uᴴ * ((μ : ℂ) • (1 - V * Vᴴ)) * U = (μ : ℂ) • (Uᴴ * U - (Uᴴ * V) * (Vᴴ * U)) := by
      simp only [Matrix.mul_smul, Matrix.smul_mul, Matrix.mul_sub, Matrix.sub_mul, Matrix.mul_one,
        Matrix.mul_assoc]
    rw [this, trace_smul, trace_sub, hU, trace_one, Fintype.card_fin, trace_mul_comm, ← hW, ← hWH, ← hG,
      smul_eq_mul]
  have t3 : 0 ≤ Matrix.trace (Uᴴ * R * U) := (hR.conjTranspose_mul_mul_same U).trace_nonneg
  have hsplit : Matrix.trace (Uᴴ * Q * U)
      = Matrix.trace (Uᴴ * (V * D * Vᴴ) * U) + Matrix.trace (Uᴴ * ((μ : ℂ) • (1 - V * Vᴴ)) * U) + Matrix.trace (Uᴴ * R * U) := by
    conv_lhs => rw [hQ]
    simp only [Matrix.mul_add, Matrix.add_mul, trace_add]
  -- G and 1 - G are positive semidefinite
  have hGps : G.PosSemidef := posSemidef_self_mul_conjTranspose Wm
  have h1G : (1 - G).PosSemidef := by
    have := (one_sub_proj_posSemidef U hU).conjTranspose_mul_mul_same V
    have e : Vᴴ * (1 - U * Uᴴ) * V = 1 - G := by
      rw [hG, hWH, hW]
      simp only [Matrix.mul_sub, Matrix.sub_mul, Matrix.mul_one, hV, Matrix.mul_assoc]
    rwa [e] at this
  have g0 : ∀ i, 0 ≤ (G i i).re := fun i => (Complex.nonneg_iff.mp hGps.diag_nonneg).1
  have g1 : ∀ i, (G i i).re ≤ 1 := fun i => by
    have := (Complex.nonneg_iff.mp (h1G.diag_nonneg (i := i))).1
    simp only [Matrix.sub_apply, one_apply_eq, Complex.sub_re, Complex.one_re] at this
    linarith
  have r3 : 0 ≤ (Matrix.trace (Uᴴ * R * U)).re := (Complex.nonneg_iff.mp t3).1
  have e1 : (∑ i, (dd i : ℂ) * G i i).re = ∑ i, dd i * (G i i).re := by
    simp [Complex.re_sum, Complex.re_ofReal_mul]
  have e2 : ((μ : ℂ) * ((s : ℂ) - Matrix.trace G)).re = μ * ((s : ℝ) - ∑ i, (G i i).re) := by
    rw [Complex.re_ofReal_mul]
    simp [Matrix.trace, Complex.re_sum]
  rw [hsplit, t1, t2, Complex.add_re, Complex.add_re, e1, e2]
  have key : ∑ i, dd i ≤ ∑ i, (dd i * (G i i).re + μ * (1 - (G i i).re)) := by
    refine Finset.sum_le_sum (fun i _ => ?_)
    have := mul_nonneg (sub_nonneg.mpr (hμ i)) (sub_nonneg.mpr (g1 i))
    nlinarith [g0 i]
  have regroup : ∑ i, (dd i * (G i i).re + μ * (1 - (G i i).re))
      = ∑ i, dd i * (G i i).re + μ * ((s : ℝ) - ∑ i, (G i i).re) := by
    rw [Finset.sum_add_distrib, ← Finset.mul_sum, Finset.sum_sub_distrib]
    simp
  linarith

/-- the certified family attains the bound -/
theorem kyfan_attained (Q : Matrix (Fin n) (Fin n) ℂ) (V : Matrix (Fin n) (Fin s) ℂ) (dd : Fin s → ℝ)
    (hV : Vᴴ * V = 1) (hQV : Q * V = V * diagonal (fun i => (dd i : ℂ))) :
    (Matrix.trace (Vᴴ * Q * V)).re = ∑ i, dd i := by
  rw [Matrix.mul_assoc, hQV, ← Matrix.mul_assoc, hV, Matrix.one_mul]
  simp [Matrix.trace]

/-- the same for scaled orthonormal families (`V / ‖V‖_F = V / √s`, what the solvers store):
    scaling both competitors by the same real factor preserves the order -/
theorem kyfan_min_scaled (Q : Matrix (Fin n) (Fin n) ℂ) (V : Matrix (Fin n) (Fin s) ℂ) (dd : Fin s → ℝ)
    (μ : ℝ) (hV : Vᴴ * V = 1) (hQV : Q * V = V * diagonal (fun i => (dd i : ℂ))) (hμ : ∀ i, dd i ≤ μ)
    (hR : (Q - V * diagonal (fun i => (dd i : ℂ)) * Vᴴ - (μ : ℂ) • (1 - V * Vᴴ)).PosSemidef)
    (U : Matrix (Fin n) (Fin s) ℂ) (hU : Uᴴ * U = 1) (c : ℝ) :
    (Matrix.trace (((c : ℂ) • V)ᴴ * Q * ((c : ℂ) • V))).re ≤ (Matrix.trace (((c : ℂ) • U)ᴴ * Q * ((c : ℂ) • U))).re := by
  have h1 := kyfan_min Q V dd μ hV hμ hR U hU
  have h2 := kyfan_attained Q V dd hV hQV
  have e : ∀ X : Matrix (Fin n) (Fin s) ℂ,
      (Matrix.trace (((c : ℂ) • X)ᴴ * Q * ((c : ℂ) • X))).re = c * c * (Matrix.trace (Xᴴ * Q * X)).re := by
    intro X
    simp only [conjTranspose_smul, Matrix.smul_mul, Matrix.mul_smul, trace_smul, smul_eq_mul,
      Complex.star_def, Complex.conj_ofReal]
    rw [← mul_assoc, ← Complex.ofReal_mul, Complex.re_ofReal_mul]
  rw [e V, e U, h2]
  exact mul_le_mul_of_nonneg_left h1 (mul_self_nonneg c)

end PyPhysim.C10
