import PyPhysim.Proofs.C13Real

/-! # C13 — the negative-loss policy, scalar / array dispatch (α = ℝ) -/
namespace PyPhysim.C13
open PyPhysim.Proto

/-- clamp at 0 dB -/
noncomputable def clamp (x : ℝ) : ℝ := if x < 0 then 0 else x

theorem clamp_nonneg (x : ℝ) : 0 ≤ clamp x := by
  unfold clamp; split_ifs <;> linarith

theorem clamp_mono {x y : ℝ} (h : x ≤ y) : clamp x ≤ clamp y := by
  unfold clamp; split_ifs <;> linarith

theorem clamp_of_nonneg {x : ℝ} (h : 0 ≤ x) : clamp x = x := by
  unfold clamp; rw [if_neg (by linarith)]

theorem policyScalar_real (small : Bool) (pl : ℝ) :
    policyScalar small pl =
      if pl < 0 then (if small then .ok 0 else .error .RuntimeError) else .ok pl := by
  simp [policyScalar]

/-- what the scalar policy returns, case by case -/
theorem policyScalar_spec (small : Bool) (pl : ℝ) :
    (0 ≤ pl → policyScalar small pl = .ok pl) ∧
    (pl < 0 → small = true → policyScalar small pl = .ok 0) ∧
    (pl < 0 → small = false → policyScalar small pl = .error .RuntimeError) := by
  rw [policyScalar_real]
  refine ⟨fun h => by rw [if_neg (by linarith)], fun h hs => by rw [if_pos h, if_pos hs],
    fun h hs => by rw [if_pos h, hs]; rfl⟩

theorem policyScalar_ok {small : Bool} {pl x : ℝ} (h : policyScalar small pl = .ok x) :
    x = clamp pl ∧ (small = false → 0 ≤ pl) := by
  rw [policyScalar_real] at h
  unfold clamp
  by_cases hp : pl < 0
  · rw [if_pos hp] at h
    cases small
    · simp at h
    · simp at h; subst h; simp [hp]
  · rw [if_neg hp] at h
    cases h
    simp [hp]; intro _; linarith

theorem policyArray_real (small : Bool) (pl : List ℝ) :
    policyArray small pl =
      if (∃ x ∈ pl, x < 0) then (if small then .ok (pl.map clamp) else .error .RuntimeError)
      else .ok pl := by
  unfold policyArray clamp
  simp only [zero_real, List.any_eq_true, decide_eq_true_eq]

theorem map_clamp_of_nonneg {pl : List ℝ} (h : ¬ ∃ x ∈ pl, x < 0) : pl.map clamp = pl := by
  induction pl with
  | nil => rfl
  | cons a t ih =>
    simp only [List.map_cons]
    rw [clamp_of_nonneg, ih]
    · intro ⟨x, hx, hx0⟩; exact h ⟨x, by simp [hx], hx0⟩
    · by_contra hc; exact h ⟨a, by simp, by linarith⟩

/-- an array that passes the policy is the entry-wise clamp of the deterministic
    losses; without the flag nothing was negative -/
theorem policyArray_ok {small : Bool} {pl xs : List ℝ} (h : policyArray small pl = .ok xs) :
    xs = pl.map clamp ∧ (small = false → ∀ x ∈ pl, 0 ≤ x) := by
  rw [policyArray_real] at h
  by_cases hp : ∃ x ∈ pl, x < 0
  · rw [if_pos hp] at h
    cases small
    · simp at h
    · simp at h; exact ⟨h.symm, by simp⟩
  · rw [if_neg hp] at h
    cases h
    refine ⟨(map_clamp_of_nonneg hp).symm, fun _ x hx => ?_⟩
    by_contra hc; exact hp ⟨x, hx, by linarith⟩

theorem policyArray_raises {pl : List ℝ} (h : ∃ x ∈ pl, x < 0) :
    policyArray false pl = .error .RuntimeError := by
  rw [policyArray_real, if_pos h]; rfl

theorem policyArray_clamps (pl : List ℝ) : policyArray true pl = .ok (pl.map clamp) := by
  rw [policyArray_real]
  by_cases hp : ∃ x ∈ pl, x < 0
  · rw [if_pos hp]; rfl
  · rw [if_neg hp, map_clamp_of_nonneg hp]

theorem scalarDb_real (small : Bool) (f : ℝ → ℝ) (d : ℝ) :
    scalarDb small f d = if 0 < d then policyScalar small (f d) else .error .ValueError := by
  simp [scalarDb]

theorem scalarDb_ok {small : Bool} {f : ℝ → ℝ} {d x : ℝ} (h : scalarDb small f d = .ok x) :
    0 < d ∧ x = clamp (f d) ∧ (small = false → 0 ≤ f d) := by
  rw [scalarDb_real] at h
  by_cases hd : 0 < d
  · rw [if_pos hd] at h; exact ⟨hd, policyScalar_ok h⟩
  · rw [if_neg hd] at h; cases h

/-- monotone deterministic loss ⇒ monotone reported loss (scalar queries) -/
theorem scalarDb_mono {small : Bool} {f : ℝ → ℝ}
    (hf : ∀ a b, 0 < a → a ≤ b → f a ≤ f b) {d₁ d₂ x₁ x₂ : ℝ}
    (h₁ : scalarDb small f d₁ = .ok x₁) (h₂ : scalarDb small f d₂ = .ok x₂) (h : d₁ ≤ d₂) :
    x₁ ≤ x₂ := by
  obtain ⟨p₁, e₁, _⟩ := scalarDb_ok h₁
  obtain ⟨_, e₂, _⟩ := scalarDb_ok h₂
  rw [e₁, e₂]; exact clamp_mono (hf _ _ p₁ h)

/-- monotone deterministic loss ⇒ a sorted array of distances gives a sorted array of losses -/
theorem arrayDb_mono {small : Bool} {f : ℝ → ℝ}
    (hf : ∀ a b, 0 < a → a ≤ b → f a ≤ f b) {ds xs : List ℝ}
    (hpos : ∀ d ∈ ds, 0 < d) (hs : ds.Pairwise (· ≤ ·))
    (h : arrayDb small f ds = .ok xs) : xs.Pairwise (· ≤ ·) := by
  obtain ⟨e, _⟩ := policyArray_ok (show policyArray small (ds.map f) = .ok xs from h)
  rw [e, List.map_map, List.pairwise_map]
  exact hs.imp_of_mem (fun {a b} ha _ hab => clamp_mono (hf a b (hpos a ha) hab))

/-- scalar and array queries agree entry by entry -/
theorem arrayDb_eq_scalar {small : Bool} {f : ℝ → ℝ} {ds xs : List ℝ}
    (hpos : ∀ d ∈ ds, 0 < d) (h : arrayDb small f ds = .ok xs) :
    xs = ds.map (fun d => clamp (f d)) ∧
    (small = true → ∀ d ∈ ds, scalarDb small f d = .ok (clamp (f d))) := by
  obtain ⟨e, _⟩ := policyArray_ok (show policyArray small (ds.map f) = .ok xs from h)
  refine ⟨by rw [e, List.map_map]; rfl, fun hs d hd => ?_⟩
  subst hs
  rw [scalarDb_real, if_pos (hpos d hd), policyScalar_real]
  unfold clamp
  by_cases hp : f d < 0 <;> simp [hp]

/-- linear scale: `10^(-dB/10)`, inside `(0, 1]` -/
theorem toLin_ok {r : Except PyErr ℝ} {y : ℝ} (h : toLin r = .ok y) :
    ∃ x, r = .ok x ∧ y = (10 : ℝ) ^ (-x / 10) := by
  cases r with
  | error e => cases h
  | ok x =>
    refine ⟨x, rfl, ?_⟩
    have : y = Gen.dB2Linear (-x) := by
      simp only [toLin, Except.map] at h; cases h; rfl
    rw [this, dB2Linear_real]

end PyPhysim.C13
