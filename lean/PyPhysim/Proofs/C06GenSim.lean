import PyPhysim.Proofs.C06Heap
import PyPhysim.Generated.C06Sim

/-! Bridge lemmas for C06, container level: the functions re-emitted from the source of
`SimulationResults.add_result / append_result / add_new_result / merge_all_results`
(`PyPhysim.Generated.C06Sim`) compute the same function on the object-level machine as the hand
model (`Model/C06Heap.lean`). -/
set_option linter.unusedSimpArgs false
set_option linter.unusedTactic false
set_option linter.unreachableTactic false
set_option linter.unnecessarySeqFocus false

namespace PyPhysim.C06M
open PyPhysim.Proto
namespace GenSim
open PyPhysim.Generated.C06Sim

/-- a Python dictionary has no key twice -/
def KeysNodup (d : Dict) : Prop := (d.map (·.1)).Nodup

theorem mem_keys_iff (d : Dict) (k : String) : k ∈ d.map (·.1) ↔ (dictGet? d k).isSome = true := by
  induction d with
  | nil => simp [dictGet?]
  | cons e rest ih =>
    obtain ⟨k', l'⟩ := e
    by_cases h : k' = k
    · simp [dictGet?, h]
    · have h' : ¬ k = k' := fun e => h e.symm
      simp [dictGet?, h, h', ih]

theorem mem_names_iff (m : Mach) (x : Nat) (k : String) :
    k ∈ Ops.names m x ↔ (dictGet? (dictOf m x) k).isSome = true := mem_keys_iff _ _

theorem not_mem_names_iff (m : Mach) (x : Nat) (k : String) :
    ¬ k ∈ Ops.names m x ↔ (dictGet? (dictOf m x) k).isNone = true := by
  rw [mem_names_iff]; cases dictGet? (dictOf m x) k <;> simp

theorem opt_cases {α : Type} (x : Option α) : x = none ∨ ∃ a, x = some a := by
  cases x <;> simp

theorem addResult_eq (m : Mach) (s a : Nat) : Generated.C06Sim.addResult m s a = C06M.addResult m s a := by
  unfold Generated.C06Sim.addResult C06M.addResult Ops.deref Ops.setEntryNewList
  cases m.res[a]? <;> rfl

theorem appendResult_eq (m : Mach) (s a : Nat) :
    Generated.C06Sim.appendResult m s a = C06M.appendResult m s a := by
  unfold Generated.C06Sim.appendResult C06M.appendResult C06M.addResult
  simp only [Ops.deref, mem_names_iff, not_mem_names_iff, Ops.getList, Ops.first, Ops.listAppend,
    Ops.setEntryNewList]
  -- the result given, the stored list, its first element: split in turn
  rcases opt_cases (m.res[a]?) with hr | ⟨r, hr⟩
  · simp [hr]
  · simp only [hr]
    rcases opt_cases (dictGet? (dictOf m s) r.name) with hd | ⟨l, hd⟩
    · simp [hd, hr]
    · have hl : listAt m l = [] ∨ ∃ a0 rest, listAt m l = a0 :: rest := by
        cases listAt m l <;> simp
      rcases hl with hl | ⟨a0, rest, hl⟩
      · simp [hd, hl]
      · rcases opt_cases (m.res[a0]?) with hr0 | ⟨r0, hr0⟩
        · simp [hd, hl, hr0]
        · by_cases ht : r0.ty = r.ty <;> simp [hd, hl, hr0, ht, hr]

theorem res_allocRes (m : Mach) (r : Res) : (allocRes m r).1.res[(allocRes m r).2]? = some r := by
  simp [allocRes]

theorem addNewResult_eq (m : Mach) (s : Nat) (name : String) (ty : Ty) (v t : Rat) :
    Generated.C06Sim.addNewResult m s name ty v t = C06M.addNewResult m s name ty v t := by
  unfold Generated.C06Sim.addNewResult C06M.addNewResult
  cases createRes name ty v t false with
  | error e => rfl
  | ok r =>
    simp only []
    unfold C06M.addResult Ops.setEntryNewList
    simp [allocRes]

/-! ### the loops of `merge_all_results` -/

theorem dictOf_mergeR (m : Mach) (a b x : Nat) : dictOf (mergeR m a b).1 x = dictOf m x := by
  simp [dictOf, mergeR_sims]

theorem listAt_mergeR (m : Mach) (a b l : Nat) : listAt (mergeR m a b).1 l = listAt m l := by
  simp [listAt, mergeR_lists]

/-- validation loop: `for item in self.get_result_names(): if item != 'num_skipped_reps':
    self._results[item][-1]._assert_can_merge(other[item][-1])` changes nothing and raises what
    `checkNames` reports -/
theorem loop2_eq (s o : Nat) (m : Mach) (names : List String) :
    mergeAll_loop2 s o m names = (m, checkNames (dictOf m s) (dictOf m o) m names) := by
  induction names with
  | nil => rfl
  | cons nm rest ih =>
    unfold mergeAll_loop2 checkNames
    by_cases hn : nm = nsr
    · have hn' : nm = "num_skipped_reps" := hn
      simp only [hn', not_true_eq_false, if_false, nsr, if_true]
      exact ih
    · have hn' : ¬ nm = "num_skipped_reps" := hn
      simp only [hn', hn, not_false_eq_true, if_true, if_false, Ops.getList, Ops.last, lastOf, Ops.deref]
      cases dictGet? (dictOf m s) nm with
      | none => rfl
      | some l =>
        simp only []
        cases (listAt m l).getLast? with
        | none => rfl
        | some a =>
          simp only []
          cases dictGet? (dictOf m o) nm with
          | none => rfl
          | some l' =>
            simp only []
            cases (listAt m l').getLast? with
            | none => rfl
            | some b =>
              simp only []
              cases m.res[a]? with
              | none => cases m.res[b]? <;> rfl
              | some ra =>
                cases m.res[b]? with
                | none => rfl
                | some rb =>
                  simp only []
                  cases mergeGuard ra rb with
                  | some e => rfl
                  | none => exact ih

/-- merge loop: `for item in self.get_result_names(): if item != 'num_skipped_reps':
    self._results[item][-1].merge(other[item][-1])` -/
theorem loop3_eq (s o : Nat) (m : Mach) (names : List String) :
    mergeAll_loop3 s o m names = mergeNames (dictOf m s) (dictOf m o) m names := by
  suffices h : ∀ (ds od : Dict) (m : Mach), dictOf m s = ds → dictOf m o = od →
      mergeAll_loop3 s o m names = mergeNames ds od m names from h _ _ m rfl rfl
  intro ds od
  induction names with
  | nil => intro m _ _; rfl
  | cons nm rest ih =>
    intro m hs ho
    unfold mergeAll_loop3 mergeNames
    by_cases hn : nm = nsr
    · have hn' : nm = "num_skipped_reps" := hn
      simp only [hn', not_true_eq_false, if_false, nsr, if_true]
      exact ih m hs ho
    · have hn' : ¬ nm = "num_skipped_reps" := hn
      simp only [hn', hn, not_false_eq_true, if_true, if_false, Ops.getList, Ops.last, lastOf, hs, ho]
      cases dictGet? ds nm with
      | none => rfl
      | some l =>
        simp only []
        cases (listAt m l).getLast? with
        | none => rfl
        | some a =>
          simp only []
          cases dictGet? od nm with
          | none => rfl
          | some l' =>
            simp only []
            cases (listAt m l').getLast? with
            | none => rfl
            | some b =>
              simp only []
              have h1 := dictOf_mergeR m a b s
              have h2 := dictOf_mergeR m a b o
              generalize hmr : mergeR m a b = p at h1 h2
              obtain ⟨m', e⟩ := p
              cases e with
              | some e => rfl
              | none => exact ih m' (h1.trans hs) (h2.trans ho)

theorem dictOf_setDict_ne (m : Mach) (s o : Nat) (d : Dict) (h : s ≠ o) :
    dictOf (setDict m s d) o = dictOf m o := by
  simp [dictOf, setDict, List.getElem?_modify, h]

theorem dictGet?_of_mem {d : Dict} (hnd : KeysNodup d) {e : String × Nat} (he : e ∈ d) :
    dictGet? d e.1 = some e.2 := by
  induction d with
  | nil => cases he
  | cons x rest ih =>
    obtain ⟨k, l⟩ := x
    have hnd' : k ∉ rest.map (·.1) ∧ KeysNodup rest := by
      simpa [KeysNodup] using hnd
    rcases List.mem_cons.mp he with h | h
    · subst h; simp [dictGet?]
    · have hne : ¬ k = e.1 := by
        intro hk
        exact hnd'.1 (hk ▸ List.mem_map_of_mem (f := (·.1)) h)
      simp [dictGet?, hne, ih hnd'.2 h]

/-- copying loop of the empty-`self` branch: `for name in other.get_result_names():
    self._results[name] = [copy.deepcopy(r) for r in other[name]]` -/
theorem loop1_eq (s o : Nat) (hso : s ≠ o) (D : Dict) (suf : Dict) (m : Mach)
    (hD : dictOf m o = D) (hsuf : ∀ e ∈ suf, dictGet? D e.1 = some e.2) :
    mergeAll_loop1 s o m (suf.map (·.1)) = (copyDict s m suf, none) := by
  induction suf generalizing m with
  | nil => rfl
  | cons e rest ih =>
    obtain ⟨nm, l⟩ := e
    have hl : dictGet? (dictOf m o) nm = some l := by rw [hD]; exact hsuf (nm, l) (by simp)
    simp only [List.map_cons]
    unfold mergeAll_loop1 copyDict
    simp only [Ops.getList, hl, Ops.setEntryNewList]
    obtain ⟨_, _, c3, _⟩ := copyElems_spec m (listAt m l)
    generalize copyElems m (listAt m l) = ce at c3
    obtain ⟨m1, cs⟩ := ce
    simp only at c3 ⊢
    apply ih
    · rw [dictOf_setDict_ne _ _ _ _ hso]
      simp only [dictOf, allocList, c3]
      exact hD
    · intro e he; exact hsuf e (List.mem_cons_of_mem _ he)

theorem createRes_nsr : createRes "num_skipped_reps" .sum 0 0 false
    = .ok (update (fresh nsr .sum false 0) ⟨0, some 0⟩).1 := by
  rfl

theorem mkRes_nsr : mkRes "num_skipped_reps" .sum false none = .ok (fresh nsr .sum false 0) := by
  rfl

theorem size_eq_zero_iff (m : Mach) (s : Nat) : Ops.size m s = 0 ↔ dictOf m s = [] := by
  simp [Ops.size]

/-- `self.add_new_result('num_skipped_reps', SUMTYPE, 0)` spelled with the primitives -/
theorem setEntry_nsr (m : Mach) (s : Nat) :
    Ops.setEntryNewList
        (allocRes m (update (fresh "num_skipped_reps" .sum false 0) ⟨0, some 0⟩).1).1 s
        (update (fresh "num_skipped_reps" .sum false 0) ⟨0, some 0⟩).1.name
        [(allocRes m (update (fresh "num_skipped_reps" .sum false 0) ⟨0, some 0⟩).1).2]
      = (addNewSumZero m s "num_skipped_reps").1 := by
  unfold addNewSumZero C06M.addResult Ops.setEntryNewList
  simp [allocRes, fresh, update]

theorem dictOf_mergeNames (ds od : Dict) (m : Mach) (names : List String) (x : Nat) :
    dictOf (mergeNames ds od m names).1 x = dictOf m x := by
  simp [dictOf, mergeNames_sims]

theorem listAt_mergeNames (ds od : Dict) (m : Mach) (names : List String) (l : Nat) :
    listAt (mergeNames ds od m names).1 l = listAt m l := by
  simp [listAt, mergeNames_lists]

/- `lookups M`: both sides of the goal run the look-ups `self._results[nsr][-1]`, `other[nsr][-1]` on the
   machine `M` (in this order) and then the same `merge`: split them in turn -/
set_option hygiene false in
macro "lookups " M:term : tactic =>
  `(tactic| (
      rcases opt_cases (dictGet? (dictOf $M s) "num_skipped_reps") with h1 | ⟨l1, h1⟩
      · simp [h1]
      · rcases opt_cases ((listAt $M l1).getLast?) with h2 | ⟨a1, h2⟩
        · simp [h1, h2]
        · rcases opt_cases (dictGet? (dictOf $M o) "num_skipped_reps") with h3 | ⟨l2, h3⟩
          · simp [h1, h2, h3]
          · rcases opt_cases ((listAt $M l2).getLast?) with h4 | ⟨a2, h4⟩
            · simp [h1, h2, h3, h4]
            · simp only [h1, h2, h3, h4]
              generalize mergeR $M a1 a2 = q
              rcases q with ⟨m2, _ | e2⟩ <;> rfl))

/- what follows a successful validation: the merge loop, then the `'num_skipped_reps'` tail.  Everything
   after the loop reads the dictionaries of the machine before it (`merge` only writes Result objects).
   Expects the facts `ho`, `hs` about `'num_skipped_reps'` in `other` / `self` in the context. -/
set_option hygiene false in
macro "after_validation" : tactic =>
  `(tactic| (
      generalize hp : mergeNames (dictOf m s) (dictOf m o) m (Ops.names m s) = p
      obtain ⟨m1, e1⟩ := p
      have hd1 : ∀ x, dictOf m1 x = dictOf m x := fun x => by
        have := dictOf_mergeNames (dictOf m s) (dictOf m o) m (Ops.names m s) x
        rw [hp] at this; exact this
      rcases e1 with _ | e1
      · simp only [hd1, ho, hs, Option.isSome_some, Option.isNone_some, Option.isSome_none, Option.isNone_none,
          Bool.false_eq_true, if_false, if_true, not_true_eq_false, not_false_eq_true, setEntry_nsr]
        first
          | rfl
          | lookups (addNewSumZero m1 s "num_skipped_reps").1
          | (rcases opt_cases ((listAt m1 ls).getLast?) with h2 | ⟨a1, h2⟩
             · simp [h2]
             · rcases opt_cases ((listAt m1 lo).getLast?) with h4 | ⟨a2, h4⟩
               · simp [h2, h4]
               · simp only [h2, h4]
                 generalize mergeR m1 a1 a2 = q
                 rcases q with ⟨m2, _ | e2⟩ <;> rfl)
          | lookups m1
      · rfl))

/-- the whole method -/
theorem mergeAll_eq (m : Mach) (s o : Nat) (hnd : KeysNodup (dictOf m o)) :
    Generated.C06Sim.mergeAll m s o = C06M.mergeAll m s o := by
  unfold Generated.C06Sim.mergeAll C06M.mergeAll
  by_cases hv : s < m.sims.length ∧ o < m.sims.length
  · simp only [hv, and_self, if_true]
    by_cases he : dictOf m s = []
    · -- empty `self` adopts copies
      have h0 : Ops.size m s = 0 := (size_eq_zero_iff m s).mpr he
      simp only [h0, he, if_true]
      by_cases hso : s = o
      · subst hso
        simp [Ops.names, he, mergeAll_loop1, copyDict]
      · have := loop1_eq s o hso (dictOf m o) (dictOf m o) m rfl (fun e h => dictGet?_of_mem hnd h)
        rw [show Ops.names m o = (dictOf m o).map (·.1) from rfl, this]
    · have h0 : ¬ Ops.size m s = 0 := fun h => he ((size_eq_zero_iff m s).mp h)
      have hn : ∀ x, List.map (fun e => e.1) (dictOf m x) = Ops.names m x := fun _ => rfl
      simp only [h0, he, if_false, loop2_eq, loop3_eq, hn]
      rcases opt_cases (checkNames (dictOf m s) (dictOf m o) m (Ops.names m s)) with hc | ⟨e, hc⟩
      · simp only [hc]
        unfold checkNsr mergeNsr
        simp only [mem_names_iff, not_mem_names_iff, nsr, lastOf, Ops.getList, Ops.last, Ops.deref,
          mkRes_nsr, createRes_nsr]
        rcases opt_cases (dictGet? (dictOf m o) "num_skipped_reps") with ho | ⟨lo, ho⟩
        · simp only [ho, Option.isSome_none, Option.isNone_none, Bool.false_eq_true, if_false, if_true]
          generalize hp : mergeNames (dictOf m s) (dictOf m o) m (Ops.names m s) = p
          obtain ⟨m1, e1⟩ := p
          have hd1 : ∀ x, dictOf m1 x = dictOf m x := fun x => by
            have := dictOf_mergeNames (dictOf m s) (dictOf m o) m (Ops.names m s) x
            rw [hp] at this; exact this
          rcases e1 with _ | e1
          · simp [hd1, ho]
          · rfl
        · rcases opt_cases (dictGet? (dictOf m s) "num_skipped_reps") with hs | ⟨ls, hs⟩
          · simp only [ho, hs, Option.isSome_some, Option.isNone_some, Option.isSome_none, Option.isNone_none,
              Bool.false_eq_true, if_false, if_true, not_true_eq_false, not_false_eq_true]
            rcases opt_cases ((listAt m lo).getLast?) with hb | ⟨b, hb⟩
            · simp [hb]
            · rcases opt_cases (m.res[b]?) with hrb | ⟨rb, hrb⟩
              · simp [hb, hrb]
              · rcases opt_cases (mergeGuard (fresh "num_skipped_reps" Ty.sum false 0) rb) with hg | ⟨eg, hg⟩
                · simp only [hb, hrb, hg]
                  after_validation
                · simp [hb, hrb, hg]
          · simp only [ho, hs, Option.isSome_some, Option.isNone_some, Bool.false_eq_true, if_false, if_true,
              not_true_eq_false, not_false_eq_true]
            rcases opt_cases ((listAt m ls).getLast?) with ha | ⟨a, ha⟩
            · simp [ha]
            · rcases opt_cases ((listAt m lo).getLast?) with hb | ⟨b, hb⟩
              · simp [ha, hb]
              · rcases opt_cases (m.res[a]?) with hra | ⟨ra, hra⟩
                · simp [ha, hb, hra]
                · rcases opt_cases (m.res[b]?) with hrb | ⟨rb, hrb⟩
                  · simp [ha, hb, hra, hrb]
                  · rcases opt_cases (mergeGuard ra rb) with hg | ⟨eg, hg⟩
                    · simp only [ha, hb, hra, hrb, hg]
                      after_validation
                    · simp [ha, hb, hra, hrb, hg]
      · simp [hc]
  · simp only [hv, if_false]

end GenSim
end PyPhysim.C06M
