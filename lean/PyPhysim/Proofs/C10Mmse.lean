import PyPhysim.Proofs.C10Power
import Mathlib.Tactic.NormNum

/-!
The MMSE power constraint and the norm assertion of `calc_Q_rev`.
-/
set_option linter.unusedSectionVars false
set_option linter.unusedVariables false
set_option linter.unusedSimpArgs false
namespace PyPhysim.C10
open Matrix

variable {n s : Nat}

/-- `cost <= 0` on a real number stored in a complex one -/
def nonposRe (z : ℂ) : Prop := z.re ≤ 0

noncomputable instance : DecidablePred nonposRe := fun _ => Classical.dec _

/-- `a < b` on real numbers stored in complex ones -/
def ltRe (a b : ℂ) : Prop := a.re < b.re

/-- Clause "power-scaled precoders never exceed each user's power" for the MMSE solver:
    the precoder `_calc_Vi` returns has `‖V_i‖²_F ≤ P_i` for every `solve` kernel and every
    multiplier returned by the Newton search that satisfies its contract `func(mu) ≤ 0`
    (the branch `cost(0) ≤ 0` needs no contract at all). -/
theorem mmse_power_le (solve : Mat ℂ n n → Mat ℂ n s → Mat ℂ n s)
    (newton : Mat ℂ n n → Mat ℂ n s → ℂ → ℂ) (S : Mat ℂ n n) (HU : Mat ℂ n s) (P : ℝ)
    (hnewton : ¬ nonposRe (mmseCost (solve (mmseLhs (mdiv S (frobNorm HU)) 0) (mdiv HU (frobNorm HU))) (P : ℂ)) →
      nonposRe (mmseCost (solve (mmseLhs (mdiv S (frobNorm HU))
          (newton (mdiv S (frobNorm HU)) (mdiv HU (frobNorm HU)) (P : ℂ))) (mdiv HU (frobNorm HU))) (P : ℂ))) :
    (frobSq (mmseVi nonposRe solve newton S HU (P : ℂ))).re ≤ P := by
  unfold mmseVi
  simp only
  split
  · rename_i h
    simpa [nonposRe, mmseCost] using h
  · rename_i h
    simpa [nonposRe, mmseCost] using hnewton h

/-- orthonormal columns: the squared Frobenius norm is the number of columns -/
theorem frobSq_orthonormal (V : Mat ℂ n s) (hV : (toM V)ᴴ * toM V = 1) : frobSq V = (s : ℂ) := by
  rw [frobSq_eq, Matrix.trace_mul_comm, hV, Matrix.trace_one, Fintype.card_fin]

theorem frobNorm_orthonormal (V : Mat ℂ n s) (hV : (toM V)ᴴ * toM V = 1) :
    frobNorm V = ((Real.sqrt s : ℝ) : ℂ) := by
  unfold frobNorm
  rw [frobSq_orthonormal V hV]
  simp [RSqrt.sqrt]

/-- finding (17): the design-round code stored the `Ns ≥ 2` orthonormal eigenvectors returned by
    `leig` as they are; their Frobenius norm is `√Ns ≥ √2`, so the assertion
    `norm(W_l) − 1 < 1e-6` of `calc_Q_rev` fails — for every such matrix. -/
theorem assert_fails_unnormalized (V : Mat ℂ n s) (hV : (toM V)ᴴ * toM V = 1) (hs : 2 ≤ s) :
    ¬ normAssert ltRe (minLeakStore false V) := by
  unfold normAssert ltRe minLeakStore assertTol
  simp only [Bool.false_eq_true, if_false]
  rw [frobNorm_orthonormal V hV]
  have h2 : (1.4 : ℝ) ≤ Real.sqrt s := by
    have : (2 : ℝ) ≤ (s : ℝ) := by exact_mod_cast hs
    calc (1.4 : ℝ) ≤ Real.sqrt 2 := Real.le_sqrt_of_sq_le (by norm_num)
      _ ≤ Real.sqrt s := Real.sqrt_le_sqrt this
  have e1 : ((((Real.sqrt s : ℝ) : ℂ)) - 1).re = Real.sqrt s - 1 := by simp
  have e2 : ((1 : ℂ) / 1000000).re = 1 / 1000000 := by
    rw [show ((1 : ℂ) / 1000000) = (((1 / 1000000 : ℝ)) : ℂ) by push_cast; ring]
    exact Complex.ofReal_re _
  rw [e1, e2]
  intro h
  linarith

/-- the repaired code stores `V / ‖V‖_F`; its norm is one and the assertion holds -/
theorem assert_holds_normalized (V : Mat ℂ n s) (hV : frobSq V ≠ 0) :
    normAssert ltRe (minLeakStore true V) := by
  unfold normAssert ltRe minLeakStore assertTol
  simp only [if_true]
  rw [frobNorm_normalize V hV]
  have e2 : ((1 : ℂ) / 1000000).re = 1 / 1000000 := by
    rw [show ((1 : ℂ) / 1000000) = (((1 / 1000000 : ℝ)) : ℂ) by push_cast; ring]
    exact Complex.ofReal_re _
  rw [e2]
  simp

/-- the repaired svd initialisation keeps exactly `Ns` singular vectors -/
theorem svdInitKept_repaired (nr nt ns : Nat) (h : ns ≤ nt) : svdInitKept true nr nt ns = ns := by
  simp only [svdInitKept, svdInitDiscard, if_true]; omega

/-- the design-round one kept `Nt − Nr + Ns` (or none): wrong as soon as `Nt ≠ Nr` -/
theorem svdInitKept_orig (nr nt ns : Nat) (h1 : 1 ≤ ns) (h2 : ns ≤ nr) (h3 : ns ≤ nt) (hne : nr ≠ nt) :
    svdInitKept false nr nt ns ≠ ns := by
  simp only [svdInitKept, svdInitDiscard, Bool.false_eq_true, if_false]; omega

end PyPhysim.C10
