import PyPhysim.Model.C07Power
import PyPhysim.Proofs.C07Sim

/-! Helper lemmas for C07: the write protocol under power loss. -/
namespace PyPhysim.C07

open PyPhysim.C05 (Outcome VarState)

variable {R T C : Type}

theorem PSlot.applyAll_nil (s : PSlot C) : s.applyAll [] = s := rfl

theorem PSlot.applyAll_append (s : PSlot C) (a b : List (SlotOp C)) :
    s.applyAll (a ++ b) = (s.applyAll a).applyAll b := by
  simp [PSlot.applyAll, List.foldl_append]

theorem prefix_cons_cases {α : Type} {q l : List α} {a : α} (h : q <+: a :: l) :
    q = [] ∨ ∃ q', q = a :: q' ∧ q' <+: l := by
  cases q with
  | nil => left; rfl
  | cons x q' =>
    obtain ⟨rfl, h'⟩ := List.cons_prefix_cons.mp h
    right; exact ⟨q', rfl, h'⟩

/-- a complete save: the results file is complete and durable, no temp file is left -/
theorem PSlot.block_complete (s : PSlot C) (c : C) :
    s.applyAll (saveOps .atomic c) = ⟨some ⟨none, some c, some c⟩, none⟩ := rfl

theorem PSlot.sound_powerLoss_view (s : PSlot C) (hs : s.Sound) :
    s.powerLoss.view.main = s.view.main ∧ s.powerLoss.Sound := by
  obtain ⟨main, tmp⟩ := s
  cases main with
  | none => exact ⟨rfl, trivial⟩
  | some f =>
    obtain ⟨b, o, du⟩ := f
    obtain ⟨h1, c, h2, h3⟩ := hs
    simp only at h1 h2 h3
    subst h1 h2 h3
    exact ⟨rfl, rfl, c, rfl, rfl⟩

/-- **One save, interrupted anywhere.**  From a sound slot, after any prefix of the
    protocol `[open tmp, write, flush, fsync, close, rename]` the process-level view is the
    one of the process-level model, and after a power loss the results file is the same as
    without it: the old complete file before the rename, the new complete file after it. -/
theorem PSlot.block_prefix (s : PSlot C) (hs : s.Sound) (c : C) (q : List (SlotOp C))
    (hq : q <+: saveOps .atomic c) :
    (s.applyAll q).view = s.view.applyAll q ∧
    (s.applyAll q).powerLoss.view.main = (s.view.applyAll q).main ∧
    (s.applyAll q).powerLoss.Sound := by
  obtain ⟨h0, h1⟩ := PSlot.sound_powerLoss_view s hs
  have key : ∀ (t : Option (PFile C)),
      (⟨s.main, t⟩ : PSlot C).powerLoss.view.main = s.view.main ∧
      (⟨s.main, t⟩ : PSlot C).powerLoss.Sound := fun _ => ⟨h0, h1⟩
  simp only [saveOps] at hq
  rcases prefix_cons_cases hq with rfl | ⟨q1, rfl, hq1⟩
  · exact ⟨rfl, h0, h1⟩
  rcases prefix_cons_cases hq1 with rfl | ⟨q2, rfl, hq2⟩
  · exact ⟨rfl, (key _).1, (key _).2⟩
  rcases prefix_cons_cases hq2 with rfl | ⟨q3, rfl, hq3⟩
  · exact ⟨rfl, (key _).1, (key _).2⟩
  rcases prefix_cons_cases hq3 with rfl | ⟨q4, rfl, hq4⟩
  · exact ⟨rfl, (key _).1, (key _).2⟩
  rcases prefix_cons_cases hq4 with rfl | ⟨q5, rfl, hq5⟩
  · exact ⟨rfl, (key _).1, (key _).2⟩
  rcases prefix_cons_cases hq5 with rfl | ⟨q6, rfl, hq6⟩
  · exact ⟨rfl, (key _).1, (key _).2⟩
  have : q6 = [] := List.prefix_nil.mp hq6
  subst this
  exact ⟨rfl, rfl, rfl, c, rfl, rfl⟩

/-- the steps of a list of complete saves -/
def Blocks (ops : List (SlotOp C)) : Prop :=
  ∃ cs : List C, ops = (cs.map (saveOps .atomic)).flatten

theorem Blocks.nil : Blocks ([] : List (SlotOp C)) := ⟨[], rfl⟩

theorem Blocks.one (c : C) : Blocks (saveOps .atomic c) := ⟨[c], by simp⟩

theorem Blocks.append {a b : List (SlotOp C)} (ha : Blocks a) (hb : Blocks b) : Blocks (a ++ b) := by
  obtain ⟨ca, rfl⟩ := ha
  obtain ⟨cb, rfl⟩ := hb
  exact ⟨ca ++ cb, by simp⟩

/-- **Any number of saves, the last one interrupted anywhere** (power loss included). -/
theorem PSlot.blocks_prefix : ∀ (cs : List C) (s : PSlot C), s.Sound →
    ∀ q, q <+: (cs.map (saveOps .atomic)).flatten →
      (s.applyAll q).view = s.view.applyAll q ∧
      (s.applyAll q).powerLoss.view.main = (s.view.applyAll q).main ∧
      (s.applyAll q).powerLoss.Sound
  | [], s, hs, q, hq => by
    have : q = [] := List.prefix_nil.mp (by simpa using hq)
    subst this
    obtain ⟨h0, h1⟩ := PSlot.sound_powerLoss_view s hs
    exact ⟨rfl, h0, h1⟩
  | c :: cs, s, hs, q, hq => by
    rw [List.map_cons, List.flatten_cons] at hq
    rcases prefix_append_cases hq with hq | ⟨r, rfl, hr⟩
    · exact PSlot.block_prefix s hs c q hq
    · rw [PSlot.applyAll_append, PSlot.block_complete, Slot.applyAll_append, Slot.applyAll_saveOps_atomic]
      have hs' : (⟨some ⟨none, some c, some c⟩, none⟩ : PSlot C).Sound := ⟨rfl, c, rfl, rfl⟩
      exact PSlot.blocks_prefix cs _ hs' r hr

/-! ### the whole disk -/

theorem PDisk.applyAll_cons (d : PDisk R T) (ev : Ev R T) (t : List (Ev R T)) :
    d.applyAll (ev :: t) = (d.apply ev).applyAll t := rfl

theorem PDisk.applyAll_part (d : PDisk R T) (t : List (Ev R T)) (i : Nat) :
    (d.applyAll t).part i = (d.part i).applyAll (partOps i t) := by
  induction t generalizing d with
  | nil => rfl
  | cons ev t ih =>
    rw [PDisk.applyAll_cons, ih]
    cases ev with
    | call j => rfl
    | part j op =>
      by_cases h : j = i
      · subst h; simp [partOps, PDisk.apply, PSlot.applyAll]
      · have h' : ¬ i = j := fun e => h e.symm
        simp [partOps, h, PDisk.apply, h']
    | fin op => rfl

theorem PDisk.applyAll_fin (d : PDisk R T) (t : List (Ev R T)) :
    (d.applyAll t).fin = d.fin.applyAll (finOps t) := by
  induction t generalizing d with
  | nil => rfl
  | cons ev t ih =>
    rw [PDisk.applyAll_cons, ih]
    cases ev <;> simp [finOps, PDisk.apply, PSlot.applyAll]

/-- every file of the trace is written by complete runs of the protocol -/
def TraceBlocks (t : List (Ev R T)) : Prop := (∀ i, Blocks (partOps i t)) ∧ Blocks (finOps t)

theorem TraceBlocks.nil : TraceBlocks ([] : List (Ev R T)) := ⟨fun _ => Blocks.nil, Blocks.nil⟩

theorem TraceBlocks.append {a b : List (Ev R T)} (ha : TraceBlocks a) (hb : TraceBlocks b) :
    TraceBlocks (a ++ b) :=
  ⟨fun i => by rw [partOps_append]; exact (ha.1 i).append (hb.1 i),
   by rw [finOps_append]; exact ha.2.append hb.2⟩

theorem TraceBlocks.cons_call {t : List (Ev R T)} (i : Nat) (h : TraceBlocks t) :
    TraceBlocks (.call i :: t) := ⟨fun j => by simpa [partOps] using h.1 j, by simpa [finOps] using h.2⟩

theorem TraceBlocks.replicate_call (i k : Nat) : TraceBlocks (List.replicate k (.call i) : List (Ev R T)) := by
  induction k with
  | zero => exact TraceBlocks.nil
  | succ k ih => rw [List.replicate_succ]; exact ih.cons_call i

theorem traceBlocks_saveEvs (cfg : Cfg R T) (hm : cfg.mode = .atomic) (i : Nat) (s : VarState R) :
    TraceBlocks (saveEvs cfg i s) := by
  refine ⟨fun j => ?_, ?_⟩
  · by_cases hj : j = i
    · subst hj; rw [partOps_saveEvs, hm]; exact Blocks.one _
    · rw [(onlyVar_saveEvs cfg i s).partOps_ne hj]; exact Blocks.nil
  · rw [(onlyVar_saveEvs cfg i s).finOps]; exact Blocks.nil

theorem traceBlocks_maybeSave (cfg : Cfg R T) (hm : cfg.mode = .atomic) (i : Nat) (c : Clock) (s : VarState R) :
    TraceBlocks (maybeSave cfg i c s) := by
  unfold maybeSave; split
  · exact traceBlocks_saveEvs cfg hm i s
  · exact TraceBlocks.nil

theorem loopC_blocks (cfg : Cfg R T) (hm : cfg.mode = .atomic) (i : Nat) :
    ∀ (outs : List (Outcome R)) (s : VarState R) (c : Clock), TraceBlocks (loopC cfg i s c outs).trace
  | [], s, c => by rw [loopC_nil]; exact TraceBlocks.nil
  | o :: os, s, c => by
    by_cases hg : C05.guard cfg.repMax (cfg.keep i) s = true
    · rw [loopC_cons_true cfg i s c o os hg]
      exact ((traceBlocks_maybeSave cfg hm i c _).append (loopC_blocks cfg hm i os _ _)).cons_call i
    · rw [loopC_cons_false cfg i s c o os (by simpa using hg)]; exact TraceBlocks.nil

theorem finishVar_blocks (cfg : Cfg R T) (hm : cfg.mode = .atomic) (i : Nat) (pre : List (Ev R T))
    (hpre : TraceBlocks pre) (e : LoopEnd R T) (he : TraceBlocks e.trace) :
    TraceBlocks (finishVar cfg i pre e).trace := by
  unfold finishVar; split
  · exact hpre.append he
  · exact hpre.append (he.append (traceBlocks_saveEvs cfg hm i _))

theorem firstRunC_blocks (cfg : Cfg R T) (hm : cfg.mode = .atomic) (i : Nat) :
    ∀ (outs : List (Outcome R)) (k : Nat) (c : Clock), TraceBlocks (firstRunC cfg i k c outs).trace
  | [], k, c => by rw [firstRunC]; exact TraceBlocks.replicate_call i k
  | .skip :: os, k, c => by rw [firstRunC]; exact firstRunC_blocks cfg hm i os (k + 1) c.tick
  | .ok r :: os, k, c => by
    rw [firstRunC]
    exact finishVar_blocks cfg hm i _ (TraceBlocks.replicate_call i _) _ (loopC_blocks cfg hm i os _ _)

section
variable [DecidableEq T]

theorem runVarC_blocks (cfg : Cfg R T) (hm : cfg.mode = .atomic) (i : Nat) (d : Disk R T) (c : Clock)
    (outs : List (Outcome R)) : TraceBlocks (runVarC cfg i d c outs).trace := by
  unfold runVarC
  split
  · exact TraceBlocks.nil
  · exact finishVar_blocks cfg hm i [] TraceBlocks.nil _ (loopC_blocks cfg hm i outs _ _)
  · exact firstRunC_blocks cfg hm i outs 0 c

theorem simVarsC_blocks (cfg : Cfg R T) (hm : cfg.mode = .atomic) :
    ∀ (is : List Nat) (d : Disk R T) (c : Clock) (outs : List (Outcome R)),
      TraceBlocks (simVarsC cfg is d c outs).trace
  | [], d, c, outs => TraceBlocks.nil
  | i :: is, d, c, outs => by
    cases hres : (runVarC cfg i d c outs).res with
    | error e => rw [simVarsC_cons_error cfg i is d c outs e hres]; exact runVarC_blocks cfg hm i d c outs
    | ok st =>
      rw [simVarsC_cons_ok cfg i is d c outs st hres]
      exact (runVarC_blocks cfg hm i d c outs).append (simVarsC_blocks cfg hm is _ _ _)

theorem simC_blocks (cfg : Cfg R T) (hm : cfg.mode = .atomic) (d : Disk R T) (c : Clock)
    (outs : List (Outcome R)) : TraceBlocks (simC cfg d c outs).trace := by
  rw [(simC_fields cfg d c outs).2.2.2.2]
  refine (simVarsC_blocks cfg hm _ d c outs).append ?_
  cases (simVarsC cfg (List.range cfg.nvar) d c outs).status with
  | some e => exact TraceBlocks.nil
  | none =>
    simp only [finEvs, hm]
    exact ⟨fun i => by rw [partOps_map_fin]; exact Blocks.nil, by rw [finOps_map_fin]; exact Blocks.one _⟩

omit [DecidableEq T] in
theorem finOps_prefix {a b : List (Ev R T)} (h : a <+: b) : finOps a <+: finOps b := by
  obtain ⟨r, rfl⟩ := h
  rw [finOps_append]; exact List.prefix_append _ _

/-- **A power loss at any point of a run leaves what a process kill at that point leaves**
    (atomic protocol, sound starting disk): the same results files, and the disk is sound again. -/
theorem simC_powerLoss (cfg : Cfg R T) (hm : cfg.mode = .atomic) (pd : PDisk R T) (hs : pd.Sound)
    (c : Clock) (outs : List (Outcome R)) (pre : List (Ev R T))
    (hp : pre <+: (simC cfg pd.view c outs).trace) :
    (∀ i, (((pd.applyAll pre).powerLoss.view).part i).main = ((pd.view.applyAll pre).part i).main) ∧
    ((pd.applyAll pre).powerLoss.view).fin.main = (pd.view.applyAll pre).fin.main ∧
    (∀ i, ((pd.applyAll pre).view.part i) = ((pd.view.applyAll pre).part i)) ∧
    (pd.applyAll pre).powerLoss.Sound := by
  obtain ⟨hb1, hb2⟩ := simC_blocks cfg hm pd.view c outs
  have hpart : ∀ i, ((pd.part i).applyAll (partOps i pre)).view = (pd.part i).view.applyAll (partOps i pre) ∧
      ((pd.part i).applyAll (partOps i pre)).powerLoss.view.main
        = ((pd.part i).view.applyAll (partOps i pre)).main ∧
      ((pd.part i).applyAll (partOps i pre)).powerLoss.Sound := by
    intro i
    obtain ⟨cs, hcs⟩ := hb1 i
    exact PSlot.blocks_prefix cs _ (hs.1 i) _ (by rw [← hcs]; exact partOps_prefix i hp)
  have hfin : (pd.fin.applyAll (finOps pre)).view = pd.fin.view.applyAll (finOps pre) ∧
      (pd.fin.applyAll (finOps pre)).powerLoss.view.main = (pd.fin.view.applyAll (finOps pre)).main ∧
      (pd.fin.applyAll (finOps pre)).powerLoss.Sound := by
    obtain ⟨cs, hcs⟩ := hb2
    exact PSlot.blocks_prefix cs _ hs.2 _ (by rw [← hcs]; exact finOps_prefix hp)
  refine ⟨?_, ?_, ?_, ?_, ?_⟩
  · intro i
    show ((pd.applyAll pre).part i).powerLoss.view.main = _
    rw [PDisk.applyAll_part, Disk.applyAll_part]; exact (hpart i).2.1
  · show (pd.applyAll pre).fin.powerLoss.view.main = _
    rw [PDisk.applyAll_fin, Disk.applyAll_fin]; exact hfin.2.1
  · intro i
    show ((pd.applyAll pre).part i).view = _
    rw [PDisk.applyAll_part, Disk.applyAll_part]; exact (hpart i).1
  · intro i
    show ((pd.applyAll pre).part i).powerLoss.Sound
    rw [PDisk.applyAll_part]; exact (hpart i).2.2
  · show (pd.applyAll pre).fin.powerLoss.Sound
    rw [PDisk.applyAll_fin]; exact hfin.2.2

end

end PyPhysim.C07
