import PyPhysim.Proofs.C10Inv
import PyPhysim.Generated.C10Effects
import PyPhysim.Proofs.CacheEffects
import PyPhysim.Model.C10Toy
/-!
# C10 — the effect of the cache machine's `step` on the eight attributes, as a finite table

`Generated/C10Effects.lean` (re-emitted from `iabase.py` / `algorithms.py` on every
run) lists, per class and entry point, which attributes are reset / assigned /
possibly written / possibly lazily filled.  This file provides the MODEL side:

* `Fld` names the fields of `State`; `effect kind` is the effect table of the model
  operation `kind`;
* `step_sameOutside`, `step_fillOnly`, `step_clears`: the table is what
  `step Cfg.fixed` does, for every interpretation `Ops`, every `K`, every state and
  all arguments;
* `specDeps` is the dependency table of the derived fields, read off `Coherent` and
  `FullFDerived`; `clause_congr` proves that the clause of a derived field looks only
  at that field and at the fields `specDeps` lists for it;
* the translation between fields and Python attribute names, and the predicates the
  bridge theorems of `Properties/C10.lean` evaluate on the generated tables.
-/
set_option linter.unusedSectionVars false
set_option linter.unusedSimpArgs false
namespace PyPhysim.C10
open PyPhysim.Proto PyPhysim.CacheEffects

/-- the fields of `State` -/
inductive Fld where
  | ns | pow | prec | fullF | w | wH | fullWH | fullW
  deriving DecidableEq, Repr

def Fld.all : List Fld := [.ns, .pow, .prec, .fullF, .w, .wH, .fullWH, .fullW]

/-- the constructors of `Op`, without their arguments -/
inductive Kind where
  | setP | randomizeF | setPrecoders | setFilters | solve | clear | setInit | query | fork
  | readF | readFullF | readW | readWH | readFullWH | readFullW | readNs | readP
  deriving DecidableEq, Repr

def Kind.all : List Kind :=
  [.setP, .randomizeF, .setPrecoders, .setFilters, .solve, .clear, .setInit, .query, .fork, .readF, .readFullF,
   .readW, .readWH, .readFullWH, .readFullW, .readNs, .readP]

section
variable {μ ρ : Type}

def Op.kind : Op μ ρ → Kind
  | .setP .. => .setP | .randomizeF .. => .randomizeF | .setPrecoders .. => .setPrecoders
  | .setFilters .. => .setFilters | .solve .. => .solve | .clear => .clear | .setInit .. => .setInit
  | .query => .query | .fork => .fork | .readF => .readF | .readFullF => .readFullF | .readW => .readW
  | .readWH => .readWH | .readFullWH => .readFullWH | .readFullW => .readFullW | .readNs => .readNs
  | .readP => .readP

/-- the two states have the same value in field `f` -/
def Fld.agree (f : Fld) (a b : State μ ρ) : Prop :=
  match f with
  | .ns => a.ns = b.ns | .pow => a.p = b.p | .prec => a.f = b.f | .fullF => a.fullF = b.fullF
  | .w => a.w = b.w | .wH => a.wH = b.wH | .fullWH => a.fullWH = b.fullWH | .fullW => a.fullW = b.fullW

/-- field `f` holds `None` -/
def Fld.isNone (f : Fld) (a : State μ ρ) : Prop :=
  match f with
  | .ns => a.ns = none | .pow => a.p = none | .prec => a.f = none | .fullF => a.fullF = none
  | .w => a.w = none | .wH => a.wH = none | .fullWH => a.fullWH = none | .fullW => a.fullW = none

end

/-- effect of one model operation on the fields -/
structure Eff where
  clears : List Fld := []
  assigns : List Fld := []
  mayWrite : List Fld := []
  fills : List Fld := []
  deriving DecidableEq, Repr

def Eff.touched (e : Eff) : List Fld := e.clears ++ e.assigns ++ e.mayWrite ++ e.fills

/-- what `step Cfg.fixed` does to the fields -/
def effect : Kind → Eff
  | .setP => { clears := [.fullF, .fullWH, .fullW], assigns := [.pow] }
  | .randomizeF => { clears := [.fullF, .fullWH, .fullW], assigns := [.prec, .ns, .pow] }
  | .setPrecoders => { clears := [.fullWH, .fullW], assigns := [.prec, .fullF, .ns], mayWrite := [.pow] }
  | .setFilters => { clears := [.fullWH, .fullW], assigns := [.w, .wH] }
  | .solve => { clears := [.fullWH, .fullW], assigns := [.pow, .prec, .fullF, .w, .wH, .ns] }
  | .clear => { clears := [.ns, .pow, .prec, .fullF, .w, .wH, .fullWH, .fullW] }
  | .readFullF => { fills := [.fullF] }
  | .readW => { fills := [.w] }
  | .readWH => { fills := [.wH] }
  | .readFullWH => { fills := [.wH, .fullF, .fullWH] }
  | .readFullW => { fills := [.wH, .fullF, .fullWH, .fullW] }
  | .setInit | .query | .fork | .readF | .readNs | .readP => {}

/-! ## the table is what `step` does -/
section Sound
variable {μ ρ : Type}

/-- `b` is `a` except (possibly) in the fields `fs` -/
def SameOutside (fs : List Fld) (a b : State μ ρ) : Prop := ∀ f, f ∉ fs → f.agree a b

/-- field `f` is unchanged or went from `None` to a value -/
def FillOnly (f : Fld) (a b : State μ ρ) : Prop := f.agree a b ∨ (f.isNone a ∧ ¬ f.isNone b)

theorem SameOutside.refl (a : State μ ρ) : SameOutside [] a a := fun f _ => by cases f <;> rfl

theorem Fld.agree_trans {f : Fld} {a b c : State μ ρ} (h1 : f.agree a b) (h2 : f.agree b c) : f.agree a c := by
  cases f <;> exact Eq.trans h1 h2

theorem SameOutside.trans {fs gs : List Fld} {a b c : State μ ρ} (h1 : SameOutside fs a b)
    (h2 : SameOutside gs b c) : SameOutside (fs ++ gs) a c := fun f hf => by
  simp only [List.mem_append, not_or] at hf
  exact Fld.agree_trans (h1 f hf.1) (h2 f hf.2)

theorem SameOutside.mono {fs gs : List Fld} {a b : State μ ρ} (h : SameOutside fs a b)
    (hs : ∀ f ∈ fs, f ∈ gs) : SameOutside gs a b := fun f hf => h f fun hm => hf (hs f hm)

theorem FillOnly.refl (f : Fld) (a : State μ ρ) : FillOnly f a a := .inl (by cases f <;> rfl)

theorem FillOnly.of_agree_left {f : Fld} {a b c : State μ ρ} (h1 : f.agree a b) (h2 : FillOnly f b c) :
    FillOnly f a c := by
  cases f <;> simp only [FillOnly, Fld.agree, Fld.isNone] at * <;> simp_all

theorem FillOnly.of_agree_right {f : Fld} {a b c : State μ ρ} (h1 : FillOnly f a b) (h2 : f.agree b c) :
    FillOnly f a c := by
  cases f <;> simp only [FillOnly, Fld.agree, Fld.isNone] at * <;> simp_all

theorem readFullF_same (O : Ops μ ρ) (K : Nat) (st : State μ ρ) :
    SameOutside [.fullF] st (readFullF O K st).1 ∧ FillOnly .fullF st (readFullF O K st).1 := by
  unfold readFullF
  cases hf : st.fullF with
  | some X => exact ⟨fun f _ => by cases f <;> simp_all [Fld.agree], .inl (by simp_all [Fld.agree])⟩
  | none =>
    cases hF : st.f with
    | none => exact ⟨fun f _ => by cases f <;> simp_all [Fld.agree], .inl (by simp_all [Fld.agree])⟩
    | some F =>
      simp only
      cases hs : O.scale F (curP O K st) with
      | error e => exact ⟨fun f _ => by cases f <;> simp_all [Fld.agree], .inl (by simp_all [Fld.agree])⟩
      | ok X =>
        exact ⟨fun f hf' => by cases f <;> simp_all [Fld.agree], .inr ⟨hf, by simp [Fld.isNone]⟩⟩

theorem readW_same (O : Ops μ ρ) (st : State μ ρ) :
    SameOutside [.w] st (readW O st).1 ∧ FillOnly .w st (readW O st).1 := by
  unfold readW
  cases hw : st.w with
  | some X => exact ⟨fun f _ => by cases f <;> simp_all [Fld.agree], .inl (by simp_all [Fld.agree])⟩
  | none =>
    cases hh : st.wH with
    | none => exact ⟨fun f _ => by cases f <;> simp_all [Fld.agree], .inl (by simp_all [Fld.agree])⟩
    | some Y => exact ⟨fun f hf' => by cases f <;> simp_all [Fld.agree], .inr ⟨hw, by simp [Fld.isNone]⟩⟩

theorem readWH_same (O : Ops μ ρ) (st : State μ ρ) :
    SameOutside [.wH] st (readWH O st).1 ∧ FillOnly .wH st (readWH O st).1 := by
  unfold readWH
  cases hh : st.wH with
  | some Y => exact ⟨fun f _ => by cases f <;> simp_all [Fld.agree], .inl (by simp_all [Fld.agree])⟩
  | none =>
    cases hw : st.w with
    | none => exact ⟨fun f _ => by cases f <;> simp_all [Fld.agree], .inl (by simp_all [Fld.agree])⟩
    | some X => exact ⟨fun f hf' => by cases f <;> simp_all [Fld.agree], .inr ⟨hh, by simp [Fld.isNone]⟩⟩

/-- the `full_W_H` getter: fills `_W_H`, `_full_F`, `_full_W_H`, touches nothing else -/
theorem readFullWH_same (O : Ops μ ρ) (K : Nat) (st : State μ ρ) :
    let s := (readFullWH Cfg.fixed O K st).1
    SameOutside [.wH, .fullF, .fullWH] st s ∧ FillOnly .wH st s ∧ FillOnly .fullF st s ∧ FillOnly .fullWH st s := by
  intro s
  show SameOutside _ st (readFullWH Cfg.fixed O K st).1 ∧ FillOnly _ st (readFullWH Cfg.fixed O K st).1
    ∧ FillOnly _ st (readFullWH Cfg.fixed O K st).1 ∧ FillOnly _ st (readFullWH Cfg.fixed O K st).1
  unfold readFullWH
  cases hz : st.fullWH with
  | some Z =>
    exact ⟨(SameOutside.refl st).mono (by simp), FillOnly.refl _ st, FillOnly.refl _ st, FillOnly.refl _ st⟩
  | none =>
    simp only [Cfg.fixed, if_true]
    have h1 := readWH_same O st
    rcases hr : readWH O st with ⟨st1, oy⟩
    rw [hr] at h1
    simp only at h1
    cases oy with
    | none =>
      exact ⟨h1.1.mono (by simp), h1.2, .inl (h1.1 _ (by simp)), .inl (h1.1 _ (by simp))⟩
    | some Y =>
      simp only
      have h2 := readFullF_same O K st1
      rcases hr2 : readFullF O K st1 with ⟨st2, r2⟩
      rw [hr2] at h2
      simp only at h2
      have h12 : SameOutside [.wH, .fullF] st st2 := h1.1.trans h2.1
      have hwH : FillOnly .wH st st2 := FillOnly.of_agree_right h1.2 (h2.1 _ (by simp))
      have hfF : FillOnly .fullF st st2 := FillOnly.of_agree_left (h1.1 _ (by simp)) h2.2
      have hstay : SameOutside [.wH, .fullF, .fullWH] st st2 ∧ FillOnly .wH st st2 ∧ FillOnly .fullF st st2
          ∧ FillOnly .fullWH st st2 :=
        ⟨h12.mono (by simp), hwH, hfF, .inl (h12 _ (by simp))⟩
      cases r2 with
      | error e => exact hstay
      | ok fF =>
        simp only
        cases hc : O.comp Y fF with
        | error e => exact hstay
        | ok Z =>
          have h3 : SameOutside [.fullWH] st2 { st2 with fullWH := some Z } :=
            fun f hf => by cases f <;> simp_all [Fld.agree]
          have hz2 : st2.fullWH = none := by
            have := h12 .fullWH (by simp)
            simp only [Fld.agree] at this
            rw [← this, hz]
          refine ⟨(h12.trans h3).mono (by simp), FillOnly.of_agree_right hwH (h3 _ (by simp)),
            FillOnly.of_agree_right hfF (h3 _ (by simp)), .inr ⟨hz, by simp [Fld.isNone]⟩⟩

/-- the `full_W` getter -/
theorem readFullW_same (O : Ops μ ρ) (K : Nat) (st : State μ ρ) :
    let s := (readFullW Cfg.fixed O K st).1
    SameOutside [.wH, .fullF, .fullWH, .fullW] st s ∧ FillOnly .wH st s ∧ FillOnly .fullF st s
    ∧ FillOnly .fullWH st s ∧ FillOnly .fullW st s := by
  intro s
  show SameOutside _ st (readFullW Cfg.fixed O K st).1 ∧ FillOnly _ st (readFullW Cfg.fixed O K st).1
    ∧ FillOnly _ st (readFullW Cfg.fixed O K st).1 ∧ FillOnly _ st (readFullW Cfg.fixed O K st).1
    ∧ FillOnly _ st (readFullW Cfg.fixed O K st).1
  unfold readFullW
  cases hz : st.fullW with
  | some Z =>
    exact ⟨(SameOutside.refl st).mono (by simp), FillOnly.refl _ st, FillOnly.refl _ st, FillOnly.refl _ st,
      FillOnly.refl _ st⟩
  | none =>
    have h1 : SameOutside [.wH, .fullF, .fullWH] st (readFullWH Cfg.fixed O K st).1
        ∧ FillOnly .wH st (readFullWH Cfg.fixed O K st).1 ∧ FillOnly .fullF st (readFullWH Cfg.fixed O K st).1
        ∧ FillOnly .fullWH st (readFullWH Cfg.fixed O K st).1 := readFullWH_same O K st
    rcases hr : readFullWH Cfg.fixed O K st with ⟨st1, r⟩
    rw [hr] at h1
    simp only [Cfg.fixed, if_true]
    have hstay : SameOutside [.wH, .fullF, .fullWH, .fullW] st st1 ∧ FillOnly .wH st st1 ∧ FillOnly .fullF st st1
        ∧ FillOnly .fullWH st st1 ∧ FillOnly .fullW st st1 :=
      ⟨h1.1.mono (by simp), h1.2.1, h1.2.2.1, h1.2.2.2, .inl (h1.1 _ (by simp))⟩
    cases r with
    | error e => exact hstay
    | ok oz =>
      cases oz with
      | none => exact hstay
      | some Z =>
        have h3 : SameOutside [.fullW] st1 { st1 with fullW := some (O.herm Z) } :=
          fun f hf => by cases f <;> simp_all [Fld.agree]
        exact ⟨(h1.1.trans h3).mono (by simp), FillOnly.of_agree_right h1.2.1 (h3 _ (by simp)),
          FillOnly.of_agree_right h1.2.2.1 (h3 _ (by simp)), FillOnly.of_agree_right h1.2.2.2 (h3 _ (by simp)),
          .inr ⟨hz, by simp [Fld.isNone]⟩⟩

theorem storeP_same (st : State μ ρ) (q : Option (List ρ)) :
    SameOutside [.pow, .fullF, .fullWH, .fullW] st (storeP Cfg.fixed st q) := by
  intro f hf
  cases f <;> simp_all [Fld.agree, storeP, Cfg.fixed]

/-- **Frame.**  Whatever the arguments, an operation changes no field outside its effect table. -/
theorem step_sameOutside (O : Ops μ ρ) (K : Nat) (st : State μ ρ) (op : Op μ ρ) :
    SameOutside (effect op.kind).touched st (step Cfg.fixed O K st op).1 := by
  cases op with
  | setP v =>
    simp only [step]
    rcases setP_cases O K st v with ⟨q, e⟩ | e <;> rw [e]
    · exact (storeP_same st q).mono (by simp [Op.kind, effect, Eff.touched])
    · exact (SameOutside.refl st).mono (by simp)
  | randomizeF drawn ns p =>
    simp only [step]
    rcases randomizeF_cases O K st drawn ns p with ⟨q, e⟩ | e <;> rw [e]
    · intro x hx
      cases x <;> simp_all [Fld.agree, storeP, clearTx, Cfg.fixed, Op.kind, effect, Eff.touched]
    · exact (SameOutside.refl st).mono (by simp)
  | setPrecoders f fullF p =>
    simp only [step]
    unfold doSetPrecoders
    intro x hx
    cases f <;> cases fullF <;> cases p <;> cases x <;>
      simp_all [Fld.agree, clearTx, Cfg.fixed, Op.kind, effect, Eff.touched]
  | setFilters wH w =>
    simp only [step]
    rcases setFilters_cases st wH w with e | e <;> rw [e]
    · exact (SameOutside.refl st).mono (by simp)
    · intro x hx
      cases x <;> simp_all [Fld.agree, clearRx, Op.kind, effect, Eff.touched]
  | solve cf ns p sol =>
    simp only [step]
    rcases solve_cases O K st cf ns p sol with e | e | ⟨q, e⟩ <;> rw [e]
    · exact (SameOutside.refl st).mono (by simp)
    · exact (SameOutside.refl st).mono (by simp)
    · intro x hx
      cases x <;> simp_all [Fld.agree, Op.kind, effect, Eff.touched]
  | clear => intro x hx; cases x <;> simp_all [Fld.agree, Op.kind, effect, Eff.touched]
  | setInit a => exact (SameOutside.refl st).mono (by simp)
  | query => exact (SameOutside.refl st).mono (by simp)
  | fork => exact (SameOutside.refl st).mono (by simp)
  | readF => exact (SameOutside.refl st).mono (by simp)
  | readNs => exact (SameOutside.refl st).mono (by simp)
  | readP => exact (SameOutside.refl st).mono (by simp)
  | readFullF => exact (readFullF_same O K st).1.mono (by simp [Op.kind, effect, Eff.touched])
  | readW => exact (readW_same O st).1.mono (by simp [Op.kind, effect, Eff.touched])
  | readWH => exact (readWH_same O st).1.mono (by simp [Op.kind, effect, Eff.touched])
  | readFullWH => exact (readFullWH_same O K st).1.mono (by simp [Op.kind, effect, Eff.touched])
  | readFullW => exact (readFullW_same O K st).1.mono (by simp [Op.kind, effect, Eff.touched])

/-- **Lazy fills.**  A field listed under `fills` is left as it was or goes from `None` to a value. -/
theorem step_fillOnly (O : Ops μ ρ) (K : Nat) (st : State μ ρ) (op : Op μ ρ) (x : Fld)
    (hx : x ∈ (effect op.kind).fills) : FillOnly x st (step Cfg.fixed O K st op).1 := by
  cases op with
  | readFullF => simp [Op.kind, effect] at hx; subst hx; exact (readFullF_same O K st).2
  | readW => simp [Op.kind, effect] at hx; subst hx; exact (readW_same O st).2
  | readWH => simp [Op.kind, effect] at hx; subst hx; exact (readWH_same O st).2
  | readFullWH =>
    have h := readFullWH_same O K st
    simp [Op.kind, effect] at hx
    rcases hx with rfl | rfl | rfl
    · exact h.2.1
    · exact h.2.2.1
    · exact h.2.2.2
  | readFullW =>
    have h := readFullW_same O K st
    simp [Op.kind, effect] at hx
    rcases hx with rfl | rfl | rfl | rfl
    · exact h.2.1
    · exact h.2.2.1
    · exact h.2.2.2.1
    · exact h.2.2.2.2
  | setP v => simp [Op.kind, effect] at hx
  | randomizeF drawn ns p => simp [Op.kind, effect] at hx
  | setPrecoders f fullF p => simp [Op.kind, effect] at hx
  | setFilters wH w => simp [Op.kind, effect] at hx
  | solve cf ns p sol => simp [Op.kind, effect] at hx
  | clear => simp [Op.kind, effect] at hx
  | setInit a => simp [Op.kind, effect] at hx
  | query => simp [Op.kind, effect] at hx
  | fork => simp [Op.kind, effect] at hx
  | readF => simp [Op.kind, effect] at hx
  | readNs => simp [Op.kind, effect] at hx
  | readP => simp [Op.kind, effect] at hx

/-- **Resets.**  After every accepted call each field listed under `clears` holds `None`. -/
theorem step_clears (O : Ops μ ρ) (K : Nat) (st : State μ ρ) (op : Op μ ρ) (x : Fld)
    (hx : x ∈ (effect op.kind).clears)
    (hok : ∀ e, (step Cfg.fixed O K st op).2 ≠ .err e) : x.isNone (step Cfg.fixed O K st op).1 := by
  cases op with
  | setP v =>
    simp only [step] at hok ⊢
    rcases setP_cases O K st v with ⟨q, e⟩ | e <;> rw [e] at hok ⊢
    · simp [Op.kind, effect] at hx
      rcases hx with rfl | rfl | rfl <;> simp [Fld.isNone, storeP, Cfg.fixed]
    · simp [outOf] at hok
  | randomizeF drawn ns p =>
    simp only [step] at hok ⊢
    rcases randomizeF_cases O K st drawn ns p with ⟨q, e⟩ | e <;> rw [e] at hok ⊢
    · simp [Op.kind, effect] at hx
      rcases hx with rfl | rfl | rfl <;> simp [Fld.isNone, storeP, clearTx, Cfg.fixed]
    · simp at hok
  | setPrecoders f fullF p =>
    simp only [step] at hok ⊢
    unfold doSetPrecoders at hok ⊢
    simp [Op.kind, effect] at hx
    cases f <;> cases fullF <;> cases p <;> rcases hx with rfl | rfl <;>
      simp_all [Fld.isNone, clearTx, Cfg.fixed]
  | setFilters wH w =>
    simp only [step] at hok ⊢
    rcases setFilters_cases st wH w with e | e <;> rw [e] at hok ⊢
    · simp at hok
    · simp [Op.kind, effect] at hx
      rcases hx with rfl | rfl <;> simp [Fld.isNone, clearRx]
  | solve cf ns p sol =>
    simp only [step] at hok ⊢
    rcases solve_cases O K st cf ns p sol with e | e | ⟨q, e⟩ <;> rw [e] at hok ⊢
    · simp at hok
    · simp at hok
    · simp [Op.kind, effect] at hx
      rcases hx with rfl | rfl <;> simp [Fld.isNone, clearRx]
  | clear =>
    simp [Op.kind, effect] at hx
    rcases hx with rfl | rfl | rfl | rfl | rfl | rfl | rfl | rfl <;>
      simp [step, Fld.isNone, clearRx, clearTx, Cfg.fixed]
  | setInit a => simp [Op.kind, effect] at hx
  | query => simp [Op.kind, effect] at hx
  | fork => simp [Op.kind, effect] at hx
  | readF => simp [Op.kind, effect] at hx
  | readNs => simp [Op.kind, effect] at hx
  | readP => simp [Op.kind, effect] at hx
  | readFullF => simp [Op.kind, effect] at hx
  | readW => simp [Op.kind, effect] at hx
  | readWH => simp [Op.kind, effect] at hx
  | readFullWH => simp [Op.kind, effect] at hx
  | readFullW => simp [Op.kind, effect] at hx

end Sound

/-! ## the table is tight: every listed write happens on some concrete state -/
section Tight

/-- states of the exact `1 × 1` rational interpretation `toyOps` (`Model/C10Toy.lean`) -/
abbrev TSt := State (List Rat) Rat

def Fld.same (x : Fld) (a b : TSt) : Bool :=
  match x with
  | .ns => a.ns == b.ns | .pow => a.p == b.p | .prec => a.f == b.f | .fullF => a.fullF == b.fullF
  | .w => a.w == b.w | .wH => a.wH == b.wH | .fullWH => a.fullWH == b.fullWH | .fullW => a.fullW == b.fullW

/-- the fields in which two states differ -/
def changed (a b : TSt) : List Fld := Fld.all.filter fun x => !x.same a b

/-- two users with direct channels `2` and `4` -/
def toyProbe : Ops (List Rat) Rat := toyOps [2, 4]

/-- precoders and filters set, nothing read yet -/
def probeFresh : TSt :=
  (run Cfg.fixed toyProbe 2 (State.init _ _)
    [.randomizeF [3, -2] (.int 1) (.scalar 4), .setFilters none (some [1, 1])]).1

/-- the same solver after `full_W` was read (all eight attributes hold a value) -/
def probeFull : TSt := (run Cfg.fixed toyProbe 2 probeFresh [.readFullW]).1

/-- one concrete (state, operation) per operation kind that writes or fills something -/
def probes : List (TSt × Op (List Rat) Rat) :=
  [(probeFull, .setP (.scalar 9)),
   (probeFull, .randomizeF [-1, 5] (.list [2, 2]) (.scalar 9)),
   ({ probeFull with ns := some [3, 3] }, .setPrecoders (some [-1, -1]) (some [7, 7]) (some [9, 9])),
   (probeFull, .setFilters (some [5, 5]) none),
   (probeFull, .solve false (.list [3, 3]) (.scalar 9) ⟨[-1, 1], some [8, 8], [6, 6], true, [2, 2]⟩),
   (probeFull, .clear),
   (probeFresh, .readFullF),
   ((run Cfg.fixed toyProbe 2 (State.init _ _) [.setFilters (some [1, 1]) none]).1, .readW),
   (probeFresh, .readWH), (probeFresh, .readFullWH), (probeFresh, .readFullW)]

/-- what each probe changes: (operation kind, fields whose value differs afterwards) -/
def probeChanges : List (Kind × List Fld) :=
  probes.map fun p => (p.2.kind, changed p.1 (step Cfg.fixed toyProbe 2 p.1 p.2).1)

/-- the probes evaluated (by the kernel, on exact rationals) -/
theorem probeChanges_eq : probeChanges =
    [(.setP, [.pow, .fullF, .fullWH, .fullW]),
     (.randomizeF, [.ns, .pow, .prec, .fullF, .fullWH, .fullW]),
     (.setPrecoders, [.ns, .pow, .prec, .fullF, .fullWH, .fullW]),
     (.setFilters, [.w, .wH, .fullWH, .fullW]),
     (.solve, [.ns, .pow, .prec, .fullF, .w, .wH, .fullWH, .fullW]),
     (.clear, [.ns, .pow, .prec, .fullF, .w, .wH, .fullWH, .fullW]),
     (.readFullF, [.fullF]), (.readW, [.w]), (.readWH, [.wH]),
     (.readFullWH, [.fullF, .wH, .fullWH]), (.readFullW, [.fullF, .wH, .fullWH, .fullW])] := by
  decide +kernel

/-- every field the table lists for an operation occurs in `tbl` for that operation -/
def covers (tbl : List (Kind × List Fld)) : Bool :=
  Kind.all.all fun k => (effect k).touched.all fun x => tbl.any fun e => e.1 == k && e.2.contains x

/-- every field the table lists for an operation is really changed by that operation on one of
    the probes: the table is not an over-approximation -/
def tight : Bool := covers probeChanges

theorem tight_true : tight = true := by
  unfold tight
  rw [probeChanges_eq]
  decide

end Tight

/-! ## the dependency table of the derived fields, read off the invariants -/
section Deps
variable {μ ρ : Type}

/-- the fields the value of a derived field is computed from (`Coherent`, `specFullWH`,
    `FullFDerived`): `_W` / `_W_H` mirror each other, `_full_F = _F·√P`,
    `_full_W_H = solve(W_H·H·full_F, W_H)`, `_full_W = _full_W_Hᴴ` -/
def specDeps : Fld → List Fld
  | .fullF => [.prec, .pow]
  | .w => [.wH]
  | .wH => [.w]
  | .fullWH => [.w, .wH, .fullF, .prec, .pow]
  | .fullW => [.fullWH]
  | _ => []

/-- the derived fields -/
def derivedFlds : List Fld := [.fullF, .w, .wH, .fullWH, .fullW]

/-- the invariant clause about one derived field -/
def clause (O : Ops μ ρ) (K : Nat) (x : Fld) (st : State μ ρ) : Prop :=
  match x with
  | .fullF => FullFDerived O K st
  | .w | .wH => ∀ X Y, st.w = some X → st.wH = some Y → X = O.herm Y ∨ Y = O.herm X
  | .fullWH => ∀ Z, st.fullWH = some Z → specFullWH O K st = .ok (some Z)
  | .fullW => ∀ Z', st.fullW = some Z' → ∃ Z, st.fullWH = some Z ∧ Z' = O.herm Z
  | _ => True

theorem coherent_iff_clauses (O : Ops μ ρ) (K : Nat) (st : State μ ρ) :
    Coherent O K st ↔ ∀ x ∈ [Fld.w, .wH, .fullWH, .fullW], clause O K x st := by
  constructor
  · intro h x hx
    simp only [List.mem_cons, List.not_mem_nil, or_false] at hx
    rcases hx with rfl | rfl | rfl | rfl
    · exact h.wwH
    · exact h.wwH
    · exact h.fullWH
    · exact h.fullW
  · intro h
    exact ⟨h .w (by simp), h .fullWH (by simp), h .fullW (by simp)⟩

/-- **Dependencies.**  The clause of a derived field looks at that field and at the fields
    `specDeps` lists for it, and at nothing else. -/
theorem clause_congr (O : Ops μ ρ) (K : Nat) (x : Fld) (a b : State μ ρ) (hx : x.agree a b)
    (hd : ∀ g ∈ specDeps x, g.agree a b) : clause O K x a ↔ clause O K x b := by
  cases x with
  | fullF =>
    have h1 := hd .prec (by simp [specDeps])
    have h2 := hd .pow (by simp [specDeps])
    simp only [Fld.agree] at hx h1 h2
    simp only [clause, FullFDerived, derivedFullF, curP, hx, h1, h2]
  | w =>
    have h1 := hd .wH (by simp [specDeps])
    simp only [Fld.agree] at hx h1
    simp only [clause, hx, h1]
  | wH =>
    have h1 := hd .w (by simp [specDeps])
    simp only [Fld.agree] at hx h1
    simp only [clause, hx, h1]
  | fullWH =>
    have h1 := hd .w (by simp [specDeps])
    have h2 := hd .wH (by simp [specDeps])
    have h3 := hd .fullF (by simp [specDeps])
    have h4 := hd .prec (by simp [specDeps])
    have h5 := hd .pow (by simp [specDeps])
    simp only [Fld.agree] at hx h1 h2 h3 h4 h5
    have hs : specFullWH O K a = specFullWH O K b :=
      specFullWH_congr O K a b (getWH_congr O a b h1 h2) (getFullF_congr O K a b h4 h3 h5)
    simp only [clause, hx, hs]
  | fullW =>
    have h1 := hd .fullWH (by simp [specDeps])
    simp only [Fld.agree] at hx h1
    simp only [clause, hx, h1]
  | ns => simp [clause]
  | pow => simp [clause]
  | prec => simp [clause]

end Deps

/-! ## translation between fields and Python attributes; the expected tables -/

def baseCls : String := "IASolverBaseClass"
/-- the concrete solver classes of `algorithms.py` -/
def solverClasses : List String :=
  ["ClosedFormIASolver", "AlternatingMinIASolver", "MinLeakageIASolver", "MaxSinrIASolver", "MMSEIASolver"]

def Fld.attr : Fld → String
  | .ns => "_Ns" | .pow => "_P" | .prec => "_F" | .fullF => "_full_F" | .w => "_W" | .wH => "_W_H"
  | .fullWH => "_full_W_H" | .fullW => "_full_W"

def attrsOf (fs : List Fld) : List String := norm (fs.map Fld.attr)
def attrFld (a : String) : Option Fld := Fld.all.find? fun x => x.attr == a
def tracked (a : String) : Bool := (attrFld a).isSome
/-- the part of an attribute list that concerns the eight modelled attributes (as a set) -/
def proj (xs : List String) : List String := norm (xs.filter tracked)

/-- attributes outside the cache machine: the channel object, the random generator, and the
    bookkeeping of the iterative solvers (none of them is read by a lazy fill except the channel) -/
def untrackedOf (cls : String) : List String :=
  ["_multiUserChannel", "_rs"] ++
  (if cls == "ClosedFormIASolver" then ["_use_best_init"] else []) ++
  (if ["AlternatingMinIASolver", "MinLeakageIASolver", "MaxSinrIASolver", "MMSEIASolver"].contains cls then
    ["_alt_min_ia_solver", "_closed_form_ia_solver", "_initialize_with", "_runned_iterations", "max_iterations",
     "relative_factor"] else []) ++
  (if cls == "AlternatingMinIASolver" then ["_C"] else []) ++
  (if cls == "MMSEIASolver" then ["_mu"] else [])

/-- the model operation behind a public entry point; entry points that are not listed (`calc_Q`,
    `calc_SINR`, `get_cost`, `K`, …) are `Op.query` -/
def kindOf : String → Option Kind
  | "P.setter" => some .setP
  | "randomizeF" => some .randomizeF
  | "set_precoders" => some .setPrecoders
  | "set_receive_filters" => some .setFilters
  | "clear" => some .clear
  | "initialize_with.setter" => some .setInit
  | "F" => some .readF
  | "full_F" => some .readFullF
  | "W" => some .readW
  | "W_H" => some .readWH
  | "full_W_H" => some .readFullWH
  | "full_W" => some .readFullW
  | "Ns" => some .readNs
  | "P" => some .readP
  | _ => none

/-- the attributes some operation may fill lazily, according to the model -/
def lazyAttrs : List String := attrsOf (Kind.all.flatMap fun k => (effect k).fills)

def subset (a b : List String) : Bool := a.all b.contains

/-- a generated row says what the model operation behind it does to the eight attributes.
    * a modelled entry point: same resets, assignments, conditional writes and lazy fills;
    * `solve` of a concrete solver (the model takes the stored solution as a parameter): it resets
      what `Op.solve` resets and writes nothing `Op.solve` does not write;
    * `_updateF` / `_updateW`: no table (they are examined by the sufficiency condition only);
    * anything else: writes none of the eight attributes, fills at most the known caches.
    Writes outside the eight attributes must be to the known bookkeeping attributes of the class. -/
def rowMatches (steps : List String) (r : Row) : Bool :=
  (r.cls == baseCls || solverClasses.contains r.cls)
  && subset (r.written.filter fun a => !tracked a) (untrackedOf r.cls)
  && subset r.fills lazyAttrs
  && (if steps.contains r.name then true
      else if r.name == "solve" then
        let e := effect .solve
        subset (attrsOf e.clears) r.clears && subset (proj r.written) (attrsOf (e.clears ++ e.assigns ++ e.mayWrite))
      else match kindOf r.name with
        | some k =>
          let e := effect k
          proj r.clears == attrsOf e.clears && proj r.assigns == attrsOf e.assigns
            && proj r.mayWrite == attrsOf e.mayWrite && norm r.fills == attrsOf e.fills
        | none => (proj r.written).isEmpty)

/-- rows that must exist: the whole modelled interface for the base class; for every concrete
    solver the mutators, the filling getters, `solve` and the two iteration steps -/
def baseEntryPoints : List String :=
  ["P.setter", "randomizeF", "set_precoders", "set_receive_filters", "clear", "F", "full_F", "W", "W_H", "full_W_H",
   "full_W", "Ns", "P"]
def solverEntryPoints : List String :=
  ["P.setter", "randomizeF", "set_precoders", "set_receive_filters", "clear", "solve", "full_F", "W", "W_H",
   "full_W_H", "full_W", "_updateF", "_updateW"]

def entryPointsPresent (rows : List Row) : Bool :=
  baseEntryPoints.all (fun n => rows.any fun r => r.cls == baseCls && r.name == n)
  && solverClasses.all fun c => solverEntryPoints.all fun n => rows.any fun r => r.cls == c && r.name == n

/-- the attributes of a fresh object: the eight (all `None`, as in `State.init`) + the known others -/
def initMatches (tbl : List (String × List (String × Bool))) : Bool :=
  tbl.map (fun e => e.1) == baseCls :: solverClasses
  && tbl.all fun e =>
    norm (e.2.map fun x => x.1) == norm (Fld.all.map Fld.attr ++ untrackedOf e.1)
    && Fld.all.all fun x => e.2.contains (x.attr, true)

theorem init_isNone {μ ρ : Type} (x : Fld) : x.isNone (State.init μ ρ) := by
  cases x <;> rfl

/-- every attribute a row mentions exists on a fresh object of its class -/
def mentionsOnlyInit (tbl : List (String × List (String × Bool))) (rows : List Row) : Bool :=
  rows.all fun r =>
    let known := (tbl.filter fun e => e.1 == r.cls).flatMap fun e => e.2.map fun x => x.1
    (r.written ++ r.fills ++ r.reads).all known.contains

/-- dependency table of a class: the generated fill read-sets of its lazy caches -/
def depsOf (fills : List (String × String × List String)) (cls : String) : Deps :=
  (fills.filter fun e => e.1 == cls).map fun e => e.2

/-- the model's dependency table, as a `Deps` over attribute names -/
def specDepsTable : Deps := derivedFlds.map fun x => (x.attr, (specDeps x).map Fld.attr)

/-- in every class the lazily filled attributes are the model's caches, and the closure of what
    each fill reads (restricted to the eight attributes) is the closure of `specDeps` -/
def fillsMatch (fills : List (String × String × List String)) : Bool :=
  (baseCls :: solverClasses).all fun cls =>
    norm ((fills.filter fun e => e.1 == cls).map fun e => e.2.1) == lazyAttrs
    && (fills.filter fun e => e.1 == cls).all fun e =>
      proj ((depsOf fills cls).closure e.2.1) == norm (specDepsTable.closure e.2.1)

/-- `_full_F` is not examined for `solve` rows: the iterative solvers fill and patch it inside
    their loop (`_solve_finalize`); what `solve` leaves there is the `Solution` parameter of the
    model operation and is compared by the correspondence -/
def solveExempt (r : Row) (c : String) : Bool :=
  r.name == "solve" && r.cls != "ClosedFormIASolver" && c == "_full_F"

end PyPhysim.C10
