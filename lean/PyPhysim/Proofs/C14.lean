/-
C14 — helper lemmas: bookkeeping of the request history (induction over the
operation list, core arithmetic) and the real-number facts about the Jakes sum
(`Transc ℝ` instance, triangle inequality by induction over the rays).
-/
import Mathlib.Analysis.SpecialFunctions.Trigonometric.Basic
import Mathlib.Analysis.Real.Sqrt
import Mathlib.Tactic.Ring
import Mathlib.Tactic.Linarith
import Mathlib.Tactic.Positivity
import Mathlib.Tactic.FieldSimp
import PyPhysim.Model.C14

namespace PyPhysim.C14
open PyPhysim.Proto

/-! ### the scalar instance used by the theorems -/

noncomputable instance instTranscReal : Transc ℝ := ⟨Real.pi, Real.sqrt, Real.cos, Real.sin⟩

@[simp] theorem transc_pi : (Transc.pi : ℝ) = Real.pi := rfl
@[simp] theorem transc_sqrt (x : ℝ) : Transc.sqrt x = Real.sqrt x := rfl
@[simp] theorem transc_cos (x : ℝ) : Transc.cos x = Real.cos x := rfl
@[simp] theorem transc_sin (x : ℝ) : Transc.sin x = Real.sin x := rfl

/-! ### bookkeeping -/

theorem run_append (s : State) (a b : List Op) : run s (a ++ b) = run (run s a) b := by
  induction a generalizing s with
  | nil => rfl
  | cons op a ih => exact ih (step s op)

theorem trace_append (s : State) (a b : List Op) :
    trace s (a ++ b) = trace s a ++ trace (run s a) b := by
  induction a generalizing s with
  | nil => rfl
  | cons op a ih => simp only [List.cons_append, trace, run, ih]

theorem trace_length (s : State) (ops : List Op) : (trace s ops).length = ops.length := by
  induction ops generalizing s with
  | nil => rfl
  | cons op ops ih => simp only [trace, List.length_cons, ih]

theorem step_k (s : State) (op : Op) : (step s op).k = s.k + op.size := by
  cases op <;> rfl

theorem run_k (s : State) (ops : List Op) : (run s ops).k = s.k + total ops := by
  induction ops generalizing s with
  | nil => rfl
  | cons op ops ih =>
    simp only [run, total, ih, step_k]
    omega

theorem run_epoch (s : State) (ops : List Op) : (run s ops).epoch = s.epoch + redraws ops := by
  induction ops generalizing s with
  | nil => rfl
  | cons op ops ih =>
    cases op <;> simp only [run, redraws, ih, step]
    omega

theorem run_shape (s : State) (ops : List Op) : (run s ops).shape = shapeAfter s.shape ops := by
  induction ops generalizing s with
  | nil => rfl
  | cons op ops ih =>
    cases op <;> simp only [run, shapeAfter, ih, step]

/-- the block produced by the request that follows the history `pre` -/
theorem trace_at (s : State) (pre post : List Op) (op : Op) :
    (trace s (pre ++ op :: post))[pre.length]? = some (produced (run s pre) op) := by
  rw [trace_append, List.getElem?_append_right (by simp [trace_length]), trace_length]
  simp [trace]

theorem genBlock_run (s : State) (pre : List Op) (n : Option Nat) :
    genBlock (run s pre) n =
      { dims := outDims (shapeAfter s.shape pre) (reqCount n), first := s.k + total pre,
        count := reqCount n, epoch := s.epoch + redraws pre } := by
  simp only [genBlock, run_k, run_epoch, run_shape]

/-- the produced blocks depend on the counter, the shape and the phase epoch
    only (not on what `get_samples()` currently holds) -/
theorem trace_congr (s s' : State) (hk : s.k = s'.k) (hs : s.shape = s'.shape)
    (he : s.epoch = s'.epoch) (ops : List Op) : trace s ops = trace s' ops := by
  induction ops generalizing s s' with
  | nil => rfl
  | cons op ops ih =>
    have hp : produced s op = produced s' op := by
      cases op <;> simp only [produced, genBlock, hk, hs, he]
    have hstep := ih (step s op) (step s' op)
      (by cases op <;> simp only [step, hk])
      (by cases op <;> simp only [step, hs])
      (by cases op <;> simp only [step, he])
    simp only [trace, hp, hstep]

theorem samples_append {β : Type} (f : Nat → β) (d₁ d₂ d : List Nat) (k a b e : Nat) :
    Block.samples f { dims := d, first := k, count := a + b, epoch := e } =
      Block.samples f { dims := d₁, first := k, count := a, epoch := e } ++
      Block.samples f { dims := d₂, first := k + a, count := b, epoch := e } := by
  simp only [Block.samples, List.range_add, List.map_append, List.map_map]
  congr 1
  apply List.map_congr_left
  intro j _
  simp only [Function.comp, Nat.add_assoc]

/-- the blocks produced by a history -/
def blocks (s : State) (ops : List Op) : List Block := (trace s ops).filterMap id

theorem gens_concat {β : Type} (f : Nat → β) (s : State) (ns : List Nat) :
    (blocks s (ns.map fun n => Op.gen (some n))).flatMap (Block.samples f) =
      Block.samples f { dims := outDims s.shape ns.sum, first := s.k, count := ns.sum, epoch := s.epoch } := by
  induction ns generalizing s with
  | nil => simp [blocks, trace, Block.samples]
  | cons n ns ih =>
    have h := ih (step s (.gen (some n)))
    have hb : blocks s ((n :: ns).map fun n => Op.gen (some n)) =
        genBlock s (some n) :: blocks (step s (.gen (some n))) (ns.map fun n => Op.gen (some n)) := by
      simp [blocks, trace, produced]
    rw [hb, List.flatMap_cons, h, List.sum_cons,
      samples_append f (outDims s.shape n) (outDims s.shape ns.sum)]
    rfl

/-! ### raw requests -/

theorem stepR_ok (s : State) (r : RawOp) (op : Op) (h : r.check = .ok op) :
    stepR s r = (step s op, none) := by
  simp only [stepR, h]

theorem stepR_error (s : State) (r : RawOp) (e : PyErr) (h : r.check = .error e) :
    stepR s r = (s, some e) := by
  simp only [stepR, h]

theorem runR_eq_run_accepted (s : State) (rs : List RawOp) : runR s rs = run s (accepted rs) := by
  induction rs generalizing s with
  | nil => rfl
  | cons r rs ih =>
    cases h : r.check with
    | ok op => simp only [runR, accepted, stepR, h, run, ih]
    | error e => simp only [runR, accepted, stepR, h, ih]

theorem step_k_le (s : State) (op : Op) : s.k ≤ (step s op).k := by
  rw [step_k]; exact Nat.le_add_right _ _

/-! ### non-mutating calls, derived copies, constructor vs setter (R8, R11, R13) -/

theorem run_dropQueries (s : State) (ops : List Op) : run s (dropQueries ops) = run s ops := by
  induction ops generalizing s with
  | nil => rfl
  | cons op ops ih =>
    cases op <;> simp only [dropQueries, run, step, ih]

theorem blocks_cons (s : State) (op : Op) (ops : List Op) :
    blocks s (op :: ops) = (produced s op).toList ++ blocks (step s op) ops := by
  cases h : produced s op <;> simp [blocks, trace, h]

theorem blocks_dropQueries (s : State) (ops : List Op) :
    blocks s (dropQueries ops) = blocks s ops := by
  induction ops generalizing s with
  | nil => rfl
  | cons op ops ih =>
    cases op with
    | query =>
      rw [blocks_cons]
      simp only [dropQueries, produced, step, Option.toList, List.nil_append, ih]
    | gen n => simp only [dropQueries, blocks_cons, ih]
    | skip n => simp only [dropQueries, blocks_cons, ih]
    | setShape a => simp only [dropQueries, blocks_cons, ih]

/-- shape, first sample and count of every later block depend on the counter
    and the configured shape only (not on the phase epoch, not on `get_samples()`) -/
theorem trace_geometry_congr (s s' : State) (hk : s.k = s'.k) (hs : s.shape = s'.shape)
    (ops : List Op) :
    (trace s ops).map (Option.map Block.geometry) = (trace s' ops).map (Option.map Block.geometry) := by
  induction ops generalizing s s' with
  | nil => rfl
  | cons op ops ih =>
    have hp : (produced s op).map Block.geometry = (produced s' op).map Block.geometry := by
      cases op <;> simp only [produced, genBlock, Block.geometry, Option.map, hk, hs]
    have hstep := ih (step s op) (step s' op)
      (by cases op <;> simp only [step, hk])
      (by cases op <;> simp only [step, hs])
    simp only [trace, List.map_cons, hp, hstep]

theorem trace_drop (s : State) (pre child : List Op) :
    (trace s (pre ++ child)).drop pre.length = trace (run s pre) child := by
  rw [trace_append]
  have := trace_length s pre
  rw [← this, List.drop_left]

/-! ### the Jakes sum over ℝ -/

@[simp] theorem sumList_nil : sumList ([] : List ℝ) = 0 := by simp [sumList]
@[simp] theorem sumList_cons (x : ℝ) (xs : List ℝ) : sumList (x :: xs) = x + sumList xs := rfl

/-- triangle inequality for `∑ exp(i θ_l)`, squared form, by induction -/
theorem sum_cos_sin_sq_le {β : Type} (θ : β → ℝ) (l : List β) :
    (sumList (l.map fun r => Real.cos (θ r))) ^ 2 + (sumList (l.map fun r => Real.sin (θ r))) ^ 2
      ≤ (l.length : ℝ) ^ 2 := by
  induction l with
  | nil => simp
  | cons r l ih =>
    simp only [List.map_cons, sumList_cons, List.length_cons, Nat.cast_add, Nat.cast_one]
    set C := sumList (l.map fun r => Real.cos (θ r))
    set S := sumList (l.map fun r => Real.sin (θ r))
    set m : ℝ := (l.length : ℝ)
    have hm : 0 ≤ m := Nat.cast_nonneg _
    have h1 := Real.cos_sq_add_sin_sq (θ r)
    set c := Real.cos (θ r)
    set d := Real.sin (θ r)
    -- Cauchy–Schwarz for two 2-vectors: (cC+dS)² + (cS-dC)² = (c²+d²)(C²+S²)
    have hcs : (c * C + d * S) ^ 2 ≤ m ^ 2 := by
      have : (c * C + d * S) ^ 2 + (c * S - d * C) ^ 2 = (c ^ 2 + d ^ 2) * (C ^ 2 + S ^ 2) := by ring
      have h2 : 0 ≤ (c * S - d * C) ^ 2 := sq_nonneg _
      rw [h1, one_mul] at this
      linarith
    have hle : c * C + d * S ≤ m := by
      by_contra h
      rw [not_le] at h
      have : m ^ 2 < (c * C + d * S) ^ 2 := by nlinarith
      linarith
    nlinarith

theorem rayPhase_zero (t : ℝ) (ray : ℝ × ℝ) : rayPhase (0 : ℝ) t ray = ray.2 := by
  simp [rayPhase]

theorem jakes_ok (Fd t : ℝ) (rays : List (ℝ × ℝ)) (h : rays ≠ []) :
    jakes Fd rays t = .ok
      (Real.sqrt (1 / (rays.length : ℝ)) * sumList (rays.map fun r => Real.cos (rayPhase Fd t r)),
       Real.sqrt (1 / (rays.length : ℝ)) * sumList (rays.map fun r => Real.sin (rayPhase Fd t r))) := by
  unfold jakes
  have : rays.isEmpty = false := by
    cases rays with
    | nil => exact absurd rfl h
    | cons _ _ => rfl
  simp [this]

theorem jakes_sq_le (Fd t : ℝ) (rays : List (ℝ × ℝ)) (h : rays ≠ []) (v : ℝ × ℝ)
    (hv : jakes Fd rays t = .ok v) : v.1 ^ 2 + v.2 ^ 2 ≤ (rays.length : ℝ) := by
  rw [jakes_ok Fd t rays h] at hv
  injection hv with hv
  subst hv
  have hL : (0 : ℝ) < (rays.length : ℝ) := by
    have : 0 < rays.length := List.length_pos_iff.mpr h
    exact_mod_cast this
  have hs : Real.sqrt (1 / (rays.length : ℝ)) ^ 2 = 1 / (rays.length : ℝ) :=
    Real.sq_sqrt (by positivity)
  have hb := sum_cos_sin_sq_le (fun r => rayPhase Fd t r) rays
  simp only [mul_pow, hs]
  rw [← mul_add]
  calc 1 / (rays.length : ℝ) * _ ≤ 1 / (rays.length : ℝ) * (rays.length : ℝ) ^ 2 :=
        mul_le_mul_of_nonneg_left hb (by positivity)
    _ = (rays.length : ℝ) := by field_simp

end PyPhysim.C14
