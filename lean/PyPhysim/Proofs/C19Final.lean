import PyPhysim.Proofs.C19HexCluster
import PyPhysim.Proofs.C19Square
import PyPhysim.Proofs.C19Misc
import PyPhysim.Proofs.C19Rect

set_option linter.unusedSectionVars false

/-! C19 — the cluster theorems in their final form (centres read from `clusterCentres`). -/
namespace PyPhysim.C19
open Real

/-! ### hexagon clusters -/

theorem fin19 (i : ℕ) (h : i < 19) : ((⟨i, h⟩ : Fin 19) : ℕ) = i := rfl

theorem hex_min' (n : ℕ) (hn : n ≤ 19) (R : ℝ) (u pos : Pt ℝ) (hu : norm2 u = 1) (i j : ℕ) (hij : i ≠ j)
    (ci cj : Pt ℝ) (hi : (clusterCentres (hexRaw R n) u pos)[i]? = some ci)
    (hj : (clusterCentres (hexRaw R n) u pos)[j]? = some cj) :
    (2 * hexHeight R) * (2 * hexHeight R) ≤ dist2 ci cj := by
  obtain ⟨hin, hjn, hd, _⟩ := hex_centres_dist n R u pos hu i j ci cj hi hj
  rw [hd, two_apothem_sq]
  have h := lat_min ⟨i, by omega⟩ ⟨j, by omega⟩ (by simpa [Fin.ext_iff] using hij)
  simp only at h
  have hc : (12 : ℝ) ≤ (latD (lat i) (lat j) : ℝ) := by exact_mod_cast h
  nlinarith [mul_self_nonneg R]

theorem hex_touch' (n : ℕ) (hn : n ≤ 19) (R : ℝ) (u pos : Pt ℝ) (hu : norm2 u = 1) (i : ℕ) (h1 : 1 ≤ i)
    (ci : Pt ℝ) (hi : (clusterCentres (hexRaw R n) u pos)[i]? = some ci) :
    ∃ j cj, j < i ∧ (clusterCentres (hexRaw R n) u pos)[j]? = some cj ∧
      dist2 ci cj = (2 * hexHeight R) * (2 * hexHeight R) := by
  have hin : i < n := by
    obtain ⟨h, _⟩ := hex_centres_dist n R u pos hu i i ci ci hi hi
    exact h
  obtain ⟨j, hj, hd⟩ := lat_touch ⟨i, by omega⟩ h1
  obtain ⟨cj, hcj⟩ := hex_centres_exist n R u pos j.val (by simp only at hj; omega)
  refine ⟨j.val, cj, hj, hcj, ?_⟩
  obtain ⟨_, _, hdist, _⟩ := hex_centres_dist n R u pos hu i j.val ci cj hi hcj
  rw [hdist, two_apothem_sq]
  simp only at hd
  have : (latD (lat i) (lat j.val) : ℝ) = 12 := by exact_mod_cast hd
  rw [this]; ring

theorem hex_ring1' (n : ℕ) (hn : n ≤ 19) (R : ℝ) (u pos : Pt ℝ) (hu : norm2 u = 1) (i : ℕ) (h1 : 1 ≤ i)
    (h6 : i ≤ 6) (c0 ci : Pt ℝ) (h0 : (clusterCentres (hexRaw R n) u pos)[0]? = some c0)
    (hi : (clusterCentres (hexRaw R n) u pos)[i]? = some ci) :
    dist2 c0 ci = (2 * hexHeight R) * (2 * hexHeight R) ∧
      ∀ cn, (clusterCentres (hexRaw R n) u pos)[i % 6 + 1]? = some cn →
        dist2 ci cn = (2 * hexHeight R) * (2 * hexHeight R) := by
  have h := lat_ring1 ⟨i, by omega⟩ h1 h6
  simp only at h
  constructor
  · obtain ⟨_, _, hd, _⟩ := hex_centres_dist n R u pos hu 0 i c0 ci h0 hi
    rw [hd, two_apothem_sq]
    have : (latD (lat 0) (lat i) : ℝ) = 12 := by exact_mod_cast h.1
    rw [this]; ring
  · intro cn hcn
    obtain ⟨_, _, hd, _⟩ := hex_centres_dist n R u pos hu i (i % 6 + 1) ci cn hi hcn
    rw [hd, two_apothem_sq]
    have : (latD (lat i) (lat (i % 6 + 1)) : ℝ) = 12 := by exact_mod_cast h.2
    rw [this]; ring

theorem hex_ring2' (n : ℕ) (hn : n ≤ 19) (R : ℝ) (u pos : Pt ℝ) (hu : norm2 u = 1) (i : ℕ) (h7 : 7 ≤ i)
    (c0 ci : Pt ℝ) (h0 : (clusterCentres (hexRaw R n) u pos)[0]? = some c0)
    (hi : (clusterCentres (hexRaw R n) u pos)[i]? = some ci) :
    dist2 c0 ci = if (i - 7) % 2 = 0 then (3 * R) * (3 * R) else (4 * hexHeight R) * (4 * hexHeight R) := by
  obtain ⟨_, hin, hd, _⟩ := hex_centres_dist n R u pos hu 0 i c0 ci h0 hi
  have h := lat_ring2 ⟨i, by omega⟩ h7
  simp only at h
  rw [hd]
  split_ifs with hpar
  · rw [if_pos hpar] at h
    have : (latD (lat 0) (lat i) : ℝ) = 36 := by exact_mod_cast h
    rw [this]; ring
  · rw [if_neg hpar] at h
    have : (latD (lat 0) (lat i) : ℝ) = 48 := by exact_mod_cast h
    rw [this]
    simp only [hexHeight, Circ.sqrt]
    norm_num
    linear_combination (-(4 * R * R)) * s3

theorem hex_separated' (n : ℕ) (hn : n ≤ 19) (R : ℝ) (hR : 0 ≤ R) (u pos : Pt ℝ) (hu : norm2 u = 1)
    (i j : ℕ) (hij : i ≠ j) (ci cj : Pt ℝ)
    (hi : (clusterCentres (hexRaw R n) u pos)[i]? = some ci)
    (hj : (clusterCentres (hexRaw R n) u pos)[j]? = some cj) :
    Separated (cellVerts (hexVerts R) u ci) (cellVerts (hexVerts R) u cj) := by
  obtain ⟨hin, hjn, _, hsub⟩ := hex_centres_dist n R u pos hu i j ci cj hi hj
  obtain ⟨k, hk⟩ := lat_sep ⟨i, by omega⟩ ⟨j, by omega⟩ (by simpa [Fin.ext_iff] using hij)
  simp only at hk
  apply hex_sep R hR u hu ci cj k.val
  rw [hsub, dot_rot, hu, one_mul]
  have e : psub (smul R (latPt (lat j))) (smul R (latPt (lat i)))
      = smul R (latPt ((lat j).1 - (lat i).1, (lat j).2 - (lat i).2)) := by
    simp only [psub, smul, latPt]
    push_cast
    ext <;> simp <;> ring
  have e2 : ∀ (a b : Pt ℝ) (c : ℝ), dot a (smul c b) = c * dot a b := by
    intro a b c; simp only [dot, smul]; ring
  rw [e, e2, dot_E_lat k.val k.isLt]
  have hc : (4 : ℝ) ≤ (latDot k.val ((lat j).1 - (lat i).1, (lat j).2 - (lat i).2) : ℝ) := by exact_mod_cast hk
  have h3 := sqrt3_pos
  have : 0 ≤ R * Real.sqrt 3 := by positivity
  nlinarith

/-! ### square clusters -/
section field
variable {α : Type} [Field α] [LinearOrder α] [IsStrictOrderedRing α]

theorem sqRaw_getElem_some (side : α) (k i : ℕ) (p : Pt α)
    (h : ((List.range (k * k)).map (squareRawPt side k))[i]? = some p) :
    i < k * k ∧ p = squareRawPt side k i := by
  have hlt : i < k * k := by
    by_contra hc
    have : ((List.range (k * k)).map (squareRawPt side k))[i]? = none := by
      apply List.getElem?_eq_none
      simp; omega
    rw [this] at h; cases h
  simp [List.getElem?_map, List.getElem?_range hlt] at h
  exact ⟨hlt, h.symm⟩

theorem square_centres (side : α) (k : ℕ) (u pos : Pt α) (i j : ℕ) (ci cj : Pt α)
    (hi : (clusterCentres ((List.range (k * k)).map (squareRawPt side k)) u pos)[i]? = some ci)
    (hj : (clusterCentres ((List.range (k * k)).map (squareRawPt side k)) u pos)[j]? = some cj) :
    i < k * k ∧ j < k * k ∧
      dist2 ci cj = norm2 u * dist2 (squareRawPt side k i) (squareRawPt side k j) ∧
      psub cj ci = rot u (psub (squareRawPt side k j) (squareRawPt side k i)) := by
  obtain ⟨pi, pj, hpi, hpj, hd, hsub⟩ := cluster_dist_invariant' _ u pos i j ci cj hi hj
  obtain ⟨hin, rfl⟩ := sqRaw_getElem_some side k i pi hpi
  obtain ⟨hjn, rfl⟩ := sqRaw_getElem_some side k j pj hpj
  exact ⟨hin, hjn, hd, hsub⟩

theorem square_separated' (side : α) (hs : 0 ≤ side) (k : ℕ) (u pos : Pt α) (hu : norm2 u = 1)
    (i j : ℕ) (hij : i ≠ j) (ci cj : Pt α)
    (hi : (clusterCentres ((List.range (k * k)).map (squareRawPt side k)) u pos)[i]? = some ci)
    (hj : (clusterCentres ((List.range (k * k)).map (squareRawPt side k)) u pos)[j]? = some cj) :
    Separated (squareCellVerts side u ci) (squareCellVerts side u cj) := by
  obtain ⟨hin, hjn, _, hsub⟩ := square_centres side k u pos i j ci cj hi hj
  obtain ⟨e, he, hle⟩ := square_axis side hs k i j hin hjn hij
  apply square_sep side hs u hu ci cj e he
  rw [hsub, dot_rot, hu, one_mul]
  exact hle

/-- a non-degenerate `Rectangle(first, second)` has its centre strictly inside -/
theorem mkRect_centre_inside (f s : Pt α) (h1 : f.1 ≠ s.1) (h2 : f.2 ≠ s.2) :
    (mkRect f s).lower.1 < (mkRect f s).pos.1 ∧ (mkRect f s).pos.1 < (mkRect f s).upper.1 ∧
    (mkRect f s).lower.2 < (mkRect f s).pos.2 ∧ (mkRect f s).pos.2 < (mkRect f s).upper.2 := by
  simp only [mkRect, pmin, pmax, Nat.cast_ofNat]
  refine ⟨?_, ?_, ?_, ?_⟩
  · rcases lt_or_gt_of_ne h1 with h | h
    · rw [if_neg (not_lt.mpr h.le)]; linarith
    · rw [if_pos h]; linarith
  · rcases lt_or_gt_of_ne h1 with h | h
    · rw [if_pos h]; linarith
    · rw [if_neg (not_lt.mpr h.le)]; linarith
  · rcases lt_or_gt_of_ne h2 with h | h
    · rw [if_neg (not_lt.mpr h.le)]; linarith
    · rw [if_pos h]; linarith
  · rcases lt_or_gt_of_ne h2 with h | h
    · rw [if_pos h]; linarith
    · rw [if_neg (not_lt.mpr h.le)]; linarith
end field

end PyPhysim.C19
