import Mathlib.Order.Defs.LinearOrder
import Mathlib.Tactic.Linarith
import PyPhysim.Model.C01

/-! `argminIdx` returns the first index of a minimal element (any linear order). -/
namespace PyPhysim.C01
variable {α : Type} [LinearOrder α]

/-- invariant of the scan: `b = pre[bi]` is minimal in `pre`, strictly below everything before `bi` -/
def ScanInv (pre : List α) (b : α) (bi : Nat) : Prop :=
  pre[bi]? = some b ∧ ∀ j y, pre[j]? = some y → b ≤ y ∧ (j < bi → b < y)

theorem argminAux_spec : ∀ (xs pre : List α) (b : α) (bi : Nat), ScanInv pre b bi →
    ∃ v, (pre ++ xs)[argminAux xs pre.length b bi]? = some v ∧
      ∀ j y, (pre ++ xs)[j]? = some y → v ≤ y ∧ (j < argminAux xs pre.length b bi → v < y)
  | [], pre, b, bi, h => by
    simp only [argminAux, List.append_nil]
    exact ⟨b, h.1, h.2⟩
  | x :: xs, pre, b, bi, h => by
    have hbi : bi < pre.length := by
      have := h.1
      rcases Nat.lt_or_ge bi pre.length with h' | h'
      · exact h'
      · rw [List.getElem?_eq_none h'] at this; cases this
    have happ : pre ++ x :: xs = (pre ++ [x]) ++ xs := by simp
    have hlen : (pre ++ [x]).length = pre.length + 1 := by simp
    unfold argminAux
    by_cases hx : x < b
    · simp only [hx, if_true]
      have inv' : ScanInv (pre ++ [x]) x pre.length := by
        refine ⟨by simp, ?_⟩
        intro j y hj
        rcases Nat.lt_or_ge j pre.length with hlt | hge
        · rw [List.getElem?_append_left hlt] at hj
          have := (h.2 j y hj).1
          exact ⟨le_of_lt (lt_of_lt_of_le hx this), fun _ => lt_of_lt_of_le hx this⟩
        · have hj' : j = pre.length := by
            have : j < (pre ++ [x]).length := by
              by_contra hc
              rw [List.getElem?_eq_none (Nat.le_of_not_lt hc)] at hj; cases hj
            rw [hlen] at this; omega
          subst hj'
          simp at hj
          subst hj
          exact ⟨le_refl _, fun hc => absurd hc (Nat.lt_irrefl _)⟩
      have := argminAux_spec xs (pre ++ [x]) x pre.length inv'
      rw [hlen, ← happ] at this
      exact this
    · simp only [hx, if_false]
      have hbx : b ≤ x := not_lt.mp hx
      have inv' : ScanInv (pre ++ [x]) b bi := by
        refine ⟨by rw [List.getElem?_append_left hbi]; exact h.1, ?_⟩
        intro j y hj
        rcases Nat.lt_or_ge j pre.length with hlt | hge
        · rw [List.getElem?_append_left hlt] at hj
          exact h.2 j y hj
        · have hj' : j = pre.length := by
            have : j < (pre ++ [x]).length := by
              by_contra hc
              rw [List.getElem?_eq_none (Nat.le_of_not_lt hc)] at hj; cases hj
            rw [hlen] at this; omega
          subst hj'
          simp at hj
          subst hj
          exact ⟨hbx, fun hc => by omega⟩
      have := argminAux_spec xs (pre ++ [x]) b bi inv'
      rw [hlen, ← happ] at this
      exact this

/-- `np.argmin` contract: on a non-empty list the result is in range, its value is
    minimal, and strictly smaller than every earlier value (first minimiser). -/
theorem argminIdx_spec (l : List α) (hl : l ≠ []) :
    ∃ v, l[argminIdx l]? = some v ∧
      ∀ j y, l[j]? = some y → v ≤ y ∧ (j < argminIdx l → v < y) := by
  cases l with
  | nil => exact absurd rfl hl
  | cons x xs =>
    have inv : ScanInv [x] x 0 := by
      refine ⟨by simp, ?_⟩
      intro j y hj
      cases j with
      | zero => simp at hj; subst hj; exact ⟨le_refl _, fun h => absurd h (Nat.lt_irrefl _)⟩
      | succ j => simp at hj
    have := argminAux_spec xs [x] x 0 inv
    simpa [argminIdx] using this

theorem argminIdx_lt (l : List α) (hl : l ≠ []) : argminIdx l < l.length := by
  obtain ⟨v, hv, _⟩ := argminIdx_spec l hl
  by_contra hc
  rw [List.getElem?_eq_none (Nat.le_of_not_lt hc)] at hv; cases hv

/-- if position `i` holds a value strictly below all others, `argminIdx` returns `i` -/
theorem argminIdx_unique (l : List α) (i : Nat) (x : α) (hi : l[i]? = some x)
    (hmin : ∀ j y, l[j]? = some y → j ≠ i → x < y) : argminIdx l = i := by
  have hl : l ≠ [] := by intro h; subst h; simp at hi
  obtain ⟨v, hv, hall⟩ := argminIdx_spec l hl
  by_contra hne
  have h1 := hmin (argminIdx l) v hv hne
  have h2 := (hall i x hi).1
  exact absurd (lt_of_lt_of_le h1 h2) (lt_irrefl _)

end PyPhysim.C01
