import Mathlib.Algebra.BigOperators.Field
import PyPhysim.Proofs.C04Bridge

/-!
MRT: `h · exp(−j·arg h) = |h|`, unit-modulus precoder entries, round trip and
transmitted energy.
-/
set_option linter.unusedSectionVars false
namespace PyPhysim.C04
open Matrix

namespace Pf
variable {Nt n : Nat}

/-- `z · exp(−j·arg z) = |z|` -/
theorem mul_phase (z : ℂ) :
    z * Complex.exp (-Complex.I * ((Complex.arg z : ℝ) : ℂ)) = ((‖z‖ : ℝ) : ℂ) := by
  have h := Complex.norm_mul_exp_arg_mul_I z
  calc z * Complex.exp (-Complex.I * ((Complex.arg z : ℝ) : ℂ))
      = (((‖z‖ : ℝ) : ℂ) * Complex.exp (((Complex.arg z : ℝ) : ℂ) * Complex.I)) *
          Complex.exp (-Complex.I * ((Complex.arg z : ℝ) : ℂ)) := by rw [h]
    _ = ((‖z‖ : ℝ) : ℂ) * (Complex.exp (((Complex.arg z : ℝ) : ℂ) * Complex.I) *
          Complex.exp (-Complex.I * ((Complex.arg z : ℝ) : ℂ))) := by ring
    _ = ((‖z‖ : ℝ) : ℂ) := by
        rw [← Complex.exp_add]
        have e : ((Complex.arg z : ℝ) : ℂ) * Complex.I + -Complex.I * ((Complex.arg z : ℝ) : ℂ) = 0 := by
          ring
        rw [e, Complex.exp_zero, mul_one]

/-- the phase factor has unit modulus: `e · conj e = 1` -/
theorem phase_unit (t : ℝ) :
    Complex.exp (-Complex.I * (t : ℂ)) * star (Complex.exp (-Complex.I * (t : ℂ))) = 1 := by
  have h : star (Complex.exp (-Complex.I * (t : ℂ))) = Complex.exp (Complex.I * (t : ℂ)) := by
    rw [Complex.star_def, ← Complex.exp_conj]
    congr 1
    simp
  rw [h, ← Complex.exp_add]
  have e : -Complex.I * (t : ℂ) + Complex.I * (t : ℂ) = 0 := by ring
  rw [e, Complex.exp_zero]

/-- the channel seen by one MRT precoder entry: `hᵢ · Wᵢ = |hᵢ| / √Nt` -/
theorem mrt_entry (h : Vec ℂ Nt) (i : Fin Nt) :
    h i * mrtPrecoder h i = ((‖h i‖ : ℝ) : ℂ) / sqrtNat Nt := by
  unfold mrtPrecoder
  rw [exp_def, I_def, angle_def, mul_div_assoc', mul_phase]

/-- `|Wᵢ|² = 1 / Nt` -/
theorem mrt_entry_energy (h : Vec ℂ Nt) (i : Fin Nt) :
    mrtPrecoder h i * star (mrtPrecoder h i) = 1 / (Nt : ℂ) := by
  unfold mrtPrecoder
  rw [exp_def, I_def, angle_def, star_div₀, star_sqrtNat, div_mul_div_comm, phase_unit, sqrtNat_mul_self]

theorem sum_norm_ne_zero (h : Vec ℂ Nt) (hne : ∃ i, h i ≠ 0) :
    (∑ i, ((‖h i‖ : ℝ) : ℂ)) ≠ 0 := by
  obtain ⟨i, hi⟩ := hne
  rw [← Complex.ofReal_sum]
  norm_cast
  have hpos : 0 < ∑ i, ‖h i‖ :=
    Finset.sum_pos' (fun j _ => norm_nonneg (h j)) ⟨i, Finset.mem_univ i, norm_pos_iff.mpr hi⟩
  exact hpos.ne'

/-- MRT round trip: `g · Σᵢ hᵢ (Wᵢ x) = x` -/
theorem mrt_roundtrip (h : Vec ℂ Nt) (hne : ∃ i, h i ≠ 0) (x : Vec ℂ n) (j : Fin n) :
    mrtDecode h (matMul (fun (_ : Fin 1) i => h i) (mrtEncode h x)) j = x j := by
  have hNt : 0 < Nt := by
    obtain ⟨i, _⟩ := hne
    exact Nat.lt_of_le_of_lt (Nat.zero_le _) i.isLt
  have hs := sum_norm_ne_zero h hne
  have hc := sqrtNat_ne_zero (n := Nt) hNt
  unfold mrtDecode mrtFilter matMul mrtEncode
  simp only [sumFin_eq, abs_def]
  have e : ∀ i, h i * (mrtPrecoder h i * x j) = (((‖h i‖ : ℝ) : ℂ) / sqrtNat Nt) * x j := by
    intro i
    rw [← mul_assoc, mrt_entry]
  simp only [e]
  rw [← Finset.sum_mul, ← Finset.sum_div]
  field_simp

/-- every channel use of MRT radiates exactly the energy of the symbol it carries -/
theorem mrt_colEnergy (h : Vec ℂ Nt) (hNt : 0 < Nt) (x : Vec ℂ n) (j : Fin n) :
    colEnergy (mrtEncode h x) j = x j * star (x j) := by
  unfold colEnergy mrtEncode
  simp only [sumFin_eq, conj_def, star_mul']
  have e : ∀ i, mrtPrecoder h i * x j * (star (mrtPrecoder h i) * star (x j))
      = (1 / (Nt : ℂ)) * (x j * star (x j)) := by
    intro i
    rw [← mrt_entry_energy h i]
    ring
  simp only [e]
  rw [Finset.sum_const, Finset.card_univ, Fintype.card_fin, nsmul_eq_mul]
  have : (Nt : ℂ) ≠ 0 := by exact_mod_cast hNt.ne'
  field_simp

end Pf
end PyPhysim.C04
