import Mathlib.Tactic.Linarith
import Mathlib.Tactic.Ring
import PyPhysim.Model.C03

/-!
# C03 — Python `range` / `slice.indices` arithmetic and the block-size obligation
-/
namespace PyPhysim.C03
open PyPhysim.Proto

theorem pyRangeLen_nonneg (a b s : Int) : 0 ≤ pyRangeLen a b s := by
  unfold pyRangeLen
  split_ifs with h1 h2 h3 h4
  · have : 0 ≤ (b - a - 1) / s := Int.ediv_nonneg (by omega) (by omega)
    omega
  · omega
  · have : 0 ≤ (a - b - 1) / (-s) := Int.ediv_nonneg (by omega) (by omega)
    omega
  · omega
  · omega

/-- `len(range(a, b, s))` counts exactly the `k ≥ 0` with `a + k·s` before `b` -/
theorem pyRangeLen_spec (a b s : Int) (k : Nat) :
    (k : Int) < pyRangeLen a b s ↔ (0 < s ∧ a + k * s < b) ∨ (s < 0 ∧ b < a + k * s) := by
  unfold pyRangeLen
  have hk : (0 : Int) ≤ k := Int.natCast_nonneg k
  split_ifs with h1 h2 h3 h4
  · -- 0 < s, a < b
    have : (k : Int) < (b - a - 1) / s + 1 ↔ (k : Int) * s ≤ b - a - 1 := by
      rw [Int.lt_add_one_iff, Int.le_ediv_iff_mul_le h1]
    rw [this]
    constructor
    · intro h; left; exact ⟨h1, by omega⟩
    · rintro (⟨_, h⟩ | ⟨h, _⟩) <;> omega
  · -- 0 < s, b ≤ a
    constructor
    · intro h; omega
    · rintro (⟨_, h⟩ | ⟨h, _⟩)
      · have : 0 ≤ (k : Int) * s := Int.mul_nonneg hk (by omega)
        omega
      · omega
  · -- s < 0, b < a
    have hs : 0 < -s := by omega
    have : (k : Int) < (a - b - 1) / (-s) + 1 ↔ (k : Int) * (-s) ≤ a - b - 1 := by
      rw [Int.lt_add_one_iff, Int.le_ediv_iff_mul_le hs]
    rw [this]
    have e : (k : Int) * (-s) = -((k : Int) * s) := by ring
    rw [e]
    constructor
    · intro h; right; exact ⟨h3, by omega⟩
    · rintro (⟨h, _⟩ | ⟨_, h⟩) <;> omega
  · -- s < 0, a ≤ b
    constructor
    · intro h; omega
    · rintro (⟨h, _⟩ | ⟨_, h⟩)
      · omega
      · have : (k : Int) * s ≤ 0 := Int.mul_nonpos_of_nonneg_of_nonpos hk (by omega)
        omega
  · -- s = 0
    have : s = 0 := by omega
    subst this
    constructor
    · intro h; omega
    · rintro (⟨h, _⟩ | ⟨h, _⟩) <;> omega

theorem pyRange_length (a b s : Int) : (pyRange a b s).length = (pyRangeLen a b s).toNat := by
  simp [pyRange, tab]

theorem mem_pyRange {a b s e : Int} (h : e ∈ pyRange a b s) :
    ∃ k : Nat, e = a + k * s ∧ ((0 < s ∧ e < b) ∨ (s < 0 ∧ b < e)) := by
  simp only [pyRange, tab, List.mem_map, List.mem_range] at h
  obtain ⟨k, hk, rfl⟩ := h
  refine ⟨k, rfl, (pyRangeLen_spec a b s k).mp ?_⟩
  have := pyRangeLen_nonneg a b s
  omega

theorem clampIdx_bounds (step n v : Int) (hn : 0 ≤ n) :
    (0 < step → 0 ≤ clampIdx step n v ∧ clampIdx step n v ≤ n) ∧
    (step < 0 → -1 ≤ clampIdx step n v ∧ clampIdx step n v ≤ n - 1) := by
  unfold clampIdx
  constructor
  · intro h
    have : ¬ step < 0 := by omega
    simp only [this, if_false]
    split_ifs <;> omega
  · intro h
    simp only [h, if_true]
    split_ifs <;> omega

/-- `slice.indices` returns a non-zero step and clamped bounds -/
theorem sliceIndices_bounds {sl : PySlice} {N : Nat} {a b c : Int}
    (h : sliceIndices sl N = .ok (a, b, c)) :
    c ≠ 0 ∧ (0 < c → 0 ≤ a ∧ a ≤ N ∧ 0 ≤ b ∧ b ≤ N) ∧ (c < 0 → -1 ≤ a ∧ a ≤ (N : Int) - 1 ∧ -1 ≤ b ∧ b ≤ (N : Int) - 1) := by
  unfold sliceIndices at h
  split at h
  · cases h
  · rename_i hc
    simp only [Except.ok.injEq, Prod.mk.injEq] at h
    obtain ⟨rfl, rfl, rfl⟩ := h
    have hN : (0 : Int) ≤ N := Int.natCast_nonneg N
    refine ⟨hc, ?_, ?_⟩
    · intro hpos
      have hneg : ¬ (sliceStep sl < 0) := by omega
      unfold sliceStart sliceStop
      refine ⟨?_, ?_, ?_, ?_⟩
      · cases sl.start with
        | none => simp only [hneg, if_false]; omega
        | some v => exact ((clampIdx_bounds _ _ v hN).1 hpos).1
      · cases sl.start with
        | none => simp only [hneg, if_false]; omega
        | some v => exact ((clampIdx_bounds _ _ v hN).1 hpos).2
      · cases sl.stop with
        | none => simp only [hneg, if_false]; omega
        | some v => exact ((clampIdx_bounds _ _ v hN).1 hpos).1
      · cases sl.stop with
        | none => simp only [hneg, if_false]; omega
        | some v => exact ((clampIdx_bounds _ _ v hN).1 hpos).2
    · intro hneg
      unfold sliceStart sliceStop
      refine ⟨?_, ?_, ?_, ?_⟩
      · cases sl.start with
        | none => simp only [hneg, if_true]; omega
        | some v => exact ((clampIdx_bounds _ _ v hN).2 hneg).1
      · cases sl.start with
        | none => simp only [hneg, if_true]; omega
        | some v => exact ((clampIdx_bounds _ _ v hN).2 hneg).2
      · cases sl.stop with
        | none => simp only [hneg, if_true]; omega
        | some v => exact ((clampIdx_bounds _ _ v hN).2 hneg).1
      · cases sl.stop with
        | none => simp only [hneg, if_true]; omega
        | some v => exact ((clampIdx_bounds _ _ v hN).2 hneg).2

theorem sliceIndices_ok_of_step (sl : PySlice) (N : Nat) (h : sl.step ≠ some 0) :
    ∃ a b c, sliceIndices sl N = .ok (a, b, c) := by
  unfold sliceIndices
  have : sliceStep sl ≠ 0 := by
    unfold sliceStep
    cases hs : sl.step with
    | none => simp
    | some s =>
      simp only
      intro h0
      subst h0
      exact h hs
  simp only [this, if_false]
  exact ⟨_, _, _, rfl⟩

/-- every index a slice selects lies inside the axis -/
theorem slice_index_in_range {sl : PySlice} {N : Nat} {a b c e : Int}
    (h : sliceIndices sl N = .ok (a, b, c)) (he : e ∈ pyRange a b c) : 0 ≤ e ∧ e < N := by
  obtain ⟨hc, hpos, hneg⟩ := sliceIndices_bounds h
  obtain ⟨k, rfl, hk⟩ := mem_pyRange he
  have hk0 : (0 : Int) ≤ k := Int.natCast_nonneg k
  rcases hk with ⟨hc', hlt⟩ | ⟨hc', hlt⟩
  · obtain ⟨h1, h2, h3, h4⟩ := hpos hc'
    have : 0 ≤ (k : Int) * c := Int.mul_nonneg hk0 (by omega)
    omega
  · obtain ⟨h1, h2, h3, h4⟩ := hneg hc'
    have : (k : Int) * c ≤ 0 := Int.mul_nonpos_of_nonneg_of_nonpos hk0 (by omega)
    omega

/-! ## `mapM` in `Except` -/

theorem mapM_ok_of_forall {ι κ : Type} (f : ι → Except PyErr κ) (g : ι → κ) (l : List ι)
    (h : ∀ x ∈ l, f x = .ok (g x)) : l.mapM f = .ok (l.map g) := by
  induction l with
  | nil => rfl
  | cons x xs ih =>
    rw [List.mapM_cons, h x (by simp), ih (fun y hy => h y (by simp [hy]))]
    rfl

theorem mapM_ok_length {ι κ : Type} (f : ι → Except PyErr κ) (l : List ι) (r : List κ)
    (h : l.mapM f = .ok r) : r.length = l.length := by
  induction l generalizing r with
  | nil => simp [List.mapM_nil, pure, Except.pure] at h; subst h; rfl
  | cons x xs ih =>
    rw [List.mapM_cons] at h
    cases hx : f x with
    | error e => simp [hx, bind, Except.bind] at h
    | ok y =>
      cases hxs : xs.mapM f with
      | error e => simp [hx, hxs, bind, Except.bind] at h
      | ok ys =>
        simp [hx, hxs, bind, Except.bind, pure, Except.pure] at h
        subst h
        simp [ih ys hxs]

/-- the closed form of `len(range(a, b, s))` for a positive step: `max(0, (b - a + s - 1) // s)` -/
theorem rangeLenClosed_pos (a b s : Int) (hs : 0 < s) :
    max (0 : Int) (pyFloorDiv (((b - a) + s) - 1) s) = pyRangeLen a b s := by
  unfold pyRangeLen pyFloorDiv
  rw [if_pos hs, Int.fdiv_eq_ediv_of_nonneg _ (Int.le_of_lt hs)]
  have e : ((b - a) + s) - 1 = (b - a - 1) + 1 * s := by ring
  rw [e, Int.add_mul_ediv_right _ _ (Int.ne_of_gt hs)]
  split_ifs with h
  · have : 0 ≤ (b - a - 1) / s := Int.ediv_nonneg (by omega) (by omega)
    omega
  · have : (b - a - 1) / s < 0 := Int.ediv_neg_of_neg_of_pos (by omega) hs
    omega

theorem rangeLenClosed (a b s : Int) (hs : s ≠ 0) :
    (if (s > (0 : Int)) then (max (0 : Int) (pyFloorDiv (((b - a) + s) - (1 : Int)) s))
      else (max (0 : Int) (pyFloorDiv (((a - b) - s) - (1 : Int)) (- s)))) = pyRangeLen a b s := by
  by_cases h : s > 0
  · rw [if_pos h]; exact rangeLenClosed_pos a b s h
  · rw [if_neg h]
    have hneg : s < 0 := by omega
    have e : ((a - b) - s) - 1 = ((a - b) + (-s)) - 1 := by ring
    rw [e, rangeLenClosed_pos b a (-s) (by omega)]
    unfold pyRangeLen
    rw [if_pos (by omega : (0:Int) < -s), if_neg (by omega : ¬ (0:Int) < s), if_pos hneg]
/-- tie (a) for the slice branch: whichever of the recognised spellings the source uses for the number of
    elements of `range(*carrier_indexes.indices(fft_size))` — `len(range(..))` itself or the closed form
    `max(0, (stop - start + step - 1) // step)` / `max(0, (start - stop - step - 1) // -step)` — the emitted
    expression is `pyRangeLen` (the step of `slice.indices` is never 0) -/
theorem blockSizeSlice_eq (fft a b c : Int) (hc : c ≠ 0) :
    Generated.blockSizeSlice fft a b c = pyRangeLen a b c := by
  first
    | rfl
    | (unfold Generated.blockSizeSlice; exact rangeLenClosed a b c hc)

/-- numpy slicing never raises: the selected positions are the `range` of `slice.indices` -/
theorem selPos_slice {sl : PySlice} {N : Nat} {a b c : Int} (h : sliceIndices sl N = .ok (a, b, c)) :
    selPos (.slice sl) N = .ok ((pyRange a b c).map Int.toNat) := by
  unfold selPos
  simp only [h, bind, Except.bind]
  apply mapM_ok_of_forall
  intro e he
  have := slice_index_in_range h he
  simp [this.1, this.2]

/-- THE BLOCK-SIZE OBLIGATION: for every kind of `carrier_indexes`, the `block_size` the
    source computes equals the number of carriers numpy selects. -/
theorem blockSize_eq_selected (sel : Sel) (fft : Nat) (B : Int) (ps : List Nat)
    (hB : blockSize sel fft = .ok B) (hps : selPos sel fft = .ok ps) : (ps.length : Int) = B := by
  cases sel with
  | all =>
    simp only [blockSize, selPos, Except.ok.injEq] at hB hps
    subst hB hps
    simp [Generated.blockSizeAll]
  | idx l =>
    simp only [blockSize, Except.ok.injEq] at hB
    subst hB
    have := mapM_ok_length _ _ _ hps
    simp [Generated.blockSizeIdx, this]
  | slice sl =>
    unfold blockSize at hB
    cases hs : sliceIndices sl fft with
    | error e => simp [hs, bind, Except.bind] at hB
    | ok abc =>
      obtain ⟨a, b, c⟩ := abc
      simp only [hs, bind, Except.bind, pure, Except.pure, Except.ok.injEq] at hB
      subst hB
      rw [selPos_slice hs] at hps
      simp only [Except.ok.injEq] at hps
      subst hps
      simp only [List.length_map, pyRange_length]
      rw [blockSizeSlice_eq _ a b c (sliceIndices_bounds hs).1]
      exact Int.toNat_of_nonneg (pyRangeLen_nonneg a b c)

theorem blockSize_ok_of_selPos (sel : Sel) (fft : Nat) (ps : List Nat) (hps : selPos sel fft = .ok ps) :
    blockSize sel fft = .ok (ps.length : Int) := by
  have key : ∃ B, blockSize sel fft = .ok B := by
    cases sel with
    | all => exact ⟨_, rfl⟩
    | idx l => exact ⟨_, rfl⟩
    | slice sl =>
      unfold selPos at hps
      unfold blockSize
      cases hs : sliceIndices sl fft with
      | error e => simp [hs, bind, Except.bind] at hps
      | ok abc => exact ⟨_, by simp only [bind, Except.bind, pure, Except.pure]; rw [hs]⟩
  obtain ⟨B, hB⟩ := key
  rw [hB, blockSize_eq_selected sel fft B ps hB hps]

/-- a transmission of `nb ≥ 1` full blocks over a non-empty valid selection is accepted -/
theorem freqPlan_complete (sel : Sel) (fft nb : Nat) (ps : List Nat) (hfft : 0 < fft) (hnb : 0 < nb)
    (hps : selPos sel fft = .ok ps) (hne : ps ≠ []) :
    freqPlan sel fft (nb * ps.length) = .ok (ps, ps.length, nb) := by
  have hlen : 0 < ps.length := List.length_pos_iff.mpr hne
  unfold freqPlan
  have hfft' : ¬ fft = 0 := by omega
  have hB0 : ¬ ((ps.length : Int) = 0) := by omega
  have hmod : pyMod ((nb * ps.length : Nat) : Int) (ps.length : Int) = 0 := by
    unfold pyMod
    rw [Int.fmod_eq_emod_of_nonneg _ (by omega)]
    push_cast
    exact Int.mul_emod_left _ _
  have hdiv : pyFloorDiv ((nb * ps.length : Nat) : Int) (ps.length : Int) = nb := by
    unfold pyFloorDiv
    rw [Int.fdiv_eq_ediv_of_nonneg _ (by omega)]
    push_cast
    exact Int.mul_ediv_cancel _ (by omega)
  simp only [hfft', if_false, blockSize_ok_of_selPos sel fft ps hps, hps, bind, Except.bind, pure, Except.pure,
    hB0, hmod, hdiv, ne_eq, not_true_eq_false, Int.toNat_natCast]
  have : ¬ ((nb : Int) ≤ 0) := by omega
  simp only [this, if_false]

end PyPhysim.C03
