import PyPhysim.Proofs.C19Cluster
import Mathlib.Tactic.IntervalCases

set_option linter.unusedSectionVars false

/-! C19 — `k × k` square clusters: grid neighbours are one side apart, every other pair is
farther, any two cells are separated by a line. -/
namespace PyPhysim.C19

section field
variable {α : Type} [Field α] [LinearOrder α] [IsStrictOrderedRing α]

/-- column and (flipped) row of cell `t` -/
def sqCol (k t : ℕ) : ℤ := ((t % k : ℕ) : ℤ)
def sqRow (k t : ℕ) : ℤ := ((k - 1 - t / k : ℕ) : ℤ)

theorem squareRawPt_sub (side : α) (k t₁ t₂ : ℕ) :
    psub (squareRawPt side k t₂) (squareRawPt side k t₁) =
      (side * ((sqCol k t₂ - sqCol k t₁ : ℤ) : α), side * ((sqRow k t₂ - sqRow k t₁ : ℤ) : α)) := by
  simp only [squareRawPt, psub, sqCol, sqRow, Int.cast_sub, Int.cast_natCast]
  ext <;> simp <;> ring

theorem squareRaw_dist2 (side : α) (k t₁ t₂ : ℕ) :
    dist2 (squareRawPt side k t₁) (squareRawPt side k t₂) =
      side * side * (((sqCol k t₂ - sqCol k t₁) * (sqCol k t₂ - sqCol k t₁) +
        (sqRow k t₂ - sqRow k t₁) * (sqRow k t₂ - sqRow k t₁) : ℤ) : α) := by
  rw [dist2_comm]
  simp only [dist2, norm2, squareRawPt_sub]
  push_cast
  ring

/-- different cells have different grid coordinates -/
theorem sq_coords_ne (k t₁ t₂ : ℕ) (h₁ : t₁ < k * k) (h₂ : t₂ < k * k) (hne : t₁ ≠ t₂) :
    sqCol k t₂ - sqCol k t₁ ≠ 0 ∨ sqRow k t₂ - sqRow k t₁ ≠ 0 := by
  by_contra hc
  push Not at hc
  obtain ⟨hc1, hc2⟩ := hc
  have hk : 0 < k := by
    rcases Nat.eq_zero_or_pos k with rfl | h
    · simp at h₁
    · exact h
  have q1 : t₁ / k < k := Nat.div_lt_of_lt_mul h₁
  have q2 : t₂ / k < k := Nat.div_lt_of_lt_mul h₂
  simp only [sqCol, sqRow] at hc1 hc2
  have e1 : t₂ % k = t₁ % k := by omega
  have e2 : t₂ / k = t₁ / k := by omega
  apply hne
  rw [← Nat.div_add_mod t₁ k, ← Nat.div_add_mod t₂ k, e1, e2]

theorem int_sq_sum_pos (a b : ℤ) (h : a ≠ 0 ∨ b ≠ 0) : 1 ≤ a * a + b * b := by
  rcases h with h | h
  · have : 1 ≤ a * a := by
      rcases lt_or_gt_of_ne h with h | h <;> nlinarith
    nlinarith [mul_self_nonneg b]
  · have : 1 ≤ b * b := by
      rcases lt_or_gt_of_ne h with h | h <;> nlinarith
    nlinarith [mul_self_nonneg a]

/-- no two cells of a square grid are closer than one side -/
theorem square_min' (side : α) (k t₁ t₂ : ℕ) (h₁ : t₁ < k * k) (h₂ : t₂ < k * k) (hne : t₁ ≠ t₂) :
    side * side ≤ dist2 (squareRawPt side k t₁) (squareRawPt side k t₂) := by
  rw [squareRaw_dist2]
  have h := int_sq_sum_pos _ _ (sq_coords_ne k t₁ t₂ h₁ h₂ hne)
  have hc : (1 : α) ≤ (((sqCol k t₂ - sqCol k t₁) * (sqCol k t₂ - sqCol k t₁) +
        (sqRow k t₂ - sqRow k t₁) * (sqRow k t₂ - sqRow k t₁) : ℤ) : α) := by exact_mod_cast h
  have hs : 0 ≤ side * side := mul_self_nonneg side
  nlinarith

/-- the right-hand neighbour in the same row is exactly one side away -/
theorem square_adjacent_h' (side : α) (k t : ℕ) (hk : 0 < k) (hrow : (t + 1) % k ≠ 0) :
    dist2 (squareRawPt side k t) (squareRawPt side k (t + 1)) = side * side := by
  have hr : t % k < k := Nat.mod_lt _ hk
  have hr1 : t % k + 1 < k := by
    by_contra hc
    have hrk : t % k + 1 = k := by omega
    apply hrow
    have e : t + 1 = k * (t / k + 1) := by
      have hdm := Nat.div_add_mod t k
      calc t + 1 = k * (t / k) + (t % k + 1) := by omega
        _ = k * (t / k) + k := by rw [hrk]
        _ = k * (t / k + 1) := by ring
    rw [e]; exact Nat.mul_mod_right _ _
  have hdm : (t + 1) / k = t / k ∧ (t + 1) % k = t % k + 1 := by
    rw [Nat.div_mod_unique hk]
    refine ⟨?_, hr1⟩
    have := Nat.div_add_mod t k
    omega
  rw [squareRaw_dist2]
  simp only [sqCol, sqRow, hdm.1, hdm.2]
  push_cast
  ring

/-- the neighbour one row further is exactly one side away -/
theorem square_adjacent_v' (side : α) (k t : ℕ) (hk : 0 < k) (h : t + k < k * k) :
    dist2 (squareRawPt side k t) (squareRawPt side k (t + k)) = side * side := by
  have hq : (t + k) / k = t / k + 1 := Nat.add_div_right t hk
  have hm : (t + k) % k = t % k := Nat.add_mod_right t k
  have hlt : t / k + 1 < k := by
    have := Nat.div_lt_of_lt_mul h
    omega
  rw [squareRaw_dist2]
  simp only [sqCol, sqRow, hq, hm]
  have e : ((k - 1 - (t / k + 1) : ℕ) : ℤ) = ((k - 1 - t / k : ℕ) : ℤ) - 1 := by omega
  rw [e]
  push_cast
  ring

theorem squareRaw_ok (side : α) (k : ℕ) :
    squareRaw side (k * k) = .ok ((List.range (k * k)).map (squareRawPt side k)) := by
  simp only [squareRaw, Nat.sqrt_eq, if_true]

theorem squareRaw_error (side : α) (n : ℕ) (h : ¬ ∃ k, k * k = n) :
    squareRaw side n = .error .ValueError := by
  simp only [squareRaw]
  rw [if_neg]
  intro hc
  exact h ⟨_, hc⟩

/-! ### the square cell and separating lines -/

theorem squareCell_verts (side : α) (hs : 0 ≤ side) (c : Pt α) :
    rectVerts (squareCell side c) =
      [(-(side / 2), -(side / 2)), (side / 2, -(side / 2)), (side / 2, side / 2), (-(side / 2), side / 2)] := by
  have h2 : 0 ≤ side / 2 := by positivity
  have m1 : ∀ x : α, pmin (x - side / 2) (x + side / 2) = x - side / 2 := by
    intro x; unfold pmin; rw [if_neg]; push Not; linarith
  have m2 : ∀ x : α, pmax (x - side / 2) (x + side / 2) = x + side / 2 := by
    intro x; unfold pmax
    split_ifs with h
    · rfl
    · push Not at h; linarith
  simp only [rectVerts, squareCell, mkSquare, mkRect, psub, Nat.cast_ofNat, m1, m2]
  simp

/-- two translates of the same rotated square whose centres are at least one side apart along
    one of the square's axes are separated by a line -/
theorem square_sep (side : α) (hs : 0 ≤ side) (u : Pt α) (hu : norm2 u = 1) (ci cj e : Pt α)
    (he : e = (1, 0) ∨ e = (-1, 0) ∨ e = (0, 1) ∨ e = (0, -1))
    (h : side ≤ dot (rot u e) (psub cj ci)) :
    Separated (squareCellVerts side u ci) (squareCellVerts side u cj) := by
  have hn : norm2 e = 1 := by
    rcases he with rfl | rfl | rfl | rfl <;> simp [norm2]
  have hsup : ∀ v ∈ ([(-(side / 2), -(side / 2)), (side / 2, -(side / 2)), (side / 2, side / 2),
      (-(side / 2), side / 2)] : List (Pt α)), dot e v ≤ side / 2 ∧ -(side / 2) ≤ dot e v := by
    intro v hv
    simp only [List.mem_cons, List.not_mem_nil, or_false] at hv
    rcases hv with rfl | rfl | rfl | rfl <;> rcases he with rfl | rfl | rfl | rfl <;>
      simp only [dot] <;> constructor <;> linarith
  refine ⟨rot u e, dot (rot u e) ci + side / 2, ?_, ?_, ?_⟩
  · rw [norm2_rot, hu, hn]; simp
  · intro a ha
    simp only [squareCellVerts, place, List.mem_map] at ha
    obtain ⟨v, hv, rfl⟩ := ha
    rw [squareCell_verts side hs] at hv
    have hs' := (hsup v hv).1
    have : dot (rot u e) (padd ci (rot u v)) = dot (rot u e) ci + dot (rot u e) (rot u v) := by
      simp only [dot, padd]; ring
    rw [this, dot_rot, hu, one_mul]
    linarith
  · intro b hb
    simp only [squareCellVerts, place, List.mem_map] at hb
    obtain ⟨w, hw, rfl⟩ := hb
    rw [squareCell_verts side hs] at hw
    have hs' := (hsup w hw).2
    have e1 : dot (rot u e) (padd cj (rot u w)) = dot (rot u e) cj + dot (rot u e) (rot u w) := by
      simp only [dot, padd]; ring
    have e2 : dot (rot u e) (psub cj ci) = dot (rot u e) cj - dot (rot u e) ci := by
      simp only [dot, psub]; ring
    rw [e1, dot_rot, hu, one_mul]
    rw [e2] at h
    linarith

/-- for two different cells some axis direction has the centres at least one side apart -/
theorem square_axis (side : α) (hs : 0 ≤ side) (k t₁ t₂ : ℕ) (h₁ : t₁ < k * k) (h₂ : t₂ < k * k)
    (hne : t₁ ≠ t₂) :
    ∃ e : Pt α, (e = (1, 0) ∨ e = (-1, 0) ∨ e = (0, 1) ∨ e = (0, -1)) ∧
      side ≤ dot e (psub (squareRawPt side k t₂) (squareRawPt side k t₁)) := by
  rw [squareRawPt_sub]
  have key : ∀ z : ℤ, 1 ≤ z → side ≤ side * ((z : ℤ) : α) := by
    intro z hz
    have : (1 : α) ≤ ((z : ℤ) : α) := by exact_mod_cast hz
    nlinarith
  have keyn : ∀ z : ℤ, z ≤ -1 → side ≤ -(side * ((z : ℤ) : α)) := by
    intro z hz
    have : ((z : ℤ) : α) ≤ -1 := by exact_mod_cast hz
    nlinarith
  rcases sq_coords_ne k t₁ t₂ h₁ h₂ hne with h | h
  · rcases lt_or_gt_of_ne h with h | h
    · exact ⟨(-1, 0), by simp, by simp only [dot]; have := keyn _ (by omega : sqCol k t₂ - sqCol k t₁ ≤ -1); linarith⟩
    · exact ⟨(1, 0), by simp, by simp only [dot]; have := key _ (by omega : 1 ≤ sqCol k t₂ - sqCol k t₁); linarith⟩
  · rcases lt_or_gt_of_ne h with h | h
    · exact ⟨(0, -1), by simp, by simp only [dot]; have := keyn _ (by omega : sqRow k t₂ - sqRow k t₁ ≤ -1); linarith⟩
    · exact ⟨(0, 1), by simp, by simp only [dot]; have := key _ (by omega : 1 ≤ sqRow k t₂ - sqRow k t₁); linarith⟩
end field

end PyPhysim.C19
