import PyPhysim.Model.C08
/-
C08 — helper definitions and lemmas: the first-principles views (`spec…`), the
coherence invariant of the cache state machine and its preservation by every
operation, the block/slice index lemmas.  No Mathlib needed.
-/
set_option linter.unusedSimpArgs false
set_option linter.unusedSectionVars false
namespace PyPhysim.C08

section Lists
variable {β γ δ : Type}

theorem cum_zero (ns : List Nat) : cum ns 0 = 0 := by simp [cum]

theorem cum_cons_succ (n : Nat) (ns : List Nat) (k : Nat) : cum (n :: ns) (k + 1) = n + cum ns k := by
  simp [cum]

theorem cum_succ {ns : List Nat} {k n : Nat} (h : ns[k]? = some n) : cum ns (k + 1) = cum ns k + n := by
  induction ns generalizing k with
  | nil => simp at h
  | cons m ns ih =>
    cases k with
    | zero => simp at h; simp [cum, h]
    | succ k =>
      simp at h
      rw [cum_cons_succ, cum_cons_succ, ih h]; omega

theorem seg_map (f : β → γ) (ns : List Nat) (l : List β) (k : Nat) :
    seg ns (l.map f) k = (seg ns l k).map f := by
  simp [seg, slice]

theorem seg_zipWith (f : β → γ → δ) (ns : List Nat) (a : List β) (b : List γ) (k : Nat) :
    seg ns (List.zipWith f a b) k = List.zipWith f (seg ns a k) (seg ns b k) := by
  simp [seg, slice, List.take_zipWith, List.drop_zipWith]

theorem seg_length_le {ns : List Nat} {k n : Nat} (h : ns[k]? = some n) (l : List β) :
    (seg ns l k).length ≤ n := by
  simp [seg, slice, cum_succ h]; omega

theorem seg_cons_succ (n : Nat) (ns : List Nat) (l₁ l₂ : List β) (k : Nat) (h : l₁.length = n) :
    seg (n :: ns) (l₁ ++ l₂) (k + 1) = seg ns l₂ k := by
  simp only [seg, slice, cum_cons_succ]
  rw [List.drop_append, ]
  have : n + cum ns k - l₁.length = cum ns k := by omega
  have h2 : List.drop (n + cum ns k) l₁ = [] := by
    apply List.drop_eq_nil_of_le; omega
  rw [h2, this]
  simp
  congr 1; omega

theorem seg_expand1 {ps : List β} {ns : List Nat} {k n : Nat} {p : β}
    (hp : ps[k]? = some p) (hn : ns[k]? = some n) :
    seg ns (expand1 ps ns) k = List.replicate n p := by
  induction k generalizing ps ns with
  | zero =>
    cases ps with
    | nil => simp at hp
    | cons p' ps =>
      cases ns with
      | nil => simp at hn
      | cons n' ns =>
        simp at hp hn; subst hp; subst hn
        simp [seg, slice, expand1, cum]
  | succ k ih =>
    cases ps with
    | nil => simp at hp
    | cons p' ps =>
      cases ns with
      | nil => simp at hn
      | cons n' ns =>
        simp at hp hn
        have : expand1 (p' :: ps) (n' :: ns) = List.replicate n' p' ++ expand1 ps ns := by
          simp [expand1]
        rw [this, seg_cons_succ _ _ _ _ _ (by simp)]
        exact ih hp hn

theorem zipWith_replicate_right (f : β → γ → δ) (xs : List β) (n : Nat) (q : γ) (h : xs.length ≤ n) :
    List.zipWith f xs (List.replicate n q) = xs.map (fun x => f x q) := by
  induction xs generalizing n with
  | nil => simp
  | cons x xs ih =>
    cases n with
    | zero => simp at h
    | succ n =>
      simp [List.replicate_succ]
      exact ih n (by simpa using h)
end Lists

section Blocks
variable {α : Type}

theorem block_expand {p : Mat α} {nr nt : List Nat} {k l a b : Nat} {prow : List α} {q : α}
    (hp : p[k]? = some prow) (hq : prow[l]? = some q) (ha : nr[k]? = some a) (hb : nt[l]? = some b) :
    block (expand p nr nt) nr nt k l = List.replicate a (List.replicate b q) := by
  unfold block rowBlock colBlock expand
  rw [seg_expand1 (p := expand1 prow nt) (by simp [hp]) ha]
  simp [seg_expand1 hq hb]

variable [Add α] [Mul α] [Zero α]

theorem block_scaleEl (s : α → α) (A P : Mat α) (nr nt : List Nat) (k l : Nat) :
    block (scaleEl s A P) nr nt k l = scaleEl s (block A nr nt k l) (block P nr nt k l) := by
  unfold block rowBlock colBlock scaleEl
  rw [seg_zipWith, List.map_zipWith, List.zipWith_map]
  congr 1
  funext ra rp
  rw [seg_zipWith]

theorem scaleEl_replicate (s : α → α) (B : Mat α) (a b : Nat) (q : α)
    (ha : B.length ≤ a) (hb : ∀ r ∈ B, r.length ≤ b) :
    scaleEl s B (List.replicate a (List.replicate b q)) = scaleBy s B q := by
  unfold scaleEl scaleBy
  rw [zipWith_replicate_right _ _ _ _ ha]
  apply List.map_congr_left
  intro r hr
  exact zipWith_replicate_right _ _ _ _ (hb r hr)

theorem block_rows_le {nr nt : List Nat} {k l a b : Nat} (M : Mat α)
    (ha : nr[k]? = some a) (hb : nt[l]? = some b) :
    (block M nr nt k l).length ≤ a ∧ ∀ r ∈ block M nr nt k l, r.length ≤ b := by
  unfold block rowBlock colBlock
  refine ⟨by simpa using seg_length_le ha M, ?_⟩
  intro r hr
  simp at hr
  obtain ⟨r', _, rfl⟩ := hr
  exact seg_length_le hb r'

/-- the (k,l) block of `raw * sqrt(expand p)` is the raw block times `sqrt p[k][l]` -/
theorem block_scaled (s : α → α) (raw p : Mat α) {nr nt : List Nat} {k l a b : Nat} {prow : List α} {q : α}
    (hp : p[k]? = some prow) (hq : prow[l]? = some q) (ha : nr[k]? = some a) (hb : nt[l]? = some b) :
    block (scaleEl s raw (expand p nr nt)) nr nt k l = scaleBy s (block raw nr nt k l) q := by
  rw [block_scaleEl, block_expand hp hq ha hb]
  exact scaleEl_replicate s _ a b q (block_rows_le raw ha hb).1 (block_rows_le raw ha hb).2

end Blocks


section Machine
variable {α : Type} [Add α] [Mul α] [Zero α]

def specBigH (F : Fns α) (st : State α) : Mat α :=
  match st.pl with
  | none => st.raw
  | some p => scaleEl F.sqrt st.raw (expand p st.nr st.nt)

def specHFull (F : Fns α) (st : State α) : MoM α :=
  match st.pl with
  | none => st.hNoPL
  | some p => scaleMom F.sqrt st.hNoPL p

def specH (F : Fns α) (st : State α) : MoM α :=
  if st.isExt then
    match st.pl with
    | none => st.hNoPL.take st.userK
    | some p => scaleMom F.sqrt (st.hNoPL.take st.userK) p
  else specHFull F st

def specBigW (st : State α) : Option (Mat α) := st.w.map blockDiag

structure Coherent (F : Fns α) (st : State α) : Prop where
  plBig : st.plBig = st.pl.map fun p => expand p st.nr st.nt
  bigH : ∀ M, st.bigHc = some M → M = specBigH F st
  h : ∀ H, st.hc = some H → H = specHFull F st
  bigW : ∀ B, st.bigWc = some B → ∃ ws, st.w = some ws ∧ blockDiag ws = B

theorem coherent_init (F : Fns α) (e : Bool) : Coherent F (State.init α e) := by
  constructor <;> simp [State.init]

theorem install_coherent (F : Fns α) (st : State α) (M : Mat α) (nr nt : List Nat) (K : Nat)
    (h : Coherent F st) : Coherent F (install Cfg.fixed st M nr nt K) := by
  unfold install
  simp only [Cfg.fixed, if_true]
  cases hp : st.pl with
  | none =>
    constructor <;> simp
    exact h.bigW
  | some p =>
    simp only
    split
    · constructor <;> simp [hp]
      exact h.bigW
    · constructor <;> simp
      exact h.bigW

theorem extK_coherent (F : Fns α) (st : State α) (e : Nat) (h : Coherent F st) :
    Coherent F { st with extK := e } := by
  constructor
  · exact h.plBig
  · exact h.bigH
  · exact h.h
  · exact h.bigW

theorem doInit_coherent (F : Fns α) (st : State α) (M : Mat α) (nr nt : List Nat) (K : Nat) (ntE : List Nat)
    (h : Coherent F st) : Coherent F (doInit Cfg.fixed st M nr nt K ntE).1 := by
  unfold doInit
  simp only
  split
  · exact install_coherent F _ M _ _ _ (extK_coherent F st _ h)
  · exact h

theorem doRandomize_coherent (F : Fns α) (st : State α) (M : Mat α) (nr nt : List Nat) (K : Nat)
    (ntE : List Nat) (h : Coherent F st) : Coherent F (doRandomize Cfg.fixed st M nr nt K ntE).1 := by
  unfold doRandomize
  exact install_coherent F _ M _ _ _ (extK_coherent F st _ h)

theorem doSetPL_coherent (F : Fns α) (st : State α) (p : Option (Mat α)) (pe : Mat α)
    (h : Coherent F st) : Coherent F (doSetPL Cfg.fixed st p pe) := by
  unfold doSetPL
  simp only [Cfg.fixed, if_true]
  split <;> cases p <;> (constructor <;> simp) <;> exact h.bigW

theorem doSetNoise_coherent (F : Fns α) (st : State α) (v : Option α)
    (h : Coherent F st) : Coherent F (doSetNoise F st v).1 := by
  unfold doSetNoise
  cases v with
  | none => exact ⟨h.plBig, h.bigH, h.h, h.bigW⟩
  | some x =>
    simp only
    split
    · exact ⟨h.plBig, h.bigH, h.h, h.bigW⟩
    · exact h

theorem setW_coherent (F : Fns α) (st : State α) (w : Option (List (Mat α)))
    (h : Coherent F st) : Coherent F { st with w := w, bigWc := none } := by
  constructor
  · exact h.plBig
  · exact h.bigH
  · exact h.h
  · simp

/-- reading `H`: returns the recomputed view, keeps the state coherent, changes no input of a view -/
theorem readH_spec (F : Fns α) (st : State α) (h : Coherent F st) :
    (readH F st).2 = specH F st ∧ Coherent F (readH F st).1 := by
  unfold readH specH
  split
  · cases hp : st.pl <;> simp [h]
  · cases hp : st.pl with
    | none => simp [specHFull, hp, h]
    | some p =>
      simp only
      cases hc : st.hc with
      | some H => simp [h]; rw [h.h H hc]
      | none =>
        simp [specHFull, hp]
        constructor
        · simpa [hp] using h.plBig
        · simpa [specBigH, hp] using h.bigH
        · simp [specHFull, State.hNoPL]
        · exact h.bigW

theorem readBigH_spec (F : Fns α) (st : State α) (h : Coherent F st) :
    (readBigH F st).2 = .ok (specBigH F st) ∧ Coherent F (readBigH F st).1 := by
  unfold readBigH
  cases hp : st.pl with
  | none => simp [specBigH, hp, h]
  | some p =>
    simp only
    cases hc : st.bigHc with
    | some M => simp [h]; rw [h.bigH M hc]
    | none =>
      have hb := h.plBig
      rw [hp] at hb
      simp at hb
      simp [hb, specBigH, hp]
      constructor
      · simp
      · simp [specBigH]
      · simpa [specHFull, hp, State.hNoPL] using h.h
      · exact h.bigW

theorem readBigW_spec (F : Fns α) (st : State α) (h : Coherent F st) :
    (readBigW st).2 = specBigW st ∧ Coherent F (readBigW st).1 := by
  unfold readBigW specBigW
  cases hc : st.bigWc with
  | some B =>
    obtain ⟨ws, hw, hB⟩ := h.bigW B hc
    simp [hw, hB, h]
  | none =>
    cases hw : st.w with
    | none => simp [h]
    | some ws =>
      simp
      exact ⟨h.plBig, h.bigH, h.h, by simp [hw]⟩


/-- received signal as the property states it: current global matrix times the stacked data, plus the noise
    that is reported, filtered by the current filters, split by the receive antenna counts -/
def specReceived (F : Fns α) (st : State α) (x xe : List (Mat α)) (noise : Option (Mat α)) : List (Mat α) :=
  let X : Mat α := (if st.isExt then x ++ xe else x).flatten
  let y0 := matMul (specBigH F st) X
  let y1 := match st.noiseVar, noise with
    | some _, some n => matAdd y0 n
    | _, _ => y0
  let y2 := match st.w with
    | some ws => conjTMul F.conj (blockDiag ws) y1
    | none => y1
  (List.range st.userK).map fun k => seg st.nr y2 k

/-- the noise that must be reported after a transmission -/
def specLastNoise (st : State α) (noise : Option (Mat α)) : Option (Mat α) :=
  match st.noiseVar with
  | none => none
  | some _ => noise

theorem readBigH_frame (F : Fns α) (st : State α) : ∃ c, (readBigH F st).1 = { st with bigHc := c } := by
  refine ⟨(readBigH F st).1.bigHc, ?_⟩
  unfold readBigH
  split
  · rfl
  · split
    · rfl
    · split <;> rfl

theorem readH_frame (F : Fns α) (st : State α) : ∃ c, (readH F st).1 = { st with hc := c } := by
  refine ⟨(readH F st).1.hc, ?_⟩
  unfold readH
  split
  · split <;> rfl
  · split
    · rfl
    · split <;> rfl

theorem readBigW_frame (st : State α) : ∃ c, (readBigW st).1 = { st with bigWc := c } := by
  refine ⟨(readBigW st).1.bigWc, ?_⟩
  unfold readBigW
  split <;> rfl

theorem coherent_lastNoise (F : Fns α) (st : State α) (nv : Option α) (ln : Option (Mat α))
    (h : Coherent F st) :
    Coherent F { st with noiseVar := nv, lastNoise := ln } := ⟨h.plBig, h.bigH, h.h, h.bigW⟩

theorem finishCorrupt_spec (F : Fns α) (st2 : State α) (y1 : Mat α) (ln : Option (Mat α))
    (h : Coherent F st2) :
    (finishCorrupt F st2 y1 ln).2 = .rx ((List.range st2.userK).map fun k => seg st2.nr
          (match st2.w with | some ws => conjTMul F.conj (blockDiag ws) y1 | none => y1) k) ln
    ∧ (finishCorrupt F st2 y1 ln).1.lastNoise = st2.lastNoise
    ∧ Coherent F (finishCorrupt F st2 y1 ln).1 := by
  obtain ⟨hw, hcw⟩ := readBigW_spec F st2 h
  obtain ⟨c', hfw⟩ := readBigW_frame st2
  have hrw : readBigW st2 = ({ st2 with bigWc := c' }, specBigW st2) := Prod.ext hfw hw
  rw [hfw] at hcw
  unfold finishCorrupt
  rw [hrw]
  refine ⟨?_, rfl, hcw⟩
  simp only [specBigW, State.userK]
  cases st2.w <;> rfl

theorem doCorrupt_spec (F : Fns α) (st : State α) (x xe : List (Mat α)) (noise : Option (Mat α))
    (h : Coherent F st) (hn : st.noiseVar.isSome → noise.isSome) :
    (doCorrupt F st x xe noise).2 = .rx (specReceived F st x xe noise) (specLastNoise st noise)
    ∧ (doCorrupt F st x xe noise).1.lastNoise = specLastNoise st noise
    ∧ Coherent F (doCorrupt F st x xe noise).1 := by
  obtain ⟨hout, hco⟩ := readBigH_spec F st h
  obtain ⟨c, hfr⟩ := readBigH_frame F st
  have hrb : readBigH F st = ({ st with bigHc := c }, .ok (specBigH F st)) := Prod.ext hfr hout
  rw [hfr] at hco
  unfold doCorrupt
  simp only [hrb]
  cases hv : st.noiseVar with
  | none =>
    simp only [specReceived, specLastNoise, hv]
    exact finishCorrupt_spec F _ _ none (coherent_lastNoise F _ none none hco)
  | some v =>
    cases noise with
    | none => simp [hv] at hn
    | some n =>
      simp only [specReceived, specLastNoise, hv]
      exact finishCorrupt_spec F _ _ (some n) (coherent_lastNoise F _ (some v) (some n) hco)


/-- what `corrupt_concatenated_data` must return: `W^H (big_H X + noise)`, not split -/
def specReceivedCat (F : Fns α) (st : State α) (X : Mat α) (noise : Option (Mat α)) : Mat α :=
  let y0 := matMul (specBigH F st) X
  let y1 := match st.noiseVar, noise with
    | some _, some n => matAdd y0 n
    | _, _ => y0
  match st.w with
  | some ws => conjTMul F.conj (blockDiag ws) y1
  | none => y1

theorem finishCat_spec (F : Fns α) (st2 : State α) (y1 : Mat α) (ln : Option (Mat α))
    (h : Coherent F st2) :
    (finishCat F st2 y1 ln).2
        = .rx [match st2.w with | some ws => conjTMul F.conj (blockDiag ws) y1 | none => y1] ln
    ∧ (finishCat F st2 y1 ln).1.lastNoise = st2.lastNoise
    ∧ Coherent F (finishCat F st2 y1 ln).1 := by
  obtain ⟨hw, hcw⟩ := readBigW_spec F st2 h
  obtain ⟨c', hfw⟩ := readBigW_frame st2
  have hrw : readBigW st2 = ({ st2 with bigWc := c' }, specBigW st2) := Prod.ext hfw hw
  rw [hfw] at hcw
  unfold finishCat
  rw [hrw]
  refine ⟨?_, rfl, hcw⟩
  simp only [specBigW]
  cases st2.w <;> rfl

theorem doCorruptCat_spec (F : Fns α) (st : State α) (X : Mat α) (noise : Option (Mat α))
    (h : Coherent F st) (hn : st.noiseVar.isSome → noise.isSome) :
    (doCorruptCat F st X noise).2 = .rx [specReceivedCat F st X noise] (specLastNoise st noise)
    ∧ (doCorruptCat F st X noise).1.lastNoise = specLastNoise st noise
    ∧ Coherent F (doCorruptCat F st X noise).1 := by
  obtain ⟨hout, hco⟩ := readBigH_spec F st h
  obtain ⟨c, hfr⟩ := readBigH_frame F st
  have hrb : readBigH F st = ({ st with bigHc := c }, .ok (specBigH F st)) := Prod.ext hfr hout
  rw [hfr] at hco
  unfold doCorruptCat
  simp only [hrb]
  cases hv : st.noiseVar with
  | none =>
    simp only [specReceivedCat, specLastNoise, hv]
    exact finishCat_spec F _ _ none (coherent_lastNoise F _ none none hco)
  | some v =>
    cases noise with
    | none => simp [hv] at hn
    | some n =>
      simp only [specReceivedCat, specLastNoise, hv]
      exact finishCat_spec F _ _ (some n) (coherent_lastNoise F _ (some v) (some n) hco)

theorem doCorruptCat_coherent (F : Fns α) (st : State α) (X : Mat α) (noise : Option (Mat α))
    (h : Coherent F st) : Coherent F (doCorruptCat F st X noise).1 := by
  by_cases hn : st.noiseVar.isSome → noise.isSome
  · exact (doCorruptCat_spec F st X noise h hn).2.2
  · have hB := (readBigH_spec F st h).2
    obtain ⟨c, hfr⟩ := readBigH_frame F st
    have hrb : readBigH F st = ({ st with bigHc := c }, .ok (specBigH F st)) :=
      Prod.ext hfr (readBigH_spec F st h).1
    rw [hfr] at hB
    unfold doCorruptCat
    simp only [hrb]
    cases hv : st.noiseVar with
    | none => simp [hv] at hn
    | some v =>
      cases noise with
      | some n => simp at hn
      | none => simpa [hv] using hB

/-! ### every operation keeps the caches coherent -/

theorem step_coherent (F : Fns α) (st : State α) (op : Op α) (h : Coherent F st) :
    Coherent F (step Cfg.fixed F st op).1 := by
  have hB := (readBigH_spec F st h).2
  have hH := (readH_spec F st h).2
  cases op with
  | init M nr nt K ntE => exact doInit_coherent F st M nr nt K ntE h
  | randomize M nr nt K ntE =>
    show Coherent F (match randCheck Cfg.fixed st.isExt nr nt K ntE with
      | some e => (st, Out.err e) | none => doRandomize Cfg.fixed st M nr nt K ntE).1
    split
    · exact h
    · exact doRandomize_coherent F st M nr nt K ntE h
  | setPL p pe =>
    show Coherent F (match setPLCheck Cfg.fixed st p pe with
      | some e => (st, Out.err e) | none => (doSetPL Cfg.fixed st p pe, Out.unit)).1
    split
    · exact h
    · exact doSetPL_coherent F st p pe h
  | setNoise v => exact doSetNoise_coherent F st v h
  | setW w => exact setW_coherent F st w h
  | readLayout => exact h
  | query => exact h
  | stackData x xe => exact h
  | readPL => exact h
  | readNoiseVar => exact h
  | readLastNoise => exact h
  | readBigWView => exact (readBigW_spec F st h).2
  | corruptCat X noise => exact doCorruptCat_coherent F st X noise h
  | readH => exact hH
  | readBigH =>
    show Coherent F (match readBigH F st with
      | (st1, .ok M) => (st1, Out.mat M) | (st1, .error e) => (st1, Out.err e)).1
    rcases hr : readBigH F st with ⟨st1, (e | M)⟩ <;> (rw [hr] at hB; exact hB)
  | readHkl k l => exact hH
  | readHk k =>
    show Coherent F (match readBigH F st with
      | (st1, .ok M) => (st1, getD1 (rowSplit M st1.nrU) k) | (st1, .error e) => (st1, Out.err e)).1
    rcases hr : readBigH F st with ⟨st1, (e | M)⟩ <;> (rw [hr] at hB; exact hB)
  | readBigHNoExt =>
    show Coherent F (if st.isExt then
      (match readBigH F st with
        | (st1, .ok M) => (st1, Out.mat (takeCols M st1.ntU.sum)) | (st1, .error e) => (st1, Out.err e))
      else (st, Out.err .AttributeError)).1
    split
    · rcases hr : readBigH F st with ⟨st1, (e | M)⟩ <;> (rw [hr] at hB; exact hB)
    · exact h
  | readHkNoExt k =>
    show Coherent F (if st.isExt then
      (match readBigH F st with
        | (st1, .ok M) => (st1, getD1 (rowSplit (takeCols M st1.ntU.sum) st1.nrU) k)
        | (st1, .error e) => (st1, Out.err e))
      else (st, Out.err .AttributeError)).1
    split
    · rcases hr : readBigH F st with ⟨st1, (e | M)⟩ <;> (rw [hr] at hB; exact hB)
    · exact h
  | readHNoExt =>
    unfold step
    simp only [Cfg.fixed, if_true]
    split
    · exact hH
    · exact h
  | corrupt x xe noise =>
    show Coherent F (doCorrupt F st x xe noise).1
    -- also for a noise argument that breaks the contract: the state is then the one after reading big_H
    by_cases hn : st.noiseVar.isSome → noise.isSome
    · exact (doCorrupt_spec F st x xe noise h hn).2.2
    · obtain ⟨c, hfr⟩ := readBigH_frame F st
      have hrb : readBigH F st = ({ st with bigHc := c }, .ok (specBigH F st)) :=
        Prod.ext hfr (readBigH_spec F st h).1
      rw [hfr] at hB
      unfold doCorrupt
      simp only [hrb]
      cases hv : st.noiseVar with
      | none => simp [hv] at hn
      | some v =>
        cases noise with
        | some n => simp at hn
        | none => simpa [hv] using hB

theorem run_coherent (F : Fns α) (ops : List (Op α)) (st : State α) (h : Coherent F st) :
    Coherent F (run Cfg.fixed F st ops).1 := by
  induction ops generalizing st with
  | nil => exact h
  | cons op ops ih =>
    show Coherent F (run Cfg.fixed F (step Cfg.fixed F st op).1 ops).1
    exact ih _ (step_coherent F st op h)


/-! ### what every read returns in a coherent state -/

theorem out_readBigH (F : Fns α) (st : State α) (h : Coherent F st) :
    (step Cfg.fixed F st .readBigH).2 = .mat (specBigH F st) := by
  show (match readBigH F st with
      | (st1, .ok M) => (st1, Out.mat M) | (st1, .error e) => (st1, Out.err e)).2 = _
  have := (readBigH_spec F st h).1
  rcases hr : readBigH F st with ⟨st1, (e | M)⟩ <;> simp_all

theorem out_readH (F : Fns α) (st : State α) (h : Coherent F st) :
    (step Cfg.fixed F st .readH).2 = .mom (specH F st) := by
  show Out.mom (readH F st).2 = _
  rw [(readH_spec F st h).1]

theorem out_readHkl (F : Fns α) (st : State α) (k l : Nat) (h : Coherent F st) :
    (step Cfg.fixed F st (.readHkl k l)).2 = getD2 (specH F st) k l := by
  show getD2 (readH F st).2 k l = _
  rw [(readH_spec F st h).1]

theorem nrU_frame_bigHc (st : State α) (c : Option (Mat α)) :
    ({ st with bigHc := c } : State α).nrU = st.nrU ∧ ({ st with bigHc := c } : State α).ntU = st.ntU :=
  ⟨rfl, rfl⟩

theorem out_readHk (F : Fns α) (st : State α) (k : Nat) (h : Coherent F st) :
    (step Cfg.fixed F st (.readHk k)).2 = getD1 (rowSplit (specBigH F st) st.nrU) k := by
  obtain ⟨c, hfr⟩ := readBigH_frame F st
  have hrb : readBigH F st = ({ st with bigHc := c }, .ok (specBigH F st)) :=
    Prod.ext hfr (readBigH_spec F st h).1
  show (match readBigH F st with
      | (st1, .ok M) => (st1, getD1 (rowSplit M st1.nrU) k) | (st1, .error e) => (st1, Out.err e)).2 = _
  rw [hrb]; rfl

theorem out_readBigHNoExt (F : Fns α) (st : State α) (h : Coherent F st) (he : st.isExt = true) :
    (step Cfg.fixed F st .readBigHNoExt).2 = .mat (takeCols (specBigH F st) st.ntU.sum) := by
  obtain ⟨c, hfr⟩ := readBigH_frame F st
  have hrb : readBigH F st = ({ st with bigHc := c }, .ok (specBigH F st)) :=
    Prod.ext hfr (readBigH_spec F st h).1
  show (if st.isExt then
      (match readBigH F st with
        | (st1, .ok M) => (st1, Out.mat (takeCols M st1.ntU.sum)) | (st1, .error e) => (st1, Out.err e))
      else (st, Out.err .AttributeError)).2 = _
  rw [hrb, if_pos he]; rfl

theorem out_readHkNoExt (F : Fns α) (st : State α) (k : Nat) (h : Coherent F st) (he : st.isExt = true) :
    (step Cfg.fixed F st (.readHkNoExt k)).2
      = getD1 (rowSplit (takeCols (specBigH F st) st.ntU.sum) st.nrU) k := by
  obtain ⟨c, hfr⟩ := readBigH_frame F st
  have hrb : readBigH F st = ({ st with bigHc := c }, .ok (specBigH F st)) :=
    Prod.ext hfr (readBigH_spec F st h).1
  show (if st.isExt then
      (match readBigH F st with
        | (st1, .ok M) => (st1, getD1 (rowSplit (takeCols M st1.ntU.sum) st1.nrU) k)
        | (st1, .error e) => (st1, Out.err e))
      else (st, Out.err .AttributeError)).2 = _
  rw [hrb, if_pos he]; rfl

theorem out_readHNoExt (F : Fns α) (st : State α) (h : Coherent F st) (he : st.isExt = true) :
    (step Cfg.fixed F st .readHNoExt).2 = .mom ((specH F st).map fun r => r.take st.userK) := by
  obtain ⟨c, hfr⟩ := readH_frame F st
  have hrb : readH F st = ({ st with hc := c }, specH F st) := Prod.ext hfr (readH_spec F st h).1
  unfold step
  simp only [Cfg.fixed, if_true]
  rw [if_pos he, hrb]
  rfl

theorem out_corrupt (F : Fns α) (st : State α) (x xe : List (Mat α)) (noise : Option (Mat α))
    (h : Coherent F st) (hn : st.noiseVar.isSome → noise.isSome) :
    (step Cfg.fixed F st (.corrupt x xe noise)).2
        = .rx (specReceived F st x xe noise) (specLastNoise st noise)
    ∧ (step Cfg.fixed F st (.corrupt x xe noise)).1.lastNoise = specLastNoise st noise :=
  ⟨(doCorrupt_spec F st x xe noise h hn).1, (doCorrupt_spec F st x xe noise h hn).2.1⟩

/-! ### reads (and transmissions) do not change any view -/

/-- the inputs every view is computed from -/
def SameInputs (a b : State α) : Prop :=
  a.isExt = b.isExt ∧ a.raw = b.raw ∧ a.nr = b.nr ∧ a.nt = b.nt ∧ a.k = b.k ∧ a.extK = b.extK
  ∧ a.pl = b.pl ∧ a.w = b.w ∧ a.noiseVar = b.noiseVar

def Op.isRead : Op α → Bool
  | .readH | .readBigH | .readHkl _ _ | .readHk _ | .readBigHNoExt | .readHkNoExt _ | .readHNoExt => true
  | .corrupt _ _ _ => true
  | .readLayout | .readPL | .readBigWView | .readNoiseVar | .readLastNoise | .corruptCat _ _ => true
  | .stackData _ _ => true
  | .query => true
  | _ => false

theorem sameInputs_spec (F : Fns α) {a b : State α} (h : SameInputs a b) :
    specBigH F a = specBigH F b ∧ specH F a = specH F b ∧ specBigW a = specBigW b := by
  obtain ⟨h1, h2, h3, h4, h5, h6, h7, h8, _⟩ := h
  simp [specBigH, specH, specHFull, specBigW, State.hNoPL, State.userK, h1, h2, h3, h4, h5, h6, h7, h8]

theorem finishCorrupt_same (F : Fns α) (st2 : State α) (y : Mat α) (ln : Option (Mat α)) :
    SameInputs (finishCorrupt F st2 y ln).1 st2 := by
  obtain ⟨c, hc⟩ := readBigW_frame st2
  unfold finishCorrupt
  rw [show readBigW st2 = ({ st2 with bigWc := c }, (readBigW st2).2) from Prod.ext hc rfl]
  exact ⟨rfl, rfl, rfl, rfl, rfl, rfl, rfl, rfl, rfl⟩

theorem finishCat_same (F : Fns α) (st2 : State α) (y : Mat α) (ln : Option (Mat α)) :
    SameInputs (finishCat F st2 y ln).1 st2 := by
  obtain ⟨c, hc⟩ := readBigW_frame st2
  unfold finishCat
  rw [show readBigW st2 = ({ st2 with bigWc := c }, (readBigW st2).2) from Prod.ext hc rfl]
  exact ⟨rfl, rfl, rfl, rfl, rfl, rfl, rfl, rfl, rfl⟩

theorem read_sameInputs (F : Fns α) (st : State α) (op : Op α) (hr : op.isRead = true) :
    SameInputs (step Cfg.fixed F st op).1 st := by
  have triv : SameInputs st st := ⟨rfl, rfl, rfl, rfl, rfl, rfl, rfl, rfl, rfl⟩
  obtain ⟨c, hc⟩ := readBigH_frame F st
  obtain ⟨d, hd⟩ := readH_frame F st
  have hB : SameInputs (readBigH F st).1 st := by rw [hc]; exact ⟨rfl, rfl, rfl, rfl, rfl, rfl, rfl, rfl, rfl⟩
  have hH : SameInputs (readH F st).1 st := by rw [hd]; exact ⟨rfl, rfl, rfl, rfl, rfl, rfl, rfl, rfl, rfl⟩
  cases op with
  | init M nr nt K ntE => simp [Op.isRead] at hr
  | randomize M nr nt K ntE => simp [Op.isRead] at hr
  | setPL p pe => simp [Op.isRead] at hr
  | setNoise v => simp [Op.isRead] at hr
  | setW w => simp [Op.isRead] at hr
  | readH => exact hH
  | readHkl k l => exact hH
  | readBigH =>
    show SameInputs (match readBigH F st with
      | (st1, .ok M) => (st1, Out.mat M) | (st1, .error e) => (st1, Out.err e)).1 st
    rcases hr : readBigH F st with ⟨st1, (e | M)⟩ <;> (rw [hr] at hB; exact hB)
  | readHk k =>
    show SameInputs (match readBigH F st with
      | (st1, .ok M) => (st1, getD1 (rowSplit M st1.nrU) k) | (st1, .error e) => (st1, Out.err e)).1 st
    rcases hr : readBigH F st with ⟨st1, (e | M)⟩ <;> (rw [hr] at hB; exact hB)
  | readBigHNoExt =>
    show SameInputs (if st.isExt then
      (match readBigH F st with
        | (st1, .ok M) => (st1, Out.mat (takeCols M st1.ntU.sum)) | (st1, .error e) => (st1, Out.err e))
      else (st, Out.err .AttributeError)).1 st
    split
    · rcases hr : readBigH F st with ⟨st1, (e | M)⟩ <;> (rw [hr] at hB; exact hB)
    · exact triv
  | readHkNoExt k =>
    show SameInputs (if st.isExt then
      (match readBigH F st with
        | (st1, .ok M) => (st1, getD1 (rowSplit (takeCols M st1.ntU.sum) st1.nrU) k)
        | (st1, .error e) => (st1, Out.err e))
      else (st, Out.err .AttributeError)).1 st
    split
    · rcases hr : readBigH F st with ⟨st1, (e | M)⟩ <;> (rw [hr] at hB; exact hB)
    · exact triv
  | readHNoExt =>
    unfold step
    simp only [Cfg.fixed, if_true]
    split
    · exact hH
    · exact triv
  | corrupt x xe noise =>
    show SameInputs (doCorrupt F st x xe noise).1 st
    unfold doCorrupt
    simp only
    rcases hrb : readBigH F st with ⟨st1, (e | M)⟩
    · rw [hrb] at hB; exact hB
    · rw [hrb] at hB
      simp only
      have tr : ∀ {a b c : State α}, SameInputs a b → SameInputs b c → SameInputs a c := by
        intro a b c ⟨h1, h2, h3, h4, h5, h6, h7, h8, h9⟩ ⟨g1, g2, g3, g4, g5, g6, g7, g8, g9⟩
        exact ⟨h1.trans g1, h2.trans g2, h3.trans g3, h4.trans g4, h5.trans g5, h6.trans g6, h7.trans g7,
          h8.trans g8, h9.trans g9⟩
      split
      · exact tr (finishCorrupt_same F _ _ _) hB
      · exact tr (finishCorrupt_same F _ _ _) hB
      · exact hB
  | readLayout => exact triv
  | query => exact triv
  | stackData x xe => exact triv
  | readPL => exact triv
  | readNoiseVar => exact triv
  | readLastNoise => exact triv
  | readBigWView =>
    obtain ⟨c', hc'⟩ := readBigW_frame st
    show SameInputs (readBigW st).1 st
    rw [hc']; exact ⟨rfl, rfl, rfl, rfl, rfl, rfl, rfl, rfl, rfl⟩
  | corruptCat X noise =>
    show SameInputs (doCorruptCat F st X noise).1 st
    unfold doCorruptCat
    simp only
    rcases hrb : readBigH F st with ⟨st1, (e | M)⟩
    · rw [hrb] at hB; exact hB
    · rw [hrb] at hB
      simp only
      have tr : ∀ {a b c : State α}, SameInputs a b → SameInputs b c → SameInputs a c := by
        intro a b c ⟨h1, h2, h3, h4, h5, h6, h7, h8, h9⟩ ⟨g1, g2, g3, g4, g5, g6, g7, g8, g9⟩
        exact ⟨h1.trans g1, h2.trans g2, h3.trans g3, h4.trans g4, h5.trans g5, h6.trans g6, h7.trans g7,
          h8.trans g8, h9.trans g9⟩
      split
      · exact tr (finishCat_same F _ _ _) hB
      · exact tr (finishCat_same F _ _ _) hB
      · exact hB


/-! ### shapes: the documented argument shapes are an invariant -/

/-- the layout lists have `_K` entries, the stored path loss is `K x _K` -/
structure WellShaped (st : State α) : Prop where
  nr_len : st.nr.length = st.k
  nt_len : st.nt.length = st.k
  ext_le : st.isExt = true → st.extK ≤ st.k
  ext_pos : st.isExt = true → st.k = 0 ∨ 1 ≤ st.extK
  pl_rows : ∀ p, st.pl = some p → p.length = st.userK ∧ ∀ (i : Nat) (row : List α), p[i]? = some row → row.length = st.k

/-- argument shapes the API documents (nothing in the code checks them, except in
    `init_from_channel_matrix`) -/
def OpOK (st : State α) : Op α → Prop
  | .init _ _ _ _ ntE => st.isExt = true → ntE ≠ []
  | .randomize _ _ _ _ ntE => st.isExt = true → ntE ≠ []
  | .setPL (some p) pe =>
      if st.isExt then
        p.length = st.userK ∧ (∀ (i : Nat) (row : List α), p[i]? = some row → row.length = st.userK)
        ∧ pe.length = st.userK ∧ (∀ (i : Nat) (row : List α), pe[i]? = some row → row.length = st.extK)
      else p.length = st.k ∧ ∀ (i : Nat) (row : List α), p[i]? = some row → row.length = st.k
  | _ => True

/-- every operation of the history has well-shaped arguments at the time it is applied -/
def ValidFrom (F : Fns α) : State α → List (Op α) → Prop
  | _, [] => True
  | st, op :: ops => OpOK st op ∧ ValidFrom F (step Cfg.fixed F st op).1 ops

theorem wellShaped_init (e : Bool) : WellShaped (State.init α e) := by
  constructor <;> simp [State.init]

theorem plFits_iff (p : Mat α) (u k : Nat) :
    plFits p u k = true ↔ p.length = u ∧ ∀ (i : Nat) (row : List α), p[i]? = some row → row.length = k := by
  unfold plFits
  simp only [Bool.and_eq_true, beq_iff_eq, List.all_eq_true]
  constructor
  · rintro ⟨h1, h2⟩
    refine ⟨h1, fun i row hi => h2 row (List.mem_of_getElem? hi)⟩
  · rintro ⟨h1, h2⟩
    refine ⟨h1, fun row hm => ?_⟩
    obtain ⟨i, hi, rfl⟩ := List.getElem_of_mem hm
    exact h2 i _ (List.getElem?_eq_getElem hi)

theorem install_wellShaped (st : State α) (M : Mat α) (nr nt : List Nat) (K : Nat)
    (hnr : nr.length = K) (hnt : nt.length = K)
    (hle : st.isExt = true → st.extK ≤ K) (hpos : st.isExt = true → K = 0 ∨ 1 ≤ st.extK) :
    WellShaped (install Cfg.fixed st M nr nt K) := by
  unfold install
  simp only [Cfg.fixed, if_true]
  cases hp : st.pl with
  | none => constructor <;> simp [hnr, hnt] <;> assumption
  | some p =>
    simp only
    split
    · rename_i hfit
      rw [plFits_iff] at hfit
      constructor <;> simp [hnr, hnt, hp]
      · exact hle
      · exact hpos
      · exact hfit
    · constructor <;> simp [hnr, hnt] <;> assumption


theorem wellShaped_congr {a b : State α} (h1 : a.isExt = b.isExt) (h3 : a.nr = b.nr) (h4 : a.nt = b.nt)
    (h5 : a.k = b.k) (h6 : a.isExt = true → a.extK = b.extK) (h7 : a.pl = b.pl) (hb : WellShaped b) :
    WellShaped a := by
  have hu : a.userK = b.userK := by
    unfold State.userK
    cases he : a.isExt with
    | false => simp [← h1, he, h5]
    | true => simp [← h1, he, h5, h6 he]
  constructor
  · rw [h3, h5]; exact hb.nr_len
  · rw [h4, h5]; exact hb.nt_len
  · intro he; rw [h6 he, h5]; exact hb.ext_le (h1 ▸ he)
  · intro he; rw [h6 he, h5]; exact hb.ext_pos (h1 ▸ he)
  · rw [h7, hu, h5]; exact hb.pl_rows

theorem wellShaped_pl {a b : State α} (h1 : a.isExt = b.isExt) (h3 : a.nr = b.nr) (h4 : a.nt = b.nt)
    (h5 : a.k = b.k) (h6 : a.extK = b.extK) (hb : WellShaped b)
    (hpl : ∀ p, a.pl = some p →
      p.length = b.userK ∧ ∀ (i : Nat) (row : List α), p[i]? = some row → row.length = b.k) :
    WellShaped a := by
  have hu : a.userK = b.userK := by simp [State.userK, h1, h5, h6]
  constructor
  · rw [h3, h5]; exact hb.nr_len
  · rw [h4, h5]; exact hb.nt_len
  · rw [h1, h5, h6]; exact hb.ext_le
  · rw [h1, h5, h6]; exact hb.ext_pos
  · rw [hu, h5]; exact hpl

theorem wellShaped_of_same {a b : State α} (h : SameInputs a b) (hb : WellShaped b) : WellShaped a := by
  obtain ⟨h1, _, h3, h4, h5, h6, h7, _, _⟩ := h
  exact wellShaped_congr h1 h3 h4 h5 (fun _ => h6) h7 hb

theorem initCheck_lens {M : Mat α} {fnr fnt : List Nat} {fK : Nat} (h : initCheck M fnr fnt fK = true) :
    fnr.length = fK ∧ fnt.length = fK := by
  simp [initCheck] at h
  exact ⟨h.2, h.1.2⟩

theorem step_wellShaped (F : Fns α) (st : State α) (op : Op α) (h : WellShaped st) (hok : OpOK st op) :
    WellShaped (step Cfg.fixed F st op).1 := by
  cases op with
  | init M nr nt K ntE =>
    show WellShaped (doInit Cfg.fixed st M nr nt K ntE).1
    simp only [OpOK] at hok
    unfold doInit
    simp only [Cfg.fixed, if_true]
    split
    · rename_i hu
      obtain ⟨h1, h2⟩ := initCheck_lens hu
      refine install_wellShaped _ M _ _ _ h1 h2 ?_ ?_
      · intro he
        have he' : st.isExt = true := he
        simp [fullLayout, he']
      · intro he
        have he' : st.isExt = true := he
        right
        cases ntE with
        | nil => exact absurd rfl (hok he')
        | cons a t => simp [fullLayout, he']
    · exact h
  | randomize M nr nt K ntE =>
    show WellShaped (match randCheck Cfg.fixed st.isExt nr nt K ntE with
      | some e => (st, Out.err e) | none => doRandomize Cfg.fixed st M nr nt K ntE).1
    simp only [OpOK] at hok
    split
    · exact h
    · rename_i hc
      simp only [randCheck, Cfg.fixed, Bool.true_and] at hc
      split at hc
      · simp at hc
      · rename_i hlen
        simp only [Bool.or_eq_true, bne_iff_ne, ne_eq, not_or, Decidable.not_not] at hlen
        unfold doRandomize
        simp only
        refine install_wellShaped _ M _ _ _ hlen.1 hlen.2 ?_ ?_
        · intro he
          have he' : st.isExt = true := he
          simp [fullLayout, he']
        · intro he
          have he' : st.isExt = true := he
          right
          cases ntE with
          | nil => exact absurd rfl (hok he')
          | cons a t => simp [fullLayout, he']
  | setPL p pe =>
    show WellShaped (match setPLCheck Cfg.fixed st p pe with
      | some e => (st, Out.err e) | none => (doSetPL Cfg.fixed st p pe, Out.unit)).1
    split
    · exact h
    show WellShaped (doSetPL Cfg.fixed st p pe)
    unfold doSetPL
    simp only [Cfg.fixed, if_true]
    cases p with
    | none =>
      split <;> exact wellShaped_pl (b := st) rfl rfl rfl rfl rfl h (by intro p hp; simp at hp)
    | some p =>
      by_cases he : st.isExt = true
      · rw [if_pos he]
        simp only [OpOK, he, if_true] at hok
        obtain ⟨hp1, hp2, hq1, hq2⟩ := hok
        have hle := h.ext_le he
        refine wellShaped_pl (b := st) rfl rfl rfl rfl rfl h ?_
        intro q hq
        simp only [Option.some.injEq] at hq
        subst hq
        refine ⟨by simp [hp1, hq1], ?_⟩
        intro i row hi
        rw [List.getElem?_zipWith_eq_some] at hi
        obtain ⟨a, b, ha, hb, rfl⟩ := hi
        have h1 := hp2 i a ha
        have h2 := hq2 i b hb
        simp only [State.userK, he, if_true] at h1
        simp only [List.length_append, h1, h2]
        omega
      · rw [if_neg he]
        have he' : st.isExt = false := by simpa using he
        simp only [OpOK, he', Bool.false_eq_true, if_false] at hok
        refine wellShaped_pl (b := st) rfl rfl rfl rfl rfl h ?_
        intro q hq
        simp only [Option.some.injEq] at hq
        subst hq
        refine ⟨?_, hok.2⟩
        simp only [State.userK, he', Bool.false_eq_true, if_false]
        exact hok.1
  | setNoise v =>
    show WellShaped (doSetNoise F st v).1
    unfold doSetNoise
    cases v with
    | none => exact ⟨h.nr_len, h.nt_len, h.ext_le, h.ext_pos, h.pl_rows⟩
    | some x =>
      simp only
      split
      · exact ⟨h.nr_len, h.nt_len, h.ext_le, h.ext_pos, h.pl_rows⟩
      · exact h
  | setW w => exact ⟨h.nr_len, h.nt_len, h.ext_le, h.ext_pos, h.pl_rows⟩
  | readH => exact wellShaped_of_same (read_sameInputs F st _ rfl) h
  | readBigH => exact wellShaped_of_same (read_sameInputs F st _ rfl) h
  | readHkl k l => exact wellShaped_of_same (read_sameInputs F st _ rfl) h
  | readHk k => exact wellShaped_of_same (read_sameInputs F st _ rfl) h
  | readBigHNoExt => exact wellShaped_of_same (read_sameInputs F st _ rfl) h
  | readHkNoExt k => exact wellShaped_of_same (read_sameInputs F st _ rfl) h
  | readHNoExt => exact wellShaped_of_same (read_sameInputs F st _ rfl) h
  | corrupt x xe noise => exact wellShaped_of_same (read_sameInputs F st _ rfl) h
  | readLayout => exact wellShaped_of_same (read_sameInputs F st _ rfl) h
  | query => exact wellShaped_of_same (read_sameInputs F st _ rfl) h
  | stackData x xe => exact wellShaped_of_same (read_sameInputs F st _ rfl) h
  | readPL => exact wellShaped_of_same (read_sameInputs F st _ rfl) h
  | readBigWView => exact wellShaped_of_same (read_sameInputs F st _ rfl) h
  | readNoiseVar => exact wellShaped_of_same (read_sameInputs F st _ rfl) h
  | readLastNoise => exact wellShaped_of_same (read_sameInputs F st _ rfl) h
  | corruptCat X noise => exact wellShaped_of_same (read_sameInputs F st _ rfl) h

theorem run_wellShaped (F : Fns α) (ops : List (Op α)) (st : State α) (h : WellShaped st)
    (hv : ValidFrom F st ops) : WellShaped (run Cfg.fixed F st ops).1 := by
  induction ops generalizing st with
  | nil => exact h
  | cons op ops ih =>
    show WellShaped (run Cfg.fixed F (step Cfg.fixed F st op).1 ops).1
    exact ih _ (step_wellShaped F st op h hv.1) hv.2


/-! ### all views agree block by block -/

theorem userK_le (st : State α) : st.userK ≤ st.k := by
  unfold State.userK; split <;> omega

theorem hNoPL_row (st : State α) {k : Nat} (hk : k < st.nr.length) :
    st.hNoPL[k]? = some ((List.range st.nr.length).map fun tx => block st.raw st.nr st.nt k tx) := by
  simp [State.hNoPL, mom, hk]

theorem specH_get_none (F : Fns α) (st : State α) (hw : WellShaped st) {k l : Nat}
    (hk : k < st.userK) (hl : l < st.k) (hp : st.pl = none) :
    getD2 (specH F st) k l = .mat (block st.raw st.nr st.nt k l) := by
  have hk' : k < st.nr.length := by rw [hw.nr_len]; exact Nat.lt_of_lt_of_le hk (userK_le st)
  have hl' : l < st.nr.length := by rw [hw.nr_len]; exact hl
  have hrow := hNoPL_row st hk'
  have hH : (specH F st)[k]? = some ((List.range st.nr.length).map fun tx => block st.raw st.nr st.nt k tx) := by
    unfold specH specHFull
    by_cases he : st.isExt = true
    · rw [if_pos he]; simp only [hp]; rw [List.getElem?_take_of_lt hk, hrow]
    · rw [if_neg he]; simp only [hp]; rw [hrow]
  unfold getD2
  simp [hH, hl']

theorem specH_get_some (F : Fns α) (st : State α) (hw : WellShaped st) {k l : Nat}
    (hk : k < st.userK) (hl : l < st.k) {p : Mat α} (hp : st.pl = some p) :
    ∃ prow q, p[k]? = some prow ∧ prow[l]? = some q ∧
      getD2 (specH F st) k l = .mat (scaleBy F.sqrt (block st.raw st.nr st.nt k l) q) := by
  have hk' : k < st.nr.length := by rw [hw.nr_len]; exact Nat.lt_of_lt_of_le hk (userK_le st)
  have hl' : l < st.nr.length := by rw [hw.nr_len]; exact hl
  have hrow := hNoPL_row st hk'
  obtain ⟨hplen, hprow⟩ := hw.pl_rows p hp
  have hkp : k < p.length := by rw [hplen]; exact hk
  have hpk : p[k]? = some p[k] := List.getElem?_eq_getElem hkp
  have hlen := hprow k _ hpk
  have hlq : l < p[k].length := by rw [hlen]; exact hl
  have hq : (p[k])[l]? = some (p[k])[l] := List.getElem?_eq_getElem hlq
  refine ⟨p[k], (p[k])[l], hpk, hq, ?_⟩
  have hH : (specH F st)[k]? = some (List.zipWith (scaleBy F.sqrt)
      ((List.range st.nr.length).map fun tx => block st.raw st.nr st.nt k tx) p[k]) := by
    unfold specH specHFull scaleMom
    by_cases he : st.isExt = true
    · rw [if_pos he]; simp only [hp]
      rw [List.getElem?_zipWith, List.getElem?_take_of_lt hk, hrow, hpk]
    · rw [if_neg he]; simp only [hp]
      rw [List.getElem?_zipWith, hrow, hpk]
  unfold getD2
  simp [hH, List.getElem?_zipWith, hl', hq]

/-- `get_Hkl(k,l)` is the (k,l) sub-block of `big_H`, for every state with the documented shapes -/
theorem views_agree (F : Fns α) (st : State α) (hw : WellShaped st) {k l : Nat}
    (hk : k < st.userK) (hl : l < st.k) :
    getD2 (specH F st) k l = .mat (block (specBigH F st) st.nr st.nt k l) := by
  have hk' : k < st.nr.length := by rw [hw.nr_len]; exact Nat.lt_of_lt_of_le hk (userK_le st)
  have hl' : l < st.nt.length := by rw [hw.nt_len]; exact hl
  cases hp : st.pl with
  | none => rw [specH_get_none F st hw hk hl hp]; simp [specBigH, hp]
  | some p =>
    obtain ⟨prow, q, h1, h2, h3⟩ := specH_get_some F st hw hk hl hp
    rw [h3]
    simp only [specBigH, hp]
    rw [block_scaled F.sqrt st.raw p h1 h2 (List.getElem?_eq_getElem hk') (List.getElem?_eq_getElem hl')]

theorem cum_take {ns : List Nat} {m k : Nat} (h : k ≤ m) : cum (ns.take m) k = cum ns k := by
  simp [cum, List.take_take, Nat.min_eq_left h]

theorem nrU_prefix (st : State α) (hw : WellShaped st) (hK : 0 < st.userK) :
    st.nrU = st.nr.take st.userK := by
  unfold State.nrU State.userK at *
  split
  · rename_i he
    simp only [he, if_true] at hK
    have hpos : 1 ≤ st.extK := by
      rcases hw.ext_pos he with h0 | h1
      · omega
      · exact h1
    unfold pyDropLast
    rw [if_neg (by omega), hw.nr_len]
  · rw [← hw.nr_len]; simp

/-- `get_Hk(k)` is the k-th block of rows of `big_H` -/
theorem hk_rowBlock (F : Fns α) (st : State α) (hw : WellShaped st) {k : Nat} (hk : k < st.userK) :
    getD1 (rowSplit (specBigH F st) st.nrU) k = .mat (rowBlock (specBigH F st) st.nr k) := by
  have hpre := nrU_prefix st hw (by omega)
  have hlen : st.nrU.length = st.userK := by
    rw [hpre, List.length_take, hw.nr_len]; exact Nat.min_eq_left (userK_le st)
  unfold getD1 rowSplit
  simp only [List.getElem?_map, List.getElem?_range (hlen ▸ hk), Option.map_some]
  unfold rowBlock seg
  rw [hpre, cum_take (Nat.le_of_lt hk), cum_take hk]


/-! ### histories -/

/-- the state reached from a fresh object by a history (repaired code) -/
def reach (F : Fns α) (isExt : Bool) (ops : List (Op α)) : State α :=
  (run Cfg.fixed F (State.init α isExt) ops).1

/-- every operation of the history has the documented argument shapes -/
def Valid (F : Fns α) (isExt : Bool) (ops : List (Op α)) : Prop :=
  ValidFrom F (State.init α isExt) ops

theorem reach_coherent (F : Fns α) (e : Bool) (ops : List (Op α)) : Coherent F (reach F e ops) :=
  run_coherent F ops _ (coherent_init F e)

theorem reach_wellShaped (F : Fns α) (e : Bool) (ops : List (Op α)) (hv : Valid F e ops) :
    WellShaped (reach F e ops) :=
  run_wellShaped F ops _ (wellShaped_init e) hv

theorem run_append (cfg : Cfg) (F : Fns α) (st : State α) (ops₁ ops₂ : List (Op α)) :
    run cfg F st (ops₁ ++ ops₂)
      = ((run cfg F (run cfg F st ops₁).1 ops₂).1, (run cfg F st ops₁).2 ++ (run cfg F (run cfg F st ops₁).1 ops₂).2) := by
  induction ops₁ generalizing st with
  | nil => simp [run]
  | cons op ops ih =>
    simp only [List.cons_append, run]
    rw [ih]


/-! ### the class of the object never changes -/

theorem install_isExt (cfg : Cfg) (st : State α) (M : Mat α) (nr nt : List Nat) (K : Nat) :
    (install cfg st M nr nt K).isExt = st.isExt := by
  unfold install
  simp only
  split
  · split
    · rfl
    · split <;> rfl
  · rfl

theorem step_isExt (F : Fns α) (st : State α) (op : Op α) : (step Cfg.fixed F st op).1.isExt = st.isExt := by
  by_cases hr : op.isRead = true
  · exact (read_sameInputs F st op hr).1
  · cases op with
    | init M nr nt K ntE =>
      show (doInit Cfg.fixed st M nr nt K ntE).1.isExt = _
      unfold doInit; simp only [Cfg.fixed, if_true]; split
      · rw [install_isExt]
      · rfl
    | randomize M nr nt K ntE =>
      show (match randCheck Cfg.fixed st.isExt nr nt K ntE with
        | some e => (st, Out.err e) | none => doRandomize Cfg.fixed st M nr nt K ntE).1.isExt = _
      split
      · rfl
      · unfold doRandomize; simp only; rw [install_isExt]
    | setPL p pe =>
      show (match setPLCheck Cfg.fixed st p pe with
        | some e => (st, Out.err e) | none => (doSetPL Cfg.fixed st p pe, Out.unit)).1.isExt = _
      split
      · rfl
      · show (doSetPL Cfg.fixed st p pe).isExt = _
        unfold doSetPL; simp only [Cfg.fixed, if_true]
        split <;> cases p <;> rfl
    | setNoise v =>
      show (doSetNoise F st v).1.isExt = _
      unfold doSetNoise
      cases v with
      | none => rfl
      | some x => simp only; split <;> rfl
    | setW w => rfl
    | readH => simp [Op.isRead] at hr
    | readBigH => simp [Op.isRead] at hr
    | readHkl k l => simp [Op.isRead] at hr
    | readHk k => simp [Op.isRead] at hr
    | readBigHNoExt => simp [Op.isRead] at hr
    | readHkNoExt k => simp [Op.isRead] at hr
    | readHNoExt => simp [Op.isRead] at hr
    | corrupt x xe noise => simp [Op.isRead] at hr
    | readLayout => simp [Op.isRead] at hr
    | query => simp [Op.isRead] at hr
    | stackData x xe => simp [Op.isRead] at hr
    | readPL => simp [Op.isRead] at hr
    | readBigWView => simp [Op.isRead] at hr
    | readNoiseVar => simp [Op.isRead] at hr
    | readLastNoise => simp [Op.isRead] at hr
    | corruptCat X noise => simp [Op.isRead] at hr

theorem run_isExt (F : Fns α) (ops : List (Op α)) (st : State α) :
    (run Cfg.fixed F st ops).1.isExt = st.isExt := by
  induction ops generalizing st with
  | nil => rfl
  | cons op ops ih =>
    show (run Cfg.fixed F (step Cfg.fixed F st op).1 ops).1.isExt = _
    rw [ih, step_isExt]

theorem reach_isExt (F : Fns α) (e : Bool) (ops : List (Op α)) : (reach F e ops).isExt = e :=
  run_isExt F ops _

/-! ### index errors -/

theorem getD2_out_of_range (F : Fns α) (st : State α) (hw : WellShaped st) {k l : Nat}
    (hk : st.userK ≤ k) : getD2 (specH F st) k l = .err .IndexError := by
  have hlen : (specH F st).length ≤ st.userK := by
    unfold specH specHFull scaleMom
    have hn : st.hNoPL.length = st.k := by simp [State.hNoPL, mom, hw.nr_len]
    by_cases he : st.isExt = true
    · rw [if_pos he]
      cases st.pl with
      | none => simp only [List.length_take]; omega
      | some p => simp only [List.length_zipWith, List.length_take]; omega
    · rw [if_neg he]
      have hu : st.userK = st.k := by simp [State.userK, he]
      cases st.pl with
      | none => simp only; omega
      | some p => simp only [List.length_zipWith]; omega
  have : (specH F st)[k]? = none := List.getElem?_eq_none (by omega)
  simp [getD2, this]

/-! ### a decidable form of the shape guards (used for the concrete examples) -/

def opOKb (st : State α) : Op α → Bool
  | .init _ _ _ _ ntE => !st.isExt || !ntE.isEmpty
  | .randomize _ _ _ _ ntE => !st.isExt || !ntE.isEmpty
  | .setPL (some p) pe =>
      if st.isExt then plFits p st.userK st.userK && plFits pe st.userK st.extK
      else plFits p st.k st.k
  | _ => true

def validb (F : Fns α) : State α → List (Op α) → Bool
  | _, [] => true
  | st, op :: ops => opOKb st op && validb F (step Cfg.fixed F st op).1 ops

theorem opOK_of_opOKb (st : State α) (op : Op α) (h : opOKb st op = true) : OpOK st op := by
  cases op with
  | init M nr nt K ntE =>
    simp only [OpOK]
    intro he hn
    simp [opOKb, he, hn] at h
  | randomize M nr nt K ntE =>
    simp only [OpOK]
    intro he hn
    simp [opOKb, he, hn] at h
  | setPL p pe =>
    cases p with
    | none => simp [OpOK]
    | some p =>
      simp only [OpOK]
      by_cases he : st.isExt = true
      · simp only [opOKb, he, if_true, Bool.and_eq_true, plFits_iff] at h
        rw [if_pos he]
        exact ⟨h.1.1, h.1.2, h.2.1, h.2.2⟩
      · have he' : st.isExt = false := by simpa using he
        simp only [opOKb, he', Bool.false_eq_true, if_false, plFits_iff] at h
        rw [if_neg he]
        exact h
  | setNoise v => simp [OpOK]
  | setW w => simp [OpOK]
  | readH => simp [OpOK]
  | readBigH => simp [OpOK]
  | readHkl k l => simp [OpOK]
  | readHk k => simp [OpOK]
  | readBigHNoExt => simp [OpOK]
  | readHkNoExt k => simp [OpOK]
  | readHNoExt => simp [OpOK]
  | corrupt x xe noise => simp [OpOK]
  | readLayout => simp [OpOK]
  | query => simp [OpOK]
  | stackData x xe => simp [OpOK]
  | readPL => simp [OpOK]
  | readBigWView => simp [OpOK]
  | readNoiseVar => simp [OpOK]
  | readLastNoise => simp [OpOK]
  | corruptCat X noise => simp [OpOK]

theorem validFrom_of_validb (F : Fns α) (ops : List (Op α)) (st : State α)
    (h : validb F st ops = true) : ValidFrom F st ops := by
  induction ops generalizing st with
  | nil => trivial
  | cons op ops ih =>
    simp only [validb, Bool.and_eq_true] at h
    exact ⟨opOK_of_opOKb st op h.1, ih _ h.2⟩

theorem valid_of_validb (F : Fns α) (e : Bool) (ops : List (Op α))
    (h : validb F (State.init α e) ops = true) : Valid F e ops :=
  validFrom_of_validb F ops _ h


/-! ### the ExtInt-only views are the user columns of `H` / `big_H` -/

theorem getD2_map_take (H : MoM α) {u k l : Nat} (hl : l < u) :
    getD2 (H.map fun r => r.take u) k l = getD2 H k l := by
  unfold getD2
  cases hk : H[k]? with
  | none => simp [hk]
  | some row => simp [hk, List.getElem?_take_of_lt hl]

theorem slice_take {β : Type} (l : List β) {a b c : Nat} (h : b ≤ c) :
    slice (l.take c) a b = slice l a b := by
  unfold slice
  rw [List.drop_take, List.take_take]
  congr 1
  omega

theorem cum_mono (ns : List Nat) {i j : Nat} (h : i ≤ j) : cum ns i ≤ cum ns j := by
  unfold cum
  induction ns generalizing i j with
  | nil => simp
  | cons n ns ih =>
    cases i with
    | zero => simp
    | succ i =>
      cases j with
      | zero => omega
      | succ j =>
        simp only [List.take_succ_cons, List.sum_cons]
        have := ih (i := i) (j := j) (by omega)
        omega

theorem ntU_prefix (st : State α) (hw : WellShaped st) (hK : 0 < st.userK) :
    st.ntU = st.nt.take st.userK := by
  unfold State.ntU State.userK at *
  split
  · rename_i he
    simp only [he, if_true] at hK
    have hpos : 1 ≤ st.extK := by
      rcases hw.ext_pos he with h0 | h1
      · omega
      · exact h1
    unfold pyDropLast
    rw [if_neg (by omega), hw.nt_len]
  · rw [← hw.nt_len]; simp

/-- a user block of `big_H_no_ext_int` is the same block of `big_H` -/
theorem block_takeCols (M : Mat α) (st : State α) (hw : WellShaped st) {k l : Nat} (hl : l < st.userK) :
    block (takeCols M st.ntU.sum) st.nr st.nt k l = block M st.nr st.nt k l := by
  have hsum : st.ntU.sum = cum st.nt st.userK := by rw [ntU_prefix st hw (by omega)]; rfl
  unfold block colBlock rowBlock takeCols
  rw [seg_map, List.map_map]
  apply List.map_congr_left
  intro r _
  simp only [Function.comp, seg]
  rw [hsum]
  exact slice_take r (cum_mono st.nt (by omega))

/-! ### a call that raises changes nothing -/

theorem readBigH_lastNoise (F : Fns α) (st : State α) : (readBigH F st).1.lastNoise = st.lastNoise := by
  obtain ⟨c, hc⟩ := readBigH_frame F st; rw [hc]
theorem readH_lastNoise (F : Fns α) (st : State α) : (readH F st).1.lastNoise = st.lastNoise := by
  obtain ⟨c, hc⟩ := readH_frame F st; rw [hc]
theorem readBigW_lastNoise (st : State α) : (readBigW st).1.lastNoise = st.lastNoise := by
  obtain ⟨c, hc⟩ := readBigW_frame st; rw [hc]

/-- a call that raises leaves everything a view is computed from, and `last_noise`, as it was -/
theorem step_err_unchanged (F : Fns α) (st : State α) (op : Op α) (e : Proto.PyErr)
    (h : (step Cfg.fixed F st op).2 = .err e) :
    SameInputs (step Cfg.fixed F st op).1 st ∧ (step Cfg.fixed F st op).1.lastNoise = st.lastNoise := by
  have triv : SameInputs st st := ⟨rfl, rfl, rfl, rfl, rfl, rfl, rfl, rfl, rfl⟩
  by_cases hr : op.isRead = true
  · refine ⟨read_sameInputs F st op hr, ?_⟩
    have hB := readBigH_lastNoise F st
    have hH := readH_lastNoise F st
    cases op with
    | init M nr nt K ntE => simp [Op.isRead] at hr
    | randomize M nr nt K ntE => simp [Op.isRead] at hr
    | setPL p pe => simp [Op.isRead] at hr
    | setNoise v => simp [Op.isRead] at hr
    | setW w => simp [Op.isRead] at hr
    | readH => exact hH
    | readHkl k l => exact hH
    | readLayout => rfl
    | query => rfl
    | stackData x xe => rfl
    | readPL => rfl
    | readNoiseVar => rfl
    | readLastNoise => rfl
    | readBigWView => exact readBigW_lastNoise st
    | readBigH =>
      show (match readBigH F st with
        | (st1, .ok M) => (st1, Out.mat M) | (st1, .error e) => (st1, Out.err e)).1.lastNoise = _
      rcases hrb : readBigH F st with ⟨st1, (e | M)⟩ <;> (rw [hrb] at hB; exact hB)
    | readHk k =>
      show (match readBigH F st with
        | (st1, .ok M) => (st1, getD1 (rowSplit M st1.nrU) k) | (st1, .error e) => (st1, Out.err e)).1.lastNoise = _
      rcases hrb : readBigH F st with ⟨st1, (e | M)⟩ <;> (rw [hrb] at hB; exact hB)
    | readBigHNoExt =>
      show (if st.isExt then
        (match readBigH F st with
          | (st1, .ok M) => (st1, Out.mat (takeCols M st1.ntU.sum)) | (st1, .error e) => (st1, Out.err e))
        else (st, Out.err .AttributeError)).1.lastNoise = _
      split
      · rcases hrb : readBigH F st with ⟨st1, (e | M)⟩ <;> (rw [hrb] at hB; exact hB)
      · rfl
    | readHkNoExt k =>
      show (if st.isExt then
        (match readBigH F st with
          | (st1, .ok M) => (st1, getD1 (rowSplit (takeCols M st1.ntU.sum) st1.nrU) k)
          | (st1, .error e) => (st1, Out.err e))
        else (st, Out.err .AttributeError)).1.lastNoise = _
      split
      · rcases hrb : readBigH F st with ⟨st1, (e | M)⟩ <;> (rw [hrb] at hB; exact hB)
      · rfl
    | readHNoExt =>
      unfold step
      simp only [Cfg.fixed, if_true]
      split
      · exact hH
      · rfl
    | corrupt x xe noise =>
      have h' : (doCorrupt F st x xe noise).2 = .err e := h
      show (doCorrupt F st x xe noise).1.lastNoise = _
      unfold doCorrupt at h' ⊢
      simp only at h' ⊢
      rcases hrb : readBigH F st with ⟨st1, (e' | M)⟩
      · rw [hrb] at hB; exact hB
      · rw [hrb] at hB h'
        simp only at h' ⊢
        cases hnv : st1.noiseVar with
        | none => simp [hnv, finishCorrupt] at h'
        | some v =>
          cases noise with
          | some n => simp [hnv, finishCorrupt] at h'
          | none => simp only [hnv]; exact hB
    | corruptCat X noise =>
      have h' : (doCorruptCat F st X noise).2 = .err e := h
      show (doCorruptCat F st X noise).1.lastNoise = _
      unfold doCorruptCat at h' ⊢
      simp only at h' ⊢
      rcases hrb : readBigH F st with ⟨st1, (e' | M)⟩
      · rw [hrb] at hB; exact hB
      · rw [hrb] at hB h'
        simp only at h' ⊢
        cases hnv : st1.noiseVar with
        | none => simp [hnv, finishCat] at h'
        | some v =>
          cases noise with
          | some n => simp [hnv, finishCat] at h'
          | none => simp only [hnv]; exact hB
  · cases op with
    | init M nr nt K ntE =>
      have h' : (doInit Cfg.fixed st M nr nt K ntE).2 = .err e := h
      show SameInputs (doInit Cfg.fixed st M nr nt K ntE).1 st ∧ (doInit Cfg.fixed st M nr nt K ntE).1.lastNoise = _
      unfold doInit at h' ⊢
      simp only [Cfg.fixed, if_true] at h' ⊢
      split
      · rename_i hc; simp [hc] at h'
      · exact ⟨triv, rfl⟩
    | randomize M nr nt K ntE =>
      have h' : (match randCheck Cfg.fixed st.isExt nr nt K ntE with
        | some e => (st, Out.err e) | none => doRandomize Cfg.fixed st M nr nt K ntE).2 = .err e := h
      show SameInputs (match randCheck Cfg.fixed st.isExt nr nt K ntE with
        | some e => (st, Out.err e) | none => doRandomize Cfg.fixed st M nr nt K ntE).1 st ∧
        (match randCheck Cfg.fixed st.isExt nr nt K ntE with
        | some e => (st, Out.err e) | none => doRandomize Cfg.fixed st M nr nt K ntE).1.lastNoise = _
      split
      · exact ⟨triv, rfl⟩
      · rename_i hc; simp [hc, doRandomize] at h'
    | setPL p pe =>
      have h' : (match setPLCheck Cfg.fixed st p pe with
        | some e => (st, Out.err e) | none => (doSetPL Cfg.fixed st p pe, Out.unit)).2 = .err e := h
      show SameInputs (match setPLCheck Cfg.fixed st p pe with
        | some e => (st, Out.err e) | none => (doSetPL Cfg.fixed st p pe, Out.unit)).1 st ∧
        (match setPLCheck Cfg.fixed st p pe with
        | some e => (st, Out.err e) | none => (doSetPL Cfg.fixed st p pe, Out.unit)).1.lastNoise = _
      split
      · exact ⟨triv, rfl⟩
      · rename_i hc; simp [hc] at h'
    | setNoise v =>
      have h' : (doSetNoise F st v).2 = .err e := h
      show SameInputs (doSetNoise F st v).1 st ∧ (doSetNoise F st v).1.lastNoise = _
      unfold doSetNoise at h' ⊢
      cases v with
      | none => simp at h'
      | some x =>
        simp only at h' ⊢
        split
        · rename_i hx; simp [hx] at h'
        · exact ⟨triv, rfl⟩
    | setW w => simp [step] at h
    | readH => simp [Op.isRead] at hr
    | readBigH => simp [Op.isRead] at hr
    | readHkl k l => simp [Op.isRead] at hr
    | readHk k => simp [Op.isRead] at hr
    | readBigHNoExt => simp [Op.isRead] at hr
    | readHkNoExt k => simp [Op.isRead] at hr
    | readHNoExt => simp [Op.isRead] at hr
    | corrupt x xe noise => simp [Op.isRead] at hr
    | readLayout => simp [Op.isRead] at hr
    | query => simp [Op.isRead] at hr
    | stackData x xe => simp [Op.isRead] at hr
    | readPL => simp [Op.isRead] at hr
    | readBigWView => simp [Op.isRead] at hr
    | readNoiseVar => simp [Op.isRead] at hr
    | readLastNoise => simp [Op.isRead] at hr
    | corruptCat X noise => simp [Op.isRead] at hr

/-! ### what the mutators store -/

theorem install_fields (st : State α) (M : Mat α) (nr nt : List Nat) (K : Nat) :
    let st' := install Cfg.fixed st M nr nt K
    st'.raw = M ∧ st'.nr = nr ∧ st'.nt = nt ∧ st'.k = K ∧ st'.extK = st.extK ∧ st'.w = st.w
    ∧ st'.noiseVar = st.noiseVar
    ∧ st'.pl = (match st.pl with
        | none => none
        | some p => if plFits p (if st.isExt then K - st.extK else K) K then some p else none) := by
  simp only [install, Cfg.fixed, if_true]
  cases hp : st.pl with
  | none => simp
  | some p =>
    simp only [State.userK]
    by_cases he : st.isExt = true
    · simp only [he, if_true]
      by_cases hf : plFits p (K - st.extK) K = true <;> simp [hf]
    · simp only [he, if_false]
      by_cases hf : plFits p K K = true <;> simp [hf]

theorem init_eq_randomize (F : Fns α) (st : State α) (M : Mat α) (nr nt : List Nat) (K : Nat) (ntE : List Nat)
    (h : initCheck M (fullLayout st.isExt nr nt K ntE).1 (fullLayout st.isExt nr nt K ntE).2.1
      (fullLayout st.isExt nr nt K ntE).2.2.1 = true) :
    step Cfg.fixed F st (.init M nr nt K ntE) = step Cfg.fixed F st (.randomize M nr nt K ntE) := by
  obtain ⟨h1, h2⟩ := initCheck_lens h
  simp [step, doInit, doRandomize, randCheck, h, h1, h2, Cfg.fixed]

end Machine

/-! ### `block_diag` really is block diagonal -/

section BD
variable {α : Type} {β γ : Type}

theorem cum_length (ns : List Nat) : cum ns ns.length = ns.sum := by simp [cum]

theorem cum_le_sum (ns : List Nat) (k : Nat) : cum ns k ≤ ns.sum := by
  by_cases h : k ≤ ns.length
  · rw [← cum_length]; exact cum_mono ns h
  · simp [cum, List.take_of_length_le (by omega : ns.length ≤ k)]

/-- the k-th chunk of a concatenation, cut at the cumulative chunk lengths -/
theorem seg_flatMap (L : List γ) (g : γ → List β) {k : Nat} {x : γ} (hx : L[k]? = some x) :
    seg (L.map fun y => (g y).length) (L.flatMap g) k = g x := by
  induction L generalizing k with
  | nil => simp at hx
  | cons y L ih =>
    cases k with
    | zero =>
      simp at hx; subst hx
      simp [seg, slice, cum]
    | succ k =>
      simp at hx
      simp only [List.map_cons, List.flatMap_cons]
      rw [seg_cons_succ _ _ _ _ _ rfl]
      exact ih hx

variable [Zero α]

theorem slice_zeros_mid_left (n : Nat) (r t : List α) {a b : Nat} (hab : a ≤ b) (hb : b ≤ n) :
    slice (List.replicate n (0 : α) ++ r ++ t) a b = List.replicate (b - a) 0 := by
  unfold slice
  rw [List.append_assoc, List.drop_append, List.take_append]
  simp only [List.drop_replicate, List.take_replicate, List.length_replicate]
  have h1 : b - a - (n - a) = 0 := by omega
  have h2 : min (b - a) (n - a) = b - a := by omega
  rw [h1, h2]; simp

theorem slice_mid (n : Nat) (r t : List α) :
    slice (List.replicate n (0 : α) ++ r ++ t) n (n + r.length) = r := by
  unfold slice
  rw [List.append_assoc, List.drop_append]
  simp

theorem slice_zeros_right (n m : Nat) (r : List α) {a b : Nat} (ha : n + r.length ≤ a) (hab : a ≤ b)
    (hb : b ≤ n + r.length + m) :
    slice (List.replicate n (0 : α) ++ r ++ List.replicate m 0) a b = List.replicate (b - a) 0 := by
  unfold slice
  rw [List.drop_append]
  have : List.drop a (List.replicate n (0 : α) ++ r) = [] := by
    apply List.drop_eq_nil_of_le; simp; omega
  rw [this]
  simp
  omega


/-- `block_diag`: the (k,l) block of the block-diagonal matrix of rectangular blocks `ws`
    (cut at the blocks' own row / column counts) is `ws[k]` on the diagonal and zero elsewhere -/
theorem block_blockDiag (ws : List (Mat α)) (hrect : ∀ w ∈ ws, ∀ r ∈ w, r.length = cols w)
    {k l : Nat} {w : Mat α} {cl : Nat} (hk : ws[k]? = some w) (hl : (ws.map cols)[l]? = some cl) :
    block (blockDiag ws) (ws.map List.length) (ws.map cols) k l
      = if k = l then w else List.replicate w.length (List.replicate cl 0) := by
  have hck : (ws.map cols)[k]? = some (cols w) := by simp [hk]
  have hwm : w ∈ ws := List.mem_of_getElem? hk
  let g : Mat α × Nat → Mat α := fun wk =>
    wk.1.map fun r => List.replicate (cum (ws.map cols) wk.2) 0 ++ r
      ++ List.replicate ((ws.map cols).sum - cum (ws.map cols) (wk.2 + 1)) 0
  have hbd : blockDiag ws = ws.zipIdx.flatMap g := rfl
  have hrs : ws.map List.length = ws.zipIdx.map fun y => (g y).length := by
    apply List.ext_getElem?
    intro i
    simp [g, List.getElem?_zipIdx]
    cases ws[i]? <;> simp
  have hz : ws.zipIdx[k]? = some (w, k) := by simp [List.getElem?_zipIdx, hk]
  unfold block rowBlock colBlock
  rw [hbd, hrs, seg_flatMap _ g hz]
  simp only [g, List.map_map]
  have hsucc := cum_succ hck
  have hlsucc := cum_succ hl
  by_cases hkl : k = l
  · subst hkl
    rw [if_pos rfl]
    conv => rhs; rw [← List.map_id w]
    apply List.map_congr_left
    intro r hr
    have hlen := hrect w hwm r hr
    simp only [Function.comp, seg, id]
    rw [hsucc, ← hlen]
    exact slice_mid _ r _
  · rw [if_neg hkl]
    rw [← List.map_const']
    apply List.map_congr_left
    intro r hr
    have hlen := hrect w hwm r hr
    simp only [Function.comp, seg]
    rcases Nat.lt_or_gt_of_ne hkl with h | h
    · -- k < l : right of the block
      have h1 : cum (ws.map cols) (k + 1) ≤ cum (ws.map cols) l := cum_mono _ h
      have h2 := cum_le_sum (ws.map cols) (l + 1)
      have h3 := cum_le_sum (ws.map cols) (k + 1)
      rw [slice_zeros_right _ _ r (by omega) (by omega) (by omega)]
      congr 1; omega
    · -- l < k : left of the block
      have h1 : cum (ws.map cols) (l + 1) ≤ cum (ws.map cols) k := cum_mono _ h
      rw [slice_zeros_mid_left _ r _ (by omega) h1]
      congr 1; omega

/-- stacking keeps every block: cut at the blocks' own row counts, the l-th piece of the stack is the
    l-th block, entry for entry -/
theorem seg_flatten_blocks {β : Type} (xs : List (List β)) {l : Nat} {x : List β} (hx : xs[l]? = some x) :
    seg (xs.map List.length) xs.flatten l = x := by
  have := seg_flatMap xs (fun y => y) hx
  simpa [List.flatMap_id] using this

end BD
end PyPhysim.C08
