import PyPhysim.Proofs.C06
import PyPhysim.Proofs.C06Heap
import PyPhysim.Proofs.C06Pointwise
import PyPhysim.Proofs.C06Grid

/-! C06: robustness classes R15 (distinct values that are merely close) and R16 (argument identity,
buffer reuse) — helper lemmas.  The model computes with exact rationals and addresses objects on an
explicit heap, so "close" has no meaning in it and "the same object" is an address. -/
namespace PyPhysim.C06M
open PyPhysim.Proto

/-- `Result.__eq__` on non-CHOICE objects is the conjunction of the exact attribute equalities -/
theorem eqPy_true_iff (a b : Res) (ha : a.ty ≠ .choice) (hb : b.ty ≠ .choice) :
    eqPy a b = .ok true ↔
      (a.name = b.name ∧ a.ty = b.ty ∧ a.total = b.total ∧ a.acc = b.acc ∧ a.vlist = b.vlist
        ∧ a.tlist = b.tlist ∧ a.rsq = b.rsq ∧ a.rsum = b.rsum ∧ a.value = b.value) := by
  unfold eqPy
  simp [ha, hb, and_assoc]

theorem eqPy_total (a b : Res) (hb : b.ty ≠ .choice) :
    ∃ x, eqPy a b = .ok x := by
  unfold eqPy
  simp [hb]

theorem indexOf?_eq_some_iff (x : Rat) (l : List Rat) (i : Nat) :
    indexOf? x l = some i ↔ l[i]? = some x ∧ ∀ j, j < i → l[j]? ≠ some x := by
  induction l generalizing i with
  | nil => simp [indexOf?]
  | cons y ys ih =>
    simp only [indexOf?]
    by_cases hy : y = x
    · subst hy
      simp only [if_true]
      constructor
      · intro h
        cases h
        simp
      · rintro ⟨h, hj⟩
        cases i with
        | zero => rfl
        | succ i => exact absurd (by simp) (hj 0 (Nat.succ_pos _))
    · simp only [hy, if_false]
      cases i with
      | zero =>
        simp only [List.getElem?_cons_zero, Option.some.injEq, hy, false_and, iff_false]
        cases indexOf? x ys <;> simp
      | succ i =>
        have := ih i
        constructor
        · intro h
          have h' : indexOf? x ys = some i := by
            cases hi : indexOf? x ys with
            | none => rw [hi] at h; simp at h
            | some k => rw [hi] at h; simp at h; rw [h]
          obtain ⟨h1, h2⟩ := this.mp h'
          refine ⟨by simpa using h1, ?_⟩
          intro j hj
          cases j with
          | zero => simp [hy]
          | succ j => simpa using h2 j (Nat.lt_of_succ_lt_succ hj)
        · rintro ⟨h1, h2⟩
          have h' : indexOf? x ys = some i :=
            this.mpr ⟨by simpa using h1, fun j hj => by simpa using h2 (j + 1) (Nat.succ_lt_succ hj)⟩
          simp [h']

theorem indexOf?_eq_none_iff (x : Rat) (l : List Rat) : indexOf? x l = none ↔ x ∉ l := by
  constructor
  · exact indexOf?_none
  · intro h
    cases hi : indexOf? x l with
    | none => rfl
    | some i => exact absurd (List.mem_of_getElem? (indexOf?_some hi)) h

/-- `res[a].merge(res[b])` reads both objects at call time and depends on nothing else -/
theorem mergeR_spec {m : Mach} {a b : Nat} {ra rb : Res} (ha : m.res[a]? = some ra)
    (hb : m.res[b]? = some rb) :
    (mergeR m a b).1.res[a]? = some (merge ra rb).1 ∧ (mergeR m a b).2 = (merge ra rb).2 := by
  simp only [mergeR, ha, hb]
  exact ⟨setRes_get_self ha, trivial⟩

theorem updR_spec {m : Mach} {a : Nat} {r : Res} (o : Obs) (ha : m.res[a]? = some r) :
    (updR m a o).1.res[a]? = some (update r o).1 := by
  simp only [updR, ha]
  exact setRes_get_self ha

end PyPhysim.C06M
