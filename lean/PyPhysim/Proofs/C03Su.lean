import PyPhysim.Proofs.C03FreqTdl

/-!
# C03 — `SuChannel`: the path loss is applied to the output and to the reported response
-/
namespace PyPhysim.C03
open PyPhysim.Proto

variable {α : Type} [CommSemiring α]

/-- the response a `SuChannel` reports: the TDL response, scaled by `√pathloss` when one is set -/
def Su.report (c : Su α) (ir : IR α) : IR α := match c.pl with | none => ir | some s => ir.scale s

theorem Su.report_n (c : Su α) (ir : IR α) : (c.report ir).n = ir.n := by
  unfold Su.report; cases c.pl <;> rfl

theorem Su.report_delays (c : Su α) (ir : IR α) : (c.report ir).delays = ir.delays := by
  unfold Su.report; cases c.pl <;> rfl

theorem su_lastIR (c : Su α) (t' : Tdl α) (ir : IR α) (h : t'.last = some ir) :
    ({ c with tdl := t' } : Su α).lastIR = .ok (c.report ir) := by
  unfold Su.lastIR Tdl.lastIR Su.report
  simp only [h, bind, Except.bind, pure, Except.pure]
  cases c.pl <;> rfl

theorem su_corrupt_siso (proc : Proc α) (c : Su α) (hant : c.tdl.ant = none) (mem : Nat)
    (hmem : c.tdl.mem = .ok mem) (n : Nat) (xf : Nat → α) :
    c.corrupt proc [tab n xf]
      = .ok ({ c with tdl := c.tdl.afterTx proc n },
             [convSpecSiso (c.report (genIR proc c.tdl c.tdl.pos n)) n mem xf]) := by
  unfold Su.corrupt
  rw [tdl_corrupt_siso proc c.tdl hant mem hmem n xf]
  simp only [bind, Except.bind, pure, Except.pure, Su.applyPl, Su.report]
  cases c.pl with
  | none => rfl
  | some s =>
    simp only [scaleRows, List.map_cons, List.map_nil, convSpecSiso, tab_map]
    congr 4
    funext m
    exact (convAtSiso_scale s _ n xf m).symm

theorem su_corrupt_mimo (proc : Proc α) (c : Su α) (nr nt : Nat) (hant : c.tdl.ant = some (nr, nt)) (mem : Nat)
    (hmem : c.tdl.mem = .ok mem) (n : Nat) (xf : Nat → Nat → α) (hIn : 0 < (c.tdl.dims nr nt).2) :
    c.corrupt proc (tab (c.tdl.dims nr nt).2 (fun a => tab n (xf a)))
      = .ok ({ c with tdl := c.tdl.afterTx proc n },
             convSpec (c.report (genIR proc c.tdl c.tdl.pos n)) c.tdl.switched
               (c.tdl.dims nr nt).1 (c.tdl.dims nr nt).2 n mem xf) := by
  unfold Su.corrupt
  rw [tdl_corrupt_mimo proc c.tdl nr nt hant mem hmem n xf hIn]
  simp only [bind, Except.bind, pure, Except.pure, Su.applyPl, Su.report]
  cases c.pl with
  | none => rfl
  | some s =>
    simp only [convSpec, scaleRows_tab]
    congr 3
    funext j
    congr 1
    funext m
    exact (convAt_scale s _ _ _ n xf j m).symm

/-! ## frequency domain: needs a homogeneous FFT kernel -/

/-- contract of the FFT kernel used by the path-loss clause: scaling the input scales the output -/
def Fft.Homogeneous (fftK : Fft α) : Prop :=
  ∀ (s : α) (v : List α) (N k : Nat), fftK (v.map (s * ·)) N k = s * fftK v N k

theorem foldl_set_map (f : α → α) (ts : List (Nat × α)) (acc : List α) :
    (ts.map (Prod.map id f)).foldl (fun acc dv => acc.set dv.1 dv.2) (acc.map f)
      = (ts.foldl (fun acc dv => acc.set dv.1 dv.2) acc).map f := by
  induction ts generalizing acc with
  | nil => rfl
  | cons dv rest ih =>
    simp only [List.map_cons, List.foldl_cons, Prod.map, id]
    rw [← ih]
    congr 1
    apply List.ext_getElem?
    intro i
    simp only [List.getElem?_set, List.getElem?_map, List.length_map]
    split_ifs <;> simp

theorem dense_scale (s : α) (delays : List Nat) (v : List α) :
    dense delays (v.map (s * ·)) = (dense delays v).map (s * ·) := by
  unfold dense
  cases delays.getLast? with
  | none => rfl
  | some last =>
    simp only
    rw [List.zip_map_right, ← foldl_set_map]
    congr 1
    simp [zeros]

theorem denseAt_scale (s : α) (ir : IR α) (r t k : Nat) :
    (ir.scale s).denseAt r t k = (ir.denseAt r t k).map (s * ·) := by
  unfold IR.denseAt IR.scale
  simp only
  rw [← dense_scale, List.map_map, List.map_map]
  rfl

theorem freqAtSiso_scale (fftK : Fft α) (hK : Fft.Homogeneous fftK) (s : α) (ir : IR α) (fft B : Nat)
    (xf : Nat → α) (b p q : Nat) :
    freqAtSiso fftK (ir.scale s) fft B xf b p q = freqAtSiso fftK ir fft B xf b p q * s := by
  unfold freqAtSiso
  rw [denseAt_scale, hK]
  ring

theorem freqAt_scale (fftK : Fft α) (hK : Fft.Homogeneous fftK) (s : α) (ir : IR α) (sw : Bool) (fft B nIn : Nat)
    (xf : Nat → Nat → α) (j b p q : Nat) :
    freqAt fftK (ir.scale s) sw fft B nIn xf j b p q = freqAt fftK ir sw fft B nIn xf j b p q * s := by
  unfold freqAt
  rw [← List.sum_map_mul_right]
  congr 1
  apply List.map_congr_left
  intro a _
  cases sw <;> simp only [Bool.false_eq_true, if_false, if_true] <;> rw [denseAt_scale, hK] <;> ring

theorem su_corruptFreq_siso (proc : Proc α) (fftK : Fft α) (c : Su α) (hant : c.tdl.ant = none)
    (hK : c.pl = none ∨ Fft.Homogeneous fftK)
    (sel : Sel) (fft n : Nat) (ps : List Nat) (B nb : Nat) (hplan : freqPlan sel fft n = .ok (ps, B, nb))
    (xf : Nat → α) :
    ∃ last, c.corruptFreq proc fftK [tab n xf] fft sel
        = .ok ({ c with tdl := c.tdl.afterFx fft nb last },
               [freqSpecSiso fftK (c.report last) fft ps B nb xf])
      ∧ IsBlockConcat proc c.tdl fft nb last := by
  obtain ⟨last, h1, h2⟩ := tdl_corruptFreq_siso proc fftK c.tdl hant sel fft n ps B nb hplan xf
  refine ⟨last, ?_, h2⟩
  unfold Su.corruptFreq
  rw [h1]
  simp only [bind, Except.bind, pure, Except.pure, Su.applyPl, Su.report]
  cases hpl : c.pl with
  | none => rfl
  | some s =>
    have hK' : Fft.Homogeneous fftK := by
      rcases hK with h | h
      · rw [hpl] at h; cases h
      · exact h
    simp only [scaleRows, List.map_cons, List.map_nil, freqSpecSiso, List.map_flatMap, List.map_map]
    congr 4
    funext b
    congr 1
    funext pq
    exact (freqAtSiso_scale fftK hK' s last fft B xf b pq.1 pq.2).symm

theorem su_corruptFreq_mimo (proc : Proc α) (fftK : Fft α) (c : Su α) (nr nt : Nat)
    (hant : c.tdl.ant = some (nr, nt)) (hIn : 0 < (c.tdl.dims nr nt).2)
    (hK : c.pl = none ∨ Fft.Homogeneous fftK)
    (sel : Sel) (fft n : Nat) (ps : List Nat) (B nb : Nat) (hplan : freqPlan sel fft n = .ok (ps, B, nb))
    (xf : Nat → Nat → α) :
    ∃ last, c.corruptFreq proc fftK (tab (c.tdl.dims nr nt).2 (fun a => tab n (xf a))) fft sel
        = .ok ({ c with tdl := c.tdl.afterFx fft nb last },
               freqSpec fftK (c.report last) c.tdl.switched fft ps B nb
                 (c.tdl.dims nr nt).1 (c.tdl.dims nr nt).2 xf)
      ∧ IsBlockConcat proc c.tdl fft nb last := by
  obtain ⟨last, h1, h2⟩ := tdl_corruptFreq_mimo proc fftK c.tdl nr nt hant hIn sel fft n ps B nb hplan xf
  refine ⟨last, ?_, h2⟩
  unfold Su.corruptFreq
  rw [h1]
  simp only [bind, Except.bind, pure, Except.pure, Su.applyPl, Su.report]
  cases hpl : c.pl with
  | none => rfl
  | some s =>
    have hK' : Fft.Homogeneous fftK := by
      rcases hK with h | h
      · rw [hpl] at h; cases h
      · exact h
    simp only [scaleRows, freqSpec, tab_map, List.map_flatMap, List.map_map]
    congr 3
    funext j
    congr 1
    funext b
    congr 1
    funext pq
    exact (freqAt_scale fftK hK' s last _ fft B _ xf j b pq.1 pq.2).symm

end PyPhysim.C03
