import PyPhysim.Proofs.C04Obj
import PyPhysim.Proofs.C04Limit

/-!
An SNR sweep on ONE object: the receive filter the object uses after
`set_noise_var(σ²)` tends to the one it uses after `set_noise_var(0 | None)`.
-/
set_option linter.unusedSectionVars false
namespace PyPhysim.C04
open PyPhysim.Proto Matrix Filter Topology

namespace Pf

theorem run_append_one {α : Type} [Zero α] [One α] [Add α] [Sub α] [Mul α] [Div α] [Neg α] [NatCast α]
    [CScalar α] (K : Kernels α) : ∀ (ops : List (Op α)) (o : Obj α) (op : Op α),
    run K o (ops ++ [op]) = (step K (run K o ops) op).1
  | [], o, op => rfl
  | a :: ops, o, op => by simp only [List.cons_append, run, run_append_one K ops]

/-- `set_noise_var` on a Blast-family object stores the value and touches nothing else -/
theorem step_setNoiseVar (K : Kernels ℂ) (o : Obj ℂ) (hb : o.scheme.blastFamily = true) (s : ℝ) (hs : 0 ≤ s) :
    (step K o (.setNoiseVar (some (s : ℂ)))).1 = { o with nv := (s : ℂ) } ∧
    (step K o (.setNoiseVar none)).1 = { o with nv := 0 } := by
  constructor
  · simp [step, hb, setNoiseVar, nonnegB_def, hs]
  · simp [step, hb, setNoiseVar]

/-- the filter a Blast-family object computes for noise variance `s > 0` tends, entry by
    entry, to the one it computes for noise variance `0` -/
theorem blastFilterK_tendsto {nr nt : Nat} (K : Kernels ℂ) (H : Mat ℂ nr nt) (hr : FullColRank H)
    (hp : IsPinv H (K.pinv H))
    (hsol : ∀ s : ℝ, 0 < s → IsSolve (mmseLhs H (s : ℂ)) (mmseRhs H) (K.solve (mmseLhs H (s : ℂ)) (mmseRhs H)))
    (i : Fin nt) (j : Fin nr) :
    Tendsto (fun s : ℝ => blastFilterK K H (s : ℂ) i j) (𝓝[>] 0) (𝓝 (blastFilterK K H 0 i j)) := by
  -- normal equation of the pseudo-inverse
  have h1 := hp.hgh
  have h3 := hp.hg_herm
  c04_matrix at h1
  c04_matrix at h3
  have e := pinv_normal _ _ h1 h3
  have hW : ∀ s : ℝ, 0 < s → regGram (toM H) s * toM (K.solve (mmseLhs H (s : ℂ)) (mmseRhs H)) = (toM H)ᴴ := by
    intro s h0
    have h := hsol s h0
    unfold IsSolve at h
    c04_matrix at h
    exact h
  have hT := mmse_tendsto (toM H) (toM (K.pinv H)) (fun s => toM (K.solve (mmseLhs H (s : ℂ)) (mmseRhs H))) hr e hW
  have hTe : Tendsto (fun s : ℝ => K.solve (mmseLhs H (s : ℂ)) (mmseRhs H) i j) (𝓝[>] 0) (𝓝 (K.pinv H i j)) :=
    (tendsto_pi_nhds.mp ((tendsto_pi_nhds.mp hT) i)) j
  have h0 : blastFilterK K H 0 i j = K.pinv H i j * sqrtNat nt := by
    simp [blastFilterK, blastFilter, posB_def, zfFilter]
  rw [h0]
  refine (hTe.mul_const (sqrtNat nt)).congr' ?_
  refine eventually_nhdsWithin_of_forall (fun s hs => ?_)
  have hs' : (0 : ℝ) < s := hs
  simp [blastFilterK, blastFilter, posB_def, hs', mmseFilter]

end Pf
end PyPhysim.C04
