import PyPhysim.Proofs.C16ExactQam
import Mathlib.Probability.Independence.Basic

/-!
# C16 — PSK: the formula `2·Q(d_min/2σ)` lies between the exact AWGN symbol error rate and twice it

* `proj_law` — the component of isotropic 2-D Gaussian noise along any unit vector is `𝒩(0, σ²)`;
* `halfplane_prob` — the probability that the noise carries the sample (weakly / strictly) closer to
  another point `q` than to the transmitted `p` is `Qg(|q − p| / 2σ)`;
* `psk_voronoi` — for `M ≥ 3` equally spaced points on the unit circle a sample that is strictly
  closer to `p_k` than to its two neighbours is strictly closer to `p_k` than to every other point.
-/
namespace PyPhysim.C16
open MeasureTheory ProbabilityTheory Set
open PyPhysim.C01
open scoped NNReal

/-! ### projections of isotropic noise -/

theorem map_fst_mul (σ a : ℝ) :
    (noise2 σ).map (fun n : ℝ × ℝ => a * n.1) = gaussianReal 0 (NNReal.mk (a ^ 2) (sq_nonneg a) * var σ) := by
  have : (fun n : ℝ × ℝ => a * n.1) = (fun x => a * x) ∘ Prod.fst := rfl
  rw [this, ← Measure.map_map (by fun_prop) measurable_fst]
  unfold noise2
  rw [Measure.map_fst_prod, measure_univ, one_smul]
  unfold noise
  rw [gaussianReal_map_const_mul]; simp

theorem map_snd_mul (σ a : ℝ) :
    (noise2 σ).map (fun n : ℝ × ℝ => a * n.2) = gaussianReal 0 (NNReal.mk (a ^ 2) (sq_nonneg a) * var σ) := by
  have : (fun n : ℝ × ℝ => a * n.2) = (fun x => a * x) ∘ Prod.snd := rfl
  rw [this, ← Measure.map_map (by fun_prop) measurable_snd]
  unfold noise2
  rw [Measure.map_snd_prod, measure_univ, one_smul]
  unfold noise
  rw [gaussianReal_map_const_mul]; simp

/-- the component of the 2-D noise along a unit vector is 1-D noise of the same `σ` -/
theorem proj_law (σ u1 u2 : ℝ) (hu : u1 ^ 2 + u2 ^ 2 = 1) :
    (noise2 σ).map (fun n : ℝ × ℝ => u1 * n.1 + u2 * n.2) = noise σ := by
  have hind : IndepFun (fun n : ℝ × ℝ => u1 * n.1) (fun n : ℝ × ℝ => u2 * n.2) (noise2 σ) := by
    unfold noise2
    exact indepFun_prod (X := fun x : ℝ => u1 * x) (Y := fun x : ℝ => u2 * x) (by fun_prop) (by fun_prop)
  have := gaussianReal_add_gaussianReal_of_indepFun hind (map_fst_mul σ u1) (map_snd_mul σ u2)
  have hv : NNReal.mk (u1 ^ 2) (sq_nonneg u1) * var σ + NNReal.mk (u2 ^ 2) (sq_nonneg u2) * var σ = var σ := by
    apply NNReal.eq
    have c : ((var σ : ℝ≥0) : ℝ) = σ ^ 2 := rfl
    rw [NNReal.coe_add, NNReal.coe_mul, NNReal.coe_mul, c]
    show u1 ^ 2 * σ ^ 2 + u2 ^ 2 * σ ^ 2 = σ ^ 2
    rw [← add_mul, hu, one_mul]
  rw [hv, add_zero] at this
  exact this

/-- how much closer to `q` than to `p` the sample `p + n` is -/
theorem dist2_diff (p q n : ℝ × ℝ) :
    dist2 (p.1 + n.1, p.2 + n.2) q - dist2 (p.1 + n.1, p.2 + n.2) p =
      dist2 q p - 2 * ((q.1 - p.1) * n.1 + (q.2 - p.2) * n.2) := by
  simp only [dist2]; ring

/-- **pairwise error probability**: the noise makes `q` strictly closer than the transmitted `p`
    with probability `Q(|q−p|/2σ)`; the same for "at least as close" -/
theorem halfplane_prob {σ : ℝ} (hσ : 0 < σ) (p q : ℝ × ℝ) (hne : 0 < dist2 q p) :
    (noise2 σ).real {n | dist2 (p.1 + n.1, p.2 + n.2) q < dist2 (p.1 + n.1, p.2 + n.2) p} =
        Qg (Real.sqrt (dist2 q p) / (2 * σ)) ∧
    (noise2 σ).real {n | dist2 (p.1 + n.1, p.2 + n.2) q ≤ dist2 (p.1 + n.1, p.2 + n.2) p} =
        Qg (Real.sqrt (dist2 q p) / (2 * σ)) := by
  set D := dist2 q p with hD
  set d := Real.sqrt D with hd
  have hdpos : 0 < d := Real.sqrt_pos.mpr hne
  have hdd : d * d = D := Real.mul_self_sqrt hne.le
  set u1 := (q.1 - p.1) / d with hu1
  set u2 := (q.2 - p.2) / d with hu2
  have hu : u1 ^ 2 + u2 ^ 2 = 1 := by
    rw [hu1, hu2, div_pow, div_pow, ← add_div, div_eq_one_iff_eq (by positivity)]
    have : D = (q.1 - p.1) * (q.1 - p.1) + (q.2 - p.2) * (q.2 - p.2) := by rw [hD]; simp only [dist2]
    nlinarith
  have key : ∀ n : ℝ × ℝ, (q.1 - p.1) * n.1 + (q.2 - p.2) * n.2 = d * (u1 * n.1 + u2 * n.2) := by
    intro n; rw [hu1, hu2]; field_simp
  have hmeas : Measurable (fun n : ℝ × ℝ => u1 * n.1 + u2 * n.2) := by fun_prop
  have e : d / 2 / σ = d / (2 * σ) := by field_simp
  constructor
  · have hset : {n : ℝ × ℝ | dist2 (p.1 + n.1, p.2 + n.2) q < dist2 (p.1 + n.1, p.2 + n.2) p} =
        (fun n : ℝ × ℝ => u1 * n.1 + u2 * n.2) ⁻¹' Ioi (d / 2) := by
      ext n
      simp only [mem_ofPred_eq, mem_preimage, mem_Ioi]
      have := dist2_diff p q n
      rw [key n] at this
      constructor
      · intro h; nlinarith
      · intro h; nlinarith
    rw [hset, ← map_measureReal_apply hmeas measurableSet_Ioi, proj_law σ u1 u2 hu,
      gauss_upper_tail hσ, e]
  · have hset : {n : ℝ × ℝ | dist2 (p.1 + n.1, p.2 + n.2) q ≤ dist2 (p.1 + n.1, p.2 + n.2) p} =
        (fun n : ℝ × ℝ => u1 * n.1 + u2 * n.2) ⁻¹' Ici (d / 2) := by
      ext n
      simp only [mem_ofPred_eq, mem_preimage, mem_Ici]
      have := dist2_diff p q n
      rw [key n] at this
      constructor
      · intro h; nlinarith
      · intro h; nlinarith
    rw [hset, ← map_measureReal_apply hmeas measurableSet_Ici, proj_law σ u1 u2 hu,
      gauss_upper_tail_closed hσ, e]

/-! ### Voronoi cells of equally spaced points on the unit circle -/

/-- the sinusoid `G(ψ) = x·sin ψ − y·cos ψ` -/
noncomputable def Gs (x y ψ : ℝ) : ℝ := x * Real.sin ψ - y * Real.cos ψ

/-- a sinusoid on an interval shorter than half a period is a non-negative combination of its end values -/
theorem Gs_interp (x y a b t : ℝ) :
    Gs x y t * Real.sin (b - a) = Gs x y a * Real.sin (b - t) + Gs x y b * Real.sin (t - a) := by
  simp only [Gs, Real.sin_sub]; ring

/-- angle of the natural PSK point `k` -/
noncomputable def ang (M k : Nat) (φ : ℝ) : ℝ := 2 * Real.pi / (M:ℝ) * (k:ℝ) + φ

theorem pskPoint_eq (M k : Nat) (φ : ℝ) :
    pskNaturalPoint (α := ℝ) M k φ = (Real.cos (ang M k φ), Real.sin (ang M k φ)) := by
  simp only [pskNaturalPoint, ang, Trig.cos, Trig.sin, Trig.pi]
  norm_num

theorem ang_add (M k m : Nat) (φ : ℝ) : ang M (k + m) φ = ang M k φ + 2 * ((m:ℝ) * Real.pi / (M:ℝ)) := by
  simp only [ang]; push_cast; ring

theorem dist2_unit (r : ℝ × ℝ) (θ : ℝ) :
    dist2 r (Real.cos θ, Real.sin θ) =
      r.1 * r.1 + r.2 * r.2 + 1 - 2 * (r.1 * Real.cos θ + r.2 * Real.sin θ) := by
  simp only [dist2]
  nlinarith [Real.cos_sq_add_sin_sq θ]

theorem corr_diff_aux (x y A η : ℝ) :
    (x * Real.cos (A - η) + y * Real.sin (A - η)) - (x * Real.cos (A + η) + y * Real.sin (A + η)) =
      2 * Real.sin η * Gs x y A := by
  simp only [Gs, Real.cos_sub, Real.cos_add, Real.sin_sub, Real.sin_add]; ring

theorem corr_diff (x y θ η : ℝ) :
    (x * Real.cos θ + y * Real.sin θ) - (x * Real.cos (θ + 2 * η) + y * Real.sin (θ + 2 * η)) =
      2 * Real.sin η * Gs x y (θ + η) := by
  have h := corr_diff_aux x y (θ + η) η
  rw [add_sub_cancel_right] at h
  rw [show θ + 2 * η = θ + η + η by ring]
  exact h

/-- `p_k` is strictly closer to `r` than `p_{k+m}` iff `sin(mπ/M)·G(θ_k + mπ/M) > 0` -/
theorem closer_iff (M k m : Nat) (φ : ℝ) (r : ℝ × ℝ) :
    dist2 r (pskNaturalPoint M k φ) < dist2 r (pskNaturalPoint (α := ℝ) M (k + m) φ) ↔
      0 < Real.sin ((m:ℝ) * Real.pi / (M:ℝ)) * Gs r.1 r.2 (ang M k φ + (m:ℝ) * Real.pi / (M:ℝ)) := by
  rw [pskPoint_eq, pskPoint_eq, dist2_unit, dist2_unit, ang_add]
  have := corr_diff r.1 r.2 (ang M k φ) ((m:ℝ) * Real.pi / (M:ℝ))
  constructor <;> intro h <;> nlinarith

theorem sin_frac_pos (j M : Nat) (h0 : 0 < j) (hj : j < M) : 0 < Real.sin ((j:ℝ) * Real.pi / (M:ℝ)) := by
  have hM : (0:ℝ) < M := by exact_mod_cast (by omega : 0 < M)
  have hj0 : (0:ℝ) < j := by exact_mod_cast h0
  have hjM : (j:ℝ) < M := by exact_mod_cast hj
  apply Real.sin_pos_of_pos_of_lt_pi
  · positivity
  · rw [div_lt_iff₀ hM]; nlinarith [Real.pi_pos]

theorem sin_frac_nonneg (j M : Nat) (hj : j < M) : 0 ≤ Real.sin ((j:ℝ) * Real.pi / (M:ℝ)) := by
  rcases Nat.eq_zero_or_pos j with h0 | h0
  · subst h0; simp
  · exact (sin_frac_pos j M h0 hj).le

theorem pos_right_of_mul_pos {a b : ℝ} (h : 0 < a * b) (ha : 0 < a) : 0 < b := by
  by_contra hb
  push Not at hb
  have := mul_nonpos_of_nonneg_of_nonpos ha.le hb
  linarith

theorem pos_left_of_mul_pos {a b : ℝ} (h : 0 < a * b) (hb : 0 < b) : 0 < a :=
  pos_right_of_mul_pos (by rwa [mul_comm] at h) hb

/-- **Voronoi cell of a PSK point** (`M ≥ 3`): strictly closer than both neighbours ⇒ strictly closer
    than every other point -/
theorem psk_voronoi (M : Nat) (hM : 3 ≤ M) (k : Nat) (φ : ℝ) (r : ℝ × ℝ)
    (h1 : dist2 r (pskNaturalPoint M k φ) < dist2 r (pskNaturalPoint (α := ℝ) M (k + 1) φ))
    (h2 : dist2 r (pskNaturalPoint M k φ) < dist2 r (pskNaturalPoint (α := ℝ) M (k + (M - 1)) φ))
    (m : Nat) (hm1 : 1 ≤ m) (hmM : m < M) :
    dist2 r (pskNaturalPoint M k φ) < dist2 r (pskNaturalPoint (α := ℝ) M (k + m) φ) := by
  rw [closer_iff] at h1 h2 ⊢
  set θ := ang M k φ
  set G := Gs r.1 r.2
  have hMr : (0:ℝ) < M := by exact_mod_cast (by omega : 0 < M)
  have ga : 0 < G (θ + ((1:Nat):ℝ) * Real.pi / (M:ℝ)) :=
    pos_right_of_mul_pos h1 (sin_frac_pos 1 M (by omega) (by omega))
  have gb : 0 < G (θ + ((M - 1 : Nat):ℝ) * Real.pi / (M:ℝ)) :=
    pos_right_of_mul_pos h2 (sin_frac_pos (M - 1) M (by omega) (by omega))
  set a := θ + ((1:Nat):ℝ) * Real.pi / (M:ℝ) with ha
  set b := θ + ((M - 1 : Nat):ℝ) * Real.pi / (M:ℝ) with hb
  set t := θ + (m:ℝ) * Real.pi / (M:ℝ) with ht
  have hba : b - a = ((M - 2 : Nat):ℝ) * Real.pi / (M:ℝ) := by
    rw [ha, hb, Nat.cast_sub (by omega : 1 ≤ M), Nat.cast_sub (by omega : 2 ≤ M)]; push_cast; ring
  have hbt : b - t = ((M - 1 - m : Nat):ℝ) * Real.pi / (M:ℝ) := by
    rw [hb, ht, Nat.cast_sub (by omega : m ≤ M - 1), Nat.cast_sub (by omega : 1 ≤ M)]; push_cast; ring
  have hta : t - a = ((m - 1 : Nat):ℝ) * Real.pi / (M:ℝ) := by
    rw [ha, ht, Nat.cast_sub hm1]; push_cast; ring
  have s1 : 0 < Real.sin (b - a) := by rw [hba]; exact sin_frac_pos _ _ (by omega) (by omega)
  have s2 : 0 ≤ Real.sin (b - t) := by rw [hbt]; exact sin_frac_nonneg _ _ (by omega)
  have s3 : 0 ≤ Real.sin (t - a) := by rw [hta]; exact sin_frac_nonneg _ _ (by omega)
  have key := Gs_interp r.1 r.2 a b t
  have hpos : 0 < G a * Real.sin (b - t) + G b * Real.sin (t - a) := by
    rcases Nat.lt_or_ge 1 m with hgt | hle
    · have : 0 < Real.sin (t - a) := by rw [hta]; exact sin_frac_pos _ _ (by omega) (by omega)
      have h3 : 0 < G b * Real.sin (t - a) := mul_pos gb this
      have h4 : 0 ≤ G a * Real.sin (b - t) := mul_nonneg ga.le s2
      linarith
    · have hm : m = 1 := by omega
      have : 0 < Real.sin (b - t) := by rw [hbt]; exact sin_frac_pos _ _ (by omega) (by omega)
      have h3 : 0 < G a * Real.sin (b - t) := mul_pos ga this
      have h4 : 0 ≤ G b * Real.sin (t - a) := mul_nonneg gb.le s3
      linarith
  have gt : 0 < G t := by
    have : 0 < G t * Real.sin (b - a) := by rw [key]; exact hpos
    exact pos_left_of_mul_pos this s1
  exact mul_pos (sin_frac_pos m M (by omega) hmM) gt

/-- the complementary events: the transmitted point stays (weakly / strictly) nearer than `q` -/
theorem halfplane_prob_compl {σ : ℝ} (hσ : 0 < σ) (p q : ℝ × ℝ) (hne : 0 < dist2 q p) :
    (noise2 σ).real {n | dist2 (p.1 + n.1, p.2 + n.2) p ≤ dist2 (p.1 + n.1, p.2 + n.2) q} =
        1 - Qg (Real.sqrt (dist2 q p) / (2 * σ)) := by
  set D := dist2 q p with hD
  set d := Real.sqrt D with hd
  have hdpos : 0 < d := Real.sqrt_pos.mpr hne
  have hdd : d * d = D := Real.mul_self_sqrt hne.le
  set u1 := (q.1 - p.1) / d with hu1
  set u2 := (q.2 - p.2) / d with hu2
  have hu : u1 ^ 2 + u2 ^ 2 = 1 := by
    rw [hu1, hu2, div_pow, div_pow, ← add_div, div_eq_one_iff_eq (by positivity)]
    have : D = (q.1 - p.1) * (q.1 - p.1) + (q.2 - p.2) * (q.2 - p.2) := by rw [hD]; simp only [dist2]
    nlinarith
  have key : ∀ n : ℝ × ℝ, (q.1 - p.1) * n.1 + (q.2 - p.2) * n.2 = d * (u1 * n.1 + u2 * n.2) := by
    intro n; rw [hu1, hu2]; field_simp
  have hmeas : Measurable (fun n : ℝ × ℝ => u1 * n.1 + u2 * n.2) := by fun_prop
  have e : d / 2 / σ = d / (2 * σ) := by field_simp
  have hset : {n : ℝ × ℝ | dist2 (p.1 + n.1, p.2 + n.2) p ≤ dist2 (p.1 + n.1, p.2 + n.2) q} =
      (fun n : ℝ × ℝ => u1 * n.1 + u2 * n.2) ⁻¹' Iic (d / 2) := by
    ext n
    simp only [mem_ofPred_eq, mem_preimage, mem_Iic]
    have := dist2_diff p q n
    rw [key n] at this
    constructor
    · intro h; nlinarith
    · intro h; nlinarith
  rw [hset, ← map_measureReal_apply hmeas measurableSet_Iic, proj_law σ u1 u2 hu, gauss_Iic hσ, e]

/-! ### the PSK table -/

theorem pskPoint_period (M j : Nat) (hM : 0 < M) (φ : ℝ) :
    pskNaturalPoint (α := ℝ) M (j + M) φ = pskNaturalPoint M j φ := by
  rw [pskPoint_eq, pskPoint_eq]
  have hMr : (M:ℝ) ≠ 0 := by exact_mod_cast hM.ne'
  have : ang M (j + M) φ = ang M j φ + 2 * Real.pi := by
    simp only [ang]; push_cast; field_simp; ring
  rw [this, Real.cos_add_two_pi, Real.sin_add_two_pi]

theorem pskPoint_mod (M j : Nat) (hM : 0 < M) (hj : j < 2 * M) (φ : ℝ) :
    pskNaturalPoint (α := ℝ) M (j % M) φ = pskNaturalPoint M j φ := by
  rcases Nat.lt_or_ge j M with h | h
  · rw [Nat.mod_eq_of_lt h]
  · have e : j = (j - M) + M := by omega
    have hm : j % M = j - M := by
      rw [Nat.mod_eq_sub_mod h, Nat.mod_eq_of_lt (by omega)]
    rw [hm]; conv_rhs => rw [e]
    exact (pskPoint_period M (j - M) hM φ).symm

theorem pskNatural_getElem? (M k : Nat) (hk : k < M) (φ : ℝ) :
    (pskNatural (α := ℝ) M φ)[k]? = some (pskNaturalPoint M k φ) := by
  simp [pskNatural, hk]

theorem mem_pskNatural {M : Nat} {φ : ℝ} {q : ℝ × ℝ} (hq : q ∈ pskNatural (α := ℝ) M φ) :
    ∃ j, j < M ∧ q = pskNaturalPoint M j φ := by
  simp only [pskNatural, List.mem_map, List.mem_range] at hq
  obtain ⟨j, hj, rfl⟩ := hq
  exact ⟨j, hj, rfl⟩

theorem dist2_comm (a b : ℝ × ℝ) : dist2 a b = dist2 b a := by simp only [dist2]; ring

theorem psk_dmin_pos (M : Nat) (hM : 2 ≤ M) : 0 < (2 * Real.sin (Real.pi / (M:ℝ))) ^ 2 := by
  have := sin_pi_div_pos M hM
  positivity

theorem pskArg_dmin (M : Nat) (s : ℝ) :
    pskArg M s = (2 * Real.sin (Real.pi / (M:ℝ))) / (2 * sigma s) := by
  rw [arg_general, pskArg_eq]; unfold argShape; ring

/-- `P(correct | symbol k) ≤ 1 − Q(d_min/2σ)`: the formula `2Q` is at most twice the exact error rate -/
theorem psk_correct_le (M : Nat) (hM : 2 ≤ M) (k : Nat) (hk : k < M) (φ s : ℝ)
    (c : List (ℝ × ℝ)) (hmem : ∀ q, q ∈ c ↔ q ∈ pskNatural (α := ℝ) M φ) (l : Nat)
    (hl : c[l]? = some (pskNaturalPoint M k φ)) :
    (noise2 (sigma s)).real (correctNoise c (pskNaturalPoint M k φ) l)
      ≤ 1 - Qg (pskArg M s) := by
  set P := pskNaturalPoint (α := ℝ) M k φ with hP
  set q := pskNaturalPoint (α := ℝ) M ((k + 1) % M) φ with hq
  have hqe : q = pskNaturalPoint M (k + 1) φ := pskPoint_mod M (k + 1) (by omega) (by omega) φ
  have hqmem : q ∈ pskNatural (α := ℝ) M φ := by
    simp only [pskNatural, List.mem_map, List.mem_range]
    exact ⟨(k + 1) % M, Nat.mod_lt _ (by omega), rfl⟩
  have hd : dist2 q P = (2 * Real.sin (Real.pi / (M:ℝ))) ^ 2 := by
    rw [hqe]; exact psk_adjacent_dist2 M k (by omega) φ
  have hpos : 0 < dist2 q P := by rw [hd]; exact psk_dmin_pos M hM
  have hsq : Real.sqrt (dist2 q P) = 2 * Real.sin (Real.pi / (M:ℝ)) := by
    rw [hd]; exact Real.sqrt_sq (by have := sin_pi_div_pos M hM; positivity)
  have := halfplane_prob_compl (sigma_pos s) P q hpos
  rw [hsq, ← pskArg_dmin] at this
  rw [← this]
  refine measureReal_mono (fun n hn => ?_) (measure_ne_top _ _)
  exact decided_subset_closed _ _ _ hl hn q ((hmem q).mpr hqmem)

/-- `P(correct | symbol k) ≥ 1 − 2Q(d_min/2σ)` for `M ≥ 3`: the formula `2Q` is at least the exact error rate -/
theorem psk_correct_ge (M : Nat) (hM : 3 ≤ M) (k : Nat) (hk : k < M) (φ s : ℝ)
    (c : List (ℝ × ℝ)) (hmem : ∀ q, q ∈ c ↔ q ∈ pskNatural (α := ℝ) M φ) (hnd : c.Nodup) (l : Nat)
    (hl : c[l]? = some (pskNaturalPoint M k φ)) :
    1 - 2 * Qg (pskArg M s) ≤
      (noise2 (sigma s)).real (correctNoise c (pskNaturalPoint M k φ) l) := by
  set P := pskNaturalPoint (α := ℝ) M k φ with hP
  set q1 := pskNaturalPoint (α := ℝ) M (k + 1) φ with hq1
  set q2 := pskNaturalPoint (α := ℝ) M (k + (M - 1)) φ with hq2
  set μ := noise2 (sigma s)
  have hd1 : dist2 q1 P = (2 * Real.sin (Real.pi / (M:ℝ))) ^ 2 := psk_adjacent_dist2 M k (by omega) φ
  have hd2 : dist2 q2 P = (2 * Real.sin (Real.pi / (M:ℝ))) ^ 2 := by
    have h := psk_adjacent_dist2 M (k + (M - 1)) (by omega) φ
    have e : k + (M - 1) + 1 = k + M := by omega
    rw [e, pskPoint_period M k (by omega) φ] at h
    rw [dist2_comm]; exact h
  have hsq : Real.sqrt ((2 * Real.sin (Real.pi / (M:ℝ))) ^ 2) = 2 * Real.sin (Real.pi / (M:ℝ)) :=
    Real.sqrt_sq (by have := sin_pi_div_pos M (by omega); positivity)
  have hpos := psk_dmin_pos M (by omega : 2 ≤ M)
  -- the two "neighbour at least as close" events have probability Q each
  set B1 := {n : ℝ × ℝ | dist2 (P.1 + n.1, P.2 + n.2) q1 ≤ dist2 (P.1 + n.1, P.2 + n.2) P}
  set B2 := {n : ℝ × ℝ | dist2 (P.1 + n.1, P.2 + n.2) q2 ≤ dist2 (P.1 + n.1, P.2 + n.2) P}
  have hB1 : μ.real B1 = Qg (pskArg M s) := by
    have := (halfplane_prob (sigma_pos s) P q1 (by rw [hd1]; exact hpos)).2
    rw [hd1, hsq, ← pskArg_dmin] at this; exact this
  have hB2 : μ.real B2 = Qg (pskArg M s) := by
    have := (halfplane_prob (sigma_pos s) P q2 (by rw [hd2]; exact hpos)).2
    rw [hd2, hsq, ← pskArg_dmin] at this; exact this
  set C := correctNoise c P l
  -- outside B1 ∪ B2 the decision is correct
  have hcover : (univ : Set (ℝ × ℝ)) ⊆ C ∪ (B1 ∪ B2) := by
    intro n _
    by_cases h1 : n ∈ B1
    · exact Or.inr (Or.inl h1)
    by_cases h2 : n ∈ B2
    · exact Or.inr (Or.inr h2)
    left
    apply open_subset_decided _ hnd l P hl
    intro q hq hne
    obtain ⟨j, hj, rfl⟩ := mem_pskNatural ((hmem q).mp hq)
    have hjk : j ≠ k := by intro e; subst e; exact hne rfl
    set m := (j + M - k) % M with hm
    have hmM : m < M := Nat.mod_lt _ (by omega)
    have hm1 : 1 ≤ m := by
      rcases Nat.lt_or_ge j k with h | h
      · have : j + M - k < M := by omega
        rw [hm, Nat.mod_eq_of_lt this]; omega
      · have : j + M - k = (j - k) + M := by omega
        rw [hm, this, Nat.add_mod_right, Nat.mod_eq_of_lt (by omega)]; omega
    have hkm : (k + m) % M = j := by
      rcases Nat.lt_or_ge j k with h | h
      · have h3 : j + M - k < M := by omega
        have : m = j + M - k := by rw [hm, Nat.mod_eq_of_lt h3]
        rw [this, show k + (j + M - k) = j + M by omega, Nat.add_mod_right, Nat.mod_eq_of_lt hj]
      · have h3 : j + M - k = (j - k) + M := by omega
        have : m = j - k := by rw [hm, h3, Nat.add_mod_right, Nat.mod_eq_of_lt (by omega)]
        rw [this, show k + (j - k) = j by omega, Nat.mod_eq_of_lt hj]
    have hpt : pskNaturalPoint (α := ℝ) M j φ = pskNaturalPoint M (k + m) φ := by
      rw [← hkm]; exact pskPoint_mod M (k + m) (by omega) (by omega) φ
    rw [hpt]
    simp only [B1, B2, mem_ofPred_eq, not_le] at h1 h2
    exact psk_voronoi M hM k φ _ h1 h2 m hm1 hmM
  have h1 : μ.real univ ≤ μ.real (C ∪ (B1 ∪ B2)) := measureReal_mono hcover (measure_ne_top _ _)
  have h2 : μ.real (C ∪ (B1 ∪ B2)) ≤ μ.real C + (μ.real B1 + μ.real B2) := by
    have a1 := measureReal_union_le (μ := μ) C (B1 ∪ B2)
    have a2 := measureReal_union_le (μ := μ) B1 B2
    linarith
  have h3 : μ.real univ = 1 := by simp [μ]
  rw [hB1, hB2] at h2
  linarith

/-- `M = 2`: the other point is the only competitor, `P(correct) ≥ 1 − Q ≥ 1 − 2Q` -/
theorem psk_correct_ge_two (k : Nat) (hk : k < 2) (φ s : ℝ)
    (c : List (ℝ × ℝ)) (hmem : ∀ q, q ∈ c ↔ q ∈ pskNatural (α := ℝ) 2 φ) (hnd : c.Nodup) (l : Nat)
    (hl : c[l]? = some (pskNaturalPoint 2 k φ)) :
    1 - 2 * Qg (pskArg 2 s) ≤
      (noise2 (sigma s)).real (correctNoise c (pskNaturalPoint 2 k φ) l) := by
  set P := pskNaturalPoint (α := ℝ) 2 k φ with hP
  set q1 := pskNaturalPoint (α := ℝ) 2 (k + 1) φ with hq1
  set μ := noise2 (sigma s)
  have hd1 : dist2 q1 P = (2 * Real.sin (Real.pi / ((2:Nat):ℝ))) ^ 2 := psk_adjacent_dist2 2 k (by omega) φ
  have hsq : Real.sqrt ((2 * Real.sin (Real.pi / ((2:Nat):ℝ))) ^ 2) = 2 * Real.sin (Real.pi / ((2:Nat):ℝ)) :=
    Real.sqrt_sq (by have := sin_pi_div_pos 2 (by omega); positivity)
  have hpos := psk_dmin_pos 2 (by omega : 2 ≤ 2)
  set B1 := {n : ℝ × ℝ | dist2 (P.1 + n.1, P.2 + n.2) q1 ≤ dist2 (P.1 + n.1, P.2 + n.2) P}
  have hB1 : μ.real B1 = Qg (pskArg 2 s) := by
    have := (halfplane_prob (sigma_pos s) P q1 (by rw [hd1]; exact hpos)).2
    rw [hd1, hsq, ← pskArg_dmin] at this; exact this
  set C := correctNoise c P l
  have hcover : (univ : Set (ℝ × ℝ)) ⊆ C ∪ B1 := by
    intro n _
    by_cases h1 : n ∈ B1
    · exact Or.inr h1
    left
    apply open_subset_decided _ hnd l P hl
    intro q hq hne
    obtain ⟨j, hj, rfl⟩ := mem_pskNatural ((hmem q).mp hq)
    have hjk : j ≠ k := by intro e; subst e; exact hne rfl
    have hkm : (k + 1) % 2 = j := by omega
    have hpt : pskNaturalPoint (α := ℝ) 2 j φ = pskNaturalPoint 2 (k + 1) φ := by
      rw [← hkm]; exact pskPoint_mod 2 (k + 1) (by omega) (by omega) φ
    rw [hpt]
    simp only [B1, mem_ofPred_eq, not_le] at h1
    exact h1
  have h1 : μ.real univ ≤ μ.real (C ∪ B1) := measureReal_mono hcover (measure_ne_top _ _)
  have h2 := measureReal_union_le (μ := μ) C B1
  have h3 : μ.real univ = 1 := by simp [μ]
  have h4 := Qg_nonneg (pskArg 2 s)
  rw [hB1] at h2
  linarith

end PyPhysim.C16
