import PyPhysim.Proofs.C18Users
import PyPhysim.Proofs.C18Ls

/-!
C18 — robustness classes R15 / R16 on the model side.

* R15 (distinct values that are merely close): the estimators are functions of
  the exact values.  Two channels that differ in one tap — by however little —
  have different frequency responses (`taps_of_response_eq`), hence different
  estimates (`ue_estimate_separates`); two channel matrices that differ in one
  entry have different least-squares estimates (`ls_separates_core`).
* R16 (the same array object in two roles): an observation that IS the
  reference array is the observation of the flat channel `[1]`
  (`estimate_self_observation`); `compute_ls_estimation(A, A)` is the identity
  (`ls_same_array_core`).
-/
set_option linter.unusedSectionVars false
namespace PyPhysim.C18P
open PyPhysim.Cazac PyPhysim.Proto Finset

variable {F : Type} [Field F] [CisOps F]

local notation "cis" => (CisOps.cis : ℚ → F)
local notation "conj" => (CisOps.conj : F → F)

section
variable (L : CisLaws F) [CharZero F]
include L

/-- the taps are recovered from the frequency response: equal responses ⇒ equal taps
    (for every reference of constant non-zero modulus) -/
theorem taps_of_response_eq (r h1 h2 : List F) (c : F) (m : ℕ) (hm : 0 < m) (hN : 0 < r.length)
    (hr : ∀ n, n < r.length → r.getD n 0 * conj (r.getD n 0) = c) (hc : c ≠ 0)
    (hl1 : h1.length ≤ r.length) (hl2 : h2.length ≤ r.length)
    (heq : fftPad h1 (m * r.length) = fftPad h2 (m * r.length)) (k : ℕ) :
    h1.getD k 0 = h2.getD k 0 := by
  by_cases hk : k < r.length
  · have e1 := tapEst_own L r h1 c m k hm hN hl1 hk hr
    have e2 := tapEst_own L r h2 c m k hm hN hl2 hk hr
    rw [heq, e2] at e1
    exact (mul_left_cancel₀ hc e1).symm
  · rw [getD_of_length_le h1 k (by omega), getD_of_length_le h2 k (by omega)]

/-- R15: channels that differ in a tap (by any amount) get different estimates -/
theorem ue_estimate_separates (ph : List ℚ) (nrm : Bool) (nu : F) (h1 h2 : List F) (m K : ℕ)
    (hm : 0 < m) (hN : 0 < ph.length)
    (hnu : nrm = true → conj nu = nu ∧ nu * nu = (ph.length : F))
    (hfit1 : h1.length ≤ K + 1) (hlen1 : h1.length ≤ ph.length)
    (hfit2 : h2.length ≤ K + 1) (hlen2 : h2.length ≤ ph.length)
    (k : ℕ) (hne : h1.getD k 0 ≠ h2.getD k 0) :
    estimate1 (rowOf (seqValues ph : List F) nrm nu) nrm m
        (observe (fftPad h1 (m * ph.length)) m (rowOf (seqValues ph : List F) nrm nu)) K
      ≠ estimate1 (rowOf (seqValues ph : List F) nrm nu) nrm m
        (observe (fftPad h2 (m * ph.length)) m (rowOf (seqValues ph : List F) nrm nu)) K := by
  rw [ue_estimate_exact L ph nrm nu h1 m K hm hN hnu hfit1 hlen1,
    ue_estimate_exact L ph nrm nu h2 m K hm hN hnu hfit2 hlen2]
  intro heq
  have heq' : fftPad h1 (m * ph.length) = fftPad h2 (m * ph.length) := by
    injection heq
  have hl : (rowOf (seqValues ph : List F) nrm nu).length = ph.length := by
    rw [rowOf_length, seqValues_length]
  have hc : rowScale (F := F) ph.length nrm ≠ 0 := by
    intro h0
    have := rowScale_mul L ph.length hN nrm
    rw [h0, zero_mul] at this
    exact zero_ne_one this
  apply hne
  apply taps_of_response_eq L (rowOf (seqValues ph : List F) nrm nu) h1 h2 (rowScale ph.length nrm) m hm
    (by rw [hl]; exact hN) _ hc (by rw [hl]; exact hlen1) (by rw [hl]; exact hlen2) (by rw [hl]; exact heq')
  intro n hn
  rw [hl] at hn
  rw [mul_comm, row_prod L ph ph nrm nu rfl hN hnu n hn, sub_self, L.cis_zero, mul_one]

/-- the response of the one-tap channel `[1]` is flat -/
theorem fftPad_one_getD (M f : ℕ) (hf : f < M) : (fftPad [(1 : F)] M).getD f 0 = 1 := by
  rw [fftPad_getD [(1 : F)] M f hf (by simp; omega)]
  simp [L.cis_zero]

/-- …so observing it through the sequence `r` gives `r` itself -/
theorem observe_flat (r : List F) (m : ℕ) (hm : 0 < m) :
    observe (fftPad [(1 : F)] (m * r.length)) m r = r := by
  apply List.ext_getElem
  · rw [observe_length]
  · intro n h1 h2
    have hn : n < r.length := h2
    have h := observe_getD (fftPad [(1 : F)] (m * r.length)) m r n hn
    rw [fftPad_one_getD L _ _ (Nat.mul_lt_mul_of_pos_left hn hm), one_mul] at h
    simpa [List.getD_eq_getElem?_getD, List.getElem?_eq_getElem h1, List.getElem?_eq_getElem hn] using h

/-- R16 (one array object as reference AND as observation): for a raw reference array of unit
    modulus the estimate is the flat response, whatever `K` -/
theorem estimate_self_observation (r : List F) (m K : ℕ) (hm : 0 < m) (hN : 0 < r.length)
    (hr : ∀ n, n < r.length → r.getD n 0 * conj (r.getD n 0) = 1) :
    estimate1 r false m r K = .ok (fftPad [(1 : F)] (m * r.length)) := by
  have h := estimate_exact_core L r [(1 : F)] 1 false m K hm hN hr (by simp) (by simp) (by simp; omega)
  rwa [observe_flat L r m hm] at h

end

/-! ### least squares -/

/-- the identity channel -/
def idMat (F : Type) [Zero F] [One F] (n : ℕ) : Mat F n n := fun i j => if i = j then 1 else 0

theorem matMul_id {n k : ℕ} (S : Mat F n k) : matMul (idMat F n) S = S := by
  apply Matrix.of.injective
  rw [of_matMul]
  have h1 : Matrix.of (idMat F n) = 1 := by
    ext i j
    rw [Matrix.one_apply]
    rfl
  rw [h1, Matrix.one_mul]

/-- R16 (one array object as `Y_p` AND as `s`): the estimate is the identity -/
theorem ls_same_array_core {n k : ℕ} (inv : Mat F n n → Mat F n n) (S : Mat F n k)
    (hinv : Matrix.of (matMul S (conjT S)) * Matrix.of (inv (matMul S (conjT S))) = 1) :
    lsEstimate inv S S = idMat F n := by
  have h := ls_exact_core inv (idMat F n) S hinv
  rwa [matMul_id] at h

/-- R15: channel matrices that differ (in any entry, by any amount) get different estimates -/
theorem ls_separates_core {nr nt np : ℕ} (inv : Mat F nt nt → Mat F nt nt) (H1 H2 : Mat F nr nt)
    (S : Mat F nt np)
    (hinv : Matrix.of (matMul S (conjT S)) * Matrix.of (inv (matMul S (conjT S))) = 1)
    (hne : H1 ≠ H2) :
    lsEstimate inv (matMul H1 S) S ≠ lsEstimate inv (matMul H2 S) S := by
  rw [ls_exact_core inv H1 S hinv, ls_exact_core inv H2 S hinv]
  exact hne

end PyPhysim.C18P
