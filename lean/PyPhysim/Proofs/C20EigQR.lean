import Mathlib.LinearAlgebra.Matrix.Block
import PyPhysim.Proofs.C20Proj

/-!
Why orthonormalising the eigenvector matrix of a Hermitian matrix with a QR
step keeps it an eigenvector matrix (the repaired `calc_whitening_matrix`):
`C V = V diag(L)`, `V = Q R` (`Q` unitary, `R` upper triangular, invertible),
`Cᴴ = C`  ⟹  `C Q = Q diag(L)`.
-/
set_option linter.unusedSectionVars false
namespace PyPhysim.LinAlg.Pf
open Matrix

variable {K : Type} [CommRing K] [StarRing K] {n : Nat}

/-- diagonal entry of a product of two upper-triangular matrices -/
theorem diag_mul_upper (A B : Matrix (Fin n) (Fin n) K) (hA : A.BlockTriangular id)
    (hB : B.BlockTriangular id) (i : Fin n) : (A * B) i i = A i i * B i i := by
  rw [mul_apply, Finset.sum_eq_single i]
  · intro l _ hl
    rcases lt_or_gt_of_ne hl with h | h
    · rw [hA (show id l < id i from h), zero_mul]
    · rw [hB (show id i < id l from h), mul_zero]
  · intro h; exact absurd (Finset.mem_univ i) h

theorem eig_qr_contract (C V Q R Ri : Matrix (Fin n) (Fin n) K) (L : Fin n → K)
    (hCh : Cᴴ = C) (hCV : C * V = V * diagonal L) (hV : V = Q * R) (hQ : Qᴴ * Q = 1)
    (hR : R.BlockTriangular id) (hRi : R * Ri = 1) :
    C * Q = Q * diagonal L := by
  have hRi' : Ri.BlockTriangular id := by
    let _ := invertibleOfRightInverse R Ri hRi
    have := blockTriangular_inv_of_blockTriangular hR
    rwa [inv_eq_right_inv hRi] at this
  have hQ' : Q * Qᴴ = 1 := _root_.mul_eq_one_comm.mp hQ
  have hT1 : Qᴴ * C * Q = R * diagonal L * Ri := by
    calc Qᴴ * C * Q = Qᴴ * C * (Q * (R * Ri)) := by rw [hRi, Matrix.mul_one]
      _ = Qᴴ * (C * (Q * R)) * Ri := by simp only [Matrix.mul_assoc]
      _ = Qᴴ * (Q * R * diagonal L) * Ri := by rw [← hV, hCV]
      _ = (Qᴴ * Q) * R * diagonal L * Ri := by simp only [Matrix.mul_assoc]
      _ = R * diagonal L * Ri := by rw [hQ, Matrix.one_mul]
  have hTtri : (Qᴴ * C * Q).BlockTriangular id := by
    rw [hT1]; exact (hR.mul (blockTriangular_diagonal L)).mul hRi'
  have hTh : (Qᴴ * C * Q)ᴴ = Qᴴ * C * Q := by
    simp only [conjTranspose_mul, conjTranspose_conjTranspose, hCh, Matrix.mul_assoc]
  have hdiag : ∀ i, (Qᴴ * C * Q) i i = L i := by
    intro i
    have h1 : (R * Ri) i i = R i i * Ri i i := diag_mul_upper R Ri hR hRi' i
    rw [hRi, one_apply_eq] at h1
    rw [hT1, diag_mul_upper _ Ri (hR.mul (blockTriangular_diagonal L)) hRi' i, mul_diagonal]
    calc R i i * L i * Ri i i = L i * (R i i * Ri i i) := by ring
      _ = L i := by rw [← h1, mul_one]
  have hT : Qᴴ * C * Q = diagonal L := by
    ext i j
    by_cases hij : i = j
    · subst hij; rw [hdiag, diagonal_apply_eq]
    · rw [diagonal_apply_ne _ hij]
      rcases lt_or_gt_of_ne hij with h | h
      · have h0 : (Qᴴ * C * Q) j i = 0 := hTtri (show id i < id j from h)
        have := congrFun (congrFun hTh i) j
        rw [conjTranspose_apply, h0, star_zero] at this
        exact this.symm
      · exact hTtri (show id j < id i from h)
  calc C * Q = (Q * Qᴴ) * C * Q := by rw [hQ', Matrix.one_mul]
    _ = Q * (Qᴴ * C * Q) := by simp only [Matrix.mul_assoc]
    _ = Q * diagonal L := by rw [hT]

end PyPhysim.LinAlg.Pf
