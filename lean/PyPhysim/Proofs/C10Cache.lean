import PyPhysim.Model.C10Cache
/-!
Invariants of the derived-quantity machine of `Model/C10Cache.lean`
(repaired code, `Cfg.fixed`), for every interpretation `Ops` of the matrix
operations, every number of users and every history.
-/
set_option linter.unusedSimpArgs false
namespace PyPhysim.C10
open PyPhysim.Proto

variable {μ ρ : Type}

/-- value of the `W_H` getter -/
def getWH (O : Ops μ ρ) (st : State μ ρ) : Option μ := (readWH O st).2
/-- value of the `W` getter -/
def getW (O : Ops μ ρ) (st : State μ ρ) : Option μ := (readW O st).2
/-- value of the `full_F` getter -/
def getFullF (O : Ops μ ρ) (K : Nat) (st : State μ ρ) : Except PyErr μ := (readFullF O K st).2

/-- `full_F` recomputed from the CURRENT `_F` and the CURRENT power -/
def derivedFullF (O : Ops μ ρ) (K : Nat) (st : State μ ρ) : Except PyErr μ :=
  match st.f with
  | none => .error .TypeError
  | some F => O.scale F (curP O K st)

/-- `full_W_H` recomputed from the CURRENT values of `W_H` and `full_F` -/
def specFullWH (O : Ops μ ρ) (K : Nat) (st : State μ ρ) : Except PyErr (Option μ) :=
  match getWH O st with
  | none => .ok none
  | some Y =>
    match getFullF O K st with
    | .error e => .error e
    | .ok fF =>
      match O.comp Y fF with
      | .error e => .error e
      | .ok Z => .ok (some Z)

/-- `full_W` recomputed from the CURRENT values -/
def specFullW (O : Ops μ ρ) (K : Nat) (st : State μ ρ) : Except PyErr μ :=
  match specFullWH O K st with
  | .error e => .error e
  | .ok none => .error .TypeError
  | .ok (some Z) => .ok (O.herm Z)

/-- no derived attribute is stale -/
structure Coherent (O : Ops μ ρ) (K : Nat) (st : State μ ρ) : Prop where
  /-- `_W` and `_W_H`, when both stored, are conjugate transposes of each other -/
  wwH : ∀ X Y, st.w = some X → st.wH = some Y → X = O.herm Y ∨ Y = O.herm X
  /-- a stored `_full_W_H` is what the getter would compute now -/
  fullWH : ∀ Z, st.fullWH = some Z → specFullWH O K st = .ok (some Z)
  /-- a stored `_full_W` is the conjugate transpose of the stored `_full_W_H` -/
  fullW : ∀ Z', st.fullW = some Z' → ∃ Z, st.fullWH = some Z ∧ Z' = O.herm Z

/-- a stored `_full_F` is `_F * sqrt(P)` for the current `_F` and power -/
def FullFDerived (O : Ops μ ρ) (K : Nat) (st : State μ ρ) : Prop :=
  ∀ X, st.fullF = some X → derivedFullF O K st = .ok X

/-- `_Ns` is the column count of the stored precoders -/
def NsOK (O : Ops μ ρ) (st : State μ ρ) : Prop :=
  ∀ F, st.f = some F → st.ns = some (O.ncols F)

/-- the operation stores a `_full_F` given from outside -/
def Op.installsFullF : Op μ ρ → Bool
  | .setPrecoders _ (some _) _ => true
  | .solve _ _ _ sol => sol.fullF.isSome
  | _ => false

/-- a power argument the setter accepts -/
def PArg.valid (O : Ops μ ρ) (K : Nat) : PArg ρ → Bool
  | .none => true
  | .scalar x => O.pos x
  | .vec xs => xs.length == K && xs.all O.pos
  | .malformed => false

/-- shape contract of the parameters of an operation: the drawn matrices have the
    requested numbers of columns, the solution has the reported ones -/
def Op.shapeOK (O : Ops μ ρ) (K : Nat) : Op μ ρ → Prop
  | .randomizeF drawn ns _ => O.ncols (O.normalize drawn) = ns.expand K
  | .solve _ _ _ sol => O.ncols sol.f = sol.ns
  | _ => True

/-! ### basic facts -/

theorem setP_cases (O : Ops μ ρ) (K : Nat) (st : State μ ρ) (v : PArg ρ) :
    (∃ p, setP Cfg.fixed O K st v = (storeP Cfg.fixed st p, .ok ()))
    ∨ setP Cfg.fixed O K st v = (st, .error .ValueError) := by
  cases v with
  | none => exact .inl ⟨none, rfl⟩
  | scalar x =>
    by_cases h : O.pos x
    · exact .inl ⟨some (List.replicate K x), by simp [setP, h]⟩
    · exact .inr (by simp [setP, h])
  | vec xs =>
    by_cases h1 : xs.length ≠ K
    · exact .inr (by simp [setP, h1])
    · by_cases h2 : xs.all O.pos
      · exact .inl ⟨some xs, by simp only [setP, h1, h2, if_false, if_true]⟩
      · exact .inr (by simp only [setP, h1, h2, if_false]; rfl)
  | malformed => exact .inr rfl

theorem setP_valid (O : Ops μ ρ) (K : Nat) (st : State μ ρ) (v : PArg ρ) (hv : PArg.valid O K v = true) :
    ∃ p, setP Cfg.fixed O K st v = (storeP Cfg.fixed st p, .ok ()) := by
  cases v with
  | none => exact ⟨none, rfl⟩
  | scalar x => exact ⟨some (List.replicate K x), by simp [setP, show O.pos x = true from hv]⟩
  | vec xs =>
    simp only [PArg.valid, Bool.and_eq_true, beq_iff_eq] at hv
    exact ⟨some xs, by simp [setP, hv.1, hv.2]⟩
  | malformed => simp [PArg.valid] at hv

theorem getWH_readW (O : Ops μ ρ) (st : State μ ρ) : getWH O (readW O st).1 = getWH O st := by
  unfold getWH readWH readW
  cases hw : st.w <;> cases hh : st.wH <;> simp [hw, hh]

theorem getWH_readWH (O : Ops μ ρ) (st : State μ ρ) : getWH O (readWH O st).1 = getWH O st := by
  unfold getWH readWH
  cases hw : st.w <;> cases hh : st.wH <;> simp [hw, hh]

theorem readWH_fields (O : Ops μ ρ) (st : State μ ρ) :
    (readWH O st).1.f = st.f ∧ (readWH O st).1.fullF = st.fullF ∧ (readWH O st).1.p = st.p
    ∧ (readWH O st).1.fullWH = st.fullWH ∧ (readWH O st).1.fullW = st.fullW
    ∧ (readWH O st).1.ns = st.ns := by
  unfold readWH
  cases hw : st.w <;> cases hh : st.wH <;> simp [hw, hh]

theorem readW_fields (O : Ops μ ρ) (st : State μ ρ) :
    (readW O st).1.f = st.f ∧ (readW O st).1.fullF = st.fullF ∧ (readW O st).1.p = st.p
    ∧ (readW O st).1.fullWH = st.fullWH ∧ (readW O st).1.fullW = st.fullW
    ∧ (readW O st).1.ns = st.ns := by
  unfold readW
  cases hw : st.w <;> cases hh : st.wH <;> simp [hw, hh]

theorem readFullF_fields (O : Ops μ ρ) (K : Nat) (st : State μ ρ) :
    (readFullF O K st).1.f = st.f ∧ (readFullF O K st).1.p = st.p
    ∧ (readFullF O K st).1.w = st.w ∧ (readFullF O K st).1.wH = st.wH
    ∧ (readFullF O K st).1.fullWH = st.fullWH ∧ (readFullF O K st).1.fullW = st.fullW
    ∧ (readFullF O K st).1.ns = st.ns := by
  unfold readFullF
  cases hf : st.fullF with
  | some X => simp
  | none =>
    cases hF : st.f with
    | none => simp [hF]
    | some F =>
      cases hs : O.scale F (curP O K st) <;> simp [hs, hF]

theorem getFullF_congr (O : Ops μ ρ) (K : Nat) (s t : State μ ρ)
    (h1 : s.f = t.f) (h2 : s.fullF = t.fullF) (h3 : s.p = t.p) : getFullF O K s = getFullF O K t := by
  unfold getFullF readFullF curP
  rw [h1, h2, h3]
  cases t.fullF with
  | some X => rfl
  | none =>
    cases t.f with
    | none => rfl
    | some F =>
      simp only
      cases O.scale F (match t.p with | none => List.replicate K O.one | some p => p) <;> rfl

theorem getWH_congr (O : Ops μ ρ) (s t : State μ ρ) (h1 : s.w = t.w) (h2 : s.wH = t.wH) :
    getWH O s = getWH O t := by
  unfold getWH readWH
  rw [h1, h2]
  cases t.wH with
  | some Y => rfl
  | none => cases t.w <;> rfl

theorem getFullF_readFullF (O : Ops μ ρ) (K : Nat) (st : State μ ρ) :
    getFullF O K (readFullF O K st).1 = getFullF O K st := by
  unfold getFullF readFullF
  cases hf : st.fullF with
  | some X => simp [hf]
  | none =>
    cases hF : st.f with
    | none => simp [hf, hF]
    | some F =>
      cases hs : O.scale F (curP O K st) with
      | error e => simp [hs, hf, hF]
      | ok X => simp [hs]

theorem specFullWH_congr (O : Ops μ ρ) (K : Nat) (s t : State μ ρ)
    (h1 : getWH O s = getWH O t) (h2 : getFullF O K s = getFullF O K t) :
    specFullWH O K s = specFullWH O K t := by
  unfold specFullWH
  rw [h1, h2]

/-- the outcome of the `full_W_H` getter on a coherent state -/
theorem readFullWH_spec (O : Ops μ ρ) (K : Nat) (st : State μ ρ) (h : Coherent O K st) :
    (readFullWH Cfg.fixed O K st).2 = specFullWH O K st := by
  unfold readFullWH
  cases hz : st.fullWH with
  | some Z => simp [h.fullWH Z hz]
  | none =>
    simp only
    have hg : getWH O st = (readWH O st).2 := rfl
    cases hr : readWH O st with
    | mk st1 oy =>
      have hoy : getWH O st = oy := by rw [hg, hr]
      cases oy with
      | none => simp [specFullWH, hoy]
      | some Y =>
        have hst1 : st1 = (readWH O st).1 := by rw [hr]
        have hff : getFullF O K st1 = getFullF O K st := by
          rw [hst1]
          have := readWH_fields O st
          exact getFullF_congr O K _ _ this.1 this.2.1 this.2.2.1
        have hg2 : getFullF O K st1 = (readFullF O K st1).2 := rfl
        simp only
        cases hr2 : readFullF O K st1 with
        | mk st2 r2 =>
          have hr2' : getFullF O K st = r2 := by rw [← hff, hg2, hr2]
          cases r2 with
          | error e => simp [specFullWH, hoy, hr2', Cfg.fixed]
          | ok fF =>
            simp only
            cases hc : O.comp Y fF with
            | error e => simp [specFullWH, hoy, hr2', hc, Cfg.fixed]
            | ok Z => simp [specFullWH, hoy, hr2', hc]

end PyPhysim.C10
