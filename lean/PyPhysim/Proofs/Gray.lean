import Mathlib.Tactic.Ring
import Mathlib.Tactic.Linarith
import PyPhysim.Model.Gray

/-! Helper lemmas for C15: prefix-xor doubling, telescoping, one-bit steps. -/
namespace PyPhysim.Gray

theorem testBit_f (s x i : Nat) : (f s x).testBit i = (x.testBit i ^^ x.testBit (i + s)) := by
  simp [f, Nat.testBit_xor, Nat.testBit_shiftRight, Nat.add_comm]

theorem strideXor_double (x s : Nat) : ∀ k i,
    strideXor x s (2*k) i = (strideXor x (2*s) k i ^^ strideXor x (2*s) k (i+s))
  | 0, i => by simp [strideXor]
  | k+1, i => by
    have h := strideXor_double x s k (i + 2*s)
    have e : 2*(k+1) = (2*k) + 1 + 1 := by ring
    rw [e]
    simp only [strideXor]
    have e2 : i + s + s = i + 2*s := by ring
    have e3 : i + s + 2*s = i + 2*s + s := by ring
    rw [e2, h, e3]
    generalize x.testBit i = a
    generalize x.testBit (i+s) = b
    generalize strideXor x (2*s) k (i + 2*s) = c
    generalize strideXor x (2*s) k (i + 2*s + s) = d
    cases a <;> cases b <;> cases c <;> cases d <;> rfl

theorem step (x y s k : Nat) (h : ∀ i, y.testBit i = strideXor x (2*s) k i) :
    ∀ i, (f s y).testBit i = strideXor x s (2*k) i := by
  intro i
  rw [testBit_f, h, h, strideXor_double]

theorem g2b_bits (x : Nat) : ∀ (m : Nat) (y : Nat) (k : Nat),
    (∀ i, y.testBit i = strideXor x (2^m) k i) →
    ∀ i, (g2bWith (descPows m) y).testBit i = strideXor x 1 (2^m * k) i
  | 0, y, k, h => by simpa [g2bWith, descPows] using h
  | m+1, y, k, h => by
    intro i
    simp only [g2bWith, descPows, List.foldl_cons]
    have h' : ∀ i, (f (2^m) y).testBit i = strideXor x (2^m) (2*k) i := by
      apply step; intro j; rw [h j]; congr 1; ring
    have := g2b_bits x m (f (2^m) y) (2*k) h' i
    simp only [g2bWith] at this
    rw [this]; congr 1; ring

theorem strideXor_stride_one (x s i : Nat) : strideXor x s 1 i = x.testBit i := by simp [strideXor]

/-- bits of `g2bWith (descPows m)`: xor of `2^m` consecutive bits -/
theorem g2b_prefix (x m i : Nat) :
    (g2bWith (descPows m) x).testBit i = strideXor x 1 (2^m) i := by
  have := g2b_bits x m x 1 (fun j => (strideXor_stride_one x (2^m) j).symm) i
  simpa using this

theorem testBit_b2g (n i : Nat) : (b2g n).testBit i = (n.testBit (i+1) ^^ n.testBit i) := by
  simp [b2g, Nat.testBit_xor, Nat.testBit_shiftRight, Nat.add_comm]

theorem telescope (n : Nat) : ∀ k i, strideXor (b2g n) 1 k i = (n.testBit i ^^ n.testBit (i + k))
  | 0, i => by simp [strideXor]
  | k+1, i => by
    simp only [strideXor]
    rw [telescope n k (i+1), testBit_b2g]
    have : i + 1 + k = i + (k+1) := by ring
    rw [this]
    generalize n.testBit i = a; generalize n.testBit (i+1) = b; generalize n.testBit (i+(k+1)) = c
    cases a <;> cases b <;> cases c <;> rfl

theorem testBit_high {n k i : Nat} (hn : n < 2^k) (hi : k ≤ i) : n.testBit i = false := by
  apply Nat.testBit_lt_two_pow
  calc n < 2^k := hn
    _ ≤ 2^i := Nat.pow_le_pow_right (by norm_num) hi

theorem g2b_b2g (m n : Nat) (hn : n < 2^(2^m)) : g2bWith (descPows m) (b2g n) = n := by
  apply Nat.eq_of_testBit_eq
  intro i
  rw [g2b_prefix, telescope, testBit_high hn (Nat.le_add_left _ _)]
  simp

/-- xor of a run of consecutive bits, peeled from the far end -/
theorem strideXor_snoc (x : Nat) : ∀ k i,
    strideXor x 1 (k+1) i = (strideXor x 1 k i ^^ x.testBit (i + k))
  | 0, i => by simp [strideXor]
  | k+1, i => by
    have h := strideXor_snoc x k (i+1)
    have e : i + 1 + k = i + (k+1) := by ring
    rw [e] at h
    conv => lhs; unfold strideXor
    rw [h]
    conv => rhs; unfold strideXor
    generalize x.testBit i = a; generalize strideXor x 1 k (i+1) = b
    generalize x.testBit (i+(k+1)) = c
    cases a <;> cases b <;> cases c <;> rfl

theorem b2g_g2b (m n : Nat) (hn : n < 2^(2^m)) : b2g (g2bWith (descPows m) n) = n := by
  apply Nat.eq_of_testBit_eq
  intro i
  rw [testBit_b2g, g2b_prefix, g2b_prefix]
  obtain ⟨K, hK⟩ : ∃ K, 2^m = K + 1 := ⟨2^m - 1, by have := Nat.two_pow_pos m; omega⟩
  rw [hK, strideXor_snoc n K (i+1)]
  conv => lhs; rhs; unfold strideXor
  have : n.testBit (i + 1 + K) = false := testBit_high hn (by omega)
  rw [this]
  generalize strideXor n 1 K (i+1) = b
  generalize n.testBit i = a
  cases a <;> cases b <;> rfl

theorem strideXor_high {x k : Nat} (hx : x < 2^k) : ∀ c i, k ≤ i → strideXor x 1 c i = false
  | 0, _, _ => rfl
  | c+1, i, hi => by
    simp only [strideXor]
    rw [testBit_high hx hi, strideXor_high hx c (i+1) (by omega)]
    rfl

/-- the decoders preserve the bit length, whatever the shift list's reach -/
theorem g2b_lt (m n k : Nat) (hn : n < 2^k) : g2bWith (descPows m) n < 2^k := by
  apply Nat.lt_pow_two_of_testBit
  intro i hi
  rw [g2b_prefix]
  exact strideXor_high hn _ i hi

theorem b2g_lt (n k : Nat) (hn : n < 2^k) : b2g n < 2^k := by
  apply Nat.lt_pow_two_of_testBit
  intro i hi
  rw [testBit_b2g, testBit_high hn hi, testBit_high hn (by omega : k ≤ i+1)]
  rfl

/-! ### one-bit steps -/

theorem b2g_xor (a b : Nat) : b2g a ^^^ b2g b = b2g (a ^^^ b) := by
  apply Nat.eq_of_testBit_eq
  intro i
  simp only [testBit_b2g, Nat.testBit_xor]
  generalize a.testBit (i+1) = p; generalize a.testBit i = q
  generalize b.testBit (i+1) = r; generalize b.testBit i = s
  cases p <;> cases q <;> cases r <;> cases s <;> rfl

theorem b2g_ones (k : Nat) : b2g (2^(k+1) - 1) = 2^k := by
  apply Nat.eq_of_testBit_eq
  intro i
  rw [testBit_b2g, Nat.testBit_two_pow_sub_one, Nat.testBit_two_pow_sub_one, Nat.testBit_two_pow]
  by_cases h1 : i < k
  · have : i + 1 < k + 1 := by omega
    have h3 : i < k + 1 := by omega
    have h4 : ¬ k = i := by omega
    simp [this, h3, h4]
  · by_cases h2 : i = k
    · subst h2; simp
    · have : ¬ i + 1 < k + 1 := by omega
      have h3 : ¬ i < k + 1 := by omega
      have h4 : ¬ k = i := by omega
      simp [this, h3, h4]

theorem succ_xor (n : Nat) : ∃ k, n ^^^ (n+1) = 2^(k+1) - 1 := by
  induction n using Nat.strong_induction_on with
  | _ n ih =>
    rcases Nat.even_or_odd' n with ⟨m, rfl | rfl⟩
    · refine ⟨0, ?_⟩
      apply Nat.eq_of_testBit_eq
      intro i
      cases i with
      | zero => simp [Nat.testBit_zero]
      | succ i =>
        simp only [Nat.testBit_succ, Nat.xor_div_two]
        have : (2*m+1)/2 = m := by omega
        have h2 : (2*m)/2 = m := by omega
        rw [this, h2]
        simp
    · obtain ⟨k, hk⟩ := ih m (by omega)
      refine ⟨k+1, ?_⟩
      apply Nat.eq_of_testBit_eq
      intro i
      cases i with
      | zero =>
        simp [Nat.testBit_zero]
        have : 0 < 2^(k+1) := Nat.two_pow_pos _
        omega
      | succ i =>
        simp only [Nat.testBit_succ, Nat.xor_div_two]
        have h1 : (2*m+1)/2 = m := by omega
        have h2 : (2*m+1+1)/2 = m+1 := by omega
        have h3 : (2^(k+1+1) - 1)/2 = 2^(k+1) - 1 := by
          have : 2^(k+1+1) = 2 * 2^(k+1) := by ring
          have hp : 0 < 2^(k+1) := Nat.two_pow_pos _
          omega
        rw [h1, h2, h3, ← hk]

theorem b2g_succ_one_bit (n : Nat) : ∃ k, b2g n ^^^ b2g (n+1) = 2^k := by
  obtain ⟨k, hk⟩ := succ_xor n
  exact ⟨k, by rw [b2g_xor, hk, b2g_ones]⟩

theorem popcount_two_pow : ∀ k, popcount (2^k) = 1
  | 0 => by unfold popcount; simp; unfold popcount; simp
  | k+1 => by
    have hp : 0 < 2^k := Nat.two_pow_pos _
    unfold popcount
    have h0 : 2^(k+1) ≠ 0 := by positivity
    have h1 : 2^(k+1) % 2 = 0 := by rw [pow_succ]; omega
    have h2 : 2^(k+1) / 2 = 2^k := by rw [pow_succ]; omega
    simp only [h0, dite_false, h1, h2, popcount_two_pow k]

/-- popcount counts the set bits below any bound on the length -/
theorem popcount_eq_count : ∀ (k n : Nat), n < 2^k →
    popcount n = ((List.range k).filter (fun i => n.testBit i)).length
  | 0, n, h => by
    have : n = 0 := by simpa using h
    subst this; unfold popcount; simp
  | k+1, n, h => by
    have hh : n / 2 < 2^k := by rw [pow_succ] at h; omega
    have ih := popcount_eq_count k (n/2) hh
    rw [List.range_succ_eq_map, List.filter_cons, List.filter_map]
    have hcomp : ((fun i => n.testBit i) ∘ Nat.succ) = fun i => (n/2).testBit i := by
      funext i; simp [Nat.testBit_succ]
    rw [hcomp]
    by_cases h0 : n = 0
    · subst h0; unfold popcount; simp
      symm; rw [List.length_eq_zero_iff, List.filter_eq_nil_iff]; simp
    · conv => lhs; unfold popcount
      simp only [h0, dite_false]
      rcases Nat.mod_two_eq_zero_or_one n with hm | hm
      · simp [Nat.testBit_zero, hm, ih]
      · simp [Nat.testBit_zero, hm, ih]; omega

end PyPhysim.Gray
