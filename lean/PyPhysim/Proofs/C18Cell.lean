import PyPhysim.Proofs.C18Exact

/-!
C18 — histories of user constructions on one shared root object (R3/R4/R7) and
homogeneity of the estimator (R6).
-/
set_option linter.unusedSectionVars false
namespace PyPhysim.C18P
open PyPhysim.Cazac PyPhysim.Proto Finset

variable {F : Type} [Field F] [CisOps F]

/-- the user a construction yields on a root (`none` when the call is rejected) -/
def freshUser (norm : List F → F) (root : RootSeq) (sp : UeSpec F) : Option (UeSeq F) :=
  match buildUe norm root sp with
  | .ok ue => some ue
  | .error _ => none

/-- the exception a construction raises on a root (`none` when it succeeds) -/
def rejection (norm : List F → F) (root : RootSeq) (sp : UeSpec F) : Option PyErr :=
  match buildUe norm root sp with
  | .ok _ => none
  | .error e => some e

theorem addUser_root (norm : List F → F) (c : Cell F) (sp : UeSpec F) :
    (c.addUser norm sp).1.root = c.root := by
  unfold Cell.addUser
  cases buildUe norm c.root sp <;> rfl

theorem addUser_users (norm : List F → F) (c : Cell F) (sp : UeSpec F) :
    (c.addUser norm sp).1.users = c.users ++ (freshUser norm c.root sp).toList := by
  unfold Cell.addUser freshUser
  cases buildUe norm c.root sp <;> simp

theorem addUser_status (norm : List F → F) (c : Cell F) (sp : UeSpec F) :
    (c.addUser norm sp).2 = rejection norm c.root sp := by
  unfold Cell.addUser rejection
  cases buildUe norm c.root sp <;> rfl

theorem run_root (norm : List F → F) (c : Cell F) (sps : List (UeSpec F)) :
    (Cell.run norm c sps).1.root = c.root := by
  induction sps generalizing c with
  | nil => rfl
  | cons sp rest ih =>
    show (Cell.run norm (c.addUser norm sp).1 rest).1.root = c.root
    rw [ih, addUser_root]

theorem run_users (norm : List F → F) (c : Cell F) (sps : List (UeSpec F)) :
    (Cell.run norm c sps).1.users = c.users ++ sps.filterMap (freshUser norm c.root) := by
  induction sps generalizing c with
  | nil => simp [Cell.run]
  | cons sp rest ih =>
    show (Cell.run norm (c.addUser norm sp).1 rest).1.users = _
    rw [ih, addUser_root, addUser_users, List.filterMap_cons]
    cases freshUser norm c.root sp <;> simp

theorem run_status (norm : List F → F) (c : Cell F) (sps : List (UeSpec F)) :
    (Cell.run norm c sps).2 = sps.map (rejection norm c.root) := by
  induction sps generalizing c with
  | nil => rfl
  | cons sp rest ih =>
    show (c.addUser norm sp).2 :: (Cell.run norm (c.addUser norm sp).1 rest).2 = _
    rw [ih, addUser_root, addUser_status, List.map_cons]

/-! ### homogeneity -/

theorem map_mul_left_getD (x : List F) (g : F) (i : ℕ) (hi : i < x.length) :
    (x.map (fun v => g * v)).getD i 0 = g * x.getD i 0 := by
  simp [List.getD_eq_getElem?_getD, List.getElem?_map, List.getElem?_eq_getElem hi]

theorem tapEst_smul (r Y : List F) (g : F) (k : ℕ) (hY : Y.length = r.length) :
    tapEst r (Y.map (fun v => g * v)) k = g * tapEst r Y k := by
  unfold tapEst
  rw [← mul_div_assoc, Finset.mul_sum]
  congr 1
  apply Finset.sum_congr rfl
  intro n hn
  rw [map_mul_left_getD Y g n (by rw [hY]; exact Finset.mem_range.mp hn)]
  ring

/-- scaling the observation scales the estimate (no hidden absolute threshold) -/
theorem estimate1_smul (r Y E : List F) (g : F) (nrm : Bool) (m K : ℕ) (hm : 0 < m) (hN : 0 < r.length)
    (hY : Y.length = r.length) (h : estimate1 r nrm m Y K = .ok E) :
    estimate1 r nrm m (Y.map (fun v => g * v)) K = .ok (E.map (fun v => g * v)) := by
  rw [estimate1_closed r Y nrm m K hY hm hN] at h
  injection h with h
  rw [estimate1_closed r _ nrm m K (by simp [hY]) hm hN, ← h, List.map_map]
  congr 1
  apply List.map_congr_left
  intro f _
  have hfe : freqEst r (Y.map (fun v => g * v)) m K f = g * freqEst r Y m K f := by
    unfold freqEst
    rw [Finset.mul_sum]
    apply Finset.sum_congr rfl
    intro k _
    rw [tapEst_smul r Y g k hY]
    ring
  simp only [Function.comp_def, hfe]
  cases nrm <;> simp [mul_assoc]

end PyPhysim.C18P
