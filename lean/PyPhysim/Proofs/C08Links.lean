/-
C08 — the product `big_H · vstack(data)` decomposes, receiver by receiver, into the
sum over the transmitters of (block of `big_H`) · (data of that transmitter).
Needs the additive monoid laws of the scalars (Mathlib's `AddMonoid`).
-/
import Mathlib.Algebra.Group.Defs
import PyPhysim.Proofs.C08
set_option linter.unusedSectionVars false
namespace PyPhysim.C08

section Vec
variable {α : Type} [AddMonoid α]

theorem length_vecAdd (a b : List α) : (vecAdd a b).length = min a.length b.length := by
  simp [vecAdd]

theorem vecAdd_assoc (a b c : List α) : vecAdd (vecAdd a b) c = vecAdd a (vecAdd b c) := by
  unfold vecAdd
  induction a generalizing b c with
  | nil => simp
  | cons x a ih =>
    cases b with
    | nil => simp
    | cons y b =>
      cases c with
      | nil => simp
      | cons z c => simp [add_assoc, ih]

theorem vecAdd_zeros_left (v : List α) {c : Nat} (h : v.length = c) :
    vecAdd (List.replicate c 0) v = v := by
  subst h
  unfold vecAdd
  induction v with
  | nil => simp
  | cons x v ih => simp [List.replicate_succ, ih]

theorem vecAdd_zeros_right (v : List α) {c : Nat} (h : v.length = c) :
    vecAdd v (List.replicate c 0) = v := by
  subst h
  unfold vecAdd
  induction v with
  | nil => simp
  | cons x v ih => simp [List.replicate_succ, ih]

end Vec

section RowMul
variable {α : Type} [AddMonoid α] [Mul α]

/-- one step of `rowMul` -/
def rmStep (acc : List α) (xb : α × List α) : List α := vecAdd acc (xb.2.map fun y => xb.1 * y)

theorem rowMul_eq (r : List α) (B : Mat α) :
    rowMul r B = (r.zip B).foldl rmStep (List.replicate (cols B) 0) := rfl

theorem foldl_rm_length (L : List (α × List α)) (acc : List α) {c : Nat} (ha : acc.length = c)
    (hL : ∀ xb ∈ L, xb.2.length = c) : (L.foldl rmStep acc).length = c := by
  induction L generalizing acc with
  | nil => exact ha
  | cons h t ih =>
    simp only [List.foldl_cons]
    apply ih
    · simp [rmStep, length_vecAdd, ha, hL h (by simp)]
    · intro xb hx; exact hL xb (by simp [hx])

theorem foldl_rm_shift (L : List (α × List α)) (acc : List α) {c : Nat} (ha : acc.length = c)
    (hL : ∀ xb ∈ L, xb.2.length = c) :
    L.foldl rmStep acc = vecAdd acc (L.foldl rmStep (List.replicate c 0)) := by
  induction L generalizing acc with
  | nil => simp [vecAdd_zeros_right acc ha]
  | cons h t ih =>
    have hh : h.2.length = c := hL h (by simp)
    have ht : ∀ xb ∈ t, xb.2.length = c := fun xb hx => hL xb (by simp [hx])
    simp only [List.foldl_cons]
    have l1 : (rmStep acc h).length = c := by simp [rmStep, length_vecAdd, ha, hh]
    have l2 : (rmStep (List.replicate c 0) h).length = c := by simp [rmStep, length_vecAdd, hh]
    rw [ih (rmStep acc h) l1 ht, ih (rmStep (List.replicate c 0) h) l2 ht]
    have : rmStep (List.replicate c 0) h = h.2.map fun y => h.1 * y := by
      simp only [rmStep]; exact vecAdd_zeros_left _ (by simp [hh])
    rw [this]
    simp only [rmStep]
    rw [vecAdd_assoc]

/-- all rows have `c` entries -/
def IsMat (X : Mat α) (c : Nat) : Prop := ∀ r ∈ X, r.length = c

theorem cols_of_isMat {X : Mat α} {c : Nat} (h : IsMat X c) (hne : X ≠ []) : cols X = c := by
  cases X with
  | nil => exact absurd rfl hne
  | cons r X => exact h r (by simp)

theorem rowMul_length (r : List α) {X : Mat α} {c : Nat} (h : IsMat X c) (hne : X ≠ []) :
    (rowMul r X).length = c := by
  rw [rowMul_eq, cols_of_isMat h hne]
  apply foldl_rm_length _ _ (by simp)
  intro xb hx
  exact h xb.2 (List.of_mem_zip hx).2

theorem rowMul_append (r₁ r₂ : List α) {X₁ X₂ : Mat α} {c : Nat} (hlen : r₁.length = X₁.length)
    (h1 : IsMat X₁ c) (h2 : IsMat X₂ c) (hne1 : X₁ ≠ []) (hne2 : X₂ ≠ []) :
    rowMul (r₁ ++ r₂) (X₁ ++ X₂) = vecAdd (rowMul r₁ X₁) (rowMul r₂ X₂) := by
  have h12 : IsMat (X₁ ++ X₂) c := by
    intro r hr
    rcases List.mem_append.mp hr with h | h
    · exact h1 r h
    · exact h2 r h
  rw [rowMul_eq, rowMul_eq, rowMul_eq, cols_of_isMat h12 (by simp [hne1]), cols_of_isMat h1 hne1,
    cols_of_isMat h2 hne2, List.zip_append hlen, List.foldl_append]
  apply foldl_rm_shift
  · apply foldl_rm_length _ _ (by simp)
    intro xb hx; exact h1 xb.2 (List.of_mem_zip hx).2
  · intro xb hx; exact h2 xb.2 (List.of_mem_zip hx).2


/-- sum of a non-empty list of vectors -/
def vsum : List (List α) → List α
  | [] => []
  | [v] => v
  | v :: vs => vecAdd v (vsum vs)

/-- a row split into per-transmitter pieces times the stacked data is the sum over the
    transmitters of piece times data -/
theorem rowMul_flatten (rs : List (List α)) (xs : List (Mat α)) {c : Nat}
    (hlen : rs.length = xs.length) (hne : xs ≠ [])
    (hpair : ∀ (i : Nat) (r : List α) (x : Mat α), rs[i]? = some r → xs[i]? = some x →
      r.length = x.length ∧ x ≠ [] ∧ IsMat x c) :
    rowMul rs.flatten xs.flatten = vsum (List.zipWith rowMul rs xs) := by
  induction rs generalizing xs with
  | nil =>
    cases xs with
    | nil => exact absurd rfl hne
    | cons x xs => simp at hlen
  | cons r rs ih =>
    cases xs with
    | nil => simp at hlen
    | cons x xs =>
      obtain ⟨h1, h2, h3⟩ := hpair 0 r x (by simp) (by simp)
      cases xs with
      | nil =>
        have : rs = [] := by simpa using hlen
        subst this
        simp [vsum]
      | cons x' xs =>
        cases rs with
        | nil => simp at hlen
        | cons r' rs =>
          have hlen' : (r' :: rs).length = (x' :: xs).length := by simpa using hlen
          have hpair' : ∀ (i : Nat) (r : List α) (x : Mat α), (r' :: rs)[i]? = some r →
              (x' :: xs)[i]? = some x → r.length = x.length ∧ x ≠ [] ∧ IsMat x c := by
            intro i r x hr hx
            exact hpair (i + 1) r x (by simpa using hr) (by simpa using hx)
          have hrest := ih (x' :: xs) hlen' (by simp) hpair'
          have hX2 : IsMat (x' :: xs).flatten c := by
            intro row hrow
            obtain ⟨m, hm, hrm⟩ := List.mem_flatten.mp hrow
            obtain ⟨i, hi, rfl⟩ := List.getElem_of_mem hm
            have hi' : i < (r' :: rs).length := by rw [hlen']; exact hi
            exact (hpair' i _ _ (List.getElem?_eq_getElem hi') (List.getElem?_eq_getElem hi)).2.2 row hrm
          have hne2 : (x' :: xs).flatten ≠ [] := by
            have := (hpair' 0 r' x' (by simp) (by simp)).2.1
            simp [this]
          simp only [List.flatten_cons (l := r), List.flatten_cons (l := x), List.zipWith_cons_cons]
          rw [rowMul_append r _ h1 h3 hX2 h2 hne2, hrest]
          simp [vsum]

theorem flatten_segs {β : Type} (ns : List Nat) (ρ : List β) (h : ρ.length = ns.sum) :
    ((List.range ns.length).map fun l => seg ns ρ l).flatten = ρ := by
  induction ns generalizing ρ with
  | nil => simp at h; simp [h]
  | cons n ns ih =>
    have hsplit : ρ = ρ.take n ++ ρ.drop n := (List.take_append_drop n ρ).symm
    have htl : (ρ.take n).length = n := by simp at h; simp; omega
    have hdl : (ρ.drop n).length = ns.sum := by simp at h; simp; omega
    rw [List.length_cons, List.range_succ_eq_map, List.map_cons, List.flatten_cons, List.map_map]
    have h0 : seg (n :: ns) ρ 0 = ρ.take n := by simp [seg, slice, cum]
    have hs : ∀ i, seg (n :: ns) ρ (i + 1) = seg ns (ρ.drop n) i := by
      intro i
      conv => lhs; rw [hsplit]
      exact seg_cons_succ n ns _ _ i htl
    rw [h0]
    have : (List.map ((fun l => seg (n :: ns) ρ l) ∘ Nat.succ) (List.range ns.length))
        = (List.range ns.length).map fun l => seg ns (ρ.drop n) l := by
      apply List.map_congr_left
      intro i _
      exact hs i
    rw [this, ih (ρ.drop n) hdl]
    exact List.take_append_drop n ρ


theorem mem_expand1 {β : Type} {ps : List β} {ns : List Nat} {x : β} (h : x ∈ expand1 ps ns) : x ∈ ps := by
  unfold expand1 at h
  rw [List.mem_flatMap] at h
  obtain ⟨pn, hpn, hx⟩ := h
  rw [List.mem_replicate] at hx
  rw [hx.2]
  exact (List.of_mem_zip hpn).1

theorem expand1_length {β : Type} (ps : List β) (ns : List Nat) (h : ps.length = ns.length) :
    (expand1 ps ns).length = ns.sum := by
  induction ps generalizing ns with
  | nil => cases ns <;> simp_all [expand1]
  | cons p ps ih =>
    cases ns with
    | nil => simp at h
    | cons n ns =>
      have := ih ns (by simpa using h)
      simp only [expand1] at this ⊢
      simp [this]

theorem seg_length_eq {β : Type} {ns : List Nat} {k n : Nat} (h : ns[k]? = some n) (l : List β)
    (hl : ns.sum ≤ l.length) : (seg ns l k).length = n := by
  have h1 := cum_succ h
  have h2 := cum_le_sum ns (k + 1)
  simp [seg, slice, h1]
  omega

theorem mem_seg {β : Type} {ns : List Nat} {l : List β} {k : Nat} {x : β} (h : x ∈ seg ns l k) : x ∈ l := by
  unfold seg slice at h
  exact List.mem_of_mem_drop (List.mem_of_mem_take h)

/-- every row of the current `big_H` has `sum Nt` entries when the raw matrix has -/
theorem specBigH_row_length (F : Fns α) (st : State α) (hw : WellShaped st)
    (hraw : ∀ r ∈ st.raw, r.length = st.nt.sum) : ∀ r ∈ specBigH F st, r.length = st.nt.sum := by
  unfold specBigH
  cases hp : st.pl with
  | none => exact hraw
  | some p =>
    intro r hr
    simp only [scaleEl] at hr
    obtain ⟨i, hi, hri⟩ := List.getElem_of_mem hr
    have hsome := List.getElem?_eq_getElem hi
    rw [hri, List.getElem?_zipWith_eq_some] at hsome
    obtain ⟨a, b, ha, hb, rfl⟩ := hsome
    have h1 := hraw a (List.mem_of_getElem? ha)
    have hm := List.mem_of_getElem? hb
    unfold expand at hm
    have hm' := mem_expand1 hm
    rw [List.mem_map] at hm'
    obtain ⟨prow, hprow, heq⟩ := hm'
    obtain ⟨j, hj, rfl⟩ := List.getElem_of_mem hprow
    have hl := (hw.pl_rows p hp).2 j _ (List.getElem?_eq_getElem hj)
    have h2 : b.length = st.nt.sum := by
      rw [← heq]; exact expand1_length _ _ (by rw [hl, hw.nt_len])
    simp [h1, h2]

/-- Receiver `k`'s rows of `big_H · vstack(xs)`: each is the sum over the transmitters `l` of
    (that row of the (k,l) block of `big_H`) times `xs[l]`. -/
theorem received_rows_sum_over_links (F : Fns α) (st : State α) (hw : WellShaped st)
    (hraw : ∀ r ∈ st.raw, r.length = st.nt.sum) (xs : List (Mat α)) {c : Nat}
    (hlen : xs.length = st.nt.length) (hne : xs ≠ [])
    (hx : ∀ (l : Nat) (x : Mat α), xs[l]? = some x → st.nt[l]? = some x.length ∧ x ≠ [] ∧ IsMat x c)
    (k : Nat) :
    seg st.nr (matMul (specBigH F st) xs.flatten) k
      = (rowBlock (specBigH F st) st.nr k).map fun ρ =>
          vsum (List.zipWith rowMul ((List.range st.nt.length).map fun l => seg st.nt ρ l) xs) := by
  unfold matMul rowBlock
  rw [seg_map]
  apply List.map_congr_left
  intro ρ hρ
  have hρlen : ρ.length = st.nt.sum := specBigH_row_length F st hw hraw ρ (mem_seg hρ)
  conv => lhs; rw [← flatten_segs st.nt ρ hρlen]
  apply rowMul_flatten _ _ (by simp [hlen]) hne
  intro i r x hr hxi
  obtain ⟨h1, h2, h3⟩ := hx i x hxi
  have hi : i < st.nt.length := by
    have := (List.getElem?_eq_some_iff.mp h1).1; exact this
  simp only [List.getElem?_map, List.getElem?_range hi, Option.map_some, Option.some.injEq] at hr
  subst hr
  exact ⟨seg_length_eq h1 ρ (by omega), h2, h3⟩

end RowMul
end PyPhysim.C08
