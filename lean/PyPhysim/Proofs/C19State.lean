import PyPhysim.Proofs.C19Rect
import PyPhysim.Model.C19State

set_option linter.unusedSectionVars false
set_option linter.unusedTactic false
set_option linter.unreachableTactic false

/-! C19 — no stale derived state: every setter maps a freshly constructed cell to the freshly
constructed cell with the new attribute. -/
namespace PyPhysim.C19

section field
variable {α : Type} [Field α] [LinearOrder α] [IsStrictOrderedRing α] [Circ α]

/-- corners of the fresh square cell of radius `R ≥ 0`: `pos ∓ (R/√2)(1+j)` -/
theorem fresh_square_corners (p : Pt α) (R θ : α) (hs : 0 < Circ.sqrt ((2 : ℕ) : α)) (hR : 0 ≤ R) :
    (fresh .square p R θ).lower = (p.1 - R / Circ.sqrt ((2 : ℕ) : α), p.2 - R / Circ.sqrt ((2 : ℕ) : α)) ∧
    (fresh .square p R θ).upper = (p.1 + R / Circ.sqrt ((2 : ℕ) : α), p.2 + R / Circ.sqrt ((2 : ℕ) : α)) := by
  have hh : 0 ≤ R / Circ.sqrt ((2 : ℕ) : α) := div_nonneg hR hs.le
  have e : sideOfRadius R / ((2 : ℕ) : α) = R / Circ.sqrt ((2 : ℕ) : α) := by
    simp only [sideOfRadius, Nat.cast_ofNat]; field_simp
  have m1 : ∀ x : α, pmin (x - R / Circ.sqrt ((2 : ℕ) : α)) (x + R / Circ.sqrt ((2 : ℕ) : α))
      = x - R / Circ.sqrt ((2 : ℕ) : α) := by
    intro x; unfold pmin; rw [if_neg]; push Not; linarith
  have m2 : ∀ x : α, pmax (x - R / Circ.sqrt ((2 : ℕ) : α)) (x + R / Circ.sqrt ((2 : ℕ) : α))
      = x + R / Circ.sqrt ((2 : ℕ) : α) := by
    intro x; unfold pmax
    split_ifs with h
    · rfl
    · push Not at h; linarith
  simp only [fresh, squareCell, mkSquare, mkRect, e, m1, m2, and_self]

theorem CellState.ext' (a b : CellState α) (h1 : a.kind = b.kind) (h2 : a.pos = b.pos)
    (h3 : a.radius = b.radius) (h4 : a.rot = b.rot) (h5 : a.lower = b.lower) (h6 : a.upper = b.upper)
    (h7 : a.secs = b.secs) : a = b := by
  cases a; cases b; simp_all

/-- every cell kind: `pos` setter on a fresh cell gives the fresh cell at the new position -/
theorem step_fresh_pos (k : CellKind) (p p' : Pt α) (R θ : α) (hs : 0 < Circ.sqrt ((2 : ℕ) : α)) (hR : 0 ≤ R) :
    step (fresh k p R θ) (.setPos p') = fresh k p' R θ := by
  show stepPos (fresh k p R θ) p' = fresh k p' R θ
  cases k
  · rfl
  · rfl
  · obtain ⟨l, u⟩ := fresh_square_corners p R θ hs hR
    obtain ⟨l', u'⟩ := fresh_square_corners p' R θ hs hR
    apply CellState.ext' <;> try rfl
    · show padd (fresh .square p R θ).lower (psub p' (fresh .square p R θ).pos) = (fresh .square p' R θ).lower
      rw [l, l']; simp only [fresh, padd, psub]; ext <;> simp <;> ring
    · show padd (fresh .square p R θ).upper (psub p' (fresh .square p R θ).pos) = (fresh .square p' R θ).upper
      rw [u, u']; simp only [fresh, padd, psub]; ext <;> simp <;> ring

theorem fresh_pos (k : CellKind) (p : Pt α) (R θ : α) : (fresh k p R θ).pos = p := by cases k <;> rfl

/-- the `move_by_*` helpers are moves through the `pos` setter -/
theorem step_fresh_moveBy (k : CellKind) (p d : Pt α) (R θ : α) (hs : 0 < Circ.sqrt ((2 : ℕ) : α)) (hR : 0 ≤ R) :
    step (fresh k p R θ) (.moveBy d) = fresh k (padd p d) R θ := by
  have h := step_fresh_pos k p (padd p d) R θ hs hR
  show stepPos (fresh k p R θ) (padd (fresh k p R θ).pos d) = _
  rw [fresh_pos]; exact h

theorem step_fresh_movePolar (k : CellKind) (p : Pt α) (r a R θ : α) (hs : 0 < Circ.sqrt ((2 : ℕ) : α))
    (hR : 0 ≤ R) :
    step (fresh k p R θ) (.movePolar r a) = fresh k (padd p (smul r (Circ.cisRad a))) R θ := by
  have h := step_fresh_pos k p (padd p (smul r (Circ.cisRad a))) R θ hs hR
  show stepPos (fresh k p R θ) (padd (fresh k p R θ).pos (smul r (Circ.cisRad a))) = _
  rw [fresh_pos]; exact h

/-- every cell kind: `radius` setter on a fresh cell gives the fresh cell with the new radius
    (sector cells re-derived, square corners rescaled) -/
theorem step_fresh_radius (k : CellKind) (p : Pt α) (R R' θ : α) (hs : 0 < Circ.sqrt ((2 : ℕ) : α))
    (hR : 0 < R) (hR' : 0 ≤ R') : step (fresh k p R θ) (.setRadius R') = fresh k p R' θ := by
  cases k
  · rfl
  · rfl
  · obtain ⟨l, u⟩ := fresh_square_corners p R θ hs hR.le
    obtain ⟨l', u'⟩ := fresh_square_corners p R' θ hs hR'
    have hne : R ≠ 0 := ne_of_gt hR
    have hsn : Circ.sqrt ((2 : ℕ) : α) ≠ 0 := ne_of_gt hs
    apply CellState.ext' <;> try rfl
    · show padd (fresh .square p R θ).pos (smul (R' / (fresh .square p R θ).radius)
          (psub (fresh .square p R θ).lower (fresh .square p R θ).pos)) = (fresh .square p R' θ).lower
      rw [l, l']; simp only [fresh, padd, psub, smul]
      ext <;> simp <;> field_simp <;> ring
    · show padd (fresh .square p R θ).pos (smul (R' / (fresh .square p R θ).radius)
          (psub (fresh .square p R θ).upper (fresh .square p R θ).pos)) = (fresh .square p R' θ).upper
      rw [u, u']; simp only [fresh, padd, psub, smul]
      ext <;> simp <;> field_simp <;> ring

/-- every cell kind: `rotation` setter -/
theorem step_fresh_rot (k : CellKind) (p : Pt α) (R θ θ' : α) :
    step (fresh k p R θ) (.setRot θ') = fresh k p R θ' := by
  cases k <;> rfl

/-- the radii a history installs are positive -/
def OpsOk : List (CellOp α) → Prop
  | [] => True
  | .setRadius r :: ops => 0 < r ∧ OpsOk ops
  | _ :: ops => OpsOk ops

/-- **no stale derived state**: after any history of setter calls the stored state is the state of a
    freshly constructed cell with the current position, radius and rotation -/
theorem run_fresh (k : CellKind) (hs : 0 < Circ.sqrt ((2 : ℕ) : α)) :
    ∀ (ops : List (CellOp α)) (p : Pt α) (R θ : α), 0 < R → OpsOk ops →
      run (fresh k p R θ) ops = fresh k (params p R θ ops).1 (params p R θ ops).2.1 (params p R θ ops).2.2 ∧
      0 < (params p R θ ops).2.1
  | [], p, R, θ, hR, _ => ⟨rfl, hR⟩
  | .setPos p' :: ops, p, R, θ, hR, hok => by
    simp only [run, params, step_fresh_pos k p p' R θ hs hR.le]
    exact run_fresh k hs ops p' R θ hR hok
  | .setRadius r :: ops, p, R, θ, hR, hok => by
    simp only [run, params, step_fresh_radius k p R r θ hs hR hok.1.le]
    exact run_fresh k hs ops p r θ hok.1 hok.2
  | .setRot t :: ops, p, R, θ, hR, hok => by
    simp only [run, params, step_fresh_rot]
    exact run_fresh k hs ops p R t hR hok
  | .moveBy d :: ops, p, R, θ, hR, hok => by
    simp only [run, params, step_fresh_moveBy k p d R θ hs hR.le]
    exact run_fresh k hs ops (padd p d) R θ hR hok
  | .movePolar r a :: ops, p, R, θ, hR, hok => by
    simp only [run, params, step_fresh_movePolar k p r a R θ hs hR.le]
    exact run_fresh k hs ops _ R θ hR hok

/-- the constructor `CellSquare(pos, side, rotation)` is the fresh square cell of radius `√2·side/2` -/
theorem freshSquare_eq (p : Pt α) (side θ : α) (hs : 0 < Circ.sqrt ((2 : ℕ) : α)) :
    freshSquare p side θ = fresh .square p (Circ.sqrt ((2 : ℕ) : α) * side / ((2 : ℕ) : α)) θ := by
  have hsn : Circ.sqrt ((2 : ℕ) : α) ≠ 0 := ne_of_gt hs
  have e : sideOfRadius (Circ.sqrt ((2 : ℕ) : α) * side / ((2 : ℕ) : α)) = side := by
    have hsn' : Circ.sqrt (2 : α) ≠ 0 := by simpa using hsn
    simp only [sideOfRadius, Nat.cast_ofNat]; field_simp
  simp only [freshSquare, fresh, e]

/-- the fields a history leaves are the ones the last setters wrote -/
theorem run_fields (st : CellState α) : ∀ (ops : List (CellOp α)),
    ((run st ops).pos, (run st ops).radius, (run st ops).rot) = params st.pos st.radius st.rot ops ∧
    (run st ops).kind = st.kind
  | [] => ⟨rfl, rfl⟩
  | op :: ops => by
    have ih := run_fields (step st op) ops
    cases op <;> cases hk : st.kind <;> simp only [run, params] <;>
      (rw [ih.1, ih.2]; simp [step, stepPos, hk])
end field

end PyPhysim.C19
