import Mathlib.Data.Complex.Basic
import Mathlib.Tactic.FinCases
import PyPhysim.Proofs.C20GmdInvInit

/-!
# `gmd` — correctness of the array model, for real and for complex matrices

`gmd_sound`: scalars `K` as in `RealLike` (a field with conjugation containing the reals, on
which conjugation, `sqrt` and `≤` are the real ones).  For every full SVD `A = U Σ Vᴴ` over `K`
(unitary `U`, `V`; real, positive, non-increasing singular values; `σ̄` their geometric mean) the
executable model `gmd` returns `.ok (Q, R, P, _)` with `Q R Pᴴ = U Σ Vᴴ`, `Qᴴ Q = 1`, `Pᴴ P = 1`,
upper-triangular `R` with constant diagonal `σ̄`.
`realLike_real`, `realLike_complex`: `ℝ` (with `ι = id`) and `ℂ` (with the coercion, the model's
`RSqrt ℂ` and the comparison of real parts `leRe`, as in the compiled driver) are such scalars.
-/
set_option linter.unusedSectionVars false
set_option linter.unusedVariables false
set_option linter.unusedSimpArgs false
namespace PyPhysim.LinAlg.GmdInv
open PyPhysim.Proto PyPhysim.LinAlg Matrix

section generic
variable {K : Type} [Field K] [StarRing K] [RSqrt K] [LE K] [DecidableLE K]

theorem orth_to_eye {m : Nat} (Q : Array (Array K)) (h : Orth (colv m (entryCols Q))) :
    matMul (cT (fun (i j : Fin m) => entryCols Q i.val j.val)) (fun (i j : Fin m) => entryCols Q i.val j.val)
      = eye := by
  funext a b
  have := h a.val b.val a.isLt b.isLt
  simp only [matMul, cT, eye, sumFin_eq, Conj.conj]
  have e : (if a = b then (1 : K) else 0) = if a.val = b.val then 1 else 0 := by
    simp only [Fin.ext_iff]
  rw [e]
  exact this

theorem eye_to_orthH {m : Nat} (U : Mat K m m) (hU : matMul (cT U) U = eye) : (toM U)ᴴ * toM U = 1 := by
  to_matrix at hU
  exact hU

theorem gmd_sound {ι : ℝ →+* K} (hι : RealLike ι) (m n : Nat) (U : Mat K m m) (V : Mat K n n)
    (S : Fin (min m n) → ℝ) (sb : ℝ)
    (hp : 0 < min m n) (hU : matMul (cT U) U = eye) (hV : matMul (cT V) V = eye)
    (hS : ∀ i, 0 < S i) (hmono : ∀ i j, i ≤ j → S j ≤ S i) (hsb : 0 < sb)
    (hprod : sb ^ (min m n) = ∏ i, S i) :
    ∃ Q R P mg, gmd m n (min m n) (ι sb) (colsOf U) (Array.ofFn (fun i => ι (S i))) (colsOf V)
        = .ok (Q, R, P, mg) ∧
      (let Qm : Mat K m m := fun i j => entryCols Q i.val j.val
       let Rm : Mat K m n := fun i j => entryRows R i.val j.val
       let Pm : Mat K n n := fun i j => entryCols P i.val j.val
       matMul (matMul Qm Rm) (cT Pm) = matMul (matMul U (sigmaMat (fun i => ι (S i)))) (cT V) ∧
       matMul (cT Qm) Qm = eye ∧ matMul (cT Pm) Pm = eye ∧
       (∀ i j, j.val < i.val → Rm i j = 0) ∧
       (∀ i j, i.val = j.val → i.val < min m n → Rm i j = ι sb)) := by
  have hU' := eye_to_orthH U hU
  have hV' := eye_to_orthH V hV
  have hpm : min m n ≤ m := Nat.min_le_left m n
  have hpn : min m n ≤ n := Nat.min_le_right m n
  obtain ⟨R0, hR0, hR0s, hR0row, hR0z⟩ :=
    initR_ok m n (min m n) (Array.ofFn (fun i => ι (S i))) hp hpm hpn (by simp)
  have sh0 := init_shape m n (min m n) R0 U V (fun i => ι (S i)) hR0s hR0row
  have inv0 := init_inv ι m n R0 U V S sb hp hU' hV' hS hprod hR0z
  have Spos : ∀ r, r < min m n → 0 < Sx S r := by
    intro r hr; unfold Sx; simp only [hr, dif_pos]; exact hS _
  have Smono : ∀ r r', r ≤ r' → r' < min m n → Sx S r' ≤ Sx S r := by
    intro r r' hrr hr'
    have hr : r < min m n := by omega
    unfold Sx; simp only [hr, hr', dif_pos]
    exact hmono _ _ hrr
  obtain ⟨st, hst, sh, inv⟩ := sweep_ok hι m n (min m n) _ (Sx S) sb _ sh0 inv0 hpm hpn hsb Spos Smono
    (min m n - 1) (le_refl _)
  obtain ⟨R', hfin, hR'⟩ := finish_ok m n (min m n) (ι sb) st sh hp hpm hpn
  obtain ⟨f1, f2, f3⟩ := inv.final hp hpm hpn (entryRows R') hR'
  refine ⟨st.Q, R', st.P, st.margin, ?_, ?_⟩
  · rw [gmd_eq m n (min m n) (ι sb) _ _ _ hp, hR0, ok_bind, hst, ok_bind, hfin]
  · have oQ : Orth (colv m (entryCols st.Q)) := inv.mi.oQ
    have oP : Orth (colv n (entryCols st.P)) := inv.mi.oP
    have ePP := orth_to_eye st.P oP
    refine ⟨?_, orth_to_eye st.Q oQ, ePP, ?_, ?_⟩
    · have ePP' := eye_to_orthH _ ePP
      have ePP'' := _root_.mul_eq_one_comm.mp ePP'
      have key : (toM U * toM (sigmaMat (fun i => ι (S i))) * (toM V)ᴴ) *
            toM (fun (i j : Fin n) => entryCols st.P i.val j.val)
          = toM (fun (i j : Fin m) => entryCols st.Q i.val j.val) *
            toM (fun (i : Fin m) (j : Fin n) => entryRows R' i.val j.val) := by
        ext i b
        have := congrFun (f1 b.val b.isLt) i
        rw [Matrix.mul_apply, Matrix.mul_apply]
        simp only [Matrix.mulVec, dotProduct, colv, Finset.sum_apply, Pi.smul_apply, smul_eq_mul,
          Finset.sum_range] at this
        simp only [Matrix.of_apply]
        exact this.trans (Finset.sum_congr rfl (fun a _ => mul_comm _ _))
      to_matrix
      rw [← key, Matrix.mul_assoc _ _ (toM _)ᴴ, ePP'', Matrix.mul_one]
    · intro i j hji
      exact f2 i.val j.val hji
    · intro i j hij hi
      show entryRows R' i.val j.val = ι sb
      rw [← hij]
      exact f3 i.val hi

end generic

/-- `ℝ` is `RealLike` through the identity -/
theorem realLike_real : RealLike (RingHom.id ℝ) :=
  ⟨fun x => star_trivial x, fun x => rfl, fun x y => Iff.rfl⟩

/-- comparison of the real parts: the order the complex instantiation of the model uses
    (`instance : LE CF := ⟨fun a b => a.re ≤ b.re⟩` in `Drivers/C20.lean`) -/
@[reducible] def leRe : LE ℂ := ⟨fun a b => a.re ≤ b.re⟩
@[reducible] noncomputable def decLeRe : @DecidableLE ℂ leRe := fun a b => inferInstanceAs (Decidable (a.re ≤ b.re))

/-- `ℂ` with the coercion, the model's `RSqrt ℂ` and `leRe` is `RealLike` -/
theorem realLike_complex : @RealLike ℂ _ _ _ leRe Complex.ofRealHom :=
  @RealLike.mk ℂ _ _ _ leRe Complex.ofRealHom (fun x => Complex.conj_ofReal x)
    (fun x => by show ((Real.sqrt (Complex.ofReal x).re : ℝ) : ℂ) = _; rw [Complex.ofReal_re]; rfl)
    (fun x y => by show (Complex.ofReal x).re ≤ (Complex.ofReal y).re ↔ x ≤ y; simp)

/-- example input: singular values `(4, 1)` -/
def exS : Fin (min 2 2) → ℝ := fun i => if i.val = 0 then 4 else 1

theorem ex_hyps : 0 < min 2 2 ∧ matMul (cT (eye : Mat ℝ 2 2)) eye = eye ∧
    matMul (cT (eye : Mat ℝ 2 2)) eye = eye ∧ (∀ i, 0 < exS i) ∧
    (∀ i j, i ≤ j → exS j ≤ exS i) ∧ (0 : ℝ) < 2 ∧ (2 : ℝ) ^ (min 2 2) = ∏ i, exS i := by
  have he : matMul (cT (eye : Mat ℝ 2 2)) eye = eye := by
    to_matrix
    simp
  refine ⟨by decide, he, he, ?_, ?_, by norm_num, ?_⟩
  · intro i; unfold exS; split <;> norm_num
  · intro i j hij
    have hi := i.isLt
    have hj := j.isLt
    have hij' : i.val ≤ j.val := hij
    unfold exS
    split <;> split <;> first | (exfalso; omega) | norm_num
  · show (2 : ℝ) ^ 2 = ∏ i : Fin 2, exS i
    rw [Fin.prod_univ_two]
    simp [exS]; norm_num


/-- example complex unitary factor: `i · 1` -/
noncomputable def exU : Mat ℂ 2 2 := fun i j => if i = j then Complex.I else 0

theorem exU_unitary : matMul (cT exU) exU = eye := by
  funext i j
  fin_cases i <;> fin_cases j <;> simp [matMul, cT, exU, eye, sumFin, Conj.conj]

end PyPhysim.LinAlg.GmdInv
