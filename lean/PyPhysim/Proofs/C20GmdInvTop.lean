import Mathlib.Data.Complex.Basic
import Mathlib.Tactic.FinCases
import PyPhysim.Proofs.C20GmdInvInit

/-!
# `gmd` — correctness of the array model, for real and for complex matrices

`gmd_sound`: scalars `K` as in `RealLike` (a field with conjugation containing the reals, on
which conjugation, `sqrt` and `≤` are the real ones).  For every full SVD `A = U Σ Vᴴ` over `K`
(unitary `U`, `V`; real, positive, non-increasing singular values; `σ̄` their geometric mean) the
executable model `gmd` returns `.ok (Q, R, P, _)` with `Q R Pᴴ = U Σ Vᴴ`, `Qᴴ Q = 1`, `Pᴴ P = 1`,
upper-triangular `R` with constant diagonal `σ̄`.
`realLike_real`, `realLike_complex`: `ℝ` (with `ι = id`) and `ℂ` (with the coercion, the model's
`RSqrt ℂ` and the comparison of real parts `leRe`, as in the compiled driver) are such scalars.
-/
set_option linter.unusedSectionVars false
set_option linter.unusedVariables false
set_option linter.unusedSimpArgs false
namespace PyPhysim.LinAlg.GmdInv
open PyPhysim.Proto PyPhysim.LinAlg Matrix

section generic
variable {K : Type} [Field K] [StarRing K] [RSqrt K] [LE K] [DecidableLE K]

theorem orth_to_eye {m : Nat} (Q : Array (Array K)) (h : Orth (colv m (entryCols Q))) :
    matMul (cT (fun (i j : Fin m) => entryCols Q i.val j.val)) (fun (i j : Fin m) => entryCols Q i.val j.val)
      = eye := by
  funext a b
  have := h a.val b.val a.isLt b.isLt
  simp only [matMul, cT, eye, sumFin_eq, Conj.conj]
  have e : (if a = b then (1 : K) else 0) = if a.val = b.val then 1 else 0 := by
    simp only [Fin.ext_iff]
  rw [e]
  exact this

theorem eye_to_orthH {m : Nat} (U : Mat K m m) (hU : matMul (cT U) U = eye) : (toM U)ᴴ * toM U = 1 := by
  to_matrix at hU
  exact hU

/-- GENERAL FORM (any tolerance): `p ≤ min m n` singular values in use (the first `p` positive and
    non-increasing, `σ̄^p` their product).  The sweep returns `.ok (Q, R, P, _)` with
    `Q R Pᴴ = U Σ_p Vᴴ` — the rank-`p` truncation of `U Σ Vᴴ`, the singular values beyond the
    first `p` replaced by zero —, unitary `Q`, `P`, upper-triangular `R` with `σ̄` on the first `p`
    diagonal entries. -/
theorem gmd_sound_p {ι : ℝ →+* K} (hι : RealLike ι) (m n : Nat) (U : Mat K m m) (V : Mat K n n)
    (S : Fin (min m n) → ℝ) (sb : ℝ) (p : Nat)
    (hp : 0 < p) (hpmn : p ≤ min m n) (hU : matMul (cT U) U = eye) (hV : matMul (cT V) V = eye)
    (hS : ∀ i : Fin (min m n), i.val < p → 0 < S i)
    (hmono : ∀ i j : Fin (min m n), i ≤ j → j.val < p → S j ≤ S i) (hsb : 0 < sb)
    (hprod : sb ^ p = ∏ r ∈ Finset.range p, Sx S r) :
    ∃ Q R P mg, gmd m n p (ι sb) (colsOf U) (Array.ofFn (fun i => ι (S i))) (colsOf V)
        = .ok (Q, R, P, mg) ∧
      (let Qm : Mat K m m := fun i j => entryCols Q i.val j.val
       let Rm : Mat K m n := fun i j => entryRows R i.val j.val
       let Pm : Mat K n n := fun i j => entryCols P i.val j.val
       matMul (matMul Qm Rm) (cT Pm) = matMul (matMul U (sigmaMat (fun i => ι (truncS p S i)))) (cT V) ∧
       matMul (cT Qm) Qm = eye ∧ matMul (cT Pm) Pm = eye ∧
       (∀ i j, j.val < i.val → Rm i j = 0) ∧
       (∀ i j, i.val = j.val → i.val < p → Rm i j = ι sb)) := by
  have hU' := eye_to_orthH U hU
  have hV' := eye_to_orthH V hV
  have hpm : p ≤ m := le_trans hpmn (Nat.min_le_left m n)
  have hpn : p ≤ n := le_trans hpmn (Nat.min_le_right m n)
  obtain ⟨R0, hR0, hR0s, hR0row, hR0z⟩ :=
    initR_ok m n p (Array.ofFn (fun i => ι (S i))) hp hpm hpn (by simpa using hpmn)
  have sh0 := init_shape m n p (min m n) R0 U V (fun i => ι (S i)) hpmn hR0s hR0row
  have Spos : ∀ r, r < p → 0 < Sx S r := by
    intro r hr
    have hr' : r < min m n := by omega
    unfold Sx; simp only [hr', dif_pos]; exact hS _ hr
  have Smono : ∀ r r', r ≤ r' → r' < p → Sx S r' ≤ Sx S r := by
    intro r r' hrr hr'
    have h1 : r' < min m n := by omega
    have h2 : r < min m n := by omega
    unfold Sx; simp only [h1, h2, dif_pos]
    exact hmono _ _ hrr hr'
  have inv0 := init_inv ι m n p R0 U V S sb hp hpmn hU' hV' Spos hprod hR0z
  obtain ⟨st, hst, sh, inv⟩ := sweep_ok hι m n p _ (Sx S) sb _ sh0 inv0 hpm hpn hsb Spos Smono
    (p - 1) (le_refl _)
  obtain ⟨R', hfin, hR'⟩ := finish_ok m n p (ι sb) st sh hp hpm hpn
  obtain ⟨f1, f2, f3⟩ := inv.final hp hpm hpn (entryRows R') hR'
  refine ⟨st.Q, R', st.P, st.margin, ?_, ?_⟩
  · rw [gmd_eq m n p (ι sb) _ _ _ hp, hR0, ok_bind, hst, ok_bind, hfin]
  · have oQ : Orth (colv m (entryCols st.Q)) := inv.mi.oQ
    have oP : Orth (colv n (entryCols st.P)) := inv.mi.oP
    have ePP := orth_to_eye st.P oP
    refine ⟨?_, orth_to_eye st.Q oQ, ePP, ?_, ?_⟩
    · have ePP' := eye_to_orthH _ ePP
      have ePP'' := _root_.mul_eq_one_comm.mp ePP'
      have key : (toM U * toM (sigmaMat (fun i => ι (truncS p S i))) * (toM V)ᴴ) *
            toM (fun (i j : Fin n) => entryCols st.P i.val j.val)
          = toM (fun (i j : Fin m) => entryCols st.Q i.val j.val) *
            toM (fun (i : Fin m) (j : Fin n) => entryRows R' i.val j.val) := by
        ext i b
        have := congrFun (f1 b.val b.isLt) i
        rw [Matrix.mul_apply, Matrix.mul_apply]
        simp only [Matrix.mulVec, dotProduct, colv, Finset.sum_apply, Pi.smul_apply, smul_eq_mul,
          Finset.sum_range] at this
        simp only [Matrix.of_apply]
        exact this.trans (Finset.sum_congr rfl (fun a _ => mul_comm _ _))
      to_matrix
      rw [← key, Matrix.mul_assoc _ _ (toM _)ᴴ, ePP'', Matrix.mul_one]
    · intro i j hji
      exact f2 i.val j.val hji
    · intro i j hij hi
      show entryRows R' i.val j.val = ι sb
      rw [← hij]
      exact f3 i.val hi

/-- all singular values in use (`tol = 0`, the default): `Q R Pᴴ = U Σ Vᴴ` -/
theorem gmd_sound {ι : ℝ →+* K} (hι : RealLike ι) (m n : Nat) (U : Mat K m m) (V : Mat K n n)
    (S : Fin (min m n) → ℝ) (sb : ℝ)
    (hp : 0 < min m n) (hU : matMul (cT U) U = eye) (hV : matMul (cT V) V = eye)
    (hS : ∀ i, 0 < S i) (hmono : ∀ i j, i ≤ j → S j ≤ S i) (hsb : 0 < sb)
    (hprod : sb ^ (min m n) = ∏ i, S i) :
    ∃ Q R P mg, gmd m n (min m n) (ι sb) (colsOf U) (Array.ofFn (fun i => ι (S i))) (colsOf V)
        = .ok (Q, R, P, mg) ∧
      (let Qm : Mat K m m := fun i j => entryCols Q i.val j.val
       let Rm : Mat K m n := fun i j => entryRows R i.val j.val
       let Pm : Mat K n n := fun i j => entryCols P i.val j.val
       matMul (matMul Qm Rm) (cT Pm) = matMul (matMul U (sigmaMat (fun i => ι (S i)))) (cT V) ∧
       matMul (cT Qm) Qm = eye ∧ matMul (cT Pm) Pm = eye ∧
       (∀ i j, j.val < i.val → Rm i j = 0) ∧
       (∀ i j, i.val = j.val → i.val < min m n → Rm i j = ι sb)) := by
  have hprod' : sb ^ (min m n) = ∏ r ∈ Finset.range (min m n), Sx S r := by
    rw [hprod, Finset.prod_range]
    apply Finset.prod_congr rfl
    intro i _
    unfold Sx; simp [i.isLt]
  have htr : truncS (min m n) S = S := by
    funext i; unfold truncS; simp [i.isLt]
  have := gmd_sound_p hι m n U V S sb (min m n) hp (le_refl _) hU hV (fun i _ => hS i)
    (fun i j hij _ => hmono i j hij) hsb hprod'
  rw [htr] at this
  exact this

end generic

/-- `exp(mean(log S))^p = ∏ S` for positive `S` -/
theorem exp_mean_log_pow (p : Nat) (S : Fin p → ℝ) (hp : 0 < p) (hS : ∀ i, 0 < S i) :
    Real.exp ((∑ i, Real.log (S i)) / p) ^ p = ∏ i, S i := by
  have hp' : (p : ℝ) ≠ 0 := Nat.cast_ne_zero.mpr hp.ne'
  rw [← Real.exp_nat_mul, mul_div_cancel₀ _ hp', Real.exp_sum]
  exact Finset.prod_congr rfl (fun i _ => Real.exp_log (hS i))

/-- product of the first `p` singular values, written over all of them -/
theorem prod_trunc {q : Nat} (S : Fin q → ℝ) (p : Nat) (hpq : p ≤ q) :
    ∏ i : Fin q, (if i.val < p then S i else 1) = ∏ r ∈ Finset.range p, Sx S r := by
  have e1 : ∏ i : Fin q, (if i.val < p then S i else 1)
      = ∏ r ∈ Finset.range q, (if r < p then Sx S r else 1) := by
    rw [Finset.prod_range]
    apply Finset.prod_congr rfl
    intro i _
    unfold Sx; simp [i.isLt]
  rw [e1]
  symm
  rw [← Finset.prod_subset (Finset.range_subset_range.mpr hpq)]
  · apply Finset.prod_congr rfl
    intro r hr
    rw [if_pos (Finset.mem_range.mp hr)]
  · intro r _ hr
    rw [if_neg (fun h => hr (Finset.mem_range.mpr h))]

/-- `ℝ` is `RealLike` through the identity -/
theorem realLike_real : RealLike (RingHom.id ℝ) :=
  ⟨fun x => star_trivial x, fun x => rfl, fun x y => Iff.rfl⟩

/-- comparison of the real parts: the order the complex instantiation of the model uses
    (`instance : LE CF := ⟨fun a b => a.re ≤ b.re⟩` in `Drivers/C20.lean`) -/
@[reducible] def leRe : LE ℂ := ⟨fun a b => a.re ≤ b.re⟩
@[reducible] noncomputable def decLeRe : @DecidableLE ℂ leRe := fun a b => inferInstanceAs (Decidable (a.re ≤ b.re))

/-- `ℂ` with the coercion, the model's `RSqrt ℂ` and `leRe` is `RealLike` -/
theorem realLike_complex : @RealLike ℂ _ _ _ leRe Complex.ofRealHom :=
  @RealLike.mk ℂ _ _ _ leRe Complex.ofRealHom (fun x => Complex.conj_ofReal x)
    (fun x => by show ((Real.sqrt (Complex.ofReal x).re : ℝ) : ℂ) = _; rw [Complex.ofReal_re]; rfl)
    (fun x y => by show (Complex.ofReal x).re ≤ (Complex.ofReal y).re ↔ x ≤ y; simp)

/-- example input: singular values `(4, 1)` -/
def exS : Fin (min 2 2) → ℝ := fun i => if i.val = 0 then 4 else 1

theorem ex_hyps : 0 < min 2 2 ∧ matMul (cT (eye : Mat ℝ 2 2)) eye = eye ∧
    matMul (cT (eye : Mat ℝ 2 2)) eye = eye ∧ (∀ i, 0 < exS i) ∧
    (∀ i j, i ≤ j → exS j ≤ exS i) ∧ (0 : ℝ) < 2 ∧ (2 : ℝ) ^ (min 2 2) = ∏ i, exS i := by
  have he : matMul (cT (eye : Mat ℝ 2 2)) eye = eye := by
    to_matrix
    simp
  refine ⟨by decide, he, he, ?_, ?_, by norm_num, ?_⟩
  · intro i; unfold exS; split <;> norm_num
  · intro i j hij
    have hi := i.isLt
    have hj := j.isLt
    have hij' : i.val ≤ j.val := hij
    unfold exS
    split <;> split <;> first | (exfalso; omega) | norm_num
  · show (2 : ℝ) ^ 2 = ∏ i : Fin 2, exS i
    rw [Fin.prod_univ_two]
    simp [exS]; norm_num


/-- example complex unitary factor: `i · 1` -/
noncomputable def exU : Mat ℂ 2 2 := fun i j => if i = j then Complex.I else 0

theorem exU_unitary : matMul (cT exU) exU = eye := by
  funext i j
  fin_cases i <;> fin_cases j <;> simp [matMul, cT, exU, eye, sumFin, Conj.conj]

end PyPhysim.LinAlg.GmdInv
