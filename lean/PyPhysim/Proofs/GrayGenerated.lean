import Mathlib.Tactic.Ring
import Mathlib.Tactic.Linarith
import PyPhysim.Proofs.Gray
import PyPhysim.Generated.Conversion

/-! The definitions regenerated from `/repo` equal the normal forms the theory is about. -/
namespace PyPhysim.Gray
open PyPhysim.Proto PyPhysim.Generated

theorem gen_b2g : Generated.binary2gray = b2g := by funext n; rfl

/-- the shift list applied by the current source, read off by `rfl` -/
theorem gen_g2b : Generated.gray2binary = g2bWith (descPows 6) := by funext n; rfl

theorem and_one_eq (n : Nat) : (n &&& 1) = n % 2 := by
  simpa using Nat.and_two_pow_sub_one_eq_mod n 1

theorem count_loop : ∀ fuel count n, n < fuel →
    Generated.count_bits_loop1 fuel count n = .ok (count + popcount n, 0)
  | 0, _, n, h => by omega
  | fuel+1, count, n, h => by
    unfold Generated.count_bits_loop1
    by_cases hn : n > 0
    · have hlt : n >>> 1 < fuel := by rw [Nat.shiftRight_eq_div_pow]; omega
      have hp : popcount n = n % 2 + popcount (n / 2) := by
        conv => lhs; unfold popcount
        simp [Nat.ne_of_gt hn]
      have hs : n >>> 1 = n / 2 := by rw [Nat.shiftRight_eq_div_pow]
      simp only [hn, decide_true, if_true, and_one_eq]
      rcases Nat.mod_two_eq_zero_or_one n with hm | hm
      · simp only [hm]
        rw [count_loop fuel count (n >>> 1) hlt, hp, hm, hs]; simp
      · simp only [hm]
        rw [count_loop fuel (count+1) (n >>> 1) hlt, hp, hm, hs]
        simp; omega
    · have : n = 0 := by omega
      subst this
      simp [popcount]

theorem gen_count_bits (n : Nat) : Generated.count_bits n = .ok (popcount n) := by
  unfold Generated.count_bits
  simp [count_loop (n+1) 0 n (by omega)]

theorem bits_loop : ∀ fuel n bits, n < fuel →
    Generated.int2bits_loop1 fuel n bits = .ok (0, bits + bitlen n)
  | 0, n, _, h => by omega
  | fuel+1, n, bits, h => by
    unfold Generated.int2bits_loop1
    by_cases hn : n = 0
    · subst hn; simp [bitlen]
    · have hs : n >>> 1 = n / 2 := by rw [Nat.shiftRight_eq_div_pow]
      have hlt : n >>> 1 < fuel := by rw [hs]; omega
      have hb : bitlen n = bitlen (n / 2) + 1 := by
        conv => lhs; unfold bitlen
        simp [hn]
      simp only [bne_iff_ne, ne_eq, hn, not_false_eq_true, if_true]
      rw [bits_loop fuel (n >>> 1) (bits+1) hlt, hb, hs]
      congr 2; omega

theorem gen_int2bits (n : Nat) : Generated.int2bits n = .ok (if n = 0 then 1 else bitlen n) := by
  unfold Generated.int2bits
  by_cases hn : n = 0
  · subst hn; simp
  · simp [hn, bits_loop (n+1) n 0 (by omega)]

theorem gen_level2bits (n : Nat) :
    Generated.level2bits n = if n < 1 then .error .ValueError
      else .ok (if n = 1 then 1 else bitlen (n - 1)) := by
  unfold Generated.level2bits
  by_cases h : n < 1
  · simp [h]
  · simp only [h, decide_false, if_false]
    rw [gen_int2bits]
    have : (n - 1 = 0) ↔ n = 1 := by omega
    simp [this]

end PyPhysim.Gray
