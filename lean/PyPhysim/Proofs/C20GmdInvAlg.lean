import Mathlib.Data.Matrix.Mul
import Mathlib.Algebra.BigOperators.Fin
import Mathlib.Tactic.Module
import Mathlib.Tactic.LinearCombination
import Mathlib.Tactic.FieldSimp
import Mathlib.Algebra.Star.Basic
import Mathlib.Algebra.Star.Pi
import Mathlib.Algebra.Star.Module
import PyPhysim.Proofs.C20GmdInvRef
import PyPhysim.Proofs.C20GmdInvSw

/-!
# `gmd` — the matrix part of the loop invariant

`MInv … k d z R Fq Fp`: the columns `Fq`, `Fp` (of `Q`, `P`) are orthonormal and
`A · P = Q · R_k`, column by column, where `R_k` is the stored `R` in its first `k` columns,
`(z[0:k], d[k])` in column `k`, `d[b]` on the diagonal of the columns `k < b < p`, zero beyond.
It is preserved by an interchange of two trailing columns (`MInv.swap`) and turned into the
invariant for `k + 1` by the Givens step (`MInv.rot`), for every `c, s` with `c² + s² = 1` and
`c² δ1² + s² δ2² = σ̄²`.
-/
set_option linter.unusedSectionVars false
set_option linter.unusedVariables false
set_option linter.unusedSimpArgs false
namespace PyPhysim.LinAlg.GmdInv
open PyPhysim.Proto PyPhysim.LinAlg Matrix

variable {K : Type} [Field K] [StarRing K]

/-- `diag(δ1, δ2) · G1 = G2 · [[σ̄, x], [0, y]]` entry by entry -/
theorem gmd_step_AP (sb d1 d2 c s : K) (hsb : sb ≠ 0) (h1 : c ^ 2 + s ^ 2 = 1)
    (h2 : c ^ 2 * d1 ^ 2 + s ^ 2 * d2 ^ 2 = sb ^ 2) :
    let h := gmdG2 sb d1 d2 c s
    c * d1 = sb * h.1 ∧ s * d2 = sb * h.2.2.1 ∧
    -s * d1 = gmdX sb d1 d2 c s * h.1 + gmdY sb d1 d2 * h.2.1 ∧
    c * d2 = gmdX sb d1 d2 c s * h.2.2.1 + gmdY sb d1 d2 * h.2.2.2 := by
  simp only [gmdG2, gmdX, gmdY]
  refine ⟨?_, ?_, ?_, ?_⟩
  · field_simp
  · field_simp
  · field_simp
    linear_combination (s * d1) * h2 - (s * d1 * d2 ^ 2) * h1
  · field_simp
    linear_combination (-(c * d2)) * h2 + (c * d2 * d1 ^ 2) * h1

/-- `G1ᵀ G1 = 1`, `G2ᵀ G2 = 1` entry by entry -/
theorem gmd_step_orth (sb d1 d2 c s : K) (hsb : sb ≠ 0) (h1 : c ^ 2 + s ^ 2 = 1)
    (h2 : c ^ 2 * d1 ^ 2 + s ^ 2 * d2 ^ 2 = sb ^ 2) :
    let g := gmdG1 c s
    let h := gmdG2 sb d1 d2 c s
    (g.1 * g.1 + g.2.2.1 * g.2.2.1 = 1 ∧ g.2.1 * g.2.1 + g.2.2.2 * g.2.2.2 = 1 ∧
      g.1 * g.2.1 + g.2.2.1 * g.2.2.2 = 0) ∧
    (h.1 * h.1 + h.2.2.1 * h.2.2.1 = 1 ∧ h.2.1 * h.2.1 + h.2.2.2 * h.2.2.2 = 1 ∧
      h.1 * h.2.1 + h.2.2.1 * h.2.2.2 = 0) := by
  simp only [gmdG1, gmdG2]
  refine ⟨⟨by linear_combination h1, by linear_combination h1, by ring⟩, ⟨?_, ?_, ?_⟩⟩
  · field_simp; linear_combination h2
  · field_simp; linear_combination h2
  · field_simp; ring

/-- column `j` of a matrix view, as a vector with `r` entries -/
def colv (r : Nat) (M : Nat → Nat → K) (j : Nat) : Fin r → K := fun i => M i.val j

theorem colv_swapF (r : Nat) (M : Nat → Nat → K) (a b j : Nat) :
    colv r (swapF M a b) j = colv r M (sw a b j) := by
  funext i
  simp only [colv, swapF, sw]
  split_ifs <;> rfl

theorem colv_rotF (r : Nat) (M : Nat → Nat → K) (a b : Nat) (g : K × K × K × K) (j : Nat) :
    colv r (rotF M a b g) j =
      if j = a then g.1 • colv r M a + g.2.2.1 • colv r M b
      else if j = b then g.2.1 • colv r M a + g.2.2.2 • colv r M b else colv r M j := by
  funext i
  simp only [colv, rotF]
  split_ifs <;> first | rfl | (simp only [Pi.add_apply, Pi.smul_apply, smul_eq_mul, colv]; ring)

/-- orthonormality (Hermitian inner product) of the first `r` vectors of a family -/
def Orth {r : Nat} (F : Nat → Fin r → K) : Prop :=
  ∀ a b, a < r → b < r → star (F a) ⬝ᵥ F b = if a = b then 1 else 0

theorem Orth.swap {r : Nat} {F : Nat → Fin r → K} (h : Orth F) (a b : Nat) (ha : a < r) (hb : b < r) :
    Orth (fun j => F (sw a b j)) := by
  intro x y hx hy
  show star (F (sw a b x)) ⬝ᵥ F (sw a b y) = _
  rw [h _ _ (sw_lt a b x r ha hb hx) (sw_lt a b y r ha hb hy)]
  simp only [sw_inj]

theorem Orth.rot {r : Nat} {F : Nat → Fin r → K} (h : Orth F) (a b : Nat) (ha : a < r) (hb : b < r)
    (hab : a ≠ b) (g00 g01 g10 g11 : K) (s00 : star g00 = g00) (s01 : star g01 = g01)
    (s10 : star g10 = g10) (s11 : star g11 = g11)
    (e0 : g00 * g00 + g10 * g10 = 1) (e1 : g01 * g01 + g11 * g11 = 1)
    (e2 : g00 * g01 + g10 * g11 = 0) :
    Orth (fun j => if j = a then g00 • F a + g10 • F b else if j = b then g01 • F a + g11 • F b else F j) := by
  have hba : ¬ b = a := fun e => hab e.symm
  have haa := h a a ha ha
  have hbb := h b b hb hb
  have hab' := h a b ha hb
  have hba' := h b a hb ha
  simp only [if_true, hab, if_false, hba] at haa hbb hab' hba'
  intro x y hx hy
  have hxa := h x a hx ha
  have hxb := h x b hx hb
  have hay := h a y ha hy
  have hby := h b y hb hy
  have hxy := h x y hx hy
  by_cases x1 : x = a
  · by_cases y1 : y = a
    · simp only [x1, y1, if_true, star_add, star_smul, s00, s10, add_dotProduct, dotProduct_add,
        smul_dotProduct, dotProduct_smul, smul_eq_mul, haa, hbb, hab', hba']
      linear_combination e0
    · have y1' : ¬ a = y := fun e => y1 e.symm
      by_cases y2 : y = b
      · simp only [x1, y2, if_true, hab, hba, if_false, star_add, star_smul, s00, s10, add_dotProduct,
          dotProduct_add, smul_dotProduct, dotProduct_smul, smul_eq_mul, haa, hbb, hab', hba']
        linear_combination e2
      · have y2' : ¬ b = y := fun e => y2 e.symm
        simp only [y1', y2', if_false] at hay hby
        simp only [x1, y1, y2, y1', if_true, if_false, star_add, star_smul, s00, s10, add_dotProduct,
          smul_dotProduct, smul_eq_mul, hay, hby]
        ring
  · by_cases x2 : x = b
    · by_cases y1 : y = a
      · simp only [x2, y1, if_true, hab, hba, if_false, star_add, star_smul, s01, s11, add_dotProduct,
          dotProduct_add, smul_dotProduct, dotProduct_smul, smul_eq_mul, haa, hbb, hab', hba']
        linear_combination e2
      · have y1' : ¬ a = y := fun e => y1 e.symm
        by_cases y2 : y = b
        · simp only [x2, y2, if_true, hab, hba, if_false, star_add, star_smul, s01, s11, add_dotProduct,
            dotProduct_add, smul_dotProduct, dotProduct_smul, smul_eq_mul, haa, hbb, hab', hba']
          linear_combination e1
        · have y2' : ¬ b = y := fun e => y2 e.symm
          simp only [y1', y2', if_false] at hay hby
          simp only [x2, y1, y2, y2', hba, if_true, if_false, star_add, star_smul, s01, s11, add_dotProduct,
            smul_dotProduct, smul_eq_mul, hay, hby]
          ring
    · simp only [x1, x2, if_false] at hxa hxb ⊢
      by_cases y1 : y = a
      · simp only [y1, if_true, dotProduct_add, dotProduct_smul, smul_eq_mul, hxa, hxb, x1, if_false]
        ring
      · by_cases y2 : y = b
        · simp only [y2, hba, if_true, if_false, dotProduct_add, dotProduct_smul, smul_eq_mul, hxa, hxb, x2]
          ring
        · simp only [y1, y2, if_false]
          exact hxy

/-- the matrix part of the loop invariant after `k` iterations (see the file header) -/
structure MInv (m n p : Nat) (A : Matrix (Fin m) (Fin n) K) (sb : K) (k : Nat)
    (d z : Nat → K) (R : Nat → Nat → K) (Fq : Nat → Fin m → K) (Fp : Nat → Fin n → K) : Prop where
  oQ : Orth Fq
  oP : Orth Fp
  c1 : ∀ b, b < k → A *ᵥ Fp b = ∑ a ∈ Finset.range (b + 1), R a b • Fq a
  c2 : A *ᵥ Fp k = ∑ t ∈ Finset.range k, z t • Fq t + d k • Fq k
  c3 : ∀ b, k < b → b < p → A *ᵥ Fp b = d b • Fq b
  c4 : ∀ b, p ≤ b → b < n → A *ᵥ Fp b = 0
  rT : ∀ a b, R a b ≠ 0 → (a ≤ b ∧ b < k) ∨ (a = p - 1 ∧ b = p - 1)
  rD : ∀ j, j < k → R j j = sb

/-- interchanging two trailing positions `k < a, b < p` (in `d` and in the columns of `Q`, `P`)
    keeps the invariant -/
theorem MInv.swap {m n p : Nat} {A : Matrix (Fin m) (Fin n) K} {sb : K} {k : Nat}
    {d z : Nat → K} {R : Nat → Nat → K} {Fq : Nat → Fin m → K} {Fp : Nat → Fin n → K}
    (h : MInv m n p A sb k d z R Fq Fp) (hpm : p ≤ m) (hpn : p ≤ n) (a b : Nat)
    (ha : k < a) (ha' : a < p) (hb : k < b) (hb' : b < p) :
    MInv m n p A sb k (fun q => d (sw a b q)) z R (fun j => Fq (sw a b j)) (fun j => Fp (sw a b j)) := by
  refine ⟨h.oQ.swap a b (by omega) (by omega), h.oP.swap a b (by omega) (by omega), ?_, ?_, ?_, ?_, h.rT, h.rD⟩
  · intro j hj
    show A *ᵥ Fp (sw a b j) = ∑ x ∈ Finset.range (j + 1), R x j • Fq (sw a b x)
    rw [sw_of_lt a b j k ha hb (by omega), h.c1 j hj]
    apply Finset.sum_congr rfl
    intro x hx
    rw [sw_of_lt a b x k ha hb (by have := Finset.mem_range.mp hx; omega)]
  · show A *ᵥ Fp (sw a b k) = ∑ t ∈ Finset.range k, z t • Fq (sw a b t) + d (sw a b k) • Fq (sw a b k)
    rw [sw_of_lt a b k k ha hb (le_refl k), h.c2]
    congr 1
    apply Finset.sum_congr rfl
    intro x hx
    rw [sw_of_lt a b x k ha hb (by have := Finset.mem_range.mp hx; omega)]
  · intro j hj hj'
    exact h.c3 _ (sw_gt a b j k ha hb hj) (sw_lt a b j p ha' hb' hj')
  · intro j hj hj'
    show A *ᵥ Fp (sw a b j) = 0
    rw [sw_of_ge a b j p ha' hb' hj]
    exact h.c4 j hj hj'

/-- the Givens step: rotating the columns `k`, `k + 1` of `P` by `G1` and of `Q` by `G2`, storing
    column `k` of `R`, `x` in `z[k]` and `y` in `d[k+1]` turns the invariant for `k` into the
    invariant for `k + 1` — for every `c, s` with the two defining identities -/
theorem MInv.rot {m n p : Nat} {A : Matrix (Fin m) (Fin n) K} {sb : K} {k : Nat}
    {d z : Nat → K} {R : Nat → Nat → K} {Fq : Nat → Fin m → K} {Fp : Nat → Fin n → K}
    (h : MInv m n p A sb k d z R Fq Fp) (hpm : p ≤ m) (hpn : p ≤ n) (hk : k + 1 < p) (c s : K)
    (hsb : sb ≠ 0) (h1 : c ^ 2 + s ^ 2 = 1) (h2 : c ^ 2 * d k ^ 2 + s ^ 2 * d (k + 1) ^ 2 = sb ^ 2)
    (r_sb : star sb = sb) (r_c : star c = c) (r_s : star s = s) (r_d1 : star (d k) = d k)
    (r_d2 : star (d (k + 1)) = d (k + 1))
    (d' z' : Nat → K) (R' : Nat → Nat → K) (Fq' : Nat → Fin m → K) (Fp' : Nat → Fin n → K)
    (hd' : ∀ q, d' q = if q = k + 1 then gmdY sb (d k) (d (k + 1)) else d q)
    (hz' : ∀ t, z' t = if t < k then -z t * s else if t = k then gmdX sb (d k) (d (k + 1)) c s else z t)
    (hR' : ∀ a b, R' a b = if b = k ∧ a < k then z a * c else if a = k ∧ b = k then sb else R a b)
    (hFq' : ∀ j, Fq' j = if j = k then (gmdG2 sb (d k) (d (k + 1)) c s).1 • Fq k
            + (gmdG2 sb (d k) (d (k + 1)) c s).2.2.1 • Fq (k + 1)
          else if j = k + 1 then (gmdG2 sb (d k) (d (k + 1)) c s).2.1 • Fq k
            + (gmdG2 sb (d k) (d (k + 1)) c s).2.2.2 • Fq (k + 1) else Fq j)
    (hFp' : ∀ j, Fp' j = if j = k then (gmdG1 c s).1 • Fp k + (gmdG1 c s).2.2.1 • Fp (k + 1)
          else if j = k + 1 then (gmdG1 c s).2.1 • Fp k + (gmdG1 c s).2.2.2 • Fp (k + 1) else Fp j) :
    MInv m n p A sb (k + 1) d' z' R' Fq' Fp' := by
  obtain ⟨⟨a1, a2, a3⟩, ⟨b1, b2, b3⟩⟩ := gmd_step_orth sb (d k) (d (k + 1)) c s hsb h1 h2
  have r0 : star (gmdG2 sb (d k) (d (k + 1)) c s).1 = (gmdG2 sb (d k) (d (k + 1)) c s).1 := by
    simp only [gmdG2, star_mul', star_div₀, star_one, r_sb, r_c, r_d1]
  have r1 : star (gmdG2 sb (d k) (d (k + 1)) c s).2.1 = (gmdG2 sb (d k) (d (k + 1)) c s).2.1 := by
    simp only [gmdG2, star_mul', star_div₀, star_one, star_neg, r_sb, r_s, r_d2]
  have r2 : star (gmdG2 sb (d k) (d (k + 1)) c s).2.2.1 = (gmdG2 sb (d k) (d (k + 1)) c s).2.2.1 := by
    simp only [gmdG2, star_mul', star_div₀, star_one, r_sb, r_s, r_d2]
  have r3 : star (gmdG2 sb (d k) (d (k + 1)) c s).2.2.2 = (gmdG2 sb (d k) (d (k + 1)) c s).2.2.2 := by
    simp only [gmdG2, star_mul', star_div₀, star_one, r_sb, r_c, r_d1]
  obtain ⟨p1, p2, p3, p4⟩ := gmd_step_AP sb (d k) (d (k + 1)) c s hsb h1 h2
  generalize gmdX sb (d k) (d (k + 1)) c s = x at *
  generalize gmdY sb (d k) (d (k + 1)) = y at *
  rcases hg : gmdG2 sb (d k) (d (k + 1)) c s with ⟨q00, q01, q10, q11⟩
  rw [hg] at b1 b2 b3 p1 p2 p3 p4 hFq' r0 r1 r2 r3
  simp only [gmdG1] at a1 a2 a3 hFp'
  simp only [] at b1 b2 b3 p1 p2 p3 p4 hFq' r0 r1 r2 r3
  have hkk : ¬ k + 1 = k := by omega
  have hsum : ∀ (w : K), ∑ a ∈ Finset.range k, (z a * w) • Fq a = w • ∑ a ∈ Finset.range k, z a • Fq a := by
    intro w
    rw [Finset.smul_sum]
    apply Finset.sum_congr rfl
    intro a _
    rw [smul_smul, mul_comm]
  have hFqlt : ∀ a, a < k → Fq' a = Fq a := by
    intro a ha
    have n1 : ¬ a = k := by omega
    have n2 : ¬ a = k + 1 := by omega
    rw [hFq' a]; simp only [n1, n2, if_false]
  have hFqk : Fq' k = q00 • Fq k + q10 • Fq (k + 1) := by rw [hFq' k]; simp only [if_true]
  have hFqk1 : Fq' (k + 1) = q01 • Fq k + q11 • Fq (k + 1) := by
    rw [hFq' (k + 1)]; simp only [hkk, if_true, if_false]
  have hFpk : Fp' k = c • Fp k + s • Fp (k + 1) := by rw [hFp' k]; simp only [if_true]
  have hFpk1 : Fp' (k + 1) = (-s) • Fp k + c • Fp (k + 1) := by
    rw [hFp' (k + 1)]; simp only [hkk, if_true, if_false]
  refine ⟨?_, ?_, ?_, ?_, ?_, ?_, ?_, ?_⟩
  · rw [show Fq' = _ from funext hFq']
    exact h.oQ.rot k (k + 1) (by omega) (by omega) (by omega) q00 q01 q10 q11 r0 r1 r2 r3 b1 b2 b3
  · rw [show Fp' = _ from funext hFp']
    exact h.oP.rot k (k + 1) (by omega) (by omega) (by omega) c (-s) s c r_c (by rw [star_neg, r_s]) r_s r_c a1 a2 a3
  · intro b hb
    by_cases hbk : b = k
    · rw [hbk, hFpk, mulVec_add, mulVec_smul, mulVec_smul, h.c2, h.c3 (k + 1) (by omega) hk,
        Finset.sum_range_succ, hFqk]
      have e : ∑ a ∈ Finset.range k, R' a k • Fq' a = ∑ a ∈ Finset.range k, (z a * c) • Fq a := by
        apply Finset.sum_congr rfl
        intro a ha
        have := Finset.mem_range.mp ha
        rw [hFqlt a this, hR' a k]
        simp only [this, and_self, if_true]
      have e' : R' k k = sb := by rw [hR' k k]; simp
      rw [e, e', hsum]
      generalize ∑ a ∈ Finset.range k, z a • Fq a = W
      match_scalars
      · ring
      · linear_combination p1
      · linear_combination p2
    · have hb' : b < k := by omega
      have n1 : ¬ b = k + 1 := by omega
      rw [hFp' b]
      simp only [hbk, n1, if_false]
      rw [h.c1 b hb']
      apply Finset.sum_congr rfl
      intro a ha
      have := Finset.mem_range.mp ha
      rw [hFqlt a (by omega), hR' a b]
      simp only [hbk, false_and, and_false, if_false]
  · rw [hFpk1, mulVec_add, mulVec_smul, mulVec_smul, h.c2, h.c3 (k + 1) (by omega) hk,
      Finset.sum_range_succ, hFqk, hFqk1]
    have e : ∑ t ∈ Finset.range k, z' t • Fq' t = ∑ t ∈ Finset.range k, (z t * (-s)) • Fq t := by
      apply Finset.sum_congr rfl
      intro a ha
      have := Finset.mem_range.mp ha
      rw [hFqlt a this, hz' a]
      simp only [this, if_true]
      congr 1; ring
    have e1 : z' k = x := by rw [hz' k]; simp
    have e2 : d' (k + 1) = y := by rw [hd' (k + 1)]; simp
    rw [e, e1, e2, hsum]
    generalize ∑ a ∈ Finset.range k, z a • Fq a = W
    match_scalars
    · ring
    · linear_combination p3
    · linear_combination p4
  · intro b hb hb'
    have n1 : ¬ b = k := by omega
    have n2 : ¬ b = k + 1 := by omega
    rw [hFp' b, hFq' b, hd' b]
    simp only [n1, n2, if_false]
    exact h.c3 b (by omega) hb'
  · intro b hb hb'
    have n1 : ¬ b = k := by omega
    have n2 : ¬ b = k + 1 := by omega
    rw [hFp' b]
    simp only [n1, n2, if_false]
    exact h.c4 b hb hb'
  · intro a b hne
    rw [hR' a b] at hne
    by_cases c1 : b = k ∧ a < k
    · left; omega
    · by_cases c2 : a = k ∧ b = k
      · left; omega
      · simp only [c1, c2, if_false] at hne
        rcases h.rT a b hne with h' | h'
        · left; omega
        · right; exact h'
  · intro j hj
    rw [hR' j j]
    by_cases hjk : j = k
    · simp [hjk]
    · have : ¬ (j = k ∧ j < k) := by omega
      simp only [this, hjk, false_and, if_false]
      exact h.rD j (by omega)

end PyPhysim.LinAlg.GmdInv
