import Mathlib.LinearAlgebra.Matrix.Rank
import PyPhysim.Proofs.C04Filters

/-! `FullColRank` (invertible Gram matrix) is the textbook notion: rank = number of columns. -/
namespace PyPhysim.C04.Pf
open Matrix
open scoped ComplexOrder
variable {m n : Nat}

theorem isUnit_gram_iff_rank (A : Matrix (Fin m) (Fin n) ℂ) : IsUnit (Aᴴ * A) ↔ A.rank = n := by
  constructor
  · intro h
    have := rank_of_isUnit (Aᴴ * A) h
    rw [rank_conjTranspose_mul_self] at this
    simpa using this
  · intro h
    have hinj : Function.Injective A.mulVec := by
      have hk := LinearMap.finrank_range_add_finrank_ker A.mulVecLin
      have hr : Module.finrank ℂ (LinearMap.range A.mulVecLin) = n := h
      rw [hr] at hk
      have hd : Module.finrank ℂ (Fin n → ℂ) = n := by simp
      rw [hd] at hk
      have hz : Module.finrank ℂ (LinearMap.ker A.mulVecLin) = 0 := by omega
      have hb : LinearMap.ker A.mulVecLin = ⊥ := Submodule.finrank_eq_zero.mp hz
      exact LinearMap.ker_eq_bot.mp hb
    exact (PosDef.conjTranspose_mul_self A hinj).isUnit
/-- a single-column channel has full column rank iff it is not the zero vector -/
theorem isUnit_gram_col_iff (A : Matrix (Fin m) (Fin 1) ℂ) : IsUnit (Aᴴ * A) ↔ ∃ r, A r 0 ≠ 0 := by
  rw [Matrix.isUnit_iff_isUnit_det, Matrix.det_fin_one, isUnit_iff_ne_zero]
  have e : (Aᴴ * A) 0 0 = ((∑ r, Complex.normSq (A r 0) : ℝ) : ℂ) := by
    simp only [Matrix.mul_apply, conjTranspose_apply]
    push_cast
    refine Finset.sum_congr rfl (fun r _ => ?_)
    rw [Complex.star_def, mul_comm, Complex.mul_conj]
  rw [e]
  constructor
  · intro h
    by_contra hcon
    push Not at hcon
    apply h
    simp [hcon]
  · rintro ⟨r, hr⟩
    have hpos : 0 < ∑ r, Complex.normSq (A r 0) :=
      Finset.sum_pos' (fun q _ => Complex.normSq_nonneg _) ⟨r, Finset.mem_univ r, Complex.normSq_pos.mpr hr⟩
    exact_mod_cast hpos.ne'
end PyPhysim.C04.Pf
