import Mathlib.Analysis.SpecialFunctions.Exp
import Mathlib.Analysis.SpecialFunctions.Trigonometric.Basic
import PyPhysim.Proofs.C01Detect

/-!
# C01 — nearest-point detection is maximum-likelihood detection under AWGN

The likelihood of the sample `r` given that `p` was sent through a channel adding independent
`𝒩(0, σ²)` noise to both real dimensions is `exp(−|r − p|²/2σ²)/(2πσ²)`; it decreases with the squared
distance, so the index `demod` returns (a first index at minimum distance, `demod_nearest'`) maximises it.
-/
namespace PyPhysim.C01

/-- AWGN likelihood of `r` given `p` (noise variance `σ²` per real dimension) -/
noncomputable def awgnLik (σ : ℝ) (r p : ℝ × ℝ) : ℝ :=
  Real.exp (-(dist2 r p) / (2 * σ ^ 2)) / (2 * Real.pi * σ ^ 2)

theorem awgnLik_anti {σ : ℝ} (hσ : 0 < σ) (r p q : ℝ × ℝ) (h : dist2 r p ≤ dist2 r q) :
    awgnLik σ r q ≤ awgnLik σ r p := by
  unfold awgnLik
  have hd : 0 < 2 * Real.pi * σ ^ 2 := by have := Real.pi_pos; positivity
  apply div_le_div_of_nonneg_right _ hd.le
  apply Real.exp_le_exp.mpr
  have h2 : 0 < 2 * σ ^ 2 := by positivity
  rw [div_le_div_iff_of_pos_right h2]
  linarith

theorem awgnLik_strict {σ : ℝ} (hσ : 0 < σ) (r p q : ℝ × ℝ) (h : dist2 r p < dist2 r q) :
    awgnLik σ r q < awgnLik σ r p := by
  unfold awgnLik
  have hd : 0 < 2 * Real.pi * σ ^ 2 := by have := Real.pi_pos; positivity
  apply div_lt_div_of_pos_right _ hd
  apply Real.exp_lt_exp.mpr
  have h2 : 0 < 2 * σ ^ 2 := by positivity
  rw [div_lt_div_iff_of_pos_right h2]
  linarith

/-- the detector's decision maximises the AWGN likelihood over the table, for every noise level -/
theorem demod_max_likelihood (c : List (ℝ × ℝ)) (hc : c ≠ []) (r : ℝ × ℝ) {σ : ℝ} (hσ : 0 < σ) :
    ∃ p, c[demod c r]? = some p ∧ ∀ q ∈ c, awgnLik σ r q ≤ awgnLik σ r p := by
  obtain ⟨p, hp, hall⟩ := demod_nearest' c hc r
  refine ⟨p, hp, fun q hq => ?_⟩
  obtain ⟨j, hj⟩ := List.getElem?_of_mem hq
  exact awgnLik_anti hσ r p q (hall j q hj).1

end PyPhysim.C01
