import Mathlib.Algebra.BigOperators.Field
import Mathlib.Tactic.FieldSimp
import Mathlib.Tactic.Ring
import Mathlib.Tactic.FinCases
import PyPhysim.Proofs.C04Bridge

/-!
Alamouti: the space-time block code and its matched combiner, by pure algebra
(no kernel): round trip and transmitted energy.
-/
set_option linter.unusedSectionVars false
namespace PyPhysim.C04
open Matrix PyPhysim.Proto

namespace Pf
variable {Nr B : Nat}

/-- the codeword matrix before the power split, written out -/
noncomputable def alaRaw (x : Vec ℂ (2 * B)) : Mat ℂ 2 (2 * B) := fun a j =>
  if hj : j.val % 2 = 0 then
    (if a.val = 0 then x j else x ⟨j.val + 1, by have := j.isLt; omega⟩)
  else
    (if a.val = 0 then -(conj (x j)) else conj (x ⟨j.val - 1, by have := j.isLt; omega⟩))

theorem alamoutiEncodeRaw_ok (x : Vec ℂ (2 * B)) : alamoutiEncodeRaw x = .ok (alaRaw x) := by
  unfold alamoutiEncodeRaw
  rw [dif_pos (Nat.mul_mod_right 2 B)]
  rfl

/-- `Alamouti.encode` always succeeds on an even number of symbols -/
theorem alamoutiEncode_ok (x : Vec ℂ (2 * B)) :
    alamoutiEncode x = .ok (fun a j => alaRaw x a j / sqrtNat 2) := by
  unfold alamoutiEncode
  rw [alamoutiEncodeRaw_ok]
  rfl

/-- … and raises `IndexError` on an odd number -/
theorem alamoutiEncode_odd {n : Nat} (x : Vec ℂ n) (h : n % 2 = 1) :
    alamoutiEncode x = .error .IndexError := by
  unfold alamoutiEncode alamoutiEncodeRaw
  rw [dif_neg (by omega)]
  rfl

/-- first symbol of a codeword: matched combining over one receive antenna -/
theorem combine0 (h0 h1 s0 s1 c : ℂ) (hc : star c = c) :
    star h0 * (h0 * (s0 / c) + h1 * (s1 / c)) + h1 * star (h0 * (-(star s1) / c) + h1 * (star s0 / c))
      = (h0 * star h0 + h1 * star h1) * (s0 / c) := by
  simp only [star_add, star_mul', star_div₀, star_neg, star_star, hc]
  ring

/-- second symbol of a codeword -/
theorem combine1 (h0 h1 s0 s1 c : ℂ) (hc : star c = c) :
    star h1 * (h0 * (s0 / c) + h1 * (s1 / c)) + (-h0) * star (h0 * (-(star s1) / c) + h1 * (star s0 / c))
      = (h0 * star h0 + h1 * star h1) * (s1 / c) := by
  simp only [star_add, star_mul', star_div₀, star_neg, star_star, hc]
  ring

/-- `‖H‖_F²` as the model computes it: `sqrt(ΣΣ|h|·|h|)²` is the sum of `h·conj h` -/
theorem frob_sq (H : Mat ℂ Nr 2) :
    frobNorm H * frobNorm H = ∑ r, (H r 0 * star (H r 0) + H r 1 * star (H r 1)) := by
  unfold frobNorm
  simp only [sumFin_eq, abs_def, sqrt_def, Fin.sum_univ_two]
  have hT : (∑ r : Fin Nr, (((‖H r 0‖ : ℝ) : ℂ) * ((‖H r 0‖ : ℝ) : ℂ) + ((‖H r 1‖ : ℝ) : ℂ) * ((‖H r 1‖ : ℝ) : ℂ)))
      = ((∑ r : Fin Nr, (‖H r 0‖ * ‖H r 0‖ + ‖H r 1‖ * ‖H r 1‖) : ℝ) : ℂ) := by
    push_cast
    rfl
  rw [hT, Complex.ofReal_re]
  have hnn : 0 ≤ ∑ r : Fin Nr, (‖H r 0‖ * ‖H r 0‖ + ‖H r 1‖ * ‖H r 1‖) :=
    Finset.sum_nonneg (fun r _ => add_nonneg (mul_self_nonneg _) (mul_self_nonneg _))
  rw [← Complex.ofReal_mul, Real.mul_self_sqrt hnn]
  push_cast
  refine Finset.sum_congr rfl (fun r _ => ?_)
  have e : ∀ z : ℂ, ((‖z‖ : ℝ) : ℂ) * ((‖z‖ : ℝ) : ℂ) = z * star z := by
    intro z
    rw [Complex.star_def, Complex.mul_conj, Complex.normSq_eq_norm_sq]
    push_cast
    ring
  rw [e, e]

theorem frob_sq_ne_zero (H : Mat ℂ Nr 2) (hne : ∃ r a, H r a ≠ 0) :
    (∑ r, (H r 0 * star (H r 0) + H r 1 * star (H r 1))) ≠ 0 := by
  obtain ⟨r, a, hra⟩ := hne
  have e : ∀ z : ℂ, z * star z = ((Complex.normSq z : ℝ) : ℂ) := by
    intro z; rw [Complex.star_def, Complex.mul_conj]
  simp only [e]
  have hc : (∑ r : Fin Nr, (((Complex.normSq (H r 0) : ℝ) : ℂ) + ((Complex.normSq (H r 1) : ℝ) : ℂ)))
      = ((∑ r : Fin Nr, (Complex.normSq (H r 0) + Complex.normSq (H r 1)) : ℝ) : ℂ) := by
    push_cast
    rfl
  rw [hc]
  have hpos : 0 < ∑ r : Fin Nr, (Complex.normSq (H r 0) + Complex.normSq (H r 1)) := by
    refine Finset.sum_pos' (fun q _ => add_nonneg (Complex.normSq_nonneg _) (Complex.normSq_nonneg _))
      ⟨r, Finset.mem_univ r, ?_⟩
    fin_cases a
    · exact add_pos_of_pos_of_nonneg (Complex.normSq_pos.mpr hra) (Complex.normSq_nonneg _)
    · exact add_pos_of_nonneg_of_pos (Complex.normSq_nonneg _) (Complex.normSq_pos.mpr hra)
  exact_mod_cast hpos.ne'

theorem alaRaw_even0 (x : Vec ℂ (2 * B)) (j : Fin (2 * B)) (hj : j.val % 2 = 0) :
    alaRaw x 0 j = x j := by
  simp [alaRaw, hj]

theorem alaRaw_even1 (x : Vec ℂ (2 * B)) (j : Fin (2 * B)) (hj : j.val % 2 = 0) :
    alaRaw x 1 j = x ⟨j.val + 1, by have := j.isLt; omega⟩ := by
  simp [alaRaw, hj]

theorem alaRaw_odd0 (x : Vec ℂ (2 * B)) (j : Fin (2 * B)) (hj : ¬ j.val % 2 = 0) :
    alaRaw x 0 j = -(star (x j)) := by
  simp [alaRaw, hj, conj_def]

theorem alaRaw_odd1 (x : Vec ℂ (2 * B)) (j : Fin (2 * B)) (hj : ¬ j.val % 2 = 0) :
    alaRaw x 1 j = star (x ⟨j.val - 1, by have := j.isLt; omega⟩) := by
  simp [alaRaw, hj, conj_def]

/-- Alamouti round trip over every non-zero channel -/
theorem alamouti_roundtrip (H : Mat ℂ Nr 2) (hne : ∃ r a, H r a ≠ 0) (x : Vec ℂ (2 * B))
    (j : Fin (2 * B)) :
    alamoutiDecode H (matMul H (fun a j => alaRaw x a j / sqrtNat 2)) j = x j := by
  have hF := frob_sq_ne_zero H hne
  have hc : (sqrtNat 2 : ℂ) ≠ 0 := sqrtNat_ne_zero (by decide)
  have hcs : star (sqrtNat 2 : ℂ) = sqrtNat 2 := star_sqrtNat 2
  unfold alamoutiDecode alamoutiDecodeRaw
  rw [frob_sq]
  by_cases hj : j.val % 2 = 0
  · rw [dif_pos hj]
    have hj1 : ¬ (j.val + 1) % 2 = 0 := by omega
    have hlt : j.val + 1 < 2 * B := by have := j.isLt; omega
    simp only [matMul, sumFin_eq, Fin.sum_univ_two, conj_def]
    rw [alaRaw_even0 x j hj, alaRaw_even1 x j hj, alaRaw_odd0 x ⟨j.val + 1, hlt⟩ hj1,
      alaRaw_odd1 x ⟨j.val + 1, hlt⟩ hj1]
    have hidx : (⟨(⟨j.val + 1, hlt⟩ : Fin (2 * B)).val - 1, by simp only [Nat.add_sub_cancel]; exact j.isLt⟩ : Fin (2 * B)) = j := by
      apply Fin.ext; simp
    simp only [hidx]
    rw [← Finset.sum_add_distrib]
    simp only [combine0 _ _ _ _ _ hcs]
    rw [← Finset.sum_mul]
    field_simp
  · rw [dif_neg hj]
    have hj1 : (j.val - 1) % 2 = 0 := by omega
    have hlt : j.val - 1 < 2 * B := by have := j.isLt; omega
    simp only [matMul, sumFin_eq, Fin.sum_univ_two, conj_def]
    rw [alaRaw_even0 x ⟨j.val - 1, hlt⟩ hj1, alaRaw_even1 x ⟨j.val - 1, hlt⟩ hj1, alaRaw_odd0 x j hj,
      alaRaw_odd1 x j hj]
    have hidx : (⟨(⟨j.val - 1, hlt⟩ : Fin (2 * B)).val + 1, by have := j.isLt; simp only; omega⟩ : Fin (2 * B)) = j := by
      apply Fin.ext; simp; omega
    simp only [hidx]
    rw [← Finset.sum_add_distrib]
    simp only [combine1 _ _ _ _ _ hcs]
    rw [← Finset.sum_mul]
    field_simp

/-- energy radiated in one channel use of Alamouti: the mean of the energies of the two
    symbols of the codeword -/
theorem alamouti_colEnergy (x : Vec ℂ (2 * B)) (j : Fin (2 * B)) :
    colEnergy (fun a j => alaRaw x a j / sqrtNat 2) j =
      if hj : j.val % 2 = 0 then
        (x j * star (x j) + x ⟨j.val + 1, by have := j.isLt; omega⟩ * star (x ⟨j.val + 1, by have := j.isLt; omega⟩)) / 2
      else
        (x j * star (x j) + x ⟨j.val - 1, by have := j.isLt; omega⟩ * star (x ⟨j.val - 1, by have := j.isLt; omega⟩)) / 2 := by
  have hcs : star (sqrtNat 2 : ℂ) = sqrtNat 2 := star_sqrtNat 2
  have h2 : (sqrtNat 2 : ℂ) * sqrtNat 2 = 2 := by
    have := sqrtNat_mul_self 2
    simpa using this
  unfold colEnergy
  simp only [sumFin_eq, Fin.sum_univ_two, conj_def, star_div₀, hcs, div_mul_div_comm, h2]
  by_cases hj : j.val % 2 = 0
  · rw [dif_pos hj, alaRaw_even0 x j hj, alaRaw_even1 x j hj]
    ring
  · rw [dif_neg hj, alaRaw_odd0 x j hj, alaRaw_odd1 x j hj]
    simp only [star_neg, star_star]
    ring

/-- the other symbol position of the codeword that position `j` belongs to -/
def alaPartner (j : Fin (2 * B)) : Fin (2 * B) :=
  if hj : j.val % 2 = 0 then ⟨j.val + 1, by have := j.isLt; omega⟩
  else ⟨j.val - 1, by have := j.isLt; omega⟩

theorem alaPartner_invol : Function.Involutive (alaPartner (B := B)) := by
  intro j
  apply Fin.ext
  unfold alaPartner
  by_cases hj : j.val % 2 = 0
  · have h1 : ¬ (j.val + 1) % 2 = 0 := by omega
    simp [hj, h1]
  · have h1 : (j.val - 1) % 2 = 0 := by omega
    simp [hj, h1]
    omega

/-- energy of a channel use, with the partner position named -/
theorem alamouti_colEnergy' (x : Vec ℂ (2 * B)) (j : Fin (2 * B)) :
    colEnergy (fun a j => alaRaw x a j / sqrtNat 2) j =
      (x j * star (x j) + x (alaPartner j) * star (x (alaPartner j))) / 2 := by
  rw [alamouti_colEnergy]
  unfold alaPartner
  by_cases hj : j.val % 2 = 0
  · simp only [dif_pos hj]
  · simp only [dif_neg hj]

/-- the whole Alamouti block radiates exactly the energy of the symbols it carries -/
theorem alamouti_totalEnergy (x : Vec ℂ (2 * B)) :
    totalEnergy (fun a j => alaRaw x a j / sqrtNat 2) = vecEnergy x := by
  simp only [totalEnergy, vecEnergy, sumFin_eq, alamouti_colEnergy', conj_def]
  rw [← Finset.sum_div, Finset.sum_add_distrib]
  have e : ∑ j, x (alaPartner j) * star (x (alaPartner j)) = ∑ j, x j * star (x j) :=
    Equiv.sum_comp (alaPartner_invol (B := B)).toPerm (fun j => x j * star (x j))
  rw [e]
  ring

end Pf
end PyPhysim.C04
