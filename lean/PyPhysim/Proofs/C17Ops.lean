import PyPhysim.Proofs.C17Classes
/-!
Helper lemmas for C17: mutators of parameter objects (`add` / `[]=` / `remove` /
`set_unpack_parameter`) applied to a child or to its original after unpacking
keep the chain inside what the round trip covers, and the object keeps its own
values.
-/
namespace PyPhysim.C17
open PyPhysim.Proto

theorem lookup_setKV_self (k : String) (v : PyVal) : ∀ kvs, lookup k (setKV k v kvs) = some v
  | [] => by simp [setKV, lookup]
  | (k', v') :: r => by
    cases h : (k' == k) with
    | true => simp [setKV, h, lookup]
    | false => simp only [setKV, h, lookup, Bool.false_eq_true, if_false]; exact lookup_setKV_self k v r

theorem lookup_setKV_other (k k2 : String) (v : PyVal) (hne : (k == k2) = false) :
    ∀ kvs, lookup k2 (setKV k v kvs) = lookup k2 kvs
  | [] => by simp [setKV, lookup, hne]
  | (k', v') :: r => by
    cases h : (k' == k) with
    | true =>
      have hk : k' = k := by simpa using h
      subst hk
      simp [setKV, lookup, hne]
    | false =>
      simp only [setKV, h, lookup, Bool.false_eq_true, if_false]
      rw [lookup_setKV_other k k2 v hne r]

theorem wfKVs_setKV (k : String) (v : PyVal) (hk : reserved k = false) (hv : wf v = true) :
    ∀ kvs, wfKVs kvs = true → wfKVs (setKV k v kvs) = true
  | [], _ => by simp [setKV, wfKVs, hk, hv]
  | (k', v') :: r, h => by
    simp only [wfKVs, Bool.and_eq_true] at h
    simp only [setKV]
    split
    · simp only [wfKVs, Bool.and_eq_true]; exact ⟨⟨h.1.1, hv⟩, h.2⟩
    · simp only [wfKVs, Bool.and_eq_true]; exact ⟨h.1, wfKVs_setKV k v hk hv r h.2⟩

theorem wfKVs_removeKV (k : String) : ∀ kvs, wfKVs kvs = true → wfKVs (removeKV k kvs) = true
  | [], _ => rfl
  | (k', v') :: r, h => by
    simp only [wfKVs, Bool.and_eq_true] at h
    simp only [removeKV]
    split
    · exact wfKVs_removeKV k r h.2
    · simp only [wfKVs, Bool.and_eq_true]; exact ⟨h.1, wfKVs_removeKV k r h.2⟩

theorem pyEq_str (a b : String) : pyEq (.str a) (.str b) = (a == b) := by
  simp [pyEq, numOf]

theorem any_strVals (x : String) (xs : List String) :
    (strVals xs).any (fun y => pyEq (.str x) y) = xs.contains x := by
  induction xs with
  | nil => rfl
  | cons y ys ih =>
    simp only [strVals, List.map, List.any_cons, pyEq_str, List.contains_cons] at *
    rw [ih]

theorem pd_strVals : ∀ xs : List String, pairwiseDistinct (strVals xs) = true ↔ xs.Nodup
  | [] => by simp [strVals, pairwiseDistinct]
  | x :: xs => by
    have ih := pd_strVals xs
    have : strVals (x :: xs) = .str x :: strVals xs := rfl
    rw [this]
    simp only [pairwiseDistinct, Bool.and_eq_true, Bool.not_eq_eq_eq_not, Bool.not_true, any_strVals,
      List.nodup_cons, ih]
    try simp

theorem wfNode_apply (n n' : Node) (op : POp) (hn : wfNode n = true)
    (hop : match op with
      | .set k v => reserved k = false ∧ wf v = true
      | _ => True)
    (h : n.apply op = .ok n') : wfNode n' = true := by
  simp only [wfNode, Bool.and_eq_true] at hn
  obtain ⟨hp, hu⟩ := hn
  have hnd := (pd_strVals n.unpacked).1 hu
  cases op with
  | set k v =>
    simp only [Node.apply] at h
    injection h with h; subst h
    simp only [wfNode, Bool.and_eq_true]
    exact ⟨wfKVs_setKV k v hop.1 hop.2 _ hp, hu⟩
  | remove k =>
    simp only [Node.apply] at h
    cases hl : lookup k n.parameters with
    | none => rw [hl] at h; cases h
    | some v =>
      rw [hl] at h
      injection h with h; subst h
      simp only [wfNode, Bool.and_eq_true]
      exact ⟨wfKVs_removeKV k _ hp, (pd_strVals _).2 (hnd.filter _)⟩
  | mark k =>
    simp only [Node.apply] at h
    cases hl : lookup k n.parameters with
    | none => rw [hl] at h; cases h
    | some v =>
      rw [hl] at h
      simp only at h
      split at h
      · injection h with h; subst h
        simp only [wfNode, Bool.and_eq_true]
        refine ⟨hp, ?_⟩
        split
        · exact hu
        · rename_i hc
          apply (pd_strVals _).2
          rw [List.nodup_append]
          refine ⟨hnd, by simp, ?_⟩
          intro a ha b hb
          simp only [List.mem_singleton] at hb
          subst hb
          intro hab
          subst hab
          exact hc (by simpa using ha)
      · cases h
  | unmark k =>
    simp only [Node.apply] at h
    cases hl : lookup k n.parameters with
    | none => rw [hl] at h; cases h
    | some v =>
      rw [hl] at h
      simp only at h
      split at h
      · split at h
        · injection h with h; subst h
          simp only [wfNode, Bool.and_eq_true]
          exact ⟨hp, (pd_strVals _).2 (hnd.filter _)⟩
        · cases h
      · cases h

/-- the operations whose arguments are supported values under non-reserved names -/
def opOk : POp → Prop
  | .set k v => reserved k = false ∧ wf v = true
  | _ => True

theorem wfChain_applyAt : ∀ (c c' : Chain) (l : Nat) (op : POp), wfChain c = true → opOk op →
    applyAt c l op = .ok c' → wfChain c' = true ∧ c'.length = c.length
  | [], _, _, _, _, _, h => by simp [applyAt] at h
  | n :: rest, c', 0, op, hw, ho, h => by
    simp only [applyAt] at h
    cases hn : n.apply op with
    | error e => rw [hn] at h; cases h
    | ok n' =>
      rw [hn] at h
      injection h with h; subst h
      simp only [wfChain, List.all_cons, Bool.and_eq_true] at hw ⊢
      exact ⟨⟨wfNode_apply n n' op hw.1 (by cases op <;> first | exact ho | trivial) hn, hw.2⟩, rfl⟩
  | n :: rest, c', l + 1, op, hw, ho, h => by
    simp only [applyAt] at h
    cases hr : applyAt rest l op with
    | error e => rw [hr] at h; cases h
    | ok rest' =>
      rw [hr] at h
      injection h with h; subst h
      simp only [wfChain, List.all_cons, Bool.and_eq_true] at hw ⊢
      obtain ⟨h1, h2⟩ := wfChain_applyAt rest rest' l op (by simpa [wfChain] using hw.2) ho hr
      exact ⟨⟨hw.1, by simpa [wfChain] using h1⟩, by simp [h2]⟩

theorem wfChain_applyOps : ∀ (ops : List (Nat × POp)) (c c' : Chain), wfChain c = true →
    (∀ p ∈ ops, opOk p.2) → applyOps c ops = .ok c' → wfChain c' = true ∧ c'.length = c.length
  | [], c, c', hw, _, h => by simp only [applyOps] at h; injection h with h; subst h; exact ⟨hw, rfl⟩
  | (l, op) :: ops, c, c', hw, ho, h => by
    simp only [applyOps] at h
    cases h1 : applyAt c l op with
    | error e => rw [h1] at h; cases h
    | ok c1 =>
      rw [h1] at h
      obtain ⟨hw1, hl1⟩ := wfChain_applyAt c c1 l op hw (ho (l, op) (by simp)) h1
      obtain ⟨hw2, hl2⟩ := wfChain_applyOps ops c1 c' hw1 (fun p hp => ho p (by simp [hp])) h
      exact ⟨hw2, hl2.trans hl1⟩

end PyPhysim.C17
