import PyPhysim.Model.C04Obj
import PyPhysim.Proofs.C04Round

/-!
The scheme objects as state machines: the state after any history is the
configuration the history leaves behind (`cfgChan`, `cfgNv`) and nothing else,
so every observation equals the one of a freshly configured object.
-/
set_option linter.unusedSectionVars false
namespace PyPhysim.C04
open PyPhysim.Proto

namespace Pf
section
variable {α : Type} [Zero α] [One α] [Add α] [Sub α] [Mul α] [Div α] [Neg α] [NatCast α] [CScalar α]

/-- the state after a history: scheme unchanged, channel and noise variance = the last
    accepted configuration; nothing else is carried over -/
theorem run_state (K : Kernels α) : ∀ (ops : List (Op α)) (o : Obj α),
    run K o ops = ⟨o.scheme, cfgChan o.scheme o.chan ops, cfgNv o.scheme o.nv ops⟩
  | [], o => by cases o; rfl
  | op :: ops, o => by
    cases op with
    | setChannel c =>
      simp only [run, step, cfgChan, cfgNv]
      cases h : storeChan o.scheme c with
      | ok ch => simp only [run_state K ops]
      | error e => simp only [run_state K ops]
    | setNoiseVar v =>
      simp only [run, step, cfgChan, cfgNv]
      cases hf : o.scheme.blastFamily with
      | true =>
        simp only [if_true]
        cases h : setNoiseVar v with
        | ok x => simp only [run_state K ops]
        | error e => simp only [run_state K ops]
      | false => simp [run_state K ops]
    | encode n x => simp only [run, step, cfgChan, cfgNv, run_state K ops]
    | decode nr L Y => simp only [run, step, cfgChan, cfgNv, run_state K ops]
    | filters v => simp only [run, step, cfgChan, cfgNv, run_state K ops]
    | sinr v => simp only [run, step, cfgChan, cfgNv, run_state K ops]
    | channel => simp only [run, step, cfgChan, cfgNv, run_state K ops]
    | noiseVar => simp only [run, step, cfgChan, cfgNv, run_state K ops]
    | layers => simp only [run, step, cfgChan, cfgNv, run_state K ops]

/-- observations do not change the state -/
theorem step_obs_state (K : Kernels α) (o : Obj α) (op : Op α)
    (h : ∀ c, op ≠ .setChannel c) (h' : ∀ v, op ≠ .setNoiseVar v) : (step K o op).1 = o := by
  cases op with
  | setChannel c => exact absurd rfl (h c)
  | setNoiseVar v => exact absurd rfl (h' v)
  | encode n x => rfl
  | decode nr L Y => rfl
  | filters v => rfl
  | sinr v => rfl
  | channel => rfl
  | noiseVar => rfl
  | layers => rfl

/-- outside the Blast family the noise variance is never touched -/
theorem cfgNv_other (s : Scheme) (hs : s.blastFamily = false) (v0 : α) :
    ∀ ops : List (Op α), cfgNv s v0 ops = v0
  | [] => rfl
  | op :: ops => by
    cases op <;> simp [cfgNv, hs, cfgNv_other s hs v0 ops]

theorem construct_ok {s : Scheme} {c : ChanArg α} {o : Obj α} (h : construct s c = .ok o) :
    o.scheme = s ∧ o.nv = 0 ∧ ∃ ch, storeChan s c = .ok ch ∧ o.chan = some ch := by
  unfold construct at h
  cases hc : storeChan s c with
  | ok ch =>
    rw [hc] at h
    cases h
    exact ⟨rfl, rfl, ch, rfl, rfl⟩
  | error e => rw [hc] at h; cases h

theorem run_scheme (K : Kernels α) (o : Obj α) (ops : List (Op α)) : (run K o ops).scheme = o.scheme := by
  rw [run_state]

/-- a history and a freshly configured object give the same state -/
theorem run_eq_fresh (K : Kernels α) (s : Scheme) (c0 cL : ChanArg α) (o0 f : Obj α)
    (h0 : construct s c0 = .ok o0) (hf : construct s cL = .ok f) (ops : List (Op α))
    (hc : f.chan = cfgChan s o0.chan ops) (vL : Option α)
    (hv : s.blastFamily = true → setNoiseVar vL = .ok (cfgNv s o0.nv ops)) :
    run K o0 ops = run K f [.setNoiseVar vL] := by
  obtain ⟨hs0, hn0, _⟩ := construct_ok h0
  obtain ⟨hsf, hnf, _⟩ := construct_ok hf
  rw [run_state K ops o0, run_state K _ f, hs0, hsf, ← hc]
  congr 1
  cases hb : s.blastFamily with
  | true =>
    have := hv hb
    simp only [cfgNv, hb, if_true, this]
  | false =>
    rw [cfgNv_other s hb, cfgNv_other s hb, hn0, hnf]

theorem outOfExcept_mat {m n : Nat} {r : Except PyErr (Mat α m n)} {E : Mat α m n}
    (h : outOfExcept r = .mat m n E) : r = .ok E := by
  cases r with
  | error e => cases h
  | ok A =>
    simp only [outOfExcept] at h
    cases h
    rfl

end

/-- after any history a Blast / MRC object whose configured noise variance is not positive
    decodes the noise-free channel output of what it encodes back to the data -/
theorem blast_obj_roundtrip {n : Nat} (K : Kernels ℂ) (o : Obj ℂ) (c : Chan ℂ) (hoc : o.chan = some c)
    (hs : o.scheme = .blast ∨ o.scheme = .mrc)
    (hr : FullColRank c.H) (hp : IsPinv c.H (K.pinv c.H)) (hnv : ¬ 0 < o.nv.re)
    (x : Vec ℂ n) (E : Mat ℂ c.nt (n / c.nt))
    (hE : (step K o (.encode n x)).2 = .mat c.nt (n / c.nt) E) :
    ∃ d : Vec ℂ (c.nt * (n / c.nt)),
      (step K o (.decode c.nr (n / c.nt) (matMul c.H E))).2 = .vec _ d ∧
      ∀ (j : Nat) (hj : j < n) (hj' : j < c.nt * (n / c.nt)), d ⟨j, hj'⟩ = x ⟨j, hj⟩ := by
  have hEnc : blastEncode c.nt x = .ok E := by
    apply outOfExcept_mat
    rcases hs with h | h <;> simpa [step, encodeOf, h, hoc] using hE
  refine ⟨blastDecode (blastFilterK K c.H o.nv) (matMul c.H E), ?_, ?_⟩
  · rcases hs with h | h <;> simp [step, decodeOf, h, hoc]
  · intro j hj hj'
    unfold blastFilterK
    obtain ⟨hNt, hm, hEm⟩ := blastEncode_ok hEnc
    have h1 := hp.hgh
    have hGH : toM (K.pinv c.H) * toM c.H = 1 := by
      c04_matrix at h1
      exact pinv_left_inv _ _ hr h1
    have key : matMul (blastFilter o.nv (K.pinv c.H)
        (K.solve (mmseLhs c.H o.nv) (mmseRhs c.H))) (matMul c.H E) = reshapeF c.nt x hm := by
      apply toM_inj
      rw [toM_matMul, toM_matMul, toM_blastFilter_zf o.nv hnv, hEm]
      exact scaled_roundtrip _ _ _ _ (sqrtNat_ne_zero hNt) hGH
    unfold blastDecode
    rw [key]
    exact flattenF_reshapeF c.nt x hm j hj hj'

section entry
variable {α : Type} [Zero α] [One α] [Add α] [Sub α] [Mul α] [Div α] [Neg α] [NatCast α] [CScalar α]

/-- the constructor argument goes through the class's own `set_channel_matrix` -/
theorem construct_eq_setter (K : Kernels α) (s : Scheme) (c : ChanArg α) :
    (∀ o, construct s c = .ok o ↔ step K (constructEmpty s) (.setChannel c) = (o, .done)) ∧
    (∀ e, construct s c = .error e ↔ step K (constructEmpty s) (.setChannel c) = (constructEmpty s, .err e)) := by
  unfold construct
  cases h : storeChan s c with
  | ok ch =>
    constructor
    · intro o
      simp only [step, constructEmpty, h]
      constructor
      · intro ho; cases ho; rfl
      · intro ho
        have := congrArg Prod.fst ho
        simp only at this
        rw [← this]
    · intro e
      simp only [step, constructEmpty, h]
      constructor
      · intro ho; cases ho
      · intro ho
        have := congrArg Prod.snd ho
        cases this
  | error e' =>
    constructor
    · intro o
      simp only [step, constructEmpty, h]
      constructor
      · intro ho; cases ho
      · intro ho
        have := congrArg Prod.snd ho
        cases this
    · intro e
      simp only [step, constructEmpty, h]
      constructor
      · intro ho; cases ho; rfl
      · intro ho
        have := congrArg Prod.snd ho
        simp only at this
        cases this
        rfl

/-- a later replacement stores exactly what the constructor would have stored -/
theorem replace_eq_construct (K : Kernels α) (s : Scheme) (c : ChanArg α) (o o' : Obj α)
    (h : construct s c = .ok o) (hs : o'.scheme = s) (hn : o'.nv = 0) :
    step K o' (.setChannel c) = (o, .done) := by
  unfold construct at h
  cases hc : storeChan s c with
  | ok ch =>
    rw [hc] at h
    cases h
    cases o' with
    | mk sch ch' nv =>
      simp only at hs hn
      subst hs; subst hn
      simp only [step, hc]
  | error e => rw [hc] at h; cases h

end entry

/-- a call that raises leaves the object exactly as it was -/
theorem step_err_state {α : Type} [Zero α] [One α] [Add α] [Sub α] [Mul α] [Div α] [Neg α] [NatCast α]
    [CScalar α] (K : Kernels α) (o : Obj α) (op : Op α) (e : PyErr)
    (h : (step K o op).2 = .err e) : (step K o op).1 = o := by
  cases op with
  | setChannel c =>
    simp only [step] at h ⊢
    cases hc : storeChan o.scheme c with
    | ok ch => rw [hc] at h; cases h
    | error e' => rfl
  | setNoiseVar v =>
    simp only [step] at h ⊢
    cases hb : o.scheme.blastFamily with
    | true =>
      rw [hb] at h
      simp only [if_true] at h ⊢
      cases hv : setNoiseVar v with
      | ok x => rw [hv] at h; cases h
      | error e' => rfl
    | false => simp
  | encode n x => rfl
  | decode nr L Y => rfl
  | filters v => rfl
  | sinr v => rfl
  | channel => rfl
  | noiseVar => rfl
  | layers => rfl

end Pf
end PyPhysim.C04
