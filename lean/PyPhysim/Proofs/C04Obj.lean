import PyPhysim.Model.C04Obj
import PyPhysim.Proofs.C04Round

/-!
The scheme objects as state machines: the state after any history is the
configuration the history leaves behind (`cfgChan`, `cfgNv`) and nothing else,
so every observation equals the one of a freshly configured object.
-/
set_option linter.unusedSectionVars false
namespace PyPhysim.C04
open PyPhysim.Proto

namespace Pf
section
variable {α : Type} [Zero α] [One α] [Add α] [Sub α] [Mul α] [Div α] [Neg α] [NatCast α] [CScalar α]

/-- the state after a history: scheme unchanged, channel and noise variance = the last
    accepted configuration; nothing else is carried over -/
theorem run_state (K : Kernels α) : ∀ (ops : List (Op α)) (o : Obj α),
    run K o ops = ⟨o.scheme, cfgChan o.scheme o.chan ops, cfgNv o.scheme o.nv ops⟩
  | [], o => by cases o; rfl
  | op :: ops, o => by
    cases op with
    | setChannel c =>
      simp only [run, step, cfgChan, cfgNv]
      cases h : storeChan o.scheme c with
      | ok ch => simp only [run_state K ops]
      | error e => simp only [run_state K ops]
    | setNoiseVar v =>
      simp only [run, step, cfgChan, cfgNv]
      cases hf : o.scheme.blastFamily with
      | true =>
        simp only [if_true]
        cases h : setNoiseVar v with
        | ok x => simp only [run_state K ops]
        | error e => simp only [run_state K ops]
      | false => simp [run_state K ops]
    | encode n x => simp only [run, step, cfgChan, cfgNv, run_state K ops]
    | decode nr L Y => simp only [run, step, cfgChan, cfgNv, run_state K ops]
    | filters v => simp only [run, step, cfgChan, cfgNv, run_state K ops]
    | sinr v => simp only [run, step, cfgChan, cfgNv, run_state K ops]

/-- observations do not change the state -/
theorem step_obs_state (K : Kernels α) (o : Obj α) (op : Op α)
    (h : ∀ c, op ≠ .setChannel c) (h' : ∀ v, op ≠ .setNoiseVar v) : (step K o op).1 = o := by
  cases op with
  | setChannel c => exact absurd rfl (h c)
  | setNoiseVar v => exact absurd rfl (h' v)
  | encode n x => rfl
  | decode nr L Y => rfl
  | filters v => rfl
  | sinr v => rfl

/-- outside the Blast family the noise variance is never touched -/
theorem cfgNv_other (s : Scheme) (hs : s.blastFamily = false) (v0 : α) :
    ∀ ops : List (Op α), cfgNv s v0 ops = v0
  | [] => rfl
  | op :: ops => by
    cases op <;> simp [cfgNv, hs, cfgNv_other s hs v0 ops]

end
end Pf
end PyPhysim.C04
