import Mathlib.Tactic.FieldSimp
import Mathlib.Tactic.Ring
import PyPhysim.Proofs.C20Proj

/-!
Sherman–Morrison step of `update_inv_sum_diag` and the induction over the
diagonal, over any field.
-/
set_option linter.unusedSectionVars false
namespace PyPhysim.LinAlg.Pf
open Matrix

variable {K : Type} [Field K] {n : Nat}

/-- one rank-one update: if `inv · A = 1` and the pivot `1 + d·inv_ii` is non-zero
    then the updated matrix is a left inverse of `A + d·e_i e_iᵀ` -/
theorem sm_step (A inv : Matrix (Fin n) (Fin n) K) (i : Fin n) (d : K) (h : inv * A = 1)
    (hp : 1 + d * inv i i ≠ 0) :
    toM (smStep inv i d) * (A + diagonal (Pi.single i d)) = 1 := by
  ext r c
  have hA : ∀ r c, ∑ l, inv r l * A l c = (1 : Matrix (Fin n) (Fin n) K) r c := fun r c => by
    rw [← h, mul_apply]
  have s1 : ∑ l, (inv r l - d * (inv r i * inv i l) / (1 + d * inv i i)) * A l c
      = (1 : Matrix (Fin n) (Fin n) K) r c
        - d * inv r i / (1 + d * inv i i) * (1 : Matrix (Fin n) (Fin n) K) i c := by
    simp only [sub_mul, Finset.sum_sub_distrib, hA]
    congr 1
    rw [← hA i c, Finset.mul_sum]
    refine Finset.sum_congr rfl (fun l _ => ?_)
    field_simp
  have s2 : ∑ l, (inv r l - d * (inv r i * inv i l) / (1 + d * inv i i))
        * (diagonal (Pi.single i d) : Matrix (Fin n) (Fin n) K) l c
      = (inv r c - d * (inv r i * inv i c) / (1 + d * inv i i)) * (Pi.single i d : Fin n → K) c := by
    simp [diagonal_apply]
  simp only [mul_apply, Matrix.add_apply, of_apply, smStep, mul_add, Finset.sum_add_distrib, toM]
  rw [s1, s2]
  by_cases hc : c = i
  · subst hc
    simp only [Pi.single_eq_same, one_apply_eq]
    by_cases hr : r = c
    · subst hr; simp only [one_apply_eq]; field_simp; ring
    · simp only [one_apply_ne hr]; field_simp; ring
  · simp [Pi.single_apply, hc, one_apply, Ne.symm hc]

theorem toM_diagFrom_nil (i : Nat) : toM (diagFrom (α := K) (n := n) i []) = 0 := by
  ext r c
  simp [diagFrom, toM]

theorem toM_diagFrom_cons (i : Nat) (h : i < n) (d : K) (ds : List K) :
    toM (diagFrom (n := n) i (d :: ds))
      = diagonal (Pi.single (⟨i, h⟩ : Fin n) d) + toM (diagFrom (n := n) (i + 1) ds) := by
  ext r c
  simp only [diagFrom, toM, of_apply, Matrix.add_apply, diagonal_apply]
  by_cases hrc : r = c
  · subst hrc
    simp only [if_true]
    rcases Nat.lt_trichotomy r.val i with hlt | heq | hgt
    · have h1 : ¬ i ≤ r.val := by omega
      have h2 : ¬ i + 1 ≤ r.val := by omega
      have h3 : r ≠ ⟨i, h⟩ := fun e => by rw [e] at hlt; simp at hlt
      simp [h1, h2, Pi.single_apply, h3]
    · have h3 : r = ⟨i, h⟩ := Fin.ext heq
      subst h3
      simp
    · have h1 : i ≤ r.val := by omega
      have h2 : i + 1 ≤ r.val := by omega
      have h3 : r ≠ ⟨i, h⟩ := fun e => by rw [e] at hgt; simp at hgt
      have h4 : r.val - i = (r.val - (i + 1)) + 1 := by omega
      simp [h1, h2, Pi.single_apply, h3, h4]
  · simp [hrc]

/-- the loop of `update_inv_sum_diag` from position `i`: it never raises when the
    remaining diagonal fits, and returns a left inverse of `A + D` -/
theorem uisdGo_correct : ∀ (ds : List K) (i : Nat) (inv A : Matrix (Fin n) (Fin n) K),
    inv * A = 1 → i + ds.length ≤ n → (∀ p ∈ uisdPivots i ds inv, p ≠ 0) →
    ∃ B : Mat K n n, uisdGo i ds inv = .ok B ∧ toM B * (A + toM (diagFrom (n := n) i ds)) = 1
  | [], i, inv, A, h, _, _ => ⟨inv, rfl, by rw [toM_diagFrom_nil, add_zero]; exact h⟩
  | d :: ds, i, inv, A, h, hlen, hp => by
    have hi : i < n := by simp at hlen; omega
    have hpiv : 1 + d * inv ⟨i, hi⟩ ⟨i, hi⟩ ≠ 0 := hp _ (by simp [uisdPivots, hi])
    have hstep := sm_step A inv ⟨i, hi⟩ d h hpiv
    have hrest : ∀ p ∈ uisdPivots (i + 1) ds (smStep inv ⟨i, hi⟩ d), p ≠ 0 := fun p hpm =>
      hp p (by simp [uisdPivots, hi, hpm])
    obtain ⟨B, hB, hBinv⟩ := uisdGo_correct ds (i + 1) (smStep inv ⟨i, hi⟩ d)
      (A + diagonal (Pi.single (⟨i, hi⟩ : Fin n) d)) hstep (by simp at hlen ⊢; omega) hrest
    refine ⟨B, by simp [uisdGo, hi, hB], ?_⟩
    rw [toM_diagFrom_cons i hi, ← add_assoc]
    exact hBinv

/-- a diagonal longer than the matrix runs into numpy's `IndexError` -/
theorem uisdGo_error : ∀ (ds : List K) (i : Nat) (inv : Mat K n n),
    i ≤ n → n < i + ds.length → uisdGo i ds inv = .error .IndexError
  | [], i, inv, h1, h2 => by simp at h2; omega
  | d :: ds, i, inv, h1, h2 => by
    by_cases hi : i < n
    · simp only [uisdGo, hi, dif_pos]
      exact uisdGo_error ds (i + 1) _ hi (by simp at h2 ⊢; omega)
    · simp [uisdGo, hi]

end PyPhysim.LinAlg.Pf
