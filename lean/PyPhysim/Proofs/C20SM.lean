import Mathlib.Tactic.FieldSimp
import Mathlib.Tactic.Ring
import PyPhysim.Proofs.C20Proj

/-!
Sherman–Morrison step of `update_inv_sum_diag` and the induction over the
diagonal, over any field.
-/
set_option linter.unusedSectionVars false
namespace PyPhysim.LinAlg.Pf
open Matrix

variable {K : Type} [Field K] {n : Nat}

/-- one rank-one update: if `inv · A = 1` and the pivot `1 + d·inv_ii` is non-zero
    then the updated matrix is a left inverse of `A + d·e_i e_iᵀ` -/
theorem sm_step (A inv : Matrix (Fin n) (Fin n) K) (i : Fin n) (d : K) (h : inv * A = 1)
    (hp : 1 + d * inv i i ≠ 0) :
    toM (smStep inv i d) * (A + diagonal (Pi.single i d)) = 1 := by
  ext r c
  have hA : ∀ r c, ∑ l, inv r l * A l c = (1 : Matrix (Fin n) (Fin n) K) r c := fun r c => by
    rw [← h, mul_apply]
  have s1 : ∑ l, (inv r l - d * (inv r i * inv i l) / (1 + d * inv i i)) * A l c
      = (1 : Matrix (Fin n) (Fin n) K) r c
        - d * inv r i / (1 + d * inv i i) * (1 : Matrix (Fin n) (Fin n) K) i c := by
    simp only [sub_mul, Finset.sum_sub_distrib, hA]
    congr 1
    rw [← hA i c, Finset.mul_sum]
    refine Finset.sum_congr rfl (fun l _ => ?_)
    field_simp
  have s2 : ∑ l, (inv r l - d * (inv r i * inv i l) / (1 + d * inv i i))
        * (diagonal (Pi.single i d) : Matrix (Fin n) (Fin n) K) l c
      = (inv r c - d * (inv r i * inv i c) / (1 + d * inv i i)) * (Pi.single i d : Fin n → K) c := by
    simp [diagonal_apply]
  simp only [mul_apply, Matrix.add_apply, of_apply, smStep, mul_add, Finset.sum_add_distrib, toM]
  rw [s1, s2]
  by_cases hc : c = i
  · subst hc
    simp only [Pi.single_eq_same, one_apply_eq]
    by_cases hr : r = c
    · subst hr; simp only [one_apply_eq]; field_simp; ring
    · simp only [one_apply_ne hr]; field_simp; ring
  · simp [Pi.single_apply, hc, one_apply, Ne.symm hc]

theorem toM_diagFrom_nil (i : Nat) : toM (diagFrom (α := K) (n := n) i []) = 0 := by
  ext r c
  simp [diagFrom, toM]

theorem toM_diagFrom_cons (i : Nat) (h : i < n) (d : K) (ds : List K) :
    toM (diagFrom (n := n) i (d :: ds))
      = diagonal (Pi.single (⟨i, h⟩ : Fin n) d) + toM (diagFrom (n := n) (i + 1) ds) := by
  ext r c
  simp only [diagFrom, toM, of_apply, Matrix.add_apply, diagonal_apply]
  by_cases hrc : r = c
  · subst hrc
    simp only [if_true]
    rcases Nat.lt_trichotomy r.val i with hlt | heq | hgt
    · have h1 : ¬ i ≤ r.val := by omega
      have h2 : ¬ i + 1 ≤ r.val := by omega
      have h3 : r ≠ ⟨i, h⟩ := fun e => by rw [e] at hlt; simp at hlt
      simp [h1, h2, Pi.single_apply, h3]
    · have h3 : r = ⟨i, h⟩ := Fin.ext heq
      subst h3
      simp
    · have h1 : i ≤ r.val := by omega
      have h2 : i + 1 ≤ r.val := by omega
      have h3 : r ≠ ⟨i, h⟩ := fun e => by rw [e] at hgt; simp at hgt
      have h4 : r.val - i = (r.val - (i + 1)) + 1 := by omega
      simp [h1, h2, Pi.single_apply, h3, h4]
  · simp [hrc]

/-- the loop of `update_inv_sum_diag` from position `i`: it never raises when the
    remaining diagonal fits, and returns a left inverse of `A + D` -/
theorem uisdGo_correct : ∀ (ds : List K) (i : Nat) (inv A : Matrix (Fin n) (Fin n) K),
    inv * A = 1 → i + ds.length ≤ n → (∀ p ∈ uisdPivots i ds inv, p ≠ 0) →
    ∃ B : Mat K n n, uisdGo i ds inv = .ok B ∧ toM B * (A + toM (diagFrom (n := n) i ds)) = 1
  | [], i, inv, A, h, _, _ => ⟨inv, rfl, by rw [toM_diagFrom_nil, add_zero]; exact h⟩
  | d :: ds, i, inv, A, h, hlen, hp => by
    have hi : i < n := by simp at hlen; omega
    have hpiv : 1 + d * inv ⟨i, hi⟩ ⟨i, hi⟩ ≠ 0 := hp _ (by simp [uisdPivots, hi])
    have hstep := sm_step A inv ⟨i, hi⟩ d h hpiv
    have hrest : ∀ p ∈ uisdPivots (i + 1) ds (smStep inv ⟨i, hi⟩ d), p ≠ 0 := fun p hpm =>
      hp p (by simp [uisdPivots, hi, hpm])
    obtain ⟨B, hB, hBinv⟩ := uisdGo_correct ds (i + 1) (smStep inv ⟨i, hi⟩ d)
      (A + diagonal (Pi.single (⟨i, hi⟩ : Fin n) d)) hstep (by simp at hlen ⊢; omega) hrest
    refine ⟨B, by simp [uisdGo, hi, hB], ?_⟩
    rw [toM_diagFrom_cons i hi, ← add_assoc]
    exact hBinv

/-- a diagonal longer than the matrix runs into numpy's `IndexError` -/
theorem uisdGo_error : ∀ (ds : List K) (i : Nat) (inv : Mat K n n),
    i ≤ n → n < i + ds.length → uisdGo i ds inv = .error .IndexError
  | [], i, inv, h1, h2 => by simp at h2; omega
  | d :: ds, i, inv, h1, h2 => by
    by_cases hi : i < n
    · simp only [uisdGo, hi, dif_pos]
      exact uisdGo_error ds (i + 1) _ hi (by simp at h2 ⊢; omega)
    · simp [uisdGo, hi]

/-- the pivot cannot vanish when the updated matrix is invertible -/
theorem pivot_ne_zero (A inv B : Matrix (Fin n) (Fin n) K) (i : Fin n) (d : K) (h : inv * A = 1)
    (hB : B * (A + diagonal (Pi.single i d)) = 1) : 1 + d * inv i i ≠ 0 := by
  intro hp
  have h' : A * inv = 1 := _root_.mul_eq_one_comm.mp h
  set x : Fin n → K := inv *ᵥ Pi.single i 1 with hx
  have hxi : ∀ r, x r = inv r i := by
    intro r; simp [hx, mulVec_single_one]
  have hAx : A *ᵥ x = Pi.single i 1 := by
    rw [hx, mulVec_mulVec, h', one_mulVec]
  have hEx : (diagonal (Pi.single i d) : Matrix (Fin n) (Fin n) K) *ᵥ x = Pi.single i (d * inv i i) := by
    funext r
    rw [mulVec_diagonal, hxi]
    by_cases hr : r = i
    · subst hr; simp
    · simp [Pi.single_apply, hr]
  have hsum : (A + diagonal (Pi.single i d)) *ᵥ x = 0 := by
    rw [add_mulVec, hAx, hEx]
    funext r
    by_cases hr : r = i
    · subst hr; simpa using hp
    · simp [Pi.single_apply, hr]
  have hx0 : x = 0 := by
    have := congrArg (fun M => M *ᵥ x) hB
    simp only [one_mulVec] at this
    rw [← this, ← mulVec_mulVec, hsum, mulVec_zero]
  rw [hx0, mulVec_zero] at hAx
  have := congrFun hAx i
  simp at this

/-- all pivots are non-zero when every partial sum `A + diag(d₀ … d_k, 0 …)` is invertible -/
theorem uisd_pivots_of_partial : ∀ (ds : List K) (i : Nat) (inv A : Matrix (Fin n) (Fin n) K),
    inv * A = 1 → i + ds.length ≤ n →
    (∀ k, k < ds.length → ∃ B : Matrix (Fin n) (Fin n) K,
      B * (A + toM (diagFrom (n := n) i (ds.take (k + 1)))) = 1) →
    ∀ p ∈ uisdPivots i ds inv, p ≠ 0
  | [], _, _, _, _, _, _ => by simp [uisdPivots]
  | d :: ds, i, inv, A, h, hlen, hpart => by
    have hi : i < n := by simp at hlen; omega
    obtain ⟨B0, hB0⟩ := hpart 0 (by simp)
    have hB0' : B0 * (A + diagonal (Pi.single (⟨i, hi⟩ : Fin n) d)) = 1 := by
      have e := toM_diagFrom_cons (K := K) i hi d []
      rw [toM_diagFrom_nil, add_zero] at e
      simpa [e] using hB0
    have hpiv := pivot_ne_zero A inv B0 ⟨i, hi⟩ d h hB0'
    have hstep := sm_step A inv ⟨i, hi⟩ d h hpiv
    have hrest := uisd_pivots_of_partial ds (i + 1) (smStep inv ⟨i, hi⟩ d)
      (A + diagonal (Pi.single (⟨i, hi⟩ : Fin n) d)) hstep (by simp at hlen ⊢; omega)
      (fun k hk => by
        obtain ⟨B, hB⟩ := hpart (k + 1) (by simp; omega)
        refine ⟨B, ?_⟩
        rw [List.take_succ_cons, toM_diagFrom_cons i hi, ← add_assoc] at hB
        exact hB)
    intro p hp
    simp only [uisdPivots, hi, dif_pos, List.mem_cons] at hp
    rcases hp with rfl | hp
    · exact hpiv
    · exact hrest p hp

end PyPhysim.LinAlg.Pf
