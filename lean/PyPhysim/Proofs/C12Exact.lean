import PyPhysim.Proofs.C12Optimal

/-!
# C12 helper lemmas, part 4: a water-filling solution separates distinct inputs (R15)

Independent of the algorithm (everything is about `IsWaterFilling`): the pair `(p, μ)` is a
function of the *exact* values of the total power, the noise variance, the symbol energy and
of the gain of every channel that gets power — two values, however close, are never
identified.

* `IsWaterFilling.level_strictMono` — `P < P'` ⇒ `μ < μ'`
* `IsWaterFilling.ratio_eq` — equal results ⇒ equal `N / Es`
* `IsWaterFilling.noise_eq`, `.energy_eq`, `.used_gain_eq` — equal results ⇒ equal `N`,
  `Es`, equal gain on every channel in use
-/
namespace PyPhysim.C12
open PyPhysim.Proto

set_option linter.unusedSectionVars false

variable {α : Type} [Field α] [LinearOrder α] [IsStrictOrderedRing α]
variable {g g' p p' : List α} {P P' N N' Es Es' mu mu' : α}

/-- the water level is strictly increasing in the total power -/
theorem IsWaterFilling.level_strictMono (h : IsWaterFilling g P N Es p mu)
    (h' : IsWaterFilling g P' N Es p' mu') (hPP : P < P') : mu < mu' := by
  by_contra hle
  rw [not_lt] at hle
  have hs := h.sum
  have hs' := h'.sum
  rw [h.form] at hs
  rw [h'.form] at hs'
  have : (g.map (fun x => max 0 (mu' - N / (Es * x)))).sum
      ≤ (g.map (fun x => max 0 (mu - N / (Es * x)))).sum := by
    apply List.sum_le_sum
    intro y _
    exact max_le_max le_rfl (by linarith)
  rw [hs, hs'] at this
  exact absurd hPP (not_lt.mpr this)

/-- the channel that witnesses `0 < P`, with its two readings of the allocation formula -/
theorem IsWaterFilling.used_channel (h : IsWaterFilling g P N Es p mu)
    (h' : IsWaterFilling g P' N' Es' p mu) (hP : 0 < P) :
    ∃ x ∈ g, N / (Es * x) = N' / (Es' * x) := by
  obtain ⟨x, hx, hpos⟩ := h.exists_pos hP
  have e : g.map (fun x => max 0 (mu - N / (Es * x)))
      = g.map (fun x => max 0 (mu - N' / (Es' * x))) := by rw [← h.form, ← h'.form]
  have ex : max 0 (mu - N / (Es * x)) = max 0 (mu - N' / (Es' * x)) :=
    List.map_inj_left.mp e x hx
  refine ⟨x, hx, ?_⟩
  have h1 : 0 < mu - N / (Es * x) := by
    rcases lt_max_iff.mp hpos with h0 | h1
    · exact absurd h0 (lt_irrefl _)
    · exact h1
  rw [max_eq_right h1.le] at ex
  have h2 : max 0 (mu - N' / (Es' * x)) = mu - N' / (Es' * x) := by
    apply max_eq_right
    rcases le_total 0 (mu - N' / (Es' * x)) with h3 | h3
    · exact h3
    · rw [max_eq_left h3] at ex; linarith
  rw [h2] at ex
  linarith

/-- the same result ⇒ the same ratio noise variance / symbol energy (the only way the two enter) -/
theorem IsWaterFilling.ratio_eq (h : IsWaterFilling g P N Es p mu)
    (h' : IsWaterFilling g P' N' Es' p mu) (hP : 0 < P) (hg : ∀ x ∈ g, 0 < x)
    (hEs : 0 < Es) (hEs' : 0 < Es') : N / Es = N' / Es' := by
  obtain ⟨x, hx, e⟩ := h.used_channel h' hP
  have hx0 : x ≠ 0 := (hg x hx).ne'
  have h1 : Es ≠ 0 := hEs.ne'
  have h2 : Es' ≠ 0 := hEs'.ne'
  field_simp at e ⊢
  exact e

/-- the same result for two noise variances (everything else equal) ⇒ the same variance -/
theorem IsWaterFilling.noise_eq (h : IsWaterFilling g P N Es p mu)
    (h' : IsWaterFilling g P' N' Es p mu) (hP : 0 < P) (hg : ∀ x ∈ g, 0 < x) (hEs : 0 < Es) :
    N = N' := by
  obtain ⟨x, hx, e⟩ := h.used_channel h' hP
  have hx0 : x ≠ 0 := (hg x hx).ne'
  have h1 : Es ≠ 0 := hEs.ne'
  field_simp at e
  exact e

/-- the same result for two symbol energies (everything else equal) ⇒ the same energy -/
theorem IsWaterFilling.energy_eq (h : IsWaterFilling g P N Es p mu)
    (h' : IsWaterFilling g P' N Es' p mu) (hP : 0 < P) (hg : ∀ x ∈ g, 0 < x)
    (hN : 0 < N) (hEs : 0 < Es) (hEs' : 0 < Es') : Es = Es' := by
  obtain ⟨x, hx, e⟩ := h.used_channel h' hP
  have hx0 : x ≠ 0 := (hg x hx).ne'
  have hN0 : N ≠ 0 := hN.ne'
  have h1 : Es ≠ 0 := hEs.ne'
  have h2 : Es' ≠ 0 := hEs'.ne'
  field_simp at e
  exact e.symm

/-- the same result for two gain vectors (everything else equal) ⇒ the same gain on every
    channel that gets power (the gain of a switched-off channel is legitimately invisible) -/
theorem IsWaterFilling.used_gain_eq (h : IsWaterFilling g P N Es p mu)
    (h' : IsWaterFilling g' P' N Es p mu) (hg : ∀ x ∈ g, 0 < x) (hg' : ∀ x ∈ g', 0 < x)
    (hN : 0 < N) (hEs : 0 < Es) (j : Nat) (hj : j < g.length) (hj' : j < g'.length)
    (hp : j < p.length) (hpos : 0 < p[j]) : g[j] = g'[j] := by
  have e1 := h.getElem j hj hp
  have e2 := h'.getElem j hj' hp
  rw [e1] at hpos
  have h1 : 0 < mu - N / (Es * g[j]) := by
    rcases lt_max_iff.mp hpos with h0 | h1
    · exact absurd h0 (lt_irrefl _)
    · exact h1
  rw [e1, max_eq_right h1.le] at e2
  have h2 : max 0 (mu - N / (Es * g'[j])) = mu - N / (Es * g'[j]) := by
    apply max_eq_right
    rcases le_total 0 (mu - N / (Es * g'[j])) with h3 | h3
    · exact h3
    · rw [max_eq_left h3] at e2; linarith
  rw [h2] at e2
  have e : N / (Es * g[j]) = N / (Es * g'[j]) := by linarith
  have hx : g[j] ≠ 0 := (hg _ (List.getElem_mem hj)).ne'
  have hx' : g'[j] ≠ 0 := (hg' _ (List.getElem_mem hj')).ne'
  have hN0 : N ≠ 0 := hN.ne'
  have hE : Es ≠ 0 := hEs.ne'
  field_simp at e
  exact e.symm

end PyPhysim.C12
