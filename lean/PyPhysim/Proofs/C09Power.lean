import Mathlib.Tactic.Ring
import Mathlib.Tactic.FieldSimp
import Mathlib.Tactic.Linarith
import Mathlib.Tactic.Positivity
import PyPhysim.Proofs.C09Null

/-!
Power clauses: Frobenius norms under real scaling, the running maximum of
`_perform_normalized_waterfilling_power_scaling`, orthonormal columns of the
selected singular vectors.
-/
set_option linter.unusedSectionVars false
namespace PyPhysim.BD
namespace Pf
open Matrix

/-! ### the running maximum -/

theorem foldl_max_ge_init (xs : List ℝ) (a : ℝ) :
    a ≤ xs.foldl (fun mx c => if mx < c then c else mx) a := by
  induction xs generalizing a with
  | nil => simp
  | cons x xs ih =>
    simp only [List.foldl_cons]
    split
    · exact le_trans (le_of_lt ‹a < x›) (ih x)
    · exact ih a

theorem foldl_max_ge_mem (xs : List ℝ) (a : ℝ) (x : ℝ) (hx : x ∈ xs) :
    x ≤ xs.foldl (fun mx c => if mx < c then c else mx) a := by
  induction xs generalizing a with
  | nil => simp at hx
  | cons y ys ih =>
    simp only [List.foldl_cons]
    rcases List.mem_cons.mp hx with rfl | h
    · split
      · exact foldl_max_ge_init ys x
      · exact le_trans (not_lt.mp ‹¬a < x›) (foldl_max_ge_init ys a)
    · exact ih _ h

theorem foldl_max_mem (xs : List ℝ) (a : ℝ) :
    xs.foldl (fun mx c => if mx < c then c else mx) a = a ∨
      xs.foldl (fun mx c => if mx < c then c else mx) a ∈ xs := by
  induction xs generalizing a with
  | nil => simp
  | cons y ys ih =>
    simp only [List.foldl_cons]
    split
    · rcases ih y with h | h
      · right; rw [h]; exact List.mem_cons_self
      · right; exact List.mem_cons_of_mem _ h
    · rcases ih a with h | h
      · left; exact h
      · right; exact List.mem_cons_of_mem _ h

theorem maxLoop_ge (xs : List ℝ) (x : ℝ) (hx : x ∈ xs) : x ≤ maxLoop xs := foldl_max_ge_mem xs 0 x hx

theorem maxLoop_nonneg (xs : List ℝ) : 0 ≤ maxLoop xs := foldl_max_ge_init xs 0

/-- if some entry is positive the running maximum is one of the entries (and positive) -/
theorem maxLoop_attained (xs : List ℝ) (x : ℝ) (hx : x ∈ xs) (hpos : 0 < x) :
    maxLoop xs ∈ xs ∧ 0 < maxLoop xs := by
  have hge := maxLoop_ge xs x hx
  have hp : 0 < maxLoop xs := lt_of_lt_of_le hpos hge
  rcases foldl_max_mem xs 0 with h | h
  · exact absurd h (ne_of_gt hp)
  · exact ⟨h, hp⟩

/-! ### Frobenius norm under scaling -/
section frob
variable {m n : Nat}

theorem normSq_scale (a : ℂ) (s c : ℝ) :
    Complex.normSq (a * (s : ℂ) / (c : ℂ)) = Complex.normSq a * (s * s) / (c * c) := by
  rw [Complex.normSq_div, Complex.normSq_mul, Complex.normSq_ofReal, Complex.normSq_ofReal]

theorem frobSq_scale (A : Mat ℂ m n) (s c : ℝ) :
    frobSq (fun i j => A i j * Cx.ofReal s / Cx.ofReal c : Mat ℂ m n) = frobSq A * (s * s) / (c * c) := by
  simp only [frobSq_eq, Cx.ofReal, normSq_scale]
  simp only [← Finset.sum_div, ← Finset.sum_mul]

theorem normSq_div_real (a : ℂ) (c : ℝ) :
    Complex.normSq (a / (c : ℂ)) = Complex.normSq a / (c * c) := by
  rw [Complex.normSq_div, Complex.normSq_ofReal]

theorem frobSq_div (A : Mat ℂ m n) (c : ℝ) :
    frobSq (fun i j => A i j / Cx.ofReal c : Mat ℂ m n) = frobSq A / (c * c) := by
  simp only [frobSq_eq, Cx.ofReal, normSq_div_real]
  simp only [← Finset.sum_div]

theorem frobNorm_sq (A : Mat ℂ m n) : frobNorm A * frobNorm A = frobSq A :=
  Real.mul_self_sqrt (frobSq_nonneg A)

theorem frobNorm_nonneg (A : Mat ℂ m n) : 0 ≤ frobNorm A := Real.sqrt_nonneg _

theorem frobNorm_pos_iff (A : Mat ℂ m n) : 0 < frobNorm A ↔ 0 < frobSq A := Real.sqrt_pos

/-- a matrix scaled to `A·√P/‖A‖_F` has squared Frobenius norm `P` -/
theorem frobSq_normalised (A : Mat ℂ m n) (P : ℝ) (hP : 0 ≤ P) (hA : 0 < frobSq A) :
    frobSq (fun i j => A i j * Cx.ofReal (RFun.sqrt P) / Cx.ofReal (frobNorm A) : Mat ℂ m n) = P := by
  rw [frobSq_scale, frobNorm_sq]
  show frobSq A * (Real.sqrt P * Real.sqrt P) / frobSq A = P
  rw [Real.mul_self_sqrt hP]
  field_simp

end frob

/-! ### selected singular vectors have orthonormal columns -/
section ortho
variable {T n : Nat}

theorem revIdx_injective (h : n ≤ T) : Function.Injective (revIdx h) := by
  intro a b hab
  have := congrArg Fin.val hab
  simp only [revIdx] at this
  apply Fin.ext
  have ha := a.isLt
  have hb := b.isLt
  omega

theorem toM_leastCols (VH : Mat ℂ T T) (h : n ≤ T) :
    toM (leastCols VH n h) = ((toM VH).submatrix (revIdx h) id)ᴴ := by
  ext i j
  simp [leastCols, Cx.conj, conjTranspose_apply]

/-- `V_H` unitary ⇒ the selected columns are orthonormal: `V0ᴴ V0 = 1` -/
theorem leastCols_orthonormal (VH : Mat ℂ T T) (h : n ≤ T) (hU : matMul VH (cT VH) = eye) :
    matMul (cT (leastCols VH n h)) (leastCols VH n h) = eye := by
  to_matrix at hU
  to_matrix
  rw [toM_leastCols, conjTranspose_conjTranspose]
  have : ((toM VH).submatrix (revIdx h) id) * ((toM VH).submatrix (revIdx h) id)ᴴ
      = ((toM VH) * (toM VH)ᴴ).submatrix (revIdx h) (revIdx h) := by
    ext a b
    simp [Matrix.mul_apply, conjTranspose_apply]
  rw [this, hU, Matrix.submatrix_one _ (revIdx_injective h)]

/-- orthonormal columns are unit vectors -/
theorem col_normSq_of_orthonormal {m : Nat} (A : Mat ℂ m n) (hA : matMul (cT A) A = eye) (c : Fin n) :
    ∑ i, Complex.normSq (A i c) = 1 := by
  have h := congrFun (congrFun hA c) c
  simp only [matMul_apply, cT, Cx.conj, eye, if_true] at h
  have h2 := congrArg Complex.re h
  simp only [Complex.re_sum, Complex.one_re] at h2
  rw [← h2]
  refine Finset.sum_congr rfl (fun i _ => ?_)
  rw [Complex.star_def, mul_comm, Complex.mul_conj]
  simp

theorem orthonormal_mul {m k : Nat} (A : Mat ℂ m k) (B : Mat ℂ k n) (hA : matMul (cT A) A = eye)
    (hB : matMul (cT B) B = eye) : matMul (cT (matMul A B)) (matMul A B) = eye := by
  to_matrix at hA
  to_matrix at hB
  to_matrix
  rw [conjTranspose_mul, Matrix.mul_assoc, ← Matrix.mul_assoc _ (toM A), hA, Matrix.one_mul, hB]

theorem frobSq_of_unit_cols {m : Nat} (A : Mat ℂ m n) (hA : ∀ c, ∑ i, Complex.normSq (A i c) = 1) :
    frobSq A = n := by
  rw [frobSq_cols]
  simp [hA]

end ortho

/-! ### global water-filling scaling -/
section wf
variable {K N T : Nat}

theorem globalWF_apply {n : Nat} (MsBad : Mat ℂ T n) (p : Fin n → ℝ) (i : Fin T) (j : Fin n) :
    globalWF MsBad p i j = MsBad i j * ((Real.sqrt (p j) : ℝ) : ℂ) := by
  simp only [globalWF, matMul_diagM]
  rfl

/-- power of a transmitter block after the global water-filling: `Σ p_c ‖column c‖²` -/
theorem frobSq_colBlock_globalWF (MsBad : Mat ℂ T (K * N)) (p : Fin (K * N) → ℝ) (hp : ∀ j, 0 ≤ p j) (k : Fin K) :
    frobSq (colBlock (globalWF MsBad p) k) =
      ∑ c : Fin N, p (join k c) * ∑ i, Complex.normSq (MsBad i (join k c)) := by
  rw [frobSq_cols]
  refine Finset.sum_congr rfl (fun c _ => ?_)
  simp only [colBlock, globalWF_apply, Complex.normSq_mul, Complex.normSq_ofReal, Real.mul_self_sqrt (hp _)]
  rw [Finset.mul_sum]
  exact Finset.sum_congr rfl (fun i _ => mul_comm _ _)

theorem frobSq_colBlock_globalWF_pos (MsBad : Mat ℂ T (K * N)) (p : Fin (K * N) → ℝ) (hp : ∀ j, 0 ≤ p j)
    (hcol : ∀ c, ∑ i, Complex.normSq (MsBad i c) = 1) (j : Fin (K * N)) (hj : 0 < p j) :
    0 < frobSq (colBlock (globalWF MsBad p) (userOf j)) := by
  rw [frobSq_colBlock_globalWF MsBad p hp]
  simp only [hcol, mul_one]
  have hle : p (join (userOf j) (within j)) ≤ ∑ c : Fin N, p (join (userOf j) c) :=
    Finset.single_le_sum (f := fun c => p (join (userOf j) c)) (fun c _ => hp _) (Finset.mem_univ (within j))
  rw [join_userOf_within] at hle
  linarith

theorem colBlock_scaleBy (A : Mat ℂ T (K * N)) (s c : ℝ) (k : Fin K) :
    colBlock (scaleBy A s c) k = (fun i j => colBlock A k i j * Cx.ofReal s / Cx.ofReal c : Mat ℂ T N) := rfl

/-- the power clause of `block_diagonalize` (normalised water-filling) for a precoder
    with unit-norm columns -/
theorem normalizedWF_power (iPu : ℝ) (hP : 0 ≤ iPu) (MsBad : Mat ℂ T (K * N)) (p : Fin (K * N) → ℝ)
    (hp : ∀ j, 0 ≤ p j) (hp1 : ∃ j, 0 < p j) (hcol : ∀ c, ∑ i, Complex.normSq (MsBad i c) = 1) :
    (∀ k, frobSq (colBlock (normalizedWF iPu MsBad p) k) ≤ iPu) ∧
      ∃ k, frobSq (colBlock (normalizedWF iPu MsBad p) k) = iPu := by
  obtain ⟨j, hj⟩ := hp1
  set G := globalWF MsBad p with hG
  set xs := blockNorms (K := K) (N := N) G with hxs
  have hmem : ∀ k : Fin K, frobNorm (colBlock G k) ∈ xs := by
    intro k
    simp only [hxs, blockNorms, List.mem_map]
    exact ⟨k, List.mem_finRange k, rfl⟩
  have hposk : 0 < frobNorm (colBlock G (userOf j)) :=
    (frobNorm_pos_iff _).mpr (frobSq_colBlock_globalWF_pos MsBad p hp hcol j hj)
  obtain ⟨hmax_mem, hmax_pos⟩ := maxLoop_attained xs _ (hmem (userOf j)) hposk
  have hval : ∀ k, frobSq (colBlock (normalizedWF iPu MsBad p) k)
      = frobSq (colBlock G k) * iPu / (maxLoop xs * maxLoop xs) := by
    intro k
    show frobSq (colBlock (scaleBy G (RFun.sqrt iPu) (maxLoop xs)) k) = _
    rw [colBlock_scaleBy, frobSq_scale]
    show frobSq (colBlock G k) * (Real.sqrt iPu * Real.sqrt iPu) / _ = _
    rw [Real.mul_self_sqrt hP]
  have hmm : 0 < maxLoop xs * maxLoop xs := mul_pos hmax_pos hmax_pos
  constructor
  · intro k
    rw [hval, div_le_iff₀ hmm]
    have h1 : frobNorm (colBlock G k) ≤ maxLoop xs := maxLoop_ge xs _ (hmem k)
    have h2 : frobSq (colBlock G k) ≤ maxLoop xs * maxLoop xs := by
      rw [← frobNorm_sq]
      exact mul_le_mul h1 h1 (frobNorm_nonneg _) (le_of_lt hmax_pos)
    calc frobSq (colBlock G k) * iPu ≤ (maxLoop xs * maxLoop xs) * iPu := mul_le_mul_of_nonneg_right h2 hP
      _ = iPu * (maxLoop xs * maxLoop xs) := mul_comm _ _
  · simp only [hxs, blockNorms, List.mem_map] at hmax_mem
    obtain ⟨k, _, hk⟩ := hmax_mem
    refine ⟨k, ?_⟩
    have hk' : frobNorm (colBlock G k) = maxLoop xs := hk
    rw [hval, ← hk', frobNorm_sq]
    have : 0 < frobSq (colBlock G k) := by
      rw [← frobNorm_sq, hk']; exact hmm
    field_simp

/-- the power clause of `block_diagonalize_no_waterfilling` -/
theorem noWF_power (iPu : ℝ) (hP : 0 ≤ iPu) (MsBad : Mat ℂ T (K * N)) (k : Fin K)
    (hk : 0 < frobSq (colBlock MsBad k)) : frobSq (colBlock (noWF iPu MsBad) k) = iPu := by
  have : colBlock (noWF iPu MsBad) k =
      (fun i j => colBlock MsBad k i j * Cx.ofReal (RFun.sqrt iPu) / Cx.ofReal (frobNorm (colBlock MsBad k)) :
        Mat ℂ T N) := by
    funext i c
    simp [colBlock, noWF]
  rw [this]
  exact frobSq_normalised _ iPu hP hk

end wf
end Pf
end PyPhysim.BD
