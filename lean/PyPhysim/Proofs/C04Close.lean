import PyPhysim.Model.C04Buf
import PyPhysim.Proofs.C04ObjLimit

/-!
Lemmas behind the R15 / R16 theorems of C04.

R15 (distinct values that are merely close): the model is a function of the *exact* value —
a setter stores exactly what it is given, the MMSE / ZF decision is the exact test `0 < σ²`,
and two different noise variances, however close, never share an MMSE filter.

R16 (argument identity and buffer reuse): `Model/C04Buf.lean` — the code keeps the caller's
array; that is invisible exactly as long as the array is handed over again after every
refill.
-/
set_option linter.unusedSectionVars false
namespace PyPhysim.C04
open Matrix PyPhysim.Proto

namespace Pf
variable {m n : Nat}

/-- two noise variances whose MMSE systems have a common solution for a non-zero channel are
    equal -/
theorem mmse_separates (A : Matrix (Fin m) (Fin n) ℂ) (W : Matrix (Fin n) (Fin m) ℂ) (s s' : ℂ)
    (h : (Aᴴ * A + s • (1 : Matrix (Fin n) (Fin n) ℂ)) * W = Aᴴ)
    (h' : (Aᴴ * A + s' • (1 : Matrix (Fin n) (Fin n) ℂ)) * W = Aᴴ) (hA : A ≠ 0) : s = s' := by
  by_contra hne
  have e : (s - s') • W = 0 := by
    have e1 : (Aᴴ * A + s • (1 : Matrix (Fin n) (Fin n) ℂ)) * W
        - (Aᴴ * A + s' • (1 : Matrix (Fin n) (Fin n) ℂ)) * W = 0 := by rw [h, h', sub_self]
    rw [← Matrix.sub_mul, add_sub_add_left_eq_sub, ← sub_smul, Matrix.smul_mul, Matrix.one_mul] at e1
    exact e1
  have hW : W = 0 := by
    rcases smul_eq_zero.mp e with h0 | h0
    · exact absurd (sub_eq_zero.mp h0) hne
    · exact h0
  rw [hW, Matrix.mul_zero] at h
  exact hA (conjTranspose_eq_zero.mp h.symm)

/-- a left inverse of the channel that satisfies the ZF normal equation never satisfies the
    MMSE equation of a non-zero noise variance -/
theorem zf_not_mmse (A : Matrix (Fin m) (Fin n) ℂ) (G : Matrix (Fin n) (Fin m) ℂ) (s : ℂ) (hn : 0 < n)
    (hGA : G * A = 1) (hN : (Aᴴ * A) * G = Aᴴ) (hs : s ≠ 0) :
    (Aᴴ * A + s • (1 : Matrix (Fin n) (Fin n) ℂ)) * G ≠ Aᴴ := by
  intro h
  rw [Matrix.add_mul, hN, Matrix.smul_mul, Matrix.one_mul, add_eq_left] at h
  have hG : G = 0 := by
    rcases smul_eq_zero.mp h with h0 | h0
    · exact absurd h0 hs
    · exact h0
  rw [hG, Matrix.zero_mul] at hGA
  have : Nonempty (Fin n) := ⟨⟨0, hn⟩⟩
  exact zero_ne_one hGA

/-- the filter decision of the Blast family is the exact test `0 < σ²` -/
theorem blastFilterK_pos {nr nt : Nat} (K : Kernels ℂ) (H : Mat ℂ nr nt) (s : ℝ) (hs : 0 < s) :
    toM (blastFilterK K H (s : ℂ)) = (sqrtNat nt : ℂ) • toM (K.solve (mmseLhs H (s : ℂ)) (mmseRhs H)) := by
  unfold blastFilterK
  exact toM_blastFilter_mmse _ (by simpa using hs) _ _

theorem blastFilterK_zero {nr nt : Nat} (K : Kernels ℂ) (H : Mat ℂ nr nt) :
    toM (blastFilterK K H 0) = (sqrtNat nt : ℂ) • toM (K.pinv H) := by
  unfold blastFilterK
  exact toM_blastFilter_zf _ (by simp) _ _

section setters
variable {α : Type} [Zero α] [One α] [Add α] [Sub α] [Mul α] [Div α] [Neg α] [NatCast α] [CScalar α]

/-- an accepted `set_channel_matrix` stores exactly the channel it was given -/
theorem step_setChannel_ok (K : Kernels α) (o : Obj α) (c : ChanArg α) (ch : Chan α)
    (h : storeChan o.scheme c = .ok ch) :
    step K o (.setChannel c) = ({ o with chan := some ch }, .done) := by
  simp only [step, h]

/-- matrices of one shape that differ in a single entry are stored as different channels -/
theorem storeChan_mat_injective (s : Scheme) (nr nt : Nat) (H H' : Mat α nr nt) (ch ch' : Chan α)
    (h : storeChan s (.mat nr nt H) = .ok ch) (h' : storeChan s (.mat nr nt H') = .ok ch')
    (hne : H ≠ H') : ch ≠ ch' := by
  intro e
  subst e
  have key : ∀ (sch : Scheme) (X : Mat α nr nt) (c : Chan α), storeChan sch (.mat nr nt X) = .ok c →
      c = ⟨nr, nt, X⟩ := by
    intro sch X c hc
    cases sch <;> simp only [storeChan] at hc
    · cases hc; rfl
    · cases hc; rfl
    · split at hc
      · cases hc
      · cases hc; rfl
    · cases hc; rfl
    · cases hc; rfl
    · split at hc
      · cases hc
      · cases hc; rfl
  have e1 := key s H ch h
  have e2 := key s H' ch h'
  rw [e1] at e2
  injection e2 with _ _ h3
  exact hne h3

end setters

end Pf

/-! ## the caller's one array (`Model/C04Buf.lean`) -/
namespace Buf

theorem agree_step {β : Type} (c : CodeSt β) (v : ValSt β) (d : Bool) (op : BOp β) (ops : List (BOp β))
    (ha : agree c v d) (hd : disciplined d (op :: ops) = true) :
    (codeStep c op).2 = (valStep v op).2 ∧
    ∃ d', agree (codeStep c op).1 (valStep v op).1 d' ∧ disciplined d' ops = true := by
  obtain ⟨hb, hs, ho⟩ := ha
  cases op with
  | refill x =>
    refine ⟨rfl, true, ⟨rfl, fun h => (by cases h), ?_⟩, hd⟩
    intro hal
    exact ho hal
  | setBuffer =>
    refine ⟨rfl, false, ⟨hb, fun _ => ?_, fun h => (by cases h)⟩, hd⟩
    simp only [codeStep, valStep, CodeSt.seen, if_true, hb]
  | setFresh x =>
    refine ⟨rfl, false, ⟨hb, fun _ => ?_, fun _ => rfl⟩, hd⟩
    simp [codeStep, valStep, CodeSt.seen]
  | observe =>
    simp only [disciplined, Bool.and_eq_true, Bool.not_eq_true'] at hd
    obtain ⟨hd1, hd2⟩ := hd
    refine ⟨?_, d, ⟨hb, hs, ho⟩, hd2⟩
    simp only [codeStep, valStep]
    rw [hs hd1]

/-- a disciplined caller cannot tell the code (which keeps the array) from value semantics -/
theorem disciplined_runs_agree {β : Type} : ∀ (ops : List (BOp β)) (c : CodeSt β) (v : ValSt β) (d : Bool),
    agree c v d → disciplined d ops = true → codeRun c ops = valRun v ops
  | [], _, _, _, _, _ => rfl
  | op :: ops, c, v, d, ha, hd => by
    obtain ⟨ho, d', ha', hd'⟩ := agree_step c v d op ops ha hd
    have ih := disciplined_runs_agree ops _ _ d' ha' hd'
    simp only [codeRun, valRun, ho, ih]

end Buf
end PyPhysim.C04
