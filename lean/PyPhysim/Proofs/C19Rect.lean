import PyPhysim.Proofs.C19Geom
import PyPhysim.Model.C19Spec
import Mathlib.Tactic.Positivity
import Mathlib.Tactic.LinearCombination

set_option linter.unusedSectionVars false

/-! C19 — the repaired rectangle test is membership in the convex hull of the rotated vertices. -/
namespace PyPhysim.C19

section
variable {α : Type} [Field α] [LinearOrder α] [IsStrictOrderedRing α]

theorem pmin_le_pmax (a b : α) : pmin a b ≤ pmax a b := by
  unfold pmin pmax
  split_ifs with h1 h2 h2
  · exact le_refl _
  · exact le_of_lt h1
  · exact le_of_lt h2
  · exact le_refl _

theorem mkRect_lower_le_upper (f s : Pt α) :
    (mkRect f s).lower.1 ≤ (mkRect f s).upper.1 ∧ (mkRect f s).lower.2 ≤ (mkRect f s).upper.2 :=
  ⟨pmin_le_pmax _ _, pmin_le_pmax _ _⟩

/-- the nested `if`s of the test are the four inequalities in the rectangle's own frame -/
theorem rectInside_iff (r : Rect α) (u p : Pt α) :
    rectInside r u p = true ↔
      (psub r.lower r.pos).1 ≤ (rot (conj u) (psub p r.pos)).1 ∧
      (rot (conj u) (psub p r.pos)).1 ≤ (psub r.upper r.pos).1 ∧
      (psub r.lower r.pos).2 ≤ (rot (conj u) (psub p r.pos)).2 ∧
      (rot (conj u) (psub p r.pos)).2 ≤ (psub r.upper r.pos).2 := by
  unfold rectInside
  simp only []
  split_ifs with h1 h2 h3 h4
  · exact ⟨fun h => (by cases h), fun ⟨a, _, _, _⟩ => absurd a (not_le.mpr h1)⟩
  · exact ⟨fun h => (by cases h), fun ⟨_, a, _, _⟩ => absurd a (not_le.mpr h2)⟩
  · exact ⟨fun h => (by cases h), fun ⟨_, _, a, _⟩ => absurd a (not_le.mpr h3)⟩
  · exact ⟨fun h => (by cases h), fun ⟨_, _, _, a⟩ => absurd a (not_le.mpr h4)⟩
  · simp only [true_iff]
    exact ⟨not_lt.mp h1, not_lt.mp h2, not_lt.mp h3, not_lt.mp h4⟩

/-- a point of `[A, B]` is `A + a·(B - A)` with `0 ≤ a ≤ 1` -/
theorem interval_param (A B x : α) (h1 : A ≤ x) (h2 : x ≤ B) :
    ∃ a, 0 ≤ a ∧ a ≤ 1 ∧ x = A + a * (B - A) := by
  rcases eq_or_lt_of_le (le_trans h1 h2) with h | h
  · refine ⟨0, le_refl _, zero_le_one, ?_⟩
    have : x = A := le_antisymm (h ▸ h2) h1
    simp [this]
  · have hpos : 0 < B - A := sub_pos.mpr h
    refine ⟨(x - A) / (B - A), div_nonneg (sub_nonneg.mpr h1) hpos.le, ?_, ?_⟩
    · rw [div_le_one hpos]; linarith
    · field_simp; ring

/-- hull of four points, unfolded -/
theorem inHull4_iff (v0 v1 v2 v3 p : Pt α) :
    InHull [v0, v1, v2, v3] p ↔
      ∃ a b c d : α, 0 ≤ a ∧ 0 ≤ b ∧ 0 ≤ c ∧ 0 ≤ d ∧ a + b + c + d = 1 ∧
        p = (a * v0.1 + b * v1.1 + c * v2.1 + d * v3.1, a * v0.2 + b * v1.2 + c * v2.2 + d * v3.2) := by
  constructor
  · rintro ⟨ws, hl, hnn, hs, hc⟩
    match ws, hl with
    | [a, b, c, d], _ =>
      refine ⟨a, b, c, d, ?_, ?_, ?_, ?_, ?_, ?_⟩
      · simpa using hnn a (by simp)
      · simpa using hnn b (by simp)
      · simpa using hnn c (by simp)
      · simpa using hnn d (by simp)
      · simp only [sumL, Nat.cast_zero, Nat.cast_one] at hs; linarith
      · rw [← hc]; simp only [combo, padd, smul, Nat.cast_zero]; ext <;> simp <;> ring
  · rintro ⟨a, b, c, d, ha, hb, hc, hd, hs, hp⟩
    refine ⟨[a, b, c, d], rfl, ?_, ?_, ?_⟩
    · intro w hw
      simp only [List.mem_cons, List.not_mem_nil, or_false] at hw
      rcases hw with rfl | rfl | rfl | rfl <;> simpa
    · simp only [sumL, Nat.cast_zero, Nat.cast_one]; linarith
    · rw [hp]; simp only [combo, padd, smul, Nat.cast_zero]; ext <;> simp <;> ring

/-- **rectangle containment**: for a unit rotation vector the repaired test holds exactly for the
    convex combinations of the four vertices `Shape.vertices` reports -/
theorem rect_contains_iff' (r : Rect α) (u : Pt α) (hu : norm2 u = 1)
    (hx : r.lower.1 ≤ r.upper.1) (hy : r.lower.2 ≤ r.upper.2) (p : Pt α) :
    rectInside r u p = true ↔ InHull (place r.pos u (rectVerts r)) p := by
  rw [rectInside_iff]
  simp only [place, rectVerts, List.map_cons, List.map_nil]
  rw [inHull4_iff]
  obtain ⟨u1, u2⟩ := u
  obtain ⟨p1, p2⟩ := p
  obtain ⟨⟨c1, c2⟩, ⟨l1, l2⟩, ⟨h1, h2⟩⟩ := r
  simp only [norm2] at hu
  simp only [psub, rot, conj, cmul, padd] at *
  constructor
  · rintro ⟨a1, a2, a3, a4⟩
    obtain ⟨a, ha0, ha1, hax⟩ := interval_param _ _ _ a1 a2
    obtain ⟨b, hb0, hb1, hbx⟩ := interval_param _ _ _ a3 a4
    refine ⟨(1 - a) * (1 - b), a * (1 - b), a * b, (1 - a) * b, ?_, ?_, ?_, ?_, ?_, ?_⟩
    · exact mul_nonneg (by linarith) (by linarith)
    · exact mul_nonneg ha0 (by linarith)
    · exact mul_nonneg ha0 hb0
    · exact mul_nonneg (by linarith) hb0
    · ring
    · -- p - c = u · q   with q = (qx, qy)
      have e1 : p1 - c1 = u1 * ((p1 - c1) * u1 - (p2 - c2) * -u2) - u2 * ((p1 - c1) * -u2 + (p2 - c2) * u1) := by
        linear_combination (-(p1 - c1)) * hu
      have e2 : p2 - c2 = u2 * ((p1 - c1) * u1 - (p2 - c2) * -u2) + u1 * ((p1 - c1) * -u2 + (p2 - c2) * u1) := by
        linear_combination (-(p2 - c2)) * hu
      rw [hax, hbx] at e1 e2
      ext
      · simp only; linarith [e1]
      · simp only; linarith [e2]
  · rintro ⟨a, b, c, d, ha, hb, hc, hd, hs, hp⟩
    simp only [Prod.mk.injEq] at hp
    obtain ⟨hp1, hp2⟩ := hp
    -- the point in the rectangle's own frame
    have q1 : (p1 - c1) * u1 - (p2 - c2) * -u2
        = a * (l1 - c1) + b * (h1 - c1) + c * (h1 - c1) + d * (l1 - c1) := by
      rw [hp1, hp2]
      have hd' : d = 1 - a - b - c := by linarith
      subst hd'
      linear_combination (a * (l1 - c1) + b * (h1 - c1) + c * (h1 - c1) + (1 - a - b - c) * (l1 - c1)) * hu
    have q2 : (p1 - c1) * -u2 + (p2 - c2) * u1
        = a * (l2 - c2) + b * (l2 - c2) + c * (h2 - c2) + d * (h2 - c2) := by
      rw [hp1, hp2]
      have hd' : d = 1 - a - b - c := by linarith
      subst hd'
      linear_combination (a * (l2 - c2) + b * (l2 - c2) + c * (h2 - c2) + (1 - a - b - c) * (h2 - c2)) * hu
    rw [q1, q2]
    have hx' : 0 ≤ h1 - l1 := sub_nonneg.mpr hx
    have hy' : 0 ≤ h2 - l2 := sub_nonneg.mpr hy
    have hd' : d = 1 - a - b - c := by linarith
    refine ⟨?_, ?_, ?_, ?_⟩
    · have : a * (l1 - c1) + b * (h1 - c1) + c * (h1 - c1) + d * (l1 - c1) - (l1 - c1) = (b + c) * (h1 - l1) := by
        rw [hd']; ring
      have h0 : 0 ≤ (b + c) * (h1 - l1) := mul_nonneg (by linarith) hx'
      linarith
    · have : (h1 - c1) - (a * (l1 - c1) + b * (h1 - c1) + c * (h1 - c1) + d * (l1 - c1)) = (a + d) * (h1 - l1) := by
        rw [hd']; ring
      have h0 : 0 ≤ (a + d) * (h1 - l1) := mul_nonneg (by linarith) hx'
      linarith
    · have : a * (l2 - c2) + b * (l2 - c2) + c * (h2 - c2) + d * (h2 - c2) - (l2 - c2) = (c + d) * (h2 - l2) := by
        rw [hd']; ring
      have h0 : 0 ≤ (c + d) * (h2 - l2) := mul_nonneg (by linarith) hy'
      linarith
    · have : (h2 - c2) - (a * (l2 - c2) + b * (l2 - c2) + c * (h2 - c2) + d * (h2 - c2)) = (a + b) * (h2 - l2) := by
        rw [hd']; ring
      have h0 : 0 ≤ (a + b) * (h2 - l2) := mul_nonneg (by linarith) hy'
      linarith
end

end PyPhysim.C19
