import Mathlib.Data.String.Basic
import Mathlib.Data.List.Induction
import PyPhysim.Model.C05Spec

/-! Helper lemmas for C05: cartesian product = mixed-radix indexing, the numpy
slice as a filter, `get_pack_indexes` against the combinations themselves. -/
namespace PyPhysim.C05

/-! ### blocks of equal length -/

theorem length_flatMap_const {α β : Type} (f : α → List β) (m : Nat) :
    ∀ (l : List α), (∀ x ∈ l, (f x).length = m) → (l.flatMap f).length = l.length * m
  | [], _ => by simp
  | x :: xs, h => by
    rw [List.flatMap_cons, List.length_append, h x (by simp),
      length_flatMap_const f m xs (fun y hy => h y (by simp [hy])), List.length_cons,
      Nat.succ_mul, Nat.add_comm]

theorem getElem?_flatMap_const {α β : Type} (f : α → List β) (m : Nat) :
    ∀ (l : List α) (i : Nat), (∀ x ∈ l, (f x).length = m) → i < l.length * m →
      (l.flatMap f)[i]? = (l[i / m]?).bind (fun x => (f x)[i % m]?)
  | [], i, _, hi => by simp at hi
  | x :: xs, i, h, hi => by
    have hm : 0 < m := by
      rcases Nat.eq_zero_or_pos m with h0 | h0
      · subst h0; simp at hi
      · exact h0
    have hx : (f x).length = m := h x (by simp)
    rw [List.flatMap_cons]
    by_cases hlt : i < m
    · rw [List.getElem?_append_left (by rw [hx]; exact hlt)]
      simp [Nat.div_eq_of_lt hlt, Nat.mod_eq_of_lt hlt]
    · have hge : m ≤ i := Nat.le_of_not_lt hlt
      rw [List.getElem?_append_right (by rw [hx]; exact hge), hx]
      have hi' : i - m < xs.length * m := by
        rw [List.length_cons, Nat.succ_mul] at hi; omega
      rw [getElem?_flatMap_const f m xs (i - m) (fun y hy => h y (by simp [hy])) hi']
      have hdiv : i / m = (i - m) / m + 1 := by
        rw [← Nat.sub_add_cancel hge] at *
        rw [Nat.add_sub_cancel, Nat.add_div_right _ hm]
      have hmod : (i - m) % m = i % m := by
        conv_rhs => rw [← Nat.sub_add_cancel hge, Nat.add_mod_right]
      rw [hdiv, hmod, List.getElem?_cons_succ]

/-! ### `itertools.product` is mixed-radix indexing -/

theorem length_product {V : Type} : ∀ (vals : List (List V)),
    (product vals).length = prod (vals.map List.length)
  | [] => rfl
  | vs :: rest => by
    simp only [product, List.map_cons, prod]
    rw [length_flatMap_const _ (product rest).length vs (fun v _ => by simp), length_product rest]

theorem digits_length : ∀ (dims : List Nat) (i : Nat), (digits dims i).length = dims.length
  | [], _ => rfl
  | _ :: ds, i => by simp [digits, digits_length ds]

/-- combination `i` of the product is the one picked by the digits of `i` -/
theorem getElem?_product {V : Type} : ∀ (vals : List (List V)) (i : Nat),
    i < prod (vals.map List.length) →
    (product vals)[i]? = pick vals (digits (vals.map List.length) i)
  | [], i, hi => by
    simp only [List.map_nil, prod] at hi
    have : i = 0 := by omega
    subst this; simp [product, pick, digits]
  | vs :: rest, i, hi => by
    simp only [List.map_cons, prod] at hi
    have hm : 0 < prod (rest.map List.length) := by
      rcases Nat.eq_zero_or_pos (prod (rest.map List.length)) with h0 | h0
      · rw [h0] at hi; simp at hi
      · exact h0
    simp only [product, List.map_cons, digits, pick]
    rw [getElem?_flatMap_const _ (prod (rest.map List.length)) vs i
      (fun v _ => by simp [length_product]) hi]
    have hmod : i % prod (rest.map List.length) < prod (rest.map List.length) := Nat.mod_lt _ hm
    have ih := getElem?_product rest (i % prod (rest.map List.length)) hmod
    cases hv : vs[i / prod (rest.map List.length)]? with
    | none => simp
    | some v =>
      simp only [Option.bind_some, List.getElem?_map, ih]
      cases pick rest (digits (rest.map List.length) (i % prod (rest.map List.length))) <;> simp

theorem digits_lt : ∀ (dims : List Nat) (i : Nat), i < prod dims →
    ∀ (k d x : Nat), dims[k]? = some d → (digits dims i)[k]? = some x → x < d
  | [], _, _, k, d, x, hd, _ => by simp at hd
  | d0 :: ds, i, hi, k, d, x, hd, hx => by
    simp only [prod] at hi
    have hm : 0 < prod ds := by
      rcases Nat.eq_zero_or_pos (prod ds) with h0 | h0
      · rw [h0] at hi; simp at hi
      · exact h0
    cases k with
    | zero =>
      simp only [List.getElem?_cons_zero, Option.some.injEq, digits] at hd hx
      subst hd hx
      exact (Nat.div_lt_iff_lt_mul hm).mpr hi
    | succ k =>
      simp only [List.getElem?_cons_succ, digits] at hd hx
      exact digits_lt ds (i % prod ds) (Nat.mod_lt _ hm) k d x hd hx

/-- positional value: the last parameter has stride 1, the one before it the length
    of the last, … -/
theorem fromDigits_digits : ∀ (dims : List Nat) (i : Nat), i < prod dims →
    fromDigits dims (digits dims i) = i
  | [], i, hi => by simp only [prod] at hi; simp [fromDigits]; omega
  | d :: ds, i, hi => by
    simp only [prod] at hi
    have hm : 0 < prod ds := by
      rcases Nat.eq_zero_or_pos (prod ds) with h0 | h0
      · rw [h0] at hi; simp at hi
      · exact h0
    simp only [digits, fromDigits]
    rw [fromDigits_digits ds (i % prod ds) (Nat.mod_lt _ hm), Nat.mul_comm]
    exact Nat.div_add_mod i (prod ds)

/-- the digits of `k·m + j` (`j < m`) are `k` followed by the digits of `j` -/
theorem digits_block (d : Nat) (ds : List Nat) (k j : Nat) (hj : j < prod ds) :
    digits (d :: ds) (k * prod ds + j) = k :: digits ds j := by
  have hm : 0 < prod ds := by omega
  simp only [digits]
  rw [Nat.mul_comm k, Nat.mul_add_div hm, Nat.mul_add_mod, Nat.div_eq_of_lt hj, Nat.mod_eq_of_lt hj]
  simp

/-! ### the numpy slice is a filter on the digits -/

/-- do the digits agree with the fixed positions? -/
def selMatch : List (Option Nat) → List Nat → Bool
  | some k :: ss, d :: ds => d == k && selMatch ss ds
  | none :: ss, _ :: ds => selMatch ss ds
  | _, _ => true

/-- every fixed position is inside its dimension -/
def selOk : List Nat → List (Option Nat) → Prop
  | d :: ds, some k :: ss => k < d ∧ selOk ds ss
  | _ :: ds, none :: ss => selOk ds ss
  | [], [] => True
  | _, _ => False

theorem range_mul (d m : Nat) :
    List.range (d * m) = (List.range d).flatMap (fun k => (List.range m).map (fun j => k * m + j)) := by
  induction d with
  | zero => simp
  | succ d ih =>
    rw [Nat.succ_mul, List.range_add, ih, List.range_succ, List.flatMap_append]
    simp

theorem flatMap_ite_eq {β : Type} (g : Nat → List β) (k' : Nat) : ∀ (d : Nat),
    (List.range d).flatMap (fun k => if k = k' then g k else []) = if k' < d then g k' else []
  | 0 => by simp
  | d + 1 => by
    rw [List.range_succ, List.flatMap_append, flatMap_ite_eq g k' d]
    by_cases h1 : k' < d
    · have : d ≠ k' := by omega
      simp [h1, this, Nat.lt_succ_of_lt h1]
    · by_cases h2 : d = k'
      · subst h2; simp
      · have : ¬ k' < d + 1 := by omega
        simp [h1, h2, this]

theorem slice_eq_filter : ∀ (dims : List Nat) (sel : List (Option Nat)) (off : Nat),
    selOk dims sel →
    slice dims sel off
      = ((List.range (prod dims)).filter (fun i => selMatch sel (digits dims i))).map (fun i => off + i)
  | [], [], off, _ => by simp [slice, prod, selMatch]
  | [], _ :: _, _, h => by simp [selOk] at h
  | _ :: _, [], _, h => by simp [selOk] at h
  | d :: ds, s :: ss, off, h => by
    have blk : ∀ k, (List.map (fun j => k * prod ds + j) (List.range (prod ds))).filter
          (fun i => selMatch (s :: ss) (digits (d :: ds) i))
        = (List.map (fun j => k * prod ds + j) ((List.range (prod ds)).filter
            (fun j => selMatch (s :: ss) (k :: digits ds j)))) := by
      intro k
      rw [List.filter_map]
      congr 1
      apply List.filter_congr
      intro j hj
      simp only [Function.comp]
      rw [digits_block d ds k j (List.mem_range.mp hj)]
    simp only [prod]
    rw [range_mul, List.filter_flatMap, List.map_flatMap]
    simp only [blk]
    cases s with
    | none =>
      have h' : selOk ds ss := by simpa [selOk] using h
      simp only [slice, selMatch]
      congr 1
      funext k
      rw [slice_eq_filter ds ss (off + k * prod ds) h', List.map_map]
      congr 1
      funext j; simp [Function.comp, Nat.add_assoc]
    | some k' =>
      have h' : k' < d ∧ selOk ds ss := by simpa [selOk] using h
      simp only [slice, selMatch]
      rw [slice_eq_filter ds ss (off + k' * prod ds) h'.2]
      have : (fun k => List.map (fun i => off + i) (List.map (fun j => k * prod ds + j)
            ((List.range (prod ds)).filter (fun j => k == k' && selMatch ss (digits ds j)))))
          = (fun k => if k = k' then
              List.map (fun i => off + i) (List.map (fun j => k * prod ds + j)
                ((List.range (prod ds)).filter (fun j => selMatch ss (digits ds j)))) else []) := by
        funext k
        by_cases hk : k = k'
        · subst hk; simp
        · have : (k == k') = false := by simpa using hk
          simp [this, hk]
      rw [this, flatMap_ite_eq _ k' d]
      simp only [h'.1, if_true, List.map_map]
      congr 1
      funext j; simp [Function.comp, Nat.add_assoc]

/-! ### from positions to values -/

section values
variable {V : Type} [BEq V] [LawfulBEq V]

theorem indexOf_some (v : V) : ∀ (l : List V) (k : Nat), indexOf v l = some k →
    l[k]? = some v ∧ ∀ j, j < k → l[j]? ≠ some v
  | [], k, h => by simp [indexOf] at h
  | x :: xs, k, h => by
    simp only [indexOf] at h
    by_cases hx : x = v
    · subst hx
      simp only [beq_self_eq_true, if_true, Option.some.injEq] at h
      subst h; simp
    · have hx' : (x == v) = false := by simpa using hx
      simp only [hx', Bool.false_eq_true, if_false, Option.map_eq_some_iff] at h
      obtain ⟨k', hk', rfl⟩ := h
      obtain ⟨h1, h2⟩ := indexOf_some v xs k' hk'
      refine ⟨by simpa using h1, ?_⟩
      intro j hj
      cases j with
      | zero => simp [hx]
      | succ j => simpa using h2 j (by omega)

theorem indexOf_none (v : V) : ∀ (l : List V), indexOf v l = none → v ∉ l
  | [], _ => by simp
  | x :: xs, h => by
    simp only [indexOf] at h
    by_cases hx : x = v
    · subst hx; simp at h
    · have hx' : (x == v) = false := by simpa using hx
      simp only [hx', Bool.false_eq_true, if_false, Option.map_eq_none_iff] at h
      have := indexOf_none v xs h
      simp [this, Ne.symm hx]

theorem indexOf_lt (v : V) (l : List V) (k : Nat) (h : indexOf v l = some k) : k < l.length := by
  have := (indexOf_some v l k h).1
  exact (List.getElem?_eq_some_iff.mp this).1

/-- the selector list produced for duplicate-free value lists is inside the dimensions -/
theorem selectors_ok (fixed : List (String × V)) : ∀ (sp : List (Param V)) (sel : List (Option Nat)),
    selectors fixed sp = .ok sel → selOk (sp.map (·.2.length)) sel
  | [], sel, h => by
    simp only [selectors, Except.ok.injEq] at h; subst h; simp [selOk]
  | (name, vals) :: rest, sel, h => by
    simp only [selectors] at h
    cases hl : fixed.lookup name with
    | none =>
      rw [hl] at h
      simp only at h
      cases hr : selectors fixed rest with
      | error e => rw [hr] at h; simp [Except.map] at h
      | ok t =>
        rw [hr] at h
        simp only [Except.map, Except.ok.injEq] at h; subst h
        simpa [selOk] using selectors_ok fixed rest t hr
    | some w =>
      rw [hl] at h
      simp only at h
      cases hi : indexOf w vals with
      | none => rw [hi] at h; simp at h
      | some k =>
        rw [hi] at h
        simp only at h
        cases hr : selectors fixed rest with
        | error e => rw [hr] at h; simp [Except.map] at h
        | ok t =>
          rw [hr] at h
          simp only [Except.map, Except.ok.injEq] at h; subst h
          exact ⟨indexOf_lt w vals k hi, selectors_ok fixed rest t hr⟩

/-- the only way `get_pack_indexes` fails: a fixed value of an unpacked parameter is
    not among its values -/
theorem selectors_error (fixed : List (String × V)) : ∀ (sp : List (Param V)) (e : Err),
    selectors fixed sp = .error e →
    e = .ValueError ∧ ∃ name vals w, (name, vals) ∈ sp ∧ fixed.lookup name = some w ∧ w ∉ vals
  | [], e, h => by simp [selectors] at h
  | (name, vals) :: rest, e, h => by
    simp only [selectors] at h
    cases hl : fixed.lookup name with
    | none =>
      rw [hl] at h
      simp only at h
      cases hr : selectors fixed rest with
      | ok t => rw [hr] at h; simp [Except.map] at h
      | error e' =>
        rw [hr] at h
        simp only [Except.map, Except.error.injEq] at h; subst h
        obtain ⟨h1, n, vs, w, hm, h2, h3⟩ := selectors_error fixed rest e' hr
        exact ⟨h1, n, vs, w, by simp [hm], h2, h3⟩
    | some w =>
      rw [hl] at h
      simp only at h
      cases hi : indexOf w vals with
      | none =>
        rw [hi] at h
        simp only [Except.error.injEq] at h
        exact ⟨h.symm, name, vals, w, by simp, hl, indexOf_none w vals hi⟩
      | some k =>
        rw [hi] at h
        simp only at h
        cases hr : selectors fixed rest with
        | ok t => rw [hr] at h; simp [Except.map] at h
        | error e' =>
          rw [hr] at h
          simp only [Except.map, Except.error.injEq] at h; subst h
          obtain ⟨h1, n, vs, w', hm, h2, h3⟩ := selectors_error fixed rest e' hr
          exact ⟨h1, n, vs, w', by simp [hm], h2, h3⟩

/-- for duplicate-free value lists, agreeing on positions = agreeing on values -/
theorem selMatch_eq_comboMatches (fixed : List (String × V)) :
    ∀ (sp : List (Param V)) (sel : List (Option Nat)) (ds : List Nat) (c : List V),
      (∀ p ∈ sp, p.2.Nodup) → selectors fixed sp = .ok sel →
      pick (sp.map (·.2)) ds = some c → selMatch sel ds = comboMatches fixed sp c
  | [], sel, ds, c, _, h, hp => by
    simp only [selectors, Except.ok.injEq] at h; subst h
    simp [selMatch, comboMatches]
  | (name, vals) :: rest, sel, [], c, _, _, hp => by simp [pick] at hp
  | (name, vals) :: rest, sel, d :: ds, c, hnd, h, hp => by
    simp only [List.map_cons, pick] at hp
    cases hv : vals[d]? with
    | none => rw [hv] at hp; simp at hp
    | some v =>
      cases ht : pick (rest.map (·.2)) ds with
      | none => rw [hv, ht] at hp; simp at hp
      | some t =>
        rw [hv, ht] at hp
        simp only [Option.some.injEq] at hp; subst hp
        have hnd' : ∀ p ∈ rest, p.2.Nodup := fun p hp => hnd p (by simp [hp])
        simp only [selectors] at h
        cases hl : fixed.lookup name with
        | none =>
          rw [hl] at h
          simp only at h
          cases hr : selectors fixed rest with
          | error e => rw [hr] at h; simp [Except.map] at h
          | ok s' =>
            rw [hr] at h
            simp only [Except.map, Except.ok.injEq] at h; subst h
            simp only [selMatch, comboMatches, hl, Bool.true_and]
            exact selMatch_eq_comboMatches fixed rest s' ds t hnd' hr ht
        | some w =>
          rw [hl] at h
          simp only at h
          cases hi : indexOf w vals with
          | none => rw [hi] at h; simp at h
          | some k =>
            rw [hi] at h
            simp only at h
            cases hr : selectors fixed rest with
            | error e => rw [hr] at h; simp [Except.map] at h
            | ok s' =>
              rw [hr] at h
              simp only [Except.map, Except.ok.injEq] at h; subst h
              simp only [selMatch, comboMatches, hl]
              rw [selMatch_eq_comboMatches fixed rest s' ds t hnd' hr ht]
              congr 1
              have hk := (indexOf_some w vals k hi).1
              have hvn : vals.Nodup := hnd (name, vals) (by simp)
              by_cases hdk : d = k
              · subst hdk
                rw [hv] at hk
                simp only [Option.some.injEq] at hk
                simp [hk]
              · have hne : v ≠ w := by
                  intro hvw; subst hvw
                  obtain ⟨hd, _⟩ := List.getElem?_eq_some_iff.mp hv
                  exact hdk ((List.getElem?_inj hd hvn).mp (hv.trans hk.symm))
                have h1 : (d == k) = false := by simpa using hdk
                have h2 : (v == w) = false := by simpa using hne
                rw [h1, h2]

end values

/-! ### sorting by name -/

theorem sortParams_perm {V : Type} (ps : List (Param V)) : (sortParams ps).Perm ps :=
  List.mergeSort_perm ps _

theorem sortParams_sorted {V : Type} (ps : List (Param V)) :
    (sortParams ps).Pairwise (fun a b => a.1 ≤ b.1) := by
  have := List.pairwise_mergeSort (le := fun (a b : Param V) => decide (a.1 ≤ b.1))
    (fun a b c h1 h2 => by simp only [decide_eq_true_eq] at *; exact le_trans h1 h2)
    (fun a b => by have := le_total a.1 b.1; simpa using this) ps
  simpa [sortParams] using this

/-! ### the lookup -/

theorem lookupValues_eq {X : Type} (results : List X) (idx : List Nat) :
    lookupValues results idx
      = ((List.range results.length).filter (fun i => decide (i ∈ idx))).filterMap (fun i => results[i]?) := by
  unfold lookupValues
  induction results using List.reverseRecOn with
  | nil => simp
  | append_singleton xs x ih =>
    rw [List.zipIdx_append, List.filterMap_append, ih, List.length_append, List.length_singleton,
      List.range_succ, List.filter_append, List.filterMap_append]
    congr 1
    · apply List.filterMap_congr
      intro i hi
      have : i < xs.length := List.mem_range.mp (List.mem_filter.mp hi).1
      rw [List.getElem?_append_left this]
    · by_cases hm : xs.length ∈ idx <;> simp [List.zipIdx, hm]

/-! ### `get_pack_indexes` against the combinations themselves -/

theorem dimsOf_eq {V : Type} (ps : List (Param V)) :
    dimsOf ps = ((sortParams ps).map (·.2)).map List.length := by
  simp [dimsOf, List.map_map, Function.comp]

theorem combos_getElem? {V : Type} (ps : List (Param V)) (i : Nat) (hi : i < prod (dimsOf ps)) :
    (combos ps)[i]? = pick ((sortParams ps).map (·.2)) (digits (dimsOf ps) i) := by
  rw [dimsOf_eq] at hi ⊢
  exact getElem?_product _ i hi

theorem combos_length {V : Type} (ps : List (Param V)) : (combos ps).length = prod (dimsOf ps) := by
  rw [dimsOf_eq]; exact length_product _

theorem packIndexes_eq_filter {V : Type} [BEq V] [LawfulBEq V] (ps : List (Param V))
    (fixed : List (String × V)) (idx : List Nat)
    (hnd : ∀ p ∈ ps, p.2.Nodup) (h : packIndexes ps fixed = .ok idx) :
    idx = (List.range (prod (dimsOf ps))).filter (fun i =>
        match (combos ps)[i]? with
        | some c => comboMatches fixed (sortParams ps) c
        | none => false) := by
  unfold packIndexes at h
  by_cases hemp : (sortParams ps).isEmpty = true
  · simp only [hemp, if_true, Except.ok.injEq] at h
    have hnil : sortParams ps = [] := List.isEmpty_iff.mp hemp
    subst h
    simp [dimsOf, combos, hnil, prod, product, comboMatches]
  · simp only [hemp, Bool.false_eq_true, if_false] at h
    cases hs : selectors fixed (sortParams ps) with
    | error e => rw [hs] at h; simp [Except.map] at h
    | ok sel =>
      rw [hs] at h
      simp only [Except.map, Except.ok.injEq] at h
      subst h
      have hnd' : ∀ p ∈ sortParams ps, p.2.Nodup :=
        fun p hp => hnd p ((sortParams_perm ps).mem_iff.mp hp)
      have hok := selectors_ok fixed (sortParams ps) sel hs
      rw [slice_eq_filter _ sel 0 hok]
      have hid : (fun i : Nat => 0 + i) = id := by funext i; simp
      rw [hid, List.map_id]
      apply List.filter_congr
      intro i hi
      have hi' : i < prod (dimsOf ps) := List.mem_range.mp hi
      have hget := combos_getElem? ps i hi'
      have hsome : (combos ps)[i]? = some ((combos ps)[i]'(by rw [combos_length]; exact hi')) :=
        List.getElem?_eq_getElem _
      rw [hsome] at hget ⊢
      simp only
      exact selMatch_eq_comboMatches fixed (sortParams ps) sel _ _ hnd' hs hget.symm

end PyPhysim.C05
