import PyPhysim.Model.C02

/-!
C02 — list lemmas of the index layer: reshape / flatten, fancy-index scatter and
gather, cyclic prefix.  Core Lean only.
-/
namespace PyPhysim.C02
open PyPhysim.Proto

section
variable {α : Type}

/-! ### `mapM` in `Except` -/

theorem mapM_ok {β γ : Type} (f : β → Except PyErr γ) (g : β → γ) (l : List β)
    (h : ∀ a ∈ l, f a = .ok (g a)) : l.mapM f = .ok (l.map g) := by
  induction l with
  | nil => rfl
  | cons a t ih =>
    rw [List.mapM_cons, h a (by simp), ih (fun b hb => h b (by simp [hb]))]
    rfl

theorem mapM_ok_length {β γ : Type} (f : β → Except PyErr γ) (l : List β) (out : List γ)
    (h : l.mapM f = .ok out) : out.length = l.length := by
  induction l generalizing out with
  | nil => simp [pure, Except.pure] at h; subst h; rfl
  | cons a t ih =>
    rw [List.mapM_cons] at h
    cases ha : f a with
    | error e => simp [ha, bind, Except.bind] at h
    | ok b =>
      cases ht : t.mapM f with
      | error e => simp [ha, ht, bind, Except.bind] at h
      | ok bs =>
        simp [ha, ht, bind, Except.bind, pure, Except.pure] at h
        subst h
        simp [ih bs ht]

/-! ### reshape / flatten -/

theorem rows_length (w R : Nat) (l : List α) : (rows w R l).length = R := by
  induction R generalizing l with
  | zero => rfl
  | succ R ih => simp [rows, ih]

theorem rows_row_length (w R : Nat) (l : List α) (h : R * w ≤ l.length) :
    ∀ r ∈ rows w R l, r.length = w := by
  induction R generalizing l with
  | zero => intro r hr; simp [rows] at hr
  | succ R ih =>
    intro r hr
    have hw : w ≤ l.length := by
      have : w ≤ (R + 1) * w := by rw [Nat.succ_mul]; omega
      omega
    simp only [rows, List.mem_cons] at hr
    rcases hr with rfl | hr
    · simp [List.length_take]; omega
    · apply ih (l.drop w) _ r hr
      rw [List.length_drop, Nat.succ_mul] at *
      omega

/-- reshape to `(R, w)` then flatten is the identity on arrays of `R·w` elements -/
theorem flatten_rows (w R : Nat) (l : List α) (h : l.length = R * w) : (rows w R l).flatten = l := by
  induction R generalizing l with
  | zero =>
    have : l = [] := by apply List.eq_nil_of_length_eq_zero; simpa using h
    subst this; rfl
  | succ R ih =>
    simp only [rows, List.flatten_cons]
    rw [ih (l.drop w) (by rw [List.length_drop, h, Nat.succ_mul]; omega)]
    exact List.take_append_drop w l

/-- flatten `R` rows of width `w` then reshape to `(R, w)` gives the rows back -/
theorem rows_flatten (w : Nat) (bs : List (List α)) (h : ∀ b ∈ bs, b.length = w) :
    rows w bs.length bs.flatten = bs := by
  induction bs with
  | nil => rfl
  | cons b t ih =>
    have hb : b.length = w := h b (by simp)
    simp only [List.length_cons, rows, List.flatten_cons]
    rw [List.take_left' hb, List.drop_left' hb, ih (fun c hc => h c (by simp [hc]))]

theorem length_flatten_uniform (w : Nat) (bs : List (List α)) (h : ∀ b ∈ bs, b.length = w) :
    bs.flatten.length = bs.length * w := by
  induction bs with
  | nil => simp
  | cons b t ih =>
    simp only [List.flatten_cons, List.length_append, List.length_cons]
    rw [ih (fun c hc => h c (by simp [hc])), h b (by simp), Nat.succ_mul]
    omega

theorem getElem?_rows (w R : Nat) (l : List α) (r : Nat) (hr : r < R) :
    (rows w R l)[r]? = some ((l.drop (r * w)).take w) := by
  induction R generalizing l r with
  | zero => omega
  | succ R ih =>
    cases r with
    | zero => simp [rows]
    | succ r =>
      simp only [rows, List.getElem?_cons_succ]
      rw [ih (l.drop w) r (by omega), List.drop_drop, Nat.succ_mul]
      congr 3
      omega

theorem getElem?_flatten_uniform (w : Nat) (bs : List (List α)) (h : ∀ b ∈ bs, b.length = w)
    (r q : Nat) (hq : q < w) : bs.flatten[r * w + q]? = (bs[r]?).bind (fun b => b[q]?) := by
  induction bs generalizing r with
  | nil => simp
  | cons b t ih =>
    have hb : b.length = w := h b (by simp)
    simp only [List.flatten_cons, List.getElem?_append, hb]
    cases r with
    | zero => simp [hq]
    | succ r =>
      have h1 : ¬ ((r + 1) * w + q < w) := by rw [Nat.succ_mul]; omega
      have h2 : (r + 1) * w + q - w = r * w + q := by rw [Nat.succ_mul]; omega
      rw [if_neg h1, h2, ih (fun c hc => h c (by simp [hc])) r]
      simp

/-! ### fancy-index assignment and lookup -/

theorem scatterInto_length (acc : List α) (idx : List Nat) (vals : List α) :
    (scatterInto acc idx vals).length = acc.length := by
  induction idx generalizing acc vals with
  | nil => simp [scatterInto]
  | cons i is ih =>
    cases vals with
    | nil => simp [scatterInto]
    | cons v vs => simp [scatterInto, ih]

/-- positions that are not assigned keep their value -/
theorem scatterInto_not_mem (acc : List α) (idx : List Nat) (vals : List α) (j : Nat) (h : j ∉ idx) :
    (scatterInto acc idx vals)[j]? = acc[j]? := by
  induction idx generalizing acc vals with
  | nil => simp [scatterInto]
  | cons i is ih =>
    cases vals with
    | nil => simp [scatterInto]
    | cons v vs =>
      simp only [scatterInto]
      have hij : i ≠ j := by intro e; apply h; simp [e]
      rw [ih _ _ (by intro hm; apply h; simp [hm]), List.getElem?_set_ne hij]

/-- position `idx[k]` receives `vals[k]` when the indexes are distinct and in range -/
theorem scatterInto_getElem (acc : List α) (idx : List Nat) (vals : List α) (hnd : idx.Nodup)
    (hlen : idx.length = vals.length) (hlt : ∀ i ∈ idx, i < acc.length) (k : Nat) (hk : k < idx.length) :
    (scatterInto acc idx vals)[idx[k]]? = vals[k]? := by
  induction idx generalizing acc vals k with
  | nil => simp at hk
  | cons i is ih =>
    cases vals with
    | nil => simp at hlen
    | cons v vs =>
      simp only [scatterInto]
      have hnd' := List.nodup_cons.mp hnd
      cases k with
      | zero =>
        simp only [List.getElem_cons_zero, List.getElem?_cons_zero]
        rw [scatterInto_not_mem _ _ _ _ hnd'.1, List.getElem?_set_self (hlt i (by simp))]
      | succ k =>
        simp only [List.getElem_cons_succ, List.getElem?_cons_succ]
        apply ih _ _ hnd'.2 (by simpa using hlen)
        intro j hj
        rw [List.length_set]
        exact hlt j (by simp [hj])

theorem gather_eq_ok (idx : List Nat) (row out : List α) (hlen : out.length = idx.length)
    (h : ∀ k (hk : k < idx.length), row[idx[k]]? = out[k]?) : gather idx row = .ok out := by
  unfold gather
  induction idx generalizing out with
  | nil =>
    have : out = [] := List.eq_nil_of_length_eq_zero (by simpa using hlen)
    subst this; rfl
  | cons i is ih =>
    cases out with
    | nil => simp at hlen
    | cons o os =>
      have h0 := h 0 (by simp)
      simp only [List.getElem_cons_zero, List.getElem?_cons_zero] at h0
      have hl : lookup row i = .ok o := by simp [lookup, h0]
      rw [List.mapM_cons, hl]
      have := ih os (by simpa using hlen) (fun k hk => by
        have := h (k + 1) (by simp; omega)
        simpa using this)
      rw [this]
      rfl

theorem gather_ok_spec (idx : List Nat) (row out : List α) (h : gather idx row = .ok out) :
    out.length = idx.length ∧ ∀ k (hk : k < idx.length), row[idx[k]]? = out[k]? := by
  unfold gather at h
  induction idx generalizing out with
  | nil => simp [pure, Except.pure] at h; subst h; simp
  | cons i is ih =>
    rw [List.mapM_cons] at h
    cases hi : lookup row i with
    | error e => rw [hi] at h; simp [bind, Except.bind] at h
    | ok v =>
      cases ht : is.mapM (lookup row) with
      | error e => rw [hi, ht] at h; simp [bind, Except.bind] at h
      | ok vs =>
        rw [hi, ht] at h
        simp [bind, Except.bind, pure, Except.pure] at h
        subst h
        obtain ⟨hl, hk⟩ := ih vs ht
        refine ⟨by simp [hl], ?_⟩
        have hv : row[i]? = some v := by
          unfold lookup at hi
          cases hr : row[i]? with
          | none => rw [hr] at hi; cases hi
          | some u => rw [hr] at hi; cases hi; rfl
        intro k hk'
        cases k with
        | zero => simpa using hv
        | succ k => simpa using hk k (by simpa using hk')

/-! ### cyclic prefix -/

theorem addCP_length (cp : Nat) (row : List α) (h : cp ≤ row.length) :
    (addCP cp row).length = row.length + cp := by
  unfold addCP
  split
  · simp [List.length_drop]; omega
  · simp_all

/-- removing the first `cp` samples of a prefixed symbol gives the symbol back -/
theorem drop_addCP (cp : Nat) (row : List α) (h : cp ≤ row.length) : (addCP cp row).drop cp = row := by
  unfold addCP
  split
  · apply List.drop_left'
    rw [List.length_drop]; omega
  · simp_all

/-- the prefix is a copy of the last `cp` samples of the symbol -/
theorem take_addCP (cp : Nat) (row : List α) (h : cp ≤ row.length) :
    (addCP cp row).take cp = row.drop (row.length - cp) := by
  unfold addCP
  split
  · apply List.take_left'
    rw [List.length_drop]; omega
  · have : cp = 0 := by omega
    subst this
    simp

variable [Zero α]

theorem scatter_length (n : Nat) (idx : List Nat) (vals : List α) : (scatter n idx vals).length = n := by
  simp [scatter, scatterInto_length]

/-- the positions outside `idx` of a scattered row are zero -/
theorem scatter_not_mem (n : Nat) (idx : List Nat) (vals : List α) (j : Nat) (hj : j < n) (h : j ∉ idx) :
    (scatter n idx vals)[j]? = some 0 := by
  rw [scatter, scatterInto_not_mem _ _ _ _ h, List.getElem?_replicate, if_pos hj]

/-- reading the assigned positions back returns the assigned values -/
theorem gather_scatter (n : Nat) (idx : List Nat) (vals : List α) (hnd : idx.Nodup)
    (hlen : idx.length = vals.length) (hlt : ∀ i ∈ idx, i < n) :
    gather idx (scatter n idx vals) = .ok vals := by
  apply gather_eq_ok _ _ _ hlen.symm
  intro k hk
  exact scatterInto_getElem _ _ _ hnd hlen (by simpa using hlt) k hk

end
end PyPhysim.C02
