import Mathlib.Analysis.SpecialFunctions.Trigonometric.Angle
import Mathlib.Tactic.Ring
import Mathlib.Tactic.Linarith
import Mathlib.Tactic.FieldSimp
import PyPhysim.Model.C01

/-! PSK natural constellation over ℝ: unit modulus, pairwise distinct. -/
namespace PyPhysim.C01
open Real

noncomputable instance realTrig : Trig ℝ := ⟨Real.pi, Real.cos, Real.sin, Real.sqrt⟩

theorem psk_point_unit (M k : Nat) (φ : ℝ) :
    (pskNaturalPoint M k φ).1 ^ 2 + (pskNaturalPoint M k φ).2 ^ 2 = 1 := by
  simp only [pskNaturalPoint]
  exact Real.cos_sq_add_sin_sq _

theorem psk_point_inj (M : Nat) (hM : 0 < M) (φ : ℝ) (k₁ k₂ : Nat) (h₁ : k₁ < M) (h₂ : k₂ < M)
    (h : pskNaturalPoint M k₁ φ = pskNaturalPoint (α := ℝ) M k₂ φ) : k₁ = k₂ := by
  simp only [pskNaturalPoint, Prod.mk.injEq] at h
  obtain ⟨hc, hs⟩ := h
  have hang := Real.Angle.cos_sin_inj hc hs
  rw [Real.Angle.angle_eq_iff_two_pi_dvd_sub] at hang
  obtain ⟨n, hn⟩ := hang
  have hMr : (M : ℝ) ≠ 0 := by exact_mod_cast (Nat.pos_iff_ne_zero.mp hM)
  have hpi : Real.pi ≠ 0 := Real.pi_ne_zero
  -- (k₁ - k₂) = n * M as reals
  have hk : ((k₁ : ℝ) - (k₂ : ℝ)) = (n : ℝ) * (M : ℝ) := by
    have h2 : ((2:Nat):ℝ) = 2 := by norm_num
    simp only [Trig.pi, h2] at hn
    have : 2 * Real.pi * (((k₁ : ℝ) - k₂) / M) = 2 * Real.pi * n := by
      rw [← hn]; field_simp; ring
    have h3 : ((k₁ : ℝ) - k₂) / M = n := by
      have h2pi : (2 * Real.pi) ≠ 0 := by positivity
      exact mul_left_cancel₀ h2pi this
    field_simp at h3
    linarith
  have hki : ((k₁ : ℤ) - (k₂ : ℤ)) = n * (M : ℤ) := by exact_mod_cast hk
  -- |k₁ - k₂| < M forces n = 0
  have hn0 : n = 0 := by
    by_contra hne
    have hMi : (0 : ℤ) < M := by exact_mod_cast hM
    rcases lt_or_gt_of_ne hne with hneg | hpos
    · have : n * (M : ℤ) ≤ -(M : ℤ) := by nlinarith
      omega
    · have : (M : ℤ) ≤ n * (M : ℤ) := by nlinarith
      omega
  rw [hn0] at hki
  omega

theorem psk_natural_nodup (M : Nat) (φ : ℝ) : (pskNatural M φ).Nodup := by
  unfold pskNatural
  rcases Nat.eq_zero_or_pos M with h0 | hM
  · subst h0; simp
  · apply List.Nodup.map_on _ List.nodup_range
    intro a ha b hb hab
    exact psk_point_inj M hM φ a b (List.mem_range.mp ha) (List.mem_range.mp hb) hab

theorem psk_natural_unit (M : Nat) (φ : ℝ) : ∀ p ∈ pskNatural M φ, p.1 ^ 2 + p.2 ^ 2 = 1 := by
  intro p hp
  unfold pskNatural at hp
  obtain ⟨k, _, rfl⟩ := List.mem_map.mp hp
  exact psk_point_unit M k φ

end PyPhysim.C01
