import Mathlib.Analysis.SpecialFunctions.Complex.Log
import PyPhysim.Proofs.C18Cis

/-!
C18 — the complex numbers with `cis q = exp(2πi·q)` and complex conjugation
satisfy `CisLaws`; every theorem of `Properties/C18.lean` is stated for this
instance.
-/
namespace PyPhysim.C18P
open PyPhysim.Cazac Complex

/-- the scalar operations of the model at `ℂ` -/
noncomputable instance instCisOpsComplex : CisOps ℂ where
  cis q := Complex.exp (2 * Real.pi * Complex.I * (q : ℂ))
  conj := starRingEnd ℂ

theorem cis_complex_def (q : ℚ) :
    (CisOps.cis q : ℂ) = Complex.exp (2 * Real.pi * Complex.I * (q : ℂ)) := rfl

theorem conj_complex_def (x : ℂ) : (CisOps.conj x : ℂ) = starRingEnd ℂ x := rfl

theorem two_pi_I_ne_zero' : (2 * (Real.pi : ℂ) * Complex.I) ≠ 0 := by
  simp [Real.pi_ne_zero, Complex.I_ne_zero]

theorem cisLaws_complex : CisLaws ℂ where
  cis_zero := by simp [cis_complex_def]
  cis_add a b := by
    simp only [cis_complex_def]
    rw [← Complex.exp_add]
    congr 1
    push_cast
    ring
  cis_eq_one a := by
    simp only [cis_complex_def]
    rw [Complex.exp_eq_one_iff]
    constructor
    · rintro ⟨n, hn⟩
      refine ⟨n, ?_⟩
      have h : (2 * (Real.pi : ℂ) * Complex.I) * ((a : ℂ) - n) = 0 := by
        rw [mul_sub, hn]; ring
      rcases mul_eq_zero.mp h with h | h
      · exact absurd h two_pi_I_ne_zero'
      · have : (a : ℂ) = ((n : ℚ) : ℂ) := by
          push_cast
          exact sub_eq_zero.mp h
        exact_mod_cast this
    · rintro ⟨z, rfl⟩
      exact ⟨z, by push_cast; ring⟩
  conj_cis a := by
    simp only [cis_complex_def, conj_complex_def]
    rw [← Complex.exp_conj]
    congr 1
    simp only [map_mul, Complex.conj_I, Complex.conj_ofReal, map_ofNat]
    have : (starRingEnd ℂ) (a : ℂ) = (a : ℂ) := by
      rw [show (a : ℂ) = ((a : ℝ) : ℂ) by push_cast; rfl, Complex.conj_ofReal]
    rw [this]
    push_cast
    ring
  conj_hom := ⟨starRingEnd ℂ, fun _ => rfl⟩

theorem norm_one_of_mul_conj (v : ℂ) (h : v * (starRingEnd ℂ) v = 1) : ‖v‖ = 1 := by
  rw [Complex.mul_conj] at h
  have h1 : Complex.normSq v = 1 := by exact_mod_cast h
  have h2 : ‖v‖ ^ 2 = 1 := by rw [Complex.sq_norm, h1]
  have h3 : 0 ≤ ‖v‖ := norm_nonneg v
  nlinarith [h2, h3]

theorem norm_sq_of_mul_conj (v : ℂ) (c : ℝ) (h : v * (starRingEnd ℂ) v = (c : ℂ)) : ‖v‖ ^ 2 = c := by
  rw [Complex.mul_conj] at h
  have h1 : Complex.normSq v = c := by exact_mod_cast h
  rw [Complex.sq_norm, h1]

end PyPhysim.C18P
