import Mathlib.Tactic.FieldSimp
import Mathlib.Tactic.Ring
import Mathlib.Tactic.Linarith
import PyPhysim.Model.C20Robust
import PyPhysim.Proofs.C20Complex
import PyPhysim.Proofs.C20SM

/-! Helper lemmas for the R15 / R16 statements of C20. -/
set_option linter.unusedSectionVars false

namespace PyPhysim.C20R
variable {β γ : Type}

/-! ### the buffer machine -/

theorem run_append (h : Heap β) (a b : List (Op β γ)) :
    run h (a ++ b) = ((run (run h a).1 b).1, (run h a).2 ++ (run (run h a).1 b).2) := by
  induction a generalizing h with
  | nil => simp [run]
  | cons op a ih => simp only [List.cons_append, run, ih]

theorem run_length (h : Heap β) (ops : List (Op β γ)) : (run h ops).2.length = ops.length := by
  induction ops generalizing h with
  | nil => rfl
  | cons op ops ih => simp [run, ih]

/-- the arrays after a history are what the caller's own refills made them -/
theorem run_heap_refills (h : Heap β) (ops : List (Op β γ)) :
    (run h ops).1 = (run h (refillsOnly ops)).1 := by
  induction ops generalizing h with
  | nil => rfl
  | cons op ops ih =>
    cases op with
    | refill i v => simp only [refillsOnly, List.filter_cons, isRefill, run] at ih ⊢; exact ih _
    | call1 f i => simp only [refillsOnly, List.filter_cons, isRefill, run, write] at ih ⊢; exact ih _
    | call2 f i j => simp only [refillsOnly, List.filter_cons, isRefill, run, write] at ih ⊢; exact ih _
    | call3 f i j k => simp only [refillsOnly, List.filter_cons, isRefill, run, write] at ih ⊢; exact ih _

end PyPhysim.C20R

namespace PyPhysim.LinAlg.Pf
open Matrix

/-! ### R15: the Sherman–Morrison step as a function of the diagonal value -/
section sm
variable {K : Type} [Field K] {n : Nat}

/-- the pivot entry after one step: `invᵢᵢ / (1 + d·invᵢᵢ)` -/
theorem smStep_pivot_entry (inv : Mat K n n) (i : Fin n) (d : K) (hp : 1 + d * inv i i ≠ 0) :
    smStep inv i d i i = inv i i / (1 + d * inv i i) := by
  show inv i i - d * (inv i i * inv i i) / (1 + d * inv i i) = inv i i / (1 + d * inv i i)
  rw [eq_div_iff hp, sub_mul, div_mul_cancel₀ _ hp]
  ring

theorem smStep_ne_self (inv : Mat K n n) (i : Fin n) (d : K) (hd : d ≠ 0) (hi : inv i i ≠ 0)
    (hp : 1 + d * inv i i ≠ 0) : smStep inv i d ≠ inv := by
  intro h
  have e := congrFun (congrFun h i) i
  rw [smStep_pivot_entry inv i d hp, div_eq_iff hp] at e
  have : d * inv i i * inv i i = 0 := by linear_combination -e
  rcases mul_eq_zero.mp this with h1 | h1
  · rcases mul_eq_zero.mp h1 with h2 | h2
    · exact hd h2
    · exact hi h2
  · exact hi h1

theorem smStep_injective_in_d (inv : Mat K n n) (i : Fin n) (d d' : K) (hi : inv i i ≠ 0)
    (hp : 1 + d * inv i i ≠ 0) (hp' : 1 + d' * inv i i ≠ 0)
    (h : smStep inv i d = smStep inv i d') : d = d' := by
  have e := congrFun (congrFun h i) i
  rw [smStep_pivot_entry inv i d hp, smStep_pivot_entry inv i d' hp', div_eq_div_iff hp hp'] at e
  have h2 : (d' - d) * (inv i i * inv i i) = 0 := by linear_combination e
  rcases mul_eq_zero.mp h2 with h3 | h3
  · exact (sub_eq_zero.mp h3).symm
  · rcases mul_eq_zero.mp h3 with h4 | h4 <;> exact absurd h4 hi

end sm

/-! ### R15: the principal-angle distance vanishes only for cosines that are exactly one -/

theorem sum_one_sub_sq_eq_zero_iff (r : Nat) (s : Fin r → ℝ) (h0 : ∀ i, 0 ≤ s i) (h1 : ∀ i, s i ≤ 1) :
    ((r : ℝ) - ∑ i, s i * s i ≤ 0) ↔ ∀ i, s i = 1 := by
  have hsum : (r : ℝ) - ∑ i, s i * s i = ∑ i, (1 - s i * s i) := by
    simp [Finset.sum_sub_distrib]
  have hnn : ∀ i ∈ (Finset.univ : Finset (Fin r)), 0 ≤ 1 - s i * s i := fun i _ => by
    nlinarith [h0 i, h1 i]
  rw [hsum]
  constructor
  · intro h i
    have hz : ∑ i, (1 - s i * s i) = 0 := le_antisymm h (Finset.sum_nonneg hnn)
    have := (Finset.sum_eq_zero_iff_of_nonneg hnn).mp hz i (Finset.mem_univ i)
    nlinarith [h0 i, h1 i]
  · intro h
    simp [h]

end PyPhysim.LinAlg.Pf
