import Mathlib.LinearAlgebra.Matrix.NonsingularInverse
import Mathlib.Tactic.NoncommRing
import Mathlib.Tactic.Abel
import PyPhysim.Proofs.C20Bridge

/-!
Projector algebra over any commutative star ring (in particular `ℂ` and `ℝ`),
in Mathlib's `Matrix` vocabulary.  `G` is *any* left inverse of `Aᴴ A`
(the contract of `np.linalg.inv`).
-/
namespace PyPhysim.LinAlg.Pf
open Matrix

variable {K : Type} [CommRing K] [StarRing K] {m k c : Nat}

theorem left_inv_unique {X Y M : Matrix (Fin k) (Fin k) K} (hX : X * M = 1) (hY : Y * M = 1) : X = Y := by
  have hY' : M * Y = 1 := _root_.mul_eq_one_comm.mp hY
  calc X = X * (M * Y) := by rw [hY', Matrix.mul_one]
    _ = (X * M) * Y := by rw [Matrix.mul_assoc]
    _ = Y := by rw [hX, Matrix.one_mul]

section proj
variable (A : Matrix (Fin m) (Fin k) K) (G : Matrix (Fin k) (Fin k) K) (hG : G * (Aᴴ * A) = 1)
include hG

theorem G_right : (Aᴴ * A) * G = 1 := _root_.mul_eq_one_comm.mp hG

theorem G_herm : Gᴴ = G := by
  have h1 : (Aᴴ * A) * Gᴴ = 1 := by
    have := congrArg conjTranspose hG
    simpa [conjTranspose_mul] using this
  have h2 : Gᴴ * (Aᴴ * A) = 1 := _root_.mul_eq_one_comm.mp h1
  exact left_inv_unique h2 hG

theorem proj_herm : (A * G * Aᴴ)ᴴ = A * G * Aᴴ := by
  rw [conjTranspose_mul, conjTranspose_mul, conjTranspose_conjTranspose, G_herm A G hG, Matrix.mul_assoc]

theorem proj_mul_A : (A * G * Aᴴ) * A = A := by
  rw [Matrix.mul_assoc, Matrix.mul_assoc, hG, Matrix.mul_one]

theorem AH_mul_proj : Aᴴ * (A * G * Aᴴ) = Aᴴ := by
  rw [← Matrix.mul_assoc, ← Matrix.mul_assoc, G_right A G hG, Matrix.one_mul]

theorem proj_idem : (A * G * Aᴴ) * (A * G * Aᴴ) = A * G * Aᴴ := by
  rw [Matrix.mul_assoc (A * G) Aᴴ, AH_mul_proj A G hG]

theorem oproj_idem : (1 - A * G * Aᴴ) * (1 - A * G * Aᴴ) = 1 - A * G * Aᴴ := by
  have h := proj_idem A G hG
  rw [Matrix.sub_mul, Matrix.mul_sub, Matrix.mul_sub, h]
  simp

theorem oproj_herm : (1 - A * G * Aᴴ)ᴴ = 1 - A * G * Aᴴ := by
  rw [conjTranspose_sub, conjTranspose_one, proj_herm A G hG]

theorem proj_mul_oproj : (A * G * Aᴴ) * (1 - A * G * Aᴴ) = 0 := by
  rw [Matrix.mul_sub, proj_idem A G hG]; simp

theorem oproj_mul_proj : (1 - A * G * Aᴴ) * (A * G * Aᴴ) = 0 := by
  rw [Matrix.sub_mul, proj_idem A G hG]; simp

theorem oproj_mul_A : (1 - A * G * Aᴴ) * A = 0 := by
  rw [Matrix.sub_mul, proj_mul_A A G hG]; simp

theorem AH_mul_oproj : Aᴴ * (1 - A * G * Aᴴ) = 0 := by
  rw [Matrix.mul_sub, AH_mul_proj A G hG]; simp

theorem reflect_invol (M : Matrix (Fin m) (Fin c) K) :
    (1 - (2 : K) • (A * G * Aᴴ)) * ((1 - (2 : K) • (A * G * Aᴴ)) * M) = M := by
  have h := proj_idem A G hG
  rw [← Matrix.mul_assoc]
  have : (1 - (2 : K) • (A * G * Aᴴ)) * (1 - (2 : K) • (A * G * Aᴴ)) = 1 := by
    simp only [Matrix.sub_mul, Matrix.mul_sub, Matrix.smul_mul, Matrix.mul_smul, h, smul_smul,
      Matrix.one_mul, Matrix.mul_one]
    ext i j
    simp only [Matrix.sub_apply, Matrix.smul_apply, smul_eq_mul]
    ring
  rw [this, Matrix.one_mul]

end proj

/-- change of basis: `B = A T` with `T` invertible has the same projector -/
theorem proj_basis (A : Matrix (Fin m) (Fin k) K) (T Ti GA GB : Matrix (Fin k) (Fin k) K)
    (hT : T * Ti = 1) (hGA : GA * (Aᴴ * A) = 1) (hGB : GB * ((A * T)ᴴ * (A * T)) = 1) :
    (A * T) * GB * (A * T)ᴴ = A * GA * Aᴴ := by
  have hT' : Ti * T = 1 := _root_.mul_eq_one_comm.mp hT
  have hGB' : ((A * T)ᴴ * (A * T)) * GB = 1 := _root_.mul_eq_one_comm.mp hGB
  have key : (T * GB * Tᴴ) * (Aᴴ * A) = 1 := by
    have e : (T * GB * Tᴴ) * (Aᴴ * A) = T * (GB * ((A * T)ᴴ * (A * T))) * Ti := by
      rw [conjTranspose_mul]
      calc T * GB * Tᴴ * (Aᴴ * A) = T * GB * Tᴴ * (Aᴴ * A) * (T * Ti) := by rw [hT, Matrix.mul_one]
        _ = T * (GB * (Tᴴ * Aᴴ * (A * T))) * Ti := by simp only [Matrix.mul_assoc]
    rw [e, hGB, Matrix.mul_one, hT]
  have : T * GB * Tᴴ = GA := left_inv_unique key hGA
  rw [conjTranspose_mul, ← this]
  simp only [Matrix.mul_assoc]

/-- common unitary rotation -/
theorem proj_unitary (A : Matrix (Fin m) (Fin k) K) (U : Matrix (Fin m) (Fin m) K)
    (GA GU : Matrix (Fin k) (Fin k) K) (hU : Uᴴ * U = 1)
    (hGA : GA * (Aᴴ * A) = 1) (hGU : GU * ((U * A)ᴴ * (U * A)) = 1) :
    (U * A) * GU * (U * A)ᴴ = U * (A * GA * Aᴴ) * Uᴴ := by
  have e : (U * A)ᴴ * (U * A) = Aᴴ * A := by
    rw [conjTranspose_mul]
    calc Aᴴ * Uᴴ * (U * A) = Aᴴ * (Uᴴ * U) * A := by simp only [Matrix.mul_assoc]
      _ = Aᴴ * A := by rw [hU, Matrix.mul_one]
  rw [e] at hGU
  have : GU = GA := left_inv_unique hGU hGA
  rw [this, conjTranspose_mul]
  simp only [Matrix.mul_assoc]

/-- `Q Qᴴ` of a QR factor (`QᴴQ = 1`, `A = Q R`, `R` invertible) is the projector of `A` -/
theorem proj_of_qr (A Q : Matrix (Fin m) (Fin k) K) (R Ri G : Matrix (Fin k) (Fin k) K)
    (hQ : Qᴴ * Q = 1) (hA : A = Q * R) (hR : R * Ri = 1) (hG : G * (Aᴴ * A) = 1) :
    Q * Qᴴ = A * G * Aᴴ := by
  subst hA
  have h1 : (1 : Matrix (Fin k) (Fin k) K) * (Qᴴ * Q) = 1 := by rw [hQ, Matrix.one_mul]
  have := proj_basis Q R Ri 1 G hR h1 hG
  rw [this, Matrix.mul_one]

end PyPhysim.LinAlg.Pf
