import Mathlib.Tactic.Linarith
import PyPhysim.Proofs.C03Freq

/-!
# C03 — one frequency-domain transmission of `TdlChannel` in closed form
-/
namespace PyPhysim.C03
open PyPhysim.Proto

/-- what a successful `freqPlan` guarantees -/
theorem freqPlan_ok {sel : Sel} {fft n : Nat} {ps : List Nat} {B nb : Nat}
    (h : freqPlan sel fft n = .ok (ps, B, nb)) :
    0 < fft ∧ 0 < B ∧ 0 < nb ∧ n = nb * B ∧ ps.length = B ∧ selPos sel fft = .ok ps
      ∧ blockSize sel fft = .ok (B : Int) := by
  unfold freqPlan at h
  simp only [bind, Except.bind, pure, Except.pure, throw, throwThe, MonadExceptOf.throw] at h
  split at h
  · cases h
  · rename_i hfft
    split at h
    · simp at h
    · rename_i Bi hB
      split at h
      · simp at h
      · rename_i ps' hps
        split at h
        · cases h
        · rename_i hB0
          split at h
          · cases h
          · rename_i hmod
            split at h
            · cases h
            · rename_i hnb
              split at h
              · cases h
              · rename_i hlen
                simp only [Except.ok.injEq, Prod.mk.injEq] at h
                obtain ⟨rfl, rfl, rfl⟩ := h
                simp only [ne_eq, Decidable.not_not] at hlen hmod
                have hBpos : 0 < Bi := by
                  rcases lt_trichotomy Bi 0 with hlt | heq | hgt
                  · have : (0 : Int) ≤ ps'.length := Int.natCast_nonneg _
                    omega
                  · exact absurd heq hB0
                  · exact hgt
                have hdiv := Int.mul_fdiv_add_fmod (n : Int) Bi
                unfold pyMod at hmod
                unfold pyFloorDiv at hnb ⊢
                rw [hmod] at hdiv
                have hnbpos : 0 < (n : Int).fdiv Bi := by omega
                refine ⟨by omega, by omega, by omega, ?_, by omega, hps, ?_⟩
                · have : ((n : Int).fdiv Bi).toNat * Bi.toNat = n := by
                    have h1 : (((n : Int).fdiv Bi).toNat : Int) = (n : Int).fdiv Bi := Int.toNat_of_nonneg (le_of_lt hnbpos)
                    have h2 : ((Bi.toNat : Nat) : Int) = Bi := Int.toNat_of_nonneg (le_of_lt hBpos)
                    have : ((((n : Int).fdiv Bi).toNat * Bi.toNat : Nat) : Int) = (n : Int) := by
                      push_cast
                      rw [h1, h2]
                      linarith
                    exact_mod_cast this
                  exact this.symm
                · rw [hB]
                  congr 1
                  exact (Int.toNat_of_nonneg (le_of_lt hBpos)).symm


variable {α : Type} [CommSemiring α]

/-- the one-sample response generated for block `b` of a frequency-domain transmission -/
def blockIR (proc : Proc α) (c : Tdl α) (fft b : Nat) : IR α :=
  genIR proc c (c.pos + b * stride c.jakes fft) 1

/-- state after a frequency-domain transmission of `nb` blocks -/
def Tdl.afterFx (c : Tdl α) (fft nb : Nat) (last : IR α) : Tdl α :=
  { c with pos := c.pos + nb * stride c.jakes fft, last := some last }

/-- the response reported after `nb` blocks: sample `b` is the response of block `b` -/
def IsBlockConcat (proc : Proc α) (c : Tdl α) (fft nb : Nat) (last : IR α) : Prop :=
  last.n = nb ∧ last.delays = c.delays ∧ last.vals.length = c.taps.length ∧
    ∀ r t b, b < nb → last.vals.map (fun h => h r t b) = (blockIR proc c fft b).vals.map (fun h => h r t 0)

theorem IsBlockConcat.denseAt {proc : Proc α} {c : Tdl α} {fft nb : Nat} {last : IR α}
    (h : IsBlockConcat proc c fft nb last) (r t b : Nat) (hb : b < nb) :
    last.denseAt r t b = (blockIR proc c fft b).denseAt r t 0 := by
  unfold IR.denseAt
  rw [h.2.1, h.2.2.2 r t b hb]
  rfl

theorem concat_blockIRs (proc : Proc α) (c : Tdl α) (fft nb : Nat) (hfft : 0 < fft) (hnb : 0 < nb) :
    ∃ last, concatIR (blockIRs proc c fft nb c.pos) = .ok last ∧ IsBlockConcat proc c fft nb last := by
  rw [blockIRs_eq _ _ _ hfft]
  obtain ⟨last, h1, h2, h3, h4, h5⟩ := concatIR_tab (fun b => blockIR proc c fft b) (fun _ => rfl) c.delays
    (fun _ => rfl) c.taps.length (fun _ => by simp [blockIR, genIR]) nb hnb
  exact ⟨last, h1, h2, h3, h4, h5⟩

theorem tdl_corruptFreq_siso (proc : Proc α) (fftK : Fft α) (c : Tdl α) (hant : c.ant = none)
    (sel : Sel) (fft n : Nat) (ps : List Nat) (B nb : Nat) (hplan : freqPlan sel fft n = .ok (ps, B, nb))
    (xf : Nat → α) :
    ∃ last, c.corruptFreq proc fftK [tab n xf] fft sel
        = .ok (c.afterFx fft nb last, [freqSpecSiso fftK last fft ps B nb xf])
      ∧ IsBlockConcat proc c fft nb last := by
  obtain ⟨hfft, hB, hnb, hn, hlen, -, -⟩ := freqPlan_ok hplan
  subst hn hlen
  obtain ⟨last, hcat, hlast⟩ := concat_blockIRs proc c fft nb hfft hnb
  refine ⟨last, ?_, hlast⟩
  unfold Tdl.corruptFreq
  simp only [numSymbols, tab_length, hplan, bind, Except.bind, pure, Except.pure, hcat, hant,
    blockEndPos_eq _ _ hfft, signalOk_siso c hant, Bool.not_true, Bool.false_eq_true, if_false]
  rw [blockIRs_eq _ _ _ hfft, freqSiso_tab]
  simp only [Tdl.afterFx, hant]
  congr 3
  unfold freqSpecSiso freqAtSiso
  apply List.flatMap_congr
  intro b hb
  rw [List.mem_range] at hb
  rw [hlast.denseAt 0 0 b hb]
  rfl

theorem tdl_corruptFreq_mimo (proc : Proc α) (fftK : Fft α) (c : Tdl α) (nr nt : Nat)
    (hant : c.ant = some (nr, nt)) (hIn : 0 < (c.dims nr nt).2)
    (sel : Sel) (fft n : Nat) (ps : List Nat) (B nb : Nat) (hplan : freqPlan sel fft n = .ok (ps, B, nb))
    (xf : Nat → Nat → α) :
    ∃ last, c.corruptFreq proc fftK (tab (c.dims nr nt).2 (fun a => tab n (xf a))) fft sel
        = .ok (c.afterFx fft nb last,
               freqSpec fftK last c.switched fft ps B nb (c.dims nr nt).1 (c.dims nr nt).2 xf)
      ∧ IsBlockConcat proc c fft nb last := by
  obtain ⟨hfft, hB, hnb, hn, hlen, -, -⟩ := freqPlan_ok hplan
  subst hn hlen
  obtain ⟨last, hcat, hlast⟩ := concat_blockIRs proc c fft nb hfft hnb
  refine ⟨last, ?_, hlast⟩
  unfold Tdl.corruptFreq
  simp only [numSymbols_tab _ _ _ hIn, tab_length, hplan, bind, Except.bind, pure, Except.pure, hcat, hant,
    blockEndPos_eq _ _ hfft, signalOk_mimo' c nr nt hant, Bool.not_true, Bool.false_eq_true, ne_eq,
    not_true_eq_false, if_false]
  rw [blockIRs_eq _ _ _ hfft, freqMimo_tab]
  simp only [Tdl.afterFx, hant]
  congr 2
  unfold freqSpec freqAt tab
  apply List.map_congr_left
  intro j _
  apply List.flatMap_congr
  intro b hb
  rw [List.mem_range] at hb
  apply List.map_congr_left
  intro pq _
  congr 1
  apply List.map_congr_left
  intro a _
  rw [hlast.denseAt a j b hb, hlast.denseAt j a b hb]
  rfl

end PyPhysim.C03
