import PyPhysim.Proofs.C10Bridge
import Mathlib.LinearAlgebra.Matrix.DotProduct
import Mathlib.Analysis.Complex.Basic

/-!
Closed-form interference alignment (3 users, `N × N` channels, `s` streams):
the chain of precoders aligns the interference at every receiver and filters
in the left null space of one interfering link null both of them.
-/
set_option linter.unusedSectionVars false
set_option linter.unusedVariables false
set_option linter.unusedSimpArgs false
namespace PyPhysim.C10
open Matrix
open scoped ComplexOrder

variable {N s : Nat}

/-- contracts of the kernels called by `ClosedFormIASolver._calc_E` / `_updateF`
    (`A, B, Cc` = results of the three `np.linalg.solve` calls, `G32, G23` = results of the
    two `np.linalg.pinv` calls) -/
structure ClosedKernels (H12 H13 H21 H23 H31 H32 A B Cc G32 G23 : Mat ℂ N N) : Prop where
  hA : matMul H31 A = H32
  hB : matMul H12 B = H13
  hC : matMul H23 Cc = H21
  hG32 : matMul H32 G32 = eye
  hG23 : matMul H23 G23 = eye

/-- a right inverse of a square complex matrix is a left inverse -/
theorem left_of_right_inv (M G : Matrix (Fin N) (Fin N) ℂ) (h : M * G = 1) : G * M = 1 :=
  mul_eq_one_comm.mp h

/-- alignment of the un-normalised precoders: `H32 F2' = H31 F0`, `H23 F3' = H21 F0`, and
    `H13 F3' = (H12 F2') Λ` whenever `E F0 = F0 Λ` (`F0` spans an invariant subspace of `E`:
    what a set of eigenvectors returned by `np.linalg.eig(E)` does) -/
theorem closed_chain_aligned {H12 H13 H21 H23 H31 H32 A B Cc G32 G23 : Mat ℂ N N}
    (K : ClosedKernels H12 H13 H21 H23 H31 H32 A B Cc G32 G23)
    (F0 : Mat ℂ N s) (L : Mat ℂ s s)
    (hE : matMul (cfE A B Cc) F0 = matMul F0 L) :
    matMul H32 (cfChain G32 H31 F0) = matMul H31 F0
    ∧ matMul H23 (cfChain G23 H21 F0) = matMul H21 F0
    ∧ matMul H13 (cfChain G23 H21 F0) = matMul (matMul H12 (cfChain G32 H31 F0)) L := by
  have hA := congrArg toM K.hA
  have hB := congrArg toM K.hB
  have hC := congrArg toM K.hC
  have hG32 := congrArg toM K.hG32
  have hG23 := congrArg toM K.hG23
  have hE' := congrArg toM hE
  simp only [toM_matMul, toM_eye, cfE] at hA hB hC hG32 hG23 hE'
  have lG32 := left_of_right_inv _ _ hG32
  have lG23 := left_of_right_inv _ _ hG23
  refine ⟨?_, ?_, ?_⟩
  · apply toM_inj
    simp only [toM_matMul, cfChain]
    rw [← Matrix.mul_assoc, hG32, Matrix.one_mul]
  · apply toM_inj
    simp only [toM_matMul, cfChain]
    rw [← Matrix.mul_assoc, hG23, Matrix.one_mul]
  · apply toM_inj
    simp only [toM_matMul, cfChain]
    -- Cc = G23 H21
    have hCc : toM Cc = toM G23 * toM H21 := by
      have : toM G23 * (toM H23 * toM Cc) = toM G23 * toM H21 := by rw [hC]
      rwa [← Matrix.mul_assoc, lG23, Matrix.one_mul] at this
    -- B Cc F0 = G32 H31 F0 L
    have h1 : toM H31 * (toM A * (toM B * toM Cc) * toM F0) = toM H31 * (toM F0 * toM L) := by rw [hE']
    have h2 : toM H32 * (toM B * toM Cc * toM F0) = toM H31 * toM F0 * toM L := by
      rw [← hA]
      simpa only [Matrix.mul_assoc] using h1
    have h3 : toM B * toM Cc * toM F0 = toM G32 * (toM H31 * toM F0 * toM L) := by
      have : toM G32 * (toM H32 * (toM B * toM Cc * toM F0)) = toM G32 * (toM H31 * toM F0 * toM L) := by
        rw [h2]
      rwa [← Matrix.mul_assoc, lG32, Matrix.one_mul] at this
    calc toM H13 * (toM G23 * (toM H21 * toM F0))
        = toM H12 * (toM B * toM Cc * toM F0) := by
          rw [← hB, hCc]; simp only [Matrix.mul_assoc]
      _ = toM H12 * (toM G32 * (toM H31 * toM F0)) * toM L := by
          rw [h3]; simp only [Matrix.mul_assoc]

/-- if `(M Mᴴ) W = 0` then `Wᴴ M = 0` (a filter in the null space of the interference
    covariance is orthogonal to the interference) -/
theorem null_of_gram {a b c : Nat} (M : Mat ℂ a b) (W : Mat ℂ a c)
    (h : matMul (outerG M) W = mzero) : matMul (cT W) M = mzero := by
  apply toM_inj
  have h' := congrArg toM h
  simp only [toM_matMul, toM_outerG, toM_mzero, toM_cT] at h' ⊢
  -- (Mᴴ W)ᴴ (Mᴴ W) = Wᴴ (M Mᴴ W) = 0
  have h2 : ((toM M)ᴴ * toM W)ᴴ * ((toM M)ᴴ * toM W) = 0 := by
    rw [conjTranspose_mul, conjTranspose_conjTranspose, Matrix.mul_assoc, ← Matrix.mul_assoc (toM M), h',
      Matrix.mul_zero]
  have h3 : (toM M)ᴴ * toM W = 0 := conjTranspose_mul_self_eq_zero.mp h2
  have := congrArg conjTranspose h3
  simpa [conjTranspose_mul] using this

/-- Clause "the closed-form solver perfectly nulls all cross-user interference":
    with the normalised precoders `F1 = F0/c1`, `F2 = F2'/c2`, `F3 = F3'/c3` and filters
    whose columns lie in the null space of `A Aᴴ` for `A = H12 F2`, `H21 F1`, `H31 F1`
    (what `leig` returns for a rank-deficient Gram matrix), all six cross links vanish. -/
theorem closed_form_nulls {H12 H13 H21 H23 H31 H32 A B Cc G32 G23 : Mat ℂ N N}
    (K : ClosedKernels H12 H13 H21 H23 H31 H32 A B Cc G32 G23)
    (F0 : Mat ℂ N s) (L : Mat ℂ s s) (hE : matMul (cfE A B Cc) F0 = matMul F0 L)
    (c1 c2 c3 : ℂ) (h1 : c1 ≠ 0) (h2 : c2 ≠ 0) (h3 : c3 ≠ 0)
    (W1 W2 W3 : Mat ℂ N s)
    (hW1 : matMul (cfWMat H12 (mdiv (cfChain G32 H31 F0) c2)) W1 = mzero)
    (hW2 : matMul (cfWMat H21 (mdiv F0 c1)) W2 = mzero)
    (hW3 : matMul (cfWMat H31 (mdiv F0 c1)) W3 = mzero) :
    let F1 := mdiv F0 c1
    let F2 := mdiv (cfChain G32 H31 F0) c2
    let F3 := mdiv (cfChain G23 H21 F0) c3
    matMul (cT W1) (matMul H12 F2) = mzero ∧ matMul (cT W1) (matMul H13 F3) = mzero
    ∧ matMul (cT W2) (matMul H21 F1) = mzero ∧ matMul (cT W2) (matMul H23 F3) = mzero
    ∧ matMul (cT W3) (matMul H31 F1) = mzero ∧ matMul (cT W3) (matMul H32 F2) = mzero := by
  intro F1 F2 F3
  obtain ⟨a32, a23, a1⟩ := closed_chain_aligned K F0 L hE
  have n1 := null_of_gram (matMul H12 F2) W1 hW1
  have n2 := null_of_gram (matMul H21 F1) W2 hW2
  have n3 := null_of_gram (matMul H31 F1) W3 hW3
  have e32 := congrArg toM a32
  have e23 := congrArg toM a23
  have e1 := congrArg toM a1
  have m1 := congrArg toM n1
  have m2 := congrArg toM n2
  have m3 := congrArg toM n3
  simp only [toM_matMul, toM_cT, toM_mzero, toM_mdiv, F1, F2, F3, Matrix.mul_smul] at e32 e23 e1 m1 m2 m3
  -- un-normalised versions of the three null relations
  have u1 : (toM W1)ᴴ * (toM H12 * toM (cfChain G32 H31 F0)) = 0 := by
    have := congrArg (fun X => c2 • X) m1
    simpa [smul_smul, h2] using this
  have u2 : (toM W2)ᴴ * (toM H21 * toM F0) = 0 := by
    have := congrArg (fun X => c1 • X) m2
    simpa [smul_smul, h1] using this
  have u3 : (toM W3)ᴴ * (toM H31 * toM F0) = 0 := by
    have := congrArg (fun X => c1 • X) m3
    simpa [smul_smul, h1] using this
  refine ⟨n1, ?_, n2, ?_, n3, ?_⟩
  · apply toM_inj
    simp only [toM_matMul, toM_cT, toM_mzero, toM_mdiv, F3, Matrix.mul_smul]
    rw [e1, ← Matrix.mul_assoc, u1, Matrix.zero_mul, smul_zero]
  · apply toM_inj
    simp only [toM_matMul, toM_cT, toM_mzero, toM_mdiv, F3, Matrix.mul_smul]
    rw [e23, u2, smul_zero]
  · apply toM_inj
    simp only [toM_matMul, toM_cT, toM_mzero, toM_mdiv, F2, Matrix.mul_smul]
    rw [e32, u3, smul_zero]

end PyPhysim.C10
