import PyPhysim.Proofs.C17Classes
import PyPhysim.Generated.C17Fields
/-!
Bridge between the hand model of C17 and `Generated/C17Fields.lean` (re-emitted from
the Python source on every run): the attributes of the model records under their
Python names, dictionaries built from a (key, attribute) table, and an interpreter
of the generated encoder ladder.
-/
namespace PyPhysim.C17
open PyPhysim.Proto
open PyPhysim.Generated

/-! ### attributes under their Python names -/

/-- attribute of a `Result` as the value `_to_dict` stores -/
def Result.attr (r : Result) (a : String) : Option PyVal :=
  if a == "name" then some (.str r.name)
  else if a == "_update_type_code" then some (.int r.typeCode)
  else if a == "_value" then some r.value
  else if a == "_total" then some r.total
  else if a == "_result_sum" then some r.resultSum
  else if a == "_result_squared_sum" then some r.resultSqSum
  else if a == "num_updates" then some r.numUpdates
  else if a == "_accumulate_values_bool" then some (.bool r.acc)
  else if a == "_value_list" then some (.list r.valueList)
  else if a == "_total_list" then some (.list r.totalList)
  else .none

/-- attribute of a `SimulationParameters` object (`n` with its chain of originals `rest`) -/
def chainAttr (n : Node) (rest : Chain) (a : String) : Option PyVal :=
  if a == "parameters" then some (.dict n.parameters)
  else if a == "_unpacked_parameters_set" then some (.set (strVals n.unpacked))
  else if a == "_unpack_index" then some (.int n.unpackIndex)
  else if a == "_original_sim_params" then some (paramsToDict rest)
  else .none

/-- attribute of a `SimulationResults` (nested objects in their dictionary form) -/
def SimResults.attr (s : SimResults) (a : String) : Option PyVal :=
  if a == "_params" then some (paramsToDict s.params)
  else if a == "runned_reps" then some s.runnedReps
  else if a == "original_filename" then some s.originalFilename
  else if a == "current_rep" then some s.currentRep
  else if a == "_results" then some (.dict (resultsToKVs s.results))
  else .none

/-- the dictionary a (key, attribute) table describes -/
def dictOf (get : String → Option PyVal) : List (String × String) → Option (List (String × PyVal))
  | [] => some []
  | (k, a) :: rest =>
    match get a, dictOf get rest with
    | some v, some kvs => some ((k, v) :: kvs)
    | _, _ => .none

def lookupV (k : String) : PyVal → Option PyVal
  | .dict d => lookup k d
  | _ => .none

/-- targets of the replay path that are not attributes -/
def isSpecial (a : String) : Bool := a == "@choice_num" || a == "@update"

/-! ### consistency of a writer table with a reader table -/

/-- every pair written is read back into the same attribute, every pair read was written -/
def tablesAgree (w r : List (String × String)) : Bool :=
  w.all (fun p => r.contains p) && r.all (fun p => w.contains p)
    && (w.map Prod.fst).all (fun k => (w.filter (fun q => q.1 == k)).length == 1)
    && (w.map Prod.snd).all (fun a => (w.filter (fun q => q.2 == a)).length == 1)
    && (r.map Prod.fst).all (fun k => (r.filter (fun q => q.1 == k)).length == 1)

/-- replay path: what it stores directly is what was written under that key; what it
    replays comes from a written key; the attributes it does not store are `rebuilt` -/
def choiceAgree (w r : List (String × String)) (rebuilt : List String) : Bool :=
  r.all (fun p => if isSpecial p.2 then (w.map Prod.fst).contains p.1 else w.contains p)
    && w.all (fun p => r.contains p || rebuilt.contains p.2)

/-! ### the encoder ladder -/

def classOf : PyVal → Option String
  | .ndarray _ _ _ => some "ndarray"
  | .npbool _ => some "npbool"
  | .npint _ _ _ => some "npint"
  | .npfloat _ _ => some "npfloat"
  | .set _ => some "set"
  | _ => .none

/-- one field of an object form -/
def fieldJson (v : PyVal) (tag : String) : Option Json :=
  if tag == "true" then some (.bool true)
  else match v with
    | .ndarray dt sh data =>
      if tag == "tolist" then some (enc data)
      else if tag == "dtype" then some (.str dt)
      else if tag == "shape" then some (.arr (sh.map (fun (n : Nat) => Json.int (n : Int))))
      else .none
    | .set xs => if tag == "list" then some (.arr (encList xs)) else .none
    | _ => .none

def fieldsJson (v : PyVal) : List (String × String) → Option (List (String × Json))
  | [] => some []
  | (k, t) :: rest =>
    match fieldJson v t, fieldsJson v rest with
    | some j, some js => some ((k, j) :: js)
    | _, _ => .none

/-- the JSON a form yields for a value (what `json.dumps` makes of the object
    `default` returned); a conversion applied to another class than its own
    (`int(obj)` of a numpy float, …) is not something the model's `enc` does: `none` -/
def applyForm (v : PyVal) : C17Fields.Form → Option Json
  | .toBool => match v with | .npbool b => some (.bool b) | _ => .none
  | .toInt => match v with | .npint _ _ i => some (.int i) | _ => .none
  | .toFloat => match v with | .npfloat _ f => some (.float f) | _ => .none
  | .item => match v with
    | .npbool b => some (.bool b) | .npint _ _ i => some (.int i) | .npfloat _ f => some (.float f)
    | _ => .none
  | .obj fs => (fieldsJson v fs).map Json.obj

/-- first test that accepts the value decides -/
def runLadder : List (String × C17Fields.Form) → PyVal → Option Json
  | [], _ => .none
  | (c, f) :: rest, v => if classOf v == some c then applyForm v f else runLadder rest v

/-! ### the decoder hook -/

/-- what the model rebuilds for a form tag, from the values under the keys -/
def rebuild (form : String) (val : String → PyVal) : R PyVal :=
  if form == "ndarray" then mkArray (val "data") (val "dtype") (val "shape")
  else if form == "set" then mkSet (val "data")
  else .error .unmodelled

/-- encoder and hook agree: each object form carries exactly one mark (a field set to
    `True`), the hook has an entry for that mark rebuilding that class, and reads
    exactly the other keys of the form -/
def encHookAgree (enc : List (String × C17Fields.Form)) (hook : List (String × String × List String)) : Bool :=
  enc.all (fun e =>
    match e.2 with
    | .obj fs =>
      let marks := (fs.filter (fun f => f.2 == "true")).map Prod.fst
      let others := (fs.filter (fun f => f.2 != "true")).map Prod.fst
      match marks with
      | [m] => hook.any (fun h => h.1 == m && h.2.1 == e.1
                  && others.all (fun k => h.2.2.contains k) && h.2.2.all (fun k => others.contains k))
      | _ => false
    | _ => true)
  && hook.all (fun h => enc.any (fun e => e.1 == h.2.1))

end PyPhysim.C17
