import PyPhysim.Proofs.C16Gauss
import PyPhysim.Proofs.C01Detect
import PyPhysim.Proofs.C01Argmin

/-!
# C16 — the formulas are the AWGN error rates of the modelled detector (BPSK, decision cells)

* BPSK: the probability that the sign detector of `Model/C01` (`bpskDemod`) errs on `±1 + n`,
  `n ~ 𝒩(0, σ²)`, `σ² = 1/(2γ)`, is exactly `bpskSER Qg`.
* decision cells of the nearest-point detector `demod` (for QAM / PSK, used by
  `Proofs/C16ExactQam.lean`, `Proofs/C16ExactPsk.lean`): the event "`demod` returns `i`" lies
  between the open and the closed Voronoi cell of point `i`.
-/
namespace PyPhysim.C16
open MeasureTheory ProbabilityTheory Filter Topology Set
open PyPhysim.C01

theorem sigma_pos (s : ℝ) : 0 < sigma s := by
  unfold sigma
  apply Real.sqrt_pos.mpr
  have := db2lin_pos s
  positivity

theorem bpskArg_eq_inv_sigma (s : ℝ) : bpskArg s = 1 / sigma s := by
  have h := arg_general s 2
  rw [bpskArg_eq]
  simp only [argShape]
  have : (2:ℝ) / (2 * sigma s) = 1 / sigma s := by
    have := (sigma_pos s).ne'
    field_simp
  rw [← this, h]; ring

/-- **BPSK is exact**: bit 0 is sent as `+1`; the detector (`re < 0 ↦ 1`) errs iff `1 + n < 0`;
    under Gaussian noise of variance `1/(2γ)` that has probability `Q(√(2γ))` — the code's formula. -/
theorem bpsk_error_prob_bit0 (s : ℝ) :
    (noise (sigma s)).real {n : ℝ | bpskDemod ((1:ℝ) + n) ≠ 0} = bpskSER Qg s := by
  have hset : {n : ℝ | bpskDemod ((1:ℝ) + n) ≠ 0} = Iio (-1) := by
    ext n
    simp only [bpskDemod, mem_ofPred_eq, mem_Iio]
    constructor
    · intro h
      by_contra hc
      apply h
      rw [if_neg]; linarith
    · intro h
      rw [if_pos (by linarith)]; norm_num
  rw [hset, gauss_lower_tail (sigma_pos s) 1]
  simp only [bpskSER, bpskArg_eq_inv_sigma]

/-- bit 1 is sent as `-1`; the detector errs iff `¬(-1 + n < 0)`. -/
theorem bpsk_error_prob_bit1 (s : ℝ) :
    (noise (sigma s)).real {n : ℝ | bpskDemod ((-1:ℝ) + n) ≠ 1} = bpskSER Qg s := by
  have hset : {n : ℝ | bpskDemod ((-1:ℝ) + n) ≠ 1} = Ici 1 := by
    ext n
    simp only [bpskDemod, mem_ofPred_eq, mem_Ici]
    constructor
    · intro h
      by_contra hc
      apply h
      rw [if_pos (by linarith)]
    · intro h
      rw [if_neg (by linarith)]; norm_num
  rw [hset, gauss_upper_tail_closed (sigma_pos s) 1]
  simp only [bpskSER, bpskArg_eq_inv_sigma]

/-! ### Voronoi cells of the nearest-point detector -/

/-- closed Voronoi cell of `p` in the table `c` -/
def closedCell (c : List (ℝ × ℝ)) (p : ℝ × ℝ) : Set (ℝ × ℝ) :=
  {r | ∀ q ∈ c, dist2 r p ≤ dist2 r q}

/-- open Voronoi cell -/
def openCell (c : List (ℝ × ℝ)) (p : ℝ × ℝ) : Set (ℝ × ℝ) :=
  {r | ∀ q ∈ c, q ≠ p → dist2 r p < dist2 r q}

/-- the samples the detector maps to index `i` -/
def decided (c : List (ℝ × ℝ)) (i : Nat) : Set (ℝ × ℝ) := {r | demod c r = i}

theorem decided_subset_closed (c : List (ℝ × ℝ)) (i : Nat) (p : ℝ × ℝ) (hi : c[i]? = some p) :
    decided c i ⊆ closedCell c p := by
  intro r hr q hq
  have hc : c ≠ [] := by intro h; subst h; simp at hi
  obtain ⟨p', hp', hall⟩ := demod_nearest' c hc r
  simp only [decided, mem_ofPred_eq] at hr
  rw [hr, hi] at hp'
  cases hp'
  obtain ⟨j, hj⟩ := List.getElem?_of_mem hq
  exact (hall j q hj).1

theorem open_subset_decided (c : List (ℝ × ℝ)) (hnd : c.Nodup) (i : Nat) (p : ℝ × ℝ)
    (hi : c[i]? = some p) : openCell c p ⊆ decided c i := by
  intro r hr
  simp only [decided, mem_ofPred_eq, demod]
  apply argminIdx_unique (c.map (dist2 r)) i (dist2 r p)
  · rw [List.getElem?_map, hi]; rfl
  · intro j y hj hne
    rw [List.getElem?_map] at hj
    cases hq : c[j]? with
    | none => rw [hq] at hj; cases hj
    | some q =>
      rw [hq] at hj; simp at hj; subst hj
      apply hr q (List.mem_of_getElem? hq)
      intro hqp
      subst hqp
      have hi' : i < c.length := by
        by_contra hc'; rw [List.getElem?_eq_none (Nat.le_of_not_lt hc')] at hi; cases hi
      have hj' : j < c.length := by
        by_contra hc'; rw [List.getElem?_eq_none (Nat.le_of_not_lt hc')] at hq; cases hq
      have e1 : c[i] = q := by
        have := List.getElem?_eq_getElem hi'; rw [this] at hi; exact Option.some.inj hi
      have e2 : c[j] = q := by
        have := List.getElem?_eq_getElem hj'; rw [this] at hq; exact Option.some.inj hq
      exact hne ((List.Nodup.getElem_inj_iff hnd).mp (e2.trans e1.symm))

/-- sandwich: if open and closed cell have the same probability, so has the decision event
    (an outer-measure argument: no measurability of `decided` is needed) -/
theorem decided_prob (μ : Measure (ℝ × ℝ)) [IsFiniteMeasure μ] (c : List (ℝ × ℝ)) (hnd : c.Nodup)
    (i : Nat) (p : ℝ × ℝ) (hi : c[i]? = some p) (v : ℝ)
    (ho : v ≤ μ.real (openCell c p)) (hc : μ.real (closedCell c p) ≤ v) :
    μ.real (decided c i) = v := by
  apply le_antisymm
  · exact (measureReal_mono (decided_subset_closed c i p hi)).trans hc
  · exact ho.trans (measureReal_mono (open_subset_decided c hnd i p hi))

/-- the Voronoi cells depend on the SET of table points only (not on their order, i.e. not on the labelling) -/
theorem closedCell_congr {c c' : List (ℝ × ℝ)} (h : ∀ q, q ∈ c ↔ q ∈ c') (p : ℝ × ℝ) :
    closedCell c p = closedCell c' p := by
  ext r; simp only [closedCell, mem_ofPred_eq]
  exact ⟨fun hr q hq => hr q ((h q).mpr hq), fun hr q hq => hr q ((h q).mp hq)⟩

theorem openCell_congr {c c' : List (ℝ × ℝ)} (h : ∀ q, q ∈ c ↔ q ∈ c') (p : ℝ × ℝ) :
    openCell c p = openCell c' p := by
  ext r; simp only [openCell, mem_ofPred_eq]
  exact ⟨fun hr q hq => hr q ((h q).mpr hq), fun hr q hq => hr q ((h q).mp hq)⟩

end PyPhysim.C16
