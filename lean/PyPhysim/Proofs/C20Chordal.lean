import Mathlib.LinearAlgebra.Matrix.PosDef
import Mathlib.Analysis.Complex.Order
import Mathlib.Analysis.SpecialFunctions.Trigonometric.Inverse
import Mathlib.Analysis.SpecialFunctions.Sqrt
import PyPhysim.Proofs.C20Proj

/-!
Frobenius-norm / trace lemmas behind the chordal-distance theorems.
-/
set_option linter.unusedSectionVars false
namespace PyPhysim.LinAlg.Pf
open Matrix

section algebraic
variable {K : Type} [CommRing K] [StarRing K] {m n p q r : Nat}

theorem fro_sub_comm (A B : Matrix (Fin m) (Fin n) K) :
    trace ((A - B) * (A - B)ᴴ) = trace ((B - A) * (B - A)ᴴ) := by
  have : A - B = -(B - A) := by abel
  rw [this, conjTranspose_neg, Matrix.neg_mul, Matrix.mul_neg, neg_neg]

theorem fro_unitary (U D : Matrix (Fin m) (Fin m) K) (hU : Uᴴ * U = 1) :
    trace ((U * D * Uᴴ) * (U * D * Uᴴ)ᴴ) = trace (D * Dᴴ) := by
  have e : (U * D * Uᴴ) * (U * D * Uᴴ)ᴴ = U * (D * Dᴴ) * Uᴴ := by
    simp only [conjTranspose_mul, conjTranspose_conjTranspose]
    calc U * D * Uᴴ * (U * (Dᴴ * Uᴴ)) = U * D * (Uᴴ * U) * Dᴴ * Uᴴ := by simp only [Matrix.mul_assoc]
      _ = U * (D * Dᴴ) * Uᴴ := by rw [hU]; simp only [Matrix.mul_one, Matrix.mul_assoc]
  rw [e, trace_mul_cycle, hU, Matrix.one_mul]

theorem fro_unitary_sub (U P1 P2 : Matrix (Fin m) (Fin m) K) (hU : Uᴴ * U = 1) :
    trace ((U * P1 * Uᴴ - U * P2 * Uᴴ) * (U * P1 * Uᴴ - U * P2 * Uᴴ)ᴴ)
      = trace ((P1 - P2) * (P1 - P2)ᴴ) := by
  have : U * P1 * Uᴴ - U * P2 * Uᴴ = U * (P1 - P2) * Uᴴ := by
    rw [Matrix.mul_sub, Matrix.sub_mul]
  rw [this, fro_unitary _ _ hU]

/-- `‖Q1 Q1ᴴ − Q2 Q2ᴴ‖_F² = p + q − 2 ‖Q1ᴴ Q2‖_F²` for orthonormal `Q1`, `Q2` -/
theorem fro_proj_diff (Q1 : Matrix (Fin n) (Fin p) K) (Q2 : Matrix (Fin n) (Fin q) K)
    (h1 : Q1ᴴ * Q1 = 1) (h2 : Q2ᴴ * Q2 = 1) :
    trace ((Q1 * Q1ᴴ - Q2 * Q2ᴴ) * (Q1 * Q1ᴴ - Q2 * Q2ᴴ)ᴴ)
      = (p : K) + (q : K) - 2 * trace ((Q1ᴴ * Q2) * (Q1ᴴ * Q2)ᴴ) := by
  have hh : (Q1 * Q1ᴴ - Q2 * Q2ᴴ)ᴴ = Q1 * Q1ᴴ - Q2 * Q2ᴴ := by
    simp [conjTranspose_sub, conjTranspose_mul]
  have i1 : (Q1 * Q1ᴴ) * (Q1 * Q1ᴴ) = Q1 * Q1ᴴ := by
    calc (Q1 * Q1ᴴ) * (Q1 * Q1ᴴ) = Q1 * (Q1ᴴ * Q1) * Q1ᴴ := by simp only [Matrix.mul_assoc]
      _ = Q1 * Q1ᴴ := by rw [h1, Matrix.mul_one]
  have i2 : (Q2 * Q2ᴴ) * (Q2 * Q2ᴴ) = Q2 * Q2ᴴ := by
    calc (Q2 * Q2ᴴ) * (Q2 * Q2ᴴ) = Q2 * (Q2ᴴ * Q2) * Q2ᴴ := by simp only [Matrix.mul_assoc]
      _ = Q2 * Q2ᴴ := by rw [h2, Matrix.mul_one]
  have t1 : trace (Q1 * Q1ᴴ) = (p : K) := by
    rw [trace_mul_comm, h1, trace_one, Fintype.card_fin]
  have t2 : trace (Q2 * Q2ᴴ) = (q : K) := by
    rw [trace_mul_comm, h2, trace_one, Fintype.card_fin]
  have t12 : trace ((Q1 * Q1ᴴ) * (Q2 * Q2ᴴ)) = trace ((Q1ᴴ * Q2) * (Q1ᴴ * Q2)ᴴ) := by
    rw [conjTranspose_mul, conjTranspose_conjTranspose]
    calc trace ((Q1 * Q1ᴴ) * (Q2 * Q2ᴴ)) = trace (Q1 * (Q1ᴴ * Q2 * (Q2ᴴ))) := by simp only [Matrix.mul_assoc]
      _ = trace ((Q1ᴴ * Q2 * Q2ᴴ) * Q1) := by rw [trace_mul_comm]
      _ = trace (Q1ᴴ * Q2 * (Q2ᴴ * Q1)) := by simp only [Matrix.mul_assoc]
  have t21 : trace ((Q2 * Q2ᴴ) * (Q1 * Q1ᴴ)) = trace ((Q1ᴴ * Q2) * (Q1ᴴ * Q2)ᴴ) := by
    rw [trace_mul_comm, t12]
  rw [hh, Matrix.sub_mul, Matrix.mul_sub, Matrix.mul_sub, i1, i2]
  simp only [trace_sub, t1, t2, t12, t21]
  ring

/-- `‖M‖_F² = Σ s_i²` for a (thin) singular value decomposition `M = U diag(s) Vᴴ` -/
theorem fro_of_svd (M : Matrix (Fin p) (Fin q) K) (U : Matrix (Fin p) (Fin r) K)
    (V : Matrix (Fin q) (Fin r) K) (s : Fin r → K) (hs : ∀ i, star (s i) = s i)
    (hU : Uᴴ * U = 1) (hV : Vᴴ * V = 1) (hM : M = U * diagonal s * Vᴴ) :
    trace (M * Mᴴ) = ∑ i, s i * s i := by
  subst hM
  have hd : (diagonal s)ᴴ = diagonal s := by
    rw [diagonal_conjTranspose]; congr 1; funext i; exact hs i
  have e : (U * diagonal s * Vᴴ) * (U * diagonal s * Vᴴ)ᴴ = U * (diagonal s * diagonal s) * Uᴴ := by
    simp only [conjTranspose_mul, conjTranspose_conjTranspose, hd]
    calc U * diagonal s * Vᴴ * (V * (diagonal s * Uᴴ))
        = U * diagonal s * (Vᴴ * V) * diagonal s * Uᴴ := by simp only [Matrix.mul_assoc]
      _ = U * (diagonal s * diagonal s) * Uᴴ := by rw [hV]; simp only [Matrix.mul_one, Matrix.mul_assoc]
  rw [e, trace_mul_cycle, hU, Matrix.one_mul, diagonal_mul_diagonal, trace_diagonal]

end algebraic
end PyPhysim.LinAlg.Pf
