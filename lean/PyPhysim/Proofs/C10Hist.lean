import PyPhysim.Proofs.C10Inv
/-!
The two filter getters, coherence along whole histories, freshness of
`full_F` and consistency of the stream counts.
-/
set_option linter.unusedSimpArgs false
set_option linter.unusedVariables false
namespace PyPhysim.C10
open PyPhysim.Proto

variable {μ ρ : Type}

/-- what the `full_W_H` getter does to a coherent state -/
theorem readFullWH_post (O : Ops μ ρ) (K : Nat) (st : State μ ρ) (h : Coherent O K st) :
    Coherent O K (readFullWH Cfg.fixed O K st).1
    ∧ (∀ Z, (readFullWH Cfg.fixed O K st).2 = .ok (some Z) →
          (readFullWH Cfg.fixed O K st).1.fullWH = some Z)
    ∧ ((readFullWH Cfg.fixed O K st).1.fullW = st.fullW)
    ∧ (readFullWH Cfg.fixed O K st).1.f = st.f ∧ (readFullWH Cfg.fixed O K st).1.p = st.p
    ∧ (readFullWH Cfg.fixed O K st).1.ns = st.ns
    ∧ getWH O (readFullWH Cfg.fixed O K st).1 = getWH O st
    ∧ getFullF O K (readFullWH Cfg.fixed O K st).1 = getFullF O K st := by
  unfold readFullWH
  cases hz : st.fullWH with
  | some Z => simp [hz, h]
  | none =>
    simp only
    have h1 := readWH_coherent O K st h
    have f1 := readWH_fields O st
    have g1 := getWH_readWH O st
    have gf1 : getFullF O K (readWH O st).1 = getFullF O K st :=
      getFullF_congr O K _ _ f1.1 f1.2.1 f1.2.2.1
    have hg : getWH O st = (readWH O st).2 := rfl
    cases hr : readWH O st with
    | mk st1 oy =>
      rw [hr] at h1 f1 g1 gf1 hg
      simp only at h1 f1 g1 gf1 hg
      cases oy with
      | none => exact ⟨h1, by simp, f1.2.2.2.2.1, f1.1, f1.2.2.1, f1.2.2.2.2.2, g1, gf1⟩
      | some Y =>
        simp only
        have h2 := readFullF_coherent O K st1 h1
        have f2 := readFullF_fields O K st1
        have g2 : getWH O (readFullF O K st1).1 = getWH O st1 :=
          getWH_congr O _ _ f2.2.2.1 f2.2.2.2.1
        have gf2 := getFullF_readFullF O K st1
        have hgf : getFullF O K st1 = (readFullF O K st1).2 := rfl
        cases hr2 : readFullF O K st1 with
        | mk st2 r2 =>
          rw [hr2] at h2 f2 g2 gf2 hgf
          simp only at h2 f2 g2 gf2 hgf
          have common : st2.fullW = st.fullW ∧ st2.f = st.f ∧ st2.p = st.p ∧ st2.ns = st.ns
              ∧ getWH O st2 = getWH O st ∧ getFullF O K st2 = getFullF O K st :=
            ⟨by rw [f2.2.2.2.2.2.1, f1.2.2.2.2.1], by rw [f2.1, f1.1], by rw [f2.2.1, f1.2.2.1],
             by rw [f2.2.2.2.2.2.2, f1.2.2.2.2.2], by rw [g2, g1], by rw [gf2, gf1]⟩
          cases r2 with
          | error e =>
            simp only [Cfg.fixed, if_true]
            exact ⟨h2, by simp, common.1, common.2.1, common.2.2.1, common.2.2.2.1,
                   common.2.2.2.2.1, common.2.2.2.2.2⟩
          | ok fF =>
            simp only
            cases hc : O.comp Y fF with
            | error e =>
              simp only [Cfg.fixed, if_true]
              exact ⟨h2, by simp, common.1, common.2.1, common.2.2.1, common.2.2.2.1,
                     common.2.2.2.2.1, common.2.2.2.2.2⟩
            | ok Z =>
              simp only
              have gw3 : getWH O { st2 with fullWH := some Z } = getWH O st :=
                (getWH_congr O { st2 with fullWH := some Z } st2 rfl rfl).trans common.2.2.2.2.1
              have gf3 : getFullF O K { st2 with fullWH := some Z } = getFullF O K st :=
                (getFullF_congr O K { st2 with fullWH := some Z } st2 rfl rfl rfl).trans common.2.2.2.2.2
              refine ⟨⟨h2.wwH, ?_, ?_⟩, by simp, common.1, common.2.1, common.2.2.1,
                      common.2.2.2.1, gw3, gf3⟩
              · intro Z' hZ'
                simp only [Option.some.injEq] at hZ'
                subst hZ'
                unfold specFullWH
                rw [gw3, gf3, hg, gf1.symm, hgf]
                simp only [hc]
              · intro Z' hZ'
                simp only at hZ'
                rw [common.1] at hZ'
                obtain ⟨Z0, hZ0, _⟩ := h.fullW Z' hZ'
                rw [hz] at hZ0
                cases hZ0

theorem readFullWH_coherent (O : Ops μ ρ) (K : Nat) (st : State μ ρ) (h : Coherent O K st) :
    Coherent O K (readFullWH Cfg.fixed O K st).1 := (readFullWH_post O K st h).1

/-- the outcome of the `full_W` getter on a coherent state -/
theorem readFullW_spec (O : Ops μ ρ) (K : Nat) (st : State μ ρ) (h : Coherent O K st) :
    (readFullW Cfg.fixed O K st).2 = specFullW O K st := by
  unfold readFullW specFullW
  cases hz' : st.fullW with
  | some Z' =>
    obtain ⟨Z, hZ, e⟩ := h.fullW Z' hz'
    simp [h.fullWH Z hZ, e]
  | none =>
    simp only
    rw [← readFullWH_spec O K st h]
    cases hr : readFullWH Cfg.fixed O K st with
    | mk st1 r =>
      cases r with
      | error e => simp
      | ok oz => cases oz <;> simp

theorem readFullW_coherent (O : Ops μ ρ) (K : Nat) (st : State μ ρ) (h : Coherent O K st) :
    Coherent O K (readFullW Cfg.fixed O K st).1 := by
  unfold readFullW
  cases hz' : st.fullW with
  | some Z' => exact h
  | none =>
    simp only
    have hp := readFullWH_post O K st h
    cases hr : readFullWH Cfg.fixed O K st with
    | mk st1 r =>
      rw [hr] at hp
      simp only at hp
      cases r with
      | error e => simp only [Cfg.fixed, if_true]; exact hp.1
      | ok oz =>
        cases oz with
        | none => simp only [Cfg.fixed, if_true]; exact hp.1
        | some Z =>
          simp only
          have hst1 := hp.2.1 Z rfl
          refine ⟨hp.1.wwH, ?_, ?_⟩
          · intro Z2 hZ2
            have e : specFullWH O K { st1 with fullW := some (O.herm Z) } = specFullWH O K st1 :=
              specFullWH_congr O K _ _ (getWH_congr O _ st1 rfl rfl) (getFullF_congr O K _ st1 rfl rfl rfl)
            rw [e]
            exact hp.1.fullWH Z2 hZ2
          · intro Z2 hZ2
            simp only [Option.some.injEq] at hZ2
            exact ⟨Z, hst1, hZ2.symm⟩

/-- every operation, with any arguments, keeps the derived attributes coherent -/
theorem step_coherent (O : Ops μ ρ) (K : Nat) (st : State μ ρ) (op : Op μ ρ) (h : Coherent O K st) :
    Coherent O K (step Cfg.fixed O K st op).1 := by
  cases op with
  | setP v => exact setP_coherent O K st v h
  | randomizeF drawn ns p => exact randomizeF_coherent O K st drawn ns p h
  | setPrecoders f fullF p => exact setPrecoders_coherent O K st f fullF p h
  | setFilters wH w => exact setFilters_coherent O K st wH w h
  | setInit a => exact h
  | query => exact h
  | fork => exact h
  | solve cf ns p sol => exact solve_coherent O K st cf ns p sol h
  | clear => exact clear_coherent O K st
  | readF => exact h
  | readFullF => exact readFullF_coherent O K st h
  | readW => exact readW_coherent O K st h
  | readWH => exact readWH_coherent O K st h
  | readFullWH => exact readFullWH_coherent O K st h
  | readFullW => exact readFullW_coherent O K st h
  | readNs => exact h
  | readP => exact h

theorem run_coherent (O : Ops μ ρ) (K : Nat) :
    ∀ (ops : List (Op μ ρ)) (st : State μ ρ), Coherent O K st → Coherent O K (run Cfg.fixed O K st ops).1
  | [], st, h => h
  | op :: ops, st, h => run_coherent O K ops _ (step_coherent O K st op h)

theorem reach_coherent (O : Ops μ ρ) (K : Nat) (ops : List (Op μ ρ)) :
    Coherent O K (reach Cfg.fixed O K ops) :=
  run_coherent O K ops _ (init_coherent O K)

theorem run_append (cfg : Cfg) (O : Ops μ ρ) (K : Nat) :
    ∀ (a b : List (Op μ ρ)) (st : State μ ρ),
      (run cfg O K st (a ++ b)).1 = (run cfg O K (run cfg O K st a).1 b).1
  | [], b, st => rfl
  | op :: a, b, st => by simp only [List.cons_append, run]; exact run_append cfg O K a b _

end PyPhysim.C10
