import Mathlib.Analysis.SpecialFunctions.Trigonometric.Basic
import Mathlib.Analysis.SpecialFunctions.Sqrt
import Mathlib.Tactic.Ring
import Mathlib.Tactic.Linarith
import Mathlib.Tactic.FieldSimp
import Mathlib.Tactic.LinearCombination
import Mathlib.Tactic.IntervalCases
import PyPhysim.Proofs.C19Geom

set_option linter.unusedSectionVars false

/-! C19 — the scalar ℝ with its circle functions; exact values of `exp(j·k·30°)`. -/
namespace PyPhysim.C19
open Real

noncomputable instance realCirc : Circ ℝ where
  cisDeg a := (Real.cos (Real.pi * a / 180), Real.sin (Real.pi * a / 180))
  cisRad a := (Real.cos a, Real.sin a)
  sqrt := Real.sqrt
  pi := Real.pi

/-- `exp(j·k·π/6)` -/
noncomputable def E (k : ℕ) : Pt ℝ := (Real.cos (k * Real.pi / 6), Real.sin (k * Real.pi / 6))

theorem cisDeg_unit (a : ℝ) : norm2 (Circ.cisDeg a : Pt ℝ) = 1 := by
  simp only [norm2, Circ.cisDeg]
  have := Real.cos_sq_add_sin_sq (Real.pi * a / 180)
  nlinarith [this]

theorem cisRad_unit (a : ℝ) : norm2 (Circ.cisRad a : Pt ℝ) = 1 := by
  simp only [norm2, Circ.cisRad]
  have := Real.cos_sq_add_sin_sq a
  nlinarith [this]

theorem cisDeg_mul30 (k : ℕ) : (Circ.cisDeg (((30 * k : ℕ)) : ℝ) : Pt ℝ) = E k := by
  simp only [Circ.cisDeg, E]
  have : Real.pi * ((30 * k : ℕ) : ℝ) / 180 = k * Real.pi / 6 := by push_cast; ring
  rw [this]

theorem s3 : Real.sqrt 3 * Real.sqrt 3 = 3 := Real.mul_self_sqrt (by norm_num)

theorem E_zero : E 0 = (1, 0) := by simp [E]

theorem E_succ (k : ℕ) : E (k + 1) = cmul (E k) (Real.sqrt 3 / 2, 1 / 2) := by
  simp only [E, cmul]
  have : ((k + 1 : ℕ) : ℝ) * Real.pi / 6 = k * Real.pi / 6 + Real.pi / 6 := by push_cast; ring
  rw [this, Real.cos_add, Real.sin_add, Real.cos_pi_div_six, Real.sin_pi_div_six]
  congr 1
  ring

/-- the twelve directions, in units of `1/2` and `√3/2`: `(x₁/2 + x₂·√3/2, y₁/2 + y₂·√3/2)` -/
def e30 : ℕ → (ℤ × ℤ) × (ℤ × ℤ)
  | 0 => ((2, 0), (0, 0))
  | 1 => ((0, 1), (1, 0))
  | 2 => ((1, 0), (0, 1))
  | 3 => ((0, 0), (2, 0))
  | 4 => ((-1, 0), (0, 1))
  | 5 => ((0, -1), (1, 0))
  | 6 => ((-2, 0), (0, 0))
  | 7 => ((0, -1), (-1, 0))
  | 8 => ((-1, 0), (0, -1))
  | 9 => ((0, 0), (-2, 0))
  | 10 => ((1, 0), (0, -1))
  | 11 => ((0, 1), (-1, 0))
  | (k + 12) => e30 k

noncomputable def emb (v : (ℤ × ℤ) × (ℤ × ℤ)) : Pt ℝ :=
  ((v.1.1 : ℝ) / 2 + (v.1.2 : ℝ) * (Real.sqrt 3 / 2), (v.2.1 : ℝ) / 2 + (v.2.2 : ℝ) * (Real.sqrt 3 / 2))

theorem E_step (k : ℕ) (v w : (ℤ × ℤ) × (ℤ × ℤ)) (h : E k = emb v)
    (he1 : 2 * w.1.1 = -v.2.1 + 3 * v.1.2) (he2 : 2 * w.1.2 = v.1.1 - v.2.2)
    (he3 : 2 * w.2.1 = v.1.1 + 3 * v.2.2) (he4 : 2 * w.2.2 = v.1.2 + v.2.1) :
    E (k + 1) = emb w := by
  rw [E_succ, h]
  simp only [emb, cmul]
  have r1 : (2 : ℝ) * (w.1.1 : ℝ) = -(v.2.1 : ℝ) + 3 * (v.1.2 : ℝ) := by exact_mod_cast he1
  have r2 : (2 : ℝ) * (w.1.2 : ℝ) = (v.1.1 : ℝ) - (v.2.2 : ℝ) := by exact_mod_cast he2
  have r3 : (2 : ℝ) * (w.2.1 : ℝ) = (v.1.1 : ℝ) + 3 * (v.2.2 : ℝ) := by exact_mod_cast he3
  have r4 : (2 : ℝ) * (w.2.2 : ℝ) = (v.1.2 : ℝ) + (v.2.1 : ℝ) := by exact_mod_cast he4
  ext
  · simp only
    linear_combination (-(1 / 4 : ℝ)) * r1 - (Real.sqrt 3 / 4) * r2 + ((v.1.2 : ℝ) / 4) * s3
  · simp only
    linear_combination (-(1 / 4 : ℝ)) * r3 - (Real.sqrt 3 / 4) * r4 + ((v.2.2 : ℝ) / 4) * s3


theorem E_period (k : ℕ) : E (k + 12) = E k := by
  simp only [E]
  have : ((k + 12 : ℕ) : ℝ) * Real.pi / 6 = k * Real.pi / 6 + 2 * Real.pi := by push_cast; ring
  rw [this, Real.cos_add_two_pi, Real.sin_add_two_pi]

theorem E_table : ∀ k, k < 12 → E k = emb (e30 k) := by
  have h0 : E 0 = emb (e30 0) := by simp [E_zero, emb, e30]
  have h1 := E_step 0 _ (e30 1) h0 (by decide) (by decide) (by decide) (by decide)
  have h2 := E_step 1 _ (e30 2) h1 (by decide) (by decide) (by decide) (by decide)
  have h3 := E_step 2 _ (e30 3) h2 (by decide) (by decide) (by decide) (by decide)
  have h4 := E_step 3 _ (e30 4) h3 (by decide) (by decide) (by decide) (by decide)
  have h5 := E_step 4 _ (e30 5) h4 (by decide) (by decide) (by decide) (by decide)
  have h6 := E_step 5 _ (e30 6) h5 (by decide) (by decide) (by decide) (by decide)
  have h7 := E_step 6 _ (e30 7) h6 (by decide) (by decide) (by decide) (by decide)
  have h8 := E_step 7 _ (e30 8) h7 (by decide) (by decide) (by decide) (by decide)
  have h9 := E_step 8 _ (e30 9) h8 (by decide) (by decide) (by decide) (by decide)
  have h10 := E_step 9 _ (e30 10) h9 (by decide) (by decide) (by decide) (by decide)
  have h11 := E_step 10 _ (e30 11) h10 (by decide) (by decide) (by decide) (by decide)
  intro k hk
  interval_cases k <;> assumption

/-- `exp(j·k·30°)` for every `k`, exactly, in ℚ(√3) -/
theorem E_eq : ∀ k, E k = emb (e30 k) := by
  intro k
  induction k using Nat.strongRecOn with
  | _ k ih =>
    by_cases hk : k < 12
    · exact E_table k hk
    · obtain ⟨m, rfl⟩ : ∃ m, k = m + 12 := ⟨k - 12, by omega⟩
      rw [E_period, ih m (by omega)]
      rfl

end PyPhysim.C19
