import PyPhysim.Proofs.C03Su
import PyPhysim.Proofs.C03Py

/-!
# C03 — `MuChannel` / `MuMimoChannel`: per-link superposition
-/
namespace PyPhysim.C03
open PyPhysim.Proto

section
variable {β : Type}

theorem tab_succ_last (n : Nat) (f : Nat → β) : tab (n + 1) f = tab n f ++ [f n] := by
  simp [tab, List.range_succ]

theorem filterMap_of_forall_some {ι : Type} (l : List ι) (f : ι → Option β) (g : ι → β)
    (h : ∀ x ∈ l, f x = some (g x)) : l.filterMap f = l.map g := by
  induction l with
  | nil => rfl
  | cons a l ih =>
    rw [List.filterMap_cons, h a (by simp), List.map_cons, ih (fun x hx => h x (by simp [hx]))]

theorem mapM_tab_zipIdx {κ : Type} (N : Nat) (Lk : Nat → β) (f : β × Nat → Except PyErr κ) (g : Nat → κ)
    (h : ∀ i, i < N → f (Lk i, i) = .ok (g i)) : (tab N Lk).zipIdx.mapM f = .ok (tab N g) := by
  rw [tab_zipIdx]
  have := mapM_ok_of_forall f (fun li => g li.2) (tab N (fun a => (Lk a, a))) (by
    intro x hx
    simp only [tab, List.mem_map, List.mem_range] at hx
    obtain ⟨i, hi, rfl⟩ := hx
    exact h i hi)
  rw [this, tab_map]

end

variable {α : Type} [CommSemiring α]

theorem addRows_tab (R len : Nat) (A B : Nat → Nat → α) :
    addRows (tab R (fun r => tab len (A r))) (tab R (fun r => tab len (B r)))
      = tab R (fun r => tab len (fun m => A r m + B r m)) := by
  unfold addRows tab
  rw [zipWith_map_same]
  apply List.map_congr_left
  intro r _
  rw [zipWith_map_same]

theorem foldl_addRows_tab (R len k : Nat) (A : Nat → Nat → α) (F : Nat → Nat → Nat → α) :
    (tab k (fun t => tab R (fun r => tab len (F t r)))).foldl addRows (tab R (fun r => tab len (A r)))
      = tab R (fun r => tab len (fun m => A r m + ((List.range k).map (fun t => F t r m)).sum)) := by
  induction k with
  | zero => simp [tab]
  | succ k ih =>
    rw [tab_succ_last, List.foldl_append, ih, List.foldl_cons, List.foldl_nil, addRows_tab]
    unfold tab
    apply List.map_congr_left
    intro r _
    apply List.map_congr_left
    intro m _
    rw [List.range_succ, List.map_append, List.sum_append]
    simp [add_assoc]

/-- superposing `k+1` equally shaped outputs adds them entrywise -/
theorem sumOutputs_tab (R len k : Nat) (F : Nat → Nat → Nat → α) :
    sumOutputs (tab (k + 1) (fun t => tab R (fun r => tab len (F t r))))
      = .ok (tab R (fun r => tab len (fun m => ((List.range (k + 1)).map (fun t => F t r m)).sum))) := by
  rw [tab_succ]
  unfold sumOutputs
  simp only
  rw [foldl_addRows_tab R len k (F 0) (fun t => F (t + 1))]
  congr 1
  unfold tab
  apply List.map_congr_left
  intro r _
  apply List.map_congr_left
  intro m _
  rw [List.range_succ_eq_map, List.map_cons, List.sum_cons, List.map_map]
  rfl

theorem sumOutputs_range (R len n : Nat) (hn : 0 < n) (F : Nat → Nat → Nat → α) :
    sumOutputs ((List.range n).map (fun t => tab R (fun r => tab len (F t r))))
      = .ok (tab R (fun r => tab len (fun m => ((List.range n).map (fun t => F t r m)).sum))) := by
  obtain ⟨k, rfl⟩ : ∃ k, n = k + 1 := ⟨n - 1, by omega⟩
  exact sumOutputs_tab R len k F

theorem mapM_range_tab {κ : Type} (n : Nat) (f : Nat → Except PyErr κ) (g : Nat → κ)
    (h : ∀ j, j < n → f j = .ok (g j)) : (List.range n).mapM f = .ok (tab n g) :=
  mapM_ok_of_forall f g (List.range n) (fun j hj => h j (List.mem_range.mp hj))

/-- link index of (receiver j, source a) in the two directions -/
def muLink (sw : Bool) (nTx j a : Nat) : Nat := if sw then a * nTx + j else j * nTx + a

theorem idx_bound (T j a R : Nat) (hj : j < R) (ha : a < T) : j * T + a < R * T := by
  calc j * T + a < j * T + T := by omega
    _ = (j + 1) * T := by ring
    _ ≤ R * T := Nat.mul_le_mul_right _ hj

/-- **Superposition.** If every link, fed with the signal of its source, returns an
    `R × len` table `F link`, then the multiuser transmission returns for every
    destination the entrywise sum over its sources, and stores the updated links. -/
theorem mu_transmit_tables (nRx nTx : Nat) (hR : 0 < nRx) (hT : 0 < nTx) (Lk L' : Nat → Su α) (sw : Bool)
    (hsw : (Lk 0).tdl.switched = sw)
    (x : List (List (List α))) (hx : x.length = (if sw then nRx else nTx))
    (send : Su α → List (List α) → Except PyErr (Su α × List (List α)))
    (R len : Nat) (F : Nat → Nat → Nat → α)
    (hsend : ∀ idx, idx < nRx * nTx → ∃ s, x[if sw then idx / nTx else idx % nTx]? = some s ∧
        send (Lk idx) s = .ok (L' idx, tab R (fun r => tab len (F idx r)))) :
    Mu.transmit { nRx := nRx, nTx := nTx, links := tab (nRx * nTx) Lk } x send
      = .ok ({ nRx := nRx, nTx := nTx, links := tab (nRx * nTx) L' },
             tab (if sw then nTx else nRx) (fun j => tab R (fun r => tab len (fun m =>
               ((List.range (if sw then nRx else nTx)).map (fun a => F (muLink sw nTx j a) r m)).sum)))) := by
  have hN : 0 < nRx * nTx := Nat.mul_pos hR hT
  obtain ⟨N', hN'⟩ : ∃ N', nRx * nTx = N' + 1 := ⟨nRx * nTx - 1, by omega⟩
  unfold Mu.transmit Mu.switched
  have hT' : ¬ nTx = 0 := by omega
  have hlinks0 : ∀ (f : Nat → Su α), tab (nRx * nTx) f = f 0 :: tab N' (fun i => f (i + 1)) := by
    intro f; rw [hN', tab_succ]
  simp only [hlinks0 Lk, hsw, bind, Except.bind, pure, Except.pure, hT', if_false]
  rw [← hlinks0 Lk]
  rw [mapM_tab_zipIdx (nRx * nTx) Lk _ (fun idx => (L' idx, tab R (fun r => tab len (F idx r))))]
  swap
  · intro idx hidx
    obtain ⟨s, hs1, hs2⟩ := hsend idx hidx
    simp only [hs1, hs2]
  simp only [tab_map]
  cases sw with
  | true =>
    simp only [if_true] at hx ⊢
    simp only [hx, ne_eq, not_true_eq_false, if_false]
    rw [mapM_range_tab nTx _ (fun j => tab R (fun r => tab len (fun m =>
            ((List.range nRx).map (fun a => F (muLink true nTx j a) r m)).sum)))]
    intro j hj
    rw [filterMap_of_forall_some (List.range nRx) _ (fun a => tab R (fun r => tab len (F (a * nTx + j) r)))]
    · rw [sumOutputs_range R len nRx hR (fun a => F (a * nTx + j))]
      simp [muLink]
    · intro a ha
      rw [List.mem_range] at ha
      rw [getElem?_tab, if_pos (idx_bound nTx a j nRx ha hj)]
  | false =>
    simp only [Bool.false_eq_true, if_false] at hx ⊢
    simp only [hx, ne_eq, not_true_eq_false, if_false]
    rw [mapM_range_tab nRx _ (fun j => tab R (fun r => tab len (fun m =>
            ((List.range nTx).map (fun a => F (muLink false nTx j a) r m)).sum)))]
    intro j hj
    rw [filterMap_of_forall_some (List.range nTx) _ (fun a => tab R (fun r => tab len (F (j * nTx + a) r)))]
    · rw [sumOutputs_range R len nTx hT (fun a => F (j * nTx + a))]
      simp [muLink]
    · intro a ha
      rw [List.mem_range] at ha
      rw [getElem?_tab, if_pos (idx_bound nTx j a nRx hj ha)]


/-! ## the SISO frequency-domain output as a flat table (needed to superpose links) -/

theorem tab_add {β : Type} (a b : Nat) (f : Nat → β) : tab (a + b) f = tab a f ++ tab b (fun q => f (a + q)) := by
  unfold tab
  rw [List.range_add, List.map_append, List.map_map]
  rfl

theorem zipIdx_map_eq_tab {β : Type} (ps : List Nat) (G : Nat → Nat → β) :
    ps.zipIdx.map (fun pq => G pq.1 pq.2)
      = tab ps.length (fun q => G (match ps[q]? with | some p => p | none => 0) q) := by
  apply List.ext_getElem?
  intro q
  rw [List.getElem?_map, List.getElem?_zipIdx, getElem?_tab]
  by_cases h : q < ps.length
  · simp [h, List.getElem?_eq_getElem h]
  · simp [h, List.getElem?_eq_none (Nat.le_of_not_lt h)]

theorem freqSpecSiso_eq_tab (fftK : Fft α) (ir : IR α) (fft : Nat) (ps : List Nat) (hps : 0 < ps.length)
    (nb : Nat) (xf : Nat → α) :
    freqSpecSiso fftK ir fft ps ps.length nb xf = tab (nb * ps.length) (freqAtSisoFlat fftK ir fft ps xf) := by
  unfold freqSpecSiso
  induction nb with
  | zero => simp [tab]
  | succ nb ih =>
    rw [List.range_succ, List.flatMap_append, ih, Nat.succ_mul, tab_add]
    congr 1
    simp only [List.flatMap_cons, List.flatMap_nil, List.append_nil]
    rw [zipIdx_map_eq_tab ps (fun p q => freqAtSiso fftK ir fft ps.length xf nb p q)]
    unfold tab
    apply List.map_congr_left
    intro q hq
    rw [List.mem_range] at hq
    unfold freqAtSiso freqAtSisoFlat
    have h1 : (nb * ps.length + q) / ps.length = nb := by
      rw [Nat.mul_comm, Nat.mul_add_div hps, Nat.div_eq_of_lt hq, Nat.add_zero]
    have h2 : (nb * ps.length + q) % ps.length = q := by
      rw [Nat.mul_comm, Nat.mul_add_mod, Nat.mod_eq_of_lt hq]
    rw [h1, h2]
    cases ps[q]? <;> rfl

end PyPhysim.C03
