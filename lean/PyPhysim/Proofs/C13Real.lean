import Mathlib.Analysis.SpecialFunctions.Log.Base
import Mathlib.Analysis.SpecialFunctions.Pow.Real
import Mathlib.Tactic.Ring
import Mathlib.Tactic.Linarith
import Mathlib.Tactic.FieldSimp
import Mathlib.Tactic.NormNum
import PyPhysim.Model.C13

/-!
# C13 — the model at `α = ℝ`

`log10 = Real.logb 10`, `pow10 x = 10 ^ x` (real power).  All other structure
(`+ - * /`, literals, order) resolves to Mathlib's instances on `ℝ`.
-/
set_option linter.unnecessarySeqFocus false
set_option linter.unusedTactic false
set_option linter.unreachableTactic false
namespace PyPhysim.C13
open PyPhysim.Proto

/-- closes `generated formula = normal form` goals; tolerant of re-association /
    commutation in the source expression -/
macro "gen_nf" : tactic =>
  `(tactic| first | (norm_num; done) | (push_cast; ring) | (congr 1; push_cast; ring)
                  | (congr 2; push_cast; ring))

noncomputable instance : Transc ℝ := ⟨Real.logb 10, fun x => (10 : ℝ) ^ x⟩

@[simp] theorem log10_real (x : ℝ) : (Transc.log10 x : ℝ) = Real.logb 10 x := rfl
@[simp] theorem pow10_real (x : ℝ) : (Transc.pow10 x : ℝ) = (10 : ℝ) ^ x := rfl
@[simp] theorem zero_real : (zero : ℝ) = 0 := by simp [zero]

theorem pow10_log10 {x : ℝ} (h : 0 < x) : (10 : ℝ) ^ Real.logb 10 x = x :=
  Real.rpow_logb (by norm_num) (by norm_num) h

theorem log10_pow10 (x : ℝ) : Real.logb 10 ((10 : ℝ) ^ x) = x :=
  Real.logb_rpow (by norm_num) (by norm_num)

theorem log10_mono {x y : ℝ} (hx : 0 < x) (h : x ≤ y) : Real.logb 10 x ≤ Real.logb 10 y :=
  Real.logb_le_logb_of_le (by norm_num) hx h

theorem pow10_pos (x : ℝ) : 0 < (10 : ℝ) ^ x := Real.rpow_pos_of_pos (by norm_num) x

example : Gen.generalDb (2 : ℝ) 3 10 = 23 := by
  simp [Gen.generalDb]
  norm_num


/-! ## dB conversions -/

theorem dB2Linear_real (x : ℝ) : Gen.dB2Linear x = (10 : ℝ) ^ (x / 10) := by
  simp only [Gen.dB2Linear, pow10_real] <;> gen_nf

theorem linear2dB_real (x : ℝ) : Gen.linear2dB x = 10 * Real.logb 10 x := by
  simp only [Gen.linear2dB, log10_real] <;> gen_nf

theorem linear2dB_dB2Linear (x : ℝ) : Gen.linear2dB (Gen.dB2Linear x) = x := by
  rw [dB2Linear_real, linear2dB_real, log10_pow10]; ring

theorem dB2Linear_linear2dB {y : ℝ} (h : 0 < y) : Gen.dB2Linear (Gen.linear2dB y) = y := by
  rw [linear2dB_real, dB2Linear_real]
  have : 10 * Real.logb 10 y / 10 = Real.logb 10 y := by ring
  rw [this, pow10_log10 h]

theorem dB2Linear_pos (x : ℝ) : 0 < Gen.dB2Linear x := by
  rw [dB2Linear_real]; exact pow10_pos _

theorem dB2Linear_neg_le_one {x : ℝ} (h : 0 ≤ x) : Gen.dB2Linear (-x) ≤ 1 := by
  rw [dB2Linear_real]
  apply Real.rpow_le_one_of_one_le_of_nonpos (by norm_num)
  linarith

theorem dB2Linear_mono {x y : ℝ} (h : x ≤ y) : Gen.dB2Linear x ≤ Gen.dB2Linear y := by
  rw [dB2Linear_real, dB2Linear_real]
  exact Real.rpow_le_rpow_of_exponent_le (by norm_num) (by linarith)

/-! ## PathLossGeneral family -/

theorem generalDb_real (n C d : ℝ) : Gen.generalDb n C d = 10 * n * Real.logb 10 d + C := by
  simp only [Gen.generalDb, log10_real] <;> gen_nf

theorem generalWhichDb_real (n C p : ℝ) : Gen.generalWhichDb n C p = (10 : ℝ) ^ ((p - C) / (10 * n)) := by
  simp only [Gen.generalWhichDb, pow10_real] <;> gen_nf

theorem generalDb_mono {n C d₁ d₂ : ℝ} (hn : 0 ≤ n) (h₁ : 0 < d₁) (h : d₁ ≤ d₂) :
    Gen.generalDb n C d₁ ≤ Gen.generalDb n C d₂ := by
  rw [generalDb_real, generalDb_real]
  have := log10_mono h₁ h
  have h10 : 0 ≤ 10 * n := by linarith
  nlinarith [mul_le_mul_of_nonneg_left this h10]

theorem generalDb_strictMono {n C d₁ d₂ : ℝ} (hn : 0 < n) (h₁ : 0 < d₁) (h : d₁ < d₂) :
    Gen.generalDb n C d₁ < Gen.generalDb n C d₂ := by
  rw [generalDb_real, generalDb_real]
  have := Real.logb_lt_logb (b := 10) (by norm_num) h₁ h
  have h10 : 0 < 10 * n := by linarith
  nlinarith [mul_lt_mul_of_pos_left this h10]

theorem generalWhich_generalDb {n C d : ℝ} (hn : n ≠ 0) (hd : 0 < d) :
    Gen.generalWhichDb n C (Gen.generalDb n C d) = d := by
  rw [generalDb_real, generalWhichDb_real]
  have : (10 * n * Real.logb 10 d + C - C) / (10 * n) = Real.logb 10 d := by
    field_simp
    ring
  rw [this, pow10_log10 hd]

theorem generalDb_generalWhich {n C p : ℝ} (hn : n ≠ 0) :
    Gen.generalDb n C (Gen.generalWhichDb n C p) = p := by
  rw [generalWhichDb_real, generalDb_real, log10_pow10]
  field_simp
  ring

theorem generalWhich_pos (n C p : ℝ) : 0 < Gen.generalWhichDb n C p := by
  rw [generalWhichDb_real]; exact pow10_pos _

end PyPhysim.C13
