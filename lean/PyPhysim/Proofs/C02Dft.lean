import Mathlib.RingTheory.RootsOfUnity.PrimitiveRoots
import Mathlib.Algebra.Field.GeomSum
import Mathlib.Algebra.BigOperators.Field
import Mathlib.Tactic.Ring
import PyPhysim.Proofs.C02Round

/-!
C02 — the textbook DFT over a field with a primitive `N`-th root of unity:
list ↔ finite-sum bridge, orthogonality, inversion (so the textbook pair
satisfies `KernelPair`), and the shift theorem behind the one-tap equaliser.
-/
set_option linter.unusedSectionVars false
namespace PyPhysim.C02
open PyPhysim.Proto Finset

variable {K : Type} [Field K]

/-! ### lists and sums -/

theorem list_sum_range (f : ℕ → K) (n : ℕ) : ((List.range n).map f).sum = ∑ i ∈ range n, f i := by
  induction n with
  | zero => simp
  | succ n ih =>
    rw [List.range_succ, List.map_append, List.sum_append, ih, Finset.sum_range_succ]
    simp

theorem getD_map_range {β : Type} (f : ℕ → β) (N i : ℕ) (hi : i < N) (d : β) :
    ((List.range N).map f).getD i d = f i := by
  simp [List.getD_eq_getElem?_getD, List.getElem?_map, List.getElem?_range hi]

theorem list_ext_getD (l₁ l₂ : List K) (hl : l₁.length = l₂.length)
    (h : ∀ i, i < l₁.length → l₁.getD i 0 = l₂.getD i 0) : l₁ = l₂ := by
  apply List.ext_getElem hl
  intro i h1 h2
  have := h i h1
  simpa [List.getD_eq_getElem?_getD, List.getElem?_eq_getElem h1, List.getElem?_eq_getElem h2] using this

theorem getD_map_mul (c : K) (v : List K) (m : ℕ) :
    (v.map (fun a => c * a)).getD m 0 = c * v.getD m 0 := by
  simp only [List.getD_eq_getElem?_getD, List.getElem?_map]
  cases v[m]? <;> simp

/-! ### the transforms, elementwise -/

theorem dft_length (w : ℕ → K) (N : ℕ) (a : List K) : (dft w N a).length = N := by simp [dft]
theorem idft_length (w : ℕ → K) (N : ℕ) (a : List K) : (idft w N a).length = N := by simp [idft]

theorem dft_getD (w : ℕ → K) (N : ℕ) (a : List K) (k : ℕ) (hk : k < N) :
    (dft w N a).getD k 0 = ∑ m ∈ range N, a.getD m 0 * w (m * k) := by
  unfold dft
  rw [getD_map_range _ _ _ hk, list_sum_range]

theorem idft_getD (w : ℕ → K) (N : ℕ) (a : List K) (m : ℕ) (hm : m < N) :
    (idft w N a).getD m 0 = (∑ k ∈ range N, a.getD k 0 * w (m * k)) / (N : K) := by
  unfold idft
  rw [getD_map_range _ _ _ hm, list_sum_range]

/-- the forward transform is homogeneous -/
theorem dft_homog (w : ℕ → K) (N : ℕ) (c : K) (v : List K) :
    dft w N (v.map (fun a => c * a)) = (dft w N v).map (fun a => c * a) := by
  apply list_ext_getD
  · simp [dft_length]
  · intro k hk
    rw [dft_length] at hk
    rw [dft_getD _ _ _ _ hk, getD_map_mul, dft_getD _ _ _ _ hk, Finset.mul_sum]
    apply Finset.sum_congr rfl
    intro m _
    rw [getD_map_mul]; ring

/-! ### orthogonality and inversion -/

/-- `Σ_{m<N} ω^{-mj}·ω^{mk} = N·[j = k]` for `j, k < N` -/
theorem orthogonality (ω : K) (N : ℕ) (hω : IsPrimitiveRoot ω N) (j k : ℕ) (hj : j < N) (hk : k < N) :
    ∑ m ∈ range N, ω⁻¹ ^ (m * j) * ω ^ (m * k) = if j = k then (N : K) else 0 := by
  have hN : N ≠ 0 := by omega
  have hω0 : ω ≠ 0 := hω.ne_zero hN
  have hterm : ∀ m, ω⁻¹ ^ (m * j) * ω ^ (m * k) = (ω⁻¹ ^ j * ω ^ k) ^ m := by
    intro m; rw [mul_pow, ← pow_mul', ← pow_mul']
  simp only [hterm]
  by_cases hjk : j = k
  · subst hjk
    rw [if_pos rfl]
    have : ω⁻¹ ^ j * ω ^ j = 1 := by rw [← mul_pow, inv_mul_cancel₀ hω0, one_pow]
    simp only [this, one_pow, Finset.sum_const, Finset.card_range, nsmul_eq_mul, mul_one]
  · rw [if_neg hjk]
    have hne : ω⁻¹ ^ j * ω ^ k ≠ 1 := by
      intro h1
      apply hjk
      apply hω.pow_inj hj hk
      have h2 : ω ^ j * (ω⁻¹ ^ j * ω ^ k) = ω ^ j := by rw [h1, mul_one]
      rw [← mul_assoc, ← mul_pow, mul_inv_cancel₀ hω0, one_pow, one_mul] at h2
      exact h2.symm
    rw [geom_sum_eq hne]
    have : (ω⁻¹ ^ j * ω ^ k) ^ N = 1 := by
      rw [mul_pow, ← pow_mul, ← pow_mul, mul_comm j N, mul_comm k N, pow_mul, pow_mul, inv_pow,
        hω.pow_eq_one]
      simp
    rw [this]; simp

/-- `fft(ifft(v)) = v` for the textbook transforms on vectors of `N` values -/
theorem dft_idft (ω : K) (N : ℕ) (hω : IsPrimitiveRoot ω N) (hN : (N : K) ≠ 0) (v : List K)
    (hv : v.length = N) :
    dft (fun m => ω ^ m) N (idft (fun m => ω⁻¹ ^ m) N v) = v := by
  apply list_ext_getD
  · rw [dft_length, hv]
  · intro k hk
    rw [dft_length] at hk
    rw [dft_getD _ _ _ _ hk]
    have h1 : ∀ m ∈ range N, (idft (fun m => ω⁻¹ ^ m) N v).getD m 0 * ω ^ (m * k)
        = ∑ j ∈ range N, v.getD j 0 * (ω⁻¹ ^ (m * j) * ω ^ (m * k)) / (N : K) := by
      intro m hm
      rw [idft_getD _ _ _ _ (Finset.mem_range.mp hm), Finset.sum_div, Finset.sum_mul]
      apply Finset.sum_congr rfl
      intro j _; ring
    rw [Finset.sum_congr rfl h1, Finset.sum_comm]
    have h2 : ∀ j ∈ range N, ∑ m ∈ range N, v.getD j 0 * (ω⁻¹ ^ (m * j) * ω ^ (m * k)) / (N : K)
        = if j = k then v.getD j 0 else 0 := by
      intro j hj
      rw [← Finset.sum_div, ← Finset.mul_sum, orthogonality ω N hω j k (Finset.mem_range.mp hj) hk]
      split
      · field_simp
      · simp
    rw [Finset.sum_congr rfl h2, Finset.sum_ite_eq' (range N) k (fun j => v.getD j 0)]
    simp [hk]

/-- the textbook transforms satisfy the kernel contract assumed by the round-trip theorem -/
theorem dft_kernelPair (ω : K) (N : ℕ) (hω : IsPrimitiveRoot ω N) (hN : (N : K) ≠ 0) :
    KernelPair N (fun n a => dft (fun m => ω ^ m) n a) (fun n a => idft (fun m => ω⁻¹ ^ m) n a) where
  len_inv := fun v => idft_length _ _ v
  len_fwd := fun v => dft_length _ _ v
  inv := fun v hv => dft_idft ω N hω hN v hv
  homog := fun c v _ => dft_homog _ N c v

/-! ### the shift theorem -/

theorem shift_index (N d n : ℕ) (hd : d ≤ N) (hn : n < N) :
    ((n + N - d) % N + d = n ∨ (n + N - d) % N + d = n + N) ∧ (n + N - d) % N < N := by
  have hN : 0 < N := by omega
  refine ⟨?_, Nat.mod_lt _ hN⟩
  by_cases h : d ≤ n
  · left
    have : n + N - d = (n - d) + N := by omega
    rw [this, Nat.add_mod_right, Nat.mod_eq_of_lt (by omega)]
    omega
  · right
    rw [Nat.mod_eq_of_lt (by omega)]
    omega

/-- circularly delaying a block by `d ≤ N` multiplies its DFT by `ω^{dk}` -/
theorem dft_shift (ω : K) (N : ℕ) (hω : ω ^ N = 1) (f : ℕ → K) (d k : ℕ) (hd : d ≤ N) :
    ∑ n ∈ range N, f ((n + N - d) % N) * ω ^ (n * k)
      = ω ^ (d * k) * ∑ m ∈ range N, f m * ω ^ (m * k) := by
  rw [Finset.mul_sum]
  apply Finset.sum_nbij' (fun n => (n + N - d) % N) (fun m => (m + d) % N)
  · intro n hn
    exact Finset.mem_range.mpr (shift_index N d n hd (Finset.mem_range.mp hn)).2
  · intro m hm
    have := Finset.mem_range.mp hm
    exact Finset.mem_range.mpr (Nat.mod_lt _ (by omega))
  · intro n hn
    have hn' := Finset.mem_range.mp hn
    rcases (shift_index N d n hd hn').1 with h | h
    · rw [h, Nat.mod_eq_of_lt hn']
    · rw [h, Nat.add_mod_right, Nat.mod_eq_of_lt hn']
  · intro m hm
    have hm' := Finset.mem_range.mp hm
    by_cases h : m + d < N
    · rw [Nat.mod_eq_of_lt h]
      have : m + d + N - d = m + N := by omega
      rw [this, Nat.add_mod_right, Nat.mod_eq_of_lt hm']
    · have h1 : (m + d) % N = m + d - N := by
        rw [Nat.mod_eq_sub_mod (by omega), Nat.mod_eq_of_lt (by omega)]
      rw [h1]
      have : m + d - N + N - d = m := by omega
      rw [this, Nat.mod_eq_of_lt hm']
  · intro n hn
    have hn' := Finset.mem_range.mp hn
    rcases (shift_index N d n hd hn').1 with h | h
    · have : ω ^ (d * k) * ω ^ ((n + N - d) % N * k) = ω ^ (n * k) := by
        rw [← pow_add, ← Nat.add_mul, Nat.add_comm, h]
      rw [← this]; ring
    · have : ω ^ (d * k) * ω ^ ((n + N - d) % N * k) = ω ^ (n * k) := by
        rw [← pow_add, ← Nat.add_mul, Nat.add_comm, h, Nat.add_mul, pow_add, pow_mul ω N k,
          hω, one_pow, mul_one]
      rw [← this]; ring

/-- DFT of a sum of circularly delayed, scaled copies of a block = (Σ v·ω^{dk}) · DFT of the block -/
theorem dft_circ (ω : K) (N : ℕ) (hω : ω ^ N = 1) (f : ℕ → K) (tv : List (ℕ × K))
    (hd : ∀ dv ∈ tv, dv.1 ≤ N) (k : ℕ) :
    ∑ n ∈ range N, (tv.map (fun dv => dv.2 * f ((n + N - dv.1) % N))).sum * ω ^ (n * k)
      = (tv.map (fun dv => dv.2 * ω ^ (dv.1 * k))).sum * ∑ m ∈ range N, f m * ω ^ (m * k) := by
  induction tv with
  | nil => simp
  | cons dv t ih =>
    simp only [List.map_cons, List.sum_cons, add_mul, Finset.sum_add_distrib]
    rw [ih (fun e he => hd e (by simp [he]))]
    congr 1
    have := dft_shift ω N hω f dv.1 k (hd dv (by simp))
    calc ∑ n ∈ range N, dv.2 * f ((n + N - dv.1) % N) * ω ^ (n * k)
        = dv.2 * ∑ n ∈ range N, f ((n + N - dv.1) % N) * ω ^ (n * k) := by
          rw [Finset.mul_sum]; apply Finset.sum_congr rfl; intro n _; ring
      _ = dv.2 * ω ^ (dv.1 * k) * ∑ m ∈ range N, f m * ω ^ (m * k) := by rw [this]; ring

end PyPhysim.C02
