import PyPhysim.Proofs.C19Misc
import PyPhysim.Model.C19Users

set_option linter.unusedSectionVars false
set_option linter.unusedTactic false
set_option linter.unreachableTactic false

/-! C19 — every argument of the user-placement entry points has its documented effect. -/
namespace PyPhysim.C19
open PyPhysim.Proto

section field
variable {α : Type} [Field α] [LinearOrder α] [IsStrictOrderedRing α] [Circ α]

/-- what one accepted user satisfies -/
def UserOk (c : CellGeom α) (ratio : α) (p : Pt α) : Prop :=
  c.inside p = true ∧ ¬ (dist c.pos p < ratio * c.radius)

theorem addRandomUser_ok (c : CellGeom α) (ratio : α) (us : List (α × α)) (p : Pt α) (m : ℕ)
    (h : addRandomUser c.inside c.pos c.radius ratio us = some (p, m)) : UserOk c ratio p := by
  obtain ⟨_, _, _, _, hacc, _⟩ := firstAccepted_spec _ _ us 0 p m h
  simp only [acceptable, Bool.and_eq_true, Bool.not_eq_true', decide_eq_false_iff_not] at hacc
  exact hacc

theorem addRandomUsers_spec (c : CellGeom α) (ratio : α) : ∀ (n : ℕ) (us : List (α × α)) (ps : List (Pt α))
    (rest : List (α × α)), addRandomUsers c ratio n us = some (ps, rest) →
    ps.length = n ∧ ∀ p ∈ ps, UserOk c ratio p
  | 0, us, ps, rest, h => by
    simp only [addRandomUsers, Option.some.injEq, Prod.mk.injEq] at h
    obtain ⟨rfl, _⟩ := h
    simp
  | n + 1, us, ps, rest, h => by
    simp only [addRandomUsers] at h
    cases h1 : addRandomUser c.inside c.pos c.radius ratio us with
    | none => rw [h1] at h; cases h
    | some pm =>
      obtain ⟨p, m⟩ := pm
      rw [h1] at h
      simp only at h
      cases h2 : addRandomUsers c ratio n (us.drop m) with
      | none => rw [h2] at h; cases h
      | some pr =>
        obtain ⟨qs, r'⟩ := pr
        rw [h2] at h
        simp only [Option.some.injEq, Prod.mk.injEq] at h
        obtain ⟨rfl, _⟩ := h
        obtain ⟨hl, hq⟩ := addRandomUsers_spec c ratio n (us.drop m) qs r' h2
        refine ⟨by simp [hl], ?_⟩
        intro x hx
        rcases List.mem_cons.mp hx with rfl | hx
        · exact addRandomUser_ok c ratio us _ m h1
        · exact hq x hx

/-- a user placed for request `r` in cell `c` -/
def PlacedOk (cells : List (CellGeom α)) (r : Req α) (u : Placed α) : Prop :=
  ∃ c, cells[r.id - 1]? = some c ∧ 1 ≤ r.id ∧ u.cell = r.id - 1 ∧ u.color = r.color ∧ UserOk c r.ratio u.pos

theorem clusterPlaceOne_spec (cells : List (CellGeom α)) (r : Req α) (us rest : List (α × α))
    (pl : List (Placed α)) (h : clusterPlaceOne cells r us = .ok (some (pl, rest))) :
    pl.length = r.num ∧ ∀ u ∈ pl, PlacedOk cells r u := by
  unfold clusterPlaceOne at h
  by_cases h0 : r.id = 0
  · rw [if_pos h0] at h; cases h
  · rw [if_neg h0] at h
    cases hc : cells[r.id - 1]? with
    | none => rw [hc] at h; cases h
    | some c =>
      rw [hc] at h
      simp only [Except.ok.injEq] at h
      cases ha : addRandomUsers c r.ratio r.num us with
      | none => rw [ha] at h; simp at h
      | some pr =>
        obtain ⟨ps, r'⟩ := pr
        rw [ha] at h
        simp only [Option.map_some, Option.some.injEq, Prod.mk.injEq] at h
        obtain ⟨rfl, _⟩ := h
        obtain ⟨hl, hp⟩ := addRandomUsers_spec c r.ratio r.num us ps r' ha
        refine ⟨by simp [hl], ?_⟩
        intro u hu
        obtain ⟨p, hp', rfl⟩ := List.mem_map.mp hu
        exact ⟨c, hc, by omega, rfl, rfl, hp p hp'⟩

/-- the cluster path is the cell path: for an existing cell the single-cell branch is
    `add_random_users(num, color, ratio)` of that cell, with the request's own arguments -/
theorem clusterPlaceOne_eq_cell_path (cells : List (CellGeom α)) (r : Req α) (c : CellGeom α) (us : List (α × α))
    (h1 : 1 ≤ r.id) (hc : cells[r.id - 1]? = some c) :
    clusterPlaceOne cells r us = .ok ((addRandomUsers c r.ratio r.num us).map (fun pr =>
      (pr.1.map (fun p => { cell := r.id - 1, pos := p, color := r.color }), pr.2))) := by
  unfold clusterPlaceOne
  rw [if_neg (by omega), hc]

theorem clusterPlaceOne_bad_id (cells : List (CellGeom α)) (r : Req α) (us : List (α × α))
    (h : r.id = 0 ∨ cells.length < r.id) : clusterPlaceOne cells r us = .error .IndexError := by
  unfold clusterPlaceOne
  rcases h with h | h
  · rw [if_pos h]
  · by_cases h0 : r.id = 0
    · rw [if_pos h0]
    · rw [if_neg h0, List.getElem?_eq_none (by omega)]

theorem clusterPlace_spec (cells : List (CellGeom α)) : ∀ (reqs : List (Req α)) (us rest : List (α × α))
    (pl : List (Placed α)), clusterPlace cells reqs us = .ok (some (pl, rest)) →
    pl.length = (reqs.map (·.num)).sum ∧ (∀ u ∈ pl, ∃ r ∈ reqs, PlacedOk cells r u) ∧
    ∀ i, (pl.filter (fun u => u.cell = i)).length = ((reqs.filter (fun r => r.id - 1 = i)).map (·.num)).sum
  | [], us, rest, pl, h => by
    simp only [clusterPlace, Except.ok.injEq, Option.some.injEq, Prod.mk.injEq] at h
    obtain ⟨rfl, _⟩ := h
    simp
  | r :: rs, us, rest, pl, h => by
    simp only [clusterPlace] at h
    cases h1 : clusterPlaceOne cells r us with
    | error e => rw [h1] at h; cases h
    | ok o1 =>
      cases o1 with
      | none => rw [h1] at h; cases h
      | some pr =>
        obtain ⟨ps, r1⟩ := pr
        rw [h1] at h
        simp only at h
        cases h2 : clusterPlace cells rs r1 with
        | error e => rw [h2] at h; cases h
        | ok o2 =>
          cases o2 with
          | none => rw [h2] at h; cases h
          | some pr2 =>
            obtain ⟨qs, r2⟩ := pr2
            rw [h2] at h
            simp only [Except.ok.injEq, Option.some.injEq, Prod.mk.injEq] at h
            obtain ⟨rfl, _⟩ := h
            obtain ⟨l1, p1⟩ := clusterPlaceOne_spec cells r us r1 ps h1
            obtain ⟨l2, p2, c2⟩ := clusterPlace_spec cells rs r1 r2 qs h2
            refine ⟨by simp [l1, l2], ?_, ?_⟩
            · intro u hu
              rcases List.mem_append.mp hu with hu | hu
              · exact ⟨r, by simp, p1 u hu⟩
              · obtain ⟨r', hr', hok⟩ := p2 u hu
                exact ⟨r', List.mem_cons_of_mem _ hr', hok⟩
            · intro i
              rw [List.filter_append, List.length_append, c2 i]
              have hps : (ps.filter (fun u => u.cell = i)).length = if r.id - 1 = i then r.num else 0 := by
                by_cases hi : r.id - 1 = i
                · rw [if_pos hi, List.filter_eq_self.mpr, l1]
                  intro u hu
                  obtain ⟨_, _, _, hcell, _⟩ := p1 u hu
                  simp [hcell, hi]
                · rw [if_neg hi, List.filter_eq_nil_iff.mpr]
                  · rfl
                  · intro u hu
                    obtain ⟨_, _, _, hcell, _⟩ := p1 u hu
                    simp [hcell, hi]
              rw [hps]
              by_cases hi : r.id - 1 = i
              · simp [hi]
              · simp [hi]

/-- every request carries the arguments of ITS position in the (scalar or per-cell) argument lists -/
theorem mkReqs_getElem (ids : List ℕ) (nums : Arg ℕ) (colors : Arg (Option String)) (ratios : Arg α) (k : ℕ)
    (r : Req α) (h : (mkReqs ids nums colors ratios)[k]? = some r) :
    ids[k]? = some r.id ∧ (nums.expand ids.length)[k]? = some r.num ∧
    (colors.expand ids.length)[k]? = some r.color ∧ (ratios.expand ids.length)[k]? = some r.ratio := by
  simp only [mkReqs, List.getElem?_map, List.getElem?_zip_eq_some, Option.map_eq_some_iff] at h
  obtain ⟨⟨⟨⟨a, b⟩, c⟩, d⟩, ⟨⟨⟨ha, hb⟩, hc⟩, hd⟩, rfl⟩ := h
  exact ⟨ha, hb, hc, hd⟩

theorem expand_one {β : Type} (x : β) (n k : ℕ) (y : β) (h : ((Arg.one x).expand n)[k]? = some y) : y = x := by
  simp only [Arg.expand] at h
  have := List.mem_of_getElem? h
  exact (List.mem_replicate.mp this).2
end field

end PyPhysim.C19
