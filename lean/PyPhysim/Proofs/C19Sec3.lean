import PyPhysim.Proofs.C19Hex

set_option linter.unusedSectionVars false
set_option linter.unusedTactic false
set_option linter.unreachableTactic false

/-! C19 — the twelve outer vertices of the 3-sector cell (`Cell3Sec._get_vertex_positions`). -/
namespace PyPhysim.C19
open Real

/-- radii `R, R/√3, R, 2R/√3` repeating, at angles `-120° + 30°k` (`E (8+k)`) -/
noncomputable def sec3Explicit (R : ℝ) : List (Pt ℝ) :=
  [smul R (E 8), smul (R / Real.sqrt 3) (E 9), smul R (E 10), smul (2 * R / Real.sqrt 3) (E 11),
   smul R (E 12), smul (R / Real.sqrt 3) (E 13), smul R (E 14), smul (2 * R / Real.sqrt 3) (E 15),
   smul R (E 16), smul (R / Real.sqrt 3) (E 17), smul R (E 18), smul (2 * R / Real.sqrt 3) (E 19)]

theorem sec3Verts_eq (R : ℝ) : sec3Verts R = sec3Explicit R := by
  have h3 := sqrt3_pos
  have hne : Real.sqrt 3 ≠ 0 := ne_of_gt h3
  simp only [sec3Verts, secCentres, secHex, hexVerts_eq, hexExplicit, place, pick, secRadius, Circ.sqrt]
  simp only [show ((30 : ℕ) : ℝ) = ((30 * 1 : ℕ) : ℝ) by norm_num, cisDeg_mul30, sec3Explicit, E_eq]
  simp only [List.map_cons, List.map_nil, List.filterMap_cons, List.filterMap_nil, List.getElem?_cons_zero,
    List.getElem?_cons_succ, List.cons_append, List.nil_append, e30, emb, padd, rot, cmul, smul]
  simp only [List.cons.injEq, Prod.mk.injEq, and_true]
  norm_num
  have d3 : ∀ x : ℝ, x / Real.sqrt 3 = x * Real.sqrt 3 / 3 := by
    intro x; field_simp; rw [sq3]
  have p3 : Real.sqrt 3 ^ 3 = 3 * Real.sqrt 3 := by rw [pow_succ, sq3]
  simp only [d3]
  repeat' constructor
  all_goals (ring_nf; (try simp only [sq3, p3]); (try ring_nf))

theorem E_norm2 (m : ℕ) : norm2 (E m) = 1 := by
  simp only [E, norm2]
  have := Real.cos_sq_add_sin_sq ((m : ℝ) * Real.pi / 6)
  nlinarith [this]

theorem cross_E (m n : ℕ) (h : n = m + 1) : cross (E m) (E n) = 1 / 2 := by
  subst h
  rw [E_succ]
  have := E_norm2 m
  simp only [norm2] at this
  simp only [cross, cmul]
  linear_combination (1 / 2 : ℝ) * this

theorem cross_E_wrap : cross (E 19) (E 8) = 1 / 2 := by
  rw [← E_period 8]
  exact cross_E _ _ rfl

theorem cross_smul (a b : ℝ) (p q : Pt ℝ) : cross (smul a p) (smul b q) = a * b * cross p q := by
  simp only [cross, smul]; ring

theorem sec3_star (R : ℝ) (hR : 0 < R) : StarCCW (sec3Verts R) := by
  rw [sec3Verts_eq]
  intro e he
  have h3 := sqrt3_pos
  simp only [sec3Explicit, cyc, List.cons_append, List.nil_append, adjPairs, List.mem_cons, List.not_mem_nil,
    or_false] at he
  simp only [Nat.cast_zero]
  have c := fun m => cross_E m (m + 1) rfl
  rcases he with rfl | rfl | rfl | rfl | rfl | rfl | rfl | rfl | rfl | rfl | rfl | rfl <;>
    simp only [cross_smul, c 8, c 9, c 10, c 11, c 12, c 13, c 14, c 15, c 16, c 17, c 18, cross_E_wrap] <;>
    positivity

/-- distance of the vertices from the centre -/
theorem sec3_radii (R : ℝ) : (sec3Explicit R).map norm2 =
    [R * R, R * R / 3, R * R, 4 * (R * R) / 3, R * R, R * R / 3, R * R, 4 * (R * R) / 3,
     R * R, R * R / 3, R * R, 4 * (R * R) / 3] := by
  have h3 := sqrt3_pos
  have hne : Real.sqrt 3 ≠ 0 := ne_of_gt h3
  have hs : ∀ (a : ℝ) (m : ℕ), norm2 (smul a (E m)) = a * a := by
    intro a m
    have := E_norm2 m
    simp only [norm2] at this
    simp only [norm2, smul]
    linear_combination (a * a) * this
  simp only [sec3Explicit, List.map_cons, List.map_nil, hs]
  simp only [List.cons.injEq, and_true]
  refine ⟨trivial, ?_, trivial, ?_, trivial, ?_, trivial, ?_, trivial, ?_, trivial, ?_⟩ <;> field_simp <;> rw [sq3] <;> ring

end PyPhysim.C19
