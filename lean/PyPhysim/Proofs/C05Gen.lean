import PyPhysim.Generated.C05Loop
import PyPhysim.Generated.C05Grid
import PyPhysim.Model.C05

/-!
Bridge between the automaton regenerated from the source of
`SimulationRunner._simulate_for_current_params_common` (`Generated/C05Loop.lean`) and the
hand model `runVariation` (`Model/C05.lean`).  Helper lemmas; the property-level statements
are in `Properties/C05.lean`.

The proofs mention the generated constructors only by position (`ask0 k` = waiting for the
FIRST repetition after `k` skips, `ask1 acc skipped rep` = inside the `while` loop with the
guard just found true, `ret`): a source change that alters the shape of the automaton, a
test, an update or the order of the live values makes this file fail to compile.
-/
namespace PyPhysim.C05
open PyPhysim.Generated.C05Loop

variable {R : Type}

/-- reading of a stopped automaton (`Generated.C05Loop.run`) as the model's result of one
    variation: `ret` = normal end, `ask1` with the stream used up = `exhausted`, `ask0` with
    the stream used up = `starved` -/
def genResult : Ctl R × Nat × List (Outcome R) → VarResult R
  | (.ret rep acc skipped _, n, rest) => .done ⟨⟨acc, rep, skipped, n⟩, rest, false⟩
  | (.ask1 acc skipped rep, n, rest) => .done ⟨⟨acc, rep, skipped, n⟩, rest, true⟩
  | (.ask0 k, _, _) => .starved k

/-- the automaton state that corresponds to the head of the model's `while` loop in state `s` -/
def headCtl (repMax : Nat) (keep : Keep R) (s : VarState R) : Ctl R :=
  if guard repMax keep s then .ask1 s.acc s.skipped s.rep
  else .ret s.rep s.acc s.skipped ⟨s.acc, s.skipped, s.rep⟩

theorem gen_entry_loaded (repMax : Nat) (keep : Keep R) (a : R) (n c : Nat) :
    entry repMax keep (some (a, n)) = headCtl repMax keep ⟨a, n, 0, c⟩ := by
  simp only [entry, headCtl, guard]
  by_cases hk : keep a 0 n = true <;> by_cases h : n < repMax <;> simp [hk, h]

theorem gen_entry_fresh (repMax : Nat) (keep : Keep R) :
    entry repMax keep none = .ask0 0 := rfl

theorem gen_onOk_first (merge : R → R → R) (repMax : Nat) (keep : Keep R) (k c : Nat) (r : R) :
    onOk merge repMax keep (.ask0 k) r = headCtl repMax keep ⟨r, 1, k, c⟩ := by
  simp only [onOk, headCtl, guard]
  by_cases hk : keep r k 1 = true <;> by_cases h : 1 < repMax <;> simp [hk, h]

theorem gen_onSkip_first (merge : R → R → R) (repMax : Nat) (keep : Keep R) (k : Nat) :
    onSkip merge repMax keep (.ask0 k) = .ask0 (k + 1) := rfl

theorem gen_onOk_loop (merge : R → R → R) (repMax : Nat) (keep : Keep R) (s : VarState R) (r : R) :
    onOk merge repMax keep (.ask1 s.acc s.skipped s.rep) r = headCtl repMax keep (stepOk merge s r) := by
  simp only [onOk, headCtl, guard, stepOk]
  by_cases hk : keep (merge s.acc r) s.skipped (s.rep + 1) = true <;> by_cases h : s.rep + 1 < repMax <;> simp [hk, h]

theorem gen_onSkip_loop (merge : R → R → R) (repMax : Nat) (keep : Keep R) (s : VarState R) :
    onSkip merge repMax keep (.ask1 s.acc s.skipped s.rep) = headCtl repMax keep (stepSkip s) := by
  simp only [onSkip, headCtl, guard, stepSkip]
  by_cases hk : keep s.acc (s.skipped + 1) s.rep = true <;> by_cases h : s.rep < repMax <;> simp [hk, h]

/-- the automaton started at the loop head is the model's `while` loop -/
theorem gen_run_loop (merge : R → R → R) (repMax : Nat) (keep : Keep R) (outs : List (Outcome R)) :
    ∀ s : VarState R,
      genResult (run merge repMax keep (headCtl repMax keep s) s.calls outs)
        = .done (loop merge repMax keep s outs) := by
  induction outs with
  | nil =>
    intro s
    simp only [run, loop, headCtl]
    cases guard repMax keep s <;> simp [genResult]
  | cons o os ih =>
    intro s
    cases hg : guard repMax keep s
    · simp [run, loop, headCtl, hg, Ctl.isRet, genResult]
    · cases o with
      | ok r =>
        have := ih (stepOk merge s r)
        rw [← gen_onOk_loop] at this
        simpa [run, loop, headCtl, hg, Ctl.isRet, stepOk] using this
      | skip =>
        have := ih (stepSkip s)
        rw [← gen_onSkip_loop merge] at this
        simpa [run, loop, headCtl, hg, Ctl.isRet, stepSkip] using this

/-- the automaton waiting for the first repetition is the model's `firstRun` -/
theorem gen_run_first (merge : R → R → R) (repMax : Nat) (keep : Keep R) (outs : List (Outcome R)) :
    ∀ k : Nat,
      genResult (run merge repMax keep (.ask0 k) k outs) = firstRun merge repMax keep k outs := by
  induction outs with
  | nil => intro k; simp [run, firstRun, genResult]
  | cons o os ih =>
    intro k
    cases o with
    | ok r =>
      have := gen_run_loop merge repMax keep os ⟨r, 1, k, k + 1⟩
      rw [← gen_onOk_first merge] at this
      simpa [run, firstRun, Ctl.isRet] using this
    | skip =>
      simpa [run, firstRun, Ctl.isRet, gen_onSkip_first] using ih (k + 1)

theorem gen_run_variation (merge : R → R → R) (repMax : Nat) (keep : Keep R)
    (start : Option (R × Nat)) (outs : List (Outcome R)) :
    genResult (run merge repMax keep (entry repMax keep start) 0 outs)
      = runVariation merge repMax keep start outs := by
  cases start with
  | none => simpa [runVariation, gen_entry_fresh] using gen_run_first merge repMax keep outs 0
  | some p =>
    obtain ⟨a, n⟩ := p
    have := gen_run_loop merge repMax keep outs ⟨a, n, 0, 0⟩
    rw [← gen_entry_loaded] at this
    simpa [runVariation] using this

/-! ### what the final `save_partial_results` receives -/

/-- at `ret`, the final save got exactly what is returned -/
def SavedIsReturned : Ctl R → Prop
  | .ret rep acc skipped saved => saved = ⟨acc, skipped, rep⟩
  | _ => True

theorem savedIsReturned_head (repMax : Nat) (keep : Keep R) (s : VarState R) :
    SavedIsReturned (headCtl repMax keep s) := by
  unfold headCtl
  cases guard repMax keep s <;> simp [SavedIsReturned]

theorem savedIsReturned_entry (repMax : Nat) (keep : Keep R) (start : Option (R × Nat)) :
    SavedIsReturned (entry repMax keep start) := by
  cases start with
  | none => simp [gen_entry_fresh, SavedIsReturned]
  | some p => rw [gen_entry_loaded repMax keep p.1 p.2 0]; exact savedIsReturned_head ..

theorem savedIsReturned_onOk (merge : R → R → R) (repMax : Nat) (keep : Keep R) (c : Ctl R) (r : R)
    (h : SavedIsReturned c) : SavedIsReturned (onOk merge repMax keep c r) := by
  cases c with
  | ask0 k => rw [gen_onOk_first merge repMax keep k 0]; exact savedIsReturned_head ..
  | ask1 a s n => exact gen_onOk_loop merge repMax keep ⟨a, n, s, 0⟩ r ▸ savedIsReturned_head ..
  | ret => simpa [onOk] using h

theorem savedIsReturned_onSkip (merge : R → R → R) (repMax : Nat) (keep : Keep R) (c : Ctl R)
    (h : SavedIsReturned c) : SavedIsReturned (onSkip merge repMax keep c) := by
  cases c with
  | ask0 k => simp [gen_onSkip_first, SavedIsReturned]
  | ask1 a s n => exact gen_onSkip_loop merge repMax keep ⟨a, n, s, 0⟩ ▸ savedIsReturned_head ..
  | ret => simpa [onSkip] using h

theorem savedIsReturned_run (merge : R → R → R) (repMax : Nat) (keep : Keep R) (outs : List (Outcome R)) :
    ∀ (c : Ctl R) (n : Nat), SavedIsReturned c → SavedIsReturned (run merge repMax keep c n outs).1 := by
  induction outs with
  | nil => intro c n h; simpa [run] using h
  | cons o os ih =>
    intro c n h
    unfold run
    split
    · exact h
    · cases o with
      | ok r => exact ih _ _ (savedIsReturned_onOk merge repMax keep c r h)
      | skip => exact ih _ _ (savedIsReturned_onSkip merge repMax keep c h)

end PyPhysim.C05

/-! ### `Generated/C05Grid.lean`: which combination is which -/
namespace PyPhysim.C05
open PyPhysim.Generated.C05Grid

variable {V : Type}

theorem gen_unpackedValues (ps : List (Param V)) : unpackedValues ps = combos ps := by
  unfold unpackedValues combos
  split
  · rename_i h
    have : ps = [] := by simpa using h
    subst this
    simp [sortParams, product]
  · rfl

theorem gen_variation (ps : List (Param V)) (i : Nat) :
    variation ps i = ((combos ps)[i]?).map (fun c => (((sortParams ps).map (·.1)).zip c, i)) := by
  simp [variation, gen_unpackedValues, unpackedNames]

theorem foldl_mul_eq (ls : List Nat) : ∀ a : Nat, ls.foldl (· * ·) a = a * prod ls := by
  induction ls with
  | nil => intro a; simp [prod]
  | cons l ls ih => intro a; simp [prod, ih, Nat.mul_assoc]

theorem prod_perm {l₁ l₂ : List Nat} (p : l₁.Perm l₂) : prod l₁ = prod l₂ := by
  have h := p.foldl_eq' (f := (· * ·)) (fun x _ y _ z => Nat.mul_right_comm z x y) 1
  simpa [foldl_mul_eq] using h

theorem gen_numVariations (lens : List Nat) : numVariations lens = prod lens := by
  cases lens with
  | nil => simp [numVariations, prod]
  | cons l ls => simp [numVariations, prod, foldl_mul_eq]

end PyPhysim.C05
