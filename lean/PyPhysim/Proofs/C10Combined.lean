import PyPhysim.Proofs.C10AltMin
import PyPhysim.Proofs.C10KyFan

/-!
The descent theorems with the eigenvector kernels replaced by their certificate
contract (`IsLeast` / `IsDominant`): no minimiser hypothesis is left, only
"the kernel returned extreme eigenpairs with orthonormal vectors".
-/
set_option linter.unusedSectionVars false
set_option linter.unusedVariables false
set_option linter.unusedSimpArgs false
namespace PyPhysim.C10
open Matrix
open scoped ComplexOrder

/-- contract of `leig(Q, s)[0]` : `s` orthonormal eigenvectors of `Q` whose eigenvalues `dd` lie
    below the rest of the spectrum (`Q − V diag(dd) Vᴴ − μ (1 − V Vᴴ) ⪰ 0` for a `μ ≥ dd`) -/
def IsLeast {n s : Nat} (Q : Matrix (Fin n) (Fin n) ℂ) (V : Matrix (Fin n) (Fin s) ℂ) : Prop :=
  Vᴴ * V = 1 ∧ ∃ (dd : Fin s → ℝ) (μ : ℝ),
    Q * V = V * diagonal (fun i => (dd i : ℂ)) ∧ (∀ i, dd i ≤ μ) ∧
    (Q - V * diagonal (fun i => (dd i : ℂ)) * Vᴴ - (μ : ℂ) • (1 - V * Vᴴ)).PosSemidef

/-- contract of `peig(Q, s)[0]` : the `s` dominant eigenvectors (= least eigenvectors of `−Q`) -/
def IsDominant {n s : Nat} (Q : Matrix (Fin n) (Fin n) ℂ) (V : Matrix (Fin n) (Fin s) ℂ) : Prop :=
  IsLeast (-Q) V

theorem IsLeast.le {n s : Nat} {Q : Matrix (Fin n) (Fin n) ℂ} {V : Matrix (Fin n) (Fin s) ℂ}
    (h : IsLeast Q V) (U : Matrix (Fin n) (Fin s) ℂ) (hU : Uᴴ * U = 1) (c : ℝ) :
    (Matrix.trace (((c : ℂ) • V)ᴴ * Q * ((c : ℂ) • V))).re
      ≤ (Matrix.trace (((c : ℂ) • U)ᴴ * Q * ((c : ℂ) • U))).re := by
  obtain ⟨hV, dd, μ, hQV, hμ, hR⟩ := h
  exact kyfan_min_scaled Q V dd μ hV hQV hμ hR U hU c

theorem IsDominant.ge {n s : Nat} {Q : Matrix (Fin n) (Fin n) ℂ} {V : Matrix (Fin n) (Fin s) ℂ}
    (h : IsDominant Q V) (U : Matrix (Fin n) (Fin s) ℂ) (hU : Uᴴ * U = 1) :
    (Matrix.trace (Uᴴ * Q * U)).re ≤ (Matrix.trace (Vᴴ * Q * V)).re := by
  have := IsLeast.le h U hU 1
  simp only [Complex.ofReal_one, one_smul, Matrix.mul_neg, Matrix.neg_mul, Matrix.trace_neg,
    Complex.neg_re] at this
  linarith

variable {K : Nat} {d : Dims K}

/-- Clause "for equal powers without noise, an iteration of the minimum-leakage solver never
    increases the total leaked interference power".  `F, W` is the current iterate (scaled
    orthonormal families `c_k U_k`, `c'_k Uw_k`: what every earlier iteration produced),
    `F' = c V` with `V` the result of `leig` on the reverse covariance of `W`, `W' = c' Vw` with `Vw`
    the result of `leig` on the direct covariance of `F'`; `get_cost()` after the iteration is at
    most `get_cost()` before. -/
theorem minleak_iteration_le (H : Chan ℂ d) (F F' : Prec ℂ d) (W W' : Filt ℂ d) (p : ℝ) (hp : 0 ≤ p)
    (c c' : Fin K → ℝ)
    (Uf Vf : (k : Fin K) → Mat ℂ (d.nt k) (d.ns k)) (Uw Vw : (k : Fin K) → Mat ℂ (d.nr k) (d.ns k))
    (hF : ∀ k, toM (F k) = (c k : ℂ) • toM (Uf k)) (hUf : ∀ k, (toM (Uf k))ᴴ * toM (Uf k) = 1)
    (hW : ∀ k, toM (W k) = (c' k : ℂ) • toM (Uw k)) (hUw : ∀ k, (toM (Uw k))ᴴ * toM (Uw k) = 1)
    (hF' : ∀ k, toM (F' k) = (c k : ℂ) • toM (Vf k))
    (hVf : ∀ k, IsLeast (toM (calcQrev H W (fun _ => (p : ℂ)) k)) (toM (Vf k)))
    (hW' : ∀ k, toM (W' k) = (c' k : ℂ) • toM (Vw k))
    (hVw : ∀ k, IsLeast (toM (calcQ H (fullF F' (fun _ => (p : ℂ))) k)) (toM (Vw k))) :
    (minLeakCost H (fullF F' (fun _ => (p : ℂ))) none W').re
      ≤ (minLeakCost H (fullF F (fun _ => (p : ℂ))) none W).re := by
  rw [minLeakCost_eq, minLeakCost_eq]
  refine minleak_step_le H F F' W W' p hp (fun k => ?_) (fun k => ?_)
  · rw [hF' k, hF k]; exact (hVf k).le _ (hUf k) (c k)
  · rw [hW' k, hW k]; exact (hVw k).le _ (hUw k) (c' k)

/-- The same clause for alternating minimisation (`_updateF` with `leig`, then `_updateC` with
    `peig`), for every vector of non-negative powers. -/
theorem altmin_iteration_le (H : Chan ℂ d) (F F' : Prec ℂ d) (C C' : Basis ℂ d) (P : Fin K → ℝ)
    (hP : ∀ l, 0 ≤ P l) (c : Fin K → ℝ)
    (Uf Vf : (k : Fin K) → Mat ℂ (d.nt k) (d.ns k))
    (hF : ∀ k, toM (F k) = (c k : ℂ) • toM (Uf k)) (hUf : ∀ k, (toM (Uf k))ᴴ * toM (Uf k) = 1)
    (hC : ∀ k, (toM (C k))ᴴ * toM (C k) = 1)
    (hF' : ∀ k, toM (F' k) = (c k : ℂ) • toM (Vf k))
    (hVf : ∀ k, IsLeast (toM (altMinFMat H C k)) (toM (Vf k)))
    (hC' : ∀ k, IsDominant (toM (calcQ H (fullF F' (fun l => (P l : ℂ))) k)) (toM (C' k))) :
    (altMinCost H (fullF F' (fun l => (P l : ℂ))) C').re
      ≤ (altMinCost H (fullF F (fun l => (P l : ℂ))) C).re := by
  refine altmin_step_le H F F' C C' P hP hC (fun k => (hC' k).1) (fun l => ?_) (fun k => ?_)
  · rw [hF' l, hF l]; exact (hVf l).le _ (hUf l) (c l)
  · exact (hC' k).ge _ (hC k)

end PyPhysim.C10
