import Mathlib.Tactic.Ring
import Mathlib.Tactic.FieldSimp
import Mathlib.Algebra.Order.Field.Rat
import PyPhysim.Proofs.C06

/-! C06: what the accumulated attributes *are* (first-principles sums), the
variance identity, and the closed form of MISC results. -/
namespace PyPhysim.C06M
open PyPhysim.Proto

/-- total of an observation (`0` when not given; only used under `validObs`) -/
def totalOf (o : Obs) : Rat := match o.t with | some t => t | none => 0
/-- the ratio `value / total` of an observation -/
def ratioOf (o : Obs) : Rat := o.v / totalOf o

/-! ### SUM -/

theorem foldUpd_sum (r : Res) (hty : r.ty = .sum) (xs : List Obs) :
    foldUpd r xs =
      { r with value := r.value + (xs.map (·.v)).sum,
               rsum := r.rsum + (xs.map (·.v)).sum,
               rsq := r.rsq + (xs.map (fun o => o.v * o.v)).sum,
               n := r.n + xs.length,
               vlist := if r.acc then r.vlist ++ xs.map (·.v) else r.vlist } := by
  induction xs generalizing r with
  | nil => cases r; simp [foldUpd]
  | cons o xs ih =>
    rw [foldUpd_cons, ih _ (by rw [update_ty]; exact hty)]
    cases hacc : r.acc <;>
      simp [update, hty, hacc, List.sum_cons, Rat.add_assoc, Nat.add_assoc, Nat.add_comm 1]

/-! ### RATIO -/

theorem foldUpd_ratio (r : Res) (hty : r.ty = .ratio) (xs : List Obs)
    (hv : ∀ o ∈ xs, ∃ t, o.t = some t ∧ t ≠ 0) :
    foldUpd r xs =
      { r with value := r.value + (xs.map (·.v)).sum,
               total := r.total + (xs.map totalOf).sum,
               rsum := r.rsum + (xs.map ratioOf).sum,
               rsq := r.rsq + (xs.map (fun o => ratioOf o * ratioOf o)).sum,
               n := r.n + xs.length,
               vlist := if r.acc then r.vlist ++ xs.map (·.v) else r.vlist,
               tlist := if r.acc then r.tlist ++ xs.map totalOf else r.tlist } := by
  induction xs generalizing r with
  | nil => cases r; simp [foldUpd]
  | cons o xs ih =>
    obtain ⟨t, ht, h0⟩ := hv o (by simp)
    rw [foldUpd_cons, ih _ (by rw [update_ty]; exact hty) (fun o' ho' => hv o' (by simp [ho']))]
    cases hacc : r.acc <;>
      simp [update, hty, hacc, ht, h0, ratioOf, totalOf, List.sum_cons, Rat.add_assoc, Nat.add_assoc,
        Nat.add_comm 1]

/-! ### CHOICE -/

/-- how many observations selected choice `i` (numpy index normalisation included) -/
def hits (k : Nat) (xs : List Obs) (i : Nat) : Nat :=
  (xs.filter (fun o => pyIndex k o.v.num == some i)).length

theorem incr_getElem? (l : List Nat) (j i : Nat) :
    (incr l j)[i]? = (l[i]?).map (fun x => if i = j then x + 1 else x) := by
  induction l generalizing j i with
  | nil => simp [incr]
  | cons x xs ih =>
    cases j with
    | zero => cases i <;> simp [incr]
    | succ j =>
      cases i with
      | zero => simp [incr]
      | succ i => simp [incr, ih]

theorem foldUpd_choice_counts (r : Res) (hty : r.ty = .choice) (xs : List Obs)
    (hv : ∀ o ∈ xs, validObs r o) (i : Nat) :
    (foldUpd r xs).counts[i]? = (r.counts[i]?).map (· + hits r.counts.length xs i) := by
  induction xs generalizing r with
  | nil => simp [foldUpd, hits]
  | cons o xs ih =>
    have hvo := hv o (by simp)
    unfold validObs at hvo
    rw [hty] at hvo
    obtain ⟨hd, hi⟩ := hvo
    obtain ⟨j, hj⟩ := Option.isSome_iff_exists.mp hi
    have hv' : ∀ o' ∈ xs, validObs (update r o).1 o' := fun o' ho' =>
      (validObs_congr o' (update_ty r o) (update_counts_length r o)).mpr (hv o' (by simp [ho']))
    rw [foldUpd_cons, ih _ (by rw [update_ty]; exact hty) hv', update_counts_length]
    have hc : (update r o).1.counts = incr r.counts j := by
      simp [update, hty, hd, hj]
    rw [hc, incr_getElem?]
    cases hri : r.counts[i]? with
    | none => simp
    | some x =>
      simp only [Option.map_some, hits, List.filter_cons, hj]
      by_cases hij : i = j
      · subst hij; simp; omega
      · have : (some j == some i) = false := by simp; omega
        simp [hij, this]

theorem foldUpd_choice_rest (r : Res) (hty : r.ty = .choice) (xs : List Obs)
    (hv : ∀ o ∈ xs, validObs r o) :
    (foldUpd r xs).total = r.total + (xs.length : Rat) ∧ (foldUpd r xs).rsum = r.rsum
      ∧ (foldUpd r xs).rsq = r.rsq ∧ (foldUpd r xs).value = r.value
      ∧ (foldUpd r xs).vlist = (if r.acc then r.vlist ++ xs.map (·.v) else r.vlist)
      ∧ (foldUpd r xs).tlist = r.tlist := by
  induction xs generalizing r with
  | nil => simp [foldUpd]
  | cons o xs ih =>
    have hvo := hv o (by simp)
    unfold validObs at hvo
    rw [hty] at hvo
    obtain ⟨hd, hi⟩ := hvo
    obtain ⟨j, hj⟩ := Option.isSome_iff_exists.mp hi
    have hv' : ∀ o' ∈ xs, validObs (update r o).1 o' := fun o' ho' =>
      (validObs_congr o' (update_ty r o) (update_counts_length r o)).mpr (hv o' (by simp [ho']))
    have := ih _ (by rw [update_ty]; exact hty) hv'
    rw [foldUpd_cons]
    obtain ⟨h1, h2, h3, h4, h5, h6⟩ := this
    refine ⟨?_, ?_, ?_, ?_, ?_, ?_⟩
    · rw [h1]; simp [update, hty, hd, hj]; ring
    · rw [h2]; simp [update, hty, hd, hj]
    · rw [h3]; simp [update, hty, hd, hj]
    · rw [h4]; simp [update, hty, hd, hj]
    · rw [h5]; cases hacc : r.acc <;> simp [update, hty, hd, hj, hacc]
    · rw [h6]; simp [update, hty, hd, hj]

/-! ### variance -/

theorem sum_sq_dev (l : List Rat) (m : Rat) :
    (l.map (fun x => (x - m) * (x - m))).sum
      = (l.map (fun x => x * x)).sum - 2 * m * l.sum + (l.length : Rat) * (m * m) := by
  induction l with
  | nil => simp
  | cons x xs ih => simp only [List.map_cons, List.sum_cons, List.length_cons, ih]; push_cast; ring

/-- `E[x²] − (E[x])²` is the population variance `E[(x − E[x])²]` -/
theorem var_identity (l : List Rat) (hl : l ≠ []) :
    (l.map (fun x => x * x)).sum / (l.length : Rat) - (l.sum / (l.length : Rat)) * (l.sum / (l.length : Rat))
      = (l.map (fun x => (x - l.sum / (l.length : Rat)) * (x - l.sum / (l.length : Rat)))).sum
          / (l.length : Rat) := by
  have hn : (l.length : Rat) ≠ 0 := by
    have : l.length ≠ 0 := by simpa using hl
    exact_mod_cast this
  rw [sum_sq_dev]
  field_simp
  ring

/-! ### MISC -/

/-- value after the script: the last observation (`d` if there is none) -/
def lastV (d : Rat) : List Obs → Rat
  | [] => d
  | o :: xs => lastV o.v xs

theorem lastV_eq_getLast (d : Rat) (xs : List Obs) (h : xs ≠ []) : lastV d xs = (xs.getLast h).v := by
  induction xs generalizing d with
  | nil => exact absurd rfl h
  | cons o xs ih =>
    cases xs with
    | nil => rfl
    | cons o' xs' => simp only [lastV]; rw [List.getLast_cons (by simp)]; exact ih o.v (by simp)

theorem foldUpd_misc (r : Res) (hty : r.ty = .misc) (xs : List Obs) :
    foldUpd r xs =
      { r with value := lastV r.value xs, n := r.n + xs.length,
               vlist := if r.acc then r.vlist ++ xs.map (·.v) else r.vlist } := by
  induction xs generalizing r with
  | nil => cases r; simp [foldUpd, lastV]
  | cons o xs ih =>
    rw [foldUpd_cons, ih _ (by rw [update_ty]; exact hty)]
    cases hacc : r.acc <;> simp [update, hty, hacc, lastV, Nat.add_assoc, Nat.add_comm 1]

def MTree.last {α} : MTree α → α
  | .leaf x => x
  | .node _ r => r.last

/-- MISC: the merged object carries the statistics of the *last chunk* and, when values are
    accumulated, the whole value list -/
theorem evalTree_misc (nm : String) (acc : Bool) (k : Nat) (t : MTree (List Obs)) :
    evalTree (fresh nm .misc acc k) t =
      .ok { fresh nm .misc acc k with
              value := lastV 0 t.last, n := t.last.length,
              vlist := if acc then t.flatten.map (·.v) else [] } := by
  induction t with
  | leaf xs =>
    have hv : ∀ o ∈ xs, validObs (fresh nm .misc acc k) o := fun o _ => by simp [validObs, fresh]
    rw [evalTree, foldUpdM_ok hv, foldUpd_misc _ (by simp [fresh])]
    cases acc <;> simp [fresh, MTree.last, MTree.flatten]
  | node l r ihl ihr =>
    simp only [evalTree, ihl, ihr, bind, Except.bind]
    cases acc <;> simp [mergeM, merge, mergeGuard, extendLists, fresh, MTree.last, MTree.flatten]

end PyPhysim.C06M
