import PyPhysim.Proofs.C20Proj

/-!
`get_principal_component_matrix`: the model equals the first `k` columns of the
truncated SVD `U Σ_k Vᴴ`.
-/
set_option linter.unusedSectionVars false
namespace PyPhysim.LinAlg.Pf
open Matrix

variable {K : Type} [CommRing K] {m c : Nat}

/-- the inner product `newS · V_H[:p, :k]` of the model, entry `(a, j)` -/
theorem gpcm_inner (S : Fin (min m c) → K) (VH : Mat K c c) (k : Nat) (hk : k ≤ c)
    (a : Fin m) (j : Fin k) :
    (∑ b : Fin (min m c), (if a.val = b.val ∧ a.val < k then S b else 0) *
        VH ⟨b.val, Nat.lt_of_lt_of_le b.isLt (Nat.min_le_right m c)⟩ ⟨j.val, Nat.lt_of_lt_of_le j.isLt hk⟩)
      = if h : a.val < min m c then
          (if a.val < k then S ⟨a.val, h⟩ else 0) *
            VH ⟨a.val, Nat.lt_of_lt_of_le h (Nat.min_le_right m c)⟩ ⟨j.val, Nat.lt_of_lt_of_le j.isLt hk⟩
        else 0 := by
  by_cases h : a.val < min m c
  · rw [dif_pos h, Finset.sum_eq_single (⟨a.val, h⟩ : Fin (min m c))]
    · by_cases hak : a.val < k <;> simp [hak]
    · intro b _ hb
      have : a.val ≠ b.val := fun e => hb (Fin.ext e.symm)
      simp [this]
    · intro hx; exact absurd (Finset.mem_univ _) hx
  · rw [dif_neg h]
    refine Finset.sum_eq_zero (fun b _ => ?_)
    have : a.val ≠ b.val := fun e => h (e ▸ b.isLt)
    simp [this]

/-- entry `(a, j)` of `Σ_k · Vᴴ` where `Σ_k` keeps the first `k` singular values -/
theorem trunc_inner (S : Fin (min m c) → K) (VH : Mat K c c) (k : Nat)
    (a : Fin m) (j : Fin c) :
    (∑ b : Fin c, sigmaMat (m := m) (fun b => if b.val < k then S b else 0) a b * VH b j)
      = if h : a.val < min m c then
          (if a.val < k then S ⟨a.val, h⟩ else 0) *
            VH ⟨a.val, Nat.lt_of_lt_of_le h (Nat.min_le_right m c)⟩ j
        else 0 := by
  by_cases h : a.val < min m c
  · have hc : a.val < c := Nat.lt_of_lt_of_le h (Nat.min_le_right m c)
    rw [dif_pos h, Finset.sum_eq_single (⟨a.val, hc⟩ : Fin c)]
    · simp [sigmaMat]
    · intro b _ hb
      have : a.val ≠ b.val := fun e => hb (Fin.ext e.symm)
      simp [sigmaMat, this]
    · intro hx; exact absurd (Finset.mem_univ _) hx
  · rw [dif_neg h]
    refine Finset.sum_eq_zero (fun b _ => ?_)
    have : a.val ≠ b.val := fun e => h (Nat.lt_min.mpr ⟨a.isLt, e ▸ b.isLt⟩)
    simp [sigmaMat, this]

/-- `get_principal_component_matrix` = first `k` columns of `U Σ_k Vᴴ` -/
theorem gpcm_eq_trunc (U : Mat K m m) (S : Fin (min m c) → K) (VH : Mat K c c) (k : Nat) (hk : k ≤ c)
    (i : Fin m) (j : Fin k) :
    gpcm U S VH k hk i j
      = matMul U (matMul (sigmaMat (m := m) (fun b => if b.val < k then S b else 0)) VH) i
          ⟨j.val, Nat.lt_of_lt_of_le j.isLt hk⟩ := by
  simp only [gpcm, matMul, sumFin_eq]
  refine Finset.sum_congr rfl (fun a _ => ?_)
  rw [gpcm_inner S VH k hk a j, trunc_inner S VH k a]

/-- keeping all `c` components reproduces `U Σ Vᴴ` -/
theorem gpcm_all (U : Mat K m m) (S : Fin (min m c) → K) (VH : Mat K c c) (i : Fin m) (j : Fin c) :
    gpcm U S VH c (Nat.le_refl c) i j = matMul U (matMul (sigmaMat (m := m) S) VH) i j := by
  rw [gpcm_eq_trunc]
  have : (fun b : Fin (min m c) => if b.val < c then S b else 0) = S := by
    funext b
    have : b.val < c := Nat.lt_of_lt_of_le b.isLt (Nat.min_le_right m c)
    simp [this]
  rw [this]

/-- dead dimensions are removed: the component of the result along the left singular
    vector `u_r` vanishes for every `r ≥ k` (`U` has orthonormal columns) -/
theorem gpcm_dead [StarRing K] (U : Mat K m m) (S : Fin (min m c) → K) (VH : Mat K c c) (k : Nat) (hk : k ≤ c)
    (hU : matMul (cT U) U = eye) (r : Fin m) (j : Fin k) (hr : k ≤ r.val) :
    matMul (cT U) (gpcm U S VH k hk) r j = 0 := by
  have e : matMul (cT U) (gpcm U S VH k hk)
      = matMul (fun (a : Fin m) (b : Fin (min m c)) => if a.val = b.val ∧ a.val < k then S b else 0)
          (fun (b : Fin (min m c)) (j : Fin k) =>
            VH ⟨b.val, Nat.lt_of_lt_of_le b.isLt (Nat.min_le_right m c)⟩
               ⟨j.val, Nat.lt_of_lt_of_le j.isLt hk⟩) := by
    to_matrix at hU
    apply toM_inj
    unfold gpcm
    rw [toM_matMul, toM_matMul, toM_cT, ← Matrix.mul_assoc, hU, Matrix.one_mul]
  rw [e]
  simp only [matMul, sumFin_eq]
  rw [gpcm_inner S VH k hk r j]
  have : ¬ r.val < k := Nat.not_lt.mpr hr
  simp [this]

end PyPhysim.LinAlg.Pf
