import Mathlib.LinearAlgebra.Matrix.PosDef
import Mathlib.Analysis.Complex.Order
import PyPhysim.Proofs.C11Spec

/-!
The interference covariance matrices `calc_Q` / `calc_JP_Q` report: sum of the
interfering links' covariances (+ external interference + noise), Hermitian,
positive semidefinite.
-/
set_option linter.unusedSectionVars false
namespace PyPhysim.Sinr.Pf
open Matrix PyPhysim.Sinr PyPhysim.Sinr.Spec
open scoped ComplexOrder

variable {K n t s e : Nat} {T S : Fin K → Nat}

theorem toM_qImpl (G : (j : Fin K) → Mat ℂ n (T j)) (V : (j : Fin K) → Mat ℂ (T j) (S j)) (k : Fin K) :
    toM (qImpl G V k) = ∑ j ∈ Finset.univ.erase k, linkCov (G j) (V j) := by
  simp only [qImpl, toM_sumMat]
  have h : ∀ j : Fin K, toM (if j = k then (zeroM : Mat ℂ n n) else covTermS (G j) (V j)) =
      if j = k then 0 else linkCov (G j) (V j) := by
    intro j
    split <;> simp only [toM_zeroM, toM_covTermS, linkCov]
  simp only [h]
  rw [← Finset.sum_erase (Finset.univ) (a := k) (by simp)]
  refine Finset.sum_congr rfl (fun j hj => ?_)
  rw [if_neg (Finset.ne_of_mem_erase hj)]

theorem toM_chQ (G : (j : Fin K) → Mat ℂ n (T j)) (V : (j : Fin K) → Mat ℂ (T j) (S j)) (k : Fin K)
    (noise : Option ℝ) :
    toM (chQ G V k noise) =
      ∑ j ∈ Finset.univ.erase k, linkCov (G j) (V j) + ((noiseVar noise : ℝ) : ℂ) • (1 : Matrix (Fin n) (Fin n) ℂ) := by
  cases noise with
  | none => simp only [chQ, toM_qImpl, noiseVar, Complex.ofReal_zero, zero_smul, add_zero]
  | some v => simp only [chQ, toM_madd, toM_qImpl, toM_noiseCov, noiseVar]

theorem toM_extRek (He : Mat ℂ n e) (pe : ℝ) (noise : Option ℝ) :
    toM (extRek He pe noise) =
      (pe : ℂ) • (toM He * (toM He)ᴴ) + ((noiseVar noise : ℝ) : ℂ) • (1 : Matrix (Fin n) (Fin n) ℂ) := by
  cases noise with
  | none => simp only [extRek, toM_extCov, noiseVar, Complex.ofReal_zero, zero_smul, add_zero]
  | some v => simp only [extRek, toM_madd, toM_extCov, toM_noiseCov, noiseVar]

theorem toM_extQ (G : (j : Fin K) → Mat ℂ n (T j)) (V : (j : Fin K) → Mat ℂ (T j) (S j)) (k : Fin K)
    (He : Mat ℂ n e) (pe : ℝ) (noise : Option ℝ) :
    toM (extQ G V k He pe noise) =
      ∑ j ∈ Finset.univ.erase k, linkCov (G j) (V j) + (pe : ℂ) • (toM He * (toM He)ᴴ) +
        ((noiseVar noise : ℝ) : ℂ) • (1 : Matrix (Fin n) (Fin n) ℂ) := by
  simp only [extQ, toM_madd, toM_qImpl, toM_extRek, add_assoc]

theorem linkCov_psd (H : Mat ℂ n t) (F : Mat ℂ t s) : (linkCov H F).PosSemidef :=
  posSemidef_self_mul_conjTranspose _

theorem real_smul_psd {c : ℝ} (hc : 0 ≤ c) {M : Matrix (Fin n) (Fin n) ℂ} (hM : M.PosSemidef) :
    ((c : ℂ) • M).PosSemidef :=
  hM.smul (Complex.zero_le_real.mpr hc)

theorem sumLinks_psd (G : (j : Fin K) → Mat ℂ n (T j)) (V : (j : Fin K) → Mat ℂ (T j) (S j)) (k : Fin K) :
    (∑ j ∈ Finset.univ.erase k, linkCov (G j) (V j)).PosSemidef :=
  posSemidef_sum _ (fun j _ => linkCov_psd (G j) (V j))

theorem chQ_psd (G : (j : Fin K) → Mat ℂ n (T j)) (V : (j : Fin K) → Mat ℂ (T j) (S j)) (k : Fin K)
    (noise : Option ℝ) (hσ : 0 ≤ noiseVar noise) : (toM (chQ G V k noise)).PosSemidef := by
  rw [toM_chQ]
  exact (sumLinks_psd G V k).add (real_smul_psd hσ PosSemidef.one)

theorem extQ_psd (G : (j : Fin K) → Mat ℂ n (T j)) (V : (j : Fin K) → Mat ℂ (T j) (S j)) (k : Fin K)
    (He : Mat ℂ n e) (pe : ℝ) (noise : Option ℝ) (hpe : 0 ≤ pe) (hσ : 0 ≤ noiseVar noise) :
    (toM (extQ G V k He pe noise)).PosSemidef := by
  rw [toM_extQ]
  exact ((sumLinks_psd G V k).add (real_smul_psd hpe (posSemidef_self_mul_conjTranspose _))).add
    (real_smul_psd hσ PosSemidef.one)

/-- Hermitian without any sign condition on the noise variance / external power -/
theorem sumLinks_herm (G : (j : Fin K) → Mat ℂ n (T j)) (V : (j : Fin K) → Mat ℂ (T j) (S j)) (k : Fin K) :
    (∑ j ∈ Finset.univ.erase k, linkCov (G j) (V j))ᴴ = ∑ j ∈ Finset.univ.erase k, linkCov (G j) (V j) :=
  (sumLinks_psd G V k).isHermitian

theorem real_smul_herm (c : ℝ) {M : Matrix (Fin n) (Fin n) ℂ} (hM : Mᴴ = M) : ((c : ℂ) • M)ᴴ = (c : ℂ) • M := by
  rw [conjTranspose_smul, hM, Complex.star_def, Complex.conj_ofReal]

theorem chQ_herm (G : (j : Fin K) → Mat ℂ n (T j)) (V : (j : Fin K) → Mat ℂ (T j) (S j)) (k : Fin K)
    (noise : Option ℝ) : (toM (chQ G V k noise))ᴴ = toM (chQ G V k noise) := by
  rw [toM_chQ, conjTranspose_add, sumLinks_herm, real_smul_herm _ conjTranspose_one]

theorem extQ_herm (G : (j : Fin K) → Mat ℂ n (T j)) (V : (j : Fin K) → Mat ℂ (T j) (S j)) (k : Fin K)
    (He : Mat ℂ n e) (pe : ℝ) (noise : Option ℝ) :
    (toM (extQ G V k He pe noise))ᴴ = toM (extQ G V k He pe noise) := by
  rw [toM_extQ, conjTranspose_add, conjTranspose_add, sumLinks_herm, real_smul_herm _ conjTranspose_one,
    real_smul_herm _ (by rw [conjTranspose_mul, conjTranspose_conjTranspose])]

/-- Hermitian at the level of the model's own operations -/
theorem cT_eq_of_herm {Q : Mat ℂ n n} (h : (toM Q)ᴴ = toM Q) : cT Q = Q :=
  toM_inj (by rw [toM_cT, h])

end PyPhysim.Sinr.Pf
