import Mathlib.Data.Matrix.Mul
import Mathlib.Algebra.BigOperators.Fin
import Mathlib.LinearAlgebra.Matrix.ConjTranspose
import Mathlib.Analysis.Real.Sqrt
import Mathlib.Analysis.SpecialFunctions.Complex.Arg
import PyPhysim.Model.C04

/-!
Bridge between the core-only C04 model (`Fin`-indexed functions, own `sumFin`,
class `CScalar`) and Mathlib: the instance of `CScalar` at `ℂ`, and
`Matrix.of` of every model operation is the corresponding Mathlib operation.
-/
set_option linter.unusedSectionVars false
namespace PyPhysim.C04
open Matrix

/-- the model's scalar operations at `ℂ`: conjugation, real square root of the real
    part, modulus, argument, complex exponential, imaginary unit, sign tests of the
    real part -/
noncomputable instance instCScalarComplex : CScalar ℂ where
  conj := star
  sqrt z := ((Real.sqrt z.re : ℝ) : ℂ)
  abs z := ((‖z‖ : ℝ) : ℂ)
  angle z := ((Complex.arg z : ℝ) : ℂ)
  exp := Complex.exp
  I := Complex.I
  posB z := decide (0 < z.re)
  nonnegB z := decide (0 ≤ z.re)

theorem conj_def (z : ℂ) : (CScalar.conj z : ℂ) = star z := rfl
theorem sqrt_def (z : ℂ) : (CScalar.sqrt z : ℂ) = ((Real.sqrt z.re : ℝ) : ℂ) := rfl
theorem abs_def (z : ℂ) : (CScalar.abs z : ℂ) = ((‖z‖ : ℝ) : ℂ) := rfl
theorem angle_def (z : ℂ) : (CScalar.angle z : ℂ) = ((Complex.arg z : ℝ) : ℂ) := rfl
theorem exp_def (z : ℂ) : (CScalar.exp z : ℂ) = Complex.exp z := rfl
theorem I_def : (CScalar.I : ℂ) = Complex.I := rfl
theorem posB_def (z : ℂ) : (CScalar.posB z) = decide (0 < z.re) := rfl
theorem nonnegB_def (z : ℂ) : (CScalar.nonnegB z) = decide (0 ≤ z.re) := rfl

/-- `math.sqrt(n)` as a complex number -/
theorem sqrtNat_def (n : Nat) : (sqrtNat n : ℂ) = ((Real.sqrt (n : ℝ) : ℝ) : ℂ) := by
  simp [sqrtNat, sqrt_def]

theorem sqrtNat_ne_zero {n : Nat} (h : 0 < n) : (sqrtNat n : ℂ) ≠ 0 := by
  rw [sqrtNat_def]
  norm_cast
  exact (Real.sqrt_pos.mpr (by exact_mod_cast h)).ne'

theorem sqrtNat_mul_self (n : Nat) : (sqrtNat n : ℂ) * sqrtNat n = (n : ℂ) := by
  rw [sqrtNat_def]
  norm_cast
  exact Real.mul_self_sqrt (Nat.cast_nonneg n)

theorem star_sqrtNat (n : Nat) : star (sqrtNat n : ℂ) = sqrtNat n := by
  rw [sqrtNat_def]; simp

theorem sumFin_eq {β : Type} [AddCommMonoid β] : ∀ (n : Nat) (f : Fin n → β), sumFin n f = ∑ i, f i
  | 0, f => by simp [sumFin]
  | n+1, f => by rw [sumFin, sumFin_eq n, Fin.sum_univ_castSucc]

/-- a model matrix seen as a Mathlib matrix -/
abbrev toM {m n : Nat} (A : Mat ℂ m n) : Matrix (Fin m) (Fin n) ℂ := Matrix.of A

theorem toM_inj {m n : Nat} {A B : Mat ℂ m n} (h : toM A = toM B) : A = B :=
  Matrix.of.injective h

section
variable {m k n : Nat}

theorem toM_matMul (A : Mat ℂ m k) (B : Mat ℂ k n) : toM (matMul A B) = toM A * toM B := by
  ext i j
  simp [matMul, sumFin_eq, Matrix.mul_apply]

theorem toM_cT (A : Mat ℂ m n) : toM (cT A) = (toM A)ᴴ := by
  ext i j
  simp [cT, conj_def, conjTranspose_apply]

theorem toM_eye : toM (eye : Mat ℂ n n) = 1 := by
  ext i j
  simp [eye, Matrix.one_apply]

theorem toM_msub (A B : Mat ℂ m n) : toM (msub A B) = toM A - toM B := by
  ext i j; simp [msub]

theorem toM_madd (A B : Mat ℂ m n) : toM (madd A B) = toM A + toM B := by
  ext i j; simp [madd]

theorem toM_smul (c : ℂ) (A : Mat ℂ m n) : toM (smul c A) = c • toM A := by
  ext i j; simp [smul]

theorem toM_diagM (d : Vec ℂ n) : toM (diagM d) = Matrix.diagonal d := by
  ext i j; simp [diagM, Matrix.diagonal_apply]

theorem toM_mmseLhs (H : Mat ℂ m n) (nv : ℂ) :
    toM (mmseLhs H nv) = (toM H)ᴴ * toM H + nv • (1 : Matrix (Fin n) (Fin n) ℂ) := by
  simp only [mmseLhs, toM_madd, toM_matMul, toM_cT, toM_smul, toM_eye]

theorem toM_mmseRhs (H : Mat ℂ m n) : toM (mmseRhs H) = (toM H)ᴴ := by
  simp only [mmseRhs, toM_cT]

theorem toM_gmdChannelEq (Q : Mat ℂ m m) (R : Mat ℂ m n) :
    toM (gmdChannelEq Q R) = toM Q * toM R := by
  simp only [gmdChannelEq, toM_matMul]

end

/-- rewrite a model-level hypothesis into Mathlib matrix vocabulary -/
macro "c04_matrix" " at " h:ident : tactic =>
  `(tactic| (replace $h := congrArg toM $h
             simp only [toM_matMul, toM_eye, toM_cT, toM_msub, toM_madd, toM_smul, toM_diagM,
               toM_mmseLhs, toM_mmseRhs, toM_gmdChannelEq] at $h:ident))
/-- rewrite a model-level matrix equation (the goal) into Mathlib matrix vocabulary -/
macro "c04_matrix" : tactic =>
  `(tactic| (apply toM_inj
             simp only [toM_matMul, toM_eye, toM_cT, toM_msub, toM_madd, toM_smul, toM_diagM,
               toM_mmseLhs, toM_mmseRhs, toM_gmdChannelEq]))

end PyPhysim.C04
