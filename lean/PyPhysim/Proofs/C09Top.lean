import PyPhysim.Proofs.C09Rx

/-!
Assembly: facts about the end-to-end model functions (`calcBD`, `blockDiagonalize`,
`blockDiagonalizeNoWF`, `whiteningBD`, `enhanced…`) from the kernel contracts.
-/
set_option linter.unusedSectionVars false
namespace PyPhysim.BD
namespace Pf
open Matrix

section top
variable {K N : Nat}

/-- the contracts of the kernels used by `_calc_BD_matrix_no_power_scaling` -/
structure BDContract (hK : 0 < K) (H : Mat ℂ (K * N) (K * N)) (VH1 : Fin K → Mat ℂ (K * N) (K * N))
    (VH2 : Fin K → Mat ℂ N N) (S2 : Fin K → Fin N → ℝ) : Prop where
  /-- `V_H` returned by `svd(H̃_k)` is unitary -/
  unitary1 : ∀ k, matMul (VH1 k) (cT (VH1 k)) = eye
  /-- `V_H` returned by `svd(H_k Ṽ0_k)` is unitary -/
  unitary2 : ∀ k, matMul (VH2 k) (cT (VH2 k)) = eye
  /-- the selected singular vectors span (a part of) the null space of the other users -/
  null : ∀ k, matMul (tildeChannel H k) (calcBD hK H VH1 VH2 S2 k).V0 = fun _ _ => 0

variable (hK : 0 < K) (H : Mat ℂ (K * N) (K * N)) (VH1 : Fin K → Mat ℂ (K * N) (K * N))
  (VH2 : Fin K → Mat ℂ N N) (S2 : Fin K → Fin N → ℝ)

theorem calcBD_Ms (k : Fin K) :
    (calcBD hK H VH1 VH2 S2 k).Ms = matMul (calcBD hK H VH1 VH2 S2 k).V0 (calcBD hK H VH1 VH2 S2 k).V1 := rfl

theorem calcBD_V0 (k : Fin K) :
    (calcBD hK H VH1 VH2 S2 k).V0 = leastCols (VH1 k) N (Nat.le_mul_of_pos_left N hK) := rfl

theorem calcBD_V1 (k : Fin K) :
    (calcBD hK H VH1 VH2 S2 k).V1 = leastCols (VH2 k) N (Nat.le_refl N) := rfl

theorem calcBD_null (c : BDContract hK H VH1 VH2 S2) (j k : Fin K) (hjk : j ≠ k) :
    matMul (rowBlock H j) (calcBD hK H VH1 VH2 S2 k).Ms = fun _ _ => 0 := by
  rw [calcBD_Ms]
  exact null_mul _ _ _ (rowBlock_null_of_tilde H k _ (c.null k) j hjk)

theorem calcBD_orthonormal (c : BDContract hK H VH1 VH2 S2) (k : Fin K) :
    matMul (cT (calcBD hK H VH1 VH2 S2 k).Ms) (calcBD hK H VH1 VH2 S2 k).Ms = eye := by
  rw [calcBD_Ms]
  exact orthonormal_mul _ _ (by rw [calcBD_V0]; exact leastCols_orthonormal _ _ (c.unitary1 k))
    (by rw [calcBD_V1]; exact leastCols_orthonormal _ _ (c.unitary2 k))

theorem msBad_blockDiagonal (c : BDContract hK H VH1 VH2 S2) :
    IsBlockDiagonal (matMul H (msBad (calcBD hK H VH1 VH2 S2))) :=
  blockDiagonal_stack H _ (fun j k hjk => calcBD_null hK H VH1 VH2 S2 c j k hjk)

theorem msBad_unit_cols (c : BDContract hK H VH1 VH2 S2) (y : Fin (K * N)) :
    ∑ i, Complex.normSq (msBad (calcBD hK H VH1 VH2 S2) i y) = 1 := by
  have := col_normSq_of_orthonormal _ (calcBD_orthonormal hK H VH1 VH2 S2 c (userOf y)) (within y)
  simpa [msBad, stackCols] using this

theorem colBlock_msBad (k : Fin K) :
    colBlock (msBad (calcBD hK H VH1 VH2 S2)) k = (calcBD hK H VH1 VH2 S2 k).Ms :=
  colBlock_stackCols _ k

theorem msBad_block_pos (c : BDContract hK H VH1 VH2 S2) (hN : 0 < N) (k : Fin K) :
    0 < frobSq (colBlock (msBad (calcBD hK H VH1 VH2 S2)) k) := by
  rw [colBlock_msBad, frobSq_of_unit_cols _ (col_normSq_of_orthonormal _ (calcBD_orthonormal hK H VH1 VH2 S2 c k))]
  exact_mod_cast hN

/-! #### block diagonality of the two plain methods -/

theorem normalizedWF_colScaled (iPu : ℝ) (MsBad : Mat ℂ (K * N) (K * N)) (p : Fin (K * N) → ℝ) :
    ∃ t : Fin (K * N) → ℂ, ∀ i y, normalizedWF iPu MsBad p i y = MsBad i y * t y := by
  refine ⟨fun j => (((Real.sqrt (p j) * Real.sqrt iPu /
        maxLoop (blockNorms (K := K) (N := N) (globalWF MsBad p)) : ℝ)) : ℂ), fun i y => ?_⟩
  rw [normalizedWF_eq_diag, matMul_diagM]

theorem noWF_colScaled (iPu : ℝ) (MsBad : Mat ℂ (K * N) (K * N)) :
    ∃ t : Fin (K * N) → ℂ, ∀ i y, noWF iPu MsBad i y = MsBad i y * t y := by
  refine ⟨fun y => Cx.ofReal (RFun.sqrt iPu) / Cx.ofReal (frobNorm (colBlock MsBad (userOf y))), fun i y => ?_⟩
  simp only [noWF, mul_div_assoc]

theorem blockDiagonalize_blockDiagonal (c : BDContract hK H VH1 VH2 S2) (iPu : ℝ) (p : Fin (K * N) → ℝ) :
    IsBlockDiagonal (blockDiagonalize hK iPu H VH1 VH2 S2 p).1 := by
  obtain ⟨t, ht⟩ := normalizedWF_colScaled iPu (msBad (calcBD hK H VH1 VH2 S2)) p
  exact blockDiagonal_colScaled H _ _ t ht (msBad_blockDiagonal hK H VH1 VH2 S2 c)

theorem blockDiagonalizeNoWF_blockDiagonal (c : BDContract hK H VH1 VH2 S2) (iPu : ℝ) :
    IsBlockDiagonal (blockDiagonalizeNoWF hK iPu H VH1 VH2 S2).1 := by
  obtain ⟨t, ht⟩ := noWF_colScaled iPu (msBad (calcBD hK H VH1 VH2 S2))
  exact blockDiagonal_colScaled H _ _ t ht (msBad_blockDiagonal hK H VH1 VH2 S2 c)

/-! #### the receive filter against the power mask -/

theorem maxLoop_blockNorms_pos (MsBad : Mat ℂ (K * N) (K * N)) (p : Fin (K * N) → ℝ)
    (hp : ∀ j, 0 ≤ p j) (hp1 : ∃ j, 0 < p j) (hcol : ∀ c, ∑ i, Complex.normSq (MsBad i c) = 1) :
    0 < maxLoop (blockNorms (K := K) (N := N) (globalWF MsBad p)) := by
  obtain ⟨j, hj⟩ := hp1
  have hmem : frobNorm (colBlock (globalWF MsBad p) (userOf j)) ∈ blockNorms (K := K) (N := N) (globalWF MsBad p) := by
    simp only [blockNorms, List.mem_map]
    exact ⟨userOf j, List.mem_finRange _, rfl⟩
  exact (maxLoop_attained _ _ hmem
    ((frobNorm_pos_iff _).mpr (frobSq_colBlock_globalWF_pos MsBad p hp hcol j hj))).2

theorem wf_rx_mask (c : BDContract hK H VH1 VH2 S2) (Hinv : Mat ℂ (K * N) (K * N)) (hH : matMul Hinv H = eye)
    (iPu : ℝ) (hP : 0 < iPu) (p : Fin (K * N) → ℝ) (hp : ∀ j, 0 ≤ p j) (hp1 : ∃ j, 0 < p j)
    (W : Mat ℂ (K * N) (K * N))
    (h1 : matMul (matMul (blockDiagonalize hK iPu H VH1 VH2 S2 p).1 W) (blockDiagonalize hK iPu H VH1 VH2 S2 p).1
      = (blockDiagonalize hK iPu H VH1 VH2 S2 p).1)
    (h3 : cT (matMul W (blockDiagonalize hK iPu H VH1 VH2 S2 p).1) = matMul W (blockDiagonalize hK iPu H VH1 VH2 S2 p).1) :
    matMul W (blockDiagonalize hK iPu H VH1 VH2 S2 p).1 = diagM (fun j => if p j = 0 then 0 else 1) := by
  set MsBad := msBad (calcBD hK H VH1 VH2 S2) with hMs
  obtain ⟨G, hG⟩ := effective_left_inverse H Hinv (fun k => (calcBD hK H VH1 VH2 S2 k).Ms) hH
    (calcBD_orthonormal hK H VH1 VH2 S2 c) (fun j k hjk => calcBD_null hK H VH1 VH2 S2 c j k hjk)
  replace hG : matMul G (matMul H MsBad) = eye := hG
  have hmx := maxLoop_blockNorms_pos MsBad p hp hp1 (msBad_unit_cols hK H VH1 VH2 S2 c)
  set mx := maxLoop (blockNorms (K := K) (N := N) (globalWF MsBad p)) with hmxdef
  set d : Fin (K * N) → ℂ := fun j => (((Real.sqrt (p j) * Real.sqrt iPu / mx : ℝ)) : ℂ) with hd
  have hnew : (blockDiagonalize hK iPu H VH1 VH2 S2 p).1 = matMul (matMul H MsBad) (diagM d) := by
    show matMul H (normalizedWF iPu MsBad p) = _
    rw [normalizedWF_eq_diag, matMul_assoc]
  have hres := pinv_mul_eq_mask (toM (blockDiagonalize hK iPu H VH1 VH2 S2 p).1) (toM (matMul H MsBad))
    (toM W) (toM G) d (by rw [hnew, toM_matMul, toM_diagM])
    (fun j => by simp only [hd, Complex.star_def, Complex.conj_ofReal])
    (by have := congrArg toM hG; simpa only [toM_matMul, toM_eye] using this)
    (by have := congrArg toM h1; simpa only [toM_matMul] using this)
    (by have := congrArg toM h3; simpa only [toM_matMul, toM_cT] using this)
  apply toM_inj
  rw [toM_matMul, hres, toM_diagM]
  congr 1
  funext j
  have hs : 0 < Real.sqrt iPu := Real.sqrt_pos.mpr hP
  have hiff : d j = 0 ↔ p j = 0 := by
    simp only [hd]
    rw [Complex.ofReal_eq_zero, div_eq_zero_iff, mul_eq_zero, Real.sqrt_eq_zero (hp j)]
    constructor
    · rintro ((h | h) | h)
      · exact h
      · exact absurd h hs.ne'
      · exact absurd h hmx.ne'
    · intro h; exact Or.inl (Or.inl h)
  by_cases hz : p j = 0
  · rw [if_pos hz, if_pos (hiff.mpr hz)]
  · rw [if_neg hz, if_neg (fun h => hz (hiff.mp h))]

theorem nowf_rx_inverse (c : BDContract hK H VH1 VH2 S2) (Hinv : Mat ℂ (K * N) (K * N)) (hH : matMul Hinv H = eye)
    (iPu : ℝ) (hP : 0 < iPu) (hN : 0 < N) (W : Mat ℂ (K * N) (K * N))
    (h1 : matMul (matMul (blockDiagonalizeNoWF hK iPu H VH1 VH2 S2).1 W) (blockDiagonalizeNoWF hK iPu H VH1 VH2 S2).1
      = (blockDiagonalizeNoWF hK iPu H VH1 VH2 S2).1)
    (h3 : cT (matMul W (blockDiagonalizeNoWF hK iPu H VH1 VH2 S2).1) = matMul W (blockDiagonalizeNoWF hK iPu H VH1 VH2 S2).1) :
    matMul W (blockDiagonalizeNoWF hK iPu H VH1 VH2 S2).1 = eye := by
  set MsBad := msBad (calcBD hK H VH1 VH2 S2) with hMs
  obtain ⟨G, hG⟩ := effective_left_inverse H Hinv (fun k => (calcBD hK H VH1 VH2 S2 k).Ms) hH
    (calcBD_orthonormal hK H VH1 VH2 S2 c) (fun j k hjk => calcBD_null hK H VH1 VH2 S2 c j k hjk)
  replace hG : matMul G (matMul H MsBad) = eye := hG
  set d : Fin (K * N) → ℂ := fun y => ((Real.sqrt iPu / frobNorm (colBlock MsBad (userOf y)) : ℝ) : ℂ) with hd
  have hnew : (blockDiagonalizeNoWF hK iPu H VH1 VH2 S2).1 = matMul (matMul H MsBad) (diagM d) := by
    show matMul H (noWF iPu MsBad) = _
    rw [matMul_assoc]
    congr 1
    funext i y
    rw [matMul_diagM]
    simp only [noWF, hd, mul_div_assoc, Cx.ofReal, RFun.sqrt]
    push_cast
    rfl
  have hres := pinv_mul_eq_mask (toM (blockDiagonalizeNoWF hK iPu H VH1 VH2 S2).1) (toM (matMul H MsBad))
    (toM W) (toM G) d (by rw [hnew, toM_matMul, toM_diagM])
    (fun j => by simp only [hd, Complex.star_def, Complex.conj_ofReal])
    (by have := congrArg toM hG; simpa only [toM_matMul, toM_eye] using this)
    (by have := congrArg toM h1; simpa only [toM_matMul] using this)
    (by have := congrArg toM h3; simpa only [toM_matMul, toM_cT] using this)
  apply toM_inj
  rw [toM_matMul, hres, toM_eye, ← diagonal_one]
  congr 1
  funext j
  have hs : 0 < Real.sqrt iPu := Real.sqrt_pos.mpr hP
  have hf : 0 < frobNorm (colBlock MsBad (userOf j)) :=
    (frobNorm_pos_iff _).mpr (msBad_block_pos hK H VH1 VH2 S2 c hN _)
  have : d j ≠ 0 := by
    simp only [hd]
    rw [Ne, Complex.ofReal_eq_zero]
    exact (div_pos hs hf).ne'
  rw [if_neg this]

end top
end Pf
end PyPhysim.BD
