import Mathlib.Data.ZMod.Defs
import Mathlib.Tactic.LinearCombination
import PyPhysim.Proofs.C18Cis

/-!
C18 — Zadoff–Chu algebra: periodicity, zero cyclic autocorrelation, flat
spectrum, orthogonality of cyclic shifts.
-/
set_option linter.unusedSectionVars false
namespace PyPhysim.C18P
open PyPhysim.Cazac Finset

variable {F : Type} [Field F] [CisOps F]

local notation "cis" => (CisOps.cis : ℚ → F)
local notation "conj" => (CisOps.conj : F → F)

/-- one period: the phase changes by an integer number of turns when `N` is odd -/
theorem zcPhase_step (N u n : ℕ) (hodd : N % 2 = 1) :
    ∃ z : ℤ, zcPhase N u (n + N) - zcPhase N u n = z := by
  obtain ⟨t, rfl⟩ : ∃ t, N = 2 * t + 1 := ⟨N / 2, by omega⟩
  refine ⟨-((u * (n + t + 1) : ℕ) : ℤ), ?_⟩
  unfold zcPhase
  have h : ((2 * (2 * t + 1) : ℕ) : ℚ) ≠ 0 := by positivity
  push_cast at h ⊢
  field_simp
  ring

section
variable (L : CisLaws F)
include L

theorem zc_add_mul (N u : ℕ) (hodd : N % 2 = 1) (k n : ℕ) :
    cis (zcPhase N u (n + k * N)) = cis (zcPhase N u n) := by
  induction k with
  | zero => simp
  | succ k ih =>
    have : n + (k + 1) * N = (n + k * N) + N := by ring
    rw [this, L.cis_congr (zcPhase_step N u (n + k * N) hodd), ih]

/-- the Zadoff–Chu sequence is `N`-periodic (odd `N`) -/
theorem zc_mod (N u : ℕ) (hodd : N % 2 = 1) (m : ℕ) :
    cis (zcPhase N u (m % N)) = cis (zcPhase N u m) := by
  have := zc_add_mul L N u hodd (m / N) (m % N)
  rw [← this]
  congr 2
  rw [Nat.mul_comm]
  exact Nat.mod_add_div m N

/-- lag product of a Zadoff–Chu sequence -/
theorem zc_lag (N u n τ : ℕ) (hN : 0 < N) :
    cis (zcPhase N u (n + τ)) * conj (cis (zcPhase N u n))
      = cis (zcPhase N u τ) * cis ((n : ℚ) * (((-(u * τ : ℕ) : ℤ) : ℚ) / (N : ℚ))) := by
  rw [L.conj_cis, ← L.cis_add, ← L.cis_add]
  congr 1
  unfold zcPhase
  have h : (N : ℚ) ≠ 0 := by exact_mod_cast (Nat.ne_of_gt hN)
  push_cast
  field_simp
  ring

/-- zero cyclic autocorrelation at every lag that is not a multiple of `N` -/
theorem zc_autocorr (N u τ : ℕ) (hodd : N % 2 = 1) (hcop : Nat.Coprime u N) (hτ : ¬ N ∣ τ) :
    ∑ n ∈ range N, cis (zcPhase N u ((n + τ) % N)) * conj (cis (zcPhase N u n)) = 0 := by
  have hN : 0 < N := by omega
  have h1 : ∀ n ∈ range N, cis (zcPhase N u ((n + τ) % N)) * conj (cis (zcPhase N u n))
      = cis (zcPhase N u τ) * cis ((n : ℚ) * (((-(u * τ : ℕ) : ℤ) : ℚ) / (N : ℚ))) := by
    intro n _
    rw [zc_mod L N u hodd, zc_lag L N u n τ hN]
  rw [Finset.sum_congr rfl h1, ← Finset.mul_sum, L.sum_cis_div N hN, if_neg, mul_zero]
  intro hd
  apply hτ
  have h2 : (N : ℤ) ∣ ((u * τ : ℕ) : ℤ) := (Int.dvd_neg).mp hd
  have h3 : N ∣ u * τ := by exact_mod_cast h2
  exact (Nat.Coprime.dvd_of_dvd_mul_left hcop.symm h3)

/-- `R(0) = N` -/
theorem zc_energy (N u : ℕ) :
    ∑ n ∈ range N, cis (zcPhase N u n) * conj (cis (zcPhase N u n)) = N := by
  rw [Finset.sum_congr rfl (fun n _ => L.cis_mul_conj _)]
  simp

end

/-- cyclic re-indexing of a sum over `range N` -/
theorem sum_range_shift (N : ℕ) (hN : 0 < N) (m : ℕ) (g : ℕ → F) :
    ∑ n ∈ range N, g n = ∑ τ ∈ range N, g ((m + τ) % N) := by
  obtain ⟨k, rfl⟩ : ∃ k, N = k + 1 := ⟨N - 1, by omega⟩
  rw [Finset.sum_range, Finset.sum_range]
  let a : Fin (k + 1) := ⟨m % (k + 1), Nat.mod_lt _ hN⟩
  rw [← Equiv.sum_comp (Equiv.addLeft a) (fun x : Fin (k + 1) => g x.val)]
  apply Finset.sum_congr rfl
  intro x _
  simp only [Equiv.coe_addLeft, Fin.val_add]
  congr 1
  show (m % (k + 1) + x.val) % (k + 1) = (m + x.val) % (k + 1)
  rw [Nat.mod_add_mod]

section
variable (L : CisLaws F)
include L

/-- a sequence with ideal cyclic autocorrelation has a flat spectrum -/
theorem flat_of_autocorr (a : ℕ → F) (N : ℕ) (hN : 0 < N)
    (hR : ∀ τ, τ < N → ∑ m ∈ range N, a ((m + τ) % N) * conj (a m) = if τ = 0 then (N : F) else 0)
    (k : ℕ) :
    (∑ n ∈ range N, a n * cis (-(((n * k : ℕ) : ℚ) / (N : ℚ))))
      * conj (∑ n ∈ range N, a n * cis (-(((n * k : ℕ) : ℚ) / (N : ℚ)))) = N := by
  have hN' : (N : ℚ) ≠ 0 := by exact_mod_cast (Nat.ne_of_gt hN)
  rw [L.conj_sum, Finset.sum_mul_sum, Finset.sum_comm]
  -- for every m re-index the inner sum by the lag
  have h1 : ∀ m ∈ range N,
      ∑ n ∈ range N, a n * cis (-(((n * k : ℕ) : ℚ) / (N : ℚ)))
          * conj (a m * cis (-(((m * k : ℕ) : ℚ) / (N : ℚ))))
        = ∑ τ ∈ range N, cis (-(((τ * k : ℕ) : ℚ) / (N : ℚ))) * (a ((m + τ) % N) * conj (a m)) := by
    intro m _
    rw [sum_range_shift N hN m]
    apply Finset.sum_congr rfl
    intro τ _
    rw [L.conj_mul, L.conj_cis]
    have h2 : cis (-((((m + τ) % N * k : ℕ) : ℚ) / (N : ℚ))) * cis (-(-(((m * k : ℕ) : ℚ) / (N : ℚ))))
        = cis (-(((τ * k : ℕ) : ℚ) / (N : ℚ))) := by
      rw [← L.cis_add]
      apply L.cis_congr
      obtain ⟨q, r, hqr, hr⟩ : ∃ q r : ℕ, m + τ = N * q + r ∧ (m + τ) % N = r :=
        ⟨(m + τ) / N, (m + τ) % N, (Nat.div_add_mod (m + τ) N).symm, rfl⟩
      rw [hr]
      refine ⟨((k * q : ℕ) : ℤ), ?_⟩
      have h3 : (m : ℚ) + τ = (N : ℚ) * q + r := by exact_mod_cast hqr
      push_cast
      field_simp
      linear_combination (k : ℚ) * h3
    rw [← h2]
    ring
  rw [Finset.sum_congr rfl h1, Finset.sum_comm]
  have h4 : ∀ τ ∈ range N,
      ∑ m ∈ range N, cis (-(((τ * k : ℕ) : ℚ) / (N : ℚ))) * (a ((m + τ) % N) * conj (a m))
        = if τ = 0 then (N : F) else 0 := by
    intro τ hτ
    rw [← Finset.mul_sum, hR τ (Finset.mem_range.mp hτ)]
    split_ifs with h0
    · subst h0
      simp [L.cis_zero]
    · simp
  rw [Finset.sum_congr rfl h4, Finset.sum_ite_eq' (range N) 0 (fun _ => (N : F))]
  simp [hN]

end

/-! ### list level -/

theorem seqValues_getD (ph : List ℚ) (n : ℕ) (hn : n < ph.length) :
    (seqValues ph : List F).getD n 0 = cis (ph.getD n 0) := by
  unfold seqValues
  simp [List.getD_eq_getElem?_getD, List.getElem?_map, List.getElem?_eq_getElem hn]

theorem seqValues_length (ph : List ℚ) : (seqValues ph : List F).length = ph.length := by
  unfold seqValues; simp

theorem zcPhases_getD (N u n : ℕ) (hn : n < N) : (zcPhases N u).getD n 0 = zcPhase N u n := by
  unfold zcPhases
  simp [List.getD_eq_getElem?_getD, List.getElem?_map, List.getElem?_range hn]

theorem zcPhases_length (N u : ℕ) : (zcPhases N u).length = N := by
  unfold zcPhases; simp

theorem zcSeq_getD (N u n : ℕ) (hn : n < N) :
    (seqValues (zcPhases N u) : List F).getD n 0 = cis (zcPhase N u n) := by
  rw [seqValues_getD _ _ (by rw [zcPhases_length]; exact hn), zcPhases_getD N u n hn]

theorem shiftedPhases_ok (ph : List ℚ) (c D : ℕ) (h : c < D) :
    shiftedPhases ph c D
      = .ok (ph.zipIdx.map (fun p => ((c * p.2 : ℕ) : ℚ) / ((D : ℕ) : ℚ) + p.1)) := by
  unfold shiftedPhases
  rw [if_pos h]

theorem shifted_getD (ph : List ℚ) (c D n : ℕ) (hn : n < ph.length) :
    (ph.zipIdx.map (fun p => ((c * p.2 : ℕ) : ℚ) / ((D : ℕ) : ℚ) + p.1)).getD n 0
      = ((c * n : ℕ) : ℚ) / (D : ℚ) + ph.getD n 0 := by
  simp [List.getD_eq_getElem?_getD, List.getElem?_map, List.getElem?_zipIdx,
    List.getElem?_eq_getElem hn]

end PyPhysim.C18P
