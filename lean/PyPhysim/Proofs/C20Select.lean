import Mathlib.Data.List.Sort
import Mathlib.Data.List.Perm.Basic
import Mathlib.Data.List.Range
import Mathlib.Order.Basic
import PyPhysim.Proofs.C20Bridge

/-!
Index-level facts about the eigen / singular vector selectors.
-/
set_option linter.unusedSectionVars false
namespace PyPhysim.LinAlg

/-- contract of `np.argsort(values)` on an array of length `c`: a permutation of
    `0 … c-1` along which the values are non-decreasing -/
def ArgsortContract {β : Type} [Preorder β] (val : Nat → β) (c : Nat) (perm : List Nat) : Prop :=
  perm.Perm (List.range c) ∧ perm.Pairwise (fun a b => val a ≤ val b)

namespace Pf
variable {β : Type} [Preorder β]

theorem perm_facts {c : Nat} {perm : List Nat} (h : perm.Perm (List.range c)) :
    perm.length = c ∧ perm.Nodup ∧ ∀ i ∈ perm, i < c := by
  refine ⟨by rw [h.length_eq, List.length_range], h.nodup_iff.mpr List.nodup_range, fun i hi => ?_⟩
  exact List.mem_range.mp (h.mem_iff.mp hi)

/-- generic selection fact: the first `n` entries of a list that is pairwise `R`-ordered -/
theorem take_spec {R : Nat → Nat → Prop} {c n : Nat} {l : List Nat} (hl : l.Perm (List.range c))
    (hR : l.Pairwise R) (hn : n ≤ c) :
    (l.take n).length = n ∧ (l.take n).Nodup ∧ (∀ i ∈ l.take n, i < c) ∧ (l.take n).Pairwise R ∧
    (∀ i ∈ l.take n, ∀ j, j < c → j ∉ l.take n → R i j) := by
  obtain ⟨hlen, hnd, hlt⟩ := perm_facts hl
  refine ⟨by rw [List.length_take, hlen]; omega, hnd.sublist (List.take_sublist n l),
    fun i hi => hlt i (List.mem_of_mem_take hi), hR.sublist (List.take_sublist n l), ?_⟩
  intro i hi j hj hjn
  have hjl : j ∈ l := hl.mem_iff.mpr (List.mem_range.mpr hj)
  rw [← List.take_append_drop n l] at hjl hR
  have hjd : j ∈ l.drop n := by
    rcases List.mem_append.mp hjl with h | h
    · exact absurd h hjn
    · exact h
  exact (List.pairwise_append.mp hR).2.2 i hi j hjd

theorem peigIdx_spec (val : Nat → β) {c n : Nat} {perm : List Nat} (h : ArgsortContract val c perm)
    (hn : n ≤ c) :
    ∃ idx, peigIdx c n perm = .ok idx ∧ idx.length = n ∧ idx.Nodup ∧ (∀ i ∈ idx, i < c) ∧
      idx.Pairwise (fun a b => val b ≤ val a) ∧
      (∀ i ∈ idx, ∀ j, j < c → j ∉ idx → val j ≤ val i) := by
  refine ⟨perm.reverse.take n, by simp [peigIdx, Nat.not_lt.mpr hn], ?_⟩
  have hp : perm.reverse.Perm (List.range c) := (List.reverse_perm perm).trans h.1
  have hR : perm.reverse.Pairwise (fun a b => val b ≤ val a) := List.pairwise_reverse.mpr h.2
  exact take_spec hp hR hn

theorem leigIdx_spec (val : Nat → β) {c n : Nat} {perm : List Nat} (h : ArgsortContract val c perm)
    (hn : n ≤ c) :
    ∃ idx, leigIdx c n perm = .ok idx ∧ idx.length = n ∧ idx.Nodup ∧ (∀ i ∈ idx, i < c) ∧
      idx.Pairwise (fun a b => val a ≤ val b) ∧
      (∀ i ∈ idx, ∀ j, j < c → j ∉ idx → val i ≤ val j) := by
  refine ⟨perm.take n, by simp [leigIdx, Nat.not_lt.mpr hn], ?_⟩
  exact take_spec h.1 h.2 hn

/-- every pair returned by `selectPairs` is (column `j` of `V`, `D j`) for a kept index `j` -/
theorem selectPairs_mem {α : Type} {r c : Nat} (V : Mat α r c) (D : Fin c → α) :
    ∀ (idx : List Nat) (out : List ((Fin r → α) × α)), selectPairs V D idx = .ok out →
      out.length = idx.length ∧
      ∀ p ∈ out, ∃ j, ∃ h : j < c, j ∈ idx ∧ p = ((fun i => V i ⟨j, h⟩), D ⟨j, h⟩)
  | [], out, h => by
    simp only [selectPairs, Except.ok.injEq] at h
    subst h; simp
  | j :: js, out, h => by
    unfold selectPairs at h
    by_cases hj : j < c
    · simp only [getCol, getEntry, hj, dif_pos] at h
      cases hrec : selectPairs V D js with
      | error e => rw [hrec] at h; simp at h
      | ok rest =>
        rw [hrec] at h
        simp only [Except.ok.injEq] at h
        subst h
        obtain ⟨hl, hm⟩ := selectPairs_mem V D js rest hrec
        refine ⟨by simp [hl], fun p hp => ?_⟩
        rcases List.mem_cons.mp hp with rfl | hp
        · exact ⟨j, hj, by simp, rfl⟩
        · obtain ⟨j', h', hmem, rfl⟩ := hm p hp
          exact ⟨j', h', List.mem_cons_of_mem _ hmem, rfl⟩
    · simp [getCol, getEntry, hj] at h

/-- position by position, the pairs returned by `selectPairs` are (column `j` of `V`, `D j`)
    for the kept indexes `j`, in the same order -/
theorem selectPairs_forall2 {α : Type} {r c : Nat} (V : Mat α r c) (D : Fin c → α) :
    ∀ (idx : List Nat) (out : List ((Fin r → α) × α)), selectPairs V D idx = .ok out →
      List.Forall₂ (fun p j => ∃ h : j < c, p = ((fun i => V i ⟨j, h⟩), D ⟨j, h⟩)) out idx
  | [], out, h => by
    simp only [selectPairs, Except.ok.injEq] at h
    subst h; exact List.Forall₂.nil
  | j :: js, out, h => by
    unfold selectPairs at h
    by_cases hj : j < c
    · simp only [getCol, getEntry, hj, dif_pos] at h
      cases hrec : selectPairs V D js with
      | error e => rw [hrec] at h; simp at h
      | ok rest =>
        rw [hrec] at h
        simp only [Except.ok.injEq] at h
        subst h
        exact List.Forall₂.cons ⟨hj, rfl⟩ (selectPairs_forall2 V D js rest hrec)
    · simp [getCol, getEntry, hj] at h

/-- `selectPairs` succeeds when every index is a column number -/
theorem selectPairs_ok {α : Type} {r c : Nat} (V : Mat α r c) (D : Fin c → α) :
    ∀ (idx : List Nat), (∀ j ∈ idx, j < c) → ∃ out, selectPairs V D idx = .ok out
  | [], _ => ⟨[], rfl⟩
  | j :: js, h => by
    have hj : j < c := h j (by simp)
    obtain ⟨rest, hrest⟩ := selectPairs_ok V D js (fun x hx => h x (List.mem_cons_of_mem _ hx))
    exact ⟨((fun i => V i ⟨j, hj⟩), D ⟨j, hj⟩) :: rest, by simp [selectPairs, getCol, getEntry, hj, hrest]⟩

/-! ### least right singular vectors -/

theorem lrsvIdx_append (c n : Nat) :
    (lrsvIdx c n).1 ++ (lrsvIdx c n).2 = (List.range c).reverse := by
  simp [lrsvIdx, lrsvOrder]

theorem lrsvIdx_length (c n : Nat) : (lrsvIdx c n).1.length = min n c := by
  simp [lrsvIdx, lrsvOrder]

/-- with non-increasing singular values (one per column, zero padded) every kept
    "least" column has a singular value ≤ every remaining column -/
theorem lrsvIdx_least (sig : Nat → β) (c n : Nat)
    (hs : ∀ a b, a ≤ b → b < c → sig b ≤ sig a) :
    ∀ a ∈ (lrsvIdx c n).1, ∀ b ∈ (lrsvIdx c n).2, sig a ≤ sig b := by
  intro a ha b hb
  have hdec : ((List.range c).reverse).Pairwise (fun x y => y < x) :=
    List.pairwise_reverse.mpr (List.pairwise_lt_range)
  have hsplit : (lrsvOrder c).take n ++ (lrsvOrder c).drop n = (List.range c).reverse := by
    simp [lrsvOrder]
  rw [← hsplit] at hdec
  have hba : b < a := (List.pairwise_append.mp hdec).2.2 a ha b hb
  have hac : a < c := by
    have : a ∈ (List.range c).reverse := by rw [← hsplit]; exact List.mem_append_left _ ha
    simpa using this
  exact hs b a hba.le hac

/-- fancy indexing with valid indexes never raises and returns `S[idx[t]]` at position `t` -/
theorem pick_ok {α : Type} (S : List α) : ∀ (idx : List Nat), (∀ j ∈ idx, j < S.length) →
    ∃ out, pick S idx = .ok out ∧ out.map some = idx.map (fun j => S[j]?)
  | [], _ => ⟨[], rfl, rfl⟩
  | j :: js, h => by
    have hj : j < S.length := h j (by simp)
    obtain ⟨rest, hrest, hmap⟩ := pick_ok S js (fun x hx => h x (List.mem_cons_of_mem _ hx))
    refine ⟨S[j] :: rest, ?_, ?_⟩
    · simp [pick, List.getElem?_eq_getElem hj, hrest]
    · simp [hmap, List.getElem?_eq_getElem hj]

theorem padS_length {α : Type} [Zero α] (S : List α) (c : Nat) (h : S.length ≤ c) :
    (padS S c).length = c := by
  simp [padS]; omega

theorem padS_getElem? {α : Type} [Zero α] (S : List α) (c j : Nat) (hj : j < c) :
    (padS S c)[j]? = some (if h : j < S.length then S[j] else 0) := by
  unfold padS
  by_cases h : j < S.length
  · simp [h, List.getElem?_append_left h]
  · have h' : S.length ≤ j := Nat.le_of_not_lt h
    rw [List.getElem?_append_right h']
    simp only [h, dif_neg, not_false_eq_true]
    rw [List.getElem?_replicate]
    have : j - S.length < c - S.length := by omega
    simp [this]

end Pf
end PyPhysim.LinAlg
