import PyPhysim.Proofs.C12

/-!
# C12 helper lemmas, part 2: the returned pair is a water-filling solution

`doWFWith_isWaterFilling`: for every sort result satisfying `SortContract`,
positive gains, `0 ≤ P`, `0 < N`, `0 < Es` the code returns a value `(p, μ)`
with `p = g.map (max 0 (μ − N/(Es·g)))`, `Σ p = P` and `0 < μ`.

`argsortAsc_contract`: the model's own sort satisfies the contract, hence
`doWF_facts`, `doWF_sum`, `doWF_nonneg`, `doWF_length` — the clean facts about the
concrete `doWF` that other properties (C09) import; this file needs no analysis library.
-/
namespace PyPhysim.C12
open PyPhysim.Proto

set_option linter.unusedSectionVars false

variable {α : Type} [Field α] [LinearOrder α] [IsStrictOrderedRing α]

/-! ### `scatter`: fancy-index assignment through `lookup` -/

theorem lookup_map_of_mem {β : Type} (v : Chan α → β) :
    ∀ (l : List (Chan α)), (l.map (·.2)).Nodup → ∀ x ∈ l,
      (l.map (fun y => (y.2, v y))).lookup x.2 = some (v x) := by
  intro l
  induction l with
  | nil => intro _ x hx; cases hx
  | cons y l ih =>
    intro hnd x hx
    rw [List.map_cons, List.nodup_cons] at hnd
    rw [List.map_cons, List.lookup_cons]
    rcases List.mem_cons.mp hx with rfl | hx
    · simp
    · have hne : x.2 ≠ y.2 := by
        intro h
        exact hnd.1 (h ▸ List.mem_map_of_mem hx)
      have : (x.2 == y.2) = false := by simpa using hne
      rw [this]
      exact ih hnd.2 x hx

theorem lookup_map_none {β : Type} (v : Chan α → β) (j : Nat) :
    ∀ (l : List (Chan α)), (∀ y ∈ l, y.2 ≠ j) →
      (l.map (fun y => (y.2, v y))).lookup j = none := by
  intro l
  induction l with
  | nil => intro _; rfl
  | cons y l ih =>
    intro h
    rw [List.map_cons, List.lookup_cons]
    have : (j == y.2) = false := by
      simpa using (fun e : j = y.2 => h y (by simp) e.symm)
    rw [this]
    exact ih (fun z hz => h z (List.mem_cons_of_mem _ hz))

/-! ### consequences of the sort contract -/

theorem SortContract.nodup_idx {g : List α} {asc : List (Chan α)} (hc : SortContract g asc) :
    (asc.map (·.2)).Nodup := by
  have h := hc.perm.map Prod.snd
  rw [h.nodup_iff, List.zipIdx_map_snd]
  exact List.nodup_range'

theorem SortContract.mem_iff {g : List α} {asc : List (Chan α)} (hc : SortContract g asc)
    (x : Chan α) : x ∈ asc ↔ g[x.2]? = some x.1 := by
  rw [hc.perm.mem_iff, List.mem_zipIdx_iff_getElem?]

theorem SortContract.pos {g : List α} {asc : List (Chan α)} (hc : SortContract g asc)
    (hg : ∀ x ∈ g, 0 < x) : ∀ x ∈ asc, 0 < x.1 := by
  intro x hx
  have := (hc.mem_iff x).mp hx
  exact hg _ (List.mem_of_getElem? this)

theorem SortContract.levelSorted {g : List α} {asc : List (Chan α)} (hc : SortContract g asc)
    (hg : ∀ x ∈ g, 0 < x) (N Es : α) (hN : 0 < N) (hEs : 0 < Es) : LevelSorted N Es asc := by
  refine hc.sorted.imp_of_mem ?_
  intro x y hx _ hxy
  have hx0 := hc.pos hg x hx
  unfold level
  exact div_le_div_of_nonneg_left hN.le (mul_pos hEs hx0) (mul_le_mul_of_nonneg_left hxy hEs.le)

theorem SortContract.ne_nil {g : List α} {asc : List (Chan α)} (hc : SortContract g asc)
    (hne : g ≠ []) : asc ≠ [] := by
  intro h
  have := hc.perm.length_eq
  rw [h, List.length_zipIdx] at this
  exact hne (List.length_eq_zero_iff.mp this.symm)

/-! ### the main statement -/

theorem doWFWith_isWaterFilling (g : List α) (asc : List (Chan α)) (P N Es : α)
    (hc : SortContract g asc) (hne : g ≠ []) (hg : ∀ x ∈ g, 0 < x)
    (hP : 0 ≤ P) (hN : 0 < N) (hEs : 0 < Es) :
    ∃ p mu, doWFWith asc g.length P N Es = .ok (p, mu) ∧ IsWaterFilling g P N Es p mu ∧ 0 < mu := by
  have hs := hc.levelSorted hg N Es hN hEs
  obtain ⟨pre, w, rest, hL, hval, hkept, hpre, hsum, hw⟩ :=
    doWFWith_spec asc g.length P N Es hP (hc.ne_nil hne) hs
  set mu := muOf N Es P w rest with hmu
  have hnd := hc.nodup_idx
  rw [hL, List.map_append, List.nodup_append] at hnd
  obtain ⟨_, hndk, hdisj⟩ := hnd
  have hwpos : 0 < level N Es w := by
    have : w ∈ asc := by rw [hL]; simp
    unfold level
    exact div_pos hN (mul_pos hEs (hc.pos hg w this))
  refine ⟨_, mu, hval, ⟨?_, ?_⟩, lt_of_lt_of_le hwpos hw⟩
  · -- form, index by index
    apply List.ext_getElem
    · simp [scatter]
    · intro j h1 h2
      have hj : j < g.length := by simpa [scatter] using h1
      simp only [scatter, scatterAt, List.getElem_map, List.getElem_range]
      have hx : ((g[j], j) : Chan α) ∈ asc := (hc.mem_iff (g[j], j)).mpr (by simp [hj])
      rw [hL, List.mem_append] at hx
      have hlev : level N Es ((g[j], j) : Chan α) = N / (Es * g[j]) := rfl
      rcases hx with hx | hx
      · have hnone : ((w :: rest).map (fun y => (y.2, mu - level N Es y))).lookup j = none := by
          apply lookup_map_none
          intro y hy e
          exact hdisj j (List.mem_map.mpr ⟨_, hx, rfl⟩) j (List.mem_map.mpr ⟨y, hy, e⟩) rfl
        rw [hnone]
        have := hpre _ hx
        rw [hlev] at this
        exact (max_eq_left (by linarith)).symm
      · have hsome := lookup_map_of_mem (fun y => mu - level N Es y) (w :: rest) hndk _ hx
        simp only at hsome
        rw [hsome, hlev]
        have := hkept _ hx
        rw [hlev] at this
        exact (max_eq_right (by linarith)).symm
  · -- total power: sum over the permuted index list
    have hperm : (asc.map (·.2)).Perm (List.range g.length) := by
      have h := hc.perm.map Prod.snd
      rw [List.zipIdx_map_snd] at h
      rw [List.range_eq_range']
      exact h
    unfold scatter
    rw [← (hperm.map _).sum_eq, hL]
    simp only [List.map_append, List.map_map, List.sum_append]
    have h1 : (pre.map (scatterAt ((w :: rest).map (fun x => (x.2, mu - level N Es x)))
          ∘ fun x => x.2)) = pre.map (fun _ => (0 : α)) := by
      apply List.map_congr_left
      intro x hx
      have hnone : ((w :: rest).map (fun y => (y.2, mu - level N Es y))).lookup x.2 = none := by
        apply lookup_map_none
        intro y hy e
        exact hdisj x.2 (List.mem_map.mpr ⟨_, hx, rfl⟩) x.2 (List.mem_map.mpr ⟨y, hy, e⟩) rfl
      simp only [Function.comp, scatterAt, hnone]
    have h2 : ((w :: rest).map (scatterAt ((w :: rest).map (fun x => (x.2, mu - level N Es x)))
          ∘ fun x => x.2)) = (w :: rest).map (fun x => mu - level N Es x) := by
      apply List.map_congr_left
      intro x hx
      have hsome := lookup_map_of_mem (fun y => mu - level N Es y) (w :: rest) hndk _ hx
      simp only [Function.comp, scatterAt, hsome]
    rw [h1, h2, hsum]
    simp

/-! ### facts other properties import (C09 uses `doWF(Sigma**2, P, noise_var)`) -/

section facts
variable {g p : List α} {P N Es mu : α}

theorem IsWaterFilling.nonneg (h : IsWaterFilling g P N Es p mu) : ∀ y ∈ p, 0 ≤ y := by
  intro y hy
  rw [h.form, List.mem_map] at hy
  obtain ⟨x, _, rfl⟩ := hy
  exact le_max_left _ _

theorem IsWaterFilling.length (h : IsWaterFilling g P N Es p mu) : p.length = g.length := by
  rw [h.form, List.length_map]

theorem IsWaterFilling.getElem (h : IsWaterFilling g P N Es p mu) (j : Nat) (hj : j < g.length)
    (hj' : j < p.length) : p[j] = max 0 (mu - N / (Es * g[j])) := by
  have := h.form
  subst this
  simp

/-- the concrete sort used by the executable model satisfies the `argsort` contract -/
theorem argsortAsc_contract (g : List α) : SortContract g (argsortAsc g) := by
  refine ⟨List.mergeSort_perm _ _, ?_⟩
  have := List.pairwise_mergeSort (le := fun x y : Chan α => !(decide (y.1 < x.1)))
    (by
      intro a b c hab hbc
      simp only [Bool.not_eq_true', decide_eq_false_iff_not, not_lt] at hab hbc ⊢
      exact le_trans hab hbc)
    (by
      intro a b
      simp only [Bool.or_eq_true, Bool.not_eq_true', decide_eq_false_iff_not, not_lt]
      exact le_total _ _)
    g.zipIdx
  refine this.imp ?_
  intro a b hab
  simpa using hab


/-- `doWF` on a non-empty vector of positive gains returns one non-negative power per
    channel, summing to the total power (`0 ≤ P` suffices for these facts). -/
theorem doWF_facts (g : List α) (P N Es : α) (hne : g ≠ []) (hg : ∀ x ∈ g, 0 < x)
    (hP : 0 ≤ P) (hN : 0 < N) (hEs : 0 < Es) :
    ∃ p mu, doWF g P N Es = .ok (p, mu) ∧ p.length = g.length ∧ p.sum = P ∧ (∀ y ∈ p, 0 ≤ y) ∧
      IsWaterFilling g P N Es p mu := by
  obtain ⟨p, mu, h, hw, _⟩ :=
    doWFWith_isWaterFilling g (argsortAsc g) P N Es (argsortAsc_contract g) hne hg hP hN hEs
  exact ⟨p, mu, h, hw.length, hw.sum, hw.nonneg, hw⟩

theorem doWF_sum (g : List α) (P N Es : α) (p : List α) (mu : α) (hne : g ≠ [])
    (hg : ∀ x ∈ g, 0 < x) (hP : 0 ≤ P) (hN : 0 < N) (hEs : 0 < Es)
    (h : doWF g P N Es = .ok (p, mu)) : p.sum = P := by
  obtain ⟨p', mu', h', _, hs, _, _⟩ := doWF_facts g P N Es hne hg hP hN hEs
  rw [h] at h'; cases h'; exact hs

theorem doWF_nonneg (g : List α) (P N Es : α) (p : List α) (mu : α) (hne : g ≠ [])
    (hg : ∀ x ∈ g, 0 < x) (hP : 0 ≤ P) (hN : 0 < N) (hEs : 0 < Es)
    (h : doWF g P N Es = .ok (p, mu)) : ∀ y ∈ p, 0 ≤ y := by
  obtain ⟨p', mu', h', _, _, hn, _⟩ := doWF_facts g P N Es hne hg hP hN hEs
  rw [h] at h'; cases h'; exact hn

theorem doWF_length (g : List α) (P N Es : α) (p : List α) (mu : α) (hne : g ≠ [])
    (hg : ∀ x ∈ g, 0 < x) (hP : 0 ≤ P) (hN : 0 < N) (hEs : 0 < Es)
    (h : doWF g P N Es = .ok (p, mu)) : p.length = g.length := by
  obtain ⟨p', mu', h', hl, _, _, _⟩ := doWF_facts g P N Es hne hg hP hN hEs
  rw [h] at h'; cases h'; exact hl

end facts

end PyPhysim.C12
