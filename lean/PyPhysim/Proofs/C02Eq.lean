import PyPhysim.Proofs.C02Chan

/-!
C02 — the one-tap equaliser: frequency response of a time-invariant impulse
response, `equalize_data` on data that went through that channel, and the
assembly `one_tap_exact`.
-/
set_option linter.unusedSectionVars false
set_option linter.unusedVariables false
namespace PyPhysim.C02
open PyPhysim.Proto Finset

variable {K : Type} [Field K]

/-- `H[k] = Σ_i g_i · ω^{d_i k}`: the frequency response of the taps `(d_i, g_i)` at bin `k` -/
def Hs (ω : K) (delays : List ℕ) (gains : List K) (k : ℕ) : K :=
  ((delays.zip gains).map (fun dg => dg.2 * ω ^ (dg.1 * k))).sum

/-! ### DFT of a sparse (scattered) vector -/

theorem getD_set (acc : List K) (i : ℕ) (v : K) (hi : i < acc.length) (m : ℕ) :
    (acc.set i v).getD m 0 = if m = i then v else acc.getD m 0 := by
  simp only [List.getD_eq_getElem?_getD, List.getElem?_set]
  by_cases h : i = m
  · subst h; simp [hi]
  · rw [if_neg h, if_neg (fun e => h e.symm)]

theorem sum_scatterInto (N : ℕ) (g : ℕ → K) (acc : List K) (idx : List ℕ) (vals : List K)
    (hnd : idx.Nodup) (hlt : ∀ i ∈ idx, i < acc.length) (hN : acc.length ≤ N)
    (hz : ∀ i ∈ idx, acc.getD i 0 = 0) :
    ∑ m ∈ range N, (scatterInto acc idx vals).getD m 0 * g m
      = ∑ m ∈ range N, acc.getD m 0 * g m + ((idx.zip vals).map (fun iv => iv.2 * g iv.1)).sum := by
  induction idx generalizing acc vals with
  | nil => simp [scatterInto]
  | cons i is ih =>
    cases vals with
    | nil => simp [scatterInto]
    | cons v vs =>
      have hnd' := List.nodup_cons.mp hnd
      have hi : i < acc.length := hlt i (by simp)
      simp only [scatterInto, List.zip_cons_cons, List.map_cons, List.sum_cons]
      rw [ih (acc.set i v) vs hnd'.2 (by intro j hj; rw [List.length_set]; exact hlt j (by simp [hj]))
        (by rw [List.length_set]; exact hN)
        (by
          intro j hj
          rw [getD_set _ _ _ hi, if_neg (by intro e; subst e; exact hnd'.1 hj)]
          exact hz j (by simp [hj]))]
      have hsum : ∑ m ∈ range N, (acc.set i v).getD m 0 * g m
          = ∑ m ∈ range N, acc.getD m 0 * g m + v * g i := by
        have hpt : ∀ m ∈ range N, (acc.set i v).getD m 0 * g m
            = acc.getD m 0 * g m + (if m = i then v * g m else 0) := by
          intro m _
          rw [getD_set _ _ _ hi]
          by_cases hmi : m = i
          · subst hmi; rw [if_pos rfl, if_pos rfl, hz m (by simp)]; ring
          · rw [if_neg hmi, if_neg hmi]; ring
        rw [Finset.sum_congr rfl hpt, Finset.sum_add_distrib, Finset.sum_ite_eq' (range N) i (fun m => v * g m)]
        rw [if_pos (Finset.mem_range.mpr (by omega))]
      rw [hsum]; ring

/-- the transform of the dense impulse response (sparse taps scattered into zeros, zero padded
    to `N`) is `H`, provided every tap fits into the transform (`memory < N`) -/
theorem dft_scatter (ω : K) (N n : ℕ) (hn : n ≤ N) (delays : List ℕ) (gains : List K)
    (hnd : delays.Nodup) (hlt : ∀ d ∈ delays, d < n) :
    dft (fun m => ω ^ m) N (scatter n delays gains) = (List.range N).map (Hs ω delays gains) := by
  apply list_ext_getD
  · simp [dft_length]
  · intro k hk
    rw [dft_length] at hk
    rw [dft_getD _ _ _ _ hk, getD_map_range _ _ _ hk]
    unfold scatter Hs
    rw [sum_scatterInto N (fun m => ω ^ (m * k)) _ delays gains hnd (by simpa using hlt) (by simpa using hn)
      (by intro i _; simp only [List.getD_eq_getElem?_getD, List.getElem?_replicate]; split <;> rfl)]
    have : ∑ m ∈ range N, (List.replicate n (0 : K)).getD m 0 * ω ^ (m * k) = 0 := by
      apply Finset.sum_eq_zero
      intro m _
      have : (List.replicate n (0 : K)).getD m 0 = 0 := by
        simp only [List.getD_eq_getElem?_getD, List.getElem?_replicate]; split <;> rfl
      rw [this, zero_mul]
    rw [this, zero_add]

/-- `get_freq_response(fft)` of a time-invariant impulse response, at any sample -/
theorem freqResponse_static (ω : K) (N : ℕ) (delays : List ℕ) (gains : List K) (ns M : ℕ)
    (hM : delays.getLast? = some M) (hd : ∀ d ∈ delays, d ≤ M) (hnd : delays.Nodup) (hMN : M < N)
    (j : ℕ) (hj : j < ns) :
    freqResponse (fun n a => dft (fun m => ω ^ m) n a) N (staticIR delays gains ns) j
      = .ok ((List.range N).map (Hs ω delays gains)) := by
  unfold freqResponse dense ImpulseResponse.memory staticIR
  simp only [hM]
  have : (gains.map (List.replicate ns)).map (fun v => v.getD j 0) = gains := by
    rw [List.map_map]
    conv => rhs; rw [← List.map_id gains]
    apply List.map_congr_left
    intro g _
    simp [List.getD_eq_getElem?_getD, hj]
  rw [this, dft_scatter ω N (M + 1) (by omega) delays gains hnd (by intro d hd'; have := hd d hd'; omega)]

/-! ### `equalize_data` after a time-invariant channel -/

theorem mean_replicate [CharZero K] (w : ℕ) (hw : 0 < w) (a : K) : mean (List.replicate w a) = a := by
  unfold mean
  rw [List.sum_replicate, List.length_replicate, nsmul_eq_mul]
  have : (w : K) ≠ 0 := Nat.cast_ne_zero.mpr (by omega)
  field_simp

theorem rows_replicate {β : Type} (w R : ℕ) (a : β) :
    rows w R (List.replicate (R * w) a) = List.replicate R (List.replicate w a) := by
  induction R with
  | zero => simp [rows]
  | succ R ih =>
    simp only [rows, List.take_replicate, List.drop_replicate, List.replicate_succ]
    have e1 : min w ((R + 1) * w) = w := by rw [Nat.succ_mul]; omega
    have e2 : (R + 1) * w - w = R * w := by rw [Nat.succ_mul]; omega
    rw [e1, e2, ih]

theorem zipWith_replicate_right' {β γ δ : Type} (f : β → γ → δ) (l : List β) (b : γ) :
    List.zipWith f l (List.replicate l.length b) = l.map (fun a => f a b) := by
  induction l with
  | nil => rfl
  | cons a t ih => simp [List.replicate_succ, ih]

theorem zipWith_div_mul (Hu xrow : List K) (hl : Hu.length = xrow.length) (hne : ∀ h ∈ Hu, h ≠ 0) :
    List.zipWith (· / ·) (List.zipWith (· * ·) Hu xrow) Hu = xrow := by
  induction Hu generalizing xrow with
  | nil =>
    have : xrow = [] := List.eq_nil_of_length_eq_zero (by simpa using hl.symm)
    subst this; rfl
  | cons h t ih =>
    cases xrow with
    | nil => simp at hl
    | cons a r =>
      simp only [List.zipWith_cons_cons]
      rw [ih r (by simpa using hl) (fun g hg => hne g (by simp [hg]))]
      have : h ≠ 0 := hne h (by simp)
      congr 1
      field_simp

/-- `equalize_data` on `R ≥ 1` rows of demodulated data in which every used carrier `u_i` was
    multiplied by `H[u_i]`, fed with the time-invariant impulse response (`w` samples per OFDM
    symbol), returns the rows un-multiplied -/
theorem equalize_static [CharZero K] (ω : K) (p : Params) (hp : p.Valid) (delays : List ℕ)
    (gains : List K) (M : ℕ) (hM : delays.getLast? = some M) (hd : ∀ d ∈ delays, d ≤ M)
    (hnd : delays.Nodup) (hMN : M < p.fft)
    (hH : ∀ k ∈ usedIdx p.fft p.used, Hs ω delays gains k ≠ 0)
    (xrows : List (List K)) (hR : xrows ≠ []) (hrow : ∀ r ∈ xrows, r.length = p.used)
    (w : ℕ) (hw : 0 < w) :
    equalize (fun n a => dft (fun m => ω ^ m) n a) p
        ((xrows.map (fun r => List.zipWith (· * ·) ((usedIdx p.fft p.used).map (Hs ω delays gains)) r)).flatten)
        (staticIR delays gains (xrows.length * w))
      = .ok xrows.flatten := by
  have hused : 0 < p.used := by have := hp.2.2.2; omega
  have hRpos : 0 < xrows.length := List.length_pos_iff.mpr hR
  have hul := usedIdx_length p.fft p.used hp.2.2.1
  set Hu := (usedIdx p.fft p.used).map (Hs ω delays gains) with hHu
  set Hvec := (List.range p.fft).map (Hs ω delays gains) with hHvec
  set drows := xrows.map (fun r => List.zipWith (· * ·) Hu r) with hdrows
  have hdrow : ∀ b ∈ drows, b.length = p.used := by
    intro b hb
    obtain ⟨r, hr, rfl⟩ := List.mem_map.mp hb
    simp [hHu, hul, hrow r hr]
  have hdlen : drows.flatten.length = xrows.length * p.used := by
    rw [length_flatten_uniform _ _ hdrow]; simp [hdrows]
  unfold equalize
  simp only
  rw [if_neg (by omega), hdlen, if_neg (by simp), Nat.mul_div_cancel _ hused]
  have hns : (staticIR delays gains (xrows.length * w)).ns = xrows.length * w := rfl
  rw [if_neg (by omega), hns, if_neg (by simp), Nat.mul_div_cancel_left _ hRpos]
  rw [mapM_ok _ (fun _ => Hvec) _ (by
    intro j hj
    exact freqResponse_static ω p.fft delays gains _ M hM hd hnd hMN j (List.mem_range.mp hj))]
  simp only
  rw [List.map_const', List.length_range, rows_replicate, List.map_replicate]
  have hmean : (List.range p.fft).map (fun k => mean ((List.replicate w Hvec).map (fun col => col.getD k 0)))
      = Hvec := by
    rw [hHvec]
    apply List.map_congr_left
    intro k hk
    rw [List.map_replicate, mean_replicate w hw, getD_map_range _ _ _ (List.mem_range.mp hk)]
  rw [hmean]
  have hg : gather (usedIdx p.fft p.used) Hvec = .ok Hu := by
    apply gather_eq_ok
    · simp [hHu]
    · intro k hk
      have hlt := usedIdx_lt p hp _ (List.getElem_mem hk)
      rw [hHvec, hHu, List.getElem?_map, List.getElem?_range hlt, List.getElem?_map,
        List.getElem?_eq_getElem hk]
  rw [mapM_ok _ (fun _ => Hu) _ (by
    intro a ha
    rw [List.eq_of_mem_replicate ha]; exact hg)]
  simp only
  rw [List.map_replicate]
  have hrf := rows_flatten p.used drows hdrow
  have hdl : drows.length = xrows.length := by simp [hdrows]
  rw [hdl] at hrf
  rw [hrf, ← hdl, zipWith_replicate_right', hdrows, List.map_map]
  have hid : xrows.map ((fun a => List.zipWith (· / ·) a Hu) ∘ fun r => List.zipWith (· * ·) Hu r) = xrows := by
    conv => rhs; rw [← List.map_id xrows]
    apply List.map_congr_left
    intro r hr
    simp only [Function.comp, id]
    apply zipWith_div_mul
    · simp [hHu, hul, hrow r hr]
    · intro h hh
      obtain ⟨k, hk, rfl⟩ := List.mem_map.mp hh
      exact hH k hk
  rw [hid]

/-! ### demodulation after the channel, and the assembly -/

theorem mapM_map_ok' {β γ δ : Type} (f : γ → Except PyErr δ) (g : β → γ) (h : β → δ) (l : List β)
    (hh : ∀ a ∈ l, f (g a) = .ok (h a)) : (l.map g).mapM f = .ok (l.map h) := by
  induction l with
  | nil => rfl
  | cons a t ih =>
    rw [List.map_cons, List.mapM_cons, hh a (by simp), ih (fun b hb => hh b (by simp [hb]))]
    rfl

theorem getD_map_div (s : K) (v : List K) (m : ℕ) :
    (v.map (fun a => a / s)).getD m 0 = v.getD m 0 / s := by
  simp only [List.getD_eq_getElem?_getD, List.getElem?_map]
  cases v[m]? <;> simp

theorem zipWith_mul_getD (a b : List K) (k : ℕ) :
    (List.zipWith (· * ·) a b).getD k 0 = a.getD k 0 * b.getD k 0 := by
  simp only [List.getD_eq_getElem?_getD, List.getElem?_zipWith]
  cases a[k]? <;> cases b[k]? <;> simp

theorem rx_row_getD (w C R : ℕ) (z : List K) (hzl : R * w ≤ z.length) (r n : ℕ) (hr : r < R)
    (hn : C + n < w) :
    ((((z.take (R * w)).drop (r * w)).take w).drop C).getD n 0 = z.getD (r * w + C + n) 0 := by
  have h1 : (r + 1) * w ≤ R * w := Nat.mul_le_mul_right w hr
  rw [Nat.succ_mul] at h1
  simp only [List.getD_eq_getElem?_getD, List.getElem?_drop, List.getElem?_take]
  rw [if_pos hn, if_pos (by omega)]
  congr 2
  omega

/-- demodulating what a time-invariant channel with memory `≤ cp` made of the emitted signal gives,
    on every used carrier `u`, the transmitted symbol multiplied by `H[u]` -/
theorem demodulate_after_channel (p : Params) (hp : p.Valid) (ω : K) (hω : IsPrimitiveRoot ω p.fft)
    (hNK : (p.fft : K) ≠ 0) (s : K) (hs : s ≠ 0) (delays : List ℕ) (gains : List K) (M : ℕ)
    (hM : delays.getLast? = some M) (hd : ∀ d ∈ delays, d ≤ M) (hMC : M ≤ p.cp) (x z : List K)
    (hz : corrupt (staticIR delays gains
        (modulate (fun n a => idft (fun m => ω⁻¹ ^ m) n a) s p x).length)
        (modulate (fun n a => idft (fun m => ω⁻¹ ^ m) n a) s p x) = .ok z) :
    demodulate (fun n a => dft (fun m => ω ^ m) n a) s p
        (z.take (modulate (fun n a => idft (fun m => ω⁻¹ ^ m) n a) s p x).length)
      = .ok (((rows p.used (numSymbols p x.length)
            (x ++ List.replicate (p.used * numSymbols p x.length - x.length) 0)).map
          (fun r => List.zipWith (· * ·) ((usedIdx p.fft p.used).map (Hs ω delays gains)) r)).flatten) := by
  set Finv : ℕ → List K → List K := fun n a => idft (fun m => ω⁻¹ ^ m) n a with hFinv
  set F : ℕ → List K → List K := fun n a => dft (fun m => ω ^ m) n a with hF
  have hKP := dft_kernelPair ω p.fft hω hNK
  set R := numSymbols p x.length with hR
  set xpad := x ++ List.replicate (p.used * R - x.length) (0 : K) with hxpad
  set xrows := rows p.used R xpad with hxrows
  have hXs : prepare p x = xrows.map (scatter p.fft (usedIdx p.fft p.used)) := rfl
  set ts := (prepare p x).map (fun X => (Finv p.fft X).map (fun v => s * v)) with hts
  have htx : modulate Finv s p x = (ts.map (addCP p.cp)).flatten := by
    unfold modulate; rw [hts, List.map_map]; rfl
  have htsl : ts.length = R := by rw [hts, List.length_map, prepare_length]
  have htsN : ∀ t ∈ ts, t.length = p.fft := by
    intro t ht
    obtain ⟨X, _, rfl⟩ := List.mem_map.mp ht
    simp [hFinv, idft_length]
  have hlen : (modulate Finv s p x).length = R * (p.fft + p.cp) :=
    modulate_length' Finv s p hp (fun v => idft_length _ _ v) x
  have hw : p.fft + p.cp ≠ 0 := by have := hp.2.2.2; have := hp.2.1; omega
  have hzl := (corrupt_static_getD delays gains _ M hM hd z hz 0).1
  rw [hlen] at hzl ⊢
  unfold demodulate removeCP
  simp only
  have htl : (z.take (R * (p.fft + p.cp))).length = R * (p.fft + p.cp) := by
    rw [List.length_take]; omega
  rw [if_neg hw, htl, Nat.mul_div_cancel _ (Nat.pos_of_ne_zero hw), if_neg (by simp)]
  simp only
  have hul := usedIdx_length p.fft p.used hp.2.2.1
  set Hvec := (List.range p.fft).map (Hs ω delays gains) with hHvec
  set Hu := (usedIdx p.fft p.used).map (Hs ω delays gains) with hHu
  -- the rows after the receiver's FFT
  have hA : ((rows (p.fft + p.cp) R (z.take (R * (p.fft + p.cp)))).map (fun r => r.drop p.cp)).map
      (fun r => (F p.fft r).map (fun v => v / s))
      = (prepare p x).map (fun X => List.zipWith (· * ·) Hvec X) := by
    apply List.ext_getElem
    · rw [List.length_map, List.length_map, rows_length, List.length_map, prepare_length]
    · intro r h1 h2
      have hr : r < R := by simpa [rows_length] using h1
      have hrp : r < (prepare p x).length := by rw [prepare_length]; exact hr
      have hXN : ((prepare p x)[r]).length = p.fft := prepare_row_length p x _ (List.getElem_mem hrp)
      simp only [List.getElem_map]
      have hrow : (rows (p.fft + p.cp) R (z.take (R * (p.fft + p.cp))))[r]'(by rw [rows_length]; exact hr)
          = ((z.take (R * (p.fft + p.cp))).drop (r * (p.fft + p.cp))).take (p.fft + p.cp) := by
        have := getElem?_rows (p.fft + p.cp) R (z.take (R * (p.fft + p.cp))) r hr
        rw [List.getElem?_eq_getElem (by rw [rows_length]; exact hr)] at this
        exact Option.some.inj this
      rw [hrow]
      apply list_ext_getD
      · rw [List.length_map, hF, dft_length, List.length_zipWith, hXN, hHvec]; simp
      · intro k hk
        rw [List.length_map, hF, dft_length] at hk
        rw [getD_map_div, hF, dft_getD _ _ _ _ hk, zipWith_mul_getD]
        have hts_r : ts.getD r [] = ((Finv p.fft ((prepare p x)[r])).map (fun v => s * v)) := by
          rw [hts]
          simp [List.getD_eq_getElem?_getD, List.getElem?_map, List.getElem?_eq_getElem hrp]
        have hsum : ∀ n ∈ range p.fft,
            ((((z.take (R * (p.fft + p.cp))).drop (r * (p.fft + p.cp))).take (p.fft + p.cp)).drop p.cp).getD n 0
              * ω ^ (n * k)
            = ((delays.zip gains).map (fun dg => dg.2 * (ts.getD r []).getD ((n + p.fft - dg.1) % p.fft) 0)).sum
              * ω ^ (n * k) := by
          intro n hn
          have hn' := Finset.mem_range.mp hn
          rw [rx_row_getD _ _ _ _ (by omega) _ _ hr (by omega)]
          rw [← cp_makes_circular' p.fft p.cp hp.1 ts htsN delays gains M hM hd hMC z
            (by rw [← htx]; rw [hlen] at hz ⊢; exact hz) r n (by rw [htsl]; exact hr) hn']
        rw [Finset.sum_congr rfl hsum,
          dft_circ ω p.fft hω.pow_eq_one (fun m => (ts.getD r []).getD m 0) (delays.zip gains)
            (by
              intro dv hdv
              have := hd dv.1 (List.of_mem_zip hdv).1
              have := hp.1
              omega) k]
        rw [← dft_getD (fun m => ω ^ m) p.fft (ts.getD r []) k hk, hts_r]
        have := hKP.homog s (Finv p.fft ((prepare p x)[r])) (hKP.len_inv _)
        have hHk : Hvec.getD k 0 = Hs ω delays gains k := getD_map_range _ _ _ hk _
        rw [this, hKP.inv _ hXN, getD_map_mul, hHk]
        unfold Hs
        field_simp
  rw [hA, hXs, List.map_map]
  unfold unprepare
  have hpad := padded_length p hp x
  rw [mapM_map_ok' _ _ (fun xr => List.zipWith (· * ·) Hu xr)]
  · rfl
  · intro xr hxr
    have hxl : xr.length = p.used := rows_row_length p.used R xpad (Nat.le_of_eq hpad.symm) xr hxr
    simp only [Function.comp]
    apply gather_eq_ok
    · rw [List.length_zipWith, hHu, List.length_map, hul, hxl]; simp
    · intro k hk
      have hku : k < p.used := by rw [hul] at hk; exact hk
      have hlt := usedIdx_lt p hp _ (List.getElem_mem hk)
      have hsc := scatterInto_getElem (List.replicate p.fft (0 : K)) (usedIdx p.fft p.used) xr
        (usedIdx_nodup p hp) (by rw [hul, hxl]) (by simpa using usedIdx_lt p hp) k hk
      rw [List.getElem?_zipWith, List.getElem?_zipWith]
      unfold scatter
      rw [hsc, hHvec, hHu, List.getElem?_map, List.getElem?_range hlt, List.getElem?_map,
        List.getElem?_eq_getElem hk, List.getElem?_eq_getElem (by omega : k < xr.length)]

theorem numSymbols_zero (p : Params) (hp : p.Valid) : numSymbols p 0 = 0 := by
  unfold numSymbols ceilDiv
  have := hp.2.2.2
  exact Nat.div_eq_of_lt (by omega)

/-- no symbols in, no symbols out (the equaliser returns empty data unchanged) -/
theorem one_tap_empty (p : Params) (hp : p.Valid) (F Finv : ℕ → List K → List K) (s : K)
    (ir : ImpulseResponse K) (M : ℕ) (hM : ir.delays.getLast? = some M) :
    oneTapReceive F s p ir (modulate Finv s p []) = .ok ([] ++ List.replicate (zeropad p 0) 0) := by
  have hw : p.fft + p.cp ≠ 0 := by have := hp.2.2.2; have := hp.2.1; omega
  have hu : p.used ≠ 0 := by have := hp.2.2.2; omega
  have hm : modulate Finv s p ([] : List K) = [] := by
    unfold modulate prepare
    simp [numSymbols_zero p hp, rows]
  have hz : zeropad p 0 = 0 := by unfold zeropad; rw [numSymbols_zero p hp]; simp
  rw [hm, hz]
  unfold oneTapReceive corrupt ImpulseResponse.memory
  simp only [hM, List.length_nil, List.take_zero]
  have hd : demodulate F s p ([] : List K) = .ok [] := by
    unfold demodulate removeCP
    simp only [List.length_nil, Nat.zero_div, Nat.zero_mul, ne_eq, not_true_eq_false, if_false, if_neg hw]
    rfl
  rw [hd]
  simp only
  unfold equalize
  simp [hu]

/-- **one_tap_exact**: modulate, time-invariant TDL channel with memory `≤ cp` and `< fft`, keep the
    first `len(tx)` samples, demodulate, one-tap equalise with the reported impulse response:
    the input symbols come back followed only by the zero padding -/
theorem one_tap_exact' [CharZero K] (p : Params) (hp : p.Valid) (ω : K) (hω : IsPrimitiveRoot ω p.fft)
    (s : K) (hs : s ≠ 0) (delays : List ℕ) (gains : List K) (M : ℕ)
    (hM : delays.getLast? = some M) (hd : ∀ d ∈ delays, d ≤ M) (hnd : delays.Nodup)
    (hMC : M ≤ p.cp) (hMN : M < p.fft)
    (hH : ∀ k ∈ usedIdx p.fft p.used, Hs ω delays gains k ≠ 0) (x : List K) :
    oneTapReceive (fun n a => dft (fun m => ω ^ m) n a) s p
        (staticIR delays gains (modulate (fun n a => idft (fun m => ω⁻¹ ^ m) n a) s p x).length)
        (modulate (fun n a => idft (fun m => ω⁻¹ ^ m) n a) s p x)
      = .ok (x ++ List.replicate (zeropad p x.length) 0) := by
  by_cases hx : x = []
  · subst hx
    exact one_tap_empty p hp _ _ s _ M hM
  have hNK : (p.fft : K) ≠ 0 := Nat.cast_ne_zero.mpr (by have := hp.2.2.2; have := hp.2.1; omega)
  obtain ⟨z, hz⟩ : ∃ z, corrupt (staticIR delays gains
      (modulate (fun n a => idft (fun m => ω⁻¹ ^ m) n a) s p x).length)
      (modulate (fun n a => idft (fun m => ω⁻¹ ^ m) n a) s p x) = .ok z := by
    unfold corrupt ImpulseResponse.memory staticIR
    simp only [hM]
    exact ⟨_, rfl⟩
  unfold oneTapReceive
  rw [hz]
  simp only
  rw [demodulate_after_channel p hp ω hω hNK s hs delays gains M hM hd hMC x z hz]
  simp only
  have hlen := modulate_length' (fun n a => idft (fun m => ω⁻¹ ^ m) n a) s p hp
    (fun v => idft_length _ _ v) x
  have hpad := padded_length p hp x
  have hRpos : 0 < numSymbols p x.length := by
    have hu : 0 < p.used := by have := hp.2.2.2; omega
    have h1 := ceilDiv_mul_ge x.length p.used hu
    have h2 : 0 < x.length := List.length_pos_iff.mpr hx
    unfold numSymbols
    rcases Nat.eq_zero_or_pos (ceilDiv x.length p.used) with h0 | h0
    · rw [h0] at h1; omega
    · exact h0
  have hrl := rows_length p.used (numSymbols p x.length)
    (x ++ List.replicate (p.used * numSymbols p x.length - x.length) (0 : K))
  have key := equalize_static ω p hp delays gains M hM hd hnd hMN hH
    (rows p.used (numSymbols p x.length)
      (x ++ List.replicate (p.used * numSymbols p x.length - x.length) (0 : K))) (by
      intro h; rw [h] at hrl; simp at hrl; omega)
    (rows_row_length _ _ _ (Nat.le_of_eq hpad.symm)) (p.fft + p.cp)
    (by have := hp.2.2.2; have := hp.2.1; omega)
  rw [hrl] at key
  rw [hlen, key]
  rw [flatten_rows _ _ _ hpad]
  rfl

end PyPhysim.C02
