import PyPhysim.Proofs.C02Pair

/-!
C02 — robustness classes R15 (distinct values that are merely close) and R16
(argument identity / buffer reuse) on the model side.

R15: the model's comparisons are *exact*: two valid parameter triples that differ
anywhere (by 1 in 2^18, say) are different configurations, a setter called with a
new triple always takes effect, the all-subcarriers fast path of the index map
is taken at exact equality `used = fft` only, distinct `used` give distinct index
maps, and a perturbation of the taps changes the frequency response by exactly
the response of the perturbation (nothing is "close enough to be ignored").

R16: the model has no notion of the identity of an array: the k-th output of a
history is a function of the configuration in force and of the *contents* handed
to that call; outputs already produced are not changed by what is called later.
-/
set_option linter.unusedSectionVars false
namespace PyPhysim.C02
open PyPhysim.Proto

/-! ### R15 — exact comparisons -/

/-- what `set_parameters` accepts, it stores unchanged; so two accepted calls that store the same
    configuration were called with the same values (`None` read as `fft_size`) -/
theorem setParameters_injective (f c f' c' : Int) (u u' : Option Int) (p : Params)
    (h : setParameters f c u = .ok p) (h' : setParameters f' c' u' = .ok p) :
    f = f' ∧ c = c' ∧ u.getD f = u'.getD f' := by
  have hv : ValidInt f c (u.getD f) := by
    by_contra hn; rw [setParameters_error _ _ _ hn] at h; cases h
  have hv' : ValidInt f' c' (u'.getD f') := by
    by_contra hn; rw [setParameters_error _ _ _ hn] at h'; cases h'
  rw [setParameters_ok _ _ _ hv] at h
  rw [setParameters_ok _ _ _ hv'] at h'
  cases h
  injection h' with h'
  injection h' with e1 e2 e3
  obtain ⟨a1, a2, a3, _, a5⟩ := hv
  obtain ⟨b1, b2, b3, _, b5⟩ := hv'
  omega

/-- the all-subcarriers branch of the index map is taken at EXACT equality only: bin 0 (DC) carries
    data iff `used = fft` — however close `used` is to `fft` otherwise -/
theorem zero_mem_usedIdx_iff (p : Params) (hp : p.Valid) : 0 ∈ usedIdx p.fft p.used ↔ p.used = p.fft := by
  constructor
  · intro h
    by_contra hne
    have hlt : p.used < p.fft := by have := hp.2.1; omega
    exact zero_not_mem_usedIdx p hp hlt h
  · intro heq
    rw [mem_usedIdx_of_eq p hp heq]
    have := hp.2.2.2; omega

/-- distinct numbers of used subcarriers give distinct index maps -/
theorem usedIdx_injective (fft u u' : Nat) (hu : u % 2 = 0) (hu' : u' % 2 = 0)
    (h : usedIdx fft u = usedIdx fft u') : u = u' := by
  have := congrArg List.length h
  rwa [usedIdx_length _ _ hu, usedIdx_length _ _ hu'] at this

section pair
variable {α : Type} [Zero α] [Add α] [Mul α] [Div α] [NatCast α]

/-- a `set_parameters` call with a valid triple stores exactly that triple, whatever the object held -/
theorem stepPair_set_valid (F Finv : ℕ → List α → List α) (sc : Params → α) (s : Pair) (f c : Int)
    (u : Option Int) (h : ValidInt f c (u.getD f)) :
    (stepPair F Finv sc s (.setParams f c u)).1 = ⟨⟨f.toNat, c.toNat, (u.getD f).toNat⟩⟩ := by
  simp [stepPair, setParameters_ok _ _ _ h]

/-! ### R16 — results depend on the contents handed over, not on what else was called -/

theorem runPair_length (F Finv : ℕ → List α → List α) (sc : Params → α) (s : Pair) (ops : List (PairOp α)) :
    (runPair F Finv sc s ops).2.length = ops.length := by
  induction ops generalizing s with
  | nil => rfl
  | cons op ops ih => simp [runPair, ih]

theorem runPair_append (F Finv : ℕ → List α → List α) (sc : Params → α) (s : Pair)
    (ops more : List (PairOp α)) :
    runPair F Finv sc s (ops ++ more)
      = ((runPair F Finv sc (runPair F Finv sc s ops).1 more).1,
         (runPair F Finv sc s ops).2 ++ (runPair F Finv sc (runPair F Finv sc s ops).1 more).2) := by
  induction ops generalizing s with
  | nil => rfl
  | cons op ops ih => simp [runPair, ih]

/-- two histories with the same `set_parameters` calls leave the pair in the same state, whatever
    arrays the other calls were given -/
theorem runPair_state_of_setOps (F Finv : ℕ → List α → List α) (sc : Params → α) (s : Pair)
    (ops ops' : List (PairOp α)) (h : setOps ops = setOps ops') :
    (runPair F Finv sc s ops).1 = (runPair F Finv sc s ops').1 := by
  have e : (runPair F Finv sc s ops).1.ofdm = (runPair F Finv sc s ops').1.ofdm := by
    rw [runPair_ofdm, runPair_ofdm, h]
  cases h1 : (runPair F Finv sc s ops).1
  cases h2 : (runPair F Finv sc s ops').1
  rw [h1, h2] at e
  simp only at e
  rw [e]

end pair

/-! ### R15 — the frequency response is additive in the taps -/

section field
variable {K : Type} [Field K]

/-- perturbing every tap `g_i` by `δ_i` changes `H[k]` by exactly the response of the perturbation -/
theorem Hs_add (ω : K) (delays : List ℕ) (gains deltas : List K) (hl : gains.length = deltas.length)
    (k : ℕ) :
    Hs ω delays (List.zipWith (· + ·) gains deltas) k = Hs ω delays gains k + Hs ω delays deltas k := by
  unfold Hs
  induction delays generalizing gains deltas with
  | nil => simp
  | cons d ds ih =>
    cases gains with
    | nil =>
      cases deltas with
      | nil => simp
      | cons e es => simp at hl
    | cons g gs =>
      cases deltas with
      | nil => simp at hl
      | cons e es =>
        simp only [List.length_cons, Nat.add_right_cancel_iff] at hl
        simp only [List.zipWith_cons_cons, List.zip_cons_cons, List.map_cons, List.sum_cons]
        rw [ih gs es hl]
        ring

end field
end PyPhysim.C02
